/-
Model for C17 — runs are reproducible, resumable from any checkpoint, and independent of the
completion schedule of `toolbox.map`.

This is the *algebra* of checkpointing and of order-preserving parallel maps, nothing more:
  * a run is the n-fold iterate of a step function over `S` = everything the loop owns
    (population, archive, logbook, strategy, selector memory, both generator states);
  * a checkpoint is `enc` (pickle), a kill loses everything but the bytes, `dec` (unpickle)
    gives the state the resumed process continues from;
  * `pmap` is `Pool.map`: tasks are submitted in list order, complete in an arbitrary order
    (the *schedule*), each completion fills the slot of its submission index, and the caller
    reads the slots in submission order;
  * the generation loops of `algorithms.py` consume map results only through
    `zip(invalid_ind, fitnesses)`, i.e. in submission order.
Import-free and executable.
-/
namespace Resume

/-! ### Runs and checkpoints -/

/-- A run: `S` is the complete loop state, `B` the checkpoint format (bytes). -/
structure Run (S B : Type) where
  step : S → S
  enc : S → B
  dec : B → Option S

/-- `n` generations from `s` (the first generation is applied first). -/
def run {S B : Type} (r : Run S B) : Nat → S → S
  | 0, s => s
  | n + 1, s => run r n (r.step s)

/-- Write a checkpoint of `s`, get killed, start a new process and load the checkpoint. -/
def reload {S B : Type} (r : Run S B) (s : S) : Option S := r.dec (r.enc s)

/-- Run `k` generations, checkpoint, kill, reload, continue for the remaining `n - k`. -/
def resumeFrom {S B : Type} (r : Run S B) (k n : Nat) (s : S) : Option S :=
  (reload r (run r k s)).map (run r (n - k))

/-- Several crashes: the process is at generation `g` in state `s`, is killed (after a
checkpoint) at each of the generations `ks` (absolute generation numbers, in the order they
happen) and finally runs to generation `n`. -/
def resumeMany {S B : Type} (r : Run S B) : List Nat → Nat → Nat → S → Option S
  | [], g, n, s => some (run r (n - g) s)
  | k :: ks, g, n, s => (reload r (run r (k - g) s)).bind (resumeMany r ks k n)

/-- The toy run of the driver: `step (a, b) = (a + b, b + 1)`.  With `drop = true` the
checkpoint forgets the component `b` (an incomplete `__getstate__`). -/
def toyRun (drop : Bool) : Run (Int × Int) (Int × Int) where
  step := fun s => (s.1 + s.2, s.2 + 1)
  enc := fun s => if drop then (s.1, 0) else s
  dec := fun b => some b

/-! ### Hidden state: a component the step reads and writes but a checkpoint does not save

`V` is what the property lists (population, archive, logbook, strategy object, both generator states), `H` is
whatever else the library keeps between two generations: module-level containers and iterators, class attributes,
function defaults, closure cells.  `enc` pickles `V` only.  A new process starts with the import-time value of `H`. -/

/-- A run with hidden state. -/
structure HRun (V H B : Type) where
  step : V × H → V × H
  enc : V → B
  dec : B → Option V

/-- `n` generations from `(v, h)`. -/
def hrun {V H B : Type} (r : HRun V H B) : Nat → V × H → V × H
  | 0, s => s
  | n + 1, s => hrun r n (r.step s)

/-- Run `k` generations, pickle the VISIBLE part, get killed; a new process (hidden state `h0`, what importing the
library gives) restores and runs the remaining `n - k` generations. -/
def hresumeFrom {V H B : Type} (r : HRun V H B) (h0 : H) (k n : Nat) (s : V × H) : Option (V × H) :=
  (r.dec (r.enc (hrun r k s).1)).map (fun v => hrun r (n - k) (v, h0))

/-- The same run started a second time in the SAME process: the hidden state is what the first run left behind. -/
def hrerun {V H B : Type} (r : HRun V H B) (n : Nat) (v : V) (h : H) : V × H :=
  hrun r n (v, (hrun r n (v, h)).2)

/-- The checkpoint of generation `k` restored in the SAME process after the uninterrupted run has finished. -/
def hrestoreSame {V H B : Type} (r : HRun V H B) (k n : Nat) (s : V × H) : Option (V × H) :=
  (r.dec (r.enc (hrun r k s).1)).map (fun v => hrun r (n - k) (v, (hrun r n s).2))

/-- Non-interference: the visible output of a step does not depend on the hidden component. -/
def NonInterfering {V H B : Type} (r : HRun V H B) : Prop :=
  ∀ v h h', (r.step (v, h)).1 = (r.step (v, h')).1

/-- What the hidden-state detector of the harness observes: no step changes the hidden component. -/
def HiddenConstant {V H B : Type} (r : HRun V H B) : Prop :=
  ∀ s, (r.step s).2 = s.2

/-- Forgetting a hidden component that is not there: an `HRun` over `H = Unit` is a `Run`. -/
def HRun.toRun {V B : Type} (r : HRun V Unit B) : Run V B where
  step := fun v => (r.step (v, ())).1
  enc := r.enc
  dec := r.dec

/-- Conversely every `Run` over a product state whose checkpoint keeps the first component only. -/
def Run.hide {V H B : Type} (step : V × H → V × H) (enc : V → B) (dec : B → Option V) : HRun V H B :=
  ⟨step, enc, dec⟩

/-- The toy of the driver: the visible state is a number, the hidden state the position of a module-level
`itertools.cycle((grow, full))` (seeded change C17-r4m3).  A step appends a digit to the number — `1` when the cycle
says "full" and the operator listens to it (`uses`), `0` otherwise — and advances the cycle.  With `uses = false`
the hidden state is written but never read. -/
def toyHidden (uses : Bool) : HRun Int Bool Int where
  step := fun s => (if uses && s.2 then 2 * s.1 + 1 else 2 * s.1, !s.2)
  enc := fun v => v
  dec := fun b => some b

/-- A hidden table that is read but never written (a module-level constant): the step adds `h`. -/
def toyConst : HRun Int Int Int where
  step := fun s => (s.1 + s.2, s.2)
  enc := fun v => v
  dec := fun b => some b

/-! ### Order-preserving parallel map with an arbitrary completion schedule -/

/-- The task with submission index `i` completes: its result goes to slot `i`.
An index that was never submitted is ignored. -/
def complete {α β : Type} (f : α → β) (xs : List α) (buf : List (Option β)) (i : Nat) :
    List (Option β) :=
  match xs[i]? with
  | some x => buf.set i (some (f x))
  | none => buf

/-- The result buffer after the completions `sched`, starting from all slots empty. -/
def pmapBuf {α β : Type} (f : α → β) (xs : List α) (sched : List Nat) : List (Option β) :=
  sched.foldl (complete f xs) (List.replicate xs.length none)

/-- Read the buffer in slot order; `none` if a slot is still empty. -/
def collect {β : Type} : List (Option β) → Option (List β)
  | [] => some []
  | none :: _ => none
  | some b :: rest => (collect rest).map (b :: ·)

/-- `Pool.map f xs` under the completion schedule `sched` (a list of submission indices). -/
def pmap {α β : Type} (f : α → β) (xs : List α) (sched : List Nat) : Option (List β) :=
  collect (pmapBuf f xs sched)

/-! ### A generation loop that consumes map results through `zip` -/

/-- `zip(invalid_ind, toolbox.map(toolbox.evaluate, invalid_ind))`. -/
def evalStep {α β : Type} (mapper : (α → β) → List α → List β) (f : α → β) (pop : List α) :
    List (α × β) :=
  pop.zip (mapper f pop)

/-- The problem-specific part of a loop: the evaluation function and one generation of
selection/variation, which reads and updates `σ` = everything else the loop owns (generator
states, archive, logbook, strategy) and produces the offspring to evaluate. -/
structure Loop (σ α β : Type) where
  eval : α → β
  vary : σ → List (α × β) → σ × List α

/-- Loop state: generation counter, the rest of the owned state, population and fitnesses. -/
structure LoopState (σ α β : Type) where
  gen : Nat
  aux : σ
  pop : List α
  fits : List β
deriving Repr, DecidableEq

/-- Evaluate `pop` with the mapper of generation `gen` and store the zipped result. -/
def evaluated {σ α β : Type} (m : Nat → (α → β) → List α → List β) (L : Loop σ α β)
    (gen : Nat) (aux : σ) (pop : List α) : LoopState σ α β :=
  let ev := evalStep (m gen) L.eval pop
  ⟨gen, aux, ev.map Prod.fst, ev.map Prod.snd⟩

/-- Generation 0: evaluate the initial population. -/
def genInit {σ α β : Type} (m : Nat → (α → β) → List α → List β) (L : Loop σ α β)
    (aux : σ) (pop : List α) : LoopState σ α β :=
  evaluated m L 0 aux pop

/-- One generation; `m g` is the map used by the `g`-th call (it may differ per call:
another pool, another completion order). -/
def genStep {σ α β : Type} (m : Nat → (α → β) → List α → List β) (L : Loop σ α β)
    (st : LoopState σ α β) : LoopState σ α β :=
  let v := L.vary st.aux (st.pop.zip st.fits)
  evaluated m L (st.gen + 1) v.1 v.2

/-- `n` generations. -/
def genLoop {σ α β : Type} (m : Nat → (α → β) → List α → List β) (L : Loop σ α β) :
    Nat → LoopState σ α β → LoopState σ α β
  | 0, st => st
  | n + 1, st => genLoop m L n (genStep m L st)

/-- The sequential map, whatever the generation. -/
def seqMapper {α β : Type} : Nat → (α → β) → List α → List β := fun _ f xs => xs.map f

/-- The parallel map whose `g`-th call on `n` tasks completes in the order `sch g n`.
A call in which a task never completes yields no results (`[]`). -/
def schedMapper {α β : Type} (sch : Nat → Nat → List Nat) : Nat → (α → β) → List α → List β :=
  fun g f xs => (pmap f xs (sch g xs.length)).getD []

/-- A family of completion schedules: even generations complete in submission order, odd
generations in reverse. -/
def flipSched (g n : Nat) : List Nat := if g % 2 = 0 then List.range n else (List.range n).reverse

/-- A toy loop for the examples: evaluate `3 x + 1`, offspring = each individual plus its
fitness plus a counter kept in the auxiliary state. -/
def toyLoop : Loop Int Int Int where
  eval := fun x => 3 * x + 1
  vary := fun c ev => (c + 1, ev.map (fun p => p.1 + p.2 + c))

end Resume
