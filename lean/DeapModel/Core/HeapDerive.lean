/-
C16 — creator classes DERIVED FROM creator classes (`creator.create("Sub", creator.Ind, bound=9)`).
Import-free and executable (imports only `Core/Heap.lean`).  Transcribed from `deap/creator.py:99-134`:

    class MetaCreator(type):
        def __init__(cls, name, base, dct):
            dict_inst, dict_cls = {}, {}                      # split of THIS class's keyword arguments
            ...
            def init_type(self, *args, **kargs):
                for obj_name, obj in dict_inst.items():       # the CLOSURE's dict: this class's own declarations
                    setattr(self, obj_name, obj())
                if base.__init__ is not object.__init__:
                    base.__init__(self, *args, **kargs)       # a created base: ITS init_type, with ITS closure dict
            cls.__init__ = init_type

`Sub(items)` therefore runs the `setattr` loops of `Sub`, then of `Sub`'s created parent, then of that parent's
created parent … and finally the `__init__` of the built-in root base.  Every declaration on the creator-MRO is
instantiated once per object; a name declared on several levels is instantiated on each of them and the value
set LAST — the one of the class nearest the root — is what the instance keeps (`setattr` on an existing key keeps
the key's position in `__dict__`); the objects set earlier under that name are garbage.
-/
import DeapModel.Core.Heap

namespace Heap

/-- A creator class of a derivation chain: its created parent (`none`: the base is a built-in container), the
kind of the root base (how copy / pickle treat its instances), and the split of ITS OWN keyword arguments. -/
structure DClass where
  parent : Option Nat
  kind : Kind
  dictInst : List (Name × ClsId)
  dictCls : List (Name × Val)
deriving DecidableEq, Repr

/-- The derivation hierarchy (index = class; a class is created after its parent).  The classes of the
per-instance attributes live in an ordinary `ClassTable`. -/
abbrev DTable := List DClass

/-- The `setattr(self, name, cls())` steps of `C(items)` in execution order: the class's own closure dict, then
(through `base.__init__(self, …)`) the steps of its created parent.  Fuel = length of the chain. -/
def initSteps (dt : DTable) : Nat → Nat → List (Name × ClsId)
  | 0, _ => []
  | n + 1, d =>
    match dt[d]? with
    | none => []
    | some dc =>
      dc.dictInst ++ (match dc.parent with
        | some p => initSteps dt n p
        | none => [])

/-- Every per-instance declaration on the creator-MRO of class `d`, the class's own first. -/
def mroDecl (dt : DTable) (d : Nat) : List (Name × ClsId) := initSteps dt dt.length d

/-- A sequence of `setattr`s on a `__dict__`. -/
def setAll (sets acc : List (Name × Val)) : List (Name × Val) :=
  sets.foldl (fun a p => dictSet p.1 p.2 a) acc

/-- The identity of derived class `d` as the class of an object (after the classes of `ct`). -/
def clsOfD (ct : ClassTable) (d : Nat) : ClsId := ct.length + d

/-- `creator.<derived class d>(items)`: reserve the object, run every `setattr` step of the `__init__` chain
(each an instantiation `cls()` in `ct`, `Heap.instAttrs`), then the root base's `__init__`
(`baseInitAttrs`). -/
def createD (ct : ClassTable) (dt : DTable) (st : State) (d : Nat) (items : List Val) :
    Option (State × Oid) :=
  match dt[d]? with
  | none => none
  | some dc =>
    match instAttrs ct ⟨st.objs, st.next + 1, st.memo⟩ (mroDecl dt d) with
    | none => none
    | some (sb, sets) =>
      some (⟨define sb.objs st.next
        ⟨clsOfD ct d, items, dictUpdate (setAll sets []) (baseInitAttrs dc.kind), dc.kind != .node⟩,
        sb.next, sb.memo⟩, st.next)

/-- The class the instance attribute `name` of an instance of `d` ends up with: the LAST declaration of that
name in execution order, i.e. the one of the class nearest the root. -/
def lastDecl (name : Name) : List (Name × ClsId) → Option ClsId
  | [] => none
  | p :: r =>
    match lastDecl name r with
    | some c => some c
    | none => if p.1 = name then some p.2 else none

def effClass (dt : DTable) (d : Nat) (name : Name) : Option ClsId := lastDecl name (mroDecl dt d)

/-- Class-level attributes along the MRO (`dict_cls` of the class, then of its parents). -/
def classAttr (dt : DTable) (name : Name) : Nat → Nat → Option Val
  | 0, _ => none
  | n + 1, d =>
    match dt[d]? with
    | none => none
    | some dc =>
      match lookup name dc.dictCls with
      | some v => some v
      | none => match dc.parent with
        | some p => classAttr dt name n p
        | none => none

/-- `getattr(obj, name)` for an instance of a derived class: instance `__dict__`, then the classes on the MRO. -/
def getattrD (ct : ClassTable) (dt : DTable) (objs : Oid → Option Obj) (x : Oid) (name : Name) : Option Val :=
  match objs x with
  | none => none
  | some o =>
    match lookup name o.attrs with
    | some v => some v
    | none => classAttr dt name dt.length (o.cls - ct.length)

/-- The class as copy / pickle see it: ONE class info whose `dict_inst` is the effective declaration per name
(first position, last class) — the table over which `Heap.copyVal` / `rebuild` treat instances of derived
classes (a hook that calls the class again re-runs the whole `__init__` chain; the garbage objects of
redeclared names are unobservable). -/
def effDictInst (l : List (Name × ClsId)) : List (Name × ClsId) :=
  l.foldl (fun a p => if (lookup p.1 a).isSome then a.map (fun q => if q.1 = p.1 then (q.1, p.2) else q)
                      else a ++ [p]) []

def effInfo (dt : DTable) (d : Nat) (dc : DClass) : ClassInfo :=
  { kind := dc.kind, dictInst := effDictInst (mroDecl dt d), dictCls := dc.dictCls }

def effTableAux (dt : DTable) : Nat → List DClass → ClassTable
  | _, [] => []
  | d, dc :: r => effInfo dt d dc :: effTableAux dt (d + 1) r

def effTable (ct : ClassTable) (dt : DTable) : ClassTable := ct ++ effTableAux dt 0 dt

/-- A history over one hierarchy: `create` makes the next class of `dt` exist, `inst d items` instantiates class
`d` (which must exist by then).  Answers the created roots in order. -/
inductive DEvent where
  | create
  | inst (d : Nat) (items : List Val)

def runEvents (ct : ClassTable) (dt : DTable) :
    List DEvent → Nat → State → List Val → Option (State × List Val)
  | [], _, st, roots => some (st, roots)
  | .create :: r, made, st, roots => runEvents ct dt r (made + 1) st roots
  | .inst d items :: r, made, st, roots =>
    if d < made then
      match createD ct (dt.take made) st d items with
      | none => none
      | some (st', x) => runEvents ct dt r made st' (roots ++ [.ref x])
    else none

end Heap
