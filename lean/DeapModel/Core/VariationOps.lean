/-
C02 — the registered operators of `varAnd` / `varOr`, no longer parameters: the operator models of
C09 (`Core/CrossMut.lean`), C10 (`Core/RealOps.lean`) and C11 (`Core/GpTree.lean`) LIFTED to the heap
transformers `Variation.Ops` expects, and the `gp.staticLimit` decorator as a heap-level wrapper.

Import-free and executable (linked into the driver: protocol ops `andc` / `orc` run `varAnd` / `varOr`
end to end with these operators).

* Lifting (`liftMate`, `liftMutate`).  An in-place operator of `deap.tools` / `deap.gp` mutates the sequence
  objects it is given through item / slice assignment and returns them (`return ind1, ind2` / `return individual,`).
  Its model is a function from the contents before the call (and its random tape) to the contents after the
  call; the lifting writes exactly the genomes of the oids it was given, returns those oids, allocates nothing
  and leaves every `fitness` as it is.
* Views.  The heap of `Core/Variation.lean` stores a genome as `List Int`.  Integer genes are stored as they
  are; a `float` gene through a `FloatView` (the driver uses the IEEE bit pattern), an evolution-strategy
  individual as `len(genes) :: genes ++ strategy`, a `PrimitiveTree` through a `View (List Prim)`.  The
  theorems hold for EVERY view (they are parameters), so no property of a coding is assumed anywhere.
* Tape (`LTape`).  The operator draws in call order (`random()` results, integer draws of
  `randint`/`randrange`/`sample`/`choice`, `gauss` results), the GP tape of `Core/GpTree.lean`, and an `ok` flag:
  once an operator call raised (its `…Ok` guard fails, its model answers `none` / an error) or the tape does not
  fit, every later operator call is the identity and the driver answers `bad-tape`.
* `limitMate` / `limitMutate`: `gp.staticLimit(key, max_value)` (gp.py:936-979, as it is after the fixes F22/F27):
  deep copies of the arguments are kept, the operator runs, and every returned individual that is over the limit
  is replaced by a NEW deep copy of a randomly chosen kept copy.
-/
import DeapModel.Core.Variation
import DeapModel.Core.CrossMut
import DeapModel.Core.RealOps
import DeapModel.Core.GpTree

namespace Variation

/-! ## 1. Lifting of in-place genome operators -/

/-- a two-parent in-place operator: state (random tape) and the contents of both sequence objects before the
call ↦ state and contents after the call -/
abbrev GOp2 (τ : Type) := τ → List Int → List Int → τ × List Int × List Int
/-- a one-parent in-place operator -/
abbrev GOp1 (τ : Type) := τ → List Int → τ × List Int

/-- `toolbox.mate(a, b)` for an in-place operator: the genomes of `a` and `b` are overwritten
(`ind1[..] = ..`), the very arguments are returned (`return ind1, ind2`), nothing is allocated, no
fitness is read or written.  (`a = b`, the same object twice, never happens in `varAnd`/`varOr` — they pass
two different clones —; there the model lets the second write win.) -/
def liftMate {τ : Type} (f : GOp2 τ) (t : τ) (h : Heap) (n a b : Nat) : MateRes τ :=
  let r := f t (h a).genome (h b).genome
  let xa : Obj := { h a with genome := r.2.1 }
  let xb : Obj := { h b with genome := r.2.2 }
  { tape := r.1, heap := (h.set a xa).set b xb, next := n, fst := a, snd := b }

/-- `toolbox.mutate(a)` for an in-place operator (`return individual,`). -/
def liftMutate {τ : Type} (g : GOp1 τ) (t : τ) (h : Heap) (n a : Nat) : MutRes τ :=
  let r := g t (h a).genome
  let xa : Obj := { h a with genome := r.2 }
  { tape := r.1, heap := h.set a xa, next := n, ret := a }

def liftOps {τ : Type} (f : GOp2 τ) (g : GOp1 τ) : Ops τ := ⟨liftMate f, liftMutate g⟩

/-- a coding of a representation `G` as heap genomes -/
structure View (G : Type) where
  dec : List Int → G
  enc : G → List Int

def View.op2 {G τ : Type} (v : View G) (f : τ → G → G → τ × G × G) : GOp2 τ := fun t a b =>
  let r := f t (v.dec a) (v.dec b)
  (r.1, v.enc r.2.1, v.enc r.2.2)

def View.op1 {G τ : Type} (v : View G) (f : τ → G → τ × G) : GOp1 τ := fun t a =>
  let r := f t (v.dec a)
  (r.1, v.enc r.2)

/-- how a `float` gene is stored in a heap genome -/
structure FloatView where
  dec : Int → Float
  enc : Float → Int

/-- the driver's view: the IEEE-754 bit pattern -/
def bitsView : FloatView where
  dec := fun i => Float.ofBits (UInt64.ofNat i.toNat)
  enc := fun x => Int.ofNat x.toBits.toNat

/-- a text as one natural number (base 1114112 digits = the characters, leading digit 1) — the driver stores a tree
node as the number of its protocol token, one heap gene per node -/
def encStr (s : String) : Nat := s.toList.foldl (fun acc c => acc * 1114112 + c.toNat) 1

def decChars : Nat → Nat → List Char → List Char
  | 0, _, acc => acc
  | fuel + 1, n, acc => if n ≤ 1 then acc else decChars fuel (n / 1114112) (Char.ofNat (n % 1114112) :: acc)

def decStr (n : Nat) : String := String.ofList (decChars (n.log2 + 1) n [])

/-- an evolution-strategy individual (`ind`, `ind.strategy`) as one heap genome:
`len(ind) :: ind ++ ind.strategy` -/
def esView : View (List Int × List Int) where
  dec := fun l =>
    match l with
    | [] => ([], [])
    | n :: r => (r.take n.toNat, r.drop n.toNat)
  enc := fun p => Int.ofNat p.1.length :: (p.1 ++ p.2)

/-! ## 2. The operator tape -/

inductive ODraw where
  | rnd (x : Float)        -- random.random()
  | int (v : Int)          -- randint / randrange / an element of sample(range(n), k) / the index of choice
  | gauss (x : Float)      -- random.gauss(mu, sigma)

structure LTape where
  draws : List ODraw := []
  gp : GpTree.Tape := []
  ok : Bool := true

def popInt : List ODraw → Option (Int × List ODraw)
  | .int v :: d => some (v, d)
  | _ => none

def popNat : List ODraw → Option (Nat × List ODraw)
  | .int v :: d => if 0 ≤ v then some (v.toNat, d) else none
  | _ => none

/-- `k` consecutive `random()` results -/
def popRnds : Nat → List ODraw → Option (List Float × List ODraw)
  | 0, d => some ([], d)
  | k + 1, .rnd x :: d =>
    match popRnds k d with
    | some (xs, d') => some (x :: xs, d')
    | none => none
  | _ + 1, _ => none

/-- `k` rounds of `if random.random() < indpb: v = random.randint(..)`: entry `i` is `some v` when round `i`
was selected and the integer draw answered `v` -/
def popOpts (indpb : Float) : Nat → List ODraw → Option (List (Option Int) × List ODraw)
  | 0, d => some ([], d)
  | k + 1, .rnd x :: d =>
    if x < indpb then
      match d with
      | .int v :: d' =>
        match popOpts indpb k d' with
        | some (xs, d'') => some (some v :: xs, d'')
        | none => none
      | _ => none
    else
      match popOpts indpb k d with
      | some (xs, d') => some (none :: xs, d')
      | none => none
  | _ + 1, _ => none

def rndsOf : List ODraw → List Float
  | [] => []
  | .rnd x :: d => x :: rndsOf d
  | _ :: d => rndsOf d

def gaussOf : List ODraw → List Float
  | [] => []
  | .gauss x :: d => x :: gaussOf d
  | _ :: d => gaussOf d

/-- an operator of `Core/RealOps.lean` reads the `random()` results and the `gauss` results of the tape as two
queues and hands back what it did not use: it consumed `nr` + `ng` draws, which must be the next `nr + ng`
draws of the tape (no integer draw among them). -/
def consume (d : List ODraw) (restR restG : List Float) : Option (List ODraw) :=
  let nr := (rndsOf d).length - restR.length
  let ng := (gaussOf d).length - restG.length
  let pre := d.take (nr + ng)
  if (rndsOf pre).length = nr ∧ (gaussOf pre).length = ng then some (d.drop (nr + ng)) else none

/-- run a tape reader; a failure (the call raised / the tape does not fit) leaves the contents as they are and
clears `ok`; with `ok` cleared nothing happens any more -/
def LTape.run2 (t : LTape) (a b : List Int)
    (f : List ODraw → Option (List ODraw × List Int × List Int)) : LTape × List Int × List Int :=
  if t.ok then
    match f t.draws with
    | some (d, x, y) => ({ t with draws := d }, x, y)
    | none => ({ t with ok := false }, a, b)
  else (t, a, b)

def LTape.run1 (t : LTape) (a : List Int)
    (f : List ODraw → Option (List ODraw × List Int)) : LTape × List Int :=
  if t.ok then
    match f t.draws with
    | some (d, x) => ({ t with draws := d }, x)
    | none => ({ t with ok := false }, a)
  else (t, a)

/-- non-negative genes as natural numbers (the permutation operators index tables with them) -/
def toNats : List Int → Option (List Nat)
  | [] => some []
  | x :: l => if 0 ≤ x then (toNats l).map (x.toNat :: ·) else none

def ofNats (l : List Nat) : List Int := l.map Int.ofNat

def optNats : List (Option Int) → Option (List (Option Nat))
  | [] => some []
  | none :: l => (optNats l).map (none :: ·)
  | some v :: l => if 0 ≤ v then (optNats l).map (some v.toNat :: ·) else none

/-! ## 3. The library crossovers -/


/-- crossovers of `deap.tools` on sequences of integers (C09), on sequences of floats (C10) and of `deap.gp` (C11) -/
inductive LibMate where
  | cxOnePoint
  | cxTwoPoint
  | cxTwoPoints                                         -- documented former name
  | cxUniform (indpb : Float)
  | cxPartialyMatched
  | cxUniformPartialyMatched (indpb : Float)
  | cxOrdered
  | cxMessyOnePoint
  | cxESTwoPoint
  | cxESTwoPoints                                       -- documented former name
  | cxBlend (alpha : Float)
  | cxSimulatedBinary (eta : Float)
  | cxSimulatedBinaryBounded (eta : Float) (low up : RealOps.Bound Float)
  | cxESBlend (alpha : Float)
  | gpCxOnePoint
  | gpCxOnePointLeafBiased (termpb : Float)

/-- mutations of `deap.tools` and `deap.gp` -/
inductive LibMut where
  | mutShuffleIndexes (indpb : Float)
  | mutFlipBit (indpb : Float)
  | mutUniformInt (low up : CrossMut.Bound) (indpb : Float)
  | mutInversion
  | mutGaussian (mu sigma : RealOps.Bound Float) (indpb : Float)
  | mutPolynomialBounded (eta : Float) (low up : RealOps.Bound Float) (indpb : Float)
  | mutESLogNormal (c indpb : Float)
  | gpMutUniform (expr : Nat → GpTree.Tape → GpTree.R (List GpTree.Prim × GpTree.Tape))
  | gpMutNodeReplacement (ps : GpTree.Pset)
  | gpMutEphemeral (one : Bool)
  | gpMutInsert (ps : GpTree.Pset)
  | gpMutShrink

/-- the views of one run: how floats and tree nodes are stored in heap genomes -/
structure Views where
  flt : FloatView := bitsView
  tree : View (List GpTree.Prim)

def Views.floats (v : Views) (l : List Int) : List Float := l.map v.flt.dec
def Views.ints (v : Views) (l : List Float) : List Int := l.map v.flt.enc

def outcome2 (v : Views) (d : List ODraw) :
    RealOps.Outcome (RealOps.Ind Float × RealOps.Ind Float × List Float) → Option (List ODraw × List Int × List Int)
  | .ok (i1, i2, rest) =>
    match consume d rest (gaussOf d) with
    | some d' => some (d', v.ints i1.genes, v.ints i2.genes)
    | none => none
  | _ => none

/-- GP operators read the GP tape -/
def gpRun2 (v : Views) (t : LTape) (a b : List Int)
    (f : List GpTree.Prim → List GpTree.Prim → GpTree.Tape →
      GpTree.R (List GpTree.Prim × List GpTree.Prim × GpTree.Tape)) : LTape × List Int × List Int :=
  if t.ok then
    match f (v.tree.dec a) (v.tree.dec b) t.gp with
    | .ok (x, y, tp) => ({ t with gp := tp }, v.tree.enc x, v.tree.enc y)
    | .error _ => ({ t with ok := false }, a, b)
  else (t, a, b)

def gpRun1 (v : Views) (t : LTape) (a : List Int)
    (f : List GpTree.Prim → GpTree.Tape → GpTree.R (List GpTree.Prim × GpTree.Tape)) : LTape × List Int :=
  if t.ok then
    match f (v.tree.dec a) t.gp with
    | .ok (x, tp) => ({ t with gp := tp }, v.tree.enc x)
    | .error _ => ({ t with ok := false }, a)
  else (t, a)

/-- `cxESTwoPoint` on the one-genome coding of ES individuals -/
def esTwoPoint (a b : List Int) (d : List ODraw) : Option (List ODraw × List Int × List Int) :=
  let i1 := esView.dec a
  let i2 := esView.dec b
  match popNat d with
  | none => none
  | some (p1, d) =>
    match popNat d with
    | none => none
    | some (p2, d) =>
      let e1 : CrossMut.ESInd Int Int := ⟨i1.1, i1.2⟩
      let e2 : CrossMut.ESInd Int Int := ⟨i2.1, i2.2⟩
      if CrossMut.cxESTwoPointOk e1 e2 p1 p2 then
        let c := CrossMut.cxESTwoPoint e1 e2 p1 p2
        some (d, esView.enc (c.1.genes, c.1.strategy), esView.enc (c.2.genes, c.2.strategy))
      else none

/-- The genome-level function of a library crossover: it pops the draws the Python code makes, in call order,
checks the operator's guard and applies the operator's model. -/
def LibMate.gop (v : Views) : LibMate → GOp2 LTape
  | .cxOnePoint => fun t a b => t.run2 a b fun d =>
    match popNat d with
    | some (c, d) => if CrossMut.cxOnePointOk a b c then some (d, CrossMut.cxOnePoint a b c) else none
    | none => none
  | .cxTwoPoint => fun t a b => t.run2 a b fun d =>
    match popNat d with
    | some (c1, d) =>
      match popNat d with
      | some (c2, d) => if CrossMut.cxTwoPointOk a b c1 c2 then some (d, CrossMut.cxTwoPoint a b c1 c2) else none
      | none => none
    | none => none
  | .cxTwoPoints => fun t a b => t.run2 a b fun d =>
    match popNat d with
    | some (c1, d) =>
      match popNat d with
      | some (c2, d) => if CrossMut.cxTwoPointOk a b c1 c2 then some (d, CrossMut.cxTwoPoints a b c1 c2) else none
      | none => none
    | none => none
  | .cxUniform indpb => fun t a b => t.run2 a b fun d =>
    match popRnds (min a.length b.length) d with
    | some (rs, d) => some (d, CrossMut.cxUniformR a b indpb rs)
    | none => none
  | .cxPartialyMatched => fun t a b => t.run2 a b fun d =>
    match toNats a, toNats b, popNat d with
    | some x, some y, some (c1, d) =>
      match popNat d with
      | some (c2, d) =>
        if CrossMut.cxPartialyMatchedOk x y c1 c2 then
          let c := CrossMut.cxPartialyMatched x y c1 c2
          some (d, ofNats c.1, ofNats c.2)
        else none
      | none => none
    | _, _, _ => none
  | .cxUniformPartialyMatched indpb => fun t a b => t.run2 a b fun d =>
    match toNats a, toNats b, popRnds (min a.length b.length) d with
    | some x, some y, some (rs, d) =>
      if CrossMut.cxUniformPartialyMatchedOk x y (CrossMut.decisions indpb rs) then
        let c := CrossMut.cxUniformPartialyMatchedR x y indpb rs
        some (d, ofNats c.1, ofNats c.2)
      else none
    | _, _, _ => none
  | .cxOrdered => fun t a b => t.run2 a b fun d =>
    match toNats a, toNats b, popNat d with
    | some x, some y, some (a0, d) =>
      match popNat d with
      | some (b0, d) =>
        if CrossMut.cxOrderedOk x y a0 b0 then
          let c := CrossMut.cxOrdered x y a0 b0
          some (d, ofNats c.1, ofNats c.2)
        else none
      | none => none
    | _, _, _ => none
  | .cxMessyOnePoint => fun t a b => t.run2 a b fun d =>
    match popNat d with
    | some (c1, d) =>
      match popNat d with
      | some (c2, d) =>
        if CrossMut.cxMessyOnePointOk a b c1 c2 then some (d, CrossMut.cxMessyOnePoint a b c1 c2) else none
      | none => none
    | none => none
  | .cxESTwoPoint => fun t a b => t.run2 a b (esTwoPoint a b)
  | .cxESTwoPoints => fun t a b => t.run2 a b (esTwoPoint a b)
  | .cxBlend alpha => fun t a b => t.run2 a b fun d =>
    outcome2 v d (RealOps.cxBlend ⟨0, v.floats a, 0, []⟩ ⟨1, v.floats b, 0, []⟩ alpha (rndsOf d))
  | .cxSimulatedBinary eta => fun t a b => t.run2 a b fun d =>
    outcome2 v d (RealOps.cxSimulatedBinary ⟨0, v.floats a, 0, []⟩ ⟨1, v.floats b, 0, []⟩ eta (rndsOf d))
  | .cxSimulatedBinaryBounded eta low up => fun t a b => t.run2 a b fun d =>
    outcome2 v d (RealOps.cxSimulatedBinaryBounded ⟨0, v.floats a, 0, []⟩ ⟨1, v.floats b, 0, []⟩ eta low up (rndsOf d))
  | .cxESBlend alpha => fun t a b => t.run2 a b fun d =>
    let i1 := esView.dec a
    let i2 := esView.dec b
    match RealOps.cxESBlend ⟨0, v.floats i1.1, 2, v.floats i1.2⟩ ⟨1, v.floats i2.1, 3, v.floats i2.2⟩ alpha (rndsOf d) with
    | .ok (x, y, rest) =>
      match consume d rest (gaussOf d) with
      | some d' => some (d', esView.enc (v.ints x.genes, v.ints x.strategy), esView.enc (v.ints y.genes, v.ints y.strategy))
      | none => none
    | _ => none
  | .gpCxOnePoint => fun t a b => gpRun2 v t a b GpTree.cxOnePoint
  | .gpCxOnePointLeafBiased termpb => fun t a b =>
    gpRun2 v t a b (fun x y tp => GpTree.cxOnePointLeafBiased x y termpb tp)

/-! ## 4. The library mutations -/

def LibMut.gop (v : Views) : LibMut → GOp1 LTape
  | .mutShuffleIndexes indpb => fun t a => t.run1 a fun d =>
    match popOpts indpb a.length d with
    | some (ds, d) =>
      match optNats ds with
      | some ds => (CrossMut.mutShuffleIndexes a ds).map (fun x => (d, x))
      | none => none
    | none => none
  | .mutFlipBit indpb => fun t a => t.run1 a fun d =>
    match popRnds a.length d with
    | some (rs, d) => some (d, CrossMut.mutFlipBitR a indpb rs)
    | none => none
  | .mutUniformInt low up indpb => fun t a => t.run1 a fun d =>
    -- the bounds are checked before the first draw (mutation.py:161-168)
    match low.toSeq a.length, up.toSeq a.length with
    | some _, some _ =>
      match popOpts indpb a.length d with
      | some (ds, d) => (CrossMut.mutUniformInt a low up ds).map (fun x => (d, x))
      | none => none
    | _, _ => none
  | .mutInversion => fun t a => t.run1 a fun d =>
    if a.length = 0 then some (d, CrossMut.mutInversion a 0 0)
    else
      match popNat d with
      | some (i1, d) =>
        match popNat d with
        | some (i2, d) => if CrossMut.mutInversionOk a i1 i2 then some (d, CrossMut.mutInversion a i1 i2) else none
        | none => none
      | none => none
  | .mutGaussian mu sigma indpb => fun t a => t.run1 a fun d =>
    match RealOps.mutGaussian ⟨0, v.floats a, 0, []⟩ mu sigma indpb (rndsOf d) (gaussOf d) with
    | .ok (x, rr, gr) => (consume d rr gr).map (fun d' => (d', v.ints x.genes))
    | _ => none
  | .mutPolynomialBounded eta low up indpb => fun t a => t.run1 a fun d =>
    match RealOps.mutPolynomialBounded ⟨0, v.floats a, 0, []⟩ eta low up indpb (rndsOf d) with
    | .ok (x, rr) => (consume d rr (gaussOf d)).map (fun d' => (d', v.ints x.genes))
    | _ => none
  | .mutESLogNormal c indpb => fun t a => t.run1 a fun d =>
    let i := esView.dec a
    match RealOps.mutESLogNormal ⟨0, v.floats i.1, 1, v.floats i.2⟩ c indpb (rndsOf d) (gaussOf d) with
    | .ok (x, rr, gr) => (consume d rr gr).map (fun d' => (d', esView.enc (v.ints x.genes, v.ints x.strategy)))
    | _ => none
  | .gpMutUniform expr => fun t a => gpRun1 v t a (fun x tp => GpTree.mutUniform x expr tp)
  | .gpMutNodeReplacement ps => fun t a => gpRun1 v t a (fun x tp => GpTree.mutNodeReplacement x ps tp)
  | .gpMutEphemeral one => fun t a => gpRun1 v t a (fun x tp => GpTree.mutEphemeral x one tp)
  | .gpMutInsert ps => fun t a => gpRun1 v t a (fun x tp => GpTree.mutInsert x ps tp)
  | .gpMutShrink => fun t a => gpRun1 v t a GpTree.mutShrink

/-! ## 5. `gp.staticLimit` as a heap-level wrapper -/

/-- `staticLimit(key, max_value)`: `over g` = `key(ind) > max_value` on the contents `g`; `pick t n` answers
`random.choice(keep_inds)` for `n` kept copies (an index, used modulo nothing: an index outside `0..n-1` chooses
the first copy — the tape reader below never produces one). -/
structure Limit (σ : Type) where
  over : List Int → Bool
  pick : σ → Nat → σ × Nat

structure Fix (σ : Type) where
  tape : σ
  heap : Heap
  next : Nat
  ret : Nat

/-- gp.py:973-974 `if key(ind) > max_value: new_inds[i] = copy.deepcopy(random.choice(keep_inds))`:
the over-limit individual `x` is replaced by a NEW object (oid `nx`) that is a deep copy — genome and fitness —
of the chosen kept copy. -/
def limitFix {σ : Type} (L : Limit σ) (keep : List Nat) (t : σ) (h : Heap) (nx x : Nat) : Fix σ :=
  if L.over (h x).genome then
    let p := L.pick t keep.length
    let k := keep.getD p.2 (keep.headD x)
    let c : Obj := h k
    { tape := p.1, heap := h.set nx c, next := nx + 1, ret := nx }
  else { tape := t, heap := h, next := nx, ret := x }

/-- the decorated crossover.  gp.py:968 `keep_inds = [copy.deepcopy(ind) for ind in args]` allocates two objects
(oids `base`, `base + 1`: the next free oids — `base = n` whenever the arguments are allocated objects, which they
always are), :969 runs the operator, :972-974 fix the two children in order. -/
def limitMate {σ : Type} (L : Limit σ) (mate : σ → Heap → Nat → Nat → Nat → MateRes σ)
    (t : σ) (h : Heap) (n a b : Nat) : MateRes σ :=
  let base := max n (max (a + 1) (b + 1))
  let ka : Obj := h a
  let kb : Obj := h b
  let r := mate t ((h.set base ka).set (base + 1) kb) (base + 2) a b
  let f1 := limitFix L [base, base + 1] r.tape r.heap r.next r.fst
  let f2 := limitFix L [base, base + 1] f1.tape f1.heap f1.next r.snd
  { tape := f2.tape, heap := f2.heap, next := f2.next, fst := f1.ret, snd := f2.ret }

/-- the decorated mutation (one argument, one kept copy, one returned individual) -/
def limitMutate {σ : Type} (L : Limit σ) (mutate : σ → Heap → Nat → Nat → MutRes σ)
    (t : σ) (h : Heap) (n a : Nat) : MutRes σ :=
  let base := max n (a + 1)
  let ka : Obj := h a
  let r := mutate t (h.set base ka) (base + 1) a
  let f := limitFix L [base] r.tape r.heap r.next r.ret
  { tape := f.tape, heap := f.heap, next := f.next, ret := f.ret }

/-- `random.choice(keep_inds)` read off the operator tape: an integer draw below `n` -/
def pickTape (t : LTape) (n : Nat) : LTape × Nat :=
  if t.ok then
    match popNat t.draws with
    | some (i, d) => if i < n then ({ t with draws := d }, i) else ({ t with ok := false }, 0)
    | none => ({ t with ok := false }, 0)
  else (t, 0)

/-- the measurements the harness decorates with: `len` and `sum` of an integer sequence, `height` is the
measurement of trees (through the tree view) -/
inductive LimitKey where
  | len
  | sum
  | height

def LimitKey.over (v : Views) (maxv : Int) : LimitKey → List Int → Bool
  | .len, g => decide (maxv < Int.ofNat g.length)
  | .sum, g => decide (maxv < g.foldl (· + ·) 0)
  | .height, g =>
    match GpTree.heightL (v.tree.dec g) with
    | some k => decide (maxv < Int.ofNat k)
    | none => false

/-- … for decorated GP operators it is read off the GP tape (a `choice` draw over `n` elements) -/
def pickGp (t : LTape) (n : Nat) : LTape × Nat :=
  if t.ok then
    match GpTree.popChoice (List.range n) t.gp with
    | .ok (i, tp) => ({ t with gp := tp }, i)
    | .error _ => ({ t with ok := false }, 0)
  else (t, 0)

def libLimit (v : Views) (k : LimitKey) (maxv : Int) : Limit LTape :=
  match k with
  | .height => ⟨k.over v maxv, pickGp⟩
  | _ => ⟨k.over v maxv, pickTape⟩

/-! ## 6. A registered pair -/

/-- what is registered in the toolbox: a library crossover and a library mutation, each optionally decorated with
`gp.staticLimit(key, max_value)` -/
structure Lib where
  mate : LibMate
  mutate : LibMut
  mateLimit : Option (LimitKey × Int) := none
  mutLimit : Option (LimitKey × Int) := none

def Lib.ops (v : Views) (p : Lib) : Ops LTape where
  mate :=
    match p.mateLimit with
    | none => liftMate (p.mate.gop v)
    | some (k, m) => limitMate (libLimit v k m) (liftMate (p.mate.gop v))
  mutate :=
    match p.mutLimit with
    | none => liftMutate (p.mutate.gop v)
    | some (k, m) => limitMutate (libLimit v k m) (liftMutate (p.mutate.gop v))

end Variation
