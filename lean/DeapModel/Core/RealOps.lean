/-
C10 — real-coded operators of `deap/tools/crossover.py` and `deap/tools/mutation.py`
(`cxBlend`, `cxESBlend`, `cxSimulatedBinary`, `cxSimulatedBinaryBounded`, `mutGaussian`,
`mutPolynomialBounded`, `mutESLogNormal`), transcribed statement by statement.

Import-free apart from `Core/Scalar.lean`; polymorphic in `RealLike α`.  Every expression keeps the
operation order of the Python source so that the `Float` instance computes what CPython computes;
the theorems (Props/C10.lean) are about the `ℝ` instance.

Randomness.  An operator receives the *results* of its `random.random()` calls as the list `rs`
and the results of its `random.gauss(..)` calls as the list `gs`, each in call order; it hands
back the unused rest.  An exhausted tape is `none` (loops) / `Outcome.badTape` (operators).

Objects.  An individual is an `Ind`: object id, genes, id of its `strategy` list and that list.
The operators write `ind[i] = …` / `ind.strategy[i] = …`, i.e. they return the *same* ids with new
contents.  The two individuals of a crossover are assumed to be distinct objects.

What Python rejects: a bound / mu / sigma *sequence* shorter than the individual raises
`IndexError` (`Outcome.indexError`); `mutESLogNormal` on an empty individual divides by
`sqrt(2*sqrt(0)) = 0.0` (`Outcome.zeroDivision`); a strategy list shorter than the individual
raises `IndexError` at the first locus that is mutated beyond its end.
-/
import DeapModel.Core.Scalar

namespace RealOps
open RealLike

/-- an individual: `oid` identifies the sequence object, `soid` its `.strategy` list object -/
structure Ind (α : Type) where
  oid : Nat
  genes : List α
  soid : Nat := 0
  strategy : List α := []

/-- what a call of an operator does -/
inductive Outcome (β : Type) where
  | ok (b : β)
  | indexError
  | zeroDivision
  | badTape

/-- a `low` / `up` / `mu` / `sigma` argument: a number or a sequence -/
inductive Bound (α : Type) where
  | scalar (v : α)
  | seq (l : List α)

section
variable {α : Type} [RealLike α]

/-! ### literals of the source -/
/-- `1.` / `1.0` / `1` -/
def one : α := RealLike.ofNat 1
/-- `2.` / `2.0` -/
def two : α := RealLike.ofNat 2
/-- `0.5` -/
def half : α := RealLike.ofRatio 1 2
/-- `1e-14` (the quotient `1/10^14` rounds to the same double as the literal) -/
def eps : α := RealLike.ofRatio 1 100000000000000
/-- `0` -/
def zero : α := RealLike.ofNat 0

/-- next draw of a tape -/
def pop : List α → Option (α × List α)
  | x :: t => some (x, t)
  | [] => none

/-- `if not isinstance(b, Sequence): b = repeat(b, size) elif len(b) < size: raise IndexError`
(crossover.py:314-321, mutation.py:34-41, 66-73); `none` = `IndexError`.  A sequence is used as it
is (the `zip` of the loop stops at `size`). -/
def Bound.expand (b : Bound α) (size : Nat) : Option (List α) :=
  match b with
  | .scalar v => some (List.replicate size v)
  | .seq l => if l.length < size then none else some l

/-- the bound in force at locus `i`: the number itself, or the `i`-th entry of the sequence -/
def Bound.get? (b : Bound α) (i : Nat) : Option α :=
  match b with
  | .scalar v => some v
  | .seq l => l[i]?

/-! ### cxBlend (crossover.py:240-259) -/

/-- :255 `gamma = (1. + 2. * alpha) * random.random() - alpha` -/
def blendGamma (alpha r : α) : α := (one + two * alpha) * r - alpha

/-- :256-257 `(1. - gamma) * x1 + gamma * x2`, `gamma * x1 + (1. - gamma) * x2` -/
def blendPair (alpha x1 x2 r : α) : α × α :=
  let gamma := blendGamma alpha r
  ((one - gamma) * x1 + gamma * x2, gamma * x1 + (one - gamma) * x2)

/-- `for i, (x1, x2) in enumerate(zip(ind1, ind2)): r = random.random(); ind1[i], ind2[i] = f(x1, x2, r)`
— the loop shared by `cxBlend` (:254) and `cxSimulatedBinary` (:277); loci beyond the shorter parent stay. -/
def pairLoop (f : α → α → α → α × α) : List α → List α → List α → Option (List α × List α × List α)
  | x1 :: a, x2 :: b, rs =>
    match pop rs with
    | none => none
    | some (r, rs) =>
      match pairLoop f a b rs with
      | none => none
      | some (c1, c2, rest) => some ((f x1 x2 r).1 :: c1, (f x1 x2 r).2 :: c2, rest)
  | a, b, rs => some (a, b, rs)

/-- `cxBlend(ind1, ind2, alpha)`; :259 `return ind1, ind2` -/
def cxBlend (ind1 ind2 : Ind α) (alpha : α) (rs : List α) : Outcome (Ind α × Ind α × List α) :=
  match pairLoop (blendPair alpha) ind1.genes ind2.genes rs with
  | none => .badTape
  | some (c1, c2, rest) => .ok ({ ind1 with genes := c1 }, { ind2 with genes := c2 }, rest)

/-! ### cxESBlend (crossover.py:389-415) -/

/-- :404-405 `zip(ind1, ind1.strategy, ind2, ind2.strategy)`; per locus first the value draw (:407),
then the strategy draw (:411).  Result: genes1, strategy1, genes2, strategy2, rest. -/
def cxESBlendLoop (alpha : α) :
    List α → List α → List α → List α → List α → Option (List α × List α × List α × List α × List α)
  | x1 :: a, s1 :: sa, x2 :: b, s2 :: sb, rs =>
    match pop rs with
    | none => none
    | some (r, rs) =>
      match pop rs with
      | none => none
      | some (q, rs) =>
        match cxESBlendLoop alpha a sa b sb rs with
        | none => none
        | some (c1, t1, c2, t2, rest) =>
          some ((blendPair alpha x1 x2 r).1 :: c1, (blendPair alpha s1 s2 q).1 :: t1,
                (blendPair alpha x1 x2 r).2 :: c2, (blendPair alpha s1 s2 q).2 :: t2, rest)
  | a, sa, b, sb, rs => some (a, sa, b, sb, rs)

def cxESBlend (ind1 ind2 : Ind α) (alpha : α) (rs : List α) : Outcome (Ind α × Ind α × List α) :=
  match cxESBlendLoop alpha ind1.genes ind1.strategy ind2.genes ind2.strategy rs with
  | none => .badTape
  | some (c1, t1, c2, t2, rest) =>
    .ok ({ ind1 with genes := c1, strategy := t1 }, { ind2 with genes := c2, strategy := t2 }, rest)

/-! ### cxSimulatedBinary (crossover.py:262-287) -/

/-- :279-283 `if rand <= 0.5: beta = 2. * rand else: beta = 1. / (2. * (1. - rand))`;
`beta **= 1. / (eta + 1.)` -/
def sbxBeta (eta rand : α) : α :=
  RealLike.pow (if rand ≤ half then two * rand else one / (two * (one - rand))) (one / (eta + one))

/-- :284-285 `0.5 * (((1 + beta) * x1) + ((1 - beta) * x2))`, `0.5 * (((1 - beta) * x1) + ((1 + beta) * x2))` -/
def sbxPair (eta x1 x2 rand : α) : α × α :=
  let beta := sbxBeta eta rand
  (half * (((one + beta) * x1) + ((one - beta) * x2)), half * (((one - beta) * x1) + ((one + beta) * x2)))

def cxSimulatedBinary (ind1 ind2 : Ind α) (eta : α) (rs : List α) : Outcome (Ind α × Ind α × List α) :=
  match pairLoop (sbxPair eta) ind1.genes ind2.genes rs with
  | none => .badTape
  | some (c1, c2, rest) => .ok ({ ind1 with genes := c1 }, { ind2 with genes := c2 }, rest)

/-! ### cxSimulatedBinaryBounded (crossover.py:290-359) -/

/-- :332 / :341 `beta = 1.0 + (2.0 * d / w)` with `d = x1 - xl` resp. `xu - x2`, `w = x2 - x1` -/
def sbxbBeta (d w : α) : α := one + (two * d / w)

/-- :333 / :342 `alpha = 2.0 - beta ** -(eta + 1)` -/
def sbxbAlpha (eta beta : α) : α := two - RealLike.pow beta (-(eta + one))

/-- :334-337 / :343-346
`if rand <= 1.0 / alpha: beta_q = (rand * alpha) ** (1.0 / (eta + 1))
 else: beta_q = (1.0 / (2.0 - rand * alpha)) ** (1.0 / (eta + 1))` -/
def sbxbBetaQ (eta rand alpha : α) : α :=
  if rand ≤ one / alpha then RealLike.pow (rand * alpha) (one / (eta + one))
  else RealLike.pow (one / (two - rand * alpha)) (one / (eta + one))

/-- :339 `c1 = 0.5 * (x1 + x2 - beta_q * (x2 - x1))` before the clamp (`x1 = min`, `x2 = max`) -/
def sbxbRaw1 (eta x1 x2 xl rand : α) : α :=
  half * (x1 + x2 - sbxbBetaQ eta rand (sbxbAlpha eta (sbxbBeta (x1 - xl) (x2 - x1))) * (x2 - x1))

/-- :347 `c2 = 0.5 * (x1 + x2 + beta_q * (x2 - x1))` before the clamp -/
def sbxbRaw2 (eta x1 x2 xu rand : α) : α :=
  half * (x1 + x2 + sbxbBetaQ eta rand (sbxbAlpha eta (sbxbBeta (xu - x2) (x2 - x1))) * (x2 - x1))

/-- :349-350 `min(max(c, xl), xu)` as Python evaluates it -/
def clamp (c xl xu : α) : α := pmin (pmax c xl) xu

/-- :332-350 the two children of one locus for the ordered pair `x1 = min`, `x2 = max` -/
def sbxbChildren (eta x1 x2 xl xu rand : α) : α × α :=
  (clamp (sbxbRaw1 eta x1 x2 xl rand) xl xu, clamp (sbxbRaw2 eta x1 x2 xu rand) xl xu)

/-- one locus (:324-357): gate draw `random.random() <= 0.5`, guard `abs(ind1[i] - ind2[i]) > 1e-14`,
`x1 = min(..)`, `x2 = max(..)`, `rand = random.random()`, children, swap draw
`random.random() <= 0.5` (then `ind1[i] = c2; ind2[i] = c1`).  Result: new gene of ind1, of ind2, rest. -/
def sbxbGene (eta x1 x2 xl xu : α) (rs : List α) : Option (α × α × List α) :=
  match pop rs with
  | none => none
  | some (g, rs) =>
    if g ≤ half then
      if eps < RealLike.abs (x1 - x2) then
        match pop rs with
        | none => none
        | some (rand, rs) =>
          match pop rs with
          | none => none
          | some (s, rs) =>
            if s ≤ half then
              some ((sbxbChildren eta (pmin x1 x2) (pmax x1 x2) xl xu rand).2,
                    (sbxbChildren eta (pmin x1 x2) (pmax x1 x2) xl xu rand).1, rs)
            else
              some ((sbxbChildren eta (pmin x1 x2) (pmax x1 x2) xl xu rand).1,
                    (sbxbChildren eta (pmin x1 x2) (pmax x1 x2) xl xu rand).2, rs)
      else some (x1, x2, rs)
    else some (x1, x2, rs)

/-- :323 `for i, xl, xu in zip(range(size), low, up)` with `size = min(len(ind1), len(ind2))` -/
def cxSBXBLoop (eta : α) :
    List α → List α → List α → List α → List α → Option (List α × List α × List α)
  | x1 :: a, x2 :: b, xl :: lo, xu :: up, rs =>
    match sbxbGene eta x1 x2 xl xu rs with
    | none => none
    | some (y1, y2, rs) =>
      match cxSBXBLoop eta a b lo up rs with
      | none => none
      | some (c1, c2, rest) => some (y1 :: c1, y2 :: c2, rest)
  | a, b, _, _, rs => some (a, b, rs)

def cxSimulatedBinaryBounded (ind1 ind2 : Ind α) (eta : α) (low up : Bound α) (rs : List α) :
    Outcome (Ind α × Ind α × List α) :=
  let size := min ind1.genes.length ind2.genes.length          -- :313
  match low.expand size with                                    -- :314-317
  | none => .indexError
  | some lo =>
    match up.expand size with                                   -- :318-321
    | none => .indexError
    | some hi =>
      match cxSBXBLoop eta ind1.genes ind2.genes lo hi rs with
      | none => .badTape
      | some (c1, c2, rest) => .ok ({ ind1 with genes := c1 }, { ind2 with genes := c2 }, rest)

/-! ### mutPolynomialBounded (mutation.py:50-95) -/

/-- :78 `delta_1 = (x - xl) / (xu - xl)` -/
def polyDelta1 (x xl xu : α) : α := (x - xl) / (xu - xl)
/-- :79 `delta_2 = (xu - x) / (xu - xl)` -/
def polyDelta2 (x xl xu : α) : α := (xu - x) / (xu - xl)
/-- :84-85 `xy = 1.0 - delta_1; val = 2.0 * rand + (1.0 - 2.0 * rand) * xy ** (eta + 1)` -/
def polyValLow (eta rand delta1 : α) : α :=
  two * rand + (one - two * rand) * RealLike.pow (one - delta1) (eta + one)
/-- :88-89 `xy = 1.0 - delta_2; val = 2.0 * (1.0 - rand) + 2.0 * (rand - 0.5) * xy ** (eta + 1)` -/
def polyValHigh (eta rand delta2 : α) : α :=
  two * (one - rand) + two * (rand - half) * RealLike.pow (one - delta2) (eta + one)
/-- :81-90 `mut_pow = 1.0 / (eta + 1.)`; `delta_q = val ** mut_pow - 1.0` resp. `1.0 - val ** mut_pow` -/
def polyDeltaQ (eta x xl xu rand : α) : α :=
  if rand < half then RealLike.pow (polyValLow eta rand (polyDelta1 x xl xu)) (one / (eta + one)) - one
  else one - RealLike.pow (polyValHigh eta rand (polyDelta2 x xl xu)) (one / (eta + one))
/-- :92 `x = x + delta_q * (xu - xl)` -/
def polyRaw (eta x xl xu rand : α) : α := x + polyDeltaQ eta x xl xu rand * (xu - xl)
/-- :93 `x = min(max(x, xl), xu)` -/
def polyGene (eta x xl xu rand : α) : α := clamp (polyRaw eta x xl xu rand) xl xu

/-- :75 `for i, xl, xu in zip(range(size), low, up)`; :76 `if random.random() <= indpb` -/
def polyLoop (eta indpb : α) : List α → List α → List α → List α → Option (List α × List α)
  | x :: xs, xl :: lo, xu :: up, rs =>
    match pop rs with
    | none => none
    | some (g, rs) =>
      if g ≤ indpb then
        match pop rs with
        | none => none
        | some (rand, rs) =>
          match polyLoop eta indpb xs lo up rs with
          | none => none
          | some (ys, rest) => some (polyGene eta x xl xu rand :: ys, rest)
      else
        match polyLoop eta indpb xs lo up rs with
        | none => none
        | some (ys, rest) => some (x :: ys, rest)
  | xs, _, _, rs => some (xs, rs)

def mutPolynomialBounded (ind : Ind α) (eta : α) (low up : Bound α) (indpb : α) (rs : List α) :
    Outcome (Ind α × List α) :=
  let size := ind.genes.length                                  -- :65
  match low.expand size with
  | none => .indexError
  | some lo =>
    match up.expand size with
    | none => .indexError
    | some hi =>
      match polyLoop eta indpb ind.genes lo hi rs with
      | none => .badTape
      | some (ys, rest) => .ok ({ ind with genes := ys }, rest)

/-! ### mutGaussian (mutation.py:16-47) -/

/-- :43-45 `for i, m, s in zip(range(size), mu, sigma): if random.random() < indpb:
individual[i] += random.gauss(m, s)`; the model receives the value `random.gauss(m, s)` returned.
Result: genes, rest of `rs`, rest of `gs`. -/
def gaussLoop (indpb : α) : List α → List α → List α → List α → List α → Option (List α × List α × List α)
  | x :: xs, _m :: mu, _s :: sigma, rs, gs =>
    match pop rs with
    | none => none
    | some (g, rs) =>
      if g < indpb then
        match pop gs with
        | none => none
        | some (z, gs) =>
          match gaussLoop indpb xs mu sigma rs gs with
          | none => none
          | some (ys, rrest, grest) => some ((x + z) :: ys, rrest, grest)
      else
        match gaussLoop indpb xs mu sigma rs gs with
        | none => none
        | some (ys, rrest, grest) => some (x :: ys, rrest, grest)
  | xs, _, _, rs, gs => some (xs, rs, gs)

def mutGaussian (ind : Ind α) (mu sigma : Bound α) (indpb : α) (rs gs : List α) :
    Outcome (Ind α × List α × List α) :=
  let size := ind.genes.length                                  -- :33
  match mu.expand size with
  | none => .indexError
  | some m =>
    match sigma.expand size with
    | none => .indexError
    | some s =>
      match gaussLoop indpb ind.genes m s rs gs with
      | none => .badTape
      | some (ys, rrest, grest) => .ok ({ ind with genes := ys }, rrest, grest)

/-! ### mutESLogNormal (mutation.py:208-243) -/

/-- :233 `t = c / math.sqrt(2. * math.sqrt(size))` -/
def lognT (c : α) (size : Nat) : α := c / RealLike.sqrt (two * RealLike.sqrt (RealLike.ofNat size))
/-- :234 `t0 = c / math.sqrt(2. * size)` -/
def lognT0 (c : α) (size : Nat) : α := c / RealLike.sqrt (two * RealLike.ofNat size)
/-- :240 `individual.strategy[indx] *= math.exp(t0_n + t * random.gauss(0, 1))` -/
def lognSigma (s t0n t z : α) : α := s * RealLike.exp (t0n + t * z)
/-- :241 `individual[indx] += individual.strategy[indx] * random.gauss(0, 1)` -/
def lognGene (x s' z : α) : α := x + s' * z

/-- :238-241 `for indx in range(size): if random.random() < indpb: …`.  The strategy list is indexed,
so a strategy shorter than the individual raises `IndexError` at the first mutated locus beyond it.
Result: genes, strategy, rest of `rs`, rest of `gs`. -/
def lognLoop (indpb t0n t : α) : List α → List α → List α → List α → Outcome (List α × List α × List α × List α)
  | x :: xs, s :: ss, rs, gs =>
    match pop rs with
    | none => .badTape
    | some (g, rs) =>
      if g < indpb then
        match pop gs with
        | none => .badTape
        | some (z1, gs) =>
          match pop gs with
          | none => .badTape
          | some (z2, gs) =>
            match lognLoop indpb t0n t xs ss rs gs with
            | .ok (ys, ts, rrest, grest) =>
              .ok (lognGene x (lognSigma s t0n t z1) z2 :: ys, lognSigma s t0n t z1 :: ts, rrest, grest)
            | .indexError => .indexError
            | .zeroDivision => .zeroDivision
            | .badTape => .badTape
      else
        match lognLoop indpb t0n t xs ss rs gs with
        | .ok (ys, ts, rrest, grest) => .ok (x :: ys, s :: ts, rrest, grest)
        | .indexError => .indexError
        | .zeroDivision => .zeroDivision
        | .badTape => .badTape
  | x :: xs, [], rs, gs =>
    match pop rs with
    | none => .badTape
    | some (g, rs) =>
      if g < indpb then .indexError
      else
        match lognLoop indpb t0n t xs [] rs gs with
        | .ok (ys, ts, rrest, grest) => .ok (x :: ys, ts, rrest, grest)
        | .indexError => .indexError
        | .zeroDivision => .zeroDivision
        | .badTape => .badTape
  | [], ss, rs, gs => .ok ([], ss, rs, gs)

def mutESLogNormal (ind : Ind α) (c indpb : α) (rs gs : List α) : Outcome (Ind α × List α × List α) :=
  let size := ind.genes.length                                  -- :232
  if size = 0 then .zeroDivision                                -- :233 `c / math.sqrt(2. * 0.0)`
  else
    match pop gs with                                           -- :235 `n = random.gauss(0, 1)`
    | none => .badTape
    | some (n, gs) =>
      match lognLoop indpb (lognT0 c size * n) (lognT c size) ind.genes ind.strategy rs gs with  -- :236
      | .ok (ys, ts, rrest, grest) => .ok ({ ind with genes := ys, strategy := ts }, rrest, grest)
      | .indexError => .indexError
      | .zeroDivision => .zeroDivision
      | .badTape => .badTape

end
end RealOps
