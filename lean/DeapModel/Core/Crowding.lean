/-
Model of NSGA-II selection (C05): `assignCrowdingDist` (emo.py:120-144) and `selNSGA2`
(emo.py:15-50).  Import-free apart from the C04 models.  Generic in the scalar; the driver uses `Rat`.

A crowding distance is `Option α` with `none` = `float("inf")`.
An individual is `NDSort.Ind` (identity + weighted values); its `fitness.values` are the weighted
values divided by the class weights (`Fitness.getValues`, base.py:184-185).
-/
import DeapModel.Core.NDSort

set_option linter.unusedVariables false

namespace Crowding
open NDSort

variable {α : Type} [LT α] [LE α] [DecidableEq α] [DecidableLT α] [DecidableLE α]
  [Add α] [Sub α] [Mul α] [Div α] [Neg α] [Zero α] [NatCast α] [Inhabited α]

/-- a crowding distance; `none` is `float("inf")` -/
abbrev Dist (α : Type) := Option α

/-- `d += x` on floats with `inf + x = inf` -/
def Dist.add (d : Dist α) (x : α) : Dist α := d.map (· + x)

/-- `a < b` with `inf` on top -/
def Dist.lt : Dist α → Dist α → Bool
  | some a, some b => decide (a < b)
  | some _, none => true
  | none, _ => false

/-- `values[i]` -/
def val (v : List α) (i : Nat) : α := v.getD i default

/-- emo.py:134 `crowd.sort(key=lambda element: element[0][i])` (stable, uses `<` on the keys). -/
def sortCrowd (i : Nat) (crowd : List (List α × Nat)) : List (List α × Nat) :=
  crowd.mergeSort (fun a b => !decide (val b.1 i < val a.1 i))

/-- `zip(l[:-2], l[1:-1], l[2:])` -/
def triples {β : Type} : List β → List (β × β × β)
  | a :: b :: c :: rest => (a, b, c) :: triples (b :: c :: rest)
  | _ => []

/-- emo.py:141-142 the body of the loop over the interior of `crowd`. -/
def tripleStep (i : Nat) (norm : α) (d : List (Dist α)) (t : (List α × Nat) × (List α × Nat) × (List α × Nat)) :
    List (Dist α) :=
  d.set t.2.1.2 ((d.getD t.2.1.2 none).add ((val t.2.2.1 i - val t.1.1 i) / norm))

/-- emo.py:133-142 the body of `for i in range(nobj)`. -/
def objStep (nobj : Nat) (st : List (List α × Nat) × List (Dist α)) (i : Nat) :
    List (List α × Nat) × List (Dist α) :=
  let crowd := sortCrowd i st.1                                         -- 134
  match crowd.head?, crowd.getLast? with
  | some first, some last =>
    let d := (st.2.set first.2 none).set last.2 none                    -- 135-136
    if val last.1 i = val first.1 i then (crowd, d)                     -- 137-138
    else
      let norm := (nobj : α) * (val last.1 i - val first.1 i)           -- 139
      (crowd, (triples crowd).foldl (tripleStep i norm) d)              -- 140-142
  | _, _ => (crowd, st.2)

/-- `assignCrowdingDist(individuals)` on the list of `ind.fitness.values`; returns the distance
written on each individual's fitness, in the order of the individuals. -/
def assignCrowdingDist (vals : List (List α)) : List (Dist α) :=
  match vals with
  | [] => []                                                            -- 125-126
  | v0 :: _ =>
    let distances : List (Dist α) := List.replicate vals.length (some 0)  -- 128
    let crowd := vals.zipIdx                                            -- 129
    let nobj := v0.length                                               -- 131
    ((List.range nobj).foldl (objStep nobj) (crowd, distances)).2

/-- `ind.fitness.values` -/
def values (weights : List α) (x : Ind α) : List α := List.zipWith (· / ·) x.w weights

/-- `sorted(front, key=attrgetter("fitness.crowding_dist"), reverse=True)`: stable, descending. -/
def sortByDistDesc (l : List (Ind α × Dist α)) : List (Ind α × Dist α) :=
  l.mergeSort (fun a b => !Dist.lt a.2 b.2)

/-- emo.py:41-50: from the fronts to the selection, with the distances of the last front given. -/
def cutWith (fronts : List (List (Ind α))) (lastDist : List (Dist α)) (k : Nat) : List (Ind α) :=
  let chosen := fronts.dropLast.flatten                                 -- 44
  if chosen.length < k then                                             -- 45-46 `k - len(chosen) > 0`
    match fronts.getLast? with
    | some last =>
      let sorted_front := (sortByDistDesc (last.zip lastDist)).map (·.1)   -- 47
      chosen ++ sorted_front.take (k - chosen.length)                   -- 48
    | none => chosen
  else chosen

/-- emo.py:41-50 with the distances computed by `assignCrowdingDist` (41-42). -/
def selFromFronts (weights : List α) (fronts : List (List (Ind α))) (k : Nat) : List (Ind α) :=
  cutWith fronts (assignCrowdingDist (((fronts.getLast?).getD []).map (values weights))) k

/-- `selNSGA2(individuals, k, nd)`; `nd = false` is `'standard'`, `nd = true` is `'log'`. -/
def selNSGA2 (weights : List α) (pop : List (Ind α)) (k : Nat) (nd : Bool) : Option (List (Ind α)) :=
  (if nd then sortLog pop k else sortStd pop k false).map fun fronts => selFromFronts weights fronts k

end Crowding
