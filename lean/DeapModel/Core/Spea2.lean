/-
Model of `deap/tools/emo.py` `selSPEA2` (lines 708-824) and of the quick-select helpers
`_randomizedSelect/_randomizedPartition/_partition` (lines 827-862), as the code is after the
F10 repair (inner loop variables renamed, the parameter `k` is not clobbered).

Import-free apart from `Core.Fitness` (Pareto dominance of the weighted values).

Conventions
* individuals are their positions `0..N-1` in the input list (object identity = position);
  the result is the list of positions of the returned objects, in order.
* Pareto dominance is a parameter `dom : Nat → Nat → Bool` (`dom i j` = `individuals[i].fitness
  .dominates(individuals[j].fitness)`); `domW` instantiates it with the C01 model on weighted values.
* "archive too small" branch: the values `fits[i]` *after* the density was added (raw fitness +
  `1/(kth_dist+2)`, a float) are an abstract parameter `fits : Nat → α`; nothing the property says
  depends on them.
* "archive too large" branch: the squared distances between individuals are an abstract parameter
  `D : Nat → Nat → α`; a matrix entry is a `DVal α`: the `-1` written on the diagonal, a computed
  distance, or `float("inf")`.  The only facts about floats used are `-1 < d < inf` for a computed
  distance `d` (a finite sum of squares), `¬ inf < x`, `¬ x < -1`.
-/
import DeapModel.Core.Fitness

namespace Spea2

/-! ### small generic helpers -/

/-- `for i in range(start, start+n): s = f i s`. -/
def forRange {σ : Type} (start : Nat) : (n : Nat) → (Nat → σ → σ) → σ → σ
  | 0, _, s => s
  | n + 1, f, s => forRange (start + 1) n f (f start s)

/-- `a[i] = v` on an array seen as a function of the index. -/
def upd {β : Type} (f : Nat → β) (i : Nat) (v : β) : Nat → β := fun x => if x = i then v else f x

abbrev Mat (β : Type) := List (List β)

/-- materialise `f` on `0..N-1` (so that later reads cost a list lookup, not a closure chain) -/
def tab {β : Type} (N : Nat) (f : Nat → β) : List β := (List.range N).map f
def tab2 {β : Type} (N : Nat) (f : Nat → Nat → β) : Mat β := tab N (fun i => tab N (f i))
def look {β : Type} [Inhabited β] (l : List β) (i : Nat) : β := l.getD i default
def look2 {β : Type} [Inhabited β] (m : Mat β) (i j : Nat) : β := look (m.getD i []) j

/-! ### strength, raw fitness, the non-dominated set (emo.py:731-745) -/

section Strength
variable (dom : Nat → Nat → Bool) (N : Nat)

/-- What the double loop 731-738 registers: for the pair `a < b` it tests `dom a b` first and
`dom b a` only in the `elif`.  `reg i j` = "the loop counted `i` as dominating `j`". -/
def reg (i j : Nat) : Bool :=
  if i < j then dom i j else if j < i then (!dom j i) && dom i j else false

/-- `strength_fits[i]` after the double loop. -/
def strength (i : Nat) : Nat := ((List.range N).filter (fun j => reg dom i j)).length

/-- `dominating_inds[i]` after the double loop (appended in ascending order of the dominator). -/
def dominating (i : Nat) : List Nat := (List.range N).filter (fun j => reg dom j i)

/-- `fits[i]` after the loop 740-742 (raw fitness: sum of the strengths of the dominators). -/
def rawFit (i : Nat) : Nat := ((dominating dom N i).map (strength dom N)).sum

/-- `chosen_indices = [i for i in range(N) if fits[i] < 1]` (line 745). -/
def chosen0 : List Nat := (List.range N).filter (fun i => decide (rawFit dom N i < 1))

end Strength

/-- Dominance of the weighted values, default slice (C01 model). -/
def domW {α : Type} [LT α] [DecidableLT α] (pop : List (List α)) (i j : Nat) : Bool :=
  Fitness.dominatesLoop (pop.getD i []) (pop.getD j []) false

/-! ### archive too small (emo.py:747-765) -/

section Fill
variable {α : Type} [DecidableEq α] [LT α] [DecidableLT α]

/-- Python `(a, i) < (b, j)` on `(float, int)` tuples. -/
def keyLt (x y : α × Nat) : Bool :=
  if x.1 = y.1 then decide (x.2 < y.2) else decide (x.1 < y.1)

/-- lines 761-765: `next_indices = [(fits[i], i) for i not in chosen]; sort;
chosen += [i for _, i in next_indices[:k - len(chosen)]]`. -/
def fill (N : Nat) (fits : Nat → α) (k : Nat) (chosen : List Nat) : List Nat :=
  let next := ((List.range N).filter (fun i => !chosen.contains i)).map (fun i => (fits i, i))
  let sorted := next.mergeSort (fun x y => !keyLt y x)
  chosen ++ (sorted.take (k - chosen.length)).map (·.2)

end Fill

/-! ### archive too large (emo.py:767-822) -/

/-- An entry of the `distances` matrix. -/
inductive DVal (α : Type) where
  | neg1 : DVal α          -- the `-1` of line 780
  | fin (a : α) : DVal α   -- a computed squared distance
  | inf : DVal α           -- `float("inf")` of lines 809-810

instance {α : Type} : Inhabited (DVal α) := ⟨.inf⟩

section Trunc
variable {α : Type} [LT α] [DecidableLT α]

/-- float `<` on matrix entries -/
def DVal.lt : DVal α → DVal α → Bool
  | .neg1, .neg1 => false
  | .neg1, _ => true
  | .fin _, .neg1 => false
  | .fin a, .fin b => decide (a < b)
  | .fin _, .inf => true
  | .inf, _ => false

/-- lines 769-780: symmetric matrix of the distances between the chosen individuals, `-1` on the
diagonal.  `D a b` is the distance computed for the pair of chosen positions `a < b`. -/
def dist0 (D : Nat → Nat → α) (N : Nat) : Mat (DVal α) :=
  tab2 N (fun i j => if i = j then DVal.neg1 else DVal.fin (D (min i j) (max i j)))

/-- lines 786-788: `while m > 0 and d[j] < d[s[m-1]]: s[m] = s[m-1]; m -= 1`;
returns the row and the final `m`. -/
def shiftLoop (lt : Nat → Nat → Bool) (j : Nat) : (m : Nat) → (Nat → Nat) → (Nat → Nat) × Nat
  | 0, s => (s, 0)
  | m + 1, s => if lt j (s m) then shiftLoop lt j m (upd s (m + 1) (s m)) else (s, m + 1)

/-- lines 784-789 for one row: insertion sort of the indices `0..N-1` by `lt`.  The row is
materialised as a list after every insertion (reads inside one insertion go through `look`). -/
def sortRow (lt : Nat → Nat → Bool) (N : Nat) : List Nat :=
  forRange 1 (N - 1)
    (fun j (l : List Nat) => let r := shiftLoop lt j j (look l); tab N (upd r.1 r.2 j))
    (tab N (fun _ => 0))

/-- lines 783-789: `sorted_indices`. -/
def sorted0 (dist : Mat (DVal α)) (N : Nat) : Mat Nat :=
  tab N (fun i => sortRow (fun a b => (look2 dist i a).lt (look2 dist i b)) N)

/-- lines 797-805, the inner `for j in range(1, size)` with its two `break`s; the value is
`min_pos` after the loop.  Called with `j = 1`, `cnt = size - 1`. -/
def innerCmp (dist : Mat (DVal α)) (sorted : Mat Nat) (i mp : Nat) : (j cnt : Nat) → Nat
  | _, 0 => mp
  | j, cnt + 1 =>
    let a := look2 dist i (look2 sorted i j)
    let b := look2 dist mp (look2 sorted mp j)
    if a.lt b then i else if b.lt a then mp else innerCmp dist sorted i mp (j + 1) cnt

/-- lines 795-805: search for the individual with the minimal distance vector. -/
def minPos (dist : Mat (DVal α)) (sorted : Mat Nat) (N size : Nat) : Nat :=
  forRange 1 (N - 1) (fun i mp => innerCmp dist sorted i mp 1 (size - 1)) 0

/-- lines 812-815 for one row: bubble `mp` from wherever it is in positions `1..size-2` to
position `size-1` (the row is materialised after every swap). -/
def bubble (mp size N : Nat) (row : List Nat) : List Nat :=
  forRange 1 (size - 2)
    (fun j (l : List Nat) =>
      if look l j = mp then tab N (upd (upd (look l) j (look l (j + 1))) (j + 1) mp) else l) row

/-- lines 808-810: row and column `mp` become `inf`. -/
def overwrite (dist : Mat (DVal α)) (N mp : Nat) : Mat (DVal α) :=
  tab2 N (fun a b => if b = mp ∨ a = mp then DVal.inf else look2 dist a b)

/-- lines 808, 812-815 for every row. -/
def shuffleRows (sorted : Mat Nat) (N size mp : Nat) : Mat Nat :=
  tab N (fun i => bubble mp size N (sorted.getD i []))

/-- lines 791-819: `while size > k`, run for `size = k+n, …, k+1`; returns `to_remove`. -/
def truncLoop (N k : Nat) : (n : Nat) → Mat (DVal α) → Mat Nat → List Nat → List Nat
  | 0, _, _, rem => rem
  | n + 1, dist, sorted, rem =>
    let size := k + (n + 1)
    let mp := minPos dist sorted N size
    truncLoop N k n (overwrite dist N mp) (shuffleRows sorted N size mp) (rem ++ [mp])

/-- `to_remove` for an archive of `N` non-dominated individuals and target size `k`. -/
def toRemove (D : Nat → Nat → α) (N k : Nat) : List Nat :=
  let dist := dist0 D N
  truncLoop N k (N - k) dist (sorted0 dist N) []

/-- lines 821-822: `for index in reversed(sorted(to_remove)): del chosen_indices[index]`. -/
def delDesc (chosen rem : List Nat) : List Nat :=
  ((rem.mergeSort (fun a b => decide (a ≤ b))).reverse).foldl (fun l i => l.eraseIdx i) chosen

/-- the whole branch -/
def truncate (D : Nat → Nat → α) (k : Nat) (chosen : List Nat) : List Nat :=
  delDesc chosen
    (toRemove (fun a b => D (chosen.getD a 0) (chosen.getD b 0)) chosen.length k)

/-! #### computed distances that may have overflowed

`dist += val * val` (lines 773-777) is float arithmetic: for objective values beyond ~1e154 the
square is `+inf`, so a *computed* matrix entry can itself be `float("inf")` (and then `inf < inf` is
false, unlike `fin a < inf`).  The `V` variants take the computed entries as `DVal`s: `fin a` for a
finite sum of squares, `inf` for an overflowed one.  `dist0 D = dist0V (fun i j => .fin (D i j))`
by definition; everything after the matrix (insertion sort, `min_pos` search, overwrite, index
shuffling, deletion loop) is the same code. -/

/-- lines 769-780 with the computed entries given as matrix values. -/
def dist0V (D : Nat → Nat → DVal α) (N : Nat) : Mat (DVal α) :=
  tab2 N (fun i j => if i = j then DVal.neg1 else D (min i j) (max i j))

/-- `to_remove` (lines 791-819) for computed entries that may be `inf`; a position may then occur
more than once (only position 0 can: see `C07.spea2_to_remove_overflow`). -/
def toRemoveV (D : Nat → Nat → DVal α) (N k : Nat) : List Nat :=
  let dist := dist0V D N
  truncLoop N k (N - k) dist (sorted0 dist N) []

/-- the whole branch, deletion loop 821-822 included (`delDesc` deletes position by position, so a
repeated position removes one *further* element each time, exactly as `del chosen_indices[index]`
does). -/
def truncateV (D : Nat → Nat → DVal α) (k : Nat) (chosen : List Nat) : List Nat :=
  delDesc chosen
    (toRemoveV (fun a b => D (chosen.getD a 0) (chosen.getD b 0)) chosen.length k)

end Trunc

/-! ### selSPEA2 -/

section Sel
variable {α : Type} [DecidableEq α] [LT α] [DecidableLT α]

/-- `selSPEA2(individuals, k)`: positions of the returned individuals.
`N = len(individuals)`, `fits` = line-759 values, `D i j` = squared distance of individuals
`i, j` (lines 773-779). -/
def selSPEA2 (dom : Nat → Nat → Bool) (N k : Nat) (fits : Nat → α) (D : Nat → Nat → α) : List Nat :=
  let chosen := chosen0 dom N
  if chosen.length < k then fill N fits k chosen
  else if k < chosen.length then truncate D k chosen
  else chosen

/-- `selSPEA2` with the computed squared distances given as float matrix values (`fin a` or an
overflowed `inf`): `selSPEA2 dom N k fits D = selSPEA2V dom N k fits (fun i j => .fin (D i j))`. -/
def selSPEA2V (dom : Nat → Nat → Bool) (N k : Nat) (fits : Nat → α) (D : Nat → Nat → DVal α) :
    List Nat :=
  let chosen := chosen0 dom N
  if chosen.length < k then fill N fits k chosen
  else if k < chosen.length then truncateV D k chosen
  else chosen

end Sel

/-! ### quick-select (emo.py:827-862) — used only to obtain `kth_dist`

Arrays are lists; `none` = an index left the array (IndexError) or the fuel ran out. -/

section Select
variable {α : Type} [LT α] [DecidableLT α]

/-- `j -= 1; while array[j] > x: j -= 1` — returns the new `j`.  `j` is given *before* the first
decrement; `none` when `j` would become negative or the index is out of range. -/
def scanDown (a : List α) (x : α) : (j : Nat) → Option Nat
  | 0 => none
  | j + 1 => match a[j]? with
    | none => none
    | some v => if x < v then scanDown a x j else some j

/-- `i += 1; while array[i] < x: i += 1` — `i1` is the index after the first increment. -/
def scanUp (a : List α) (x : α) : (fuel i1 : Nat) → Option Nat
  | 0, _ => none
  | fuel + 1, i => match a[i]? with
    | none => none
    | some v => if v < x then scanUp a x fuel (i + 1) else some i

/-- `_partition` (lines 847-862); `i1 = i + 1`, `j` as in the code, both before the round. -/
def partitionLoop (x : α) : (fuel : Nat) → List α → (i1 j : Nat) → Option (List α × Nat)
  | 0, _, _, _ => none
  | fuel + 1, a, i1, j =>
    match scanDown a x j with
    | none => none
    | some j' =>
      match scanUp a x (a.length + 1) i1 with
      | none => none
      | some i' =>
        if i' < j' then
          match a[i']?, a[j']? with
          | some vi, some vj => partitionLoop x fuel ((a.set i' vj).set j' vi) (i' + 1) j'
          | _, _ => none
        else some (a, j')

def partition (a : List α) (b e : Nat) : Option (List α × Nat) :=
  match a[b]? with
  | none => none
  | some x => partitionLoop x (a.length + 1) a b (e + 1)

/-- `_randomizedPartition`: the draw `random.randint(begin, end)` comes from the tape as its
offset `d = r - begin`; a tape entry is read modulo the size of the range, so every tape is a
possible sequence of draws. -/
def randomizedPartition (a : List α) (b e d : Nat) : Option (List α × Nat) :=
  let r := b + d % (e - b + 1)
  match a[b]?, a[r]? with
  | some vb, some vr => partition ((a.set b vr).set r vb) b e
  | _, _ => none

/-- `_randomizedSelect(array, begin, end, i)`; `i` is a scalar (`K = sqrt(N)` is a float). -/
def randomizedSelect [Sub α] (ofNat : Nat → α) : (fuel : Nat) → List α → (b e : Nat) → (i : α) →
    (tape : List Nat) → Option α
  | 0, _, _, _, _, _ => none
  | fuel + 1, a, b, e, i, tape =>
    if b = e then a[b]? else
    match tape with
    | [] => none
    | r :: tape' =>
      match randomizedPartition a b e r with
      | none => none
      | some (a', q) =>
        let k := q - b + 1
        if i < ofNat k then randomizedSelect ofNat fuel a' b q i tape'
        else randomizedSelect ofNat fuel a' (q + 1) e (i - ofNat k) tape'

/-- `_randomizedSelect` with the rest of the tape returned (the draws of consecutive calls come from
one generator); the value is that of `randomizedSelect` (`C07.quickselect_threaded`). -/
def randomizedSelectT [Sub α] (ofNat : Nat → α) : (fuel : Nat) → List α → (b e : Nat) → (i : α) →
    (tape : List Nat) → Option (α × List Nat)
  | 0, _, _, _, _, _ => none
  | fuel + 1, a, b, e, i, tape =>
    if b = e then (a[b]?).map (fun v => (v, tape)) else
    match tape with
    | [] => none
    | r :: tape' =>
      match randomizedPartition a b e r with
      | none => none
      | some (a', q) =>
        let k := q - b + 1
        if i < ofNat k then randomizedSelectT ofNat fuel a' b q i tape'
        else randomizedSelectT ofNat fuel a' (q + 1) e (i - ofNat k) tape'

end Select

/-! ### selSPEA2 end to end: strengths, raw fitness, distances and densities from the fitness values

Exact scalars (the harness feeds values whose float arithmetic is exact): `wv` are the weighted
values, `w` the weights; `fitness.values[l] = wvalues[l] / weights[l]` (base.py).  `ofNat` embeds
the integers (`0.0`, `1.0`, `2.0`, the strengths, and `K = sqrt(N)`: the code only ever compares
`K - c < k` with integers `c, k`, so `K` is represented by its integer part `Nat.sqrt N` —
`C07.quickselect_floor`).  The pivot draws of all `_randomizedSelect` calls come from one tape. -/

section EndToEnd
variable {α : Type} [DecidableEq α] [LT α] [DecidableLT α] [Add α] [Sub α] [Mul α] [Div α]

/-- `fitness.values` from the weighted values and the weights. -/
def valuesOf (w wv : List α) : List α := List.zipWith (fun x ww => x / ww) wv w

/-- lines 751-755 / 773-777: `dist = 0.0; for l in range(L): val = a[l] - b[l]; dist += val * val`. -/
def sqDist (ofNat : Nat → α) (a b : List α) : α :=
  (List.zipWith (fun x y => (x - y) * (x - y)) a b).foldl (· + ·) (ofNat 0)

/-- lines 749-756: `distances = [0.0] * N; for j in range(i + 1, N): distances[j] = dist(i, j)`. -/
def distRow (ofNat : Nat → α) (vals : Nat → List α) (N i : Nat) : List α :=
  tab N (fun j => if i < j then sqDist ofNat (vals i) (vals j) else ofNat 0)

/-- lines 748-759: the loop over `i` that adds the density `1.0 / (kth_dist + 2.0)` to the raw
fitness; `acc` are the values `fits[0..i-1]` in reverse; `none` = the tape ran out. -/
def densLoop (ofNat : Nat → α) (dom : Nat → Nat → Bool) (vals : Nat → List α) (N : Nat) :
    (n i : Nat) → List α → List Nat → Option (List α × List Nat)
  | 0, _, acc, tape => some (acc.reverse, tape)
  | n + 1, i, acc, tape =>
    match randomizedSelectT ofNat (N + 2) (distRow ofNat vals N i) 0 (N - 1) (ofNat (Nat.sqrt N)) tape with
    | none => none
    | some (kth, tape') =>
      densLoop ofNat dom vals N n (i + 1)
        ((ofNat (rawFit dom N i) + ofNat 1 / (kth + ofNat 2)) :: acc) tape'

/-- `selSPEA2(individuals, k)` from the weights and the weighted values alone. -/
def selSPEA2E (ofNat : Nat → α) (w : List α) (wv : List (List α)) (k : Nat) (tape : List Nat) :
    Option (List Nat) :=
  let N := wv.length
  let dom := domW wv
  let vals := fun i => valuesOf w (wv.getD i [])
  let chosen := chosen0 dom N
  if chosen.length < k then
    match densLoop ofNat dom vals N N 0 [] tape with
    | none => none
    | some (fits, _) => some (fill N (fun i => fits.getD i (ofNat 0)) k chosen)
  else if k < chosen.length then
    some (truncate (fun i j => sqDist ofNat (vals i) (vals j)) k chosen)
  else some chosen

end EndToEnd

end Spea2
