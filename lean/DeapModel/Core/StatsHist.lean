/-
`MultiStatistics` / `Statistics` (deap/tools/support.py:150-257) as MUTABLE objects under histories (C18).
Import-free (core Lean only).

`MultiStatistics` is a `dict` subclass: besides `compile`, `fields`, `register` it inherits every
mutator of `dict` (`ms[k] = s`, `del ms[k]`, `update`, `|=`, `setdefault`, `pop`, `popitem`,
`clear`).  The values are `Statistics` OBJECTS: the same object may be stored under two names, may be
registered on directly (`ms[k].register(...)`) and lives on after it was popped.  So the state is

* `heap` — every `Statistics` object created so far, addressed by its index (object identity),
* `map`  — the dict itself: name → object id, in insertion order, keys unique.

Nothing else is state: in particular `fields` and `compile` are pure observations (support.py:229-242),
they leave nothing behind.  An id that is not on the heap has no Python counterpart; such a step
raises and changes nothing (the driver rejects it as `bad-op` before it gets here).
-/
import DeapModel.Core.Logbook

namespace Stats

open Logbook (Name)

variable {δ κ φ ρ : Type}

/-- the dict part of a `MultiStatistics`: name → object id, insertion order -/
abbrev Dict := List (Name × Nat)

/-- `d[k] = v` (an existing key keeps its position) -/
def dSet : Dict → Name → Nat → Dict
  | [], k, v => [(k, v)]
  | (k', v') :: rest, k, v => if k' = k then (k', v) :: rest else (k', v') :: dSet rest k v

/-- `k in d` -/
def dHas (d : Dict) (k : Name) : Bool := d.any (·.1 == k)

/-- `del d[k]` for a present key -/
def dDel (d : Dict) (k : Name) : Dict := d.filter fun p => !(p.1 == k)

/-- `d.update(e)` / `d |= e` -/
def dUpdate (d e : Dict) : Dict := e.foldl (fun acc p => dSet acc p.1 p.2) d

def dKeys (d : Dict) : List Name := d.map (·.1)

/-- `sorted(names)` (insertion sort; the result only depends on the multiset of names) -/
def insertSorted (a : Name) : List Name → List Name
  | [] => [a]
  | b :: l => if a ≤ b then a :: b :: l else b :: insertSorted a l

def sortNames (l : List Name) : List Name := l.foldr insertSorted []

/-- the state: all `Statistics` objects and the `MultiStatistics` dict -/
structure MS (δ κ φ ρ : Type) where
  heap : List (Statistics δ κ φ ρ)
  map : Dict

/-- `MultiStatistics()` and no object yet -/
def MS.empty : MS δ κ φ ρ := ⟨[], []⟩

/-- the operations of a history -/
inductive MOp (δ κ φ ρ : Type) where
  /-- `Statistics(key)`: a new object (its id is the next heap index) -/
  | alloc (key : δ → κ)
  /-- `obj.register(name, fn, *args)` on one object, wherever it is stored (support.py:180-193) -/
  | regObj (id : Nat) (name : Name) (fn : φ → List κ → ρ) (args : φ)
  /-- `ms.register(name, fn, *args)` (support.py:244-257) -/
  | register (name : Name) (fn : φ → List κ → ρ) (args : φ)
  /-- `ms[k] = obj` -/
  | setItem (k : Name) (id : Nat)
  /-- `del ms[k]` -/
  | delItem (k : Name)
  /-- `ms.update(e)` -/
  | update (e : Dict)
  /-- `ms |= e` -/
  | ior (e : Dict)
  /-- `ms.setdefault(k, obj)` -/
  | setDefault (k : Name) (id : Nat)
  /-- `ms.pop(k)` -/
  | pop (k : Name)
  /-- `ms.popitem()` -/
  | popItem
  /-- `ms.clear()` -/
  | clear
  /-- `ms.fields` -/
  | fields
  /-- `obj.fields` of one `Statistics` object -/
  | objFields (id : Nat)
  /-- `ms.compile(data)` -/
  | compile (data : List δ)

/-- what an operation returns -/
inductive MObs (ρ : Type) where
  | none
  | raised
  | obj (id : Nat)
  | item (k : Name) (id : Nat)
  | names (l : List Name)
  | record (r : List (Name × List (Name × ρ)))

/-- `fields` and `compile` (and reading an object's `fields`) only look -/
def MOp.isObs : MOp δ κ φ ρ → Bool
  | .fields | .objFields _ | .compile _ => true
  | _ => false

/-- the current mapping with the objects resolved: name → `Statistics` (the `items()` of the dict) -/
def view (st : MS δ κ φ ρ) : Multi δ κ φ ρ :=
  st.map.filterMap fun p => (st.heap[p.2]?).map fun s => (p.1, s)

/-- `ms.compile(data)` (support.py:229-238): `for name, stats in self.items(): record[name] = stats.compile(data)` -/
def compileOf (st : MS δ κ φ ρ) (data : List δ) : List (Name × List (Name × ρ)) :=
  Multi.compile (view st) data

/-- `ms.fields` (support.py:240-242): `sorted(self.keys())` -/
def fieldsOf (st : MS δ κ φ ρ) : List Name := sortNames (dKeys st.map)

/-- `ms.register` (support.py:256-257): `for stats in self.values(): stats.register(...)`, object by object -/
def registerHeap (heap : List (Statistics δ κ φ ρ)) (ids : List Nat) (name : Name)
    (fn : φ → List κ → ρ) (args : φ) : List (Statistics δ κ φ ρ) :=
  ids.foldl (fun h id => h.modify id fun s => Stats.register s name fn args) heap

def idsOk (n : Nat) (e : Dict) : Bool := e.all fun p => decide (p.2 < n)

def step (st : MS δ κ φ ρ) : MOp δ κ φ ρ → MS δ κ φ ρ × MObs ρ
  | .alloc key => (⟨st.heap ++ [Stats.new key], st.map⟩, .obj st.heap.length)
  | .regObj id name fn args =>
    if id < st.heap.length then
      (⟨st.heap.modify id fun s => Stats.register s name fn args, st.map⟩, .none)
    else (st, .raised)
  | .register name fn args =>
    (⟨registerHeap st.heap (st.map.map (·.2)) name fn args, st.map⟩, .none)
  | .setItem k id =>
    if id < st.heap.length then (⟨st.heap, dSet st.map k id⟩, .none) else (st, .raised)
  | .delItem k =>
    if dHas st.map k then (⟨st.heap, dDel st.map k⟩, .none) else (st, .raised)       -- KeyError
  | .update e =>
    if idsOk st.heap.length e then (⟨st.heap, dUpdate st.map e⟩, .none) else (st, .raised)
  | .ior e =>
    if idsOk st.heap.length e then (⟨st.heap, dUpdate st.map e⟩, .none) else (st, .raised)
  | .setDefault k id =>
    if id < st.heap.length then
      match st.map.lookup k with
      | some old => (st, .obj old)
      | none => (⟨st.heap, st.map ++ [(k, id)]⟩, .obj id)
    else (st, .raised)
  | .pop k =>
    match st.map.lookup k with
    | some old => (⟨st.heap, dDel st.map k⟩, .obj old)
    | none => (st, .raised)                                                          -- KeyError
  | .popItem =>
    match st.map.getLast? with
    | some p => (⟨st.heap, st.map.dropLast⟩, .item p.1 p.2)
    | none => (st, .raised)                                                          -- KeyError
  | .clear => (⟨st.heap, []⟩, .none)
  | .fields => (st, .names (fieldsOf st))
  | .objFields id =>
    match st.heap[id]? with
    | some s => (st, .names s.fields)
    | none => (st, .raised)
  | .compile data => (st, .record (compileOf st data))

def runFrom (st : MS δ κ φ ρ) (h : List (MOp δ κ φ ρ)) : MS δ κ φ ρ :=
  h.foldl (fun s op => (step s op).1) st

/-- the state after a history on a fresh `MultiStatistics()` -/
def run (h : List (MOp δ κ φ ρ)) : MS δ κ φ ρ := runFrom MS.empty h

/-- state and answers of a history, step by step -/
def trace (st : MS δ κ φ ρ) : List (MOp δ κ φ ρ) → List (MS δ κ φ ρ × MObs ρ)
  | [] => []
  | op :: rest => let r := step st op; r :: trace r.1 rest

end Stats
