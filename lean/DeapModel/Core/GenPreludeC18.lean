/-
Prelude of the C18 translator tie (harness/py2lean_c18.py): the Python notions the regenerated definitions
`Gen.*` of `deap/tools/support.py` are written in.  TRUSTED BASE together with the docstring of py2lean_c18.py.
No Mathlib import (only the model's record types).

  dict                association list with distinct keys in insertion order (`dictSet` keeps the position of an
                      existing key, as CPython does), `d.get(k, None)` = `dictGet`, `del d[k]` = `dictDel`,
                      `d.update(e)` = `dictUpdate`, `.keys()` / `.values()` / `.items()` = projections of the list.
  list.pop(i)         `listPop` (negative index counts from the end; `none` = IndexError).
  sorted(..)          insertion sort on names / indices (any sorting algorithm returns this list: the order is total).
  exceptions + state  `Res σ α`: `ok s a` = returned `a` with the object left as `s`; `raise s` = an exception left
                      the object as `s`; `nofuel` = the recursion bound of a recursive method was exhausted.
  for loops           `forIn` (left fold of the body over the sequence, state = the variables the body assigns),
                      `forInE` (the same with a body that can raise: the loop stops at the first exception),
                      `forValues` / `forValuesE` (a loop over `d.values()` whose body mutates the loop variable:
                      the dict is rebuilt with the mutated objects; objects after the raising one are untouched).
  index or slice      `Key`: the argument of `__delitem__`; `range(*key.indices(n))` of a slice is the builtin's
                      answer `indices n` (not re-implemented here).
-/
import DeapModel.Core.Logbook

namespace Gen18

open Logbook (Name)

/-- `d[k] = v` -/
def dictSet {β : Type} : List (Name × β) → Name → β → List (Name × β)
  | [], k, v => [(k, v)]
  | (k', v') :: rest, k, v => if k' = k then (k, v) :: rest else (k', v') :: dictSet rest k v

/-- `d.get(k, None)` -/
def dictGet {β : Type} (d : List (Name × β)) (k : Name) : Option β := d.lookup k

/-- `k in d` -/
def dictHas {β : Type} (d : List (Name × β)) (k : Name) : Bool := d.any (·.1 == k)

/-- `del d[k]` (the key is present) -/
def dictDel {β : Type} (d : List (Name × β)) (k : Name) : List (Name × β) := d.filter (fun p => !(p.1 == k))

/-- `d.update(e)` -/
def dictUpdate {β : Type} (d e : List (Name × β)) : List (Name × β) := e.foldl (fun acc p => dictSet acc p.1 p.2) d

def keys {β : Type} (d : List (Name × β)) : List Name := d.map (·.1)
def values {β : Type} (d : List (Name × β)) : List β := d.map (·.2)

/-- insertion into an ascending list -/
def insertAsc (x : Nat) : List Nat → List Nat
  | [] => [x]
  | y :: ys => if x ≤ y then x :: y :: ys else y :: insertAsc x ys

/-- `sorted(xs)` -/
def sorted : List Nat → List Nat
  | [] => []
  | x :: xs => insertAsc x (sorted xs)

/-- insertion into a descending list -/
def insertDesc (x : Nat) : List Nat → List Nat
  | [] => [x]
  | y :: ys => if y ≤ x then x :: y :: ys else y :: insertDesc x ys

/-- `sorted(xs, reverse=True)` -/
def sortedRev : List Nat → List Nat
  | [] => []
  | x :: xs => insertDesc x (sortedRev xs)

/-- `l.pop(index)`: the removed element and the remaining list; `none` = IndexError -/
def listPop {α : Type} (l : List α) (index : Int) : Option (α × List α) :=
  let pos : Int := if index < 0 then index + (l.length : Int) else index
  if 0 ≤ pos ∧ pos < (l.length : Int) then (l[pos.toNat]?).map (fun x => (x, l.eraseIdx pos.toNat)) else none

/-- `l[i]` for a literal `i ≥ 0` or any int; `none` = IndexError -/
def index {α : Type} (l : List α) (i : Int) : Option α :=
  let pos : Int := if i < 0 then i + (l.length : Int) else i
  if 0 ≤ pos then l[pos.toNat]? else none

/-- outcome of a method that can raise / recurse, together with the object as it was left -/
inductive Res (σ α : Type) where
  | ok (s : σ) (a : α)
  | raise (s : σ)
  | nofuel

/-- `for x in seq: body` (the body cannot raise) -/
def forIn {τ σ : Type} (seq : List τ) (init : σ) (body : τ → σ → σ) : σ :=
  seq.foldl (fun s x => body x s) init

/-- `for x in seq: body` with a body that can raise -/
def forInE {τ σ : Type} : List τ → σ → (τ → σ → Res σ Unit) → Res σ Unit
  | [], s, _ => .ok s ()
  | x :: xs, s, body =>
      match body x s with
      | .ok s' _ => forInE xs s' body
      | .raise s' => .raise s'
      | .nofuel => .nofuel

/-- `for v in d.values(): <mutate v>` (cannot raise) -/
def forValues {β : Type} (d : List (Name × β)) (body : β → β) : List (Name × β) :=
  d.map fun p => (p.1, body p.2)

/-- `for v in d.values(): <mutate v>` with a body that can raise -/
def forValuesE {β : Type} : List (Name × β) → (β → Res β Unit) → Res (List (Name × β)) Unit
  | [], _ => .ok [] ()
  | (k, v) :: rest, body =>
      match body v with
      | .ok v' _ =>
          (match forValuesE rest body with
           | .ok r _ => .ok ((k, v') :: r) ()
           | .raise r => .raise ((k, v') :: r)
           | .nofuel => .nofuel)
      | .raise v' => .raise ((k, v') :: rest)
      | .nofuel => .nofuel

/-- the argument of `__delitem__`: an integer, or a slice known through `range(*key.indices(n))` -/
inductive Key where
  | index (i : Int)
  | slice (indices : Nat → List Nat)

/-- `"\n".join(text)`: the lines ARE the observation of the model -/
def joinLines {τ : Type} (t : τ) : τ := t

/-- `defaultdict(Logbook)[key]`: the stored chapter, or a fresh `Logbook()` -/
def chapterOrNew (chs : List (Name × Logbook.LB)) (key : Name) : Logbook.LB :=
  match chs.lookup key with
  | some ch => ch
  | none => Logbook.LB.empty

end Gen18
