/-
C09 — the additional prelude of the TRANSLATOR TIE for the discrete crossovers and mutations
(`harness/py2lean_c09.py`): the Lean meaning of the Python constructs that translator renders on top of
`Core/GenPrelude.lean` — the explicit random TAPE, in-place item / slice assignment of `list`s in state-passing
style, and the `for` loop as a fold in the `Option` monad (`none` = the call raised / the tape cannot answer).
Together with the rendering rules at the top of `harness/py2lean_c09.py` this file is trusted base.
No Mathlib import.

The tape has the interface of the `…R` variants of `Core/CrossMut.lean`: the results of `random.random()` in call
order (`rnd`, any ordered type `ρ`) and the results of the integer-valued draws (`randint`, `randrange`, the two
elements of `sample(range(n), 2)`) in call order (`ints`).  A draw that the `random` function in question cannot
return (outside the closed range, equal elements of a sample, an empty range = `ValueError`) and an exhausted tape
are `none`.
-/
import DeapModel.Core.GenPrelude
import DeapModel.Core.CrossMut

namespace GenC

variable {β ρ S : Type}

/-- the draws a call consumes: results of `random()` / results of the integer draws, each in call order -/
structure Tape (ρ : Type) where
  rnd : List ρ
  ints : List Int
deriving Repr

/-- `random.random()` -/
def random (tp : Tape ρ) : Option (ρ × Tape ρ) :=
  match tp.rnd with
  | r :: rest => some (r, ⟨rest, tp.ints⟩)
  | [] => none

/-- `random.randint(a, b)`: the next integer draw `v`, possible only for `a ≤ v ≤ b` (an empty range raises) -/
def randint (tp : Tape ρ) (a b : Int) : Option (Int × Tape ρ) :=
  match tp.ints with
  | v :: rest => if a ≤ v ∧ v ≤ b then some (v, ⟨tp.rnd, rest⟩) else none
  | [] => none

/-- `random.randrange(n)`: `0 ≤ v < n` (`n ≤ 0` raises) -/
def randrange (tp : Tape ρ) (n : Int) : Option (Int × Tape ρ) := randint tp 0 (n - 1)

/-- `a, b = random.sample(range(n), 2)`: two different indices below `n`, in the order drawn (`n < 2` raises) -/
def sample2 (tp : Tape ρ) (n : Int) : Option ((Int × Int) × Tape ρ) :=
  match tp.ints with
  | a :: b :: rest =>
    if 0 ≤ a ∧ a < n ∧ 0 ≤ b ∧ b < n ∧ a ≠ b then some ((a, b), ⟨tp.rnd, rest⟩) else none
  | _ => none

/-- `l[i] = v` on a list: negative indices count from the end, `IndexError` = `none` -/
def setIndex (l : List β) (i : Int) (v : β) : Option (List β) :=
  if i < 0 then (if i + (l.length : Int) < 0 then none else some (l.set (i + (l.length : Int)).toNat v))
  else if i.toNat < l.length then some (l.set i.toNat v) else none

/-- `l[lo:hi] = r` on a list (step 1; `none` = bound omitted): CPython adjusts the bounds as for reading and
then raises `hi` to `lo` when it is smaller; the segment is REPLACED (the length may change) -/
def sliceSet (l : List β) (lo hi : Option Int) (r : List β) : List β :=
  let n := l.length
  let a := match lo with
    | none => 0
    | some i => Gen.bound n i
  let b := match hi with
    | none => n
    | some i => Gen.bound n i
  l.take a ++ r ++ l.drop (max a b)

/-- `for x in l: body` where the body maps the loop state (the variables it re-binds, the lists it mutates,
the tape) to the next state or raises -/
def forM (l : List β) (init : S) (f : S → β → Option S) : Option S :=
  match l with
  | [] => some init
  | x :: t => Option.bind (f init x) fun s => forM t s f

/-- `[x] * n` -/
def replicate (n : Int) (x : β) : List β := List.replicate n.toNat x

/-- `type(x)(not x)` (the idiom of `mutFlipBit`) on the gene types of `CrossMut.PyNot` -/
def typeNot [CrossMut.PyNot β] (x : β) : β := CrossMut.PyNot.pyNot x

end GenC
