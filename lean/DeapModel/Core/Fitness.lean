/-
Model of `deap/base.py` `Fitness` and `ConstrainedFitness` (C01).
Generic in the scalar type; the driver instantiates it at `Rat`, the theorems are proved
for every linearly ordered field.
-/
import DeapModel.Core.Py

namespace Fitness

variable {α : Type} [LT α] [LE α] [DecidableEq α] [DecidableLT α] [DecidableLE α]

/-- A `Fitness` object: only its weighted values are state (`weights` is a class attribute). -/
structure Fit (α : Type) where
  wvalues : List α
deriving Repr, DecidableEq

/-- `fitness.values = values` (base.py:187-199).  `none` models the failed `assert`. -/
def setValues [Mul α] (weights values : List α) : Option (Fit α) :=
  if values.length = weights.length then some ⟨List.zipWith (· * ·) values weights⟩ else none

/-- `fitness.values` (base.py:184-185). -/
def getValues [Div α] (weights : List α) (f : Fit α) : List α :=
  List.zipWith (· / ·) f.wvalues weights

/-- `del fitness.values` (base.py:201-202). -/
def delValues : Fit α := ⟨[]⟩

/-- `fitness.valid` (base.py:226-229). -/
def valid (f : Fit α) : Bool := f.wvalues.length != 0

def lt (a b : Fit α) : Bool := Py.tupleLt a.wvalues b.wvalues
def le (a b : Fit α) : Bool := Py.tupleLe a.wvalues b.wvalues
def eq (a b : Fit α) : Bool := Py.tupleEq a.wvalues b.wvalues
/-- `__gt__` is *defined* as `not __le__`, `__ge__` as `not __lt__`, `__ne__` as `not __eq__`. -/
def gt (a b : Fit α) : Bool := !le a b
def ge (a b : Fit α) : Bool := !lt a b
def ne (a b : Fit α) : Bool := !eq a b

/-- The loop of `dominates` (base.py:217-223) over the zipped selected values. -/
def dominatesLoop : List α → List α → Bool → Bool
  | a :: as, b :: bs, notEqual =>
      if b < a then dominatesLoop as bs true
      else if a < b then false
      else dominatesLoop as bs notEqual
  | _, _, notEqual => notEqual

/-- `self.dominates(other, obj)`; `idx` is `range(*obj.indices(len(wvalues)))`. -/
def dominates (a b : Fit α) (idxA idxB : List Nat) : Bool :=
  dominatesLoop (Py.slice idxA a.wvalues) (Py.slice idxB b.wvalues) false

/-- `Fitness.__deepcopy__`: a new object of the class carrying the same `wvalues`. -/
def deepcopy (f : Fit α) : Fit α := ⟨f.wvalues⟩

/-- `Fitness.__hash__` hashes `wvalues`; the model's hash key *is* the tuple. -/
def hashKey (f : Fit α) : List α := f.wvalues

/-- The operations a caller can apply to one fitness object over time. -/
inductive Op (α : Type) where
  | set (values : List α)
  | del

/-- One step of a fitness history; a failing `assert` leaves the object as it was. -/
def step [Mul α] (weights : List α) (f : Fit α) : Op α → Fit α
  | .set v => (setValues weights v).getD f
  | .del => delValues

def run [Mul α] (weights : List α) (f : Fit α) (ops : List (Op α)) : Fit α :=
  ops.foldl (step weights) f

/-! ### ConstrainedFitness -/

/-- `ConstrainedFitness`: weighted values plus `constraint_violation` (`None` or a sequence of numbers /
flags; Python sums them, `True` counting 1 and negative entries cancelling positive ones). -/
structure CFit (α : Type) where
  wvalues : List α
  cv : Option (List Int)
deriving Repr, DecidableEq

def CFit.base (f : CFit α) : Fit α := ⟨f.wvalues⟩

/-- `_violates_constraint` (base.py): `not valid and constraint_violation is not None and sum(...) > 0`. -/
def violates (f : CFit α) : Bool :=
  !(valid f.base) && (match f.cv with
    | none => false
    | some flags => decide (0 < flags.foldl (· + ·) 0))

def cle (a b : CFit α) : Bool :=
  if violates a && violates b then true
  else if violates a then true
  else if violates b then false
  else le a.base b.base

def clt (a b : CFit α) : Bool :=
  if violates a && violates b then false
  else if violates a then true
  else if violates b then false
  else lt a.base b.base

def ceq (a b : CFit α) : Bool :=
  if violates a && violates b then true
  else if violates a then false
  else if violates b then false
  else eq a.base b.base

def cgt (a b : CFit α) : Bool := !cle a b
def cge (a b : CFit α) : Bool := !clt a b
def cne (a b : CFit α) : Bool := !ceq a b

/-- `ConstrainedFitness.dominates` (no slice argument in this class). -/
def cdominates (a b : CFit α) : Bool :=
  if violates a && violates b then false
  else if violates a then false
  else if violates b then true
  else dominatesLoop a.wvalues b.wvalues false

/-- `ConstrainedFitness.dominates(other, obj)` as the class is now (repair F38: the objective slice of
`Fitness.dominates` is accepted and handed to the base class); `cdominates` is the case `obj = slice(None)`. -/
def cdominatesObj (a b : CFit α) (idxA idxB : List Nat) : Bool :=
  if violates a && violates b then false
  else if violates a then false
  else if violates b then true
  else dominates a.base b.base idxA idxB

/-- `del fitness.values` for the constrained class also clears the flags. -/
def cdelValues : CFit α := ⟨[], none⟩

/-- Clone of a constrained fitness: weighted values *and* the violation flags
(the class's declared state; see finding F2). -/
def cdeepcopy (f : CFit α) : CFit α := ⟨f.wvalues, f.cv⟩

/-- Operations on one constrained fitness object over time: assigning values, setting the
`constraint_violation` attribute, deleting the values (which also clears the attribute). -/
inductive COp (α : Type) where
  | set (values : List α)
  | setCv (cv : Option (List Int))
  | del

def cstep [Mul α] (weights : List α) (f : CFit α) : COp α → CFit α
  | .set v => match setValues weights v with
      | some g => ⟨g.wvalues, f.cv⟩
      | none => f
  | .setCv cv => ⟨f.wvalues, cv⟩
  | .del => cdelValues

def crun [Mul α] (weights : List α) (f : CFit α) (ops : List (COp α)) : CFit α :=
  ops.foldl (cstep weights) f

/-! ### Clones that are *rebuilt* instead of copied, and binary64 replay

`deepcopy` above hands the weighted values over as they are (base.py `__deepcopy__`, and pickling / `copy.copy`
through the instance `__dict__`).  The two definitions below are NOT the library: they are the two other ways a
clone could be produced, through the public `values` — written down so that `C01.clone_no_recompute` can say
exactly when such a clone is still the original, and `C01.reclone_*_witness` that under binary64 arithmetic it
is not.  (Seeded change C01-r7m2 is `recloneInv`.) -/

/-- a clone rebuilt by `cls(self.values)`: every weighted value becomes `(x / w) * w`. -/
def reclone [Mul α] [Div α] (weights : List α) (f : Fit α) : Option (Fit α) :=
  setValues weights (getValues weights f)

/-- `values` computed with cached inverse weights, `x * (1 / w)`. -/
def getValuesInv [Mul α] (invWeights : List α) (f : Fit α) : List α :=
  List.zipWith (· * ·) f.wvalues invWeights

/-- a clone rebuilt through `getValuesInv`: every weighted value becomes `(x * (1 / w)) * w`. -/
def recloneInv [Mul α] [Div α] (one : α) (weights : List α) (f : Fit α) : Option (Fit α) :=
  setValues weights (getValuesInv (weights.map (one / ·)) f)

/-- Round to nearest, ties to even, of the positive rational `n / d` to 53 significant bits: what IEEE-754
binary64 does to an exact result as long as that result is in the normal range (no exponent bounds here, so no
overflow and no gradual underflow; the correspondence stream stays inside the normal range and the driver
cross-checks every answer against the machine's own `Float` arithmetic). -/
def rnPos (n d : Nat) : Rat :=
  if n = 0 ∨ d = 0 then 0 else
  let s := 56 + Nat.log2 d                 -- n * 2^s / d ≥ 2^55
  let N := n * 2 ^ s
  let extra := Nat.log2 (N / d) + 1 - 53   -- bits of the integer quotient beyond 53
  let D := d * 2 ^ extra
  let m := N / D                           -- 2^52 ≤ m < 2^53
  let r := N % D
  let m' := if D < 2 * r ∨ (2 * r = D ∧ m % 2 = 1) then m + 1 else m
  mkRat ((m' * 2 ^ extra : Nat) : Int) (2 ^ s)

def rn64 (q : Rat) : Rat :=
  if q.num < 0 then - rnPos q.num.natAbs q.den else rnPos q.num.natAbs q.den

/-- A binary64 number in the normal range (or zero), seen as the rational it is; `*` and `/` are the exact
operation followed by one rounding, as IEEE-754 prescribes.  Division by zero is left as Lean's `x / 0 = 0`
(weights are non-zero). -/
structure R64 where
  q : Rat
deriving DecidableEq, Repr

instance : Mul R64 := ⟨fun a b => ⟨rn64 (a.q * b.q)⟩⟩
instance : Div R64 := ⟨fun a b => ⟨rn64 (a.q / b.q)⟩⟩
instance : LT R64 := ⟨fun a b => a.q < b.q⟩
instance : LE R64 := ⟨fun a b => a.q ≤ b.q⟩
instance : DecidableLT R64 := fun a b => inferInstanceAs (Decidable (a.q < b.q))
instance : DecidableLE R64 := fun a b => inferInstanceAs (Decidable (a.q ≤ b.q))

/-- the rational a (finite) `Float` is, from its bit pattern -/
def floatToRat (x : Float) : Rat :=
  let b : Nat := x.toBits.toNat
  let neg : Bool := b / 2 ^ 63 == 1
  let e : Nat := (b / 2 ^ 52) % 2 ^ 11
  let m : Nat := b % 2 ^ 52
  let big : Nat := (2 ^ 52 + m) * 2 ^ (e - 1075)
  let mag : Rat := if e = 0 then mkRat (Int.ofNat m) (2 ^ 1074)
    else if e ≥ 1075 then mkRat (Int.ofNat big) 1
    else mkRat (Int.ofNat (2 ^ 52 + m)) (2 ^ (1075 - e))
  if neg then - mag else mag

end Fitness
