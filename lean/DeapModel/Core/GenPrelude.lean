/-
C20 — the prelude of the TRANSLATOR (`harness/py2lean.py`): the Lean meaning of the Python built-ins the
translated sub-language uses.  Definitions that `py2lean` generates from `/repo`'s source live in namespace
`Gen` and are written against these helpers and `RealLike α` only.  Together with the rendering rules listed at
the top of `harness/py2lean.py` this file is the translator's trusted base: every definition below is the
documented behaviour of the Python built-in on the value types of the sub-language
(`float` = `α`, `int` = `Int`, `list`/`tuple`/generator = `List`, a raised exception = `none`).
Import-free.
-/
import DeapModel.Core.Scalar

namespace Gen
open RealLike

variable {α : Type} [RealLike α] {β γ : Type}

/-- the float a Python `int` becomes in mixed arithmetic -/
def ofInt : Int → α
  | Int.ofNat n => RealLike.ofNat n
  | Int.negSucc n => -(RealLike.ofNat (n + 1))

/-- `int / int` (true division; the divisor is checked by `nz` first) -/
def idiv (a b : Int) : α :=
  if 0 ≤ b then RealLike.ofRatio a b.toNat else RealLike.ofRatio (-a) (-b).toNat

/-- `x ** n` for a literal natural exponent `n`, by repeated multiplication -/
def ipow (x : α) : Nat → α
  | 0 => RealLike.ofNat 1
  | 1 => x
  | n + 2 => ipow x (n + 1) * x

/-- the guard of a division / modulo by an `int`: `ZeroDivisionError` = `none` -/
def nz (i : Int) : Option Int := if i = 0 then none else some i

/-- a slice bound normalised the way `PySlice_AdjustIndices` does for step 1: negative bounds count from the
end, the result is clamped to `[0, n]` -/
def bound (n : Nat) (i : Int) : Nat :=
  if i < 0 then (i + (n : Int)).toNat else min i.toNat n

/-- `l[lo:hi]` (step 1; `none` = bound omitted) -/
def slice (l : List β) (lo hi : Option Int) : List β :=
  let n := l.length
  let a := match lo with
    | none => 0
    | some i => bound n i
  let b := match hi with
    | none => n
    | some i => bound n i
  (l.take b).drop a

/-- `l[i]` : negative indices count from the end, `IndexError` = `none` -/
def index (l : List β) (i : Int) : Option β :=
  if i < 0 then (if i + (l.length : Int) < 0 then none else l[(i + (l.length : Int)).toNat]?)
  else l[i.toNat]?

/-- `range(a, b)` -/
def range (a b : Int) : List Int := (List.range (b - a).toNat).map fun (k : Nat) => a + (k : Int)

/-- `range(a, b, -1)` -/
def rangeDown (a b : Int) : List Int := (List.range (a - b).toNat).map fun (k : Nat) => a - (k : Int)

/-- `enumerate(l, k)` -/
def enumFrom : Int → List β → List (Int × β)
  | _, [] => []
  | k, a :: t => (k, a) :: enumFrom (k + 1) t

/-- `enumerate(l)` -/
def enumerate (l : List β) : List (Int × β) := enumFrom 0 l

/-- `reduce(f, l)` without an initial value: `TypeError` on an empty sequence -/
def reduce1 (f : β → β → β) : List β → Option β
  | [] => none
  | a :: t => some (t.foldl f a)

/-- `sum` of a list of `int`s -/
def isum (l : List Int) : Int := l.foldl (· + ·) 0

end Gen
