/-
C20 — the prelude of the TRANSLATOR (`harness/py2lean.py`): the Lean meaning of the Python built-ins the
translated sub-language uses.  Definitions that `py2lean` generates from `/repo`'s source live in namespace
`Gen` and are written against these helpers and `RealLike α` only.  Together with the rendering rules listed at
the top of `harness/py2lean.py` this file is the translator's trusted base: every definition below is the
documented behaviour of the Python built-in on the value types of the sub-language
(`float` = `α`, `int` = `Int`, `list`/`tuple`/generator = `List`, a raised exception = `none`).
Import-free.
-/
import DeapModel.Core.Scalar

namespace Gen
open RealLike

variable {α : Type} [RealLike α] {β γ : Type}

/-- the float a Python `int` becomes in mixed arithmetic -/
def ofInt : Int → α
  | Int.ofNat n => RealLike.ofNat n
  | Int.negSucc n => -(RealLike.ofNat (n + 1))

/-- `int / int` (true division; the divisor is checked by `nz` first) -/
def idiv (a b : Int) : α :=
  if 0 ≤ b then RealLike.ofRatio a b.toNat else RealLike.ofRatio (-a) (-b).toNat

/-- `x ** n` for a literal natural exponent `n`, by repeated multiplication -/
def ipow (x : α) : Nat → α
  | 0 => RealLike.ofNat 1
  | 1 => x
  | n + 2 => ipow x (n + 1) * x

/-- the guard of a division / modulo by an `int`: `ZeroDivisionError` = `none` -/
def nz (i : Int) : Option Int := if i = 0 then none else some i

/-- a slice bound normalised the way `PySlice_AdjustIndices` does for step 1: negative bounds count from the
end, the result is clamped to `[0, n]` -/
def bound (n : Nat) (i : Int) : Nat :=
  if i < 0 then (i + (n : Int)).toNat else min i.toNat n

/-- `l[lo:hi]` (step 1; `none` = bound omitted) -/
def slice (l : List β) (lo hi : Option Int) : List β :=
  let n := l.length
  let a := match lo with
    | none => 0
    | some i => bound n i
  let b := match hi with
    | none => n
    | some i => bound n i
  (l.take b).drop a

/-- `l[i]` : negative indices count from the end, `IndexError` = `none` -/
def index (l : List β) (i : Int) : Option β :=
  if i < 0 then (if i + (l.length : Int) < 0 then none else l[(i + (l.length : Int)).toNat]?)
  else l[i.toNat]?

/-- `range(a, b)` -/
def range (a b : Int) : List Int := (List.range (b - a).toNat).map fun (k : Nat) => a + (k : Int)

/-- `range(a, b, -1)` -/
def rangeDown (a b : Int) : List Int := (List.range (a - b).toNat).map fun (k : Nat) => a - (k : Int)

/-- `enumerate(l, k)` -/
def enumFrom : Int → List β → List (Int × β)
  | _, [] => []
  | k, a :: t => (k, a) :: enumFrom (k + 1) t

/-- `enumerate(l)` -/
def enumerate (l : List β) : List (Int × β) := enumFrom 0 l

/-- `reduce(f, l)` without an initial value: `TypeError` on an empty sequence -/
def reduce1 (f : β → β → β) : List β → Option β
  | [] => none
  | a :: t => some (t.foldl f a)

/-- `sum` of a list of `int`s -/
def isum (l : List Int) : Int := l.foldl (· + ·) 0

/-- `range(a, b, k)` for a literal step `k ≥ 1`: CPython's length `(b - a + k - 1) // k` (0 when `b ≤ a`) -/
def rangeStep (a b : Int) (k : Nat) : List Int :=
  (List.range ((b - a + ((k : Int) - 1)) / (k : Int)).toNat).map fun (j : Nat) => a + (j : Int) * (k : Int)

/-- `a ** e` for `int`s: the int power for `e ≥ 0`; a negative exponent (a float in Python) is OUTSIDE the rendering
and given as `none` -/
def ipowInt (a e : Int) : Option Int := if e < 0 then none else some (a ^ e.toNat)

/-- `int("".join(map(str, l)), 2)` for a list of the ints 0/1, most significant digit first: `ValueError` (= `none`)
on the empty list.  An element other than 0/1 is OUTSIDE the rendering (Python parses the decimal digits of the
elements, `[10]` is 2, `[2]` raises) and given as `none`. -/
def binNumeral (l : List Int) : Option Int :=
  if l.isEmpty then none
  else if l.all (fun d => d == 0 || d == 1) then some (l.foldl (fun acc d => 2 * acc + d) 0) else none

/-- `while cond: body` over the tuple `s` of the variables the body assigns, at most `fuel` iterations:
`none` = the body raised, or the loop is still running after `fuel` iterations (the theorems state the bound) -/
def whileLoop {σ : Type} (cond : σ → Bool) (body : σ → Option σ) : Nat → σ → Option σ
  | 0, s => if cond s then none else some s
  | fuel + 1, s => if cond s then (body s).bind (whileLoop cond body fuel) else some s

/-- `l * n` (list repetition; `n ≤ 0` gives the empty list) -/
def listMul (l : List β) (n : Int) : List β := (List.replicate n.toNat l).flatten

/-- `l[i] = v` in state-passing style: the new contents; negative indices count from the end, `IndexError` = `none` -/
def setItem (l : List β) (i : Int) (v : β) : Option (List β) :=
  if i < 0 then (if i + (l.length : Int) < 0 then none else some (l.set (i + (l.length : Int)).toNat v))
  else if i.toNat < l.length then some (l.set i.toNat v) else none

/-- `max(l)` of a list of floats: the first maximal element (a later one replaces the current one only when it is
greater); `ValueError` on the empty list = `none` -/
def pyMax : List α → Option α
  | [] => none
  | a :: t => some (t.foldl (fun m v => if m < v then v else m) a)

/-- Python `<` on lists of floats (lexicographic; equality of two floats = neither is smaller) -/
def listLt : List α → List α → Bool
  | [], [] => false
  | [], _ :: _ => true
  | _ :: _, [] => false
  | a :: as, b :: bs => if a < b then true else if b < a then false else listLt as bs

/-- Python `<` on tuples `(float, list of floats)` -/
def pairLt (p q : α × List α) : Bool :=
  if p.1 < q.1 then true else if q.1 < p.1 then false else listLt p.2 q.2

/-- `max(l)` of a list of such tuples: the first maximal one; `ValueError` on the empty list = `none` -/
def pyMaxPair : List (α × List α) → Option (α × List α)
  | [] => none
  | a :: t => some (t.foldl (fun m v => if pairLt m v then v else m) a)

/-- insertion into a list sorted in descending order, after the elements that are not smaller -/
def insertDesc (x : α × List α) : List (α × List α) → List (α × List α)
  | [] => [x]
  | y :: t => if pairLt y x then x :: y :: t else y :: insertDesc x t

/-- `sorted(l, reverse=True)` on `(float, list of floats)` tuples: descending and stable (equal elements keep their order) -/
def sortDesc (l : List (α × List α)) : List (α × List α) :=
  l.foldl (fun acc x => insertDesc x acc) []

/-- `random.random()`: the next draw of the tape; `none` when the tape is exhausted -/
def popRandom : List α → Option (α × List α)
  | [] => none
  | r :: rest => some (r, rest)

end Gen
