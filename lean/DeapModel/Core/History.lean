/-
C02 — model of `deap/tools/support.py` `History` (lines 15-147): `__init__`, `update`, `decorator`, `getGenealogy`,
on the heap of `Core/Variation.lean` (users register `toolbox.decorate("mate", history.decorator)`, so a
History-decorated operator is one of the "registered mate/mutate pairs" of C02).

Import-free and executable.

* An individual's instance attribute `history_index` is the field `Obj.hidx` of the variation heap (`none` = the
  attribute is absent); `toolbox.clone` copies the whole object, so clones carry it forward.
* `genealogy_tree` / `genealogy_history` are Python dicts: association lists in insertion order (`dset` replaces the
  value of a present key in place and appends an absent one, as `d[k] = v` does); `genealogy_history[k]` holds the
  oid of the deep copy `update` made.
* `update` is a heap transformer: it stamps the live individuals and allocates one fresh object per individual.
* the decorated operator keeps the `History` in the operators' private state: `Ops (σ × Hist)`.
* `getGenealogy` recurses without a bound in Python; the model carries the depth of the Python stack as `fuel`
  (`none` = `RecursionError`).
-/
import DeapModel.Core.Variation

namespace History
open Variation

/-! ## Python dicts with integer keys -/

abbrev Dict (β : Type) := List (Nat × β)

def dget {β : Type} : Dict β → Nat → Option β
  | [], _ => none
  | (k', v) :: d, k => if k' = k then some v else dget d k

/-- `d[k] = v` -/
def dset {β : Type} : Dict β → Nat → β → Dict β
  | [], k, v => [(k, v)]
  | (k', v') :: d, k, v => if k' = k then (k, v) :: d else (k', v') :: dset d k v

def dkeys {β : Type} (d : Dict β) : List Nat := d.map (·.1)

/-! ## The object -/

/-- `History.__init__` (lines 64-67): `genealogy_index = 0`, two empty dicts. -/
structure Hist where
  index : Nat := 0
  /-- `genealogy_tree`: index ↦ tuple of the parents' indices -/
  tree : Dict (List Nat) := []
  /-- `genealogy_history`: index ↦ (oid of) the deep copy of the individual -/
  hist : Dict Nat := []

structure UpdRes where
  hist : Hist
  heap : Heap
  next : Nat

/-- lines 88-91: `try: parent_indices = tuple(ind.history_index for ind in individuals)`
`except AttributeError: parent_indices = tuple()` — one individual without the attribute empties the whole tuple. -/
def parentIndices (h : Heap) (inds : List Nat) : List Nat :=
  match inds.mapM (fun o => (h o).hidx) with
  | some l => l
  | none => []

/-- lines 93-97, one iteration per individual (`n` = the next free oid):
`self.genealogy_index += 1; ind.history_index = self.genealogy_index;`
`self.genealogy_history[self.genealogy_index] = deepcopy(ind); self.genealogy_tree[self.genealogy_index] = parent_indices` -/
def updateLoop (parents : List Nat) : Hist → Heap → Nat → List Nat → UpdRes
  | H, h, n, [] => ⟨H, h, n⟩
  | H, h, n, o :: rest =>
    let k := H.index + 1
    let h1 := h.set o { h o with hidx := some k }
    let h2 := h1.set n (h1 o)                                   -- deepcopy(ind): a new object, equal in every field
    updateLoop parents { index := k, tree := dset H.tree k parents, hist := dset H.hist k n } h2 (n + 1) rest

/-- `History.update(individuals)` (lines 69-97). -/
def update (H : Hist) (h : Heap) (n : Nat) (inds : List Nat) : UpdRes :=
  updateLoop (parentIndices h inds) H h n inds

/-! ## The decorator (lines 99-115) -/

/-- `wrapFunc`: `individuals = func(*args, **kargs); self.update(individuals); return individuals` for a crossover
(the operator returns a pair). -/
def histMate {σ : Type} (mate : σ → Heap → Nat → Nat → Nat → MateRes σ)
    (t : σ × Hist) (h : Heap) (n a b : Nat) : MateRes (σ × Hist) :=
  let r := mate t.1 h n a b
  let u := update t.2 r.heap r.next [r.fst, r.snd]
  { tape := (r.tape, u.hist), heap := u.heap, next := u.next, fst := r.fst, snd := r.snd }

/-- … for a mutation (the operator returns a one-tuple). -/
def histMutate {σ : Type} (mutate : σ → Heap → Nat → Nat → MutRes σ)
    (t : σ × Hist) (h : Heap) (n a : Nat) : MutRes (σ × Hist) :=
  let r := mutate t.1 h n a
  let u := update t.2 r.heap r.next [r.ret]
  { tape := (r.tape, u.hist), heap := u.heap, next := u.next, ret := r.ret }

/-- an undecorated operator next to a decorated one: the history is passed through -/
def plainMate {σ : Type} (mate : σ → Heap → Nat → Nat → Nat → MateRes σ)
    (t : σ × Hist) (h : Heap) (n a b : Nat) : MateRes (σ × Hist) :=
  let r := mate t.1 h n a b
  { tape := (r.tape, t.2), heap := r.heap, next := r.next, fst := r.fst, snd := r.snd }

def plainMutate {σ : Type} (mutate : σ → Heap → Nat → Nat → MutRes σ)
    (t : σ × Hist) (h : Heap) (n a : Nat) : MutRes (σ × Hist) :=
  let r := mutate t.1 h n a
  { tape := (r.tape, t.2), heap := r.heap, next := r.next, ret := r.ret }

/-- `toolbox.decorate("mate", history.decorator)` (`dm`) and / or `toolbox.decorate("mutate", history.decorator)` (`du`) -/
def histOps {σ : Type} (dm du : Bool) (ops : Ops σ) : Ops (σ × Hist) where
  mate := if dm then histMate ops.mate else plainMate ops.mate
  mutate := if du then histMutate ops.mutate else plainMutate ops.mutate

/-! ## getGenealogy (lines 117-147) -/

/-- `depth > max_depth` (`none` = `float("inf")`) -/
def over (maxd : Option Nat) (depth : Nat) : Bool :=
  match maxd with
  | none => false
  | some m => decide (m < depth)

/-- the two closure variables `gtree`, `visited` -/
structure GSt where
  gtree : Dict (List Nat) := []
  visited : List Nat := []

/-- lines 142-145: `for ind in parent_indices: if ind not in visited: genealogy(ind, depth); visited.add(ind)` -/
def forParents (rec : Nat → GSt → Option GSt) : List Nat → GSt → Option GSt
  | [], s => some s
  | p :: ps, s =>
    if s.visited.contains p then forParents rec ps s
    else
      match rec p s with
      | none => none
      | some s1 => forParents rec ps { s1 with visited := p :: s1.visited }

/-- lines 134-145, the inner function `genealogy(index, depth)`; `fuel` = how many more Python frames fit on the stack -/
def genealogy (tree : Dict (List Nat)) (maxd : Option Nat) : Nat → Nat → Nat → GSt → Option GSt
  | 0, _, _, _ => none                                          -- RecursionError
  | fuel + 1, index, depth, s =>
    match dget tree index with
    | none => some s                                            -- if index not in self.genealogy_tree: return
    | some parents =>
      if over maxd (depth + 1) then some s                      -- depth += 1; if depth > max_depth: return
      else
        forParents (fun p s' => genealogy tree maxd fuel p (depth + 1) s') parents
          { s with gtree := dset s.gtree index parents }        -- gtree[index] = parent_indices

/-- `history.getGenealogy(individual, max_depth)` for an individual whose `history_index` is `root`. -/
def getGenealogy (H : Hist) (fuel root : Nat) (maxd : Option Nat) : Option (Dict (List Nat)) :=
  (genealogy H.tree maxd fuel root 0 {}).map (·.gtree)

end History
