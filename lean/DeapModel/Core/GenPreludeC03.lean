/-
C03 — prelude of the TRANSLATOR of the packaged-loop sub-language (`harness/py2lean_c03.py`): the Lean meaning of the
statements and calls that translator renders.  Definitions generated from `/repo`'s `deap/algorithms.py` (`Gen.eaSimple`,
`Gen.eaMuPlusLambda`, `Gen.eaMuCommaLambda`) are written against these helpers, the C02 prelude (`GenV.*`, for the translated
`varAnd` / `varOr` they call) and `Core/Loops.lean` (`invalidOf`, `pickAll`) only.  Together with the rendering rules in the
docstring of `harness/py2lean_c03.py` this file is the translator's trusted base.  Import-free (imports import-free files only).

A translated loop is a state-passing action `GenL.M σ β` over
  * `tape`     the private state of the registered operators,
  * `st`       the heap of individuals, the fresh-oid counter and the call log of `Core/Variation.lean`,
  * `log`      the (gen, nevals) records `logbook.record` received                       (ghost, as `Loops.LState.log`)
  * `shown` / `shownObj`   what `halloffame.update` received, with the content at that time   (ghost, as in `Loops.LState`)
  * `evals`    the calls of `toolbox.evaluate` as (generation, oid)                        (ghost, as in `Loops.LState`)
  * `gen`      the generation the run is in (0 before the generational loop; ghost, stamps `evals`)
  * `cur` / `recs`   the DECISION TAPE, one record per generation exactly as `Loops.generation` consumes one decision record per
                generation: the position lists the calls of `toolbox.select` of that generation return and, per call of a
                translated function that draws from `random` (`varAnd` / `varOr`), the results of the `random` module it consumes;
                for the ask/tell loop what `toolbox.generate()` hands back and the order `toolbox.update` leaves its list in.
`none` = the Python code raises, or the recorded decisions do not fit the calls made.
-/
import DeapModel.Core.Loops
import DeapModel.Core.GenPreludeC02

namespace GenL
open Variation Loops

structure GRec where
  /-- results of the calls of `toolbox.select` in this generation, in call order: POSITIONS in the list given -/
  sels : List (List Nat)
  /-- per call of a translated function of the module that draws from `random`: the draws it consumes -/
  draws : List (List Draw)
  /-- results of the calls of `toolbox.generate()` in this generation: the individuals handed back, with their content -/
  gens : List (List (Nat × Obj)) := []
  /-- per call of `toolbox.update(L)`: the order it leaves the list `L` in (positions of the old list) -/
  orders : List (List Nat) := []

structure LSt (σ : Type) where
  tape : σ
  st : St
  log : List (Nat × Nat)
  shown : List Nat
  shownObj : List (Nat × Obj)
  evals : List (Nat × Nat)
  gen : Nat
  cur : GRec
  recs : List GRec

abbrev M (σ β : Type) := LSt σ → Option (β × LSt σ)

variable {σ β γ : Type}

def pure (x : β) : M σ β := fun g => some (x, g)

/-- Python's sequencing: `b` runs in the state `a` left, nothing runs after a raise -/
def bind (m : M σ β) (k : β → M σ γ) : M σ γ := fun g =>
  match m g with
  | none => none
  | some (x, g1) => k x g1

def fail : M σ β := fun _ => none

/-- `if c: BODY` without `else`, BODY made of effect statements only -/
def when (c : Bool) (m : M σ Unit) : M σ Unit := if c then m else pure ()

/-- `[ind for ind in l if not ind.fitness.valid]` -/
def invalid (l : List Nat) : M σ (List Nat) := fun g => some (invalidOf g.st.heap l, g)

/-- `toolbox.map(toolbox.evaluate, l)`: `toolbox.evaluate` is a function `ev` of the genome (the model's assumption; hence the
laziness of `map` is not observable); every call is recorded in `evals` with the current generation -/
def mapEvaluate (ev : List Int → List Int) (l : List Nat) : M σ (List (List Int)) := fun g =>
  some (l.map (fun o => ev (g.st.heap o).genome), { g with evals := g.evals ++ l.map (fun o => (g.gen, o)) })

/-- `for ind, fit in zip(l, fs): ind.fitness.values = fit` on the heap -/
def zipAssign : Heap → List Nat → List (List Int) → Heap
  | h, o :: os, f :: fs => zipAssign (h.set o { h o with fit := some f }) os fs
  | h, _, _ => h

def assignZip (l : List Nat) (fs : List (List Int)) : M σ Unit := fun g =>
  some ((), { g with st := { g.st with heap := zipAssign g.st.heap l fs } })

/-- `halloffame.update(l)`: what the hall of fame is shown, with the content the individuals have at that time -/
def hofUpdate (l : List Nat) : M σ Unit := fun g =>
  some ((), { g with shown := g.shown ++ l, shownObj := g.shownObj ++ l.map (fun o => (o, g.st.heap o)) })

/-- `logbook.record(gen=g, nevals=n, **record)` -/
def record (g n : Nat) : M σ Unit := fun x => some ((), { x with log := x.log ++ [(g, n)] })

/-- `toolbox.select(l, k)`: the next recorded selection of this generation — `k` positions inside `l` (any selector that returns
`k` members of its argument); anything else does not fit -/
def select (l : List Nat) (k : Nat) : M σ (List Nat) := fun g =>
  match g.cur.sels with
  | [] => none
  | sel :: rest =>
    if sel.length = k then
      match pickAll l sel with
      | none => none
      | some c => some (c, { g with cur := { g.cur with sels := rest } })
    else none

/-- call of a translated function of the module that draws from `random` (C02's `Gen.varAnd` / `Gen.varOr`): it runs on the
operators' state and the heap, on exactly the draws recorded for this call -/
def callV (m : GenV.M σ (List Nat)) : M σ (List Nat) := fun g =>
  match g.cur.draws with
  | [] => none
  | d :: rest =>
    match GenV.runExact m g.tape g.st d with
    | none => none
    | some (r, t, s) => some (r, { g with tape := t, st := s, cur := { g.cur with draws := rest } })

/-- `toolbox.generate()`: the next recorded batch of this generation — the listed individuals (distinct objects, else the batch
does not fit) with the listed content, brand-new or persistent ones the strategy moved in place (`Loops.writeAll`) -/
def generate : M σ (List Nat) := fun x =>
  match x.cur.gens with
  | [] => none
  | objs :: rest =>
    if decide (objs.map (·.1)).Nodup then
      some (objs.map (·.1), { x with st := writeAll x.st objs, cur := { x.cur with gens := rest } })
    else none

/-- `toolbox.update(L)`: the strategy's update may reorder the list it is given in place (`cma.Strategy.update` sorts it): the new
content of `L` is the recorded rearrangement of its members (`Loops.isPerm`); the strategy's own state is outside the model -/
def update (l : List Nat) : M σ (List Nat) := fun x =>
  match x.cur.orders with
  | [] => none
  | o :: rest =>
    if isPerm o l.length then
      match pickAll l o with
      | none => none
      | some l' => some (l', { x with cur := { x.cur with orders := rest } })
    else none

/-- start of an iteration of the generational loop: the next decision record, the generation number -/
def nextRec (g : Nat) : M σ Unit := fun x =>
  match x.recs with
  | [] => none
  | r :: rs => some ((), { x with gen := g, cur := r, recs := rs })

/-- end of an iteration: the generation's record must be used up -/
def endRec : M σ Unit := fun x =>
  if x.cur.sels.isEmpty && x.cur.draws.isEmpty && x.cur.gens.isEmpty && x.cur.orders.isEmpty then some ((), x) else none

/-- `for gen in range(start, start + n): BODY` — the generational loop; `x` = the variable the body re-assigns and that is used
after the loop (`population`, through `population[:] = …`: new content of the caller's list) -/
def forGens (body : Nat → β → M σ β) : Nat → Nat → β → M σ β
  | _, 0, x => pure x
  | g, n + 1, x =>
    bind (nextRec g) fun _ => bind (body g x) fun x' => bind endRec fun _ => forGens body (g + 1) n x'

end GenL
