/-
C02 / C03 — prelude of the TRANSLATOR of the toolbox-loop sub-language (`harness/py2lean_c02.py`): the Lean meaning of the
statements and calls that translator renders.  Definitions generated from `/repo`'s `deap/algorithms.py` live in namespace
`Gen` and are written against these helpers and `Core/Variation.lean` (heap of objects, `clone`, `Ops`) only.  Together with
the rendering rules in the docstring of `harness/py2lean_c02.py` this file is the translator's trusted base.
Import-free (imports the import-free C02 model only).

A translated function is a state-passing action `M σ β`: it reads and writes
  * `tape`  — the private state of the registered operators (`toolbox.mate` / `toolbox.mutate`),
  * `st`    — the heap of individuals, the fresh-oid counter and the call log of `Core/Variation.lean`,
  * `draws` — the not yet consumed results of the calls of the `random` module (`Variation.Draw`), in call order,
and yields `none` where the Python code raises (or the recorded draws do not fit the calls made).
-/
import DeapModel.Core.Variation

namespace GenV
open Variation

structure GSt (σ : Type) where
  tape : σ
  st : St
  draws : List Draw

abbrev M (σ β : Type) := GSt σ → Option (β × GSt σ)

variable {σ β γ : Type}

/-- evaluation of an expression without effect -/
def pure (x : β) : M σ β := fun g => some (x, g)

/-- `a ; b` / `x = a ; b` — Python's sequencing: `b` runs in the state `a` left, nothing runs after a raise -/
def bind (m : M σ β) (k : β → M σ γ) : M σ γ := fun g =>
  match m g with
  | none => none
  | some (x, g1) => k x g1

/-- a raised exception -/
def fail : M σ β := fun _ => none

/-- `toolbox.clone(ind)` -/
def clone (p : Nat) : M σ Nat := fun g =>
  let c := Variation.clone g.st p
  some (c.2, { g with st := c.1 })

/-- `toolbox.mate(a, b)` unpacked into two targets: the registered operator runs on the current heap; the call is logged -/
def mate (ops : Ops σ) (a b : Nat) : M σ (Nat × Nat) := fun g =>
  let r := ops.mate g.tape g.st.heap g.st.next a b
  some ((r.fst, r.snd),
        { tape := r.tape, st := { heap := r.heap, next := r.next, log := g.st.log ++ [Ev.mate a b] }, draws := g.draws })

/-- `toolbox.mutate(a)` unpacked into one target (`x, = …`) -/
def mutate (ops : Ops σ) (a : Nat) : M σ Nat := fun g =>
  let r := ops.mutate g.tape g.st.heap g.st.next a
  some (r.ret,
        { tape := r.tape, st := { heap := r.heap, next := r.next, log := g.st.log ++ [Ev.mutate a] }, draws := g.draws })

/-- `del x.fitness.values` -/
def delFit (o : Nat) : M σ Unit := fun g =>
  some ((), { g with st := { g.st with heap := Variation.delFit g.st.heap o } })

/-- `random.random()`: the next draw must be a `random()` result -/
def random : M σ Float := fun g =>
  match g.draws with
  | Draw.rnd x :: rest => some (x, { g with draws := rest })
  | _ => none

/-- `random.sample(population, 2)`: the next draw names two different positions; the list of the two members -/
def sample2 (pop : List Nat) : M σ (List Nat) := fun g =>
  match g.draws with
  | Draw.sample i j :: rest =>
    if i = j then none else
    match pop[i]?, pop[j]? with
    | some p, some q => some ([p, q], { g with draws := rest })
    | _, _ => none
  | _ => none

/-- `random.choice(population)`: the next draw names a position -/
def choice (pop : List Nat) : M σ Nat := fun g =>
  match g.draws with
  | Draw.choice i :: rest =>
    match pop[i]? with
    | some p => some (p, { g with draws := rest })
    | none => none
  | _ => none

/-- `a, b = seq` for a list value: exactly two elements, else ValueError -/
def unpack2 (l : List Nat) : M σ (Nat × Nat) :=
  match l with
  | [a, b] => pure (a, b)
  | _ => fail

/-- `a, = seq` for a list value: exactly one element, else ValueError -/
def unpack1 (l : List Nat) : M σ Nat :=
  match l with
  | [a] => pure a
  | _ => fail

/-- `[f(x) for x in l]`: the element expression is evaluated for each member in order -/
def mapM (f : Nat → M σ β) : List Nat → M σ (List β)
  | [] => pure []
  | x :: xs => bind (f x) fun y => bind (mapM f xs) fun ys => pure (y :: ys)

/-- `for i in range(1, len(X), 2): BODY` where BODY reaches `X` only as `X[i - 1]` and `X[i]`: the body is run on every
adjacent pair `(X[0], X[1]), (X[2], X[3]), …` in order and yields the new content of the two cells; a trailing single
element is not visited. -/
def forPairs (body : Nat → Nat → M σ (Nat × Nat)) : List Nat → M σ (List Nat)
  | a :: b :: rest => bind (body a b) fun p => bind (forPairs body rest) fun r => pure (p.1 :: p.2 :: r)
  | l => pure l

/-- `for i in range(len(X)): BODY` where BODY reaches `X` only as `X[i]`: the body yields the new content of the cell -/
def forEach (body : Nat → M σ Nat) : List Nat → M σ (List Nat)
  | [] => pure []
  | a :: rest => bind (body a) fun a' => bind (forEach body rest) fun r => pure (a' :: r)

/-- `for _ in range(n): BODY` where BODY appends exactly one element to one list on every path: the appended elements -/
def repeatM (body : M σ Nat) : Nat → M σ (List Nat)
  | 0 => pure []
  | n + 1 => bind body fun o => bind (repeatM body n) fun os => pure (o :: os)

/-- the whole call, on a tape that holds exactly the draws the call consumes (left-over draws = the tape does not fit) -/
def runExact (m : M σ β) (t : σ) (s : St) (draws : List Draw) : Option (β × σ × St) :=
  match m ⟨t, s, draws⟩ with
  | none => none
  | some (x, g) => if g.draws.isEmpty then some (x, g.tape, g.st) else none

end GenV
