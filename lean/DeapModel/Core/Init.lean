/-
C16 — model of `deap/tools/init.py`: `initRepeat` (line 27), `initIterate` (line 50), `initCycle` (line 74).

    initRepeat(container, func, n)      = container(func() for _ in range(n))
    initIterate(container, generator)   = container(generator())
    initCycle(container, seq_func, n=1) = container(func() for _ in range(n) for func in seq_func)

Import-free and executable.  A zero-argument callable with side effects (`random.random`, a counter, a closure over a list) is a
state transformer `σ → σ × α`; the generator expressions are consumed from left to right, one call per element.  The container is
either abstract (`List α → γ`) or a class made by `creator.create` (`Heap.create` of `Core/Heap.lean`: the object with its freshly
instantiated `dict_inst` attributes).  For the `creator` classes the functions produce atoms and do not touch the heap (the
`toolbox.attr_*` of the tutorials), so whether a base consumes the generator in `__new__` (array, ndarray: before `init_type`
instantiates the attributes) or in `__init__` (list, set, dict: after) cannot be observed in the heap.
-/
import DeapModel.Core.Heap

namespace Init
open Heap

abbrev Func (σ α : Type) := σ → σ × α

/-- the calls `f()` for `f` in the given sequence, left to right -/
def runCalls {σ α : Type} : List (Func σ α) → σ → σ × List α
  | [], s => (s, [])
  | f :: fs, s =>
    let r := f s
    let t := runCalls fs r.1
    (t.1, r.2 :: t.2)

/-- `func() for _ in range(n)` -/
def repeatCalls {σ α : Type} (func : Func σ α) : Nat → σ → σ × List α
  | 0, s => (s, [])
  | n + 1, s =>
    let r := func s
    let t := repeatCalls func n r.1
    (t.1, r.2 :: t.2)

/-- `func() for _ in range(n) for func in seq_func`: the outer loop runs `n` times over the whole sequence -/
def cycleCalls {σ α : Type} (fs : List (Func σ α)) : Nat → σ → σ × List α
  | 0, s => (s, [])
  | n + 1, s =>
    let r := runCalls fs s
    let t := cycleCalls fs n r.1
    (t.1, r.2 ++ t.2)

def initRepeat {σ α γ : Type} (container : List α → γ) (func : Func σ α) (n : Nat) (s : σ) : σ × γ :=
  let r := repeatCalls func n s
  (r.1, container r.2)

def initIterate {σ α γ : Type} (container : List α → γ) (generator : Func σ (List α)) (s : σ) : σ × γ :=
  let r := generator s
  (r.1, container r.2)

def initCycle {σ α γ : Type} (container : List α → γ) (fs : List (Func σ α)) (n : Nat) (s : σ) : σ × γ :=
  let r := cycleCalls fs n s
  (r.1, container r.2)

/-! ### the container is a `creator` class -/

/-- `tools.initRepeat(creator.C, func, n)` -/
def initRepeatCls {τ : Type} (ct : ClassTable) (c : ClsId) (func : Func τ Val) (n : Nat) (t : τ) (st : State) :
    Option (τ × State × Oid) :=
  let r := repeatCalls func n t
  (create ct st c r.2).map (fun p => (r.1, p.1, p.2))

/-- `tools.initCycle(creator.C, seq_func, n)` -/
def initCycleCls {τ : Type} (ct : ClassTable) (c : ClsId) (fs : List (Func τ Val)) (n : Nat) (t : τ) (st : State) :
    Option (τ × State × Oid) :=
  let r := cycleCalls fs n t
  (create ct st c r.2).map (fun p => (r.1, p.1, p.2))

/-- `tools.initIterate(creator.C, generator)` -/
def initIterateCls {τ : Type} (ct : ClassTable) (c : ClsId) (generator : Func τ (List Val)) (t : τ) (st : State) :
    Option (τ × State × Oid) :=
  let r := generator t
  (create ct st c r.2).map (fun p => (r.1, p.1, p.2))

/-! ### what the base container makes of the sequence it is given (the content the C16 abstraction shows) -/

inductive Shape where
  | seq      -- list, array, ndarray: the elements in order
  | set      -- set: each element once (shown in ascending order of the atoms)
  | dict     -- dict: every call returns a (key, value) pair; a key keeps its first position and its last value
deriving DecidableEq, Repr

def atomKey : Val → Int
  | .atom a => a
  | .ref o => Int.ofNat o

def insertSorted (v : Val) : List Val → List Val
  | [] => [v]
  | x :: r => if atomKey v < atomKey x then v :: x :: r else if atomKey v = atomKey x then x :: r else x :: insertSorted v r

def dictPut (k v : Val) : List (Val × Val) → List (Val × Val)
  | [] => [(k, v)]
  | (k', v') :: r => if k' = k then (k, v) :: r else (k', v') :: dictPut k v r

def pairsOf : List Val → List (Val × Val)
  | k :: v :: r => (k, v) :: pairsOf r
  | _ => []

def contentOf : Shape → List Val → List Val
  | .seq, l => l
  | .set, l => l.foldl (fun acc v => insertSorted v acc) []
  | .dict, l => ((pairsOf l).foldl (fun acc p => dictPut p.1 p.2 acc) []).flatMap (fun p => [p.1, p.2])

end Init
