/-
Geometric semantic GP operators (deap/gp.py `mutSemantic`, `cxSemantic`).  Import-free executable model on top of
`Core/GpTree.lean`, list level AS CODED (`PrimitiveTree` is a `list`; both operators work IN PLACE on the parent
objects with `insert(0, …)`, `append`, `extend` — no `__setitem__` guard is involved — and return those objects).

* `semPieces`   — the `for p in ['lf', 'mul', 'add', 'sub']: assert p in pset.mapping` loop + the four lookups
* `mutSemantic` — `add(ind, mul(ms, sub(lf(tr1), lf(tr2))))`
* `cxSemantic`  — child 1 `add(mul(ind1, lf(tr)), mul(sub(1.0, lf(tr)), ind2))`; child 2 is built AFTER `ind1` was
                  changed in place, so `new_ind2.extend(ind1)` appends the whole first CHILD:
                  `add(mul(ind2, lf(tr)), mul(sub(1.0, lf(tr)), child1))`
* `semMutTree`, `semCxTree` — the trees those lists are the prefix forms of

The random trees come from `gen_func(pset, min, max)` (a parameter, like `expr` of `mutUniform`); the mutation step
`ms` is a parameter or one `random.uniform(0, 2)`, which CPython defines as `a + (b - a) * random()`: one `rnd` draw.
The new constant nodes are `Terminal(ms, False, object)` / `Terminal(1.0, False, object)`: name `str(value)`, text
`repr(value)` — equal for a float; the text of a double is supplied by `reprF` (Python's `repr`, not modelled).
-/
import DeapModel.Core.GpTree

namespace GpTree

/-- `pset.mapping['lf']`, `['mul']`, `['add']`, `['sub']` -/
structure SemPieces where
  lf : Prim
  mul : Prim
  add : Prim
  sub : Prim

/-- the assertion loop (gp.py:1289-1290, 1352-1353): all four names must be keys of `pset.mapping`
(`AssertionError`, or `KeyError` at the first lookup under `python -O`: no result either way) -/
def semPieces (mapping : String → Option Prim) : Option SemPieces :=
  match mapping "lf", mapping "mul", mapping "add", mapping "sub" with
  | some a, some b, some c, some d => some ⟨a, b, c, d⟩
  | _, _, _, _ => none

/-- `Terminal(v, False, object)` for a float `v` whose `repr` is `text` (gp.py:236-241: `name = str(v)`) -/
def constNode (text : String) : Prim := ⟨text, objT, [], .term, text⟩

/-- `random.uniform(a, b)` = `a + (b - a) * random()` (CPython `Random.uniform`) -/
def popUniform (a b : Float) (tp : Tape) : R (Float × Tape) :=
  match popRnd tp with
  | .error e => .error e
  | .ok (x, tp) => .ok (a + (b - a) * x, tp)

/-- the list `mutSemantic` leaves in `individual` (gp.py:1292-1311), statement by statement -/
def semMutList (pc : SemPieces) (msN : Prim) (ind tr1 tr2 : List Prim) : List Prim :=
  let tr1 := pc.lf :: tr1                       -- tr1.insert(0, pset.mapping['lf'])
  let tr2 := pc.lf :: tr2                       -- tr2.insert(0, pset.mapping['lf'])
  let new := pc.add :: ind                      -- new_ind.insert(0, pset.mapping["add"])
  let new := new ++ [pc.mul]                    -- new_ind.append(pset.mapping["mul"])
  let new := new ++ [msN]                       -- new_ind.append(mutation_step)
  let new := new ++ [pc.sub]                    -- new_ind.append(pset.mapping["sub"])
  let new := new ++ tr1                         -- new_ind.extend(tr1)
  new ++ tr2                                    -- new_ind.extend(tr2)

/-- `mutSemantic(individual, gen_func, pset, ms, min, max)` (gp.py:1263-1313); `gen` = `gen_func(pset, min, max)` -/
def mutSemantic (mapping : String → Option Prim) (reprF : Float → String) (ind : List Prim)
    (gen : Tape → R (List Prim × Tape)) (ms : Option Float) (tp : Tape) : R (List Prim × Tape) :=
  match semPieces mapping with
  | none => .error .raised                                               -- :1289-1290
  | some pc =>
    match gen tp with                                                    -- :1292
    | .error e => .error e
    | .ok (tr1, tp) =>
      match gen tp with                                                  -- :1293
      | .error e => .error e
      | .ok (tr2, tp) =>
        match (match ms with
          | some v => (.ok (v, tp) : R (Float × Tape))
          | none => popUniform 0.0 2.0 tp) with                          -- :1297-1298
        | .error e => .error e
        | .ok (v, tp) => .ok (semMutList pc (constNode (reprF v)) ind tr1 tr2, tp)

/-- the list `cxSemantic` leaves in its first parent (gp.py:1355-1365), given the second one as it is at that moment -/
def semCxList (pc : SemPieces) (oneN : Prim) (a b tr : List Prim) : List Prim :=
  let tr := pc.lf :: tr                         -- tr.insert(0, pset.mapping['lf'])
  let new := pc.mul :: a                        -- new_ind1.insert(0, pset.mapping["mul"])
  let new := pc.add :: new                      -- new_ind1.insert(0, pset.mapping["add"])
  let new := new ++ tr                          -- new_ind1.extend(tr)
  let new := new ++ [pc.mul]                    -- new_ind1.append(pset.mapping["mul"])
  let new := new ++ [pc.sub]                    -- new_ind1.append(pset.mapping["sub"])
  let new := new ++ [oneN]                      -- new_ind1.append(Terminal(1.0, False, object))
  let new := new ++ tr                          -- new_ind1.extend(tr)
  new ++ b                                      -- new_ind1.extend(ind2)

/-- `cxSemantic(ind1, ind2, gen_func, pset, min, max)` (gp.py:1318-1378) for two distinct parent objects.
`new_ind1 = ind1` is the same object as `ind1`, so when the second child is assembled `new_ind2.extend(ind1)`
(:1376) appends the first CHILD, not the first parent. -/
def cxSemantic (mapping : String → Option Prim) (reprF : Float → String) (ind1 ind2 : List Prim)
    (gen : Tape → R (List Prim × Tape)) (tp : Tape) : R (List Prim × List Prim × Tape) :=
  match semPieces mapping with
  | none => .error .raised                                               -- :1352-1353
  | some pc =>
    match gen tp with                                                    -- :1355
    | .error e => .error e
    | .ok (tr, tp) =>
      let one := constNode (reprF 1.0)
      let new1 := semCxList pc one ind1 ind2 tr                          -- :1357-1365
      let new2 := semCxList pc one ind2 new1 tr                          -- :1367-1376 (`ind1` is `new_ind1` by now)
      .ok (new1, new2, tp)

/-! ## Tree level -/

/-- `add(ti, mul(ms, sub(lf(t1), lf(t2))))` -/
def semMutTree (pc : SemPieces) (msN : Prim) (ti t1 t2 : Tree) : Tree :=
  .node pc.add [ti, .node pc.mul [.node msN [], .node pc.sub [.node pc.lf [t1], .node pc.lf [t2]]]]

/-- `add(mul(ta, lf(tr)), mul(sub(1.0, lf(tr)), tb))` -/
def semCxTree (pc : SemPieces) (oneN : Prim) (ta tb tr : Tree) : Tree :=
  .node pc.add [.node pc.mul [ta, .node pc.lf [tr]], .node pc.mul [.node pc.sub [.node oneN [], .node pc.lf [tr]], tb]]

/-! ## A value-generic reading of `evalTree` (the denotation of a prefix tree, over any carrier)

`GpCompile.evalTree` fixes the carrier `PyLang.Val`; the same recursion over an arbitrary carrier `α` (ℝ in the
theorems about what the semantic operators compute) is `evalG`.  Names and texts are `List Char` as there. -/

structure EnvG (α : Type) where
  funs : List Char → Option (List α → Option α)
  vars : List Char → Option α
  lit : List Char → Option α

mutual
def evalG {α : Type} (env : EnvG α) : Tree → Option α
  | .node p as =>
    if p.kind = .prim then
      match env.funs p.name.toList, evalGF env as with
      | some f, some vs => f vs
      | _, _ => none
    else
      match env.vars p.text.toList with
      | some v => some v
      | none => env.lit p.text.toList
def evalGF {α : Type} (env : EnvG α) : List Tree → Option (List α)
  | [] => some []
  | t :: ts =>
    match evalG env t, evalGF env ts with
    | some v, some vs => some (v :: vs)
    | _, _ => none
end

end GpTree
