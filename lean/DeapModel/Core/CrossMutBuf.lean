import DeapModel.Core.Buffer
import DeapModel.Core.CrossMut
/-
The discrete crossovers and mutations of `deap/tools/crossover.py` / `mutation.py` (C09) once
more, this time over the buffer interface of `Core/Buffer.lean`, statement by statement as the
Python code is written: the individuals are buffer ids in a heap, item and slice access are the
primitives of `Buffer`, and every operator takes the slice discipline `d` of the backing type
(`copy` = list / array.array, `view` = numpy.ndarray).  Import-free.

The operators that only read and write single items never hand `d` to a primitive: that is the
(syntactic) reason why they are representation independent (`C09.elementwise_repr_independent`).
The slice-swapping operators do, and under `view` they lose genes
(`C09.slice_swap_view_loses_genes`).  Under `copy` every operator computes what the list model
`Core/CrossMut.lean` computes (`C09.copy_refines_list`).

Draws are explicit arguments as in `Core/CrossMut.lean`; the `…Ok` guards of that file (stated on
the contents before the call) say which draws are possible.  Every operator returns the ids it was
given (`return ind1, ind2` / `return individual,`).
-/
namespace CrossMutBuf
open Buffer
open CrossMut (normCx Bound PyNot)

variable {α : Type}

/-- `ind1[a1:b1], ind2[a2:b2] = ind2[a2:b2], ind1[a1:b1]` — the tuple assignment of all slice-swapping
crossovers: both right-hand slices first (left to right), then the two stores (left to right) -/
def swapSlices (d : Disc) (ind1 ind2 : Nat) (a1 : Nat) (b1 : Option Nat) (a2 : Nat) (b2 : Option Nat) : M α Unit := do
  let r1 ← slice d (.buf ind2) a2 b2
  let r2 ← slice d (.buf ind1) a1 b1
  sliceAssign d ind1 a1 b1 r1
  sliceAssign d ind2 a2 b2 r2

/-! ### cxOnePoint (crossover.py:17-34) -/

/-- `ind1[cxpoint:], ind2[cxpoint:] = ind2[cxpoint:], ind1[cxpoint:]`; `return ind1, ind2` -/
def cxOnePoint (d : Disc) (ind1 ind2 : Nat) (cxpoint : Nat) : M α (Nat × Nat) := do
  swapSlices d ind1 ind2 cxpoint none cxpoint none
  return (ind1, ind2)

/-! ### cxTwoPoint (crossover.py:37-59) -/

/-- the normalisation of the two draws, then
`ind1[cxpoint1:cxpoint2], ind2[cxpoint1:cxpoint2] = ind2[cxpoint1:cxpoint2], ind1[cxpoint1:cxpoint2]` -/
def cxTwoPoint (d : Disc) (ind1 ind2 : Nat) (cxpoint1 cxpoint2 : Nat) : M α (Nat × Nat) := do
  let c := normCx cxpoint1 cxpoint2
  swapSlices d ind1 ind2 c.1 (some c.2) c.1 (some c.2)
  return (ind1, ind2)

/-- `cxTwoPoints`: `return cxTwoPoint(ind1, ind2)` -/
def cxTwoPoints (d : Disc) (ind1 ind2 : Nat) (cxpoint1 cxpoint2 : Nat) : M α (Nat × Nat) :=
  cxTwoPoint d ind1 ind2 cxpoint1 cxpoint2

/-! ### cxUniform (crossover.py:72-90) -/

/-- `ind1[i], ind2[i] = ind2[i], ind1[i]` (two item reads, then two item stores) -/
def swapItems (ind1 ind2 i : Nat) : M α Unit := do
  let x ← getItem ind2 i
  let y ← getItem ind1 i
  setItem ind1 i x
  setItem ind2 i y

/-- `size = min(len(ind1), len(ind2))`; `for i in range(size): if random.random() < indpb: <swapItems>` -/
def cxUniform (_d : Disc) (ind1 ind2 : Nat) (ds : List Bool) : M α (Nat × Nat) := do
  let size := min (← len ind1) (← len ind2)
  forEach ((List.range size).zip ds) fun id =>
    if id.2 then swapItems ind1 ind2 id.1 else pure ()
  return (ind1, ind2)

/-! ### cxMessyOnePoint (crossover.py:366-382) -/

/-- `ind1[cxpoint1:], ind2[cxpoint2:] = ind2[cxpoint2:], ind1[cxpoint1:]` -/
def cxMessyOnePoint (d : Disc) (ind1 ind2 : Nat) (cxpoint1 cxpoint2 : Nat) : M α (Nat × Nat) := do
  swapSlices d ind1 ind2 cxpoint1 none cxpoint2 none
  return (ind1, ind2)

/-! ### cxESTwoPoint (crossover.py:418-444)

The genes and the strategies may have different item types (and different backings), so they live
in two heaps; the first tuple assignment touches only the individuals, the second only their
`strategy` attributes. -/

/-- state: (heap of the individuals, heap of the strategies); `dg`, `ds` = the disciplines of the two
backings; `s1`, `s2` = the ids of `ind1.strategy`, `ind2.strategy` in the second heap -/
def cxESTwoPoint {σ : Type} (dg ds : Disc) (ind1 ind2 s1 s2 : Nat) (pt1 pt2 : Nat)
    (h : Heap α × Heap σ) : Res (Heap α × Heap σ) (Nat × Nat) :=
  let c := normCx pt1 pt2
  -- ind1[pt1:pt2], ind2[pt1:pt2] = ind2[pt1:pt2], ind1[pt1:pt2]
  match (swapSlices dg ind1 ind2 c.1 (some c.2) c.1 (some c.2) : M α Unit) h.1 with
  | .raise e hg => .raise e (hg, h.2)
  | .ok _ hg =>
    -- ind1.strategy[pt1:pt2], ind2.strategy[pt1:pt2] = ind2.strategy[pt1:pt2], ind1.strategy[pt1:pt2]
    match (swapSlices ds s1 s2 c.1 (some c.2) c.1 (some c.2) : M σ Unit) h.2 with
    | .raise e hs => .raise e (hg, hs)
    | .ok _ hs => .ok (ind1, ind2) (hg, hs)

/-- `cxESTwoPoints`: `return cxESTwoPoint(ind1, ind2)` -/
def cxESTwoPoints {σ : Type} (dg ds : Disc) (ind1 ind2 s1 s2 : Nat) (pt1 pt2 : Nat)
    (h : Heap α × Heap σ) : Res (Heap α × Heap σ) (Nat × Nat) :=
  cxESTwoPoint dg ds ind1 ind2 s1 s2 pt1 pt2 h

/-- the two individuals (genes, strategy) after `cxESTwoPoint` on argument objects 0, 1 whose strategies
are the objects 0, 1 of the second heap; `none` = it raised -/
def runES {σ : Type} (dg ds : Disc) (g1 : List α) (s1 : List σ) (g2 : List α) (s2 : List σ) (pt1 pt2 : Nat) :
    Option (CrossMut.ESInd α σ × CrossMut.ESInd α σ) :=
  match cxESTwoPoint dg ds 0 1 0 1 pt1 pt2 (heap2 g1 g2, heap2 s1 s2) with
  | .ok _ h => some (⟨h.1.cell 0, h.2.cell 0⟩, ⟨h.1.cell 1, h.2.cell 1⟩)
  | .raise _ _ => none

/-! ### cxPartialyMatched / cxUniformPartialyMatched (crossover.py:93-184) -/

/-- `p1, p2 = [0]*size, [0]*size; for i in range(size): p1[ind1[i]] = i; p2[ind2[i]] = i` -/
def pmInit (ind1 ind2 size : Nat) : M Nat (List Nat × List Nat) :=
  forFold (List.range size) (List.replicate size 0, List.replicate size 0) fun p i => do
    let x ← getItem ind1 i
    let p1 ← tabSet p.1 x i
    let y ← getItem ind2 i
    let p2 ← tabSet p.2 y i
    return (p1, p2)

/-- loop body of PMX / UPMX; the state are the two local position tables -/
def pmStep (ind1 ind2 : Nat) (p : List Nat × List Nat) (i : Nat) : M Nat (List Nat × List Nat) := do
  let temp1 ← getItem ind1 i
  let temp2 ← getItem ind2 i
  -- ind1[i], ind1[p1[temp2]] = temp2, temp1
  setItem ind1 i temp2
  let j1 ← tabGet p.1 temp2
  setItem ind1 j1 temp1
  -- ind2[i], ind2[p2[temp1]] = temp1, temp2
  setItem ind2 i temp1
  let j2 ← tabGet p.2 temp1
  setItem ind2 j2 temp2
  -- p1[temp1], p1[temp2] = p1[temp2], p1[temp1]
  let x1 ← tabGet p.1 temp2
  let y1 ← tabGet p.1 temp1
  let p1 ← tabSet p.1 temp1 x1
  let p1 ← tabSet p1 temp2 y1
  -- p2[temp1], p2[temp2] = p2[temp2], p2[temp1]
  let x2 ← tabGet p.2 temp2
  let y2 ← tabGet p.2 temp1
  let p2 ← tabSet p.2 temp1 x2
  let p2 ← tabSet p2 temp2 y2
  return (p1, p2)

def cxPartialyMatched (_d : Disc) (ind1 ind2 : Nat) (cxpoint1 cxpoint2 : Nat) : M Nat (Nat × Nat) := do
  let size := min (← len ind1) (← len ind2)
  let p ← pmInit ind1 ind2 size
  let c := normCx cxpoint1 cxpoint2
  let _ ← forFold (List.range' c.1 (c.2 - c.1)) p (pmStep ind1 ind2)
  return (ind1, ind2)

def cxUniformPartialyMatched (_d : Disc) (ind1 ind2 : Nat) (ds : List Bool) : M Nat (Nat × Nat) := do
  let size := min (← len ind1) (← len ind2)
  let p ← pmInit ind1 ind2 size
  let _ ← forFold ((List.range size).zip ds) p fun p id =>
    if id.2 then pmStep ind1 ind2 p id.1 else pure p
  return (ind1, ind2)

/-! ### cxOrdered (crossover.py:187-237) -/

/-- `holes1, holes2 = [True]*size, [True]*size`
`for i in range(size): if i < a or i > b: holes1[ind2[i]] = False; holes2[ind1[i]] = False` -/
def oxHoles (ind1 ind2 size a b : Nat) : M Nat (List Bool × List Bool) :=
  forFold (List.range size) (List.replicate size true, List.replicate size true) fun hs i =>
    if i < a ∨ i > b then do
      let x ← getItem ind2 i
      let h1 ← tabSet hs.1 x false
      let y ← getItem ind1 i
      let h2 ← tabSet hs.2 y false
      return (h1, h2)
    else pure hs

/-- `if not holes[temp[(i + b + 1) % size]]: ind[k % size] = temp[(i + b + 1) % size]; k += 1`
where `temp` IS `ind` (`temp1, temp2 = ind1, ind2` binds two more names to the same objects) -/
def oxFill (ind size b : Nat) (holes : List Bool) (k i : Nat) : M Nat Nat := do
  let v ← getItem ind ((i + b + 1) % size)
  let hole ← tabGet holes v
  if !hole then
    let v' ← getItem ind ((i + b + 1) % size)
    setItem ind (k % size) v'
    return k + 1
  else return k

def cxOrdered (_d : Disc) (ind1 ind2 : Nat) (a0 b0 : Nat) : M Nat (Nat × Nat) := do
  let size := min (← len ind1) (← len ind2)
  let a := if a0 > b0 then b0 else a0
  let b := if a0 > b0 then a0 else b0
  let hs ← oxHoles ind1 ind2 size a b
  let _ ← forFold (List.range size) (b + 1, b + 1) fun k i => do
    let k1 ← oxFill ind1 size b hs.1 k.1 i
    let k2 ← oxFill ind2 size b hs.2 k.2 i
    return (k1, k2)
  -- for i in range(a, b + 1): ind1[i], ind2[i] = ind2[i], ind1[i]
  forEach (List.range' a (b + 1 - a)) fun i => swapItems ind1 ind2 i
  return (ind1, ind2)

/-! ### mutShuffleIndexes (mutation.py:98-122) -/

def mutShuffleIndexes (_d : Disc) (individual : Nat) (ds : List (Option Nat)) : M α Nat := do
  let size ← len individual
  forEach ((List.range size).zip ds) fun id =>
    match id.2 with
    | none => pure ()                               -- random() >= indpb
    | some s =>
      if s + 2 ≤ size then do                       -- randint(0, size - 2) answered s
        let swapIndx := if s ≥ id.1 then s + 1 else s
        -- individual[i], individual[swap_indx] = individual[swap_indx], individual[i]
        let x ← getItem individual swapIndx
        let y ← getItem individual id.1
        setItem individual id.1 x
        setItem individual swapIndx y
      else raise .value                             -- randint(0, size - 2) with size < 2 / impossible draw
  return individual

/-! ### mutFlipBit (mutation.py:125-143) -/

def mutFlipBit [PyNot α] (_d : Disc) (individual : Nat) (ds : List Bool) : M α Nat := do
  let n ← len individual
  forEach ((List.range n).zip ds) fun id =>
    if id.2 then do
      -- individual[i] = type(individual[i])(not individual[i])
      let x ← getItem individual id.1
      setItem individual id.1 (PyNot.pyNot x)
    else pure ()
  return individual

/-! ### mutUniformInt (mutation.py:146-173) -/

/-- `for i, xl, xu in zip(range(size), low, up): if random.random() < indpb: individual[i] = random.randint(xl, xu)` -/
def mutUniformIntLoop (individual : Nat) : List (Nat × Int × Int) → List (Option Int) → M Int Unit
  | [], _ => pure ()
  | _ :: _, [] => raise .tape
  | _ :: rest, none :: ds => mutUniformIntLoop individual rest ds
  | (i, xl, xu) :: rest, some v :: ds =>
    match CrossMut.randint xl xu v with
    | some w => do
      setItem individual i w
      mutUniformIntLoop individual rest ds
    | none => raise .value

def mutUniformInt (_d : Disc) (individual : Nat) (low up : Bound) (ds : List (Option Int)) : M Int Nat := do
  let size ← len individual
  match low.toSeq size, up.toSeq size with
  | some lo, some hi =>
    if ds.length = size then do
      mutUniformIntLoop individual ((List.range size).zip (lo.zip hi)) ds
      return individual
    else raise .tape
  | _, _ => raise .index

/-! ### mutInversion (mutation.py:176-201) -/

/-- `if size == 0: return individual,`; …; `individual[start:end] = individual[start:end][::-1]` -/
def mutInversion (d : Disc) (individual : Nat) (indexOne indexTwo : Nat) : M α Nat := do
  let size ← len individual
  if size = 0 then return individual
  else
    let startIndex := min indexOne indexTwo
    let endIndex := max indexOne indexTwo
    let s ← slice d (.buf individual) startIndex (some endIndex)
    let r ← rev d s
    sliceAssign d individual startIndex (some endIndex) r
    return individual

end CrossMutBuf

/-!
## Histories of calls in one process (`OpHistory`)

A Python process in which DEAP's operators are called again and again, on objects the caller keeps,
reuses and edits between the calls.  The state of the machine is NOTHING BUT the heaps of sequence
objects (permutation individuals over `Nat`; integer-coded individuals and the `low`/`up` bound
sequences of `mutUniformInt` over `Int`; `strategy` attributes): there is no component for anything
a module of the library could remember between two calls.  An event is

* a call of an operator on objects of the heap (its draws are part of the event).  A call that raises
  leaves the heap as the exception left it (the monad `Buffer.M` keeps the heap on `raise`); the next
  event starts from that heap;
* `refused`: a call that raised before it touched any object (`randint(1, 0)` for a too-short individual);
* the caller storing into one of its objects (`x[i] = v`, `x[:] = v`, `low[:] = …`) or creating one.

`mutUniformInt` receives its bounds BY REFERENCE (`BRef.obj`): what it reads is the contents of the
bound object at the time of the call.
-/
namespace OpHistory
open Buffer
open CrossMut (Bound PyNot)

structure State where
  perm : Heap Nat
  gene : Heap Int
  strat : Heap Int

/-- how a call ended: it returned the objects `ret`, or it raised -/
inductive Outcome where
  | ok (ret : List Nat)
  | raise (e : Err)
deriving DecidableEq, Repr

/-- the `low` / `up` argument of `mutUniformInt`: a number, or a sequence OBJECT of the caller -/
inductive BRef where
  | scalar (x : Int)
  | obj (id : Nat)
deriving DecidableEq, Repr

/-- the bound a reference denotes NOW -/
def BRef.now (st : State) : BRef → Bound
  | .scalar x => .scalar x
  | .obj id => .seq (st.gene.cell id)

/-- the operators that exist for every gene type -/
inductive Gen where
  | onepoint (i1 i2 cx : Nat)
  | twopoint (i1 i2 c1 c2 : Nat)
  | twopoints (i1 i2 c1 c2 : Nat)
  | messy (i1 i2 c1 c2 : Nat)
  | uniform (i1 i2 : Nat) (ds : List Bool)
  | shuffle (i : Nat) (ds : List (Option Nat))
  | flip (i : Nat) (ds : List Bool)
  | inversion (i i1 i2 : Nat)

def pair {α : Type} (m : M α (Nat × Nat)) : M α (List Nat) := fun h =>
  match m h with
  | .ok r h' => .ok [r.1, r.2] h'
  | .raise e h' => .raise e h'

def single {α : Type} (m : M α Nat) : M α (List Nat) := fun h =>
  match m h with
  | .ok r h' => .ok [r] h'
  | .raise e h' => .raise e h'

def Gen.run {α : Type} [PyNot α] (d : Disc) : Gen → M α (List Nat)
  | .onepoint i1 i2 cx => pair (CrossMutBuf.cxOnePoint d i1 i2 cx)
  | .twopoint i1 i2 c1 c2 => pair (CrossMutBuf.cxTwoPoint d i1 i2 c1 c2)
  | .twopoints i1 i2 c1 c2 => pair (CrossMutBuf.cxTwoPoints d i1 i2 c1 c2)
  | .messy i1 i2 c1 c2 => pair (CrossMutBuf.cxMessyOnePoint d i1 i2 c1 c2)
  | .uniform i1 i2 ds => pair (CrossMutBuf.cxUniform d i1 i2 ds)
  | .shuffle i ds => single (CrossMutBuf.mutShuffleIndexes d i ds)
  | .flip i ds => single (CrossMutBuf.mutFlipBit d i ds)
  | .inversion i i1 i2 => single (CrossMutBuf.mutInversion d i i1 i2)

inductive Event where
  | permOp (d : Disc) (g : Gen)
  | geneOp (d : Disc) (g : Gen)
  | pmx (d : Disc) (i1 i2 c1 c2 : Nat)
  | upmx (d : Disc) (i1 i2 : Nat) (ds : List Bool)
  | ox (d : Disc) (i1 i2 a b : Nat)
  | uniformint (d : Disc) (i : Nat) (low up : BRef) (ds : List (Option Int))
  | es (dg ds : Disc) (i1 i2 s1 s2 p1 p2 : Nat)
  | ess (dg ds : Disc) (i1 i2 s1 s2 p1 p2 : Nat)
  | refused (e : Err)
  | storeP (id : Nat) (v : List Nat)
  | storeG (id : Nat) (v : List Int)
  | storeS (id : Nat) (v : List Int)
  | newP (v : List Nat)
  | newG (v : List Int)
  | newS (v : List Int)

def onPerm (m : M Nat (List Nat)) (st : State) : Outcome × State :=
  match m st.perm with
  | .ok v h => (.ok v, { st with perm := h })
  | .raise e h => (.raise e, { st with perm := h })

def onGene (m : M Int (List Nat)) (st : State) : Outcome × State :=
  match m st.gene with
  | .ok v h => (.ok v, { st with gene := h })
  | .raise e h => (.raise e, { st with gene := h })

def onES (m : Heap Int × Heap Int → Res (Heap Int × Heap Int) (Nat × Nat)) (st : State) : Outcome × State :=
  match m (st.gene, st.strat) with
  | .ok v h => (.ok [v.1, v.2], { st with gene := h.1, strat := h.2 })
  | .raise e h => (.raise e, { st with gene := h.1, strat := h.2 })

/-- one event: the outcome the caller sees and the heaps afterwards -/
def step (st : State) : Event → Outcome × State
  | .permOp d g => onPerm (g.run d) st
  | .geneOp d g => onGene (g.run d) st
  | .pmx d i1 i2 c1 c2 => onPerm (pair (CrossMutBuf.cxPartialyMatched d i1 i2 c1 c2)) st
  | .upmx d i1 i2 ds => onPerm (pair (CrossMutBuf.cxUniformPartialyMatched d i1 i2 ds)) st
  | .ox d i1 i2 a b => onPerm (pair (CrossMutBuf.cxOrdered d i1 i2 a b)) st
  | .uniformint d i low up ds => onGene (single (CrossMutBuf.mutUniformInt d i (low.now st) (up.now st) ds)) st
  | .es dg ds i1 i2 s1 s2 p1 p2 => onES (CrossMutBuf.cxESTwoPoint dg ds i1 i2 s1 s2 p1 p2) st
  | .ess dg ds i1 i2 s1 s2 p1 p2 => onES (CrossMutBuf.cxESTwoPoints dg ds i1 i2 s1 s2 p1 p2) st
  | .refused e => (.raise e, st)
  | .storeP id v => (.ok [], { st with perm := st.perm.write id v })
  | .storeG id v => (.ok [], { st with gene := st.gene.write id v })
  | .storeS id v => (.ok [], { st with strat := st.strat.write id v })
  | .newP v => (.ok [st.perm.next], { st with perm := st.perm.alloc v })
  | .newG v => (.ok [st.gene.next], { st with gene := st.gene.alloc v })
  | .newS v => (.ok [st.strat.next], { st with strat := st.strat.alloc v })

/-- the heaps after a history -/
def run (hist : List Event) (st : State) : State := hist.foldl (fun s e => (step s e).2) st

/-- the outcomes of a history, event by event -/
def trace : List Event → State → List (Outcome × State)
  | [], _ => []
  | e :: es, st => let r := step st e; r :: trace es r.2

def emptyHeap {α : Type} : Heap α := { cell := fun _ => [], next := 0 }

/-- a process that holds no object yet -/
def init : State := { perm := emptyHeap, gene := emptyHeap, strat := emptyHeap }

end OpHistory
