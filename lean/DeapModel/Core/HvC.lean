import DeapModel.Core.HvSweep
/-
C15 — the COMPILED hypervolume routine `deap/tools/_hypervolume/_hv.c` (Fonseca, Paquete, López-Ibáñez,
Guerreiro; compiled with `#define VARIANT 4`, hence `stop_dimension = 2`), transcribed statement by statement in
the order of the C source so that the two texts can be read side by side.  Import-free (core Lean only), executable,
exact `Rat`.  Line numbers `l.NNN` refer to `_hv.c`.

Pointers become node ids: id 0 is the list head `head[0]` (`x == NULL`), ids 1..n are `head[1..n]`, the points in
input order (l.590-607).  Every per-node / per-dimension array is a table:

  next, prev   : [dimension][id] ↦ id       (`dlnode_t.next[i]`, `.prev[i]`)
  area, vol    : [id][dimension] ↦ Rat       (`dlnode_t.area[i]`, `.vol[i]`; `malloc`ed, i.e. indeterminate in C: here 0)
  ignore       : [id] ↦ Int                  (`dlnode_t.ignore`; the 1-D base case stores -1)
  bound        : [dimension] ↦ Option Rat    (`none` = the initial `-DBL_MAX`, below every coordinate)
  domr         : [id] ↦ Rat                  (`avl_node_t.domr` of `dlnode_t.tnode`; indeterminate in C: here 0)
  tree         : the ids in the AVL tree, in key order (see below)
  calls        : [dim] ↦ number of `hv_recursive` invocations with that `dim` (observability only, not in the code)

THE AVL TREE — the one abstraction of this file.  The AVL library embedded in `_hv.c` (l.63-501: `avl_node_t` with
`parent/left/right/depth` for the balanced search tree and `prev/next` threading the nodes in key order,
`avl_tree_t.top/head/tail`, `avl_rebalance`) is NOT transcribed.  It is replaced by the ordered sequence it
represents: `tree : List Nat`, the ids of the nodes currently in the tree, in key order (`head` first), with

  `avl_insert_top`                 the one-element sequence
  `avl_insert_before/after`        insertion immediately before / after a member
  `avl_unlink_node`                removal of a member
  `tnode->prev`, `tnode->next`     predecessor / successor in the sequence (`0` = `NULL`)
  `avl_search_closest`             a walk along the sequence from its head (`searchClosest`): the first member `e` with
                                   `compare_tree_asc(item, e) < 0` together with `-1`, or the last member together
                                   with `+1` if there is none (`(NULL, 0)` on the empty tree)

Two remarks.  (1) The C descent answers, depending on the shape of the tree, either that successor with `-1` or the
predecessor with `+1` (`compare_tree_asc` never answers 0); `hv_recursive` treats the two answers symmetrically
(l.871-874, l.920-926, l.937-942: in both cases `nxt_ip` is the successor's item, the new node is linked between
predecessor and successor, and `tnode` ends up as the predecessor), so the choice is not observable: the main loop
takes the answer of the search as a parameter (`sweepBodyWith`, `reconnectLoopWith`) and `C15.hvC_search_choice` proves
that on a staircase every admissible answer gives the same result as the walk.  (2) In C an
unlinked node keeps its own `prev` pointer and l.967 / l.974 read it after `avl_unlink_node`; here the predecessor is
looked up immediately BEFORE the removal (same node).

`while` loops that follow pointers carry a fuel argument; exhausted fuel answers `none`.  The loops that count
(`filter`, l.1055; the deletion loop l.724, which decreases `c`) are structurally recursive.
`qsort` (l.612) is modelled as a STABLE sort by `x[j]` (glibc's `qsort` is a merge sort for arrays of this size;
ISO C leaves the order of equal keys open).
-/
namespace HvC

open HvSweep (tget tset)

abbrev Cargo := List (List Rat)

structure St where
  next : List (List Nat)
  prev : List (List Nat)
  ignore : List Int
  area : List (List Rat)
  vol : List (List Rat)
  bound : List (Option Rat)
  domr : List Rat
  tree : List Nat
  calls : List Nat

/-- `node->x[i]` -/
def cg (C : Cargo) (a i : Nat) : Rat := tget C a i 0
/-- `ref[i]` -/
def rf (R : List Rat) (i : Nat) : Rat := R.getD i 0

def nx (S : St) (i a : Nat) : Nat := tget S.next i a 0
def pv (S : St) (i a : Nat) : Nat := tget S.prev i a 0
def ar (S : St) (a i : Nat) : Rat := tget S.area a i 0
def vl (S : St) (a i : Nat) : Rat := tget S.vol a i 0
def ign (S : St) (a : Nat) : Int := S.ignore.getD a 0
def dr (S : St) (a : Nat) : Rat := S.domr.getD a 0

def setNx (S : St) (i a v : Nat) : St := { S with next := tset S.next i a v }
def setPv (S : St) (i a v : Nat) : St := { S with prev := tset S.prev i a v }
def setAr (S : St) (a i : Nat) (v : Rat) : St := { S with area := tset S.area a i v }
def setVl (S : St) (a i : Nat) (v : Rat) : St := { S with vol := tset S.vol a i v }
def setIgn (S : St) (a : Nat) (v : Int) : St := { S with ignore := S.ignore.set a v }
def setDr (S : St) (a : Nat) (v : Rat) : St := { S with domr := S.domr.set a v }
def setBound (S : St) (i : Nat) (v : Rat) : St := { S with bound := S.bound.set i (some v) }
def tick (S : St) (dim : Nat) : St := { S with calls := S.calls.set dim (S.calls.getD dim 0 + 1) }

/-- `bound[i] > x` (the initial `-DBL_MAX` is never greater) -/
def boundGt (S : St) (i : Nat) (x : Rat) : Bool :=
  match S.bound.getD i none with
  | none => false
  | some b => decide (x < b)

/-- `x > bound[i]` -/
def gtBound (S : St) (i : Nat) (x : Rat) : Bool :=
  match S.bound.getD i none with
  | none => true
  | some b => decide (b < x)

/-- `x >= bound[i]` -/
def geBound (S : St) (i : Nat) (x : Rat) : Bool :=
  match S.bound.getD i none with
  | none => true
  | some b => decide (b ≤ x)

/-- `x < bound[i]` -/
def ltBound (S : St) (i : Nat) (x : Rat) : Bool := !geBound S i x

/-! ### the AVL tree as the ordered sequence it represents (l.63-501 are not transcribed, see above) -/

/-- `compare_tree_asc(p1, p2)` (l.555-562) on the items `(x[0], x[1])`: `true` iff the answer is `-1` (never 0). -/
def cmpTreeAscNeg (x1 x2 : Rat × Rat) : Bool :=
  if x1.2 > x2.2 then true                                              -- l.560  (x1[1] > x2[1]) ? -1
  else if x1.2 < x2.2 then false                                        --        : (x1[1] < x2[1]) ? 1
  else decide (x1.1 ≥ x2.1)                                             -- l.561  : (x1[0] >= x2[0]) ? -1 : 1

/-- `tnode->item` as the pair `(x[0], x[1])` (l.626: `tnode->item = head[i].x`). -/
def item (C : Cargo) (a : Nat) : Rat × Rat := (cg C a 0, cg C a 1)

/-- predecessor of `a` in the sequence (`0` if `a` is the first member) -/
def listPrev : List Nat → Nat → Nat
  | x :: y :: l, a => if y = a then x else listPrev (y :: l) a
  | _, _ => 0

/-- successor of `a` in the sequence (`0` if `a` is the last member) -/
def listNext : List Nat → Nat → Nat
  | x :: y :: l, a => if x = a then y else listNext (y :: l) a
  | _, _ => 0

/-- `tnode->prev` -/
def tpv (S : St) (a : Nat) : Nat := listPrev S.tree a
/-- `tnode->next` -/
def tnx (S : St) (a : Nat) : Nat := listNext S.tree a

/-- the walk that replaces the descent of `avl_search_closest` (l.158-189) -/
def searchList (C : Cargo) (it : Rat × Rat) : List Nat → Nat × Int
  | [] => (0, 0)                                                        -- l.168-169
  | [e] => if cmpTreeAscNeg it (item C e) then (e, -1) else (e, 1)
  | e :: e' :: l => if cmpTreeAscNeg it (item C e) then (e, -1) else searchList C it (e' :: l)

/-- `avl_search_closest(tree, item, &tnode)`: `(tnode, cmp)` -/
def searchClosest (C : Cargo) (S : St) (it : Rat × Rat) : Nat × Int := searchList C it S.tree

def insertBefore (node newnode : Nat) : List Nat → List Nat
  | [] => []
  | x :: l => if x = node then newnode :: x :: l else x :: insertBefore node newnode l

def insertAfter (node newnode : Nat) : List Nat → List Nat
  | [] => []
  | x :: l => if x = node then x :: newnode :: l else x :: insertAfter node newnode l

/-- `avl_clear_tree` (l.208-211) -/
def avlClearTree (S : St) : St := { S with tree := [] }
/-- `avl_insert_top` (l.224-230) -/
def avlInsertTop (S : St) (newnode : Nat) : St := { S with tree := [newnode] }
/-- `avl_insert_before(tree, node, newnode)` (l.232-260) -/
def avlInsertBefore (S : St) (node newnode : Nat) : St := { S with tree := insertBefore node newnode S.tree }
/-- `avl_insert_after(tree, node, newnode)` (l.262-290) -/
def avlInsertAfter (S : St) (node newnode : Nat) : St := { S with tree := insertAfter node newnode S.tree }
/-- `avl_unlink_node(tree, avlnode)` (l.298-351) -/
def avlUnlinkNode (S : St) (a : Nat) : St := { S with tree := S.tree.erase a }

/-! ### `setup_cdllist` (l.568-630) -/

/-- the state after l.575-607: nothing linked yet (`malloc`ed arrays: all 0) -/
def initSt (d n : Nat) : St :=
  { next := List.replicate d (List.replicate (n + 1) 0)
    prev := List.replicate d (List.replicate (n + 1) 0)
    ignore := List.replicate (n + 1) 0                                  -- l.578, l.592
    area := List.replicate (n + 1) (List.replicate d 0)
    vol := List.replicate (n + 1) (List.replicate d 0)
    bound := List.replicate d none                                      -- l.1465  bound[i] = -DBL_MAX
    domr := List.replicate (n + 1) 0
    tree := []                                                          -- l.1468  avl_alloc_tree
    calls := List.replicate d 0 }

/-- `qsort(scratch, n, sizeof(dlnode_t*), compare_node)` (l.612, l.547-553) on coordinate `j`: stable. -/
def qsortByDim (C : Cargo) (scratch : List Nat) (j : Nat) : List Nat :=
  scratch.mergeSort (fun a b => decide (cg C a j ≤ cg C b j))

/-- l.613-620: thread the list of dimension `j` through `scratch[0..n-1]`; `p` is the node linked last. -/
def linkFrom (j : Nat) : (p : Nat) → List Nat → St → St
  | p, [], S => setPv (setNx S j p 0) j 0 p                             -- l.619-620
  | p, a :: rest, S => linkFrom j a rest (setPv (setNx S j p a) j a p)  -- l.613-618

/-- the loop l.609-621: `for (j = d-1; j >= 0; j--)`; `js` = the dimensions still to do, in that order. -/
def setupLoop (C : Cargo) : List Nat → (scratch : List Nat) → St → St
  | [], _, S => S
  | j :: js, scratch, S =>
    let scratch := qsortByDim C scratch j                               -- l.612
    setupLoop C js scratch (linkFrom j 0 scratch S)                     -- l.613-620

/-- `setup_cdllist(data, d, n)` -/
def setupCdllist (C : Cargo) (d n : Nat) : St :=
  setupLoop C (List.range d).reverse ((List.range n).map (· + 1)) (initSt d n)

/-! ### `delete`, `delete_dom`, `reinsert`, `reinsert_dom` (l.646-701); `stop_dimension = 2` (l.544) -/

def stopDimension : Nat := 2

/-- `for (i = stop_dimension; i < dim; i++)` -/
def dimRange (dim : Nat) : List Nat := (List.range (dim - stopDimension)).map (· + stopDimension)

/-- `if (bound[i] > nodep->x[i]) bound[i] = nodep->x[i];` (l.654-655, l.680-681) -/
def lowerBound (C : Cargo) (S : St) (node i : Nat) : St :=
  if boundGt S i (cg C node i) then setBound S i (cg C node i) else S

/-- `delete(nodep, dim, bound)` (l.646-658) -/
def delete (C : Cargo) (S : St) (nodep dim : Nat) : St :=
  (dimRange dim).foldl (fun S i =>
    let S := setNx S i (pv S i nodep) (nx S i nodep)                    -- l.651
    let S := setPv S i (nx S i nodep) (pv S i nodep)                    -- l.652
    lowerBound C S nodep i) S                                           -- l.654-655

/-- `delete_dom(nodep, dim)` (l.661-669) -/
def deleteDom (S : St) (nodep dim : Nat) : St :=
  (dimRange dim).foldl (fun S i =>
    let S := setNx S i (pv S i nodep) (nx S i nodep)                    -- l.666
    setPv S i (nx S i nodep) (pv S i nodep)) S                          -- l.667

/-- `reinsert(nodep, dim, bound)` (l.672-684) -/
def reinsert (C : Cargo) (S : St) (nodep dim : Nat) : St :=
  (dimRange dim).foldl (fun S i =>
    let S := setNx S i (pv S i nodep) nodep                             -- l.677
    let S := setPv S i (nx S i nodep) nodep                             -- l.678
    lowerBound C S nodep i) S                                           -- l.680-681

/-- `reinsert_dom(nodep, dim)` (l.687-700) -/
def reinsertDom (C : Cargo) (S : St) (nodep dim : Nat) : St :=
  (dimRange dim).foldl (fun S i =>
    let p := pv S i nodep                                               -- l.691
    let S := setNx S i p nodep                                          -- l.692
    let S := setPv S i (nx S i nodep) nodep                             -- l.693
    let S := setAr S nodep i (ar S p i)                                 -- l.694
    setVl S nodep i (vl S p i + ar S p i * (cg C nodep i - cg C p i))) S  -- l.697

/-! ### `hv_recursive` (l.703-1024) -/

/-- l.719-722: `for (pp = p1; pp->x; pp = pp->prev[dim]) if (pp->ignore < dim) pp->ignore = 0;` -/
def resetLoop (dim : Nat) : Nat → (pp : Nat) → St → Option St
  | 0, pp, S => if pp = 0 then some S else none
  | f + 1, pp, S =>
    if pp = 0 then some S
    else
      let S := if ign S pp < (dim : Int) then setIgn S pp 0 else S
      resetLoop dim f (pv S dim pp) S

/-- l.724-744: `while (c > 1 && (p1->x[dim] > bound[dim] || p1->prev[dim]->x[dim] >= bound[dim]))`;
returns `(p0, p1, c, S)`. -/
def deleteLoop (C : Cargo) (dim : Nat) : (c : Nat) → (p0 p1 : Nat) → St → Nat × Nat × Nat × St
  | 0, p0, p1, S => (p0, p1, 0, S)
  | 1, p0, p1, S => (p0, p1, 1, S)
  | c + 2, p0, p1, S =>
    if gtBound S dim (cg C p1 dim) || geBound S dim (cg C (pv S dim p1) dim) then   -- l.729-730
      let p0 := p1                                                      -- l.733
      let S := if (dim : Int) ≤ ign S p0 then deleteDom S p0 dim        -- l.735-736
               else delete C S p0 dim                                   -- l.737-738
      deleteLoop C dim (c + 1) p0 (pv S dim p0) S                       -- l.742-743
    else (p0, p1, c + 2, S)

/-- l.772-775: `p1->area[0] = 1; for (i = 1; i <= dim; i++) p1->area[i] = p1->area[i-1] * (ref[i-1] - p1->x[i-1]);` -/
def areaInit (C : Cargo) (R : List Rat) (S : St) (p1 dim : Nat) : St :=
  (List.range dim).foldl
    (fun S i => setAr S p1 (i + 1) (ar S p1 i * (rf R i - cg C p1 i))) (setAr S p1 0 1)

/-- l.780-808: `while (p0->x != NULL) { … }`; `rec c S` is `hv_recursive(list, dim-1, c, ref, bound)`;
returns `(p1, hyperv, S)`. -/
def reinsLoop (rec : Nat → St → Option (Rat × St)) (C : Cargo) (dim : Nat) :
    Nat → (p0 p1 : Nat) → (hyperv : Rat) → (c : Nat) → St → Option (Nat × Rat × St)
  | 0, p0, p1, hyperv, _, S => if p0 = 0 then some (p1, hyperv, S) else none
  | f + 1, p0, p1, hyperv, c, S =>
    if p0 = 0 then some (p1, hyperv, S)
    else
      let hyperv := hyperv + ar S p1 dim * (cg C p0 dim - cg C p1 dim)  -- l.785
      let c := c + 1                                                    -- l.787
      let r : Option St :=
        if (dim : Int) ≤ ign S p0 then                                  -- l.789
          let S := reinsertDom C S p0 dim                               -- l.790
          some (setAr S p0 dim (ar S p1 dim))                           -- l.791
        else
          let S := reinsert C S p0 dim                                  -- l.794
          match rec c S with                                            -- l.796
          | none => none
          | some (a, S) =>
            let S := setAr S p0 dim a
            some (if ign S p0 = (dim : Int) - 1 then setIgn S p0 dim else S)   -- l.797-798
      match r with
      | none => none
      | some S =>
        let p1 := p0                                                    -- l.803
        let p0 := nx S dim p0                                           -- l.804
        let S := setVl S p1 dim hyperv                                  -- l.806
        reinsLoop rec C dim f p0 p1 hyperv c S

/-- l.710-819, the general case `dim > stop_dimension`; `rec` is `hv_recursive(list, dim-1, ·, ref, bound)`. -/
def general (rec : Nat → St → Option (Rat × St)) (C : Cargo) (R : List Rat) (fuel dim c : Nat) (S : St) :
    Option (Rat × St) :=
  let p1 := pv S dim 0                                                  -- l.712
  match resetLoop dim fuel p1 S with                                    -- l.719-722
  | none => none
  | some S =>
    match deleteLoop C dim c 0 p1 S with                                -- l.724-744
    | (p0, p1, c, S) =>
      let r : Option (Rat × St) :=
        if 1 < c then                                                   -- l.756
          let q := pv S dim p1
          let hyperv := vl S q dim + ar S q dim * (cg C p1 dim - cg C q dim)   -- l.757-758
          if (dim : Int) ≤ ign S p1 then                                -- l.760
            some (hyperv, setAr S p1 dim (ar S q dim))                  -- l.761
          else
            match rec c S with                                          -- l.763
            | none => none
            | some (a, S) =>
              let S := setAr S p1 dim a
              some (hyperv, if ign S p1 = (dim : Int) - 1 then setIgn S p1 dim else S)   -- l.768-769
        else
          some (0, areaInit C R S p1 dim)                               -- l.772-775
      match r with
      | none => none
      | some (hyperv, S) =>
        let S := setVl S p1 dim hyperv                                  -- l.777
        match reinsLoop rec C dim fuel p0 p1 hyperv c S with            -- l.780-808
        | none => none
        | some (p1, hyperv, S) =>
          let S := setBound S dim (cg C p1 dim)                         -- l.810
          some (hyperv + ar S p1 dim * (rf R dim - cg C p1 dim), S)     -- l.816-818

/-! #### the special case of dimension 3 (`dim == 2`, l.825-992) -/

/-- l.855-857: `while (pp->tnode->domr < bound[2]) pp = pp->next[2];` -/
def skipLoop : Nat → (pp : Nat) → St → Option Nat
  | 0, _, _ => none
  | f + 1, pp, S => if ltBound S 2 (dr S pp) then skipLoop f (nx S 2 pp) S else some pp

/-- l.867-876: `for (pp = pp->next[2]; pp->x[2] < bound[2]; pp = pp->next[2]) { … }`; called with `pp` already
advanced; returns the `pp` at which the loop stops. -/
def reconnectLoopWith (search : St → Rat × Rat → Nat × Int) (C : Cargo) (R : List Rat) :
    Nat → (pp : Nat) → St → Option (Nat × St)
  | 0, _, _ => none
  | f + 1, pp, S =>
    if ltBound S 2 (cg C pp 2) then                                     -- l.867
      if geBound S 2 (dr S pp) then                                     -- l.868
        let S := setDr S pp (rf R 2)                                    -- l.869-870
        match search S (item C pp) with                                 -- l.871
        | (tnode, cmp) =>
          let S := if cmp ≤ 0 then avlInsertBefore S tnode pp           -- l.872
                   else avlInsertAfter S tnode pp                       -- l.874
          reconnectLoopWith search C R f (nx S 2 pp) S
      else reconnectLoopWith search C R f (nx S 2 pp) S
    else some (pp, S)

/-- … with `avl_search_closest` as modelled (`searchClosest`) -/
def reconnectLoop (C : Cargo) (R : List Rat) : Nat → (pp : Nat) → St → Option (Nat × St) :=
  reconnectLoopWith (searchClosest C) C R

/-- l.955-968: `while (tnode->prev) { … }`; `nxt0 = nxt_ip[0]`, `px0 = pp->x[0]`, `px2 = pp->x[2]`; `cur`, `prv` are
`cur_ip`, `prv_ip` as `(x[0], x[1])`; returns `(tnode, cur_ip, prv_ip, hypera, S)`. -/
def chainLoop (C : Cargo) (nxt0 px0 px2 : Rat) :
    Nat → (tnode : Nat) → (cur prv : Rat × Rat) → (hypera : Rat) → St → Option (Nat × (Rat × Rat) × (Rat × Rat) × Rat × St)
  | 0, _, _, _, _, _ => none
  | f + 1, tnode, cur, prv, hypera, S =>
    if tpv S tnode = 0 then some (tnode, cur, prv, hypera, S)           -- l.955
    else
      let prv := item C (tpv S tnode)                                   -- l.956
      let hypera := hypera - (prv.2 - cur.2) * (nxt0 - cur.1)           -- l.957
      if prv.1 < px0 then some (tnode, cur, prv, hypera, S)             -- l.958-959  break
      else
        let cur := prv                                                  -- l.960
        let tprev := tpv S tnode                                        -- (read before the removal, see the header)
        let S := avlUnlinkNode S tnode                                  -- l.961
        let S := setDr S tnode px2                                      -- l.965
        chainLoop C nxt0 px0 px2 f tprev cur prv hypera S               -- l.967

/-- l.944-987, the second half of the body of the main loop: `pp` has just been linked into the tree, `tnode` is its
predecessor there (or `NULL`), `nxt = nxt_ip`; returns `(hyperv, hypera, S)`. -/
def sweepTail (C : Cargo) (R : List Rat) (tfuel : Nat) (pp : Nat) (hyperv hypera height : Rat) (nxt : Rat × Rat)
    (tnode : Nat) (S : St) : Option (Rat × Rat × St) :=
  let refIp : Rat × Rat := (rf R 0, rf R 1)
  let S := setDr S pp (rf R 2)                                          -- l.944
  let r : Option ((Rat × Rat) × Rat × St) :=
    if tnode ≠ 0 then                                                   -- l.946
      let prv := item C tnode                                           -- l.947
      if prv.1 ≥ cg C pp 0 then                                         -- l.948
        let tnode := tpv S pp                                           -- l.951
        let cur := item C tnode                                         -- l.954
        match chainLoop C nxt.1 (cg C pp 0) (cg C pp 2) tfuel tnode cur prv hypera S with  -- l.955-968
        | none => none
        | some (tnode, cur, prv, hypera, S) =>
          let tprev := tpv S tnode                                      -- (read before the removal, see the header)
          let S := avlUnlinkNode S tnode                                -- l.970
          let S := setDr S tnode (cg C pp 2)                            -- l.972
          if tprev = 0 then                                             -- l.974
            some (refIp, hypera - (rf R 1 - cur.2) * (nxt.1 - cur.1), S)   -- l.975-976
          else some (prv, hypera, S)
      else some (prv, hypera, S)
    else some (refIp, hypera, S)                                        -- l.980
  match r with
  | none => none
  | some (prv, hypera, S) =>
    let hypera := hypera + (prv.2 - cg C pp 1) * (nxt.1 - cg C pp 0)    -- l.982
    let hyperv := if 0 < height then hyperv + hypera * height else hyperv   -- l.984-985
    some (hyperv, hypera, setAr S pp 2 hypera)                          -- l.987

/-- the body of the main loop l.899-989 for one `pp`, the answer of `avl_search_closest` being supplied by `search`;
returns `(hyperv, hypera, S)`. -/
def sweepBodyWith (search : St → Rat × Rat → Nat × Int) (C : Cargo) (R : List Rat) (tfuel : Nat) (pp : Nat)
    (hyperv hypera : Rat) (S : St) : Option (Rat × Rat × St) :=
  let refIp : Rat × Rat := (rf R 0, rf R 1)
  let S := setVl S pp 2 hyperv                                          -- l.905
  let height := if pp = pv S 2 0 then rf R 2 - cg C pp 2                -- l.907-909
                else cg C (nx S 2 pp) 2 - cg C pp 2
  if (2 : Int) ≤ ign S pp then                                          -- l.911
    some (hyperv + hypera * height, hypera, setAr S pp 2 hypera)        -- l.912-916
  else
    match search S (item C pp) with                                     -- l.919
    | (tnode, cmp) =>
      let nxt : Rat × Rat :=
        if cmp ≤ 0 then item C tnode                                    -- l.920-921
        else if tnx S tnode ≠ 0 then item C (tnx S tnode) else refIp    -- l.923-925
      if nxt.1 ≤ cg C pp 0 then                                         -- l.927
        let S := setIgn S pp 2                                          -- l.928
        let S := setDr S pp (cg C pp 2)                                 -- l.930
        let S := setAr S pp 2 hypera                                    -- l.931
        some (if 0 < height then hyperv + hypera * height else hyperv, hypera, S)   -- l.933-935
      else
        let S1 := if cmp ≤ 0 then avlInsertBefore S tnode pp            -- l.938
                  else avlInsertAfter S tnode pp                        -- l.941
        let tnode := if cmp ≤ 0 then tpv S1 pp else tnode               -- l.939
        sweepTail C R tfuel pp hyperv hypera height nxt tnode S1        -- l.944-987

/-- … with `avl_search_closest` as modelled (`searchClosest`) -/
def sweepBody (C : Cargo) (R : List Rat) (tfuel : Nat) (pp : Nat) (hyperv hypera : Rat) (S : St) :
    Option (Rat × Rat × St) :=
  sweepBodyWith (searchClosest C) C R tfuel pp hyperv hypera S

/-- l.899-989: `for (pp = pp->next[2]; pp->x != NULL; pp = pp->next[2])`; called with `pp` already advanced. -/
def sweepLoop (C : Cargo) (R : List Rat) (tfuel : Nat) :
    Nat → (pp : Nat) → (hyperv hypera : Rat) → St → Option (Rat × St)
  | 0, pp, hyperv, _, S => if pp = 0 then some (hyperv, S) else none
  | f + 1, pp, hyperv, hypera, S =>
    if pp = 0 then some (hyperv, S)
    else
      match sweepBody C R tfuel pp hyperv hypera S with
      | none => none
      | some (hyperv, hypera, S) => sweepLoop C R tfuel f (nx S 2 pp) hyperv hypera S

/-- l.825-992 -/
def dim3 (C : Cargo) (R : List Rat) (fuel : Nat) (S : St) : Option (Rat × St) :=
  let pp := pv S 2 0                                                    -- l.831
  if ltBound S 2 (cg C pp 2) then                                       -- l.838
    some (vl S pp 2 + ar S pp 2 * (rf R 2 - cg C pp 2), S)              -- l.839
  else
    let pp := nx S 2 0                                                  -- l.841
    let r : Option (Nat × St) :=
      if geBound S 2 (cg C pp 2) then                                   -- l.844
        let S := setDr S pp (rf R 2)                                    -- l.845
        let S := setAr S pp 2 ((rf R 0 - cg C pp 0) * (rf R 1 - cg C pp 1))   -- l.846
        let S := setVl S pp 2 0                                         -- l.847
        some (pp, setIgn S pp 0)                                        -- l.848
      else
        (skipLoop fuel pp S).map (fun pp => (pp, S))                    -- l.855-857
    match r with
    | none => none
    | some (pp, S) =>
      let S := setIgn S pp 0                                            -- l.860
      let S := avlInsertTop S pp                                        -- l.861
      let S := setDr S pp (rf R 2)                                      -- l.862
      match reconnectLoop C R fuel (nx S 2 pp) S with                   -- l.867-876
      | none => none
      | some (pp, S) =>
        let pp := pv S 2 pp                                             -- l.877
        let hyperv := vl S pp 2                                         -- l.878
        let hypera := ar S pp 2                                         -- l.879
        let height := if nx S 2 pp ≠ 0 then cg C (nx S 2 pp) 2 - cg C pp 2   -- l.881-883
                      else rf R 2 - cg C pp 2
        let S := setBound S 2 (cg C (pv S 2 0) 2)                       -- l.885
        let hyperv := hyperv + hypera * height                          -- l.898
        match sweepLoop C R fuel fuel (nx S 2 pp) hyperv hypera S with  -- l.899-989
        | none => none
        | some (hyperv, S) => some (hyperv, avlClearTree S)             -- l.990-991

/-! #### the special case of dimension 2 (`dim == 1`, l.995-1011) -/

/-- l.1001-1008: `while ((p0 = p1->next[1])->x) { … }`; returns `(hyperv, hypera, p1, S)`. -/
def loop2d (C : Cargo) (R : List Rat) : Nat → (p1 : Nat) → (hypera hyperv : Rat) → St → Option (Rat × Rat × Nat × St)
  | 0, _, _, _, _ => none
  | f + 1, p1, hypera, hyperv, S =>
    let p0 := nx S 1 p1                                                 -- l.1001
    if p0 = 0 then some (hyperv, hypera, p1, S)
    else
      let hyperv := hyperv + (rf R 0 - hypera) * (cg C p0 1 - cg C p1 1)    -- l.1002
      if cg C p0 0 < hypera then                                        -- l.1003
        loop2d C R f p0 (cg C p0 0) hyperv S                            -- l.1004, 1007
      else
        let S := if ign S p0 = 0 then setIgn S p0 1 else S              -- l.1005-1006
        loop2d C R f p0 hypera hyperv S

/-- `hv_recursive(list, dim, c, ref, bound)` (l.703-1024).  `dim == 0` is reached only for `d = 1`, `dim == 1` only
for `d = 2` (the recursion of the general case stops at `dim == stop_dimension == 2`). -/
def hvRecursive (C : Cargo) (R : List Rat) (fuel : Nat) : (dim : Nat) → (c : Nat) → St → Option (Rat × St)
  | 0, _, S =>
    let S := tick S 0
    let S := setIgn S (nx S 0 0) (-1)                                   -- l.1015
    some (rf R 0 - cg C (nx S 0 0) 0, S)                                -- l.1016
  | 1, _, S =>
    let S := tick S 1
    let p1 := nx S 1 0                                                  -- l.996
    match loop2d C R fuel p1 (cg C p1 0) 0 S with                       -- l.997-1008
    | none => none
    | some (hyperv, hypera, p1, S) =>
      some (hyperv + (rf R 0 - hypera) * (rf R 1 - cg C p1 1), S)       -- l.1009-1010
  | 2, _, S => dim3 C R fuel (tick S 2)
  | k + 3, c, S => general (hvRecursive C R fuel (k + 2)) C R fuel (k + 3) c (tick S (k + 3))

/-! ### `filter` (l.1030-1065) and `fpli_hv` (l.1456-1490) -/

/-- `filter_delete_node(node, d)` (l.1030-1039) -/
def filterDeleteNode (S : St) (node d : Nat) : St :=
  (List.range d).foldl (fun S i =>
    let S := setPv S i (nx S i node) (pv S i node)                      -- l.1036
    setNx S i (pv S i node) (nx S i node)) S                            -- l.1037

/-- l.1055-1061: `for (j = 0; j < np; j++) { if (aux->x[i] < ref[i]) break; … }`; `k` = iterations left;
returns `(n, S)`. -/
def filterInner (C : Cargo) (R : List Rat) (d i : Nat) : (k : Nat) → (aux n : Nat) → St → Nat × St
  | 0, _, n, S => (n, S)
  | k + 1, aux, n, S =>
    if cg C aux i < rf R i then (n, S)                                  -- l.1056-1057
    else
      let S := filterDeleteNode S aux d                                 -- l.1058
      filterInner C R d i k (pv S i aux) (n - 1) S                      -- l.1059-1060

/-- `filter(list, d, n, ref)` (l.1046-1065): `(n, S)`. -/
def filter (C : Cargo) (R : List Rat) (d n : Nat) (S : St) : Nat × St :=
  (List.range d).foldl (fun (nS : Nat × St) i =>
    filterInner C R d i nS.1 (pv nS.2 i 0) nS.1 nS.2) (n, S)            -- l.1052-1062

/-- `fpli_hv(data, d, n, ref)` (l.1456-1490): value and final state.  Needs `d ≥ 1` (for `d = 0`, `n ≥ 2` the C code
reaches its `unreachable condition` exit) and `n ≥ 1` (the wrapper `hv.cpp` rejects an empty point list). -/
def fpliHvSt (data : List (List Rat)) (R : List Rat) : Option (Rat × St) :=
  let d := R.length
  let n := data.length
  let C : Cargo := [] :: data
  let S := setupCdllist C d n                                           -- l.1471
  match filter C R d n S with                                           -- l.1473
  | (n', S) =>
    if n' = 0 then some (0, S)                                          -- l.1474-1475
    else if n' = 1 then
      let p := nx S 0 0                                                 -- l.1477
      some ((List.range d).foldl (fun h i => h * (rf R i - cg C p i)) 1, S)   -- l.1478-1480
    else hvRecursive C R (n + 2) (d - 1) n' S                           -- l.1482

def fpliHv (data : List (List Rat)) (R : List Rat) : Option Rat :=
  (fpliHvSt data R).map (·.1)

end HvC
