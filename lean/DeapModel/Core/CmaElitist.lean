/-
Model of the elitist and multi-objective CMA-ES strategies of `deap/cma.py` (C14):
`StrategyOnePlusLambda` (cma.py:211-328), `StrategyMultiObjective` (cma.py:331-550) and
`StrategyActiveOnePlusLambda` (cma.py:553-868), transcribed statement by statement from the
repaired tree (F9: `numpy.abs(w).max()` in `_rankOneUpdate`; F14: `outer(w, w)·invA` in
`_rank1update`).

Core Lean only.  Scalars are polymorphic in `RealLike α` (`Float` for the driver, `ℝ` for the
theorems); vectors are `List α`, matrices are lists of rows.  Everything numpy/LAPACK does that is
not plain arithmetic is an explicit *parameter*: `chol` (numpy.linalg.cholesky), `inv`
(numpy.linalg.inv, `none` = LinAlgError), `around` (numpy.around), the non-dominated sort, the
hypervolume indicator (returns an index) and every random draw.  Fitness objects are an abstract
type `φ` compared through a `FitOrd φ` (the `__le__`/`__lt__` of the fitness class).
Functions return `Option` where the Python code raises (empty population, missing mid front,
index out of range); nothing is silently defaulted.
-/
import DeapModel.Core.Scalar

namespace CmaElitist
open RealLike

/-! ### numpy-style linear algebra on lists (operation order of the C loops: left to right) -/
namespace LA
variable {α : Type} [RealLike α]

def vadd (u v : List α) : List α := List.zipWith (· + ·) u v
def vsub (u v : List α) : List α := List.zipWith (· - ·) u v
def vmul (u v : List α) : List α := List.zipWith (· * ·) u v
def vscale (c : α) (v : List α) : List α := v.map (fun x => c * x)
def vdivs (v : List α) (c : α) : List α := v.map (fun x => x / c)
def vzero (n : Nat) : List α := List.replicate n 0
/-- `numpy.dot(u, v)` for two vectors. -/
def dot (u v : List α) : α := RealLike.sum (vmul u v)
/-- `numpy.sum(w ** 2)`. -/
def normSq (w : List α) : α := RealLike.sum (w.map (fun x => x * x))
/-- `numpy.abs(w).max()` (0 for the empty vector, which numpy rejects; dimensions are ≥ 1). -/
def maxAbs (w : List α) : α := w.foldl (fun m x => RealLike.pmax m (RealLike.abs x)) 0
/-- `numpy.dot(M, v)`. -/
def matVec (M : List (List α)) (v : List α) : List α := M.map (fun r => dot r v)
def col (M : List (List α)) (j : Nat) : List α := M.map (fun r => r.getD j 0)
/-- `numpy.dot(v, M)` for an `? × n` matrix. -/
def vecMat (n : Nat) (v : List α) (M : List (List α)) : List α :=
  (List.range n).map (fun j => dot v (col M j))
/-- `numpy.outer(u, v)`. -/
def outer (u v : List α) : List (List α) := u.map (fun a => v.map (fun b => a * b))
def madd (A B : List (List α)) : List (List α) := List.zipWith vadd A B
def msub (A B : List (List α)) : List (List α) := List.zipWith vsub A B
def mscale (c : α) (A : List (List α)) : List (List α) := A.map (vscale c)
def mdivs (A : List (List α)) (c : α) : List (List α) := A.map (fun r => vdivs r c)
/-- `numpy.dot(A, B)` for an `? × n` matrix `B`. -/
def matMul (n : Nat) (A B : List (List α)) : List (List α) := A.map (fun r => vecMat n r B)
def transpose (n : Nat) (A : List (List α)) : List (List α) := (List.range n).map (col A)
def identity (n : Nat) : List (List α) :=
  (List.range n).map (fun i => (List.range n).map (fun j => if i = j then (1 : α) else 0))
/-- `numpy.diag(M)`. -/
def diag (M : List (List α)) : List α := (List.zipIdx M).map (fun p => p.1.getD p.2 0)

end LA
open LA

/-- The comparison operators of the individuals' fitness class (`Fitness.__le__`, `__lt__`). -/
structure FitOrd (φ : Type) where
  le : φ → φ → Bool
  lt : φ → φ → Bool

/-- An evaluated individual of the (1+λ) strategies: `id` names the Python object, `x` is the
genome, `fit` its fitness; `y`, `z` are the `_y`/`_z` attributes of the active strategy. -/
structure Ind (φ α : Type) where
  id : Nat
  x : List α
  fit : φ
  y : List α := []
  z : List α := []

/-- `population.sort(key=lambda ind: ind.fitness, reverse=True)`: stable, descending (`list.sort`
uses `__lt__` only; `reverse=True` keeps the original order of equal keys). -/
def sortDesc {φ α : Type} (ord : FitOrd φ) (pop : List (Ind φ α)) : List (Ind φ α) :=
  pop.mergeSort (fun a b => !ord.lt a.fit b.fit)

/-- `sum(self.parent.fitness <= ind.fitness for ind in population)`. -/
def countSucc {φ α : Type} (ord : FitOrd φ) (pf : φ) (pop : List (Ind φ α)) : Nat :=
  (pop.filter (fun i => ord.le pf i.fit)).length

/-! ### `StrategyOnePlusLambda` (cma.py:211-328) -/
namespace OnePlus
variable {α : Type} [RealLike α]

structure Params (α : Type) where
  lambda : Nat
  d : α
  ptarg : α
  cp : α
  cc : α
  ccov : α
  pthresh : α

/-- `computeParams` with no overrides (cma.py:262-279). -/
def defaultParams (dim lambda : Nat) : Params α :=
  let n : α := RealLike.ofNat dim
  let lam : α := RealLike.ofNat lambda
  let ptarg : α := 1 / (5 + RealLike.sqrt lam / 2)          -- :273
  { lambda := lambda
    d := 1 + n / (2 * lam)                                    -- :272
    ptarg := ptarg
    cp := ptarg * lam / (2 + ptarg * lam)                     -- :274
    cc := 2 / (n + 2)                                         -- :277
    ccov := 2 / (RealLike.ofNat (dim * dim) + 6)              -- :278 (dim ** 2 is an int)
    pthresh := RealLike.ofRatio 44 100 }                      -- :279

structure State (φ α : Type) where
  parent : Ind φ α
  sigma : α
  C : List (List α)
  A : List (List α)
  pc : List α
  psucc : α
  prm : Params α

/-- `__init__` (cma.py:249-260). -/
def init {φ : Type} (parent : Ind φ α) (sigma : α) (prm : Params α) : State φ α :=
  let dim := parent.x.length
  { parent := parent, sigma := sigma, C := identity dim, A := identity dim, pc := vzero dim,
    psucc := prm.ptarg, prm := prm }

/-- `generate` (cma.py:290-292): row `i` of `parent + sigma * dot(arz, A.T)`. -/
def generate {φ : Type} (s : State φ α) (arz : List (List α)) : List (List α) :=
  arz.map (fun z => vadd s.parent.x (vscale s.sigma (matVec s.A z)))

/-- The smoothed success rate, cma.py:303-304. -/
def psuccUpdate (prm : Params α) (psucc : α) (lambdaSucc : Nat) : α :=
  let p_succ : α := RealLike.ofNat lambdaSucc / RealLike.ofNat prm.lambda
  (1 - prm.cp) * psucc + prm.cp * p_succ

/-- cma.py:316. -/
def sigmaUpdate (prm : Params α) (sigma psucc : α) : α :=
  sigma * RealLike.exp (1 / prm.d * (psucc - prm.ptarg) / (1 - prm.ptarg))

/-- The covariance step taken on success, cma.py:307-314: new `(pc, C)`. -/
def covUpdate (prm : Params α) (psucc : α) (pc : List α) (C : List (List α)) (xStep : List α) :
    List α × List (List α) :=
  if psucc < prm.pthresh then
    let pc' := vadd (vscale (1 - prm.cc) pc) (vscale (RealLike.sqrt (prm.cc * (2 - prm.cc))) xStep)   -- :310
    (pc', madd (mscale (1 - prm.ccov) C) (mscale prm.ccov (outer pc' pc')))                            -- :311
  else
    let pc' := vscale (1 - prm.cc) pc                                                                  -- :313
    (pc', madd (mscale (1 - prm.ccov) C)
            (mscale prm.ccov (madd (outer pc' pc') (mscale (prm.cc * (2 - prm.cc)) C))))              -- :314

/-- Result of `update`: the new state, the caller's list as sorted in place, `lambda_succ`. -/
structure UpdOut (φ α : Type) where
  st : State φ α
  sorted : List (Ind φ α)
  lambdaSucc : Nat
  replaced : Bool

/-- `update` (cma.py:294-328).  `none` = the `IndexError` of `population[0]` on an empty list. -/
def update {φ : Type} (ord : FitOrd φ) (chol : List (List α) → List (List α))
    (s : State φ α) (population : List (Ind φ α)) : Option (UpdOut φ α) :=
  let sorted := sortDesc ord population                                       -- :301
  let lambdaSucc := countSucc ord s.parent.fit sorted                         -- :302
  let psucc := psuccUpdate s.prm s.psucc lambdaSucc                           -- :303-304
  match sorted with
  | [] => none
  | best :: _ =>
    let sigma' := sigmaUpdate s.prm s.sigma psucc                             -- :316
    if ord.le s.parent.fit best.fit then                                      -- :306
      let xStep := vdivs (vsub best.x s.parent.x) s.sigma                     -- :307
      let (pc', C') := covUpdate s.prm psucc s.pc s.C xStep                   -- :309-314
      some { st := { s with parent := best, sigma := sigma', C := C', A := chol C', pc := pc',
                            psucc := psucc },
             sorted := sorted, lambdaSucc := lambdaSucc, replaced := true }
    else
      some { st := { s with sigma := sigma', A := chol s.C, psucc := psucc },   -- :328
             sorted := sorted, lambdaSucc := lambdaSucc, replaced := false }

/-- Any number of `update` calls on evaluated populations (the `generate` in between only
decides which genomes are evaluated; the theorems quantify over all of them). -/
def run {φ : Type} (ord : FitOrd φ) (chol : List (List α) → List (List α))
    (s : State φ α) : List (List (Ind φ α)) → Option (State φ α)
  | [] => some s
  | pop :: rest =>
    match update ord chol s pop with
    | none => none
    | some o => run ord chol o.st rest

end OnePlus

/-! ### `StrategyMultiObjective` (cma.py:331-550) -/
namespace MO
variable {α : Type} [RealLike α]

/-! #### `_select` (cma.py:433-472), generic in the element type -/

/-- The loop over the fronts, cma.py:447-456.  State: `chosen`, `mid_front`, `not_chosen`, `full`. -/
def fillFronts {ι : Type} (mu : Nat) :
    List (List ι) → List ι → Option (List ι) → List ι → Bool → List ι × Option (List ι) × List ι
  | [], c, m, nc, _ => (c, m, nc)
  | f :: fs, c, m, nc, full =>
    if c.length + f.length ≤ mu ∧ full = false then fillFronts mu fs (c ++ f) m nc full      -- :449-450
    else if m.isNone ∧ c.length < mu then fillFronts mu fs c (some f) nc true                -- :451-454
    else fillFronts mu fs c m (nc ++ f) full                                                 -- :456

/-- cma.py:466-468: `cnt` times, `not_chosen.append(mid_front.pop(indicator(mid_front)))`.
`none` = `IndexError` of `pop`. -/
def dropLeast {ι : Type} (indicator : List ι → Nat) : Nat → List ι → List ι → Option (List ι × List ι)
  | 0, mid, nc => some (mid, nc)
  | cnt + 1, mid, nc =>
    let idx := indicator mid
    match mid[idx]? with
    | none => none
    | some x => dropLeast indicator cnt (mid.eraseIdx idx) (nc ++ [x])

/-- `_select` with the sort result and the indicator (already closed over `ref`) as parameters.
`none` = exception (`len(None)` when no mid front was found although `k > 0`; bad index). -/
def selectFronts {ι : Type} (mu : Nat) (fronts : List (List ι)) (indicator : List ι → Nat)
    (candidates : List ι) : Option (List ι × List ι) :=
  if candidates.length ≤ mu then some (candidates, [])                         -- :434-435
  else
    let r := fillFronts mu fronts [] none [] false
    let chosen := r.1
    let k := mu - chosen.length                                                -- :459
    if 0 < k then                                                              -- :460
      match r.2.1 with
      | none => none
      | some mid =>
        match dropLeast indicator (mid.length - k) mid r.2.2 with              -- :466-468
        | none => none
        | some (mid', nc') => some (chosen ++ mid', nc')                       -- :470
    else some (chosen, r.2.2)

/-- An individual as the MO strategy sees it: genome, weighted fitness values, `_ps` tag
(`off = true` for `"o"`, `pidx` the parent index). -/
structure MInd (α : Type) where
  id : Nat
  x : List α
  wv : List α
  off : Bool
  pidx : Nat

/-- cma.py:463-464: `numpy.max(wvalues * -1, axis=0) + 1` over all candidates
(`nobj` = number of objectives). -/
def refPoint (nobj : Nat) (cands : List (MInd α)) : List α :=
  (List.range nobj).map (fun j =>
    match cands.map (fun c => c.wv.getD j 0 * (-(1 : α))) with
    | [] => (1 : α)
    | v :: vs => vs.foldl (fun m x => RealLike.pmax m x) v + 1)

/-- `_select` on MO individuals. -/
def select (mu nobj : Nat) (sortND : List (MInd α) → List (List (MInd α)))
    (indicator : List (MInd α) → List α → Nat) (cands : List (MInd α)) :
    Option (List (MInd α) × List (MInd α)) :=
  selectFronts mu (sortND cands) (fun l => indicator l (refPoint nobj cands)) cands

/-! #### `_rankOneUpdate` (cma.py:474-488) -/

/-- Returns `(invCholesky', A')`.  `n` is the dimension. -/
def rankOneUpdate (n : Nat) (invCh A : List (List α)) (alpha beta : α) (v : List α) :
    List (List α) × List (List α) :=
  let w := matVec invCh v                                                     -- :475
  if RealLike.ofRatio 1 100000000000000000000 < maxAbs w then                 -- :478 (1e-20)
    let wInv := vecMat n w invCh                                              -- :479
    let normW2 := normSq w                                                    -- :480
    let a := RealLike.sqrt alpha                                              -- :481
    let root := RealLike.sqrt (1 + beta / alpha * normW2)                     -- :482
    let b := a / normW2 * (root - 1)                                          -- :483
    let A' := madd (mscale a A) (mscale b (outer v w))                        -- :485
    let inv' := msub (mscale (1 / a) invCh)
                  (mscale (b / (a * a + a * b * normW2)) (outer w wInv))      -- :486
    (inv', A')
  else (invCh, A)

/-! #### the strategy state and `generate`/`update` -/

structure Params (α : Type) where
  mu : Nat
  lambda : Nat
  d : α
  ptarg : α
  cp : α
  cc : α
  ccov : α
  pthresh : α

/-- Defaults of `__init__` (cma.py:373-384). -/
def defaultParams (dim mu lambda : Nat) : Params α :=
  let n : α := RealLike.ofNat dim
  let ptarg : α := 1 / (5 + RealLike.ofRatio 1 2)
  { mu := mu, lambda := lambda
    d := 1 + n / 2
    ptarg := ptarg
    cp := ptarg / (2 + ptarg)
    cc := 2 / (n + 2)
    ccov := 2 / (RealLike.ofNat (dim * dim) + 6)
    pthresh := RealLike.ofRatio 44 100 }

structure State (α : Type) where
  dim : Nat
  parents : List (MInd α)
  sigmas : List α
  A : List (List (List α))
  invCh : List (List (List α))
  pc : List (List α)
  psucc : List α
  prm : Params α

/-- `__init__` (cma.py:368-395). -/
def init (population : List (MInd α)) (sigma : α) (dim : Nat) (prm : Params α) : State α :=
  let m := population.length
  { dim := dim, parents := population, sigmas := List.replicate m sigma,
    A := List.replicate m (identity dim), invCh := List.replicate m (identity dim),
    pc := List.replicate m (vzero dim), psucc := List.replicate m prm.ptarg, prm := prm }

/-- One offspring of parent `p` from the normal vector `z` (cma.py:419/428). -/
def offspringX (s : State α) (p : Nat) (z : List α) : List α :=
  vadd ((s.parents.getD p ⟨0, [], [], false, 0⟩).x)
    (vscale (s.sigmas.getD p 0) (matVec (s.A.getD p []) z))

/-- cma.py:412-413: `generate` tags every parent `("p", i)` before anything else. -/
def retag (s : State α) : State α :=
  { s with parents := (List.zipIdx s.parents).map (fun p => { p.1 with off := false, pidx := p.2 }) }

/-- The `_ps` attributes the individuals handed to `__init__` may already carry: individuals that
went through another `StrategyMultiObjective` (a restart from its parents after sorting / filtering
them, or from its last offspring) keep that strategy's tags, `("p", old index)` or `("o", index of
the old parent)`.  `setTags s tags` is `s` with the tag of parent `i` replaced by `tags[i]` (parents
beyond the end of `tags` keep theirs); nothing else of the state depends on the tags.  A fresh
individual (no `_ps` attribute) is any value here: `retag` overwrites it before it is read. -/
def setTags (s : State α) (tags : List (Bool × Nat)) : State α :=
  { s with parents := (List.zipIdx s.parents).map (fun p =>
      match tags[p.2]? with
      | some t => { p.1 with off := t.1, pidx := t.2 }
      | none => p.1) }

/-- `generate` (cma.py:397-431).  `arz` = the `lambda_ × dim` normal draws, `firstFront` = the
non-dominated front of the (re-tagged) parents, `draws` = the `numpy.random.randint` results.
Returns the re-tagged parents and, per offspring, its genome and parent index (`"o", p_idx`). -/
def generate (s : State α) (arz : List (List α)) (firstFront : List (MInd α) → List (MInd α))
    (draws : List Nat) : List (MInd α) × List (List α × Nat) :=
  let s' := retag s                                                                           -- :412-413
  let parents := s'.parents
  if s.prm.lambda = s.prm.mu then                                                               -- :416
    (parents, (List.zipIdx (arz.take s.prm.lambda)).map (fun zi => (offspringX s' zi.2 zi.1, zi.2)))   -- :417-420
  else
    let ndom := firstFront parents                                                              -- :424
    (parents, (List.zip (arz.take s.prm.lambda) draws).map (fun zj =>
      let pIdx := (ndom.getD zj.2 ⟨0, [], [], false, 0⟩).pidx                                   -- :426-427
      (offspringX s' pIdx zj.1, pIdx)))                                                         -- :428-429

/-- The per-offspring temporaries of `update` for one chosen individual (cma.py:503-528):
`none` for a chosen old parent (the Python lists hold `None` there). -/
structure Tmp (α : Type) where
  sigma : α
  invCh : List (List α)
  A : List (List α)
  pc : List α
  psucc : α

def offspringTmp (s : State α) (ind : MInd α) : Tmp α :=
  let p := s.prm
  let j := ind.pidx
  let lastStep := s.sigmas.getD j 0                                           -- :503
  let psucc := (1 - p.cp) * s.psucc.getD j 0 + p.cp                           -- :517
  let sigma := s.sigmas.getD j 0 * RealLike.exp ((psucc - p.ptarg) / (p.d * (1 - p.ptarg)))   -- :518
  if psucc < p.pthresh then                                                   -- :520
    let xp := ind.x
    let x := (s.parents.getD j ⟨0, [], [], false, 0⟩).x
    let pc := vadd (vscale (1 - p.cc) (s.pc.getD j []))
                (vdivs (vscale (RealLike.sqrt (p.cc * (2 - p.cc))) (vsub xp x)) lastStep)     -- :523
    let r := rankOneUpdate s.dim (s.invCh.getD j []) (s.A.getD j []) (1 - p.ccov) p.ccov pc   -- :524
    { sigma := sigma, invCh := r.1, A := r.2, pc := pc, psucc := psucc }
  else
    let pc := vscale (1 - p.cc) (s.pc.getD j [])                              -- :526
    let pcWeight := p.cc * (2 - p.cc)                                         -- :527
    let r := rankOneUpdate s.dim (s.invCh.getD j []) (s.A.getD j [])
               (1 - p.ccov + pcWeight) p.ccov pc                              -- :528
    { sigma := sigma, invCh := r.1, A := r.2, pc := pc, psucc := psucc }

/-- In-place adjustment of `self.psucc[p_idx]`, `self.sigmas[p_idx]` for one offspring,
cma.py:530-531 (`succ = true`, chosen) and 540-541 (`succ = false`, not chosen). -/
def adjustParent (p : Params α) (succ : Bool) (ps : List α × List α) (j : Nat) : List α × List α :=
  let psj := if succ then (1 - p.cp) * ps.1.getD j 0 + p.cp else (1 - p.cp) * ps.1.getD j 0
  let sgj := ps.2.getD j 0 * RealLike.exp ((psj - p.ptarg) / (p.d * (1 - p.ptarg)))
  (ps.1.set j psj, ps.2.set j sgj)

/-- The two loops cma.py:511-541 as far as they mutate `self.psucc` / `self.sigmas`. -/
def adjustAll (p : Params α) (chosen notChosen : List (MInd α)) (psucc sigmas : List α) :
    List α × List α :=
  let r1 := chosen.foldl (fun acc ind => if ind.off then adjustParent p true acc ind.pidx else acc)
              (psucc, sigmas)
  notChosen.foldl (fun acc ind => if ind.off then adjustParent p false acc ind.pidx else acc) r1

/-- `[tmp[i] if ind._ps[0] == "o" else self.old[ind._ps[1]] for i, ind in enumerate(chosen)]`. -/
def pick {β : Type} (chosen : List (MInd α)) (tmp : List (Option (Tmp α))) (fromTmp : Tmp α → β)
    (old : Nat → β) : List β :=
  (List.zip chosen tmp).map (fun it => match it.2 with
    | some t => fromTmp t
    | none => old it.1.pidx)

/-- The realignment cma.py:545-550 given the selection result. -/
def realign (s : State α) (chosen notChosen : List (MInd α)) : State α :=
  let adj := adjustAll s.prm chosen notChosen s.psucc s.sigmas
  let tmp := chosen.map (fun ind => if ind.off then some (offspringTmp s ind) else none)
  { s with
    parents := chosen                                                          -- :545
    sigmas := pick chosen tmp (·.sigma) (fun j => adj.2.getD j 0)              -- :546
    invCh := pick chosen tmp (·.invCh) (fun j => s.invCh.getD j [])            -- :547
    A := pick chosen tmp (·.A) (fun j => s.A.getD j [])                        -- :548
    pc := pick chosen tmp (·.pc) (fun j => s.pc.getD j [])                     -- :549
    psucc := pick chosen tmp (·.psucc) (fun j => adj.1.getD j 0) }             -- :550

/-- `update` (cma.py:490-550).  `nobj` = number of objectives. -/
def update (s : State α) (nobj : Nat) (sortND : List (MInd α) → List (List (MInd α)))
    (indicator : List (MInd α) → List α → Nat) (population : List (MInd α)) :
    Option (State α × List (MInd α)) :=
  match select s.prm.mu nobj sortND indicator (population ++ s.parents) with   -- :497
  | none => none
  | some (chosen, notChosen) => some (realign s chosen notChosen, notChosen)

/-- One generate/update round as `update` sees it: `generate` has overwritten the tag of EVERY
parent with `("p", i)` (cma.py:412-413, unconditionally — whatever `_ps` the individual carried),
then `update` selects among `population ++ parents` and realigns the per-parent lists by the tags. -/
def round (s : State α) (nobj : Nat) (sortND : List (MInd α) → List (List (MInd α)))
    (indicator : List (MInd α) → List α → Nat) (population : List (MInd α)) :
    Option (State α × List (MInd α)) :=
  update (retag s) nobj sortND indicator population

/-- Any number of generate/update rounds: `generate` re-tags the parents (its sampling only decides
which genomes are evaluated; the theorems quantify over all offspring lists), `update` selects and
realigns.  `none` = an exception of `_select`. -/
def run (s : State α) (nobj : Nat) (sortND : List (MInd α) → List (List (MInd α)))
    (indicator : List (MInd α) → List α → Nat) : List (List (MInd α)) → Option (State α)
  | [] => some s
  | pop :: rest =>
    match update (retag s) nobj sortND indicator pop with
    | none => none
    | some r => run r.1 nobj sortND indicator rest

end MO

/-! ### `StrategyActiveOnePlusLambda` (cma.py:553-868) -/
namespace Active
variable {α : Type} [RealLike α]

structure Params (α : Type) where
  lambda : Nat
  cc : α
  ccovp : α
  ccovn : α
  cconst : α
  pthresh : α
  d : α
  ptarg : α
  cp : α
  beta : α

/-- Defaults of `__init__`/`_compute_lambda_parameters` (cma.py:630-666).  `dim16` is
`dim ** 1.6` (a float power; supplied through `RealLike.pow`). -/
def defaultParams (dim lambda : Nat) : Params α :=
  let n : α := RealLike.ofNat dim
  let lam : α := RealLike.ofNat lambda
  let ptarg : α := 1 / (5 + RealLike.sqrt lam / 2)                            -- :661
  { lambda := lambda
    cc := 2 / (n + 2)                                                         -- :630
    ccovp := 2 / (RealLike.ofNat (dim * dim) + 6)                             -- :631
    ccovn := RealLike.ofRatio 4 10 / (RealLike.pow n (RealLike.ofRatio 16 10) + 1)   -- :632
    cconst := 1 / (n + 2)                                                     -- :633
    pthresh := RealLike.ofRatio 44 100                                        -- :634
    d := 1 + n / (2 * lam)                                                    -- :660
    ptarg := ptarg
    cp := ptarg * lam / (2 + ptarg * lam)                                     -- :663
    beta := RealLike.ofRatio 1 10 / (lam * (n + 2)) }                         -- :666

/-- An offspring of the active strategy: `fit = none` when `fitness.valid` is false; `cv` the
`constraint_violation` flags. -/
structure AInd (φ α : Type) where
  id : Nat
  x : List α
  fit : Option φ
  cv : List Bool
  y : List α
  z : List α
  /-- `hasattr(individual.fitness, "constraint_violation")` (false for a plain `Fitness`) -/
  hasCv : Bool := true

structure State (φ α : Type) where
  dim : Nat
  parentId : Nat
  parentX : List α
  /-- `none` while `self.parent` has no `fitness` attribute (a bare array) -/
  parentFit : Option φ
  sigma : α
  A : List (List α)
  invA : List (List α)
  pc : List α
  psucc : α
  sInt : List α
  iIR : List Nat
  constraintVecs : Option (List (List α))
  ancestors : List φ
  prm : Params α

/-- `numpy.flatnonzero(2 * sigma * diagC ** 0.5 < S_int)` (cma.py:640, 867). -/
def integerIdx (sigma : α) (diagC sInt : List α) : List Nat :=
  ((List.zipIdx (List.zip diagC sInt)).filter
    (fun p => decide (2 * sigma * RealLike.sqrt p.1.1 < p.1.2))).map (·.2)

/-- `__init__` (cma.py:615-644). -/
def init {φ : Type} (pid : Nat) (px : List α) (pfit : Option φ) (sigma : α) (steps : List α)
    (prm : Params α) : State φ α :=
  let dim := px.length
  { dim := dim, parentId := pid, parentX := px, parentFit := pfit, sigma := sigma,
    A := identity dim, invA := identity dim, pc := vzero dim, psucc := prm.ptarg, sInt := steps,
    iIR := integerIdx sigma (diag (identity dim : List (List α))) steps,
    constraintVecs := none, ancestors := [], prm := prm }

/-- `_integer_mutation` (cma.py:695-736).  `rands` = the `numpy.random.rand()` draws (one per
row), `geoms` = the `numpy.random.geometric` draws (consumed on success only), `signs` = the
`randint(0, 2, (lambda_, dim))` matrix.  Returns `R_int`. -/
def integerMutation {φ : Type} (s : State φ α) (rands : List α) (geoms : List Nat)
    (signs : List (List Nat)) : List (List α) :=
  let lam := s.prm.lambda
  let nIR := s.iIR.length
  if nIR = 0 then List.replicate lam (vzero s.dim)                            -- :704-705
  else
    let lamF : α := RealLike.ofNat lam
    let p : α :=
      if nIR = s.dim then lamF / 2 / lamF                                     -- :707
      else RealLike.pmin (lamF / 2) (lamF / 10 + RealLike.ofNat nIR / RealLike.ofNat s.dim) / lamF   -- :710
    -- :721-725, rows of Rp + Rpp
    let rows := (List.range lam).foldl (fun (acc : List (List α) × List Nat) i =>
        let j := s.iIR.getD (i % nIR) 0
        if rands.getD i 1 < p then
          let g := acc.2.headD 1
          let row := (List.range s.dim).map (fun c =>
            if c = j then (1 : α) + (RealLike.ofNat g - 1) else 0)
          (acc.1 ++ [row], acc.2.drop 1)
        else (acc.1 ++ [vzero s.dim], acc.2)) ([], geoms)
    -- :727-728
    (List.zip rows.1 signs).map (fun rs =>
      (List.zipIdx rs.1).map (fun vc =>
        (if rs.2.getD vc.2 0 % 2 = 0 then (1 : α) else -(1 : α)) * vc.1))

/-- `generate` (cma.py:668-693): `(x, y)` per offspring; `around` = `numpy.around`. -/
def generate {φ : Type} (s : State φ α) (around : α → α) (zs : List (List α)) (rInt : List (List α)) :
    List (List α × List α) :=
  let anyInt := s.sInt.any (fun st => decide ((0 : α) < st))
  (List.zip zs rInt).map (fun zr =>
    let y := matVec s.A zr.1                                                  -- :677
    let x := vadd (vadd s.parentX (vscale s.sigma y)) (vmul s.sInt zr.2)      -- :678
    let x := if anyInt then
        (List.zip x s.sInt).map (fun xs => if (0 : α) < xs.2 then xs.2 * around (xs.1 / xs.2) else xs.1)   -- :680-685
      else x
    (x, y))

/-- `numpy.allclose(pc, 0)`: every `|pc_i| ≤ 1e-8`. -/
def allClose0 (v : List α) : Bool :=
  v.all (fun x => decide (RealLike.abs x ≤ RealLike.ofRatio 1 100000000))

/-- `numpy.linalg.norm(w) ** 2`. -/
def normSqrd (w : List α) : α := let nrm := RealLike.sqrt (normSq w); nrm * nrm

/-- The common `A` / `invA` formulas, cma.py:791-794 (F14-repaired: `outer(w, w)·invA`). -/
def applyAB (n : Nat) (A invA : List (List α)) (a b wNormSqrd : α) (w : List α) :
    List (List α) × List (List α) :=
  let A' := madd (mscale a A) (mscale b (outer (matVec A w) w))               -- :791
  let invA' := msub (mscale (1 / a) invA)
                 (mscale (b / (a * a + a * b * wNormSqrd)) (matMul n (outer w w) invA))   -- :792-794
  (A', invA')

/-- The three branches computing `(a, b, w, w_norm_sqrd)` and the new `pc`; `none` = no
covariance update. -/
structure ABW (α : Type) where
  a : α
  b : α
  w : List α
  nrm : α

/-- Successful branch, cma.py:750-770, given the updated `psucc`. -/
def positiveABW (p : Params α) (psucc : α) (pc : List α) (invA : List (List α)) (y : List α) :
    List α × ABW α :=
  if psucc < p.pthresh ∨ allClose0 pc = true then                             -- :750
    let pc' := vadd (vscale (1 - p.cc) pc) (vscale (RealLike.sqrt (p.cc * (2 - p.cc))) y)   -- :751-752
    let a := RealLike.sqrt (1 - p.ccovp)                                      -- :754
    let w := matVec invA pc'                                                  -- :755
    let n2 := normSqrd w                                                      -- :756
    let b := RealLike.sqrt (1 - p.ccovp) / n2
               * (RealLike.sqrt (1 + p.ccovp / (1 - p.ccovp) * n2) - 1)       -- :757-759
    (pc', ⟨a, b, w, n2⟩)
  else
    let pc' := vscale (1 - p.cc) pc                                           -- :762
    let d := p.ccovp * (1 + p.cc * (2 - p.cc))                                -- :764
    let a := RealLike.sqrt (1 - d)                                            -- :765
    let w := matVec invA pc'                                                  -- :766
    let n2 := normSqrd w                                                      -- :767
    let b := RealLike.sqrt (1 - d) * (RealLike.sqrt (1 + p.ccovp * n2 / (1 - d)) - 1) / n2   -- :768-770
    (pc', ⟨a, b, w, n2⟩)

/-- Active (negative) branch, cma.py:778-787. -/
def negativeABW (p : Params α) (z : List α) : ABW α :=
  let w := z                                                                  -- :778
  let n2 := normSqrd w                                                        -- :779
  let ccovn := if 1 < p.ccovn * (2 * n2 - 1) then 1 / (2 * n2 - 1) else p.ccovn   -- :780-783
  let a := RealLike.sqrt (1 + ccovn)                                          -- :785
  let b := RealLike.sqrt (1 + ccovn) / n2
             * (RealLike.sqrt (1 - ccovn / (1 + ccovn) * n2) - 1)             -- :786-787
  ⟨a, b, w, n2⟩

/-- `_rank1update` (cma.py:738-799); `fit` is the (valid) fitness of `individual`. -/
def rank1update {φ : Type} (ord : FitOrd φ) (s : State φ α) (ind : AInd φ α) (fit : φ) (pSucc : α) :
    State φ α :=
  let p := s.prm
  let psucc := (1 - p.cp) * s.psucc + p.cp * pSucc                            -- :740
  let sigma' := s.sigma * RealLike.exp (1 / p.d * ((psucc - p.ptarg) / (1 - p.ptarg)))   -- :797-799
  let success := match s.parentFit with
    | none => true                                                            -- :742
    | some pf => ord.le pf fit                                                -- :743
  if success then
    let anc := s.ancestors ++ [fit]                                           -- :745
    let anc := if 5 < anc.length then anc.dropLast else anc                   -- :746-747 (`pop()` drops the newest)
    let r := positiveABW p psucc s.pc s.invA ind.y
    let m := applyAB s.dim s.A s.invA r.2.a r.2.b r.2.nrm r.2.w
    { s with parentId := ind.id, parentX := ind.x, parentFit := some fit, ancestors := anc,
             pc := r.1, A := m.1, invA := m.2, psucc := psucc, sigma := sigma' }
  else
    let active := match s.ancestors with
      | [] => false
      | a0 :: _ => decide (5 ≤ s.ancestors.length) && ord.lt fit a0 && decide (psucc < p.pthresh)   -- :774-776
    if active then
      let r := negativeABW p ind.z
      let m := applyAB s.dim s.A s.invA r.a r.b r.nrm r.w
      { s with A := m.1, invA := m.2, psucc := psucc, sigma := sigma' }
    else { s with psucc := psucc, sigma := sigma' }

/-- `A_prime` of `_infeasible_update`, cma.py:814-828, from the already updated constraint
vectors.  `none` when no flag is set (the Python sum over an empty list is not a matrix). -/
def aPrime (beta : α) (A invA : List (List α)) (vecs : List (List α)) (cv : List Bool) :
    Option (List (List α)) :=
  let W := vecs.map (fun v => matVec invA v)                                  -- :814
  let violation : α := RealLike.ofNat (cv.count true)                         -- :815
  let terms := ((List.zip (List.zip vecs W) cv).filter (·.2)).map
    (fun t => mdivs (outer t.1.1 t.1.2) (dot t.1.2 t.1.2))                    -- :821-824
  match terms with
  | [] => none
  | t0 :: ts => some (msub A (mscale (beta / violation) (ts.foldl madd t0)))  -- :817-827

/-- The constraint vectors after cma.py:805-812. -/
def constraintVecsUpdate {φ : Type} (s : State φ α) (ind : AInd φ α) : List (List α) :=
  let vecs0 := match s.constraintVecs with
    | none => List.replicate ind.cv.length (vzero s.dim)                      -- :805-807
    | some v => v
  (List.zip vecs0 ind.cv).map (fun vc =>
    if vc.2 then vadd (vscale (1 - s.prm.cconst) vc.1) (vscale s.prm.cconst ind.y) else vc.1)   -- :809-812

/-- `_infeasible_update` (cma.py:801-836) for an individual carrying `constraint_violation`.
`inv` = `numpy.linalg.inv` (`none` = `LinAlgError`: the update is ignored).
When no flag is set the Python code divides by zero and fills `A` with NaN; the model leaves the
matrices alone there (callers mark an individual invalid only when a constraint is violated, as
in `tests/test_convergence.py`; the theorems do not depend on this case). -/
def infeasibleUpdate {φ : Type} (inv : List (List α) → Option (List (List α)))
    (s : State φ α) (ind : AInd φ α) : State φ α :=
  if ind.hasCv = false then s else                                            -- :802-803
  let vecs := constraintVecsUpdate s ind
  match aPrime s.prm.beta s.A s.invA vecs ind.cv with
  | none => { s with constraintVecs := some vecs }
  | some A' =>
    match inv A' with                                                         -- :830-836
    | none => { s with constraintVecs := some vecs }
    | some iA => { s with constraintVecs := some vecs, A := A', invA := iA }

/-- Result of `update`: the new state and the order of the valid individuals after the sort. -/
structure UpdOut (φ α : Type) where
  st : State φ α
  sortedValid : List Nat
  lambdaSucc : Nat

/-- The valid part of a population with the fitness unwrapped (cma.py:843). -/
def validOf {φ : Type} (pop : List (AInd φ α)) : List (AInd φ α × φ) :=
  pop.filterMap (fun i => i.fit.map (fun f => (i, f)))

/-- cma.py:846-856: sort the valid individuals, count the successes, rank-one update with the
best.  Returns the state, the sorted valid individuals and `lambda_succ`. -/
def rankStep {φ : Type} (ord : FitOrd φ) (s : State φ α) (population : List (AInd φ α)) :
    State φ α × List (AInd φ α × φ) × Nat :=
  let sorted := (validOf population).mergeSort (fun a b => !ord.lt a.2 b.2)   -- :848
  let lambdaSucc := match s.parentFit with
    | none => sorted.length                                                   -- :849-850
    | some pf => (sorted.filter (fun i => ord.le pf i.2)).length              -- :852-853
  match sorted with
  | [] => (s, sorted, lambdaSucc)
  | best :: _ =>
    (rank1update ord s best.1 best.2
      (RealLike.ofNat lambdaSucc / RealLike.ofNat sorted.length), sorted, lambdaSucc)   -- :855-856

/-- `update` (cma.py:838-868); `numpy.linalg.cond` is monitoring only and not modelled.
`inv k` answers the `k`-th call of `numpy.linalg.inv` of this update (a weaker assumption than one
fixed function: every call only has to meet the contract). -/
def update {φ : Type} (ord : FitOrd φ) (inv : Nat → List (List α) → Option (List (List α)))
    (s : State φ α) (population : List (AInd φ α)) : UpdOut φ α :=
  let invalid := population.filter (fun i => i.fit.isNone)                    -- :844
  let r := rankStep ord s population
  let s2 := (List.zipIdx invalid).foldl (fun st ik => infeasibleUpdate (inv ik.2) st ik.1) r.1   -- :858-861
  let C := matMul s2.dim s2.A (transpose s2.dim s2.A)                         -- :866
  { st := { s2 with iIR := integerIdx s2.sigma (diag C) s2.sInt },            -- :867-868
    sortedValid := r.2.1.map (·.1.id), lambdaSucc := r.2.2 }

/-- Any number of `update` calls on evaluated populations. -/
def run {φ : Type} (ord : FitOrd φ) (inv : Nat → List (List α) → Option (List (List α)))
    (s : State φ α) : List (List (AInd φ α)) → State φ α
  | [] => s
  | pop :: rest => run ord inv (update ord inv s pop).st rest

end Active

end CmaElitist
