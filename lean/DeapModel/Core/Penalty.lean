/-
Model of `deap/tools/constraint.py` (C19): the decorators `DeltaPenalty` and `ClosestValidPenalty`.
Import-free.  Generic in the scalar type (the driver instantiates it at `Rat`, the theorems are
proved for every linearly ordered ring), in the type `X` of individuals and in the type `A` of the
extra positional / keyword arguments (`*args, **kwargs`) that the wrapper forwards.

The undecorated evaluation function is a pure function `f : X → A → List α`; what the property
observes of it besides the returned fitness is *on which arguments it was called*, so every
wrapper returns the fitness together with the call log of `f` (in call order).

`individual.fitness.weights` is an attribute lookup through the MRO of the individual's OWN fitness
class; the `…Cls` variants at the end take the class table of `Core/FitClass.lean` (C01's model of
families of related fitness classes) and the individual's class instead of the weights.
-/
import DeapModel.Core.FitClass

namespace Penalty

/-- A Python value that is either a non-`Sequence` (a number, which the code wraps in
`itertools.repeat`, constraint.py:50-51, 67-68, 134-135) or a vector of numbers — what
`_is_vector` (constraint.py:11-14, repair F24) accepts: any `Sequence` (tuple, list, range,
array.array …) or an object with `ndim > 0` (numpy.ndarray). -/
inductive SV (α : Type) where
  | scalar (c : α)
  | seq (v : List α)
deriving Repr, DecidableEq

namespace SV
variable {α : Type}

/-- What `zip` can see of the value next to an operand of length `n`: `repeat(c)` is cut to `n`
items (zip stops at the shortest operand, so the infinite tail is never read), a sequence is itself. -/
def upTo (n : Nat) : SV α → List α
  | scalar c => List.replicate n c
  | seq v => v

/-- The `i`-th item delivered by iterating the value (`repeat(c)` delivers `c` for ever). -/
def get? : SV α → Nat → Option α
  | scalar c, _ => some c
  | seq v, i => v[i]?

/-- The numbers the value is made of. -/
def vals : SV α → List α
  | scalar c => [c]
  | seq v => v

end SV

/-- Result of one call of a decorated evaluation function. -/
structure Out (X A α : Type) where
  /-- the returned fitness tuple; `none` = the `IndexError` of constraint.py:128-129 -/
  result : Option (List α)
  /-- the calls received by the undecorated evaluation function, in order: `(individual, extras)` -/
  calls : List (X × A)
deriving Repr, DecidableEq

/-- `zip(a, b, c)` mapped through `g` — stops at the shortest operand. -/
def zip3With {α β γ δ : Type} (g : α → β → γ → δ) : List α → List β → List γ → List δ
  | a :: as, b :: bs, c :: cs => g a b c :: zip3With g as bs cs
  | _, _, _ => []

section
variable {α : Type} [LE α] [DecidableLE α] [OfNat α 0] [OfNat α 1] [Neg α] [Sub α] [Mul α]
variable {X A : Type}

/-- `1 if w >= 0 else -1` (constraint.py:62, 126): a zero weight counts as `+1`. -/
def sgn (w : α) : α := if (0 : α) ≤ w then 1 else -1

/-- `tuple(1 if w >= 0 else -1 for w in individual.fitness.weights)`. -/
def signs (weights : List α) : List α := weights.map sgn

/-- constraint.py:64-68: `dists = tuple(0 for w in weights)`, replaced by what the distance
function returns when there is one. -/
def deltaDists (dist : Option (X → SV α)) (weights : List α) (x : X) : SV α :=
  match dist with
  | none => .seq (weights.map fun _ => 0)                                  -- :64
  | some d => d x                                                         -- :66-68

/-- `DeltaPenalty(feasibility, delta, distance)(func)(individual, *args, **kwargs)`
(constraint.py:48-71).  `weights x` is `individual.fitness.weights`. -/
def deltaPenalty (feas : X → Bool) (delta : SV α) (dist : Option (X → SV α))
    (weights : X → List α) (f : X → A → List α) (x : X) (a : A) : Out X A α :=
  if feas x then                                                          -- :59
    ⟨some (f x a), [(x, a)]⟩                                              -- :60
  else
    let ws := signs (weights x)                                           -- :62
    let dists := deltaDists dist (weights x) x                            -- :64-68
    ⟨some (zip3With (fun d w dist => d - w * dist)                        -- :69
        (delta.upTo ws.length) ws (dists.upTo ws.length)), []⟩

/-- constraint.py:131-135; the distance function receives `(f_ind, individual)` in this order. -/
def closestDists (dist : Option (X → X → SV α)) (weights : List α) (fInd x : X) : SV α :=
  match dist with
  | none => .seq (weights.map fun _ => 0)                                  -- :131
  | some d => d fInd x                                                    -- :133-135

/-- `ClosestValidPenalty(feasibility, feasible, alpha, distance)(func)(individual, *args, **kwargs)`
(constraint.py:109-141). -/
def closestValidPenalty (feas : X → Bool) (closest : X → X) (alpha : α)
    (dist : Option (X → X → SV α)) (weights : X → List α) (f : X → A → List α)
    (x : X) (a : A) : Out X A α :=
  if feas x then                                                          -- :118
    ⟨some (f x a), [(x, a)]⟩                                              -- :119
  else
    let fInd := closest x                                                 -- :121
    let fFbl := f fInd a                                                  -- :123
    let ws := signs (weights x)                                           -- :126
    if ws.length ≠ fFbl.length then                                       -- :128
      ⟨none, [(fInd, a)]⟩                                                 -- :129
    else
      let dists := closestDists dist (weights x) fInd x                   -- :131-135
      ⟨some (zip3With (fun f w d => f - w * alpha * d)                    -- :139
          fFbl ws (dists.upTo ws.length)), [(fInd, a)]⟩

/-! ### Individuals whose fitness classes belong to a family of related classes

`individual.fitness.weights` (constraint.py:62, 64, 126, 131) reads the class attribute `weights` of
`type(individual.fitness)` through the MRO: `Fitness.lookupWeights tbl (cls x)`.  The wrappers read nothing else
of the class and write nothing to it (the unchanged library keeps no other per-class state), so a decorated call
is a function of the table and returns no new table.  `none` = the class is abstract or does not exist: no such
individual can be made (`Fitness.__init__` raises `TypeError`). -/

def deltaPenaltyCls (tbl : Fitness.ClassTable α) (cls : X → Nat) (feas : X → Bool) (delta : SV α)
    (dist : Option (X → SV α)) (f : X → A → List α) (x : X) (a : A) : Option (Out X A α) :=
  (Fitness.lookupWeights tbl (cls x)).map fun w => deltaPenalty feas delta dist (fun _ => w) f x a

def closestValidPenaltyCls (tbl : Fitness.ClassTable α) (cls : X → Nat) (feas : X → Bool) (closest : X → X)
    (alpha : α) (dist : Option (X → X → SV α)) (f : X → A → List α) (x : X) (a : A) : Option (Out X A α) :=
  (Fitness.lookupWeights tbl (cls x)).map fun w => closestValidPenalty feas closest alpha dist (fun _ => w) f x a

/-- One call of a history: which decorator (`false` = DeltaPenalty, `true` = ClosestValidPenalty; the decorator
parameters are those of the object the call goes through), on which individual, with which extras. -/
structure HCall (X A α : Type) where
  closestKind : Bool
  feas : X → Bool
  delta : SV α
  dist1 : Option (X → SV α)
  closest : X → X
  alpha : α
  dist2 : Option (X → X → SV α)
  f : X → A → List α
  x : X
  a : A

def HCall.run (tbl : Fitness.ClassTable α) (cls : X → Nat) (c : HCall X A α) : Option (Out X A α) :=
  if c.closestKind then closestValidPenaltyCls tbl cls c.feas c.closest c.alpha c.dist2 c.f c.x c.a
  else deltaPenaltyCls tbl cls c.feas c.delta c.dist1 c.f c.x c.a

/-- A history of decorated calls in one process: the class table is read, never written, so the history is the
list of its calls. -/
def runHistory (tbl : Fitness.ClassTable α) (cls : X → Nat) (h : List (HCall X A α)) : List (Option (Out X A α)) :=
  h.map (HCall.run tbl cls)

end

end Penalty
