/-
Model of the NSGA-III part of `deap/tools/emo.py`:
`selNSGA3` (492-573), `associate_to_niche` (623-641), `niching` (643-677),
`uniform_reference_points` (680-701), and the memory update of `selNSGA3WithMemory` (463-489 with
546-551).

Import-free apart from `Core.Scalar` (the real-valued association is polymorphic in `RealLike`).

Conventions
* individuals are ids (positions in the input population); `pareto_fronts` is an *input* (the real
  `sortNondominated` / `sortLogNondominated` output as id lists — C04 verifies those).
* `find_extreme_points` / `find_intercepts` (LAPACK) are not modelled: `selNSGA3` takes the
  association result `niches, dist` as inputs; `associate` is modelled on its own, relative to the
  `best_point, intercepts` the code computed.
* `numpy.random.shuffle(a)` = one tape draw carrying the *resulting* array; a draw that is not a
  permutation of the array shuffled is `badTape`.
* a raised exception (`numpy.min` of an empty array, `IndexError`) is `raised`.
-/
import DeapModel.Core.Scalar
import DeapModel.Core.NDSort

namespace Nsga3

inductive Err where
  | badTape | raised | fuel
deriving DecidableEq, Repr

/-- `a[i] = v` on an array seen as a function of the index. -/
def upd {β : Type} (f : Nat → β) (i : Nat) (v : β) : Nat → β := fun x => if x = i then v else f x

/-! ### niching (emo.py:643-677) -/

/-- loop state: `selected` (positions in the last front), `available`, `niche_counts`. -/
structure NState where
  selected : List Nat
  avail : Nat → Bool
  counts : Nat → Nat

abbrev Tape := List (List Nat)

section Niching
variable {α : Type} [LT α] [DecidableLT α]

/-- `numpy.flatnonzero(numpy.logical_and(niches == niche, available))` (line 662). -/
def members (L : Nat) (niches : Nat → Nat) (avail : Nat → Bool) (j : Nat) : List Nat :=
  (List.range L).filter (fun p => niches p == j && avail p)

/-- indices where `available_niches` is `True` (lines 651-652). -/
def availNiches (L nref : Nat) (niches : Nat → Nat) (avail : Nat → Bool) : List Nat :=
  (List.range nref).filter (fun j => (List.range L).any (fun p => avail p && niches p == j))

/-- `l[numpy.argmin(d[l])]`: the first element with the minimal value; `none` on an empty list. -/
def argminFirst (d : Nat → α) : List Nat → Option Nat
  | [] => none
  | p :: ps => some (ps.foldl (fun best q => if d q < d best then q else best) p)

/-- body of `for niche in selected_niches` (lines 660-675). -/
def pick (L : Nat) (niches : Nat → Nat) (dist : Nat → α) (st : NState) (niche : Nat)
    (tape : Tape) : Except Err (NState × Tape) :=
  let mem := members L niches st.avail niche
  match tape with
  | [] => .error .badTape
  | draw :: tape' =>
    if !(draw.isPerm mem) then .error .badTape else
    match (if st.counts niche = 0 then argminFirst dist draw else draw.head?) with
    | none => .error .raised
    | some p => .ok ({ selected := st.selected ++ [p], avail := upd st.avail p false,
                       counts := upd st.counts niche (st.counts niche + 1) }, tape')

def pickAll (L : Nat) (niches : Nat → Nat) (dist : Nat → α) :
    List Nat → NState → Tape → Except Err (NState × Tape)
  | [], st, t => .ok (st, t)
  | j :: js, st, t =>
    match pick L niches dist st j t with
    | .error e => .error e
    | .ok (st', t') => pickAll L niches dist js st' t'

/-- one pass of the `while` body (lines 647-675). -/
def round (L k nref : Nat) (niches : Nat → Nat) (dist : Nat → α) (st : NState) (tape : Tape) :
    Except Err (NState × Tape) :=
  let n := k - st.selected.length
  -- line 652: `available_niches[...] = True` raises IndexError for a niche number ≥ len(niche_counts)
  if (List.range L).any (fun p => st.avail p && decide (nref ≤ niches p)) then .error .raised else
  let an := availNiches L nref niches st.avail
  match (an.map st.counts).min? with
  | none => .error .raised                      -- numpy.min of an empty array
  | some mc =>
    let cand := an.filter (fun j => st.counts j == mc)
    match tape with
    | [] => .error .badTape
    | draw :: tape' =>
      if !(draw.isPerm cand) then .error .badTape
      else pickAll L niches dist (draw.take n) st tape'

def nichingLoop (L k nref : Nat) (niches : Nat → Nat) (dist : Nat → α) :
    (fuel : Nat) → NState → Tape → Except Err NState
  | fuel, st, t =>
    if st.selected.length < k then
      match fuel with
      | 0 => .error .fuel
      | f + 1 =>
        match round L k nref niches dist st t with
        | .error e => .error e
        | .ok (st', t') => nichingLoop L k nref niches dist f st' t'
    else .ok st

/-- `niching(individuals, k, niches, distances, niche_counts)` with `L = len(individuals)`,
`nref = len(niche_counts)`: the final state (`selected` = positions in `individuals`,
`counts` = the array `niche_counts` as mutated in place). -/
def niching (L k nref : Nat) (niches : Nat → Nat) (dist : Nat → α) (counts0 : Nat → Nat)
    (tape : Tape) : Except Err NState :=
  nichingLoop L k nref niches dist (k + 1)
    { selected := [], avail := fun _ => true, counts := counts0 } tape

/-! ### selNSGA3 (emo.py:537-573), association taken as input -/

/-- positions of the returned individuals; `niches`/`dist` are in the order of the flattened
fronts, `nref = len(ref_points)`. -/
def selNSGA3 (fronts : List (List Nat)) (k : Nat) (niches : List Nat) (dist : List α) (dflt : α)
    (nref : Nat) (tape : Tape) : Except Err (List Nat) :=
  match fronts.getLast? with
  | none => .error .raised                           -- pareto_fronts[-1]
  | some last =>
    -- lines 559-561: counts over niches[:-len(last)]
    let head := niches.take (niches.length - last.length)
    if head.any (fun j => decide (nref ≤ j)) then .error .raised else
    let counts0 : Nat → Nat := fun j => head.count j
    let chosen := fronts.dropLast.flatten            -- line 564
    let selCount := chosen.length
    let n := k - selCount
    match niching last.length n nref (fun p => (niches.drop selCount).getD p 0)
            (fun p => (dist.drop selCount).getD p dflt) counts0 tape with
    | .error e => .error e
    | .ok st => .ok (chosen ++ st.selected.map (fun p => last.getD p 0))

end Niching

/-! ### associate_to_niche (emo.py:623-641) -/

section Associate
variable {α : Type} [RealLike α]

/-- `numpy.finfo(float).eps` -/
def eps : α := RealLike.ofRatio 1 (2 ^ 52)

/-- line 627: `(f - best) / (intercepts - best + eps)`, one row -/
def normalise (best intercepts f : List α) : List α :=
  List.zipWith (fun fb ib => fb / ib)
    (List.zipWith (· - ·) f best)
    (List.zipWith (fun i b => i - b + eps) intercepts best)

/-- `numpy.linalg.norm(r)` -/
def norm (r : List α) : α := RealLike.sqrt (RealLike.sum (r.map (fun x => x * x)))

def dot (a b : List α) : α := RealLike.sum (List.zipWith (· * ·) a b)

/-- lines 633-635 for one individual and one reference point: the coded perpendicular distance
`‖ (fn·r/‖r‖) · r/‖r‖ − fn ‖`. -/
def perpDist (fn r : List α) : α :=
  let nr := norm r
  let proj := dot fn r / nr
  let v := List.zipWith (fun rm fm => proj * rm / nr - fm) r fn
  norm v

/-- `numpy.argmin` of a list: first index of the minimal value (`0` on the empty list). -/
def argminIdx (l : List α) : Nat :=
  match l with
  | [] => 0
  | x :: xs =>
    (xs.foldl (fun (acc : Nat × α × Nat) y =>
        if y < acc.2.1 then (acc.2.2, y, acc.2.2 + 1) else (acc.1, acc.2.1, acc.2.2 + 1))
      (0, x, 1)).1

/-- `associate_to_niche` for one individual: `(niche, distance)`. -/
def associate1 (refs : List (List α)) (best intercepts f : List α) : Nat × α :=
  let fn := normalise best intercepts f
  let ds := refs.map (perpDist fn)
  let j := argminIdx ds
  (j, ds.getD j (RealLike.ofNat 0))

def associate (fits refs : List (List α)) (best intercepts : List α) : List (Nat × α) :=
  fits.map (associate1 refs best intercepts)

end Associate

/-! ### uniform_reference_points (emo.py:680-701) -/

/-- `gen_refs_recursive(ref, nobj, left, total, depth)` with `rem = nobj - 1 - depth`. -/
def genRefs (total : Nat) : (rem : Nat) → (ref : List Rat) → (left depth : Nat) → List (List Rat)
  | 0, ref, left, depth => [ref.set depth ((left : Rat) / (total : Rat))]
  | rem + 1, ref, left, depth =>
    (List.range (left + 1)).flatMap (fun (i : Nat) =>
      genRefs total rem (ref.set depth ((i : Rat) / (total : Rat))) (Nat.sub left i) (depth + 1))

/-- `uniform_reference_points(nobj, p, scaling)`; the code needs `nobj ≥ 1` and `p ≥ 1`
(`0/0` raises for `p = 0`). -/
def uniformRefPoints (nobj p : Nat) (scaling : Option Rat) : List (List Rat) :=
  let pts := genRefs p (nobj - 1) (List.replicate nobj 0) p 0
  match scaling with
  | none => pts
  | some s => pts.map (fun pt => pt.map (fun x => x * s + (1 - s) / (nobj : Rat)))

/-! ### memory of `selNSGA3WithMemory` (lines 546-551, 483-488) -/

section Memory
variable {α : Type} [LT α] [DecidableLT α]

/-- `numpy.min(numpy.concatenate((fitnesses, best_point)), axis=0)`: componentwise minimum over
the rows of `fitnesses` followed by the remembered point (first minimal value kept). -/
def colMin (rows : List (List α)) (mem : List α) : List α :=
  (rows ++ [mem]).tail.foldl (fun acc r => List.zipWith (fun a b => if b < a then b else a) acc r)
    ((rows ++ [mem]).headD mem)

/-- `numpy.max(…, axis=0)` likewise. -/
def colMax (rows : List (List α)) (mem : List α) : List α :=
  (rows ++ [mem]).tail.foldl (fun acc r => List.zipWith (fun a b => if a < b then b else a) acc r)
    ((rows ++ [mem]).headD mem)

end Memory

/-! ### normalisation: ideal / worst point, `find_extreme_points` (577-593), `find_intercepts`
(596-620)

Polymorphic in `RealLike`.  `numpy.linalg.solve` is a *parameter* `solve A b` (`none` =
`LinAlgError`); the code itself tests the contract `A·x = b` with `numpy.allclose`. -/

section Normalise
variable {α : Type} [RealLike α]

/-- `numpy.min(fitnesses, axis=0)` (no remembered point). -/
def colMin0 (rows : List (List α)) : List α :=
  match rows with
  | [] => []
  | r :: rs => colMin rs r

def colMax0 (rows : List (List α)) : List α :=
  match rows with
  | [] => []
  | r :: rs => colMax rs r

/-- lines 546-551: `best_point` -/
def idealPoint (fits : List (List α)) (mem : Option (List α)) : List α :=
  match mem with
  | some m => colMin fits m
  | none => colMin0 fits

/-- lines 546-551: `worst_point` -/
def worstPoint (fits : List (List α)) (mem : Option (List α)) : List α :=
  match mem with
  | some m => colMax fits m
  | none => colMax0 fits

/-- `numpy.max` of a row (the first maximal value is kept) -/
def maxL : List α → α
  | [] => RealLike.ofNat 0
  | x :: xs => xs.foldl (fun a b => if a < b then b else a) x

/-- lines 587-588: `asf = numpy.eye(M); asf[asf == 0] = 1e6` -/
def asfWeight (j m : Nat) : α := if m = j then RealLike.ofNat 1 else RealLike.ofNat 1000000

/-- line 589 for axis `j` and one translated row: `max_m ft[m] * asf[j][m]` -/
def asf (M j : Nat) (ft : List α) : α :=
  maxL (List.zipWith (· * ·) ft ((List.range M).map (asfWeight j)))

/-- `find_extreme_points(fitnesses, best_point, extreme_points)` -/
def findExtremePoints (fits : List (List α)) (best : List α) (ext : Option (List (List α))) :
    List (List α) :=
  let rows := match ext with
    | some e => fits ++ e            -- line 581
    | none => fits
  let ft := rows.map (fun r => List.zipWith (· - ·) r best)          -- line 584
  (List.range best.length).map (fun j =>
    rows.getD (argminIdx (ft.map (asf best.length j))) [])            -- lines 592-593

/-- `v == 0` on floats (written with `<` only) -/
def isZero (x : α) : Bool := !(decide (x < RealLike.ofNat 0)) && !(decide (RealLike.ofNat 0 < x))

/-- `numpy.allclose(v, ones)`: `|v - 1| <= atol + rtol * |1|`, rtol = 1e-5, atol = 1e-8 -/
def allcloseOne (v : List α) : Bool :=
  v.all (fun y => decide (RealLike.abs (y - RealLike.ofNat 1) ≤
    RealLike.ofRatio 1 100000000 + RealLike.ofRatio 1 100000 * RealLike.abs (RealLike.ofNat 1)))

/-- the acceptance test of lines 612-614 for a solution `x` (all components non-zero) -/
def acceptIntercepts (A : List (List α)) (x best worst : List α) : Bool :=
  let ic := x.map (fun v => RealLike.ofNat 1 / v)
  allcloseOne (A.map (fun row => dot row x)) &&
  !(ic.any (fun v => decide (v ≤ RealLike.ofRatio 1 1000000))) &&
  !((List.zipWith (fun (s w : α) => decide (w < s)) (List.zipWith (· + ·) ic best) worst).any id)

/-- `find_intercepts(extreme_points, best_point, current_worst, front_worst)` -/
def findIntercepts (solve : List (List α) → List α → Option (List α))
    (extreme : List (List α)) (best worst frontWorst : List α) : List α :=
  let b := List.replicate best.length (RealLike.ofNat 1 : α)          -- line 600
  let A := extreme.map (fun r => List.zipWith (· - ·) r best)          -- line 601
  match solve A b with
  | none => worst                                                      -- lines 604-605
  | some x =>
    if x.any isZero then frontWorst                                    -- lines 607-608
    else if acceptIntercepts A x best worst then
      -- lines 616-618 (F21): the hyperplane intercepts are measured from the ideal point
      List.zipWith (· + ·) (x.map (fun v => RealLike.ofNat 1 / v)) best
    else frontWorst                                                    -- lines 610-615

/-- lines 546-557 of `selNSGA3`: `(best_point, worst_point, extreme_points, intercepts)`. -/
def normalisation (solve : List (List α) → List α → Option (List α)) (fits : List (List α))
    (memBest memWorst : Option (List α)) (memExt : Option (List (List α))) :
    List α × List α × List (List α) × List α :=
  let best := idealPoint fits memBest
  let worst := worstPoint fits memWorst
  let extreme := findExtremePoints fits best memExt
  let frontWorst := colMax0 fits                                       -- line 555
  (best, worst, extreme, findIntercepts solve extreme best worst frontWorst)

end Normalise

/-! ### the whole of `selNSGA3` after the sort (lines 537-573), and `selNSGA3WithMemory.__call__` -/

section Full
variable {α : Type} [RealLike α]

/-- `selNSGA3` with its own normalisation and association: `fitOf id` is the minimised objective
vector (`-wvalues`, line 541-542) of individual `id`; the objective matrix is taken in the order of
the flattened fronts; `niches, dist` are what `associate_to_niche` returns for the model's own
`best_point, intercepts`. -/
def selNSGA3Full (solve : List (List α) → List α → Option (List α)) (fronts : List (List Nat))
    (k : Nat) (fitOf : Nat → List α) (refs : List (List α)) (mb mw : Option (List α))
    (me : Option (List (List α))) (tape : Tape) : Except Err (List Nat) :=
  let fits := fronts.flatten.map fitOf
  let n := normalisation solve fits mb mw me
  let a := associate fits refs n.1 n.2.2.2
  selNSGA3 fronts k (a.map (·.1)) (a.map (·.2)) (RealLike.ofNat 0) refs.length tape

/-- the attributes `best_point, worst_point, extreme_points` of a `selNSGA3WithMemory` object.
`none` for the points stands for the rows of `+inf` / `-inf` written by `__init__` (neutral for the
componentwise min / max), `none` for the extreme points is Python's `None`. -/
structure Mem (α : Type) where
  best : Option (List α)
  worst : Option (List α)
  extreme : Option (List (List α))

def Mem.init : Mem α := ⟨none, none, none⟩

/-- `selNSGA3WithMemory.__call__` (lines 483-489): select with the remembered points, then remember
the new ones (an exception leaves the attributes as they were). -/
def memCall (solve : List (List α) → List α → Option (List α)) (refs : List (List α))
    (st : Mem α) (fronts : List (List Nat)) (k : Nat) (fitOf : Nat → List α) (tape : Tape) :
    Except Err (List Nat) × Mem α :=
  let n := normalisation solve (fronts.flatten.map fitOf) st.best st.worst st.extreme
  match selNSGA3Full solve fronts k fitOf refs st.best st.worst st.extreme tape with
  | .error e => (.error e, st)
  | .ok chosen => (.ok chosen, ⟨some n.1, some n.2.1, some n.2.2.1⟩)

/-- the memory after a sequence of successful calls, each given by its objective matrix (the
selections themselves do not influence the memory). -/
def memAfter (solve : List (List α) → List α → Option (List α)) : Mem α → List (List (List α)) → Mem α
  | st, [] => st
  | st, fits :: rest =>
    let n := normalisation solve fits st.best st.worst st.extreme
    memAfter solve ⟨some n.1, some n.2.1, some n.2.2.1⟩ rest

end Full

/-! ### `selNSGA3` end to end: the non-dominated sort included

`pareto_fronts` is no longer an input: it is what the C04 models of `sortNondominated` /
`sortLogNondominated` (`Core/NDSort.lean`, proved equal to peeling in C04) compute from the weighted
values.  The sort compares exact scalars `ρ` (every double is a rational); `toF` is the embedding of
those values into the real-valued scalars of the normalisation and association (`-wvalues`,
lines 541-542). -/

section EndToEnd
variable {α : Type} [RealLike α]
variable {ρ : Type} [LT ρ] [LE ρ] [DecidableEq ρ] [DecidableLT ρ] [DecidableLE ρ] [Add ρ] [Neg ρ]
  [Inhabited ρ]

/-- individuals = their positions, with their weighted values -/
def mkPop (wv : List (List ρ)) : List (NDSort.Ind ρ) :=
  (List.range wv.length).zipWith (fun i w => ⟨i, w⟩) wv

/-- lines 531-537: `sortNondominated(individuals, k)` or `sortLogNondominated(individuals, k)` -/
def sortBy (logSort : Bool) (wv : List (List ρ)) (k : Nat) : Option (List (List Nat)) :=
  ((if logSort then NDSort.sortLog (mkPop wv) k else NDSort.sortStd (mkPop wv) k false)).map
    (fun fr => fr.map (fun f => f.map (·.id)))

/-- `selNSGA3(individuals, k, ref_points, nd, best_point, worst_point, extreme_points)` from the
weighted values alone; `Err.fuel` = the sort did not terminate within its fuel (C04 proves it does). -/
def selNSGA3E (toF : ρ → α) (solve : List (List α) → List α → Option (List α)) (logSort : Bool)
    (wv : List (List ρ)) (k : Nat) (refs : List (List α)) (mb mw : Option (List α))
    (me : Option (List (List α))) (tape : Tape) : Except Err (List Nat) :=
  match sortBy logSort wv k with
  | none => .error .fuel
  | some fronts =>
    selNSGA3Full solve fronts k (fun i => (wv.getD i []).map (fun x => - toF x)) refs
      mb mw me tape

end EndToEnd

end Nsga3
