/-
C20 — continuous single-objective benchmarks (`deap/benchmarks/__init__.py:27-394`) and the
symbolic-regression targets (`deap/benchmarks/gp.py:19-136`).

Every function is written from its *published definition* (the formula of the docstring /
the cited paper), polymorphic in `RealLike α`, with the operation order of the Python source so
that the `Float` instance agrees with CPython within rounding.  `none` = the input the real code
rejects (IndexError on a too short individual, ZeroDivisionError on a structural zero divisor).
Import-free.
-/
import DeapModel.Core.Scalar

namespace Bench
open RealLike

variable {α : Type} [RealLike α]

/-- decimal literal `n/d` (e.g. `0.2 = dec 2 10`); at `Float` the quotient of two exactly
representable integers is the correctly rounded literal. -/
def dec (n : Int) (d : Nat) : α := RealLike.ofRatio n d

/-- `x ** 2` -/
def sq (x : α) : α := x * x

/-- `x ** n` for a literal natural exponent, by repeated multiplication -/
def npow (x : α) : Nat → α
  | 0 => RealLike.ofNat 1
  | 1 => x
  | n + 2 => npow x (n + 1) * x

/-- `zip(individual[:-1], individual[1:])` -/
def adjacent (x : List α) : List (α × α) := x.zip x.tail

/-- `enumerate(l)` starting at `k` -/
def enumFrom : Nat → List α → List (Nat × α)
  | _, [] => []
  | k, a :: t => (k, a) :: enumFrom (k + 1) t

/-- the float a Python `int` becomes in mixed arithmetic -/
def nat (n : Nat) : α := RealLike.ofNat n

/-! ### unimodal -/

/-- `rand` (`__init__.py:27-43`): f(x) = random(0,1) — the next draw of the tape, whatever the individual;
`none` when the tape is exhausted. -/
def rand (_x : List α) : List α → Option (α × List α)
  | [] => none
  | r :: rest => some (r, rest)

/-- `plane` (`__init__.py:46-62`): f(x) = x₀. -/
def plane : List α → Option α
  | [] => none
  | x0 :: _ => some x0

/-- `sphere` (`:65-81`): f(x) = Σ xᵢ². -/
def sphere (x : List α) : α := sum (x.map fun g => g * g)

/-- `cigar` (`:84-100`): f(x) = x₀² + 10⁶ Σ_{i≥1} xᵢ². -/
def cigar : List α → Option α
  | [] => none
  | x0 :: t => some (sq x0 + nat 1000000 * sum (t.map fun g => g * g))

/-- `rosenbrock` (`:103-123`): f(x) = Σ (1-xᵢ)² + 100 (xᵢ₊₁ - xᵢ²)².
(The source writes `100*(x*x-y)**2 + (1.-x)**2`; float `+` is commutative and `(a-b)² = (b-a)²`
bitwise, so the published order is kept.) -/
def rosenbrock (x : List α) : α :=
  sum ((adjacent x).map fun p => sq (1 - p.1) + 100 * sq (p.2 - p.1 * p.1))

/-- `h1` (`:126-154`): (sin²(x₁ - x₂/8) + sin²(x₂ + x₁/8)) / (√((x₁-8.6998)² + (x₂-6.7665)²) + 1). -/
def h1 : List α → Option α
  | x0 :: x1 :: _ =>
    let num := sq (sin (x0 - x1 / 8)) + sq (sin (x1 + x0 / 8))
    let den := sqrt (sq (x0 - dec 86998 10000) + sq (x1 - dec 67665 10000)) + 1
    some (num / den)
  | _ => none

/-! ### multimodal -/

/-- `ackley` (`:158-182`): 20 - 20 exp(-0.2 √(1/N Σxᵢ²)) + e - exp(1/N Σcos(2πxᵢ)); `N = 0`
divides by zero. -/
def ackley (x : List α) : Option α :=
  if x.isEmpty then none else
    let n : α := nat x.length
    some (20 - 20 * exp (dec (-2) 10 * sqrt (1 / n * sum (x.map fun v => sq v)))
          + exp 1 - exp (1 / n * sum (x.map fun v => cos (2 * pi * v))))

/-- `bohachevsky` (`:185-208`): Σ (xᵢ² + 2xᵢ₊₁² - 0.3cos(3πxᵢ) - 0.4cos(4πxᵢ₊₁) + 0.7). -/
def bohachevsky (x : List α) : α :=
  sum ((adjacent x).map fun p =>
    sq p.1 + 2 * sq p.2 - dec 3 10 * cos (3 * pi * p.1) - dec 4 10 * cos (4 * pi * p.2) + dec 7 10)

/-- `griewank` (`:211-234`): 1/4000 Σxᵢ² - Π cos(xᵢ/√i) + 1  (i from 1). -/
def griewank (x : List α) : α :=
  dec 1 4000 * sum (x.map fun v => sq v)
    - prod 1 ((enumFrom 0 x).map fun p => cos (p.2 / sqrt (nat p.1 + 1))) + 1

/-- `rastrigin` (`:237-257`): 10N + Σ (xᵢ² - 10cos(2πxᵢ)). -/
def rastrigin (x : List α) : α :=
  nat (10 * x.length) + sum (x.map fun g => g * g - 10 * cos (2 * pi * g))

/-- `rastrigin_scaled` (`:260-271`): 10N + Σ (10^((i-1)/(N-1)) xᵢ)² - 10cos(2π 10^((i-1)/(N-1)) xᵢ);
`N = 1` divides by zero. -/
def rastriginScaled (x : List α) : Option α :=
  let N := x.length
  if N = 1 then none else
    some (nat (10 * N) + sum ((enumFrom 0 x).map fun p =>
      let s : α := pow 10 (RealLike.ofRatio p.1 (N - 1))
      sq (s * p.2) - 10 * cos (2 * pi * s * p.2)))

/-- `rastrigin_skew` (`:274-292`): 10N + Σ (yᵢ² - 10cos(2πyᵢ)), yᵢ = 10xᵢ if xᵢ > 0 else xᵢ
(Hansen & Kern 2004; the docstring prints `cos(2πxᵢ)` — the code and the paper use `yᵢ`). -/
def rastriginSkew (x : List α) : α :=
  nat (10 * x.length) + sum (x.map fun v =>
    let y := if 0 < v then 10 * v else v
    sq y - 10 * cos (2 * pi * y))

/-- `schaffer` (`:295-318`): Σ (xᵢ²+xᵢ₊₁²)^0.25 · (sin²(50 (xᵢ²+xᵢ₊₁²)^0.1) + 1). -/
def schaffer (x : List α) : α :=
  sum ((adjacent x).map fun p =>
    let r := sq p.1 + sq p.2
    pow r (dec 25 100) * (sq (sin (50 * pow r (dec 1 10))) + 1))

/-- `schwefel` (`:321-344`): 418.9828872724339·N - Σ xᵢ sin(√|xᵢ|). -/
def schwefel (x : List α) : α :=
  dec 4189828872724339 10000000000000 * nat x.length
    - sum (x.map fun v => v * sin (sqrt (RealLike.abs v)))

/-- `himmelblau` (`:347-371`): (x₁² + x₂ - 11)² + (x₁ + x₂² - 7)². -/
def himmelblau : List α → Option α
  | x0 :: x1 :: _ => some (sq (x0 * x0 + x1 - 11) + sq (x0 + x1 * x1 - 7))
  | _ => none

/-- one Shekel term `1 / (cᵢ + Σⱼ (xⱼ - aᵢⱼ)²)`; `none` when the row is longer than the individual
(`individual[j]` raises IndexError). -/
def shekelTerm (x : List α) (row : List α) (ci : α) : Option α :=
  if x.length < row.length then none else
    some (1 / (ci + sum ((x.zip row).map fun p => sq (p.1 - p.2))))

/-- `shekel` (`:374-394`): Σᵢ 1/(cᵢ + Σⱼ (xⱼ - aᵢⱼ)²) over `i in range(len(c))`; `a[i]` must exist. -/
def shekel (x : List α) (a : List (List α)) (c : List α) : Option α :=
  if a.length < c.length then none else
    ((c.zip a).mapM fun p => shekelTerm x p.2 p.1).map sum

/-! ### symbolic-regression targets (`gp.py`) -/

/-- `kotanchek` (`gp.py:19-31`): e^{-(x₁-1)²} / (3.2 + (x₂-2.5)²). -/
def kotanchek : List α → Option α
  | x0 :: x1 :: _ => some (exp (-(sq (x0 - 1))) / (dec 32 10 + sq (x1 - dec 25 10)))
  | _ => none

/-- the common factor e^{-x} x³ cos x sin x (cos x sin²x - 1) -/
def salustowiczCore (x : α) : α :=
  exp (-x) * npow x 3 * cos x * sin x * (cos x * sq (sin x) - 1)

/-- `salustowicz_1d` (`gp.py:34-46`). -/
def salustowicz1d : List α → Option α
  | x0 :: _ => some (salustowiczCore x0)
  | _ => none

/-- `salustowicz_2d` (`gp.py:49-61`): … · (x₂ - 5). -/
def salustowicz2d : List α → Option α
  | x0 :: x1 :: _ => some (salustowiczCore x0 * (x1 - 5))
  | _ => none

/-- `unwrapped_ball` (`gp.py:64-76`): 10 / (5 + Σ (xᵢ-3)²). -/
def unwrappedBall (x : List α) : α := 10 / (5 + sum (x.map fun d => sq (d - 3)))

/-- `rational_polynomial` (`gp.py:79-91`): 30 (x₁-1)(x₃-1) / (x₂² (x₁-10)); a zero divisor raises
ZeroDivisionError. -/
def rationalPolynomial : List α → Option α
  | x0 :: x1 :: x2 :: _ =>
    let den := sq x1 * (x0 - 10)
    if den < 0 ∨ 0 < den then some (30 * (x0 - 1) * (x2 - 1) / den) else none
  | _ => none

/-- `sin_cos` (`gp.py:94-106`): 6 sin(x₁) cos(x₂). -/
def sinCos : List α → Option α
  | x0 :: x1 :: _ => some (6 * sin x0 * cos x1)
  | _ => none

/-- `ripple` (`gp.py:109-121`): (x₁-3)(x₂-3) + 2 sin((x₁-4)(x₂-4)). -/
def ripple : List α → Option α
  | x0 :: x1 :: _ => some ((x0 - 3) * (x1 - 3) + 2 * sin ((x0 - 4) * (x1 - 4)))
  | _ => none

/-- `rational_polynomial2` (`gp.py:124-136`): ((x₁-3)⁴ + (x₂-3)³ - (x₂-3)) / ((x₂-2)⁴ + 10). -/
def rationalPolynomial2 : List α → Option α
  | x0 :: x1 :: _ =>
    some ((npow (x0 - 3) 4 + npow (x1 - 3) 3 - (x1 - 3)) / (npow (x1 - 2) 4 + 10))
  | _ => none

end Bench
