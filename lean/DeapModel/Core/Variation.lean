/-
C02 — model of `deap/algorithms.py` `varAnd` (lines 33-82) and `varOr` (lines 192-245), as the
code is after the `fix:` commit 99ea53d (varOr's reproduction branch clones).

Import-free and executable.

* Individuals live in a heap `oid ↦ (genome, fitness)`; `toolbox.clone` (= `copy.deepcopy`)
  allocates a fresh oid carrying an equal genome and an equal fitness.
* `toolbox.mate` / `toolbox.mutate` are PARAMETERS (`Ops σ`): heap transformers with a private
  state `σ` (their own random draws).  Theorems quantify over every operator pair that meets
  `OpContract` (returns its arguments or objects it allocated itself, writes only those).
* The random draws of `varAnd`/`varOr` themselves are explicit decision arguments
  (`mate? : Bool` per pair, `mutate? : Bool` per index; `cx i j | mutn i | rep i` per offspring);
  `decodeAnd` / `decodeOr` compute these decisions from the recorded `random()` doubles with the
  IEEE comparison the code performs (`op_choice < cxpb`, `op_choice < cxpb + mutpb`).
* `St.log` is ghost state: the sequence of clone/mate/mutate calls, printed by the driver and
  compared with the recorded calls of the real toolbox.
-/
namespace Variation

/-- What the property can see of an individual: its genotype and its fitness
(`none` = `fitness.valid` is `False`, i.e. `wvalues == ()`). -/
structure Obj where
  genome : List Int
  fit : Option (List Int)
  /-- the instance attribute `history_index` that `tools.History.update` stamps on an individual
  (`none` = the attribute is absent); part of the individual's `__dict__`, so `toolbox.clone` carries it forward -/
  hidx : Option Nat := none
deriving DecidableEq, Repr, Inhabited

abbrev Heap := Nat → Obj

def Heap.set (h : Heap) (o : Nat) (x : Obj) : Heap := fun p => if p = o then x else h p

/-- `del ind.fitness.values`
(`@[inline]`: compiled code builds the new object once, at the deletion — a heap-valued function is otherwise
compiled with the looked-up oid as an extra argument and would redo `h o` at every later lookup.) -/
@[inline] def delFit (h : Heap) (o : Nat) : Heap := h.set o { h o with fit := none }

inductive Ev where
  | clone (src new : Nat)
  | mate (a b : Nat)
  | mutate (a : Nat)
deriving DecidableEq, Repr

structure St where
  heap : Heap
  /-- fresh-oid counter: every oid `< next` is allocated, every oid `≥ next` is not -/
  next : Nat
  log : List Ev := []

/-- `toolbox.clone(ind)`: a new object with an equal genome and an equal fitness. -/
def clone (s : St) (p : Nat) : St × Nat :=
  ({ heap := s.heap.set s.next (s.heap p), next := s.next + 1, log := s.log ++ [Ev.clone p s.next] },
   s.next)

structure MateRes (σ : Type) where
  tape : σ
  heap : Heap
  next : Nat
  fst : Nat
  snd : Nat

structure MutRes (σ : Type) where
  tape : σ
  heap : Heap
  next : Nat
  ret : Nat

/-- The registered operators: heap transformers `(state, heap, fresh-oid counter, arguments)` that return
(references to) individuals — the objects they were given (in-place operators, all of `deap.tools`) or
objects they allocated themselves (copy-and-return operators; `gp.staticLimit`, which hands back a copy of
the parent made before the operator ran). -/
structure Ops (σ : Type) where
  mate : σ → Heap → Nat → Nat → Nat → MateRes σ
  mutate : σ → Heap → Nat → Nat → MutRes σ

/-- What is assumed of a registered operator pair.  An operator returns objects that are its arguments or
that it allocated itself (oid ≥ the counter it was called with), two different individuals when it is
given two, and it writes only its arguments and what it allocated.  The genomes it produces and whatever
it does to the fitness of those objects are arbitrary. -/
structure OpContract {σ : Type} (ops : Ops σ) : Prop where
  mate_next : ∀ t h n a b, n ≤ (ops.mate t h n a b).next
  mate_fst : ∀ t h n a b, (ops.mate t h n a b).fst = a ∨ (ops.mate t h n a b).fst = b ∨
    (n ≤ (ops.mate t h n a b).fst ∧ (ops.mate t h n a b).fst < (ops.mate t h n a b).next)
  mate_snd : ∀ t h n a b, (ops.mate t h n a b).snd = a ∨ (ops.mate t h n a b).snd = b ∨
    (n ≤ (ops.mate t h n a b).snd ∧ (ops.mate t h n a b).snd < (ops.mate t h n a b).next)
  mate_distinct : ∀ t h n a b, a ≠ b → (ops.mate t h n a b).fst ≠ (ops.mate t h n a b).snd
  mate_frame : ∀ t h n a b o, o ≠ a → o ≠ b → o < n → (ops.mate t h n a b).heap o = h o
  mutate_next : ∀ t h n a, n ≤ (ops.mutate t h n a).next
  mutate_ret : ∀ t h n a, (ops.mutate t h n a).ret = a ∨
    (n ≤ (ops.mutate t h n a).ret ∧ (ops.mutate t h n a).ret < (ops.mutate t h n a).next)
  mutate_frame : ∀ t h n a o, o ≠ a → o < n → (ops.mutate t h n a).heap o = h o

structure Res (σ : Type) where
  tape : σ
  st : St
  off : List Nat

/-! ### varAnd -/

/-- line 68: `offspring = [toolbox.clone(ind) for ind in population]` -/
def cloneAll : St → List Nat → St × List Nat
  | s, [] => (s, [])
  | s, p :: ps =>
    let c := clone s p
    let r := cloneAll c.1 ps
    (r.1, c.2 :: r.2)

/-- lines 71-75: `for i in range(1, len(offspring), 2)`: one decision per adjacent pair
`(offspring[i-1], offspring[i])`; a trailing single individual is not visited. -/
def mateLoop {σ : Type} (ops : Ops σ) : σ → St → List Nat → List Bool → Option (Res σ)
  | t, s, a :: b :: rest, d :: ds =>
    if d then                                                   -- random.random() < cxpb
      let r := ops.mate t s.heap s.next a b                     -- toolbox.mate(offspring[i-1], offspring[i])
      -- offspring[i-1], offspring[i] = <returned pair>; del both fitness.values (first, then second)
      -- — of the RETURNED objects, which need not be the ones passed in
      let s1 : St := { heap := delFit (delFit r.heap r.fst) r.snd, next := r.next, log := s.log ++ [Ev.mate a b] }
      match mateLoop ops r.tape s1 rest ds with
      | none => none
      | some x => some { x with off := r.fst :: r.snd :: x.off }
    else
      match mateLoop ops t s rest ds with
      | none => none
      | some x => some { x with off := a :: b :: x.off }
  | _, _, _ :: _ :: _, [] => none                               -- decision tape exhausted
  | t, s, l, _ => some ⟨t, s, l⟩                                -- fewer than two left: range exhausted

/-- lines 77-80: `for i in range(len(offspring))`. -/
def mutLoop {σ : Type} (ops : Ops σ) : σ → St → List Nat → List Bool → Option (Res σ)
  | t, s, [], _ => some ⟨t, s, []⟩
  | _, _, _ :: _, [] => none
  | t, s, a :: rest, d :: ds =>
    if d then                                                   -- random.random() < mutpb
      let r := ops.mutate t s.heap s.next a                     -- offspring[i], = toolbox.mutate(offspring[i])
      let s1 : St := { heap := delFit r.heap r.ret, next := r.next, log := s.log ++ [Ev.mutate a] }
      match mutLoop ops r.tape s1 rest ds with
      | none => none
      | some x => some { x with off := r.ret :: x.off }
    else
      match mutLoop ops t s rest ds with
      | none => none
      | some x => some { x with off := a :: x.off }

/-- `varAnd(population, toolbox, cxpb, mutpb)` with the comparisons `random() < cxpb` /
`random() < mutpb` already taken: `mateD` has one entry per adjacent pair, `mutD` one per index. -/
def varAnd {σ : Type} (ops : Ops σ) (t : σ) (s : St) (pop : List Nat) (mateD mutD : List Bool) :
    Option (Res σ) :=
  let c := cloneAll s pop
  match mateLoop ops t c.1 c.2 mateD with
  | none => none
  | some m => mutLoop ops m.tape m.st m.off mutD

/-- "offspring `k` went through the crossover": it belongs to a visited pair whose decision was
`true` (`n` = population size; pair index `k / 2`, `n / 2` pairs are visited). -/
def wasMated (mateD : List Bool) (n k : Nat) : Bool :=
  decide (k / 2 < n / 2) && (mateD[k / 2]? == some true)

/-! ### varOr -/

inductive Choice where
  | cx (i j : Nat)      -- op_choice < cxpb; random.sample(population, 2) chose positions i, j
  | mutn (i : Nat)      -- op_choice < cxpb + mutpb; random.choice chose position i
  | rep (i : Nat)       -- otherwise; random.choice chose position i
deriving DecidableEq, Repr

/-- One iteration of the `for _ in range(lambda_)` loop, lines 231-243. -/
def varOrStep {σ : Type} (ops : Ops σ) (pop : List Nat) (t : σ) (s : St) : Choice → Option (σ × St × Nat)
  | .cx i j =>
    match pop[i]?, pop[j]? with
    | some p, some q =>
      let c1 := clone s p                                       -- [toolbox.clone(i) for i in sample]
      let c2 := clone c1.1 q
      let r := ops.mate t c2.1.heap c2.1.next c1.2 c2.2         -- ind1, ind2 = toolbox.mate(ind1, ind2)
      -- del ind1.fitness.values; offspring.append(ind1); ind2 is dropped
      some (r.tape, { heap := delFit r.heap r.fst, next := r.next, log := c2.1.log ++ [Ev.mate c1.2 c2.2] }, r.fst)
    | _, _ => none
  | .mutn i =>
    match pop[i]? with
    | some p =>
      let c := clone s p                                        -- toolbox.clone(random.choice(population))
      let r := ops.mutate t c.1.heap c.1.next c.2               -- ind, = toolbox.mutate(ind)
      some (r.tape, { heap := delFit r.heap r.ret, next := r.next, log := c.1.log ++ [Ev.mutate c.2] }, r.ret)
    | none => none
  | .rep i =>
    match pop[i]? with
    | some p =>
      let c := clone s p                                        -- offspring.append(toolbox.clone(choice))
      some (t, c.1, c.2)
    | none => none

def varOrLoop {σ : Type} (ops : Ops σ) (pop : List Nat) : σ → St → List Choice → Option (Res σ)
  | t, s, [] => some ⟨t, s, []⟩
  | t, s, c :: cs =>
    match varOrStep ops pop t s c with
    | none => none
    | some (t1, s1, o) =>
      match varOrLoop ops pop t1 s1 cs with
      | none => none
      | some x => some { x with off := o :: x.off }

/-- `varOr(population, toolbox, lambda_, cxpb, mutpb)` with the branch of every iteration and the
positions chosen by `random.sample` / `random.choice` given as `choices` (exactly `lambda_` of them). -/
def varOr {σ : Type} (ops : Ops σ) (t : σ) (s : St) (pop : List Nat) (lam : Nat) (choices : List Choice) :
    Option (Res σ) :=
  if choices.length = lam then varOrLoop ops pop t s choices else none

/-! ### The float branch (IEEE replay) -/

/-- The recorded random calls of `varOr`. -/
inductive Draw where
  | rnd (x : Float)           -- random.random()
  | sample (i j : Nat)        -- random.sample(population, 2) → positions
  | choice (i : Nat)          -- random.choice(population) → position

/-- lines 231-241: `if op_choice < cxpb … elif op_choice < cxpb + mutpb … else`. -/
def branch (r cxpb mutpb : Float) : Nat :=
  if r < cxpb then 0 else if r < cxpb + mutpb then 1 else 2

/-- line 226: `assert (cxpb + mutpb) <= 1.0`. -/
def orAssert (cxpb mutpb : Float) : Bool := cxpb + mutpb <= 1.0

/-- Decisions of `lam` iterations of `varOr` from the recorded draws, in call order
(`random()`, then `sample` or `choice`).  `none`: the tape does not fit (wrong kind, too short,
left-over draws, or a `sample` of two equal positions, which `random.sample` cannot produce). -/
def decodeOr (cxpb mutpb : Float) : Nat → List Draw → Option (List Choice)
  | 0, [] => some []
  | 0, _ :: _ => none
  | n + 1, Draw.rnd r :: rest =>
    match branch r cxpb mutpb, rest with
    | 0, Draw.sample i j :: rest' =>
      if i = j then none else (decodeOr cxpb mutpb n rest').map (Choice.cx i j :: ·)
    | 1, Draw.choice i :: rest' => (decodeOr cxpb mutpb n rest').map (Choice.mutn i :: ·)
    | 2, Draw.choice i :: rest' => (decodeOr cxpb mutpb n rest').map (Choice.rep i :: ·)
    | _, _ => none
  | _ + 1, _ => none

/-- Decisions of `varAnd` on a population of size `n` from the recorded `random()` results:
first `n / 2` comparisons with `cxpb`, then `n` comparisons with `mutpb`; nothing may be left. -/
def decodeAnd (cxpb mutpb : Float) (n : Nat) (draws : List Float) : Option (List Bool × List Bool) :=
  if draws.length = n / 2 + n then
    some ((draws.take (n / 2)).map (fun r => decide (r < cxpb)),
          (draws.drop (n / 2)).map (fun r => decide (r < mutpb)))
  else none

end Variation
