/-
C20 — the evaluation-transforming decorators of `deap/benchmarks/tools.py:26-277`
(`translate`, `rotate`, `noise`, `scale`, `bound`).  The wrapped function is a parameter; the
`…Arg` functions are the list handed to it.  Polymorphic in `RealLike α`.  Import-free.
-/
import DeapModel.Core.Scalar

namespace BenchTools
open RealLike

variable {α : Type} [RealLike α] {β : Type}

/-- `translate.__call__.wrapper` (`tools.py:60-65`): `[v - t for v, t in zip(individual, self.vector)]`. -/
def translateArg (vector x : List α) : List α := (x.zip vector).map fun p => p.1 - p.2

def translate (f : List α → β) (vector x : List α) : β := f (translateArg vector x)

/-- `scale.__init__` (`tools.py:206-209`): `tuple(1.0 / f for f in factor)`; a zero factor raises
ZeroDivisionError. -/
def scaleFactor (factor : List α) : Option (List α) :=
  factor.mapM fun f => if f < 0 ∨ 0 < f then some (1 / f) else none

/-- `scale.__call__.wrapper` (`:214-216`): `[v * f for v, f in zip(individual, self.factor)]`. -/
def scaleArg (factor x : List α) : Option (List α) :=
  (scaleFactor factor).map fun inv => (x.zip inv).map fun p => p.1 * p.2

def scale (f : List α → β) (factor x : List α) : Option β := (scaleArg factor x).map f

/-- `numpy.dot(matrix, individual)` for a 2-D matrix and a 1-D vector: one inner product per row;
shapes must agree. -/
def matVec (m : List (List α)) (x : List α) : Option (List α) :=
  m.mapM fun row =>
    if row.length = x.length then some (sum ((row.zip x).map fun p => p.1 * p.2)) else none

/-- `rotate` (`tools.py:100-115`): `__init__` stores `numpy.linalg.inv(matrix)` (the parameter `inv`,
trusted with the contract `inv R · R = I`), the wrapper hands `numpy.dot(self.matrix, individual)`
to the function. -/
def rotateArg (inv : List (List α) → List (List α)) (R : List (List α)) (x : List α) : Option (List α) :=
  matVec (inv R) x

def rotate (f : List α → β) (inv : List (List α) → List (List α)) (R : List (List α)) (x : List α) :
    Option β := (rotateArg inv R x).map f

/-- the stack `@translate(t) @rotate(R) @scale(f)` (outermost first): each wrapper hands its list to the
next one, so the innermost function receives `scale⁻¹(rotate⁻¹(translate⁻¹ x))`. -/
def stackArg (vector : List α) (minv : List (List α)) (factor : List α) (x : List α) : Option (List α) :=
  match matVec minv (translateArg vector x) with
  | none => none
  | some y => scaleArg factor y

/-- `noise.rand_funcs` (`tools.py:150-154`): one callable (or `None`) repeated for every objective,
or a tuple with one entry per objective; the flag says "is a function" (not `None`). -/
inductive NoiseSpec where
  | rep (hasFn : Bool)
  | each (fs : List Bool)

def NoiseSpec.flags (n : Nat) : NoiseSpec → List Bool
  | .rep b => List.replicate n b
  | .each fs => fs

/-- the loop `for r, f in zip(result, self.rand_funcs)` (`:161-166`): `r` or `r + f()`, every call
of a noise function takes the next draw of the tape. -/
def noiseGo : List (α × Bool) → List α → Option (List α × List α)
  | [], tape => some ([], tape)
  | (r, false) :: t, tape => (noiseGo t tape).map fun o => (r :: o.1, o.2)
  | (_, true) :: _, [] => none
  | (r, true) :: t, d :: tape => (noiseGo t tape).map fun o => ((r + d) :: o.1, o.2)

/-- `noise.__call__.wrapper` applied to the wrapped function's result. -/
def noise (spec : NoiseSpec) (result : List α) (tape : List α) : Option (List α × List α) :=
  noiseGo (result.zip (spec.flags result.length)) tape

/-- `bound` (`tools.py:224-264`): `_clip`, `_wrap` and `_mirror` all `return individual`
unchanged in this snapshot, so the decorated operator's result is passed through. -/
inductive BoundKind where
  | mirror | wrap | clip

def bound {γ : Type} (_kind : BoundKind) (individuals : γ) : γ := individuals

/-! ### histories: a decorated function re-parameterised through its setter

`evaluate = translate(v0)(f)`, then any interleaving of `evaluate.translate(v)` and `evaluate(x)`
(likewise `rotate`, `scale`, and the three of them stacked).  The decorator object holds ONE current
parameter; a setter call replaces it (`tools.py:51-63, 101-117, 200-214`), whatever object the caller
passes — a new one, the one passed before, or the one passed before with new contents — and every
evaluation uses the parameter installed last. -/

inductive HOp (P X : Type) where
  | set (p : P)
  | call (x : X)

/-- `install p` = what the setter stores for the argument `p` (`none`: the setter raises, e.g. a zero
scale factor); `apply s x` = what the wrapped function receives under the stored parameter `s`.
Returns the list handed to the wrapped function by every call, in order. -/
def runHist {P S X Y : Type} (install : P → Option S) (apply : S → X → Option Y) :
    S → List (HOp P X) → Option (List Y)
  | _, [] => some []
  | _, .set p :: ops =>
    match install p with
    | none => none
    | some s' => runHist install apply s' ops
  | s, .call x :: ops =>
    match apply s x with
    | none => none
    | some y =>
      match runHist install apply s ops with
      | none => none
      | some ys => some (y :: ys)

/-- the stored parameter after a history -/
def stateAfter {P S X : Type} (install : P → Option S) : S → List (HOp P X) → Option S
  | s, [] => some s
  | _, .set p :: ops =>
    match install p with
    | none => none
    | some s' => stateAfter install s' ops
  | s, .call _ :: ops => stateAfter install s ops

def translateHist (v0 : List α) (ops : List (HOp (List α) (List α))) : Option (List (List α)) :=
  runHist some (fun v x => some (translateArg v x)) v0 ops

/-- the stored parameter is the tuple of reciprocals -/
def scaleHist (f0 : List α) (ops : List (HOp (List α) (List α))) : Option (List (List α)) :=
  match scaleFactor f0 with
  | none => none
  | some r0 => runHist scaleFactor (fun r x => some ((x.zip r).map fun p => p.1 * p.2)) r0 ops

/-- the stored parameter is `inv matrix` -/
def rotateHist (inv : List (List α) → List (List α)) (R0 : List (List α))
    (ops : List (HOp (List (List α)) (List α))) : Option (List (List α)) :=
  runHist (fun R => some (inv R)) matVec (inv R0) ops

/-- setters of the stack `@translate @rotate @scale` -/
inductive StackParam (α : Type) where
  | t (v : List α)
  | r (R : List (List α))
  | s (f : List α)

structure StackState (α : Type) where
  vector : List α
  minv : List (List α)
  recip : List α

def stackInstall (inv : List (List α) → List (List α)) (st : StackState α) : StackParam α → Option (StackState α)
  | .t v => some { st with vector := v }
  | .r R => some { st with minv := inv R }
  | .s f => (scaleFactor f).map fun r => { st with recip := r }

def stackApply (st : StackState α) (x : List α) : Option (List α) :=
  (matVec st.minv (translateArg st.vector x)).map fun y => (y.zip st.recip).map fun p => p.1 * p.2

/-- histories on the stacked function: every setter changes its own decorator's parameter only -/
def stackHist (inv : List (List α) → List (List α)) : StackState α → List (HOp (StackParam α) (List α)) →
    Option (List (List α))
  | _, [] => some []
  | st, .set p :: ops =>
    match stackInstall inv st p with
    | none => none
    | some st' => stackHist inv st' ops
  | st, .call x :: ops =>
    match stackApply st x with
    | none => none
    | some y =>
      match stackHist inv st ops with
      | none => none
      | some ys => some (y :: ys)

end BenchTools
