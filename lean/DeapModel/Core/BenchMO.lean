/-
C20 — multi-objective benchmarks (`deap/benchmarks/__init__.py:398-736`), from their published
definitions, polymorphic in `RealLike α`.  `none` = input rejected by the real code
(IndexError / ZeroDivisionError for structural reasons).  Import-free.
-/
import DeapModel.Core.Bench

namespace Bench
open RealLike

variable {α : Type} [RealLike α]

/-- `kursawe` (`:398-410`): f₁ = Σ -10 e^{-0.2 √(xᵢ²+xᵢ₊₁²)},  f₂ = Σ |xᵢ|^0.8 + 5 sin(xᵢ³). -/
def kursawe (x : List α) : List α :=
  [ sum ((adjacent x).map fun p => (-(10 : α)) * exp (dec (-2) 10 * sqrt (p.1 * p.1 + p.2 * p.2))),
    sum (x.map fun v => pow (RealLike.abs v) (dec 8 10) + 5 * sin (v * v * v)) ]

/-- `schaffer_mo` (`:413-423`): (x₁², (x₁-2)²). -/
def schafferMo : List α → Option (List α)
  | x0 :: _ => some [sq x0, sq (x0 - 2)]
  | [] => none

/-! ### ZDT: f₁, g and f₂ = g · h(f₁, g) -/

/-- g of ZDT1/2/3: 1 + 9/(n-1) Σ_{i≥2} xᵢ  (source order `1.0 + 9.0*sum(ind[1:])/(len(ind)-1)`). -/
def zdtG (x : List α) : α := 1 + 9 * sum x.tail / nat (x.length - 1)

def zdt1H (f1 g : α) : α := 1 - sqrt (f1 / g)
def zdt2H (f1 g : α) : α := 1 - sq (f1 / g)
def zdt3H (f1 g : α) : α := 1 - sqrt (f1 / g) - f1 / g * sin (10 * pi * f1)

/-- `zdt1` (`:426-438`); needs n ≥ 2 (`len-1` divides). -/
def zdt1 : List α → Option (List α)
  | x0 :: x1 :: t => let g := zdtG (x0 :: x1 :: t); some [x0, g * zdt1H x0 g]
  | _ => none

/-- `zdt2` (`:441-455`). -/
def zdt2 : List α → Option (List α)
  | x0 :: x1 :: t => let g := zdtG (x0 :: x1 :: t); some [x0, g * zdt2H x0 g]
  | _ => none

/-- `zdt3` (`:458-472`). -/
def zdt3 : List α → Option (List α)
  | x0 :: x1 :: t => let g := zdtG (x0 :: x1 :: t); some [x0, g * zdt3H x0 g]
  | _ => none

/-- g of ZDT4: 1 + 10(n-1) + Σ_{i≥2} (xᵢ² - 10cos(4πxᵢ)). -/
def zdt4G (x : List α) : α :=
  nat (1 + 10 * (x.length - 1)) + sum (x.tail.map fun v => sq v - 10 * cos (4 * pi * v))

/-- `zdt4` (`:475-488`); n ≥ 1. -/
def zdt4 : List α → Option (List α)
  | x0 :: t => let g := zdt4G (x0 :: t); some [x0, g * zdt1H x0 g]
  | [] => none

/-- g of ZDT6: 1 + 9 [(Σ_{i≥2} xᵢ)/(n-1)]^0.25. -/
def zdt6G (x : List α) : α := 1 + 9 * pow (sum x.tail / nat (x.length - 1)) (dec 25 100)

/-- f₁ of ZDT6: 1 - exp(-4x₁) sin⁶(6πx₁). -/
def zdt6F1 (x0 : α) : α := 1 - exp (-(4 : α) * x0) * npow (sin (6 * pi * x0)) 6

/-- `zdt6` (`:491-504`); n ≥ 2. -/
def zdt6 : List α → Option (List α)
  | x0 :: x1 :: t =>
    let g := zdt6G (x0 :: x1 :: t); let f1 := zdt6F1 x0; some [f1, g * zdt2H f1 g]
  | _ => none

/-! ### DTLZ -/

/-- The common shape of DTLZ1–6: with position terms `ps = [(c₀,s₀), …, (c_{M-2},s_{M-2})]`,
`f₁ = pre·(Π cᵢ)·post`, and for `m = M-2 … 0` the next objective is `pre·(Π_{i<m} cᵢ)·s_m·post`
(`reduce(mul, …, 1)`, then the factors in source order).  One left-to-right pass: `acc` is the
running product `Π_{i<m} cᵢ`, every step prepends objective `m`, so the list ends up in the
source's order `m = M-2, …, 0`. -/
def frontStep (pre post : α) (st : α × List α) (p : α × α) : α × List α :=
  (st.1 * p.1, (pre * st.1 * p.2 * post) :: st.2)

def front (pre post : α) (ps : List (α × α)) : List α :=
  let r := ps.foldl (frontStep pre post) (1, [])
  (pre * r.1 * post) :: r.2

/-- The guard shared by the family: `obj ≥ 1` and `individual[m]` exists for `m ≤ obj-2`. -/
def dtlzOk (n M : Nat) : Bool := decide (1 ≤ M ∧ M - 1 ≤ n)

/-- g of DTLZ1/3: 100 (|x_m| + Σ ((xᵢ-0.5)² - cos(20π(xᵢ-0.5)))). -/
def dtlzG1 (xm : List α) : α :=
  100 * (nat xm.length + sum (xm.map fun v => sq (v - dec 5 10) - cos (20 * pi * (v - dec 5 10))))

/-- g of DTLZ2/4/5: Σ (xᵢ-0.5)². -/
def dtlzG2 (xm : List α) : α := sum (xm.map fun v => sq (v - dec 5 10))

/-- `dtlz1` (`:507-533`): f = ½(1+g)·(x₁…x_{M-1}), …, ½(1+g)(1-x₁). -/
def dtlz1 (x : List α) (M : Nat) : Option (List α) :=
  if dtlzOk x.length M then
    let g := dtlzG1 (x.drop (M - 1))
    some (front (dec 5 10) (1 + g) ((x.take (M - 1)).map fun v => (v, 1 - v)))
  else none

/-- `dtlz2` (`:536-562`): (1+g) Π cos(½πxᵢ), …, (1+g) sin(½πx₁). -/
def dtlz2 (x : List α) (M : Nat) : Option (List α) :=
  if dtlzOk x.length M then
    let g := dtlzG2 (x.drop (M - 1))
    some (front (1 + g) 1 ((x.take (M - 1)).map fun v =>
      (cos (dec 5 10 * v * pi), sin (dec 5 10 * v * pi))))
  else none

/-- `dtlz3` (`:565-590`): DTLZ2's shape with DTLZ1's g. -/
def dtlz3 (x : List α) (M : Nat) : Option (List α) :=
  if dtlzOk x.length M then
    let g := dtlzG1 (x.drop (M - 1))
    some (front (1 + g) 1 ((x.take (M - 1)).map fun v =>
      (cos (dec 5 10 * v * pi), sin (dec 5 10 * v * pi))))
  else none

/-- `dtlz4` (`:593-620`): DTLZ2 on xᵢ^α. -/
def dtlz4 (x : List α) (M : Nat) (alpha : α) : Option (List α) :=
  if dtlzOk x.length M then
    let g := dtlzG2 (x.drop (M - 1))
    some (front (1 + g) 1 ((x.take (M - 1)).map fun v =>
      (cos (dec 5 10 * pow v alpha * pi), sin (dec 5 10 * pow v alpha * pi))))
  else none

/-- θ of DTLZ5/6: π/(4(1+g)) · (1 + 2 g x). -/
def dtlzTheta (g v : α) : α := pi / (4 * (1 + g)) * (1 + 2 * g * v)

/-- the angle list of DTLZ5/6: θ₁ = π/2·x₁, θᵢ = θ(xᵢ) for the other position variables
`ind[1:n_objs-1]` (the F8 repair). -/
def dtlz56Angles (g : α) (xc : List α) : List (α × α) :=
  match xc with
  | [] => []
  | x0 :: r => (cos (pi / 2 * x0), sin (pi / 2 * x0)) ::
      r.map fun v => (cos (dtlzTheta g v), sin (dtlzTheta g v))

/-- the degenerate call `n_objs = 1` of DTLZ5/6: the single value `(1+g)·cos(π/2·x₁)·1` (the loop
`reversed(range(1, 1))` is empty); `ind[0]` must exist. -/
def dtlz56One (g : α) : List α → Option (List α)
  | [] => none
  | x0 :: _ => some [(1 + g) * cos (pi / 2 * x0) * 1]

/-- `dtlz5` (`:623-641`). -/
def dtlz5 (x : List α) (M : Nat) : Option (List α) :=
  if M = 1 then dtlz56One (dtlzG2 x) x else
  if dtlzOk x.length M ∧ 2 ≤ M then
    let g := dtlzG2 (x.drop (M - 1))
    some (front (1 + g) 1 (dtlz56Angles g (x.take (M - 1))))
  else none

/-- g of DTLZ6: Σ xᵢ^0.1. -/
def dtlzG6 (xm : List α) : α := sum (xm.map fun v => pow v (dec 1 10))

/-- `dtlz6` (`:644-662`). -/
def dtlz6 (x : List α) (M : Nat) : Option (List α) :=
  if M = 1 then dtlz56One (dtlzG6 x) x else
  if dtlzOk x.length M ∧ 2 ≤ M then
    let g := dtlzG6 (x.drop (M - 1))
    some (front (1 + g) 1 (dtlz56Angles g (x.take (M - 1))))
  else none

/-- `dtlz7` (`:665-674`): fᵢ = xᵢ (i < M), f_M = (1+g)(M - Σ fᵢ/(1+g) (1 + sin(3πfᵢ))),
g = 1 + 9/|x_m| Σ x_m; an empty x_m divides by zero. -/
def dtlz7 (x : List α) (M : Nat) : Option (List α) :=
  if 1 ≤ M ∧ M ≤ x.length then
    let xm := x.drop (M - 1)
    let g : α := 1 + 9 / nat xm.length * sum xm
    let fs := x.take (M - 1)
    some (fs ++ [(1 + g) * (nat M - sum (fs.map fun a => a / (1 + g) * (1 + sin (3 * pi * a))))])
  else none

/-! ### other two-objective problems -/

/-- `fonseca` (`:677-690`): 1 - e^{-Σ_{i≤3}(xᵢ ∓ 1/√3)²}. -/
def fonseca (x : List α) : List α :=
  [ 1 - exp (-(sum ((x.take 3).map fun v => sq (v - 1 / sqrt 3)))),
    1 - exp (-(sum ((x.take 3).map fun v => sq (v + 1 / sqrt 3)))) ]

def poloniA1 : α := dec 5 10 * sin 1 - 2 * cos 1 + sin 2 - dec 15 10 * cos 2
def poloniA2 : α := dec 15 10 * sin 1 - cos 1 + 2 * sin 2 - dec 5 10 * cos 2

/-- `poloni` (`:693-716`). -/
def poloni : List α → Option (List α)
  | x1 :: x2 :: _ =>
    let b1 := dec 5 10 * sin x1 - 2 * cos x1 + sin x2 - dec 15 10 * cos x2
    let b2 := dec 15 10 * sin x1 - cos x1 + 2 * sin x2 - dec 5 10 * cos x2
    some [1 + sq (poloniA1 - b1) + sq (poloniA2 - b2), sq (x1 + 3) + sq (x2 + 1)]
  | _ => none

/-- `dent` (`:719-736`): f₁,₂ = ½(√(1+(x₁+x₂)²) + √(1+(x₁-x₂)²) ± (x₁-x₂)) + λ e^{-(x₁-x₂)²}. -/
def dent (lam : α) : List α → Option (List α)
  | x1 :: x2 :: _ =>
    let d := lam * exp (-(sq (x1 - x2)))
    some [ dec 5 10 * (sqrt (1 + sq (x1 + x2)) + sqrt (1 + sq (x1 - x2)) + x1 - x2) + d,
           dec 5 10 * (sqrt (1 + sq (x1 + x2)) + sqrt (1 + sq (x1 - x2)) - x1 + x2) + d ]
  | _ => none

end Bench
