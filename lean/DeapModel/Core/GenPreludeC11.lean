/-
Prelude of the C11 translator tie (harness/py2lean_c11.py): the Python notions the regenerated definitions `Gen.*` of
deap/gp.py (PrimitiveTree methods) are written in.  TRUSTED BASE together with the docstring of py2lean_c11.py.
No Mathlib import (only the model's node record).

  node            `Node` = the model's node record `GpTree.Prim`; `arity x` = `len(args)` as a Python int.
  x[i]            `index`: a negative index counts from the end ONCE; `none` = IndexError.
  x.pop()         `pop`: (last element, the rest); `none` on an empty list.
  [e] * n         `rep`: n ≤ 0 gives [].
  x[-1][1] …      `modLast`: the top frame of a stack is replaced by its mutated version; `none` when the stack is empty.
  p.format(*args) `format`: see py2lean_c11.py.
  self[a:b] = v   `setSlice`: CPython's list slice assignment for step 1 (bounds clipped to [0, len] after adding len to a
                  negative bound once; stop < start means stop = start).
  for             `forM`: left fold that stops at the first exception.
  list(range(n))  `range`;  isinstance(x, Primitive) = `isPrimitive` (the record's kind);  dict with int keys and label values =
                  `Dict` (association list in insertion order), `d[k] = v` = `dictSet` (an existing key keeps its position).
  while           `whileM fuel`: `none` when the fuel runs out (see the docstring: the bound is an assumption).
-/
import DeapModel.Core.GpTree

namespace Gen11

abbrev Node := GpTree.Prim
abbrev Str := List Char
abbrev Slice := Int × Int

def arity (p : Node) : Int := (p.args.length : Int)

def len {α : Type} (l : List α) : Int := (l.length : Int)

def index {α : Type} (l : List α) (i : Int) : Option α :=
  if 0 ≤ i then l[i.toNat]?
  else if 0 ≤ i + (l.length : Int) then l[(i + (l.length : Int)).toNat]?
  else none

def pop {α : Type} (l : List α) : Option (α × List α) :=
  match l.getLast? with
  | none => none
  | some a => some (a, l.dropLast)

def rep {α : Type} (l : List α) (n : Int) : List α := (List.replicate n.toNat l).flatten

def modLast {α : Type} (l : List α) (f : α → α) : Option (List α) :=
  match l.getLast? with
  | none => none
  | some a => some (l.dropLast ++ [f a])

def enumFrom {α : Type} : Int → List α → List (Int × α)
  | _, [] => []
  | i, a :: as => (i, a) :: enumFrom (i + 1) as

def enumerate {α : Type} (l : List α) : List (Int × α) := enumFrom 0 l

/-- `", ".join(args)` -/
def join : List Str → Str
  | [] => []
  | [a] => a
  | a :: b :: rest => a ++ [',', ' '] ++ join (b :: rest)

def format (p : Node) (args : List Str) : Option Str :=
  if p.kind = .prim then
    (if p.args.length ≤ args.length then some (p.name.toList ++ ['('] ++ join (args.take p.args.length) ++ [')']) else none)
  else (if args.length = 0 then some p.text.toList else none)

/-- the clipped bound of a slice -/
def clip (n : Nat) (i : Int) : Nat :=
  if i < 0 then (if i + (n : Int) < 0 then 0 else (i + (n : Int)).toNat) else min i.toNat n

def setSlice {α : Type} (l : List α) (key : Slice) (val : List α) : List α :=
  let a := clip l.length key.1
  let b := max a (clip l.length key.2)
  l.take a ++ val ++ l.drop b

def forM {α σ : Type} : List α → σ → (α → σ → Option σ) → Option σ
  | [], s, _ => some s
  | a :: as, s, f => match f a s with
    | none => none
    | some s' => forM as s' f

def whileM {σ : Type} : Nat → σ → (σ → Option Bool) → (σ → Option (Bool × σ)) → Option σ
  | 0, _, _, _ => none
  | fuel + 1, s, c, body =>
    match c s with
    | none => none
    | some false => some s
    | some true =>
      match body s with
      | none => none
      | some (false, s') => some s'
      | some (true, s') => whileM fuel s' c body

/-- `list(range(n))` -/
def range (n : Int) : List Int := (List.range n.toNat).map Int.ofNat
/-- `isinstance(node, Primitive)` -/
def isPrimitive (p : Node) : Bool := decide (p.kind = .prim)
/-- a dict with int keys and label values: association list in insertion order -/
abbrev Dict := List (Int × String)
/-- `d[k] = v`: an existing key keeps its position -/
def dictSet : Dict → Int → String → Dict
  | [], k, v => [(k, v)]
  | (k', v') :: rest, k, v => if k' = k then (k, v) :: rest else (k', v') :: dictSet rest k v

end Gen11
