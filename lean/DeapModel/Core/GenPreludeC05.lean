/-
C04/C05 — the prelude of the TRANSLATOR `harness/py2lean_c05.py`: the Lean meaning of the Python built-ins and of the
object/attribute rendering its sub-language uses, on top of `Core/GenPrelude.lean` (`Gen.slice`).  Together with the
rendering rules in the docstring of `harness/py2lean_c05.py` this file is the translator's trusted base.
No Mathlib import (only the import-free Core models and the C20 prelude).
-/
import DeapModel.Core.Crowding
import DeapModel.Core.GenPrelude

namespace Gen5

variable {β γ ρ σ : Type}

/-- outcome of one pass through the body of a `for` loop that contains a `return`:
`ret r` = the function returned `r`, `next s` = the body fell through with the loop-carried variables `s` -/
inductive Step (ρ σ : Type) where
  | ret : ρ → Step ρ σ
  | next : σ → Step ρ σ

/-- `for x in l: body` with a `return` inside `body` -/
def forE : List β → σ → (σ → β → Step ρ σ) → Step ρ σ
  | [], s, _ => .next s
  | x :: xs, s, f =>
    match f s x with
    | .ret r => .ret r
    | .next s' => forE xs s' f

/-- `l[i]` with an `int`-typed index: negative counts from the end.  IndexError is NOT rendered: an index outside the
list gives `default` (the convention of the models, `NDSort.nth`). -/
def item [Inhabited β] (l : List β) (i : Int) : β :=
  if i < 0 then l.getD (l.length - i.natAbs) default else l.getD i.toNat default

/-- `zip(a, b, c)` (a triple is a right-nested pair) -/
def zip3 (a : List β) (b : List γ) (c : List ρ) : List (β × γ × ρ) := List.zip a (List.zip b c)

/-- `enumerate(l)` : pairs (index, element) -/
def enumerate (l : List β) : List (Nat × β) := l.zipIdx.map fun p => (p.2, p.1)

/-- `sorted(l, key=key, reverse=True)`: stable, descending — equal keys keep the order of `l`;
only `<` on the keys is used (`lt`) -/
def sortedByDesc {κ : Type} (lt : κ → κ → Bool) (key : β → κ) (l : List β) : List β :=
  l.mergeSort (fun a b => !lt (key a) (key b))

section Store
variable {α : Type} [DecidableEq α]

/-- the attribute `fitness.crowding_dist` of all individuals: an association list keyed by the individual
(object identity + weighted values), a later write overrides an earlier one -/
abbrev Store (α : Type) := List (NDSort.Ind α × Crowding.Dist α)

/-- `ind.fitness.crowding_dist` (an individual never written reads as `inf`; AttributeError is not rendered) -/
def loadAttr (cd : Store α) (x : NDSort.Ind α) : Crowding.Dist α := NDSort.dget cd none x

/-- the writes `individuals[i].fitness.crowding_dist = vals[i]`, in the order of `i` -/
def storeAttr (cd : Store α) (inds : List (NDSort.Ind α)) (vals : List (Crowding.Dist α)) : Store α :=
  (inds.zip vals).foldl (fun d p => NDSort.dset d p.1 p.2) cd

end Store

end Gen5
