/-
`gp.graph(expr)` (deap/gp.py:1186-1256): node list, edge list and label dictionary of a prefix expression.
Import-free executable model, list level AS CODED (the stack of `[index, arguments still missing]` frames), and the
tree-level relation it is shown to compute (`edgesT`: parent index → child index, indices in prefix order).
-/
import DeapModel.Core.GpTree

namespace GpTree

/-- `nodes = list(range(len(expr)))` (gp.py:1243) -/
def graphNodes (l : List Prim) : List Nat := List.range l.length

/-- `labels[i] = node.name if isinstance(node, Primitive) else node.value` (gp.py:1252): a primitive is labelled by
its name, a terminal / ephemeral by its value (transported as the text the model prints for it) -/
def labelOf (p : Prim) : String := if p.kind = .prim then p.name else p.text

def graphLabels (l : List Prim) : List String := l.map labelOf

/-- `while stack and stack[-1][1] == 0: stack.pop()` (gp.py:1254-1255); head of the list = top -/
def popDone : List (Nat × Nat) → List (Nat × Nat)
  | (_, 0) :: st => popDone st
  | st => st

/-- `edges.append((stack[-1][0], i))` when the stack is not empty (gp.py:1249-1250) -/
def edgeTo (st : List (Nat × Nat)) (i : Nat) : List (Nat × Nat) :=
  match st with
  | [] => []
  | (j, _) :: _ => [(j, i)]

/-- `stack[-1][1] -= 1` (gp.py:1251) -/
def decTop : List (Nat × Nat) → List (Nat × Nat)
  | [] => []
  | (j, r) :: st => (j, r - 1) :: st

/-- the `for i, node in enumerate(expr)` loop (gp.py:1248-1255): the edges in the order they are appended;
`i` = index of the next node, `st` = the stack -/
def graphLoop : List Prim → Nat → List (Nat × Nat) → List (Nat × Nat)
  | [], _, _ => []
  | p :: rest, i, st => edgeTo st i ++ graphLoop rest (i + 1) (popDone ((i, p.arity) :: decTop st))

/-- the edge list of `graph(expr)` -/
def graphEdges (l : List Prim) : List (Nat × Nat) := graphLoop l 0 []

/-! ## Tree level: the parent → child relation, indices in prefix order -/

mutual
/-- edges of the tree whose root has index `o`: for each child, the edge from `o` to the child's index followed by
the child's own edges (the order in which a depth-first walk meets them) -/
def edgesT : Nat → Tree → List (Nat × Nat)
  | o, .node _ as => edgesF o (o + 1) as
/-- edges from the parent `par` to the roots of the forest that starts at index `o`, and inside the forest -/
def edgesF : Nat → Nat → List Tree → List (Nat × Nat)
  | _, _, [] => []
  | par, o, t :: ts => (par, o) :: (edgesT o t ++ edgesF par (o + t.size) ts)
end

/-- the indices of the children of the node at index `o` whose subtree is `t` -/
def childRoots : Nat → List Tree → List Nat
  | _, [] => []
  | o, t :: ts => o :: childRoots (o + t.size) ts

def Tree.children : Tree → List Tree
  | .node _ as => as

end GpTree
