/-
C03 — the packaged loops of `Core/Loops.lean` COMPOSED with the library components they are run with:

* `toolbox.select` = the C06 models of `tools.selBest`, `selWorst`, `selRandom`, `selTournament`
  (`Core/Selection.lean`) reading the fitnesses of the loop's heap — instead of positions on the tape;
* `halloffame` = the C08 model of `tools.HallOfFame` (`Core/Archive.lean`, `maxsize`, default
  `similar = operator.eq`, i.e. equal genotypes) fed by the loop's `halloffame.update(...)` calls;
* the caller's `population` LIST OBJECT: list objects have identities, the loop variable `population` is a
  reference, `population[:] = …` (algorithms.py 181, 329, 430; gp.py 1145) writes into the referenced object
  while `population = toolbox.generate()` (algorithms.py 485) rebinds the variable;
* the ask/tell protocol of `eaGenerateUpdate`: what `toolbox.generate()` handed out, what `toolbox.update`
  was given.

Core Lean only (imports the C02/C03/C06/C08/C01 models).  Executable.  `Core/Loops.lean` is unchanged: a
composed generation runs `Loops.generation` and then feeds the archive with exactly the batch that generation
passed to `halloffame.update` (`halloffame.update` reads the evaluated batch and writes only the archive, so it
commutes with the replacement of the population and the logbook record that follow it in the source).
-/
import DeapModel.Core.Loops
import DeapModel.Core.Selection
import DeapModel.Core.Archive

namespace LoopsC
open Variation Loops

/-! ## 1. The library's selection operators on the loop's heap -/

/-- `ind.fitness.wvalues` as the C06 model reads it (the exact scalar type of `Core/Selection.lean`) -/
def ratKey (h : Heap) (o : Nat) : List Rat := (fitKey h o).map (fun x : Int => (x : Rat))

/-- what the selection operators read of the candidates `l` (a list of references) in heap `h` -/
def toPop (h : Heap) (l : List Nat) : Selection.Pop :=
  l.map (fun o => { wv := ratKey h o, size := (h o).genome.length })

/-- `toolbox.select` as registered by the caller, with the `random.choice` results its call consumes
(`selRandom`, `selTournament`: index of the chosen candidate, in call order). -/
inductive Sel where
  | best
  | worst
  | random (draws : List Nat)
  | tournament (tournsize : Nat) (draws : List Nat)
  /-- any other registered selector (`selRoulette`, `selNSGA2`, …; C05/C06/C07 prove that they return members of
  their input): the positions it chose are read off the tape, as in `Core/Loops.lean`; the machine checks that
  they are `k` positions of the candidate list -/
  | given (positions : List Nat)

/-- the operator must have consumed exactly the recorded draws -/
def usedUp : Option (List Nat × Selection.Tape) → Option (List Nat)
  | some (idx, []) => some idx
  | _ => none

/-- `toolbox.select(candidates, k)`: positions of the chosen candidates; `none` = a Python exception or a
tape that does not fit. -/
def Sel.positions (sel : Sel) (h : Heap) (l : List Nat) (k : Nat) : Option (List Nat) :=
  match sel with
  | .best => some (Selection.selBest (toPop h l) k)
  | .worst => some (Selection.selWorst (toPop h l) k)
  | .random ds => usedUp (Selection.selRandom l.length k (ds.map Selection.Draw.choice))
  | .tournament ts ds => usedUp (Selection.selTournament (toPop h l) k ts (ds.map Selection.Draw.choice))
  | .given idx => if idx.length = k ∧ idx.all (fun i => decide (i < l.length)) = true then some idx else none

/-- … and the chosen individuals themselves (references to members of `l`). -/
def select (sel : Sel) (h : Heap) (l : List Nat) (k : Nat) : Option (List Nat) :=
  match sel.positions h l k with
  | none => none
  | some idx => pickAll l idx

structure SimpleSelDec where
  sel : Sel               -- toolbox.select with the draws of this generation's call
  mateD : List Bool
  mutD : List Bool

/-- eaSimple's generation with the library selector (lines 165-181). -/
def simpleSelStep {σ : Type} (ops : Ops σ) (d : SimpleSelDec) : Step σ where
  produce := fun t st pop =>
    match select d.sel st.heap pop pop.length with            -- line 165: select(population, len(population))
    | none => none
    | some chosen => varAnd ops t st chosen d.mateD d.mutD    -- line 168
  replace := fun _ _ off => some off                          -- line 181

structure MuLamSelDec where
  choices : List Choice
  sel : Sel

/-- eaMuPlusLambda's generation with the library selector (lines 316-329). -/
def plusSelStep {σ : Type} (ops : Ops σ) (mu lam : Nat) (d : MuLamSelDec) : Step σ where
  produce := fun t st pop => varOr ops t st pop lam d.choices
  replace := fun h pop off => select d.sel h (pop ++ off) mu   -- line 329: select(population + offspring, mu)

/-- eaMuCommaLambda's generation with the library selector (lines 417-430). -/
def commaSelStep {σ : Type} (ops : Ops σ) (mu lam : Nat) (d : MuLamSelDec) : Step σ where
  produce := fun t st pop => varOr ops t st pop lam d.choices
  replace := fun h _ off => select d.sel h off mu              -- line 430: select(offspring, mu)

/-! ## 2. The hall of fame -/

abbrev HInd := Archive.Ind (List Int) Int
abbrev Hof := Archive.HoF (List Int) Int

/-- an individual as `halloffame.update` sees it: the object, its genotype, its fitness (weighted values;
`()` when invalid) -/
def toInd (e : Nat × Obj) : HInd := ⟨e.1, e.2.genome, ⟨e.2.fit.getD []⟩⟩

/-- the default `similar = operator.eq`: two (list) individuals are equal when their genotypes are -/
def simEq (a b : HInd) : Bool := decide (a.genome = b.genome)

/-- the batch one `halloffame.update(...)` call received: what the loop state `s'` lists as shown beyond `s`,
each individual with the content it had at that moment -/
def newShown (s s' : LState) : List HInd := (s'.shownObj.drop s.shownObj.length).map toInd

/-! ## 3. List objects, 4. the ask/tell protocol -/

/-- how a loop stores the next population: `population[:] = rhs` / `population = rhs` -/
inductive Assign where
  | slice
  | rebind
deriving DecidableEq, Repr

/-- Ask/tell state of the strategy behind `toolbox.generate` / `toolbox.update`: what it handed out and is
waiting to be told about; ghost: every `generate` (generation, individuals) and every `update` (generation,
what was pending, the individuals received with the content they had). -/
structure AskTell where
  pending : Option (List Nat) := none
  asks : List (Nat × List Nat) := []
  tells : List (Nat × Option (List Nat) × List (Nat × Obj)) := []

def AskTell.ask (a : AskTell) (g : Nat) (l : List Nat) : AskTell :=
  { a with pending := some l, asks := a.asks ++ [(g, l)] }

def AskTell.tell (a : AskTell) (g : Nat) (told : List (Nat × Obj)) : AskTell :=
  { a with pending := none, tells := a.tells ++ [(g, a.pending, told)] }

/-! ## 5. The composed machine -/

structure CState where
  ls : LState
  hof : Hof
  /-- ghost: the batches `halloffame.update` received, in call order -/
  hist : List (List HInd) := []
  /-- list objects: identity ↦ content -/
  lists : Nat → List Nat := fun _ => []
  /-- every list identity `≥ nextL` is unused -/
  nextL : Nat := 1
  /-- the list object the loop's variable `population` refers to (initially the caller's list) -/
  popRef : Nat := 0
  strat : AskTell := {}

/-- the caller passes list object `0`, holding `pop`, and an empty `HallOfFame(maxsize)` whose deep copies get
identities from `base` on -/
def initState (st : St) (pop : List Nat) (maxsize base : Nat) : CState :=
  { ls := { st := st, pop := pop }, hof := Archive.empty maxsize base,
    lists := fun i => if i = 0 then pop else [] }

/-- `halloffame.update(batch)` on the model archive; `ls'` is the loop state after the evaluation block. -/
def hofUpdate (c : CState) (ls' : LState) : Option CState :=
  let batch := newShown c.ls ls'
  match Archive.update simEq c.hof batch with
  | none => none
  | some h' => some { c with ls := ls', hof := h', hist := c.hist ++ [batch] }

/-- The right-hand side (`offspring`, the list `toolbox.select` / `toolbox.generate` returned) is a list
object of its own, `rhs`; a slice assignment copies its content into the object `population` refers to, a
plain assignment makes `population` refer to `rhs`. -/
def assignPop (asg : Assign) (c : CState) : CState :=
  let rhs := c.nextL
  match asg with
  | .slice =>
    { c with lists := fun i => if i = c.popRef then c.ls.pop else if i = rhs then c.ls.pop else c.lists i,
             nextL := rhs + 1 }
  | .rebind =>
    { c with lists := fun i => if i = rhs then c.ls.pop else c.lists i, nextL := rhs + 1, popRef := rhs }

/-- generation 0 of the population-based loops, hall of fame included -/
def cgen0 (ev : List Int → List Int) (c : CState) : Option CState := hofUpdate c (gen0 ev c.ls)

/-- one generation of a population-based loop, hall of fame and list objects included -/
def cgeneration {σ : Type} (ev : List Int → List Int) (stp : Step σ) (asg : Assign) (g : Nat) (t : σ)
    (c : CState) : Option (σ × CState) :=
  match generation ev stp g t c.ls with
  | none => none
  | some (t', ls') =>
    match hofUpdate c ls' with
    | none => none
    | some c' => some (t', assignPop asg c')

def crunGens {σ : Type} (ev : List Int → List Int) :
    List (Step σ × Assign) → Nat → σ → CState → Option (σ × CState)
  | [], _, t, c => some (t, c)
  | x :: rest, g, t, c =>
    match cgeneration ev x.1 x.2 g t c with
    | none => none
    | some (t1, c1) => crunGens ev rest (g + 1) t1 c1

/-- eaSimple / eaMuPlusLambda / eaMuCommaLambda / harm with a hall of fame -/
def crunPop {σ : Type} (ev : List Int → List Int) (steps : List (Step σ × Assign)) (t : σ) (c : CState) :
    Option (σ × CState) :=
  match cgen0 ev c with
  | none => none
  | some c0 => crunGens ev steps 1 t c0

/-- the four population-based loops store the next population with `population[:] = …` -/
def inPlace {σ : Type} (steps : List (Step σ)) : List (Step σ × Assign) := steps.map (fun s => (s, Assign.slice))

def eaSimpleC {σ : Type} (ops : Ops σ) (ev : List Int → List Int) (decs : List SimpleSelDec) (t : σ) (c : CState) :=
  crunPop ev (inPlace (decs.map (simpleSelStep ops))) t c

def eaMuPlusLambdaC {σ : Type} (ops : Ops σ) (ev : List Int → List Int) (mu lam : Nat) (decs : List MuLamSelDec)
    (t : σ) (c : CState) :=
  crunPop ev (inPlace (decs.map (plusSelStep ops mu lam))) t c

def eaMuCommaLambdaC {σ : Type} (ops : Ops σ) (ev : List Int → List Int) (mu lam : Nat) (decs : List MuLamSelDec)
    (t : σ) (c : CState) :=
  if commaAssert mu lam then crunPop ev (inPlace (decs.map (commaSelStep ops mu lam))) t c else none

def harmC {σ : Type} (ops : Ops σ) (ev : List Int → List Int) (nbr : Nat) (decs : List (HarmDec Bool)) (t : σ)
    (c : CState) :=
  crunPop ev (inPlace (decs.map (harmStep ops nbr))) t c

/-! ### eaGenerateUpdate, statement by statement (algorithms.py 483-499) -/

def guGeneration {σ : Type} (ev : List Int → List Int) (objs : List (Nat × Obj)) (order : List Nat) (g : Nat)
    (t : σ) (c : CState) : Option (σ × CState) :=
  if decide (objs.map (·.1)).Nodup then
    let population := objs.map (·.1)                                   -- population = toolbox.generate()
    let strat1 := c.strat.ask g population
    let e := evalPhase ev true g { c.ls with st := writeAll c.ls.st objs } population   -- evaluate every one
    match hofUpdate c e.1 with                                         -- halloffame.update(population)
    | none => none
    | some c1 =>
      -- toolbox.update(population): the strategy is told about the list the loop holds, as evaluated
      let strat2 := strat1.tell g (population.map (fun o => (o, e.1.st.heap o)))
      if isPerm order population.length then
        match pickAll population order with                            -- `update` may reorder the list
        | none => none
        | some np =>
          some (t, assignPop .rebind
            { c1 with ls := { e.1 with pop := np, log := e.1.log ++ [(g, e.2)] }, strat := strat2 })
      else none
  else none

def crunGU {σ : Type} (ev : List Int → List Int) :
    List (List (Nat × Obj) × List Nat) → Nat → σ → CState → Option (σ × CState)
  | [], _, t, c => some (t, c)
  | x :: rest, g, t, c =>
    match guGeneration ev x.1 x.2 g t c with
    | none => none
    | some (t1, c1) => crunGU ev rest (g + 1) t1 c1

/-- `eaGenerateUpdate(toolbox, ngen, halloffame)`: no caller population (`population = []`, a list of the
function's own), `for gen in range(ngen)`. -/
def eaGenerateUpdateC {σ : Type} (ev : List Int → List Int) (gens : List (List (Nat × Obj) × List Nat)) (t : σ)
    (st : St) (maxsize base : Nat) :=
  crunGU ev gens 0 t (initState st [] maxsize base)

end LoopsC
