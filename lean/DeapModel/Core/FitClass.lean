/-
Per-CLASS state of `deap.base.Fitness` (C01): fitness classes with their own `weights` entry and a parent,
Python's attribute lookup of `weights` through the MRO, the constructor `Fitness.__init__(values)` over the
container kinds callers use, `__str__` / `__hash__`, and a *world* of several related fitness classes and
instances on which a caller runs a history of operations.

Import-free (core Lean only; linked into the driver).  The single-instance operations are those of
`Core/Fitness.lean`; nothing there is changed.
-/
import DeapModel.Core.Fitness

namespace Fitness

/-! ### Fitness classes and attribute lookup -/

/-- A fitness class as Python sees it: the `weights` entry of the class's OWN `__dict__` (`none` = the class body
declares no `weights`) and the concrete fitness class it derives from (`none` = it derives directly from
`base.Fitness` / `base.ConstrainedFitness`, whose own entry is `weights = None`).  A class made by
`class Child(Parent): weights = w`, by `type(name, (Parent,), {...})` or by `creator.create(name, Parent, weights=w)`
is the same thing: one more entry in the table.  There is NO other per-class state: the unchanged library keeps
nothing else on the class. -/
structure FitClass (α : Type) where
  weights : Option (List α)
  parent : Option Nat
deriving Repr, DecidableEq

/-- The classes created so far, in creation order; a class is named by its position. -/
abbrev ClassTable (α : Type) := List (FitClass α)

variable {α : Type}

/-- `cls.__mro__` restricted to the created classes (single inheritance: the class, its parent, …; `base.Fitness`
and `object` close the real MRO and are left out).  The fuel is the class's own index + 1: a parent always exists
before its child. -/
def mroFuel (tbl : ClassTable α) : Nat → Nat → List Nat
  | 0, _ => []
  | fuel + 1, c =>
    match tbl[c]? with
    | none => []
    | some k => c :: (match k.parent with
        | none => []
        | some p => mroFuel tbl fuel p)

def mro (tbl : ClassTable α) (c : Nat) : List Nat := mroFuel tbl (c + 1) c

/-- `type(self).weights` / `self.weights`: the first class along the MRO whose own `__dict__` has a `weights`
entry; `none` = the lookup ends at `base.Fitness.weights = None` (an abstract fitness class). -/
def lookupWeights (tbl : ClassTable α) (c : Nat) : Option (List α) :=
  (mro tbl c).findSome? (fun k => match tbl[k]? with
    | some cl => cl.weights
    | none => none)

/-- A class statement: the parent must exist already (else Python raises `NameError`/`AttributeError`). -/
def defClass (tbl : ClassTable α) (k : FitClass α) : Option (ClassTable α) :=
  match k.parent with
  | none => some (tbl ++ [k])
  | some p => if p < tbl.length then some (tbl ++ [k]) else none

/-! ### The constructor over container kinds, `__str__`, `__hash__` -/

/-- The kinds of container a caller hands to `Fitness(values)` / `fitness.values = values`. -/
inductive Box where
  | tuple | list | ndarray | deque
deriving Repr, DecidableEq

/-- A constructor / assignment argument: a container kind and its items. -/
structure Arg (α : Type) where
  box : Box
  items : List α
deriving Repr, DecidableEq

/-- `len(values)`. -/
def Arg.len (a : Arg α) : Nat := a.items.length

/-- `bool(values)`, Python's truth value — what `if values:` WOULD test; `Fitness.__init__` does not use it.
Tuples, lists and deques are true iff non-empty; a numpy array is false when empty, has the truth value of its
element when it has exactly one, and raises `ValueError` (`none`) when it has more. -/
def Arg.truthy [DecidableEq α] [OfNat α 0] (a : Arg α) : Option Bool :=
  match a.box, a.items with
  | .ndarray, [] => some false
  | .ndarray, [x] => some (decide (x ≠ 0))
  | .ndarray, _ :: _ :: _ => none
  | _, items => some (!items.isEmpty)

/-- `Fitness.__init__(self, values)` once `self.weights` resolved to `weights` (base.py:169-182):
`if len(values) > 0: self.values = values`.  `none` = the assignment's `assert` failed. -/
def init [Mul α] (weights : List α) (a : Arg α) : Option (Fit α) :=
  if a.len > 0 then setValues weights a.items else some ⟨[]⟩

/-- `ConstrainedFitness.__init__(self, values, constraint_violation)`: the base constructor, then the attribute. -/
def cinit [Mul α] (weights : List α) (a : Arg α) (cv : Option (List Int)) : Option (CFit α) :=
  (init weights a).map fun f => ⟨f.wvalues, cv⟩

/-- The tuple that `__str__` / `__repr__` print: `self.values if self.valid else tuple()`. -/
def strValues [Div α] (weights : List α) (f : Fit α) : List α :=
  if valid f then getValues weights f else []

/-- `Fitness.__hash__`: `hash(self.wvalues)` for Python's tuple hash `h`, whatever that function is. -/
def hashWith {β : Type} (h : List α → β) (f : Fit α) : β := h f.wvalues

/-! ### A world of related fitness classes and their instances -/

/-- A fitness object: the class it was made from and its own state. -/
structure Inst (α : Type) where
  cls : Nat
  fit : Fit α

/-- The caller's world: the class table and the caller's variables (slots) holding fitness objects. -/
structure World (α : Type) where
  classes : ClassTable α
  insts : Nat → Option (Inst α)

def World.empty : World α := ⟨[], fun _ => none⟩

def World.put (W : World α) (slot : Nat) (x : Inst α) : World α :=
  ⟨W.classes, fun s => if s = slot then some x else W.insts s⟩

/-- What a caller can do. -/
inductive WOp (α : Type) where
  /-- `class K(Parent): weights = …` / `creator.create("K", Parent, weights=…)` -/
  | defclass (k : FitClass α)
  /-- `slot = Cls(values)` -/
  | new (slot cls : Nat) (arg : Arg α)
  /-- `slot.values = values` -/
  | set (slot : Nat) (arg : Arg α)
  /-- `del slot.values` -/
  | del (slot : Nat)
  /-- `slot.wvalues, slot.values, slot.valid` -/
  | get (slot : Nat)
  /-- `str(slot)` -/
  | str (slot : Nat)
  /-- the six operators on `(i, j)` and `i == j and hash(i) == hash(j)` -/
  | cmp (i j : Nat)
  /-- `i.dominates(j, obj)` with the index lists of the slice on either tuple -/
  | dom (i j : Nat) (idxA idxB : List Nat)
  /-- `k = copy.deepcopy(i)` -/
  | clone (i k : Nat)

/-- What the caller observes. -/
inductive Out (α : Type) where
  | ok
  | err
  | values (wvalues values : List α) (valid : Bool)
  | shown (values : List α)
  | bits (l : List Bool)
deriving DecidableEq

section Step
variable [LT α] [LE α] [DecidableEq α] [DecidableLT α] [DecidableLE α] [Mul α] [Div α]

/-- One operation.  A Python exception (`TypeError` for an abstract class, `AssertionError` for a wrong length,
`NameError` for a missing class or variable) leaves the world as it was and is observed as `err`. -/
def wstep (W : World α) : WOp α → World α × Out α
  | .defclass k =>
    match defClass W.classes k with
    | some tbl => (⟨tbl, W.insts⟩, .ok)
    | none => (W, .err)
  | .new slot c arg =>
    match lookupWeights W.classes c with
    | none => (W, .err)
    | some w =>
      match init w arg with
      | none => (W, .err)
      | some f => (W.put slot ⟨c, f⟩, .ok)
  | .set slot arg =>
    match W.insts slot with
    | none => (W, .err)
    | some x =>
      match lookupWeights W.classes x.cls with
      | none => (W, .err)
      | some w =>
        match setValues w arg.items with
        | none => (W, .err)
        | some f => (W.put slot ⟨x.cls, f⟩, .ok)
  | .del slot =>
    match W.insts slot with
    | none => (W, .err)
    | some x => (W.put slot ⟨x.cls, delValues⟩, .ok)
  | .get slot =>
    match W.insts slot with
    | none => (W, .err)
    | some x =>
      match lookupWeights W.classes x.cls with
      | none => (W, .err)
      | some w => (W, .values x.fit.wvalues (getValues w x.fit) (valid x.fit))
  | .str slot =>
    match W.insts slot with
    | none => (W, .err)
    | some x =>
      match lookupWeights W.classes x.cls with
      | none => (W, .err)
      | some w => (W, .shown (strValues w x.fit))
  | .cmp i j =>
    match W.insts i, W.insts j with
    | some x, some y =>
      (W, .bits [lt x.fit y.fit, le x.fit y.fit, gt x.fit y.fit, ge x.fit y.fit, eq x.fit y.fit, ne x.fit y.fit,
                 eq x.fit y.fit && decide (hashWith id x.fit = hashWith id y.fit)])
    | _, _ => (W, .err)
  | .dom i j idxA idxB =>
    match W.insts i, W.insts j with
    | some x, some y => (W, .bits [dominates x.fit y.fit idxA idxB])
    | _, _ => (W, .err)
  | .clone i k =>
    match W.insts i with
    | none => (W, .err)
    | some x =>
      let c : Inst α := ⟨x.cls, deepcopy x.fit⟩
      (W.put k c, .bits [eq c.fit x.fit, decide (hashWith id c.fit = hashWith id x.fit), valid c.fit == valid x.fit])

/-- A history: the world after it and everything that was observed. -/
def wrun (W : World α) : List (WOp α) → World α × List (Out α)
  | [] => (W, [])
  | o :: ops =>
    let r := wstep W o
    let rest := wrun r.1 ops
    (rest.1, r.2 :: rest.2)

end Step

/-- The variable an operation (re)binds or whose object it changes. -/
def WOp.writes : WOp α → Option Nat
  | .new slot _ _ => some slot
  | .set slot _ => some slot
  | .del slot => some slot
  | .clone _ k => some k
  | _ => none

/-- The variables whose objects an operation on INSTANCES looks at (`none` for the two operations that name a
class instead: `defclass`, `new`). -/
def WOp.reads : WOp α → Option (List Nat)
  | .set slot _ => some [slot]
  | .del slot => some [slot]
  | .get slot => some [slot]
  | .str slot => some [slot]
  | .cmp i j => some [i, j]
  | .dom i j _ _ => some [i, j]
  | .clone i _ => some [i]
  | _ => none

/-- All that an operation can depend on about the object in a variable: its OWN weighted values and the weights
its OWN class resolves to. -/
def World.view (W : World α) (slot : Nat) : Option (List α × Option (List α)) :=
  match W.insts slot with
  | none => none
  | some x => some (x.fit.wvalues, lookupWeights W.classes x.cls)

end Fitness
