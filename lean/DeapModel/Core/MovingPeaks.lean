/-
C20 — `deap/benchmarks/movingpeaks.py`: the peak functions (`:31-59`), `MovingPeaks.__call__`
(`:209-244`) and `changePeaks` (`:252-332`).  The five parallel per-peak lists of the class
(`peaks_function/_position/_height/_width`, `last_change_vector`; always popped / appended together)
are one list of records.  Random draws come from an explicit tape, in the call order of the source.
Polymorphic in `RealLike α`; `Config.roundInt` is `int(round(·))`.  Import-free.
-/
import DeapModel.Core.Scalar

namespace MovingPeaks
open RealLike

variable {α : Type} [RealLike α]

inductive PFunc where
  | cone | sphere | function1
  deriving DecidableEq, Repr

/-- `value = 0.0; for x, p in zip(individual, position): value += (x - p)**2` -/
def dist2 (x p : List α) : α :=
  (x.zip p).foldl (fun v q => v + (q.1 - q.2) * (q.1 - q.2)) (RealLike.ofNat 0)

/-- `cone` = h - w·√Σ(x-p)², `sphere` = h·Σ(x-p)², `function1` = h / (1 + w·Σ(x-p)²)
(`:31-59`; no square root in `function1`, as in Branke's reference implementation — the docstring
prints one). -/
def peakValue (fn : PFunc) (x pos : List α) (h w : α) : α :=
  match fn with
  | .cone => h - w * sqrt (dist2 x pos)
  | .sphere => h * dist2 x pos
  | .function1 => h / (1 + w * dist2 x pos)

structure Peak (α : Type) where
  fn : PFunc
  pos : List α
  height : α
  width : α
  last : List α          -- last_change_vector[i]

/-- `max(possible_values)`: the first maximal element; `none` on an empty list (ValueError). -/
def pyMax : List α → Option α
  | [] => none
  | a :: t => some (t.foldl (fun m v => if m < v then v else m) a)

/-- the list `possible_values` of `__call__` (`:218-227`): one value per peak, then the basis
function's value if there is a basis function. -/
def possibleValues (peaks : List (Peak α)) (basis : Option α) (x : List α) : List α :=
  peaks.map (fun p => peakValue p.fn x p.pos p.height p.width) ++ basis.toList

/-- `MovingPeaks.__call__(individual, count=False)[0]` (`:209-229`). -/
def call (peaks : List (Peak α)) (basis : Option α) (x : List α) : Option α :=
  pyMax (possibleValues peaks basis x)

/-! ### changePeaks -/

inductive Draw (α : Type) where
  | random (x : α)        -- random.random()
  | randrange (i : Nat)   -- random.randrange(n)
  | choice (i : Nat)      -- index chosen by random.choice(seq)
  | uniform (x : α)       -- result of random.uniform(a, b)
  | gauss (x : α)         -- result of random.gauss(0, 1)

structure Config (α : Type) where
  dim : Nat
  /-- `(minpeaks, maxpeaks)` when `npeaks` was given as a sequence, else `none` -/
  limits : Option (Int × Int)
  numberSeverity : α
  pool : List PFunc
  minCoord : α
  maxCoord : α
  minHeight : α
  maxHeight : α
  minWidth : α
  maxWidth : α
  lambda : α
  moveSeverity : α
  heightSeverity : α
  widthSeverity : α
  /-- `int(round(x))` -/
  roundInt : α → Int

abbrev Tape (α : Type) := List (Draw α)

def popRandom : Tape α → Option (α × Tape α)
  | .random x :: t => some (x, t)
  | _ => none

def popUniform : Tape α → Option (α × Tape α)
  | .uniform x :: t => some (x, t)
  | _ => none

def popGauss : Tape α → Option (α × Tape α)
  | .gauss x :: t => some (x, t)
  | _ => none

/-- `n` draws produced by `pop`, in order -/
def popMany (pop : Tape α → Option (α × Tape α)) : Nat → Tape α → Option (List α × Tape α)
  | 0, t => some ([], t)
  | n + 1, t =>
    match pop t with
    | none => none
    | some (x, t1) =>
      match popMany pop n t1 with
      | none => none
      | some (xs, t2) => some (x :: xs, t2)

def half : α := RealLike.ofRatio 1 2

/-- the removal loop (`:263-269`): `n` times `idx = randrange(len); pop(idx)` on every list -/
def removePeaks : Nat → List (Peak α) → Tape α → Option (List (Peak α) × Tape α)
  | 0, peaks, t => some (peaks, t)
  | n + 1, peaks, t =>
    match t with
    | .randrange idx :: t1 =>
      if idx < peaks.length then removePeaks n (peaks.eraseIdx idx) t1 else none
    | _ => none

/-- the addition loop (`:274-279`): `choice(pfunc_pool)`, `dim` uniform coordinates, a uniform height,
a uniform width, `dim` draws `random() - 0.5` -/
def addPeaks (cfg : Config α) : Nat → List (Peak α) → Tape α → Option (List (Peak α) × Tape α)
  | 0, peaks, t => some (peaks, t)
  | n + 1, peaks, t =>
    match t with
    | .choice i :: t1 =>
      match cfg.pool[i]? with
      | none => none
      | some fn =>
        match popMany popUniform cfg.dim t1 with
        | none => none
        | some (pos, t2) =>
          match popUniform t2 with
          | none => none
          | some (h, t3) =>
            match popUniform t3 with
            | none => none
            | some (w, t4) =>
              match popMany popRandom cfg.dim t4 with
              | none => none
              | some (rs, t5) =>
                addPeaks cfg n (peaks ++ [⟨fn, pos, h, w, rs.map fun r => r - half⟩]) t5
    | _ => none

/-- Python `min(a, b)` on ints -/
def imin (a b : Int) : Int := if b < a then b else a

/-- the number-of-peaks part of `changePeaks` (`:255-279`) -/
def changeNumber (cfg : Config α) (peaks : List (Peak α)) (t : Tape α) :
    Option (List (Peak α) × Tape α) :=
  match cfg.limits with
  | none => some (peaks, t)
  | some (minpeaks, maxpeaks) =>
    let npeaks : Int := peaks.length
    match popRandom t with
    | none => none
    | some (u, t1) =>
      let r : Int := maxpeaks - minpeaks
      match popRandom t1 with
      | none => none
      | some (u2, t2) =>
        let k := cfg.roundInt (RealLike.ofRatio r 1 * u2 * cfg.numberSeverity)
        if u < half then
          removePeaks (imin (npeaks - minpeaks) k).toNat peaks t2
        else
          addPeaks cfg (imin (maxpeaks - npeaks) k).toNat peaks t2

/-- `sum(s**2 for s in shift)` then `move_severity / sqrt(·) if · > 0 else 0` (`:284-285, 290-291`) -/
def shiftScale (move : α) (shift : List α) : α :=
  let sl := sum (shift.map fun s => s * s)
  if 0 < sl then move / sqrt sl else RealLike.ofNat 0

/-- reflecting update of one scalar (`:313-330`): `new = change + v`, mirrored at the violated limit -/
def reflect (lo hi v change : α) : α :=
  let nv := change + v
  if nv < lo then 2 * lo - v - change
  else if hi < nv then 2 * hi - v - change
  else nv

/-- the body of the loop over the peaks (`:281-330`) for one peak -/
def changePeak (cfg : Config α) (pk : Peak α) (t : Tape α) : Option (Peak α × Tape α) :=
  match popMany popRandom pk.pos.length t with
  | none => none
  | some (rs, t1) =>
    let shift0 := rs.map fun r => r - half
    let sl0 := shiftScale cfg.moveSeverity shift0
    let shift1 := (shift0.zip pk.last).map fun p => sl0 * (1 - cfg.lambda) * p.1 + cfg.lambda * p.2
    let sl1 := shiftScale cfg.moveSeverity shift1
    let shift2 := shift1.map fun s => s * sl1
    let moved := (pk.pos.zip shift2).map fun p =>
      let pp := p.1; let s := p.2
      let nc := pp + s
      if nc < cfg.minCoord then (2 * cfg.minCoord - pp - s, (-(1 : α)) * s)
      else if cfg.maxCoord < nc then (2 * cfg.maxCoord - pp - s, (-(1 : α)) * s)
      else (nc, s)
    match popGauss t1 with
    | none => none
    | some (gh, t2) =>
      let h := reflect cfg.minHeight cfg.maxHeight pk.height (gh * cfg.heightSeverity)
      match popGauss t2 with
      | none => none
      | some (gw, t3) =>
        let w := reflect cfg.minWidth cfg.maxWidth pk.width (gw * cfg.widthSeverity)
        some (⟨pk.fn, moved.map (·.1), h, w, moved.map (·.2)⟩, t3)

/-- thread the tape through the loop `for i in range(len(self.peaks_function))` -/
def changeAll (cfg : Config α) : List (Peak α) → Tape α → Option (List (Peak α) × Tape α)
  | [], t => some ([], t)
  | pk :: rest, t =>
    match changePeak cfg pk t with
    | none => none
    | some (pk', t1) =>
      match changeAll cfg rest t1 with
      | none => none
      | some (rest', t2) => some (pk' :: rest', t2)

/-- `MovingPeaks.changePeaks()` -/
def changePeaks (cfg : Config α) (peaks : List (Peak α)) (t : Tape α) :
    Option (List (Peak α) × Tape α) :=
  match changeNumber cfg peaks t with
  | none => none
  | some (peaks1, t1) => changeAll cfg peaks1 t1

/-- `k` successive calls of `changePeaks` on one tape -/
def changeTimes (cfg : Config α) : Nat → List (Peak α) → Tape α → Option (List (Peak α) × Tape α)
  | 0, peaks, t => some (peaks, t)
  | k + 1, peaks, t =>
    match changePeaks cfg peaks t with
    | none => none
    | some (peaks1, t1) => changeTimes cfg k peaks1 t1


/-! ### `MovingPeaks.__init__` (`:115-180`): the initial peaks -/

/-- `[x if uniform != 0 else uniform(lo, hi) for _ in range(n)]` (`:160-168`): a non-zero `uniform_*`
parameter is used as is, otherwise one uniform draw per peak -/
def initScalars (u : α) : Nat → Tape α → Option (List α × Tape α)
  | n, t => if u < RealLike.ofNat 0 ∨ RealLike.ofNat 0 < u then some (List.replicate n u, t)
            else popMany popUniform n t

/-- `n` groups of `dim` draws -/
def popGroups (pop : Tape α → Option (α × Tape α)) (dim : Nat) : Nat → Tape α → Option (List (List α) × Tape α)
  | 0, t => some ([], t)
  | n + 1, t =>
    match popMany pop dim t with
    | none => none
    | some (g, t1) =>
      match popGroups pop dim n t1 with
      | none => none
      | some (gs, t2) => some (g :: gs, t2)

/-- The state built by `__init__` for the peak functions `fns` (one per peak: `pfunc` repeated, or the
given list of the right length): all positions first (`dim` uniform draws per peak), then the heights,
then the widths, then the last-change vectors (`random() - 0.5`, `dim` per peak) — the draw order of
`:158-170`. -/
def initPeaks (dim : Nat) (fns : List PFunc) (uniformHeight uniformWidth : α) (t : Tape α) :
    Option (List (Peak α) × Tape α) :=
  let n := fns.length
  match popGroups popUniform dim n t with
  | none => none
  | some (poss, t1) =>
    match initScalars uniformHeight n t1 with
    | none => none
    | some (hs, t2) =>
      match initScalars uniformWidth n t2 with
      | none => none
      | some (ws, t3) =>
        match popGroups popRandom dim n t3 with
        | none => none
        | some (lasts, t4) =>
          some ((fns.zip (poss.zip (hs.zip (ws.zip lasts)))).map fun q =>
            ⟨q.1, q.2.1, q.2.2.1, q.2.2.2.1, q.2.2.2.2.map fun r => r - half⟩, t4)

/-! ### counted evaluation (`__call__(individual, count=True)`, `:209-244`) -/

structure State (α : Type) where
  peaks : List (Peak α)
  nevals : Nat

/-- `self.period > 0 and self.nevals % self.period == 0` (`:241`), `nevals` already incremented -/
def triggers (period : Int) (nevals : Nat) : Bool := decide (0 < period ∧ (nevals : Int) % period = 0)

/-- One counted evaluation: the fitness is `max(possible_values)` of the *current* peaks, `nevals` is
incremented, and `changePeaks` runs afterwards exactly when `triggers`.  The offline-error bookkeeping
(`:234-238`) only reads the state, except that `globalMaximum()` takes `max` over the peaks and so
raises when there is no peak at all (→ `none`).  Returns (fitness, change triggered?, new state, tape). -/
def evalCounted (cfg : Config α) (period : Int) (basis : Option (List α → α)) (st : State α) (x : List α)
    (t : Tape α) : Option (α × Bool × State α × Tape α) :=
  match call st.peaks (basis.map fun b => b x) x with
  | none => none
  | some v =>
    if st.peaks.isEmpty then none else
    let n := st.nevals + 1
    if triggers period n then
      match changePeaks cfg st.peaks t with
      | none => none
      | some (p', t') => some (v, true, ⟨p', n⟩, t')
    else some (v, false, ⟨st.peaks, n⟩, t)

/-- a history of counted evaluations -/
def evalMany (cfg : Config α) (period : Int) (basis : Option (List α → α)) :
    List (List α) → State α → Tape α → Option (List (α × Bool) × State α × Tape α)
  | [], st, t => some ([], st, t)
  | x :: xs, st, t =>
    match evalCounted cfg period basis st x t with
    | none => none
    | some (v, ch, st1, t1) =>
      match evalMany cfg period basis xs st1 t1 with
      | none => none
      | some (outs, st2, t2) => some ((v, ch) :: outs, st2, t2)

/-- Python `int(round(x))` on a double: round half to even. -/
def pyRoundFloat (x : Float) : Int :=
  let f := x.floor
  let d := x - f
  let fi : Int := f.toInt64.toInt
  if d < 0.5 then fi else if d > 0.5 then fi + 1 else if fi % 2 = 0 then fi else fi + 1

end MovingPeaks
