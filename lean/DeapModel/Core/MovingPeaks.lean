/-
C20 — `deap/benchmarks/movingpeaks.py`: the peak functions (`:31-59`), `MovingPeaks.__call__`
(`:209-244`) and `changePeaks` (`:252-332`).  The five parallel per-peak lists of the class
(`peaks_function/_position/_height/_width`, `last_change_vector`; always popped / appended together)
are one list of records.  Random draws come from an explicit tape, in the call order of the source.
Polymorphic in `RealLike α`; `Config.roundInt` is `int(round(·))`.  Import-free.
-/
import DeapModel.Core.Scalar

namespace MovingPeaks
open RealLike

variable {α : Type} [RealLike α]

inductive PFunc where
  | cone | sphere | function1
  deriving DecidableEq, Repr

/-- `value = 0.0; for x, p in zip(individual, position): value += (x - p)**2` -/
def dist2 (x p : List α) : α :=
  (x.zip p).foldl (fun v q => v + (q.1 - q.2) * (q.1 - q.2)) (RealLike.ofNat 0)

/-- `cone` = h - w·√Σ(x-p)², `sphere` = h·Σ(x-p)², `function1` = h / (1 + w·Σ(x-p)²)
(`:31-59`; no square root in `function1`, as in Branke's reference implementation — the docstring
prints one). -/
def peakValue (fn : PFunc) (x pos : List α) (h w : α) : α :=
  match fn with
  | .cone => h - w * sqrt (dist2 x pos)
  | .sphere => h * dist2 x pos
  | .function1 => h / (1 + w * dist2 x pos)

structure Peak (α : Type) where
  fn : PFunc
  pos : List α
  height : α
  width : α
  last : List α          -- last_change_vector[i]

/-- `max(possible_values)`: the first maximal element; `none` on an empty list (ValueError). -/
def pyMax : List α → Option α
  | [] => none
  | a :: t => some (t.foldl (fun m v => if m < v then v else m) a)

/-- the list `possible_values` of `__call__` (`:218-227`): one value per peak, then the basis
function's value if there is a basis function. -/
def possibleValues (peaks : List (Peak α)) (basis : Option α) (x : List α) : List α :=
  peaks.map (fun p => peakValue p.fn x p.pos p.height p.width) ++ basis.toList

/-- `MovingPeaks.__call__(individual, count=False)[0]` (`:209-229`). -/
def call (peaks : List (Peak α)) (basis : Option α) (x : List α) : Option α :=
  pyMax (possibleValues peaks basis x)

/-! ### changePeaks -/

inductive Draw (α : Type) where
  | random (x : α)        -- random.random()
  | randrange (i : Nat)   -- random.randrange(n)
  | choice (i : Nat)      -- index chosen by random.choice(seq)
  | uniform (x : α)       -- result of random.uniform(a, b)
  | gauss (x : α)         -- result of random.gauss(0, 1)
  | sample (idx : List Nat)  -- positions chosen by random.sample(seq, k), in order

structure Config (α : Type) where
  dim : Nat
  /-- `(minpeaks, maxpeaks)` when `npeaks` was given as a sequence, else `none` -/
  limits : Option (Int × Int)
  numberSeverity : α
  pool : List PFunc
  minCoord : α
  maxCoord : α
  minHeight : α
  maxHeight : α
  minWidth : α
  maxWidth : α
  lambda : α
  moveSeverity : α
  heightSeverity : α
  widthSeverity : α
  /-- `int(round(x))` -/
  roundInt : α → Int

abbrev Tape (α : Type) := List (Draw α)

def popRandom : Tape α → Option (α × Tape α)
  | .random x :: t => some (x, t)
  | _ => none

def popUniform : Tape α → Option (α × Tape α)
  | .uniform x :: t => some (x, t)
  | _ => none

def popGauss : Tape α → Option (α × Tape α)
  | .gauss x :: t => some (x, t)
  | _ => none

/-- `n` draws produced by `pop`, in order -/
def popMany (pop : Tape α → Option (α × Tape α)) : Nat → Tape α → Option (List α × Tape α)
  | 0, t => some ([], t)
  | n + 1, t =>
    match pop t with
    | none => none
    | some (x, t1) =>
      match popMany pop n t1 with
      | none => none
      | some (xs, t2) => some (x :: xs, t2)

def half : α := RealLike.ofRatio 1 2

/-- the removal loop (`:263-269`): `n` times `idx = randrange(len); pop(idx)` on every list -/
def removePeaks : Nat → List (Peak α) → Tape α → Option (List (Peak α) × Tape α)
  | 0, peaks, t => some (peaks, t)
  | n + 1, peaks, t =>
    match t with
    | .randrange idx :: t1 =>
      if idx < peaks.length then removePeaks n (peaks.eraseIdx idx) t1 else none
    | _ => none

/-- the addition loop (`:274-279`): `choice(pfunc_pool)`, `dim` uniform coordinates, a uniform height,
a uniform width, `dim` draws `random() - 0.5` -/
def addPeaks (cfg : Config α) : Nat → List (Peak α) → Tape α → Option (List (Peak α) × Tape α)
  | 0, peaks, t => some (peaks, t)
  | n + 1, peaks, t =>
    match t with
    | .choice i :: t1 =>
      match cfg.pool[i]? with
      | none => none
      | some fn =>
        match popMany popUniform cfg.dim t1 with
        | none => none
        | some (pos, t2) =>
          match popUniform t2 with
          | none => none
          | some (h, t3) =>
            match popUniform t3 with
            | none => none
            | some (w, t4) =>
              match popMany popRandom cfg.dim t4 with
              | none => none
              | some (rs, t5) =>
                addPeaks cfg n (peaks ++ [⟨fn, pos, h, w, rs.map fun r => r - half⟩]) t5
    | _ => none

/-- Python `min(a, b)` on ints -/
def imin (a b : Int) : Int := if b < a then b else a

/-- the number-of-peaks part of `changePeaks` (`:255-279`) -/
def changeNumber (cfg : Config α) (peaks : List (Peak α)) (t : Tape α) :
    Option (List (Peak α) × Tape α) :=
  match cfg.limits with
  | none => some (peaks, t)
  | some (minpeaks, maxpeaks) =>
    let npeaks : Int := peaks.length
    match popRandom t with
    | none => none
    | some (u, t1) =>
      let r : Int := maxpeaks - minpeaks
      match popRandom t1 with
      | none => none
      | some (u2, t2) =>
        let k := cfg.roundInt (RealLike.ofRatio r 1 * u2 * cfg.numberSeverity)
        if u < half then
          removePeaks (imin (npeaks - minpeaks) k).toNat peaks t2
        else
          addPeaks cfg (imin (maxpeaks - npeaks) k).toNat peaks t2

/-- `sum(s**2 for s in shift)` then `move_severity / sqrt(·) if · > 0 else 0` (`:284-285, 290-291`) -/
def shiftScale (move : α) (shift : List α) : α :=
  let sl := sum (shift.map fun s => s * s)
  if 0 < sl then move / sqrt sl else RealLike.ofNat 0

/-- reflecting update of one scalar (`:313-330`): `new = change + v`, mirrored at the violated limit -/
def reflect (lo hi v change : α) : α :=
  let nv := change + v
  if nv < lo then 2 * lo - v - change
  else if hi < nv then 2 * hi - v - change
  else nv

/-- the body of the loop over the peaks (`:281-330`) for one peak -/
def changePeak (cfg : Config α) (pk : Peak α) (t : Tape α) : Option (Peak α × Tape α) :=
  match popMany popRandom pk.pos.length t with
  | none => none
  | some (rs, t1) =>
    let shift0 := rs.map fun r => r - half
    let sl0 := shiftScale cfg.moveSeverity shift0
    let shift1 := (shift0.zip pk.last).map fun p => sl0 * (1 - cfg.lambda) * p.1 + cfg.lambda * p.2
    let sl1 := shiftScale cfg.moveSeverity shift1
    let shift2 := shift1.map fun s => s * sl1
    let moved := (pk.pos.zip shift2).map fun p =>
      let pp := p.1; let s := p.2
      let nc := pp + s
      if nc < cfg.minCoord then (2 * cfg.minCoord - pp - s, (-(1 : α)) * s)
      else if cfg.maxCoord < nc then (2 * cfg.maxCoord - pp - s, (-(1 : α)) * s)
      else (nc, s)
    match popGauss t1 with
    | none => none
    | some (gh, t2) =>
      let h := reflect cfg.minHeight cfg.maxHeight pk.height (gh * cfg.heightSeverity)
      match popGauss t2 with
      | none => none
      | some (gw, t3) =>
        let w := reflect cfg.minWidth cfg.maxWidth pk.width (gw * cfg.widthSeverity)
        some (⟨pk.fn, moved.map (·.1), h, w, moved.map (·.2)⟩, t3)

/-- thread the tape through the loop `for i in range(len(self.peaks_function))` -/
def changeAll (cfg : Config α) : List (Peak α) → Tape α → Option (List (Peak α) × Tape α)
  | [], t => some ([], t)
  | pk :: rest, t =>
    match changePeak cfg pk t with
    | none => none
    | some (pk', t1) =>
      match changeAll cfg rest t1 with
      | none => none
      | some (rest', t2) => some (pk' :: rest', t2)

/-- `MovingPeaks.changePeaks()` -/
def changePeaks (cfg : Config α) (peaks : List (Peak α)) (t : Tape α) :
    Option (List (Peak α) × Tape α) :=
  match changeNumber cfg peaks t with
  | none => none
  | some (peaks1, t1) => changeAll cfg peaks1 t1

/-- `k` successive calls of `changePeaks` on one tape -/
def changeTimes (cfg : Config α) : Nat → List (Peak α) → Tape α → Option (List (Peak α) × Tape α)
  | 0, peaks, t => some (peaks, t)
  | k + 1, peaks, t =>
    match changePeaks cfg peaks t with
    | none => none
    | some (peaks1, t1) => changeTimes cfg k peaks1 t1


/-! ### `MovingPeaks.__init__` (`:115-180`): the initial peaks -/

/-- `[x if uniform != 0 else uniform(lo, hi) for _ in range(n)]` (`:160-168`): a non-zero `uniform_*`
parameter is used as is, otherwise one uniform draw per peak -/
def initScalars (u : α) : Nat → Tape α → Option (List α × Tape α)
  | n, t => if u < RealLike.ofNat 0 ∨ RealLike.ofNat 0 < u then some (List.replicate n u, t)
            else popMany popUniform n t

/-- `n` groups of `dim` draws -/
def popGroups (pop : Tape α → Option (α × Tape α)) (dim : Nat) : Nat → Tape α → Option (List (List α) × Tape α)
  | 0, t => some ([], t)
  | n + 1, t =>
    match popMany pop dim t with
    | none => none
    | some (g, t1) =>
      match popGroups pop dim n t1 with
      | none => none
      | some (gs, t2) => some (g :: gs, t2)

/-- The state built by `__init__` for the peak functions `fns` (one per peak: `pfunc` repeated, or the
given list of the right length): all positions first (`dim` uniform draws per peak), then the heights,
then the widths, then the last-change vectors (`random() - 0.5`, `dim` per peak) — the draw order of
`:158-170`. -/
def initPeaks (dim : Nat) (fns : List PFunc) (uniformHeight uniformWidth : α) (t : Tape α) :
    Option (List (Peak α) × Tape α) :=
  let n := fns.length
  match popGroups popUniform dim n t with
  | none => none
  | some (poss, t1) =>
    match initScalars uniformHeight n t1 with
    | none => none
    | some (hs, t2) =>
      match initScalars uniformWidth n t2 with
      | none => none
      | some (ws, t3) =>
        match popGroups popRandom dim n t3 with
        | none => none
        | some (lasts, t4) =>
          some ((fns.zip (poss.zip (hs.zip (ws.zip lasts)))).map fun q =>
            ⟨q.1, q.2.1, q.2.2.1, q.2.2.2.1, q.2.2.2.2.map fun r => r - half⟩, t4)

/-! ### counted evaluation (`__call__(individual, count=True)`, `:209-244`) -/

structure State (α : Type) where
  peaks : List (Peak α)
  nevals : Nat

/-- `self.period > 0 and self.nevals % self.period == 0` (`:241`), `nevals` already incremented -/
def triggers (period : Int) (nevals : Nat) : Bool := decide (0 < period ∧ (nevals : Int) % period = 0)

/-- One counted evaluation: the fitness is `max(possible_values)` of the *current* peaks, `nevals` is
incremented, and `changePeaks` runs afterwards exactly when `triggers`.  The offline-error bookkeeping
(`:234-238`) only reads the state, except that `globalMaximum()` takes `max` over the peaks and so
raises when there is no peak at all (→ `none`).  Returns (fitness, change triggered?, new state, tape). -/
def evalCounted (cfg : Config α) (period : Int) (basis : Option (List α → α)) (st : State α) (x : List α)
    (t : Tape α) : Option (α × Bool × State α × Tape α) :=
  match call st.peaks (basis.map fun b => b x) x with
  | none => none
  | some v =>
    if st.peaks.isEmpty then none else
    let n := st.nevals + 1
    if triggers period n then
      match changePeaks cfg st.peaks t with
      | none => none
      | some (p', t') => some (v, true, ⟨p', n⟩, t')
    else some (v, false, ⟨st.peaks, n⟩, t)

/-- a history of counted evaluations -/
def evalMany (cfg : Config α) (period : Int) (basis : Option (List α → α)) :
    List (List α) → State α → Tape α → Option (List (α × Bool) × State α × Tape α)
  | [], st, t => some ([], st, t)
  | x :: xs, st, t =>
    match evalCounted cfg period basis st x t with
    | none => none
    | some (v, ch, st1, t1) =>
      match evalMany cfg period basis xs st1 t1 with
      | none => none
      | some (outs, st2, t2) => some ((v, ch) :: outs, st2, t2)

/-! ### `globalMaximum`, `maximums`, offline error (`:182-250`) -/

/-- `a == b` on scalars, through `<` -/
def feq (a b : α) : Bool := !(decide (a < b)) && !(decide (b < a))

/-- Python `<` on lists of floats -/
def listLt : List α → List α → Bool
  | [], [] => false
  | [], _ :: _ => true
  | _ :: _, [] => false
  | a :: as, b :: bs => if a < b then true else if b < a then false else listLt as bs

/-- Python `<` on the tuples `(value, position)` -/
def pairLt (p q : α × List α) : Bool :=
  if p.1 < q.1 then true else if q.1 < p.1 then false else listLt p.2 q.2

/-- the list `potential_max` of `globalMaximum` (`:185-190`): every peak function at its own centre -/
def potentialMax (peaks : List (Peak α)) : List (α × List α) :=
  peaks.map fun p => (peakValue p.fn p.pos p.pos p.height p.width, p.pos)

/-- `globalMaximum()` (`:182-191`): `max` of the `(value, position)` tuples — the first maximal one;
`none` without peaks (`ValueError`) -/
def globalMaximum (peaks : List (Peak α)) : Option (α × List α) :=
  match potentialMax peaks with
  | [] => none
  | a :: t => some (t.foldl (fun m v => if pairLt m v then v else m) a)

/-- insertion into a list sorted in descending order, after the elements that are not smaller
(`sorted(..., reverse=True)` is stable: equal elements keep their order) -/
def insertDesc (x : α × List α) : List (α × List α) → List (α × List α)
  | [] => [x]
  | y :: t => if pairLt y x then x :: y :: t else y :: insertDesc x t

def sortDesc (l : List (α × List α)) : List (α × List α) :=
  l.foldl (fun acc x => insertDesc x acc) []

/-- `maximums()` (`:193-207`): the peaks whose own centre value is not below the landscape there,
sorted with the global maximum first -/
def maximums (peaks : List (Peak α)) (basis : Option (List α → α)) : List (α × List α) :=
  sortDesc ((potentialMax peaks).filter fun vp =>
    match call peaks (basis.map fun f => f vp.2) vp.2 with
    | none => false
    | some c => !(decide (vp.1 < c)))

/-- the offline-error registers `_optimum`, `_error`, `_offline_error` (`:174-177`) -/
structure ErrState (α : Type) where
  optimum : Option α
  error : Option α
  offline : α

/-- Python `min(a, b)` : `b if b < a else a` -/
def fmin (a b : α) : α := if b < a then b else a

/-- the bookkeeping of one counted evaluation with fitness `v` (`:233-238`); `changed` = the evaluation
triggered `changePeaks`, which forgets the optimum (`:332`).  `none`: no peak to take the optimum from. -/
def errStep (peaks : List (Peak α)) (e : ErrState α) (v : α) (changed : Bool) : Option (ErrState α) :=
  let refreshed : Option (α × Option α) :=
    match e.optimum with
    | some o => some (o, e.error)
    | none => (globalMaximum peaks).map fun g => (g.1, some (abs (v - g.1)))
  match refreshed with
  | none => none
  | some (o, err0) =>
    match err0 with
    | none => none
    | some er =>
      let er' := fmin er (abs (v - o))
      some ⟨if changed then none else some o, some er', e.offline + er'⟩

/-- `offlineError()` = `_offline_error / nevals` (`:246-247`); `ZeroDivisionError` before the first evaluation -/
def offlineError (e : ErrState α) (nevals : Nat) : Option α :=
  if nevals = 0 then none else some (e.offline / RealLike.ofNat nevals)

/-! ### `MovingPeaks.__init__`, the `pfunc` argument (`:120-138`) and whole benchmark objects -/

/-- the `pfunc` argument: a function object (`len(pfunc)` raises `TypeError`, `:136-138`) or a
list / tuple of function objects (`:131-135`) -/
inductive PFuncArg where
  | one (f : PFunc)
  | many (fs : List PFunc)
  deriving DecidableEq, Repr

/-- a well-formed answer of `random.sample(seq, k)` for `len(seq) = n`: `k` pairwise distinct positions below `n` -/
def sampleOK (n k : Nat) (idx : List Nat) : Bool :=
  idx.length == k && idx.all (· < n) && idx.eraseDups.length == idx.length

/-- `:130-138` after fixes F33/F34: the functions of the initial peaks, the pool `pfunc_pool` from which
`changePeaks` draws the functions of new peaks, and the rest of the tape.
* one function: repeated `npeaks` times, pool of one;
* a list of exactly `npeaks` functions: **a copy** of it (`list(pfunc)`, F33), the pool is the list;
* any other list: `self.random.sample(pfunc, npeaks)` — `self.random` is assigned before (F34); the
  positions drawn are the next draw of the tape; `random.sample` raises `ValueError` when the list is
  shorter than `npeaks` (→ `none`). -/
def initFunctions (pf : PFuncArg) (npeaks : Nat) (t : Tape α) : Option (List PFunc × List PFunc × Tape α) :=
  match pf with
  | .one f => some (List.replicate npeaks f, [f], t)
  | .many fs =>
    if fs.length = npeaks then some (fs, fs, t)
    else if fs.length < npeaks then none
    else match t with
      | .sample idx :: t1 =>
        if sampleOK fs.length npeaks idx then some (idx.filterMap (fs[·]?), fs, t1) else none
      | _ => none

/-- One benchmark object: configuration (with its `pfunc_pool`), `period`, basis function, peaks and
evaluation counter.  Everything an operation reads or writes is in here: the model has value
semantics, two objects share nothing. -/
structure Bench (α : Type) where
  cfg : Config α
  period : Int
  basis : Option (List α → α)
  st : State α
  err : ErrState α

/-- `MovingPeaks(dim, random, **scenario)`: `base` carries the scalar parameters (its `pool` field is
ignored and replaced by the pool `initFunctions` returns), `npeaks` is the initial number of peaks
(the middle element when `npeaks` was given as `[min, initial, max]`, then `base.limits = some (min, max)`). -/
def init (base : Config α) (period : Int) (basis : Option (List α → α)) (pf : PFuncArg) (npeaks : Nat)
    (uniformHeight uniformWidth : α) (t : Tape α) : Option (Bench α × Tape α) :=
  match initFunctions pf npeaks t with
  | none => none
  | some (fns, pool, t1) =>
    match initPeaks base.dim fns uniformHeight uniformWidth t1 with
    | none => none
    | some (peaks, t2) => some (⟨{ base with pool := pool }, period, basis, ⟨peaks, 0⟩, ⟨none, none, RealLike.ofNat 0⟩⟩, t2)

/-- what a user does with a benchmark object -/
inductive Action (α : Type) where
  | change                    -- `mp.changePeaks()`
  | eval (x : List α)         -- `mp(x, count=False)`
  | evalCount (x : List α)    -- `mp(x)`

inductive Out (α : Type) where
  | changed (npeaks : Nat)
  | value (v : α)
  | counted (v : α) (change : Bool) (nevals npeaks : Nat) (error : Option α)

/-- one action on one benchmark object with its own random source -/
def Bench.step (b : Bench α) (a : Action α) (t : Tape α) : Option (Bench α × Out α × Tape α) :=
  match a with
  | .change =>
    match changePeaks b.cfg b.st.peaks t with
    | none => none
    | some (p', t') =>
      some ({ b with st := ⟨p', b.st.nevals⟩, err := { b.err with optimum := none } }, .changed p'.length, t')
  | .eval x =>
    match call b.st.peaks (b.basis.map fun f => f x) x with
    | none => none
    | some v => some (b, .value v, t)
  | .evalCount x =>
    match evalCounted b.cfg b.period b.basis b.st x t with
    | none => none
    | some (v, ch, st', t') =>
      match errStep b.st.peaks b.err v ch with
      | none => none
      | some e' => some ({ b with st := st', err := e' }, .counted v ch st'.nevals st'.peaks.length e'.error, t')

/-- a benchmark object together with its random source -/
structure Slot (α : Type) where
  b : Bench α
  tape : Tape α

def Slot.step (s : Slot α) (a : Action α) : Option (Slot α × Out α) :=
  match s.b.step a s.tape with
  | none => none
  | some (b', o, t') => some (⟨b', t'⟩, o)

/-- a history of actions on one object -/
def Slot.run : List (Action α) → Slot α → Option (Slot α × List (Out α))
  | [], s => some (s, [])
  | a :: as, s =>
    match s.step a with
    | none => none
    | some (s1, o) =>
      match Slot.run as s1 with
      | none => none
      | some (s2, os) => some (s2, o :: os)

/-- several benchmark objects alive at the same time (e.g. built from one scenario dictionary and one
list of peak functions) -/
abbrev World (α : Type) := List (Slot α)

/-- an action addressed to object `i` -/
def World.step (w : World α) (i : Nat) (a : Action α) : Option (World α × Out α) :=
  match w[i]? with
  | none => none
  | some s =>
    match s.step a with
    | none => none
    | some (s', o) => some (w.set i s', o)

/-- an interleaved history of actions on the objects of a world -/
def World.run : List (Nat × Action α) → World α → Option (World α × List (Out α))
  | [], w => some (w, [])
  | (i, a) :: ops, w =>
    match w.step i a with
    | none => none
    | some (w1, o) =>
      match World.run ops w1 with
      | none => none
      | some (w2, os) => some (w2, o :: os)

/-- `diversity(population)` (`:387-394`): the square root of the summed squared distances to the
centroid; an empty population raises (`none`).  `zip` truncates to the first individual's length. -/
def popDiversity (pop : List (List α)) : Option α :=
  match pop with
  | [] => none
  | x0 :: _ =>
    let zero : List α := List.replicate x0.length (RealLike.ofNat 0)
    let tot := pop.foldl (fun d x => (d.zip x).map fun p => p.1 + p.2) zero
    let mean := tot.map fun di => di / RealLike.ofNat pop.length
    some (sqrt (sum ((pop.map fun x => (mean.zip x).map fun p => (p.1 - p.2) * (p.1 - p.2)).flatten)))

/-- Python `int(round(x))` on a double: round half to even. -/
def pyRoundFloat (x : Float) : Int :=
  let f := x.floor
  let d := x - f
  let fi : Int := f.toInt64.toInt
  if d < 0.5 then fi else if d > 0.5 then fi + 1 else if fi % 2 = 0 then fi else fi + 1

end MovingPeaks
