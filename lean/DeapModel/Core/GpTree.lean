/-
GP trees (deap/gp.py).  Import-free executable model.

Two levels:
* tree level  — `Tree`, `flatten`, `size`, `height`, `leafDepths`, `wt` (well-typedness);
* list level  — the code AS CODED on the prefix-order node list (`PrimitiveTree` is a `list`):
  `searchSubtree` / `searchSubtreePy` (any Python int index), `heightL`, `setSlice`/`setItem` (`__setitem__`),
  `generate` (+ `genFull`, `genGrow`, `genHalfAndHalf`, `genRamped`), `cxOnePoint`, `cxOnePointLeafBiased`,
  `mutUniform`, `mutNodeReplacement`, `mutEphemeral`, `mutInsert`, `mutShrink`, `staticLimit`;
* histories   — `Op`, `Step`, `stepState`, `runHistory`: sequences of (possibly static-limited) operators applied to
  the same tree objects of a population, one tape threaded through.

Randomness is an explicit tape of draws consumed in the order the Python code calls `random.*`.
Every function is total; an exception of the Python code (IndexError of `random.choice([])`,
the `__setitem__` guards, tape exhaustion / wrong kind of draw) is `none`.
-/
namespace GpTree

/-- `Primitive` instance / `Terminal` instance / instance (or class, in the pools) of a
`MetaEphemeral` class. -/
inductive Kind | prim | term | eph
  deriving DecidableEq, Repr

/-- A node.  `ret`/`args` are type ids; `arity = len(args)` (gp.py:201; terminals: 0, gp.py:231).
`text` is what `format()` returns for a terminal (`str(value)` / `repr(value)`, gp.py:234);
for an ephemeral *class* stored in a pool it is irrelevant (the instance gets its value when
it is created, gp.py:262). -/
structure Prim where
  name : String
  ret : Nat
  args : List Nat
  kind : Kind
  text : String
  deriving DecidableEq, Repr

def Prim.arity (p : Prim) : Nat := p.args.length

/-- The type id of `__type__ = object` (gp.py:43). -/
def objT : Nat := 0

/-! ## Tree level -/

inductive Tree where
  | node (p : Prim) (args : List Tree)

def Tree.root : Tree → Prim
  | .node p _ => p

mutual
/-- prefix (depth-first) order, the order in which `generate` appends -/
def flatten : Tree → List Prim
  | .node p as => p :: flattenF as
def flattenF : List Tree → List Prim
  | [] => []
  | t :: ts => flatten t ++ flattenF ts
end

mutual
def Tree.size : Tree → Nat
  | .node _ as => 1 + sizeF as
def sizeF : List Tree → Nat
  | [] => 0
  | t :: ts => t.size + sizeF ts
end

mutual
/-- depth of the deepest node (root has depth 0) -/
def Tree.height : Tree → Nat
  | .node _ as => heightF as
/-- `max (height tᵢ + 1)`, 0 for no children -/
def heightF : List Tree → Nat
  | [] => 0
  | t :: ts => max (t.height + 1) (heightF ts)
end

mutual
/-- depths of the leaves (nodes without children) when the root sits at depth `d` -/
def leafDepths : Nat → Tree → List Nat
  | d, .node _ [] => [d]
  | d, .node _ (a :: as) => leafDepthsF (d + 1) (a :: as)
def leafDepthsF : Nat → List Tree → List Nat
  | _, [] => []
  | d, t :: ts => leafDepths d t ++ leafDepthsF d ts
end

mutual
/-- every node has exactly `arity` children -/
def wf : Tree → Bool
  | .node p as => (as.length == p.arity) && wfF as
def wfF : List Tree → Bool
  | [] => true
  | t :: ts => wf t && wfF ts
end

mutual
/-- Well-typed for a slot of type `slot`: the node's return type is accepted by the slot
(`issubclass(ret, slot)`), it has one child per declared argument, and each child is well
typed for the declared argument type. -/
def wt (sub : Nat → Nat → Bool) : Nat → Tree → Bool
  | slot, .node p as => sub p.ret slot && wtF sub p.args as
def wtF (sub : Nat → Nat → Bool) : List Nat → List Tree → Bool
  | [], [] => true
  | s :: ss, t :: ts => wt sub s t && wtF sub ss ts
  | _, _ => false
end

mutual
/-- the subtree whose root is the `i`-th node in prefix order -/
def subAt : Tree → Nat → Option Tree
  | .node p as, i => if i = 0 then some (.node p as) else subAtF as (i - 1)
def subAtF : List Tree → Nat → Option Tree
  | [], _ => none
  | t :: ts, i => if i < t.size then subAt t i else subAtF ts (i - t.size)
end

/-! ## Primitive sets -/

/-- `PrimitiveSetTyped`: the type-indexed pools as the dictionaries hold them
(`pset.primitives[type]`, `pset.terminals[type]`; a missing key is the empty list of the
`defaultdict`), `issubclass`, `pset.ret`, and `terms_count`/`prims_count` for `terminalRatio`. -/
structure Pset where
  sub : Nat → Nat → Bool
  prims : Nat → List Prim
  terms : Nat → List Prim
  ret : Nat
  termsCount : Nat
  primsCount : Nat

/-- gp.py:443-447 -/
def Pset.terminalRatio (ps : Pset) : Float :=
  Float.ofNat ps.termsCount / Float.ofNat (ps.termsCount + ps.primsCount)

/-! ### `_add` (gp.py:324-349): how the pools are filled -/

/-- the two dictionaries as association lists in insertion order -/
structure Dicts where
  prims : List (Nat × List Prim)
  terms : List (Nat × List Prim)

def dictGet (d : List (Nat × List Prim)) (τ : Nat) : List Prim :=
  match d.find? (fun e => e.1 == τ) with
  | some e => e.2
  | none => []

def dictHas (d : List (Nat × List Prim)) (τ : Nat) : Bool := d.any (fun e => e.1 == τ)

def appendNew (acc : List Prim) (items : List Prim) : List Prim :=
  items.foldl (fun a x => if x ∈ a then a else a ++ [x]) acc

/-- `addType` (gp.py:325-333): a new key collects, without duplicates, the items of every
existing key that is a subclass of it. -/
def addType (sub : Nat → Nat → Bool) (d : List (Nat × List Prim)) (τ : Nat) : List (Nat × List Prim) :=
  if dictHas d τ then d
  else d ++ [(τ, d.foldl (fun acc e => if sub e.1 τ then appendNew acc e.2 else acc) [])]

/-- gp.py:347-349 -/
def appendCompat (sub : Nat → Nat → Bool) (d : List (Nat × List Prim)) (p : Prim) : List (Nat × List Prim) :=
  d.map (fun e => if sub p.ret e.1 then (e.1, e.2 ++ [p]) else e)

/-- `PrimitiveSetTyped._add` -/
def addPrim (sub : Nat → Nat → Bool) (ds : Dicts) (p : Prim) : Dicts :=
  let pr := addType sub ds.prims p.ret                              -- :335
  let te := addType sub ds.terms p.ret                              -- :336
  if p.kind = .prim then                                            -- :339
    let pr := p.args.foldl (addType sub) pr                         -- :340-341
    let te := p.args.foldl (addType sub) te                         -- :342
    ⟨appendCompat sub pr p, te⟩
  else ⟨pr, appendCompat sub te p⟩

/-! ## Tape -/

/-- One call of the `random` module, carrying its arguments (checked by the model against what
the code passes) and its result. -/
inductive Draw
  | rnd (x : Float)
  | randint (a b x : Int)
  | randrange (a b x : Nat)
  | choice (n i : Nat)

abbrev Tape := List Draw

/-- Why a run of the model produced no result.
`tapeEnd`  — the code asked for another draw and the tape is exhausted;
`mismatch` — the next draw is not an answer to the call the code makes (other function, other
             arguments, result outside the function's contract): an ill-typed tape;
`raised`   — the Python code raises (IndexError of `random.choice([])` / of indexing past the end,
             ValueError of `randrange` on an empty range / of the `__setitem__` guard …);
`fuel`     — the iteration bound of a modelled loop ran out (shown never to happen). -/
inductive Fault | tapeEnd | mismatch | raised | fuel
  deriving DecidableEq, Repr

/-- result of a modelled call -/
abbrev R (α : Type) := Except Fault α

/-- a Python exception of a pure list-level helper -/
def liftO {α : Type} : Option α → R α
  | some x => .ok x
  | none => .error .raised

/-- `random.choice(seq)`; `IndexError` on the empty sequence -/
def popChoice {α : Type} (seq : List α) (tp : Tape) : R (α × Tape) :=
  if seq.isEmpty then .error .raised
  else match tp with
    | [] => .error .tapeEnd
    | .choice n i :: tp =>
      if n = seq.length then
        match seq[i]? with
        | some x => .ok (x, tp)
        | none => .error .mismatch
      else .error .mismatch
    | _ :: _ => .error .mismatch

/-- `random.randrange(a, b)`; `ValueError` on an empty range -/
def popRange (a b : Nat) (tp : Tape) : R (Nat × Tape) :=
  if ¬ a < b then .error .raised
  else match tp with
    | [] => .error .tapeEnd
    | .randrange a' b' x :: tp => if a' = a ∧ b' = b ∧ a ≤ x ∧ x < b then .ok (x, tp) else .error .mismatch
    | _ :: _ => .error .mismatch

def popRnd : Tape → R (Float × Tape)
  | [] => .error .tapeEnd
  | .rnd x :: tp => .ok (x, tp)
  | _ :: _ => .error .mismatch

/-- `term = term()` for an ephemeral class (gp.py:642-643, 794-795, 862-863, 827): the value
comes from the user's generator function; the one drawn by the generator is on the tape as a
`randint` (the harness' generators are `random.randint(lo, hi)`), `repr` of an int is its
decimal text. -/
def instantiate (p : Prim) (tp : Tape) : R (Prim × Tape) :=
  if p.kind = .eph then
    match tp with
    | [] => .error .tapeEnd
    | .randint _ _ x :: tp' => .ok ({ p with text := toString x }, tp')
    | _ :: _ => .error .mismatch
  else .ok (p, tp)

/-! ## List level: `PrimitiveTree` methods -/

/-- the `while total > 0` loop of `searchSubtree` (gp.py:183-185); `rest` is `self[end:]`;
`self[end]` past the end raises `IndexError`. -/
def walk : List Prim → Nat → Nat → Option Nat
  | _, 0, e => some e
  | [], _ + 1, _ => none
  | p :: rest, t + 1, e => walk rest (t + p.arity) (e + 1)

/-- `searchSubtree(begin)` (gp.py:176-188) for a non-negative `begin` (the lines after the
normalisation of a negative index) → `(begin, end)` of the returned slice.  Every operator calls the method
with such an index (`randrange`, `enumerate` positions). -/
def searchSubtree (l : List Prim) (b : Nat) : Option (Nat × Nat) :=
  match l.drop b with
  | [] => none
  | p :: rest => (walk rest p.arity (b + 1)).map (fun e => (b, e))

/-- the index a Python list access `self[i]` refers to inside the method after `if begin < 0: begin += len(self)`
(gp.py:181-182) -/
def pyIndex (n : Nat) (i : Int) : Int := if i < 0 then i + (n : Int) else i

/-- `PrimitiveTree.searchSubtree(begin)` for ANY Python int `begin`, as Python indexes a list
(gp.py:176-188).  `begin < 0` is normalised once (`begin += len(self)`, :181-182).
* normalised `begin ≥ 0`: the arity walk `searchSubtree`; `IndexError` (none) for `begin ≥ len`.
* normalised `begin` still negative (`begin < -len`): nothing is normalised again, `self[begin]`, `self[begin+1]`, …
  are ordinary negative list indices: the walk runs over `self[begin+len:]` and then wraps around to
  `self[0], self[1], …` (the slice returned has a negative start); `IndexError` for `begin < -2·len` or when
  the walk reaches `len`.  Outside the statement (no node has that index); modelled because the code does it. -/
def searchSubtreePy (l : List Prim) (i : Int) : Option (Int × Int) :=
  let n : Int := (l.length : Int)
  let b := pyIndex l.length i
  if 0 ≤ b then
    (searchSubtree l b.toNat).map (fun be => ((be.1 : Int), (be.2 : Int)))
  else if b + n < 0 then none
  else
    match l.drop (b + n).toNat ++ l with
    | [] => none
    | p :: rest => (walk rest p.arity 1).map (fun k => (b, b + (k : Int)))

/-- the loop of `height` (gp.py:162-168); head of `stack` = top; `stack.pop()` on an empty
stack raises. -/
def heightGo : List Prim → List Nat → Nat → Option Nat
  | [], _, m => some m
  | _ :: _, [], _ => none
  | p :: rest, d :: st, m => heightGo rest (List.replicate p.arity (d + 1) ++ st) (max m d)

/-- `PrimitiveTree.height` -/
def heightL (l : List Prim) : Option Nat := heightGo l [0] 0

/-- `PrimitiveTree.root` (gp.py:171-174) -/
def rootL (l : List Prim) : Option Prim := l[0]?

/-- the arity sum of the `__setitem__` guard (gp.py:76-78) -/
def guardTotal : List Prim → Option Int
  | [] => none                                      -- val[0] raises
  | v :: vs => some (vs.foldl (fun tot n => tot + ((n.arity : Int) - 1)) (v.arity : Int))

/-- `self[b:e] = val` through `__setitem__` (gp.py:65-90), for `b ≤ e` as produced by
`searchSubtree`. -/
def setSlice (l : List Prim) (b e : Nat) (val : List Prim) : Option (List Prim) :=
  if b ≥ l.length then none                          -- :69
  else match guardTotal val with
    | some 0 => some (l.take b ++ val ++ l.drop e)   -- :90
    | _ => none                                      -- :79

/-- `self[key] = val` for an integer key (gp.py:87-90) -/
def setItem (l : List Prim) (i : Nat) (val : Prim) : Option (List Prim) :=
  match l[i]? with
  | none => none
  | some old => if val.arity ≠ old.arity then none else some (l.set i val)

def getSlice (l : List Prim) (b e : Nat) : List Prim := (l.take e).drop b

/-! ## Generators (gp.py:537-656) -/

inductive GenMode | full | grow
  deriving DecidableEq, Repr

/-- `condition(height, depth)`: gp.py:550-552 (full), gp.py:570-575 (grow; `or`/`and`
short-circuit, so `random.random()` is called only when `depth ≠ height ∧ depth ≥ min_`). -/
def condition (mode : GenMode) (ps : Pset) (min_ h d : Nat) (tp : Tape) : R (Bool × Tape) :=
  match mode with
  | .full => .ok (d == h, tp)
  | .grow =>
    if d == h then .ok (true, tp)
    else if d ≥ min_ then
      match popRnd tp with
      | .error e => .error e
      | .ok (x, tp') => .ok (decide (x < ps.terminalRatio), tp')
    else .ok (false, tp)

/-- the `while len(stack) != 0` loop (gp.py:632-655); head of `stack` = top.  `fuel` bounds the
number of iterations; every iteration consumes at least one draw, so `fuel = tape length + 1`
never runs out before the tape does (`C11.gen_total`: the fault `fuel` does not occur). -/
def genLoop (mode : GenMode) (ps : Pset) (min_ h : Nat) : Nat → List (Nat × Nat) → Tape → R (List Prim × Tape)
  | _, [], tp => .ok ([], tp)
  | 0, _ :: _, _ => .error .fuel
  | fuel + 1, (d, τ) :: st, tp =>
    match condition mode ps min_ h d tp with
    | .error e => .error e
    | .ok (true, tp) =>
      match popChoice (ps.terms τ) tp with                       -- :636
      | .error e => .error e
      | .ok (term, tp) =>
        match instantiate term tp with                            -- :642-643
        | .error e => .error e
        | .ok (term, tp) =>
          match genLoop mode ps min_ h fuel st tp with
          | .error e => .error e
          | .ok (rest, tp) => .ok (term :: rest, tp)               -- :644
    | .ok (false, tp) =>
      match popChoice (ps.prims τ) tp with                       -- :647
      | .error e => .error e
      | .ok (prim, tp) =>
        -- :654-655 pushes reversed(args), so the first argument is on top
        match genLoop mode ps min_ h fuel (prim.args.map (fun a => (d + 1, a)) ++ st) tp with
        | .error e => .error e
        | .ok (rest, tp) => .ok (prim :: rest, tp)                 -- :653

/-- `generate(pset, min_, max_, condition, type_)` (gp.py:607-656); `type_ = None` is resolved
by the caller (`ps.ret`). -/
def generate (mode : GenMode) (ps : Pset) (min_ max_ : Nat) (τ : Nat) (tp : Tape) : R (List Prim × Tape) :=
  if max_ < min_ then .error .raised                               -- randint on an empty range
  else match tp with
  | [] => .error .tapeEnd
  | .randint a b x :: tp' =>                                       -- :630
    if a = (min_ : Int) ∧ b = (max_ : Int) ∧ a ≤ x ∧ x ≤ b then
      genLoop mode ps min_ x.toNat (tp'.length + 1) [(0, τ)] tp'
    else .error .mismatch
  | _ :: _ => .error .mismatch

def genFull (ps : Pset) (min_ max_ τ : Nat) (tp : Tape) := generate .full ps min_ max_ τ tp
def genGrow (ps : Pset) (min_ max_ τ : Nat) (tp : Tape) := generate .grow ps min_ max_ τ tp

/-- gp.py:593-594: `random.choice((genGrow, genFull))` -/
def genHalfAndHalf (ps : Pset) (min_ max_ τ : Nat) (tp : Tape) : R (List Prim × Tape) :=
  match popChoice [GenMode.grow, GenMode.full] tp with
  | .error e => .error e
  | .ok (m, tp) => generate m ps min_ max_ τ tp

/-- gp.py:632-639: the deprecated name; warns and calls `genHalfAndHalf` -/
def genRamped (ps : Pset) (min_ max_ τ : Nat) (tp : Tape) : R (List Prim × Tape) :=
  genHalfAndHalf ps min_ max_ τ tp

/-! ## Crossovers (gp.py:663-755) -/

/-- `[i + k | k, x ∈ enumerate(l) if f x]` -/
def idxGo {α : Type} (f : α → Bool) : List α → Nat → List Nat
  | [], _ => []
  | x :: l, i => if f x then i :: idxGo f l (i + 1) else idxGo f l (i + 1)

/-- indices `idx ≥ 1` whose node satisfies `f` (the `enumerate(ind[1:], 1)` loops) -/
def idxFrom1 (f : Prim → Bool) (l : List Prim) : List Nat := idxGo f (l.drop 1) 1

/-- keys of `types` in insertion order -/
def keysOf (f : Prim → Bool) (l : List Prim) : List Nat :=
  (((l.drop 1).filter f).map (·.ret)).eraseDups

/-- `[type_ for type_ in types1 if type_ in types2]`: keys of `types1` in insertion order that are keys of `types2` -/
def commonTypes (f1 f2 : Prim → Bool) (l1 l2 : List Prim) : List Nat :=
  (keysOf f1 l1).filter (fun τ => (keysOf f2 l2).contains τ)

/-- `random.choice(common_types)` (gp.py:707-710, 762-765): `common_types` is the list of the types of `ind1`
in order of first occurrence that also occur in `ind2` — exactly `commonTypes` — so the draw is an ordinary
index into it. -/
def popPick (common : List Nat) (tp : Tape) : R (Nat × Tape) := popChoice common tp

/-- gp.py:693-698 / 748-753, given the candidate index lists of the chosen type -/
def swapAt (ind1 ind2 : List Prim) (c1 c2 : List Nat) (tp : Tape) : R (List Prim × List Prim × Tape) :=
  match popChoice c1 tp with
  | .error e => .error e
  | .ok (i1, tp) =>
    match popChoice c2 tp with
    | .error e => .error e
    | .ok (i2, tp) =>
      match searchSubtree ind1 i1, searchSubtree ind2 i2 with
      | some (b1, e1), some (b2, e2) =>
        -- right-hand side first, then the two slice assignments, left to right
        let s2 := getSlice ind2 b2 e2
        let s1 := getSlice ind1 b1 e1
        match setSlice ind1 b1 e1 s2, setSlice ind2 b2 e2 s1 with
        | some r1, some r2 => .ok (r1, r2, tp)
        | _, _ => .error .raised
      | _, _ => .error .raised

/-- `cxOnePoint` (gp.py:684-714; the per-type index lists are always built) -/
def cxOnePoint (ind1 ind2 : List Prim) (tp : Tape) : R (List Prim × List Prim × Tape) :=
  if ind1.length < 2 ∨ ind2.length < 2 then .ok (ind1, ind2, tp)       -- :691
  else
    let common := commonTypes (fun _ => true) (fun _ => true) ind1 ind2  -- :696-702
    if common.length > 0 then                                            -- :704
      match popPick common tp with                                       -- :705
      | .error e => .error e
      | .ok (τ, tp) =>
        swapAt ind1 ind2 (idxFrom1 (fun p => p.ret == τ) ind1) (idxFrom1 (fun p => p.ret == τ) ind2) tp
    else .ok (ind1, ind2, tp)

/-- `terminal_op = partial(eq, 0)` / `primitive_op = partial(lt, 0)` (gp.py:726-727) -/
def arityOp (terminal : Bool) (p : Prim) : Bool := if terminal then p.arity == 0 else decide (0 < p.arity)

/-- `cxOnePointLeafBiased` (gp.py:703-755) -/
def cxOnePointLeafBiased (ind1 ind2 : List Prim) (termpb : Float) (tp : Tape) : R (List Prim × List Prim × Tape) :=
  if ind1.length < 2 ∨ ind2.length < 2 then .ok (ind1, ind2, tp)       -- :721
  else
    match popRnd tp with
    | .error e => .error e
    | .ok (x1, tp) =>
      match popRnd tp with
      | .error e => .error e
      | .ok (x2, tp) =>
        -- terminal_op = (0 == arity), primitive_op = (0 < arity)            :726-729
        let op1 : Prim → Bool := arityOp (decide (x1 < termpb))
        let op2 : Prim → Bool := arityOp (decide (x2 < termpb))
        let common := commonTypes op1 op2 ind1 ind2
        if common.length > 0 then                                        -- :745
          match popPick common tp with
          | .error e => .error e
          | .ok (τ, tp) =>
            swapAt ind1 ind2 (idxFrom1 (fun p => op1 p && p.ret == τ) ind1)
              (idxFrom1 (fun p => op2 p && p.ret == τ) ind2) tp
        else .ok (ind1, ind2, tp)

/-! ## Mutations (gp.py:761-900) -/

/-- `mutUniform` (gp.py:761-775); `expr` = the replacement generator, called with the type of
the chosen node. -/
def mutUniform (ind : List Prim) (expr : Nat → Tape → R (List Prim × Tape)) (tp : Tape) :
    R (List Prim × Tape) :=
  match popRange 0 ind.length tp with                                   -- :771
  | .error e => .error e
  | .ok (index, tp) =>
    match searchSubtree ind index, ind[index]? with                      -- :772-773
    | some (b, e), some node =>
      match expr node.ret tp with                                        -- :774
      | .error e => .error e
      | .ok (new, tp) =>
        match setSlice ind b e new with
        | some r => .ok (r, tp)
        | none => .error .raised
    | _, _ => .error .raised

/-- `mutNodeReplacement` (gp.py:778-801) -/
def mutNodeReplacement (ind : List Prim) (ps : Pset) (tp : Tape) : R (List Prim × Tape) :=
  if ind.length < 2 then .ok (ind, tp)                                  -- :786
  else
    match popRange 1 ind.length tp with                                  -- :789
    | .error e => .error e
    | .ok (index, tp) =>
      match ind[index]? with
      | none => .error .raised
      | some node =>
        if node.arity = 0 then                                           -- :792
          match popChoice (ps.terms node.ret) tp with                    -- :793
          | .error e => .error e
          | .ok (term, tp) =>
            match instantiate term tp with                               -- :794-795
            | .error e => .error e
            | .ok (term, tp) =>
              match setItem ind index term with
              | some r => .ok (r, tp)
              | none => .error .raised
        else
          let prims := (ps.prims node.ret).filter (fun p => p.args == node.args)   -- :798
          match popChoice prims tp with
          | .error e => .error e
          | .ok (p, tp) =>
            match setItem ind index p with
            | some r => .ok (r, tp)
            | none => .error .raised

/-- the `for i in ephemerals_idx` loop (gp.py:826-827) -/
def reinstAll (ind : List Prim) : List Nat → Tape → R (List Prim × Tape)
  | [], tp => .ok (ind, tp)
  | i :: is, tp =>
    match ind[i]? with
    | none => .error .raised
    | some node =>
      match instantiate node tp with
      | .error e => .error e
      | .ok (n', tp) =>
        match setItem ind i n' with
        | none => .error .raised
        | some ind' => reinstAll ind' is tp

/-- `mutEphemeral` (gp.py:804-829); `one = true` ↔ mode `"one"` (other strings raise) -/
def mutEphemeral (ind : List Prim) (one : Bool) (tp : Tape) : R (List Prim × Tape) :=
  let idx := idxGo (fun p => p.kind = .eph) ind 0                       -- :818
  if idx.length > 0 then
    if one then
      match popChoice idx tp with                                        -- :824
      | .error e => .error e
      | .ok (i, tp) => reinstAll ind [i] tp
    else reinstAll ind idx tp
  else .ok (ind, tp)

/-- the `for i, arg_type in enumerate(new_node.args)` loop of `mutInsert` (gp.py:859-866),
already producing the final `new_subtree` content after the slice replacement at `position`. -/
def insertArgs (ps : Pset) (sub : List Prim) (position : Nat) : Nat → List Nat → Tape → R (List Prim × Tape)
  | _, [], tp => .ok ([], tp)
  | i, a :: as, tp =>
    if i = position then
      match insertArgs ps sub position (i + 1) as tp with
      | .error e => .error e
      | .ok (r, tp) => .ok (sub ++ r, tp)
    else
      match popChoice (ps.terms a) tp with                               -- :861
      | .error e => .error e
      | .ok (term, tp) =>
        match instantiate term tp with                                   -- :862-863
        | .error e => .error e
        | .ok (term, tp) =>
          match insertArgs ps sub position (i + 1) as tp with
          | .error e => .error e
          | .ok (r, tp) => .ok (term :: r, tp)

/-- `mutInsert` (gp.py:832-869) -/
def mutInsert (ind : List Prim) (ps : Pset) (tp : Tape) : R (List Prim × Tape) :=
  match popRange 0 ind.length tp with                                   -- :843
  | .error e => .error e
  | .ok (index, tp) =>
    match ind[index]?, searchSubtree ind index with                      -- :844-845
    | some node, some (b, e) =>
      let primitives := (ps.prims node.ret).filter (fun p => p.args.contains node.ret)   -- :850
      if primitives.length = 0 then .ok (ind, tp)                        -- :852
      else
        match popChoice primitives tp with                               -- :855
        | .error e => .error e
        | .ok (newNode, tp) =>
          let positions := idxGo (fun a => a == node.ret) newNode.args 0
          match popChoice positions tp with                              -- :857
          | .error e => .error e
          | .ok (position, tp) =>
            match insertArgs ps (getSlice ind b e) position 0 newNode.args tp with
            | .error e => .error e
            | .ok (newSub, tp) =>
              match setSlice ind b e (newNode :: newSub) with            -- :867-868
              | some r => .ok (r, tp)
              | none => .error .raised
    | _, _ => .error .raised

/-- the `for _ in range(arg_idx + 1)` loop (gp.py:892-895): returns the last `rslice` -/
def nthArgSpan (ind : List Prim) : Nat → Nat → Option (Nat × Nat)
  | 0, rindex => searchSubtree ind rindex
  | k + 1, rindex =>
    match searchSubtree ind rindex with
    | none => none
    | some (b, e) => nthArgSpan ind k (rindex + (getSlice ind b e).length)

/-- `mutShrink` (gp.py:872-900) -/
def mutShrink (ind : List Prim) (tp : Tape) : R (List Prim × Tape) :=
  if ind.length < 3 then .ok (ind, tp)                                   -- :880 (`or` short-circuits)
  else
  match heightL ind with
  | none => .error .raised
  | some h =>
    if h ≤ 1 then .ok (ind, tp)                                          -- :880
    else
      -- :884-886; the tuples `(i, node)` are represented by `i` (`node = individual[i]`)
      let iprims := idxFrom1 (fun p => p.kind = .prim && p.args.contains p.ret) ind
      if iprims.length ≠ 0 then
        match popChoice iprims tp with                                   -- :889
        | .error e => .error e
        | .ok (index, tp) =>
          match ind[index]? with
          | none => .error .raised
          | some prim =>
          let cands := idxGo (fun a => a == prim.ret) prim.args 0
          match popChoice cands tp with                                  -- :890
          | .error e => .error e
          | .ok (argIdx, tp) =>
            match nthArgSpan ind argIdx (index + 1), searchSubtree ind index with
            | some (rb, re), some (b, e) =>
              match setSlice ind b e (getSlice ind rb re) with           -- :898
              | some r => .ok (r, tp)
              | none => .error .raised
            | _, _ => .error .raised
      else .ok (ind, tp)

/-! ## `staticLimit` (gp.py:908-949) -/

/-- the `for i, ind in enumerate(new_inds)` loop: `keep` = deep copies of the arguments taken
before the operator ran, `new` = what the operator returned. -/
def staticLimitLoop (key : List Prim → Option Nat) (maxv : Nat) (keep : List (List Prim)) :
    List (List Prim) → Tape → R (List (List Prim) × Tape)
  | [], tp => .ok ([], tp)
  | ind :: rest, tp =>
    match key ind with
    | none => .error .raised
    | some k =>
      if k > maxv then                                                   -- :943
        match popChoice keep tp with                                     -- :944
        | .error e => .error e
        | .ok (r, tp) =>
          match staticLimitLoop key maxv keep rest tp with
          | .error e => .error e
          | .ok (o, tp) => .ok (r :: o, tp)
      else
        match staticLimitLoop key maxv keep rest tp with
        | .error e => .error e
        | .ok (o, tp) => .ok (ind :: o, tp)

/-- the wrapper: `op` maps the argument trees and the tape to the returned trees.  `args` = all the trees given
to the operator, of which the first `npos` are passed POSITIONALLY (the others by keyword, e.g.
`mate(ind1, ind2=ind2)`): only positional arguments are copied into `keep_inds` (gp.py:957), then cut to one
per returned tree (gp.py:960).  Every returned tree is measured (gp.py:961-963); with no positional tree the
pool is empty and an over-limit child makes `random.choice` raise. -/
def staticLimit (key : List Prim → Option Nat) (maxv : Nat) (npos : Nat)
    (op : List (List Prim) → Tape → R (List (List Prim) × Tape))
    (args : List (List Prim)) (tp : Tape) : R (List (List Prim) × Tape) :=
  match op args tp with                                                  -- :958
  | .error e => .error e
  | .ok (new, tp) => staticLimitLoop key maxv ((args.take npos).take new.length) new tp

/-! ## Histories: sequences of operators applied to the same tree objects

A population is a list of tree OBJECTS (positions = identities; two positions are two distinct objects, as
`toolbox.clone` / `varAnd` guarantee).  A step names the operator, the position(s) of the tree(s) it is applied to
and optionally the `staticLimit` decorator around it; the operator's results are written back to the positions it
took its arguments from (`ind1, ind2 = toolbox.mate(ind1, ind2)`, `ind, = toolbox.mutate(ind)`).  One tape is
threaded through the whole history.  Read-only calls (`searchSubtree`, `height`, `str`), `copy.deepcopy` and pickle
round trips of a tree do not change any node list: at this level they are the identity and do not appear. -/

/-- the replacement generator handed to `mutUniform`: `genFull` / `genGrow` / (`none`) `genHalfAndHalf` -/
def runGen (m : Option GenMode) (ps : Pset) (mn mx τ : Nat) (tp : Tape) : R (List Prim × Tape) :=
  match m with
  | some .full => genFull ps mn mx τ tp
  | some .grow => genGrow ps mn mx τ tp
  | none => genHalfAndHalf ps mn mx τ tp

def lift1 : R (List Prim × Tape) → R (List (List Prim) × Tape)
  | .ok (l, tp) => .ok ([l], tp)
  | .error e => .error e
def lift2 : R (List Prim × List Prim × Tape) → R (List (List Prim) × Tape)
  | .ok (a, b, tp) => .ok ([a, b], tp)
  | .error e => .error e

/-- the modelled variation operators with their non-tree parameters and the position(s) of their tree(s) -/
inductive Op
  | cx (i j : Nat)
  | cxlb (i j : Nat) (termpb : Float)
  | mutu (i : Nat) (m : Option GenMode) (mn mx : Nat)
  | mutn (i : Nat)
  | mute (i : Nat) (one : Bool)
  | muti (i : Nat)
  | muts (i : Nat)

def Op.positions : Op → List Nat
  | .cx i j => [i, j]
  | .cxlb i j _ => [i, j]
  | .mutu i _ _ _ => [i]
  | .mutn i => [i]
  | .mute i _ => [i]
  | .muti i => [i]
  | .muts i => [i]

/-- the two parents of a crossover are two objects -/
def Op.distinct : Op → Bool
  | .cx i j => i != j
  | .cxlb i j _ => i != j
  | _ => true

/-- the operator as a function of its argument trees -/
def applyOp (ps : Pset) : Op → List (List Prim) → Tape → R (List (List Prim) × Tape)
  | .cx _ _, [x, y], tp => lift2 (cxOnePoint x y tp)
  | .cxlb _ _ pb, [x, y], tp => lift2 (cxOnePointLeafBiased x y pb tp)
  | .mutu _ m mn mx, [x], tp => lift1 (mutUniform x (fun τ tp => runGen m ps mn mx τ tp) tp)
  | .mutn _, [x], tp => lift1 (mutNodeReplacement x ps tp)
  | .mute _ one, [x], tp => lift1 (mutEphemeral x one tp)
  | .muti _, [x], tp => lift1 (mutInsert x ps tp)
  | .muts _, [x], tp => lift1 (mutShrink x tp)
  | _, _, _ => .error .raised

/-- `staticLimit(key, max_value)`; `npos` = how many of the operator's trees the caller passes positionally -/
structure Limit where
  key : List Prim → Option Nat
  maxv : Nat
  npos : Nat

structure Step where
  op : Op
  lim : Option Limit

def fetch (pop : List (List Prim)) : List Nat → Option (List (List Prim))
  | [] => some []
  | i :: is =>
    match pop[i]?, fetch pop is with
    | some x, some r => some (x :: r)
    | _, _ => none

/-- the returned trees take the places of the arguments (a surplus on either side is ignored) -/
def writeBack : List (List Prim) → List Nat → List (List Prim) → List (List Prim)
  | pop, i :: is, o :: os => writeBack (pop.set i o) is os
  | pop, _, _ => pop

/-- one step of a history.  A position outside the population raises (`IndexError`); a crossover of an object with
itself is outside the model (the statement's pairs are two trees) and answers `raised` as well. -/
def stepState (ps : Pset) (s : Step) (pop : List (List Prim)) (tp : Tape) : R (List (List Prim) × Tape) :=
  if s.op.distinct = false then .error .raised
  else match fetch pop s.op.positions with
  | none => .error .raised
  | some args =>
    match (match s.lim with
      | none => applyOp ps s.op args tp
      | some L => staticLimit L.key L.maxv L.npos (applyOp ps s.op) args tp) with
    | .error e => .error e
    | .ok (outs, tp) => .ok (writeBack pop s.op.positions outs, tp)

def runHistory (ps : Pset) : List Step → List (List Prim) → Tape → R (List (List Prim) × Tape)
  | [], pop, tp => .ok (pop, tp)
  | s :: ss, pop, tp =>
    match stepState ps s pop tp with
    | .error e => .error e
    | .ok (pop, tp) => runHistory ps ss pop tp

/-! ## List-level checkers used by the theorems and the driver -/

/-- running arity count: `c` subtrees are still expected -/
def closes : Nat → List Prim → Bool
  | c, [] => c == 0
  | 0, _ :: _ => false
  | c + 1, p :: l => closes (c + p.arity) l

/-- a complete prefix expression: the count starts at 1, stays positive, ends at 0 -/
def complete (l : List Prim) : Bool := closes 1 l

/-- typed version: the stack of the slot types still to be filled -/
def typed (sub : Nat → Nat → Bool) : List Nat → List Prim → Bool
  | ss, [] => ss.isEmpty
  | [], _ :: _ => false
  | s :: ss, p :: l => sub p.ret s && typed sub (p.args ++ ss) l

end GpTree
