/-
C01 / C19 — the prelude of the CLASS-METHOD TRANSLATOR (`harness/py2lean_c01.py`): the Lean meaning of the Python
built-ins that the translated sub-language of `deap/base.py` (classes `Fitness`, `ConstrainedFitness`) and of the two
wrapper bodies of `deap/tools/constraint.py` uses and that `Core/Py.lean` does not already define.  The definitions
`Gen01.<Class>_<method>` / `Gen19.<…>` that the translator regenerates from `/repo`'s source are written against
`Core/Py.lean` (tuple comparison, `Py.slice`) and the helpers below only.  Together with the rendering rules in the
docstring of `harness/py2lean_c01.py` this file is the translator's trusted base.  Import-free (core Lean only).
-/
import DeapModel.Core.Py

namespace Gen01

variable {β σ ρ : Type}

/-- a Python `slice(start, stop, step)` object; `none` = `None` -/
structure PySlice where
  start : Option Int
  stop : Option Int
  step : Option Int
deriving Repr, DecidableEq

/-- `slice(None)` -/
def PySlice.all : PySlice := ⟨none, none, none⟩

/-- one bound of `PySlice_AdjustIndices` for a sequence of length `n`: a negative bound counts from the end and is
clamped to `-1` (negative step) or `0`; a bound `>= n` is clamped to `n - 1` (negative step) or `n` -/
def adjust (n : Int) (neg : Bool) (i : Int) : Int :=
  if i < 0 then (if i + n < 0 then (if neg then -1 else 0) else i + n)
  else if n ≤ i then (if neg then n - 1 else n)
  else i

/-- `list(range(*s.indices(n)))` — CPython's `PySlice_Unpack` + `PySlice_AdjustIndices`.
NOT RENDERED: `step == 0` (`ValueError: slice step cannot be zero`); the index list is `[]` there. -/
def sliceIdx (s : PySlice) (n : Nat) : List Nat :=
  let step : Int := s.step.getD 1
  let neg : Bool := decide (step < 0)
  let start : Int := match s.start with
    | none => if neg then (n : Int) - 1 else 0
    | some i => adjust n neg i
  let stop : Int := match s.stop with
    | none => if neg then -1 else (n : Int)
    | some i => adjust n neg i
  if step = 0 then []
  else
    let len : Nat :=
      if neg then (if stop < start then ((start - stop - 1) / (-step)).toNat + 1 else 0)
      else (if start < stop then ((stop - start - 1) / step).toNat + 1 else 0)
    (List.range len).map fun (k : Nat) => (start + (k : Int) * step).toNat

/-- `seq[obj]` for a slice object `obj` (a new tuple / list: copy semantics) -/
def sliceObj (s : PySlice) (l : List β) : List β := Py.slice (sliceIdx s l.length) l

/-- `for x in xs: BODY` where BODY may `return`: the loop state `σ` is the tuple of the local variables BODY assigns,
`Sum.inl r` = BODY executed `return r` (the loop and the function end), `Sum.inr s` = BODY reached its end (or
`continue`) with the locals `s`. -/
def forRet (body : σ → β → Sum ρ σ) : List β → σ → Sum ρ σ
  | [], s => Sum.inr s
  | x :: xs, s =>
    match body s x with
    | Sum.inl r => Sum.inl r
    | Sum.inr s' => forRet body xs s'

/-- `sum` of a sequence of `int`s / `bool`s (left to right from 0) -/
def isum (l : List Int) : Int := l.foldl (· + ·) 0

/-- `zip(a, b, c)` — stops at the shortest operand -/
def zip3 {α₁ α₂ α₃ : Type} : List α₁ → List α₂ → List α₃ → List (α₁ × α₂ × α₃)
  | a :: as, b :: bs, c :: cs => (a, b, c) :: zip3 as bs cs
  | _, _, _ => []

end Gen01
