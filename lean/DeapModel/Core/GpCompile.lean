/-
GP printing, parsing and compilation (deap/gp.py:92-155, 199-242, 313-322, 480-531).
Executable model; imports only the tree model.

Python `str` values are modelled as `List Char` (sequences of code points), so that the theorems
about the string builder and the tokenizer are plain list reasoning.

* `fmt`          — `Primitive.format` / `Terminal.format`            gp.py:207-208, 234-235
* `strBuilder`   — the stack machine of `PrimitiveTree.__str__`       gp.py:92-106   (as coded)
* `render`       — what a tree denotes as text (recursive)
* `tokens`       — `re.split("[ \t\n\r\f\v(),]", s)` minus ''        gp.py:118, 122-123
* `fromStringGo` — the token loop of `from_string` with its type queue  gp.py:119-155 (as coded)
* `reparse`      — the same relabelling, by recursion on the tree
* `evalTree`     — what the prefix tree denotes as a value
* `compileSrc`, `compile`, `compileADF` — gp.py:480-531

CPython's `eval` of the generated source is NOT modelled: that evaluating `f(g(x), y)` applies the
callable bound to `f` to the values of the arguments is the meaning `evalTree` gives to `render t`.
-/
import DeapModel.Core.GpTree

namespace GpCompile
open GpTree

abbrev Str := List Char

/-- the text a node contributes: a primitive its name, a terminal what `format()` returns -/
def tok (p : Prim) : Str := if p.kind = .prim then p.name.toList else p.text.toList

/-- `", ".join(args)` -/
def joinArgs : List Str → Str
  | [] => []
  | [a] => a
  | a :: b :: rest => a ++ [',', ' '] ++ joinArgs (b :: rest)

/-- `node.format(*args)` when `len(args) == arity` (the only way `__str__` calls it):
`Primitive`: `"{name}({0}, {1}, …)".format(*args)` (gp.py:204-208); `Terminal`: `conv_fct(value)`. -/
def fmt (p : Prim) (args : List Str) : Str :=
  if p.kind = .prim then p.name.toList ++ ['('] ++ joinArgs args ++ [')'] else p.text.toList

mutual
def render : Tree → Str
  | .node p as => fmt p (renderF as)
def renderF : List Tree → List Str
  | [] => []
  | t :: ts => render t :: renderF ts
end

/-- the inner `while len(stack[-1][1]) == stack[-1][0].arity` loop (gp.py:99-104) for the top
frame `(p, args)` over the rest of the stack; returns the new `string` and stack. -/
def unwind : Prim → List Str → List (Prim × List Str) → Str → Str × List (Prim × List Str)
  | p, args, [], s =>
    if args.length = p.arity then (fmt p args, [])                       -- :100-103 (break)
    else (s, [(p, args)])
  | p, args, (q, qa) :: st, s =>
    if args.length = p.arity then unwind q (qa ++ [fmt p args]) st (fmt p args)   -- :100-104
    else (s, (p, args) :: (q, qa) :: st)

/-- `PrimitiveTree.__str__` (gp.py:92-106) -/
def strBuilder (l : List Prim) : Str :=
  (l.foldl (fun (state : Str × List (Prim × List Str)) node => unwind node [] state.2 state.1) ([], [])).1

/-! ## `from_string` -/

/-- the separator class of `re.split("[ \t\n\r\f\v(),]", string)` -/
def isSep (c : Char) : Bool :=
  c == ' ' || c == '\t' || c == '\n' || c == '\r' || c == '\x0c' || c == '\x0b' || c == '(' || c == ')' || c == ','

/-- the non-empty pieces of the split (`if token == '': continue`, gp.py:122-123); `cur` = the
current piece, reversed -/
def tokGo : List Char → List Char → List Str
  | [], cur => if cur = [] then [] else [cur.reverse]
  | c :: cs, cur =>
    if isSep c then (if cur = [] then tokGo cs [] else cur.reverse :: tokGo cs [])
    else tokGo cs (c :: cur)

def tokens (s : Str) : List Str := tokGo s []

/-- What `from_string` needs from the primitive set and from Python:
`mapping` = `pset.mapping` (token → node), `sub` = `issubclass`,
`ev` = `eval(token)` of a token that is not in the mapping: `none` = `NameError`, else the type id
of the value and `repr`/`str` of the value (what the new `Terminal` will print). -/
structure ParseEnv where
  mapping : Str → Option Prim
  sub : Nat → Nat → Bool
  ev : Str → Option (Nat × Str)

/-- one iteration of the token loop, given the popped expected type (gp.py:124-154) -/
def reparseNode (E : ParseEnv) (exp : Option Nat) (token : Str) : Option Prim :=
  match E.mapping token with
  | some primitive =>                                                     -- :129-130
    match exp with
    | some τ => if E.sub primitive.ret τ then some primitive else none     -- :132-135
    | none => some primitive
  | none =>
    match E.ev token with                                                 -- :141-144
    | none => none
    | some (ty, r) =>
      let τ := match exp with | some τ => τ | none => ty                   -- :146-147
      if E.sub ty τ then                                                  -- :149
        some ⟨String.ofList r, τ, [], .term, String.ofList r⟩              -- :154 Terminal(token, False, type_)
      else none

/-- the token loop of `from_string` (gp.py:121-154); `rt` = the deque `ret_types` (head = left) -/
def fromStringGo (E : ParseEnv) : List Str → List Nat → Option (List Prim)
  | [], _ => some []
  | token :: rest, rt =>
    let exp := rt.head?                                                   -- :124-127
    match reparseNode E exp token with
    | none => none
    | some q =>
      -- :138-139 `extendleft(reversed(args))` puts the argument types in front, in order
      let rt' := if q.kind = .prim then q.args ++ rt.tail else rt.tail
      (fromStringGo E rest rt').map (q :: ·)

/-- `PrimitiveTree.from_string(string, pset)` -/
def fromString (E : ParseEnv) (s : Str) : Option (List Prim) := fromStringGo E (tokens s) []

mutual
/-- the relabelling `from_string` performs, by recursion on the tree -/
def reparse (E : ParseEnv) : Option Nat → Tree → Option Tree
  | exp, .node p as =>
    match reparseNode E exp (tok p) with
    | none => none
    | some q =>
      match reparseF E (if q.kind = .prim then q.args else []) as with
      | none => none
      | some as' => some (.node q as')
def reparseF (E : ParseEnv) : List Nat → List Tree → Option (List Tree)
  | [], [] => some []
  | τ :: τs, t :: ts =>
    match reparse E (some τ) t, reparseF E τs ts with
    | some t', some ts' => some (t' :: ts')
    | _, _ => none
  | _, _ => none
end

/-! ## Evaluation -/

inductive Val
  | int (i : Int)
  | bool (b : Bool)
  | flt (x : Float)

/-- the meaning of the names occurring in the source: `funs` = callables of `pset.context`
(+ the ADFs), `vars` = lambda parameters, then named terminals of `pset.context`,
`lit` = the value of a literal (`repr` of an int / float / bool). -/
structure Env where
  funs : Str → Option (List Val → Option Val)
  vars : Str → Option Val
  lit : Str → Option Val

mutual
/-- the value the prefix tree denotes: a primitive node applies the function bound to its name
to the values of its arguments; a terminal is the value bound to / denoted by its text -/
def evalTree (env : Env) : Tree → Option Val
  | .node p as =>
    if p.kind = .prim then
      match env.funs p.name.toList, evalF env as with
      | some f, some vs => f vs
      | _, _ => none
    else
      match env.vars p.text.toList with
      | some v => some v
      | none => env.lit p.text.toList
def evalF (env : Env) : List Tree → Option (List Val)
  | [] => some []
  | t :: ts =>
    match evalTree env t, evalF env ts with
    | some v, some vs => some (v :: vs)
    | _, _ => none
end

/-- `",".join(pset.arguments)` (gp.py:495) -/
def joinComma : List Str → Str
  | [] => []
  | [a] => a
  | a :: b :: rest => a ++ [','] ++ joinComma (b :: rest)

/-- the source `compile` hands to `eval` (gp.py:491-496) -/
def compileSrc (arguments : List Str) (expr : List Prim) : Str :=
  let code := strBuilder expr
  if arguments.length > 0 then "lambda ".toList ++ joinComma arguments ++ ": ".toList ++ code else code

/-- bind the lambda parameters (positionally); they shadow the context -/
def bindArgs (names : List Str) (vals : List Val) (vars : Str → Option Val) : Str → Option Val :=
  fun x => match (names.zip vals).find? (fun nv => nv.1 == x) with
    | some nv => some nv.2
    | none => vars x

/-- what `compile(expr, pset)` denotes: with arguments, a callable (wrong argument count raises);
for a zero-argument set the same with `vals = []` (the value itself). -/
def compile (env : Env) (arguments : List Str) (t : Tree) (vals : List Val) : Option Val :=
  if vals.length ≠ arguments.length then none
  else evalTree { env with vars := bindArgs arguments vals env.vars } t

/-- one primitive set of `compileADF`: its name, its argument names, its context -/
structure CPset where
  name : Str
  arguments : List Str
  env : Env

/-- `pset.context = dict(pset.context, **adfdict)`: a fresh namespace for this compilation, in which the
ADFs compiled so far shadow the set's own names (so a callable compiled earlier keeps its own ADFs) -/
def withAdfs (env : Env) (adfdict : List (Str × (List Val → Option Val))) : Env :=
  { env with funs := fun x => match adfdict.find? (fun e => e.1 == x) with
      | some e => some e.2
      | none => env.funs x }

/-- NOTE (zero-argument ADF sets, gp.py:550-552): `compile` returns the VALUE of the tree for a set without
arguments; `compileADF` wraps it into a callable (`lambda value=func: value`) for every set but the main one, so
that a tree calling `ADF0()` gets the value.  The model binds the callable `fun [] => value` directly.

the loop body of `compileADF` (gp.py:527-530) as a step on `(adfdict, func)`; a later
`adfdict.update` overrides an earlier entry of the same name, so new entries go in front -/
def adfStep (state : List (Str × (List Val → Option Val)) × Option (List Val → Option Val))
    (pt : CPset × Tree) : List (Str × (List Val → Option Val)) × Option (List Val → Option Val) :=
  let func := compile (withAdfs pt.1.env state.1) pt.1.arguments pt.2        -- :528-529
  ((pt.1.name, func) :: state.1, some func)                                  -- :530

/-- `compileADF(expr, psets)` (gp.py:508-531): `for pset, subexpr in reversed(list(zip(psets, expr)))` -/
def compileADF (pts : List (CPset × Tree)) : Option (List Val → Option Val) :=
  (pts.reverse.foldl adfStep ([], none)).2

/-- the meaning of an ADF program: the first tree, where the name of every later set denotes
(recursively) the meaning of the corresponding later tree -/
def semADF : List (CPset × Tree) → List (Str × (List Val → Option Val))
  | [] => []
  | (ps, t) :: rest =>
    let inner := semADF rest
    (ps.name, compile (withAdfs ps.env inner) ps.arguments t) :: inner

/-! ## The integer / bool / float primitive signature used by the correspondence

Python semantics of the functions the harness registers: `bool` is a subclass of `int` (`True + 1 == 2`),
a float operand makes the operation a float operation, `max` returns the first maximal argument,
`and` returns an operand, `if_then_else` tests truthiness. -/

def isFlt : Val → Bool
  | .flt _ => true
  | _ => false

def toI : Val → Int
  | .int i => i
  | .bool b => if b then 1 else 0
  | .flt _ => 0

def toF : Val → Float
  | .int i => Float.ofInt i
  | .bool b => if b then 1.0 else 0.0
  | .flt x => x

def truthy : Val → Bool
  | .int i => i != 0
  | .bool b => b
  | .flt x => x != 0.0

def arith (fi : Int → Int → Int) (ff : Float → Float → Float) (a b : Val) : Val :=
  if isFlt a || isFlt b then .flt (ff (toF a) (toF b)) else .int (fi (toI a) (toI b))

def vlt (a b : Val) : Bool := if isFlt a || isFlt b then toF a < toF b else toI a < toI b

/-- the Python functions the harness registers, by id: `add sub mul neg max2 max3 ite lt and not id dbl five` -/
def applyOp (op : String) (args : List Val) : Option Val :=
  match op, args with
  | "add", [a, b] => some (arith (· + ·) (· + ·) a b)
  | "sub", [a, b] => some (arith (· - ·) (· - ·) a b)
  | "mul", [a, b] => some (arith (· * ·) (· * ·) a b)
  | "neg", [a] => some (match a with | .flt x => .flt (-x) | v => .int (-(toI v)))
  | "max2", [a, b] => some (if vlt a b then b else a)
  | "max3", [a, b, c] => some (let r := if vlt a b then b else a; if vlt r c then c else r)
  | "ite", [c, a, b] => some (if truthy c then a else b)
  | "lt", [a, b] => some (.bool (vlt a b))
  | "and", [a, b] => some (if truthy a then b else a)
  | "not", [a] => some (.bool (!truthy a))
  | "id", [a] => some a
  | "dbl", [a] => some (arith (· + ·) (· + ·) a a)      -- `lambda x: x + x`
  | "five", [] => some (.int 5)                       -- a zero-argument primitive (`five()`)
  | _, _ => none


/-- the session model of `compileADF` (fixed code, gp.py:545-551): every primitive set has a current
`context`; a call REBINDS `pset.context = dict(pset.context, **adfdict)` for each set (the new contexts
persist into later calls) and compiles the set's tree in that new namespace. -/
structure PSig where
  name : Str
  arguments : List Str

/-- the loop over `reversed(list(zip(psets, expr)))`, innermost set first, as a right-to-left recursion:
returns `adfdict`, the new contexts (in `psets` order) and `func` -/
def sessGo : List (PSig × Env × Tree) → List (Str × (List Val → Option Val)) × List Env × Option (List Val → Option Val)
  | [] => ([], [], none)
  | (sg, ctx, t) :: rest =>
    let r := sessGo rest
    let ctx' := withAdfs ctx r.1                       -- pset.context = dict(pset.context, **adfdict)
    let f := compile ctx' sg.arguments t               -- func = compile(subexpr, pset)
    ((sg.name, f) :: r.1, ctx' :: r.2.1, some f)       -- adfdict.update({pset.name: func})

/-- `zip(psets, expr)` with the sets' current contexts -/
def mkItems : List PSig → List Env → List Tree → List (PSig × Env × Tree)
  | sg :: sgs, c :: cs, t :: ts => (sg, c, t) :: mkItems sgs cs ts
  | _, _, _ => []

end GpCompile
