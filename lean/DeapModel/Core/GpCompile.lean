/-
GP printing, parsing and compilation (deap/gp.py:92-155, 199-242, 313-322, 480-531).
Executable model; imports only the tree model.

Python `str` values are modelled as `List Char` (sequences of code points), so that the theorems
about the string builder and the tokenizer are plain list reasoning.

* `fmt`          — `Primitive.format` / `Terminal.format`            gp.py:207-208, 234-235
* `strBuilder`   — the stack machine of `PrimitiveTree.__str__`       gp.py:92-106   (as coded)
* `render`       — what a tree denotes as text (recursive)
* `tokens`       — `re.split("[ \t\n\r\f\v(),]", s)` minus ''        gp.py:118, 122-123
* `fromStringGo` — the token loop of `from_string` with its type queue  gp.py:119-155 (as coded)
* `reparse`      — the same relabelling, by recursion on the tree
* `evalTree`     — what the prefix tree denotes as a value
* `compileSrc`, `compile`, `compileADF` — gp.py:480-531

* `exprOfTree`, `envOfPy`, `pyCompile`, `pyCompileADF` — the bridge to `Core/PyExpr.lean`: the Python AST a tree
  prints, the `evalTree` environment a Python namespace induces, and compilation THROUGH the source text
  (`eval(compileSrc …, context, {})` = parse the text, evaluate the AST in the namespace)

CPython's `eval` of the generated source is modelled by `Core/PyExpr.lean` (tokenizer, parser, evaluator of the
expression sub-language); `C12.parse_compileSrc` / `C12.evalSrc_compile` prove that it gives `render t` the
meaning `evalTree` has.
-/
import DeapModel.Core.GpTree
import DeapModel.Core.PyExpr

namespace GpCompile
open GpTree

abbrev Str := List Char

/-- the text a node contributes: a primitive its name, a terminal what `format()` returns -/
def tok (p : Prim) : Str := if p.kind = .prim then p.name.toList else p.text.toList

/-- `", ".join(args)` -/
def joinArgs : List Str → Str
  | [] => []
  | [a] => a
  | a :: b :: rest => a ++ [',', ' '] ++ joinArgs (b :: rest)

/-- `node.format(*args)` when `len(args) == arity` (the only way `__str__` calls it):
`Primitive`: `"{name}({0}, {1}, …)".format(*args)` (gp.py:204-208); `Terminal`: `conv_fct(value)`. -/
def fmt (p : Prim) (args : List Str) : Str :=
  if p.kind = .prim then p.name.toList ++ ['('] ++ joinArgs args ++ [')'] else p.text.toList

mutual
def render : Tree → Str
  | .node p as => fmt p (renderF as)
def renderF : List Tree → List Str
  | [] => []
  | t :: ts => render t :: renderF ts
end

/-- the inner `while len(stack[-1][1]) == stack[-1][0].arity` loop (gp.py:99-104) for the top
frame `(p, args)` over the rest of the stack; returns the new `string` and stack. -/
def unwind : Prim → List Str → List (Prim × List Str) → Str → Str × List (Prim × List Str)
  | p, args, [], s =>
    if args.length = p.arity then (fmt p args, [])                       -- :100-103 (break)
    else (s, [(p, args)])
  | p, args, (q, qa) :: st, s =>
    if args.length = p.arity then unwind q (qa ++ [fmt p args]) st (fmt p args)   -- :100-104
    else (s, (p, args) :: (q, qa) :: st)

/-- `PrimitiveTree.__str__` (gp.py:92-106) -/
def strBuilder (l : List Prim) : Str :=
  (l.foldl (fun (state : Str × List (Prim × List Str)) node => unwind node [] state.2 state.1) ([], [])).1

/-! ## `from_string` -/

/-- the separator class of `re.split("[ \t\n\r\f\v(),]", string)` -/
def isSep (c : Char) : Bool :=
  c == ' ' || c == '\t' || c == '\n' || c == '\r' || c == '\x0c' || c == '\x0b' || c == '(' || c == ')' || c == ','

/-- the non-empty pieces of the split (`if token == '': continue`, gp.py:122-123); `cur` = the
current piece, reversed -/
def tokGo : List Char → List Char → List Str
  | [], cur => if cur = [] then [] else [cur.reverse]
  | c :: cs, cur =>
    if isSep c then (if cur = [] then tokGo cs [] else cur.reverse :: tokGo cs [])
    else tokGo cs (c :: cur)

def tokens (s : Str) : List Str := tokGo s []

/-- What `from_string` needs from the primitive set and from Python:
`mapping` = `pset.mapping` (token → node), `sub` = `issubclass`,
`ev` = `eval(token)` of a token that is not in the mapping: `none` = `NameError`, else the type id
of the value and `repr`/`str` of the value (what the new `Terminal` will print). -/
structure ParseEnv where
  mapping : Str → Option Prim
  sub : Nat → Nat → Bool
  ev : Str → Option (Nat × Str)

/-- one iteration of the token loop, given the popped expected type (gp.py:124-154) -/
def reparseNode (E : ParseEnv) (exp : Option Nat) (token : Str) : Option Prim :=
  match E.mapping token with
  | some primitive =>                                                     -- :129-130
    match exp with
    | some τ => if E.sub primitive.ret τ then some primitive else none     -- :132-135
    | none => some primitive
  | none =>
    match E.ev token with                                                 -- :141-144
    | none => none
    | some (ty, r) =>
      let τ := match exp with | some τ => τ | none => ty                   -- :146-147
      if E.sub ty τ then                                                  -- :149
        some ⟨String.ofList r, τ, [], .term, String.ofList r⟩              -- :154 Terminal(token, False, type_)
      else none

/-- the token loop of `from_string` (gp.py:121-154); `rt` = the deque `ret_types` (head = left) -/
def fromStringGo (E : ParseEnv) : List Str → List Nat → Option (List Prim)
  | [], _ => some []
  | token :: rest, rt =>
    let exp := rt.head?                                                   -- :124-127
    match reparseNode E exp token with
    | none => none
    | some q =>
      -- :138-139 `extendleft(reversed(args))` puts the argument types in front, in order
      let rt' := if q.kind = .prim then q.args ++ rt.tail else rt.tail
      (fromStringGo E rest rt').map (q :: ·)

/-- `PrimitiveTree.from_string(string, pset)` -/
def fromString (E : ParseEnv) (s : Str) : Option (List Prim) := fromStringGo E (tokens s) []

mutual
/-- the relabelling `from_string` performs, by recursion on the tree -/
def reparse (E : ParseEnv) : Option Nat → Tree → Option Tree
  | exp, .node p as =>
    match reparseNode E exp (tok p) with
    | none => none
    | some q =>
      match reparseF E (if q.kind = .prim then q.args else []) as with
      | none => none
      | some as' => some (.node q as')
def reparseF (E : ParseEnv) : List Nat → List Tree → Option (List Tree)
  | [], [] => some []
  | τ :: τs, t :: ts =>
    match reparse E (some τ) t, reparseF E τs ts with
    | some t', some ts' => some (t' :: ts')
    | _, _ => none
  | _, _ => none
end

/-! ## Evaluation -/

/-- first-order Python values (`int`, `bool`, `float`, `str`, `None`), shared with the expression model -/
abbrev Val := PyLang.Val

/-- the meaning of the names occurring in the source: `funs` = callables of `pset.context`
(+ the ADFs), `vars` = lambda parameters, then named terminals of `pset.context`,
`lit` = the value of a literal (`repr` of an int / float / bool). -/
structure Env where
  funs : Str → Option (List Val → Option Val)
  vars : Str → Option Val
  lit : Str → Option Val

mutual
/-- the value the prefix tree denotes: a primitive node applies the function bound to its name
to the values of its arguments; a terminal is the value bound to / denoted by its text -/
def evalTree (env : Env) : Tree → Option Val
  | .node p as =>
    if p.kind = .prim then
      match env.funs p.name.toList, evalF env as with
      | some f, some vs => f vs
      | _, _ => none
    else
      match env.vars p.text.toList with
      | some v => some v
      | none => env.lit p.text.toList
def evalF (env : Env) : List Tree → Option (List Val)
  | [] => some []
  | t :: ts =>
    match evalTree env t, evalF env ts with
    | some v, some vs => some (v :: vs)
    | _, _ => none
end

/-- `",".join(pset.arguments)` (gp.py:495) -/
def joinComma : List Str → Str
  | [] => []
  | [a] => a
  | a :: b :: rest => a ++ [','] ++ joinComma (b :: rest)

/-- the source `compile` hands to `eval` (gp.py:491-496) -/
def compileSrc (arguments : List Str) (expr : List Prim) : Str :=
  let code := strBuilder expr
  if arguments.length > 0 then "lambda ".toList ++ joinComma arguments ++ ": ".toList ++ code else code

/-- bind the lambda parameters (positionally); they shadow the context -/
def bindArgs (names : List Str) (vals : List Val) (vars : Str → Option Val) : Str → Option Val :=
  fun x => match (names.zip vals).find? (fun nv => nv.1 == x) with
    | some nv => some nv.2
    | none => vars x

/-- a lambda parameter also shadows a callable of the context that has the same name (the parameter holds a
first-order value; calling it raises `TypeError`) -/
def shadowFuns (names : List Str) (vals : List Val) (funs : Str → Option (List Val → Option Val)) :
    Str → Option (List Val → Option Val) :=
  fun x => match (names.zip vals).find? (fun nv => nv.1 == x) with
    | some _ => none
    | none => funs x

/-- what `compile(expr, pset)` denotes: with arguments, a callable (wrong argument count raises);
for a zero-argument set the same with `vals = []` (the value itself). -/
def compile (env : Env) (arguments : List Str) (t : Tree) (vals : List Val) : Option Val :=
  if vals.length ≠ arguments.length then none
  else evalTree { env with vars := bindArgs arguments vals env.vars,
                           funs := shadowFuns arguments vals env.funs } t

/-- one primitive set of `compileADF`: its name, its argument names, its context -/
structure CPset where
  name : Str
  arguments : List Str
  env : Env

/-- `pset.context = dict(pset.context, **adfdict)`: a fresh namespace for this compilation, in which the
ADFs compiled so far shadow the set's own names (so a callable compiled earlier keeps its own ADFs) -/
def withAdfs (env : Env) (adfdict : List (Str × (List Val → Option Val))) : Env :=
  { env with
    funs := fun x => match adfdict.find? (fun e => e.1 == x) with
      | some e => some e.2
      | none => env.funs x
    -- the dictionary entry is REPLACED: a value that was bound to the same name is no longer reachable
    vars := fun x => match adfdict.find? (fun e => e.1 == x) with
      | some _ => none
      | none => env.vars x }

/-- NOTE (zero-argument ADF sets, gp.py:550-552): `compile` returns the VALUE of the tree for a set without
arguments; `compileADF` wraps it into a callable (`lambda value=func: value`) for every set but the main one, so
that a tree calling `ADF0()` gets the value.  The model binds the callable `fun [] => value` directly.

the loop body of `compileADF` (gp.py:527-530) as a step on `(adfdict, func)`; a later
`adfdict.update` overrides an earlier entry of the same name, so new entries go in front -/
def adfStep (state : List (Str × (List Val → Option Val)) × Option (List Val → Option Val))
    (pt : CPset × Tree) : List (Str × (List Val → Option Val)) × Option (List Val → Option Val) :=
  let func := compile (withAdfs pt.1.env state.1) pt.1.arguments pt.2        -- :528-529
  ((pt.1.name, func) :: state.1, some func)                                  -- :530

/-- `compileADF(expr, psets)` (gp.py:508-531): `for pset, subexpr in reversed(list(zip(psets, expr)))` -/
def compileADF (pts : List (CPset × Tree)) : Option (List Val → Option Val) :=
  (pts.reverse.foldl adfStep ([], none)).2

/-- the meaning of an ADF program: the first tree, where the name of every later set denotes
(recursively) the meaning of the corresponding later tree -/
def semADF : List (CPset × Tree) → List (Str × (List Val → Option Val))
  | [] => []
  | (ps, t) :: rest =>
    let inner := semADF rest
    (ps.name, compile (withAdfs ps.env inner) ps.arguments t) :: inner

/-! ## The integer / bool / float primitive signature used by the correspondence

Python semantics of the functions the harness registers: `bool` is a subclass of `int` (`True + 1 == 2`),
a float operand makes the operation a float operation, `max` returns the first maximal argument,
`and` returns an operand, `if_then_else` tests truthiness. -/

def isFlt : Val → Bool
  | .flt _ => true
  | _ => false

/-- `int`, `bool` or `float` -/
def isNum : Val → Bool
  | .int _ => true
  | .bool _ => true
  | .flt _ => true
  | _ => false

def toI : Val → Int
  | .int i => i
  | .bool b => if b then 1 else 0
  | _ => 0

def toF : Val → Float
  | .int i => Float.ofInt i
  | .bool b => if b then 1.0 else 0.0
  | .flt x => x
  | _ => 0.0

def truthy : Val → Bool
  | .int i => i != 0
  | .bool b => b
  | .flt x => x != 0.0
  | .str s => !s.isEmpty
  | .pynone => false

def arith (fi : Int → Int → Int) (ff : Float → Float → Float) (a b : Val) : Val :=
  if isFlt a || isFlt b then .flt (ff (toF a) (toF b)) else .int (fi (toI a) (toI b))

def vlt (a b : Val) : Bool := if isFlt a || isFlt b then toF a < toF b else toI a < toI b

/-- `len(str(a))` for an int / bool / str / None (`str` of a float is not modelled) -/
def widthOf : Val → Option Nat
  | .int i => some (toString i).length
  | .bool b => some (if b then 4 else 5)
  | .str s => some s.length
  | .pynone => some 4
  | .flt _ => none

/-- `str.upper` on ASCII text -/
def upperStr (s : Str) : Str := s.map Char.toUpper

/-- the Python functions the harness registers, by id: `add sub mul neg max2 max3 ite lt and not id dbl five`
on numbers (a string or `None` operand of an arithmetic / ordering function raises `TypeError`; the string
functions are separate ids), `concat rev upper pick len width` on strings -/
def applyOp (op : String) (args : List Val) : Option Val :=
  match op, args with
  | "add", [a, b] => if isNum a && isNum b then some (arith (· + ·) (· + ·) a b) else none
  | "sub", [a, b] => if isNum a && isNum b then some (arith (· - ·) (· - ·) a b) else none
  | "mul", [a, b] => if isNum a && isNum b then some (arith (· * ·) (· * ·) a b) else none
  | "neg", [a] => if isNum a then some (match a with | .flt x => .flt (-x) | v => .int (-(toI v))) else none
  | "max2", [a, b] => if isNum a && isNum b then some (if vlt a b then b else a) else none
  | "max3", [a, b, c] =>
    if isNum a && isNum b && isNum c then some (let r := if vlt a b then b else a; if vlt r c then c else r) else none
  | "ite", [c, a, b] => some (if truthy c then a else b)
  | "lt", [a, b] => if isNum a && isNum b then some (.bool (vlt a b)) else none
  | "and", [a, b] => some (if truthy a then b else a)
  | "not", [a] => some (.bool (!truthy a))
  | "id", [a] => some a
  | "dbl", [a] => if isNum a then some (arith (· + ·) (· + ·) a a) else none      -- `lambda x: x + x`
  | "five", [] => some (.int 5)                       -- a zero-argument primitive (`five()`)
  | "concat", [.str a, .str b] => some (.str (a ++ b))                           -- `a + b`
  | "rev", [.str a] => some (.str a.reverse)                                      -- `a[::-1]`
  | "upper", [.str a] => some (.str (upperStr a))                                 -- `a.upper()`
  | "pick", [.str a, b, c] => some (if a.length % 2 = 1 then b else c)            -- `b if len(a) % 2 else c`
  | "len", [.str a] => some (.int a.length)                                       -- `len(a)`
  | "width", [a] => (widthOf a).map (fun n => .int n)                             -- `len(str(a))`
  -- the logistic function of the GSGP operators, `1 / (1 + math.exp(-x))` (always a float; `math.exp` raises
  -- OverflowError beyond the double range, which the harness keeps away from)
  | "lf", [a] => if isNum a then some (.flt (1.0 / (1.0 + Float.exp (-(toF a))))) else none
  | _, _ => none


/-- the session model of `compileADF` (fixed code, gp.py:545-551): every primitive set has a current
`context`; a call REBINDS `pset.context = dict(pset.context, **adfdict)` for each set (the new contexts
persist into later calls) and compiles the set's tree in that new namespace. -/
structure PSig where
  name : Str
  arguments : List Str

/-- the loop over `reversed(list(zip(psets, expr)))`, innermost set first, as a right-to-left recursion:
returns `adfdict`, the new contexts (in `psets` order) and `func` -/
def sessGo : List (PSig × Env × Tree) → List (Str × (List Val → Option Val)) × List Env × Option (List Val → Option Val)
  | [] => ([], [], none)
  | (sg, ctx, t) :: rest =>
    let r := sessGo rest
    let ctx' := withAdfs ctx r.1                       -- pset.context = dict(pset.context, **adfdict)
    let f := compile ctx' sg.arguments t               -- func = compile(subexpr, pset)
    ((sg.name, f) :: r.1, ctx' :: r.2.1, some f)       -- adfdict.update({pset.name: func})

/-- `zip(psets, expr)` with the sets' current contexts -/
def mkItems : List PSig → List Env → List Tree → List (PSig × Env × Tree)
  | sg :: sgs, c :: cs, t :: ts => (sg, c, t) :: mkItems sgs cs ts
  | _, _, _ => []

/-! ## The bridge to the Python expression model (`Core/PyExpr.lean`)

`compile` above gives a tree its meaning directly (`evalTree`).  The real `gp.compile` goes through TEXT:
it builds `compileSrc` and hands it to `eval(code, pset.context, {})`.  `pyCompile` is that path in the model:
the text is tokenized and parsed (`PyLang.parseExpr`) and the AST is evaluated in the namespace
(`PyLang.evalPy` / `callPy`). -/

open PyLang (PyExpr PyEnv PyObj)

mutual
/-- the Python AST the printed tree is meant to denote: a primitive node is a call of its name, a terminal the
name / literal its text spells -/
def exprOfTree : Tree → PyExpr
  | .node p as =>
    if p.kind = .prim then .call p.name.toList (exprOfF as)
    else (PyLang.atomOf p.text.toList).getD (.name p.text.toList)
def exprOfF : List Tree → List PyExpr
  | [] => []
  | t :: ts => exprOfTree t :: exprOfF ts
end

/-- the node can be written into a source text of the sub-language: the name of a primitive is an identifier
(not a keyword), the text of a terminal is an identifier or a literal (`PyLang.atomOf`) -/
def SrcOK (p : Prim) : Bool :=
  if p.kind = .prim then PyLang.isIdent p.name.toList else PyLang.isAtomText p.text.toList

/-- the argument names of the set are distinct identifiers (what `lambda a,b: …` requires) -/
def ArgsOK (arguments : List Str) : Bool := arguments.all PyLang.isIdent && PyLang.nodupStr arguments

/-- the `evalTree` environment a Python namespace induces.  A `Name` node can only ever look up an identifier, so
entries of the dictionary under other keys (`context["True"]`, which `addTerminal(True, bool)` writes) are
unreachable; literals have the value Python gives them. -/
def envOfPy (P : PyEnv) : Env where
  funs := fun x => if PyLang.isIdent x then (match P.globals x with | some (.fn f) => some f | _ => none) else none
  vars := fun x => if PyLang.isIdent x then (match P.globals x with | some (.val v) => some v | _ => none) else none
  lit := PyLang.litOf

/-- `gp.compile(expr, pset)` as the code does it: `eval(compileSrc …, pset.context, {})`, then the call -/
def pyCompile (P : PyEnv) (arguments : List Str) (expr : List Prim) (vals : List Val) : Option Val :=
  PyLang.evalSrc P (decide (arguments.length > 0)) (compileSrc arguments expr) vals

/-- `dict(pset.context, **adfdict)` -/
def withAdfsPy (P : PyEnv) (adfdict : List (Str × (List Val → Option Val))) : PyEnv :=
  { P with globals := fun x => match adfdict.find? (fun e => e.1 == x) with
      | some e => some (.fn e.2)
      | none => P.globals x }

/-- one primitive set of `compileADF` with its Python namespace -/
structure PyCPset where
  name : Str
  arguments : List Str
  ctx : PyEnv

/-- the loop body of `compileADF` (gp.py:545-551) on a given source text: `pset.context = dict(pset.context,
**adfdict)`, `func = eval(src, pset.context, {})`, `adfdict.update({pset.name: func})` -/
def pyAdfStepSrc (state : List (Str × (List Val → Option Val)) × Option (List Val → Option Val))
    (pt : PyCPset × Str) : List (Str × (List Val → Option Val)) × Option (List Val → Option Val) :=
  let func := PyLang.evalSrc (withAdfsPy pt.1.ctx state.1) (decide (pt.1.arguments.length > 0)) pt.2
  ((pt.1.name, func) :: state.1, some func)

/-- the same with the source `compile` builds from the tree -/
def pyAdfStep (state : List (Str × (List Val → Option Val)) × Option (List Val → Option Val))
    (pt : PyCPset × List Prim) : List (Str × (List Val → Option Val)) × Option (List Val → Option Val) :=
  pyAdfStepSrc state (pt.1, compileSrc pt.1.arguments pt.2)

/-- `compileADF` on given source texts (what the correspondence run feeds with the texts DEAP really evaluated) -/
def pyCompileADFSrc (pts : List (PyCPset × Str)) : Option (List Val → Option Val) :=
  (pts.reverse.foldl pyAdfStepSrc ([], none)).2

/-- `compileADF(expr, psets)` through the source texts: the ADF callables are in the globals of the lambdas
compiled after them -/
def pyCompileADF (pts : List (PyCPset × List Prim)) : Option (List Val → Option Val) :=
  (pts.reverse.foldl pyAdfStep ([], none)).2

/-! ## Renaming histories (`PrimitiveSetTyped.renameArguments`, gp.py:343-354)

A tree OBJECT does not own the names of its argument leaves: it holds references to the `Terminal` objects the set
created for its argument positions, and `renameArguments` mutates those objects in place (`terminal.value = new_name`)
together with `pset.arguments`.  The model keeps the tree fixed (the node list never changes under a renaming) and puts
the state into the list `cur` of current argument names, by position: `argIx p = some i` says that node `p` is the
terminal of argument position `i` (the harness decides it by object identity), and `viewNode` is what that node prints
at the moment the names are `cur`.  `str(tree)` / `compile(tree, pset)` at that moment are `strBuilder` / `compileSrc cur`
of the viewed node list: functions of the node list and the CURRENT names only, never of what was printed before. -/

/-- `kargs[old_name]` when `old_name in kargs` (keyword arguments are a dict: the first entry of a key counts) -/
def kwLookup (kargs : List (Str × Str)) (x : Str) : Option Str :=
  match kargs.find? (fun e => e.1 == x) with
  | some e => some e.2
  | none => none

/-- one call `pset.renameArguments(**kargs)` on `pset.arguments` (gp.py:347-350): every position whose current name is
a keyword gets the new name, all at once (the two-pass form after F30: no position sees another one's new name) -/
def renameArgs (arguments : List Str) (kargs : List (Str × Str)) : List Str :=
  arguments.map (fun a => (kwLookup kargs a).getD a)

/-- a sequence of `renameArguments` calls on the same set -/
def renameHistory (arguments : List Str) (ks : List (List (Str × Str))) : List Str :=
  ks.foldl renameArgs arguments

mutual
def mapTree (f : Prim → Prim) : Tree → Tree
  | .node p as => .node (f p) (mapF f as)
def mapF (f : Prim → Prim) : List Tree → List Tree
  | [] => []
  | t :: ts => mapTree f t :: mapF f ts
end

/-- the node as it prints while the argument terminals carry the names `cur` -/
def viewNode (argIx : Prim → Option Nat) (cur : List Str) (p : Prim) : Prim :=
  match argIx p with
  | some i =>
    match cur[i]? with
    | some nm => { p with kind := .term, text := String.ofList nm }
    | none => p
  | none => p

/-- the tree object seen at the moment the names are `cur` -/
def viewTree (argIx : Prim → Option Nat) (cur : List Str) (t : Tree) : Tree := mapTree (viewNode argIx cur) t

mutual
/-- the statement's DIRECT interpretation of the prefix tree, with no names for the arguments at all: the terminal of
argument position `i` is the `i`-th value of the argument tuple; every other node as in `evalTree` -/
def evalRef (env : Env) (argIx : Prim → Option Nat) (vals : List Val) : Tree → Option Val
  | .node p as =>
    match argIx p with
    | some i => vals[i]?
    | none =>
      if p.kind = .prim then
        match env.funs p.name.toList, evalRefF env argIx vals as with
        | some f, some vs => f vs
        | _, _ => none
      else
        match env.vars p.text.toList with
        | some v => some v
        | none => env.lit p.text.toList
def evalRefF (env : Env) (argIx : Prim → Option Nat) (vals : List Val) : List Tree → Option (List Val)
  | [] => some []
  | t :: ts =>
    match evalRef env argIx vals t, evalRefF env argIx vals ts with
    | some v, some vs => some (v :: vs)
    | _, _ => none
end

/-- a session on ONE tree object and ONE set: `rename kargs` mutates the set, `compile` / `str` observe the tree -/
inductive HStep where
  | rename (kargs : List (Str × Str))
  | compile
  | str

/-- run a session; the observations are the source handed to `eval` (for `compile`) / the printed tree (for `str`), in
order, and the final argument names -/
def runSession (argIx : Prim → Option Nat) (l : List Prim) : List Str → List HStep → List Str × List Str
  | cur, [] => ([], cur)
  | cur, .rename kargs :: rest => runSession argIx l (renameArgs cur kargs) rest
  | cur, .compile :: rest =>
    let r := runSession argIx l cur rest
    (compileSrc cur (l.map (viewNode argIx cur)) :: r.1, r.2)
  | cur, .str :: rest =>
    let r := runSession argIx l cur rest
    (strBuilder (l.map (viewNode argIx cur)) :: r.1, r.2)

end GpCompile
