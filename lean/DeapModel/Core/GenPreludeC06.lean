/-
C06 — the prelude of the TRANSLATOR TIE (`harness/py2lean_c06.py`): the Lean meaning of the control structures and of
the `random` calls of the imperative Python sub-language in which `deap/tools/selection.py` is written.
Definitions that the translator regenerates from `/repo`'s source live in namespace `Gen`; they are written against
these combinators and against the tape readers / Python built-ins of `Core/Selection.lean`
(`popChoice popRandom popShuffle popSample sortedAsc sortedDesc pyMax listMax listMin pySum wvAt sizeAt cdAt fitLt fitGt
fitDom values`) ONLY.  Together with the rendering rules in the docstring of `harness/py2lean_c06.py` this file is the
translator's trusted base.

`M α` = a computation that reads the tape of recorded `random` results and either raises (every Python exception is the
one `none`) or returns a value and the unread tape.  Statements are sequenced with `bind` in Python's evaluation order.
Import-free (core Lean + `DeapModel.Core.*`).
-/
import DeapModel.Core.Selection

namespace GenS
open Selection

abbrev M (α : Type) := Tape → Option (α × Tape)

/-- a value; the tape is not read -/
def pure {α : Type} (a : α) : M α := fun t => some (a, t)

/-- `m` then `f` on its result, with the tape `m` left -/
def bind {α β : Type} (m : M α) (f : α → M β) : M β := fun t =>
  match m t with
  | none => none
  | some (a, t') => f a t'

/-- a raised exception -/
def raise {α : Type} : M α := fun _ => none

/-- an operation that may raise and reads no randomness (`l[i]`, `max` of a sequence) -/
def lift {α : Type} (o : Option α) : M α := fun t =>
  match o with
  | none => none
  | some a => some (a, t)

/-- `[f x for x in l]`, elements evaluated left to right -/
def mapM {α β : Type} (f : α → M β) : List α → M (List β)
  | [] => pure []
  | x :: xs => bind (f x) fun y => bind (mapM f xs) fun ys => pure (y :: ys)

/-- `[x for x in l if f x]` -/
def filterM {α : Type} (f : α → M Bool) : List α → M (List α)
  | [] => pure []
  | x :: xs => bind (f x) fun b => bind (filterM f xs) fun ys => pure (if b then x :: ys else ys)

/-- `for x in l: body` over the tuple `σ` of the variables the body re-assigns; the body answers
`(true, s)` for `break` and `(false, s)` when it reaches its end or `continue`. -/
def forLoop {α σ : Type} (body : α → σ → M (Bool × σ)) : List α → σ → M σ
  | [], s => pure s
  | x :: xs, s => bind (body x s) fun r => if r.1 then pure r.2 else forLoop body xs r.2

/-- `while cond: body` with a bound on the number of iterations that the translator derives from a syntactically
recognised variant of the loop (see py2lean_c06: a list popped in every iteration, or a counter that indexes a list);
a loop still running when the bound is used up is `none`. -/
def whileLoop {σ : Type} (cond : σ → Bool) (body : σ → M (Bool × σ)) : Nat → σ → M σ
  | 0, s => if cond s then raise else pure s
  | n + 1, s =>
    if cond s then bind (body s) fun r => if r.1 then pure r.2 else whileLoop cond body n r.2
    else pure s

/-- `random.choice(l)` -/
def choice {α : Type} (l : List α) : M α := fun t =>
  match popChoice l.length t with
  | none => none
  | some (i, t') =>
    match l[i]? with
    | none => none
    | some a => some (a, t')

/-- `random.shuffle(l)`: the new contents of `l` (`new[j] = old[perm[j]]`) -/
def shuffle {α : Type} (l : List α) : M (List α) := fun t =>
  match popShuffle l.length t with
  | none => none
  | some (p, t') => some (p.filterMap (fun j => l[j]?), t')

/-- `random.sample(l, len(l))` -/
def sampleAll {α : Type} (l : List α) : M (List α) := fun t =>
  match popSample l.length t with
  | none => none
  | some (p, t') => some (p.filterMap (fun j => l[j]?), t')

/-- `random.uniform(a, b)` = `a + (b - a) * random()` (CPython's definition) -/
def uniform (a b : Rat) : M Rat := bind popRandom fun r => pure (a + (b - a) * r)

/-- `<fitness of position i>.values` (`[]` for a position outside the population, which no rendering produces) -/
def valuesAt (w : List Rat) (pop : Pop) (i : Nat) : List Rat :=
  match pop[i]? with
  | none => []
  | some x => values w x

/-- `max(seq)` of numbers: `ValueError` on an empty sequence -/
def maxQ : List Rat → Option Rat
  | [] => none
  | x :: xs => some (listMax (x :: xs))

/-- `min(seq)` of numbers -/
def minQ : List Rat → Option Rat
  | [] => none
  | x :: xs => some (listMin (x :: xs))

/-- `l.pop(0)` as a statement: the remaining list (`IndexError` on `[]`) -/
def popFront {α : Type} : List α → Option (List α)
  | [] => none
  | _ :: xs => some xs

/-- `range(a, b, s)` for naturals and a positive literal step -/
def rangeStep (a b s : Nat) : List Nat := (List.range ((b - a + s - 1) / s)).map fun j => a + j * s

end GenS
