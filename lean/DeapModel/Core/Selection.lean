/-
Model of `deap/tools/selection.py` (all ten operators) and of `selTournamentDCD`
(`deap/tools/emo.py:147-197`) — property C06.

Conventions
* Exact scalars: `Rat`.  An individual is the record of the attributes the operators read:
  its fitness' weighted values (`fitness.wvalues`), `len(ind)` and `fitness.crowding_dist`.
* Object identity: an operator returns *population indices* — "the very objects of the input";
  a model that returned anything else (a copy) could not be expressed.  The population itself is
  an immutable argument (the operators are pure functions of population, parameters and tape).
* Randomness: the tape lists the *results* of the `random.*` calls in call order.  A draw of the
  wrong kind, a draw outside what the call can return (choice index ≥ len, a shuffle / sample
  result that is no permutation, `random()` outside [0,1)), an exhausted tape, and every Python
  exception of the transcribed code (IndexError, ValueError, the `assert`) yield `none`.
Import-free (core Lean only).
-/
import DeapModel.Core.Py
import DeapModel.Core.Fitness

namespace Selection

/-- What the selection operators read of an individual. -/
structure Ind where
  /-- `getattr(ind, fit_attr).wvalues` — the fitness attribute the operator is told to use
  (`fit_attr`, default `"fitness"`; the lexicase family and the crowding tournament always read
  `ind.fitness`) -/
  wv : List Rat
  /-- `len(ind)` (double tournament) -/
  size : Nat := 0
  /-- `ind.fitness.crowding_dist` (dominance / crowding tournament) -/
  cd : Rat := 0
deriving Repr, DecidableEq, Inhabited

abbrev Pop := List Ind

/-- One recorded call of the `random` module (its *result*). -/
inductive Draw where
  /-- `random.choice(seq)`: index of the chosen element -/
  | choice (i : Nat)
  /-- `random.sample(seq, k)`: indices of the sampled elements in order -/
  | sample (idx : List Nat)
  /-- `random.shuffle(x)`: `new[j] = old[perm[j]]` -/
  | shuffle (perm : List Nat)
  /-- `random.random()`; also the draw underlying `random.uniform(a, b) = a + (b-a)*random()` -/
  | random (r : Rat)
deriving Repr, DecidableEq

abbrev Tape := List Draw

/-! ### Tape access -/

/-- `random.choice(seq)` with `len(seq) = n` (`IndexError` on an empty sequence). -/
def popChoice (n : Nat) : Tape → Option (Nat × Tape)
  | Draw.choice i :: t => if i < n then some (i, t) else none
  | _ => none

/-- `random.random()`, a double in `[0, 1)`. -/
def popRandom : Tape → Option (Rat × Tape)
  | Draw.random r :: t => if 0 ≤ r ∧ r < 1 then some (r, t) else none
  | _ => none

/-- `random.shuffle(list(range(n)))`: the resulting list, a permutation of `range(n)`. -/
def popShuffle (n : Nat) : Tape → Option (List Nat × Tape)
  | Draw.shuffle p :: t => if p.isPerm (List.range n) then some (p, t) else none
  | _ => none

/-- `random.sample(seq, len(seq))` with `len(seq) = n`: a permutation of the positions. -/
def popSample (n : Nat) : Tape → Option (List Nat × Tape)
  | Draw.sample p :: t => if p.isPerm (List.range n) then some (p, t) else none
  | _ => none

/-- `[step() for _ in range(k)]` / `for i in range(k): chosen.append(step())`. -/
def repeatM {α : Type} (step : Tape → Option (α × Tape)) : Nat → Tape → Option (List α × Tape)
  | 0, t => some ([], t)
  | k + 1, t =>
    match step t with
    | none => none
    | some (x, t1) =>
      match repeatM step k t1 with
      | none => none
      | some (l, t2) => some (x :: l, t2)

/-! ### Attribute access by population index -/

/-- `individuals[i].fitness.wvalues` (indices handed out by the tape readers are `< len`). -/
def wvAt (pop : Pop) (i : Nat) : List Rat := (pop[i]?.map Ind.wv).getD []
def sizeAt (pop : Pop) (i : Nat) : Nat := (pop[i]?.map Ind.size).getD 0
def cdAt (pop : Pop) (i : Nat) : Rat := (pop[i]?.map Ind.cd).getD 0

/-- `a.fitness < b.fitness` (`Fitness.__lt__`, base.py: `self.wvalues < other.wvalues`). -/
def fitLt (pop : Pop) (i j : Nat) : Bool := Fitness.lt ⟨wvAt pop i⟩ ⟨wvAt pop j⟩
/-- `a.fitness > b.fitness` (`Fitness.__gt__` = `not __le__`). -/
def fitGt (pop : Pop) (i j : Nat) : Bool := Fitness.gt ⟨wvAt pop i⟩ ⟨wvAt pop j⟩
/-- `a.fitness.dominates(b.fitness)` on all objectives. -/
def fitDom (pop : Pop) (i j : Nat) : Bool := Fitness.dominatesLoop (wvAt pop i) (wvAt pop j) false

/-- `fitness.values` (base.py:184-185): `map(truediv, wvalues, weights)`. -/
def values (w : List Rat) (x : Ind) : List Rat := List.zipWith (· / ·) x.wv w

/-! ### Python built-ins used -/

/-- `sorted(range(n), key=…)`: stable, uses only `<` of the keys (ascending). -/
def sortedAsc (lt : Nat → Nat → Bool) (l : List Nat) : List Nat := l.mergeSort (fun a b => !lt b a)
/-- `sorted(…, reverse=True)`: descending, equal elements keep their relative order. -/
def sortedDesc (lt : Nat → Nat → Bool) (l : List Nat) : List Nat := l.mergeSort (fun a b => !lt a b)

/-- `max(seq, key=…)`: the *first* maximal element (`item > best` replaces); `ValueError` on `[]`. -/
def pyMax (gt : Nat → Nat → Bool) : List Nat → Option Nat
  | [] => none
  | x :: xs => some (xs.foldl (fun best y => if gt y best then y else best) x)

/-- `max(values)` of numbers (0 for the empty list, which the callers never pass). -/
def listMax : List Rat → Rat
  | [] => 0
  | x :: xs => xs.foldl (fun m y => if y > m then y else m) x

def listMin : List Rat → Rat
  | [] => 0
  | x :: xs => xs.foldl (fun m y => if y < m then y else m) x

/-- `sum(iterable)`: left fold from `0`. -/
def pySum (l : List Rat) : Rat := l.foldl (· + ·) 0

/-- `numpy.median` of a 1-d list: sort; the middle element, or the mean of the two middle ones. -/
def median (l : List Rat) : Rat :=
  let s := l.mergeSort (fun a b => decide (a ≤ b))
  let m := s.length
  if m = 0 then 0
  else if m % 2 = 1 then s.getD (m / 2) 0
  else (s.getD (m / 2 - 1) 0 + s.getD (m / 2) 0) / 2

def absRat (x : Rat) : Rat := if x < 0 then -x else x

/-! ### selRandom, selBest, selWorst, selTournament  (selection.py:12-69) -/

/-- `selRandom(individuals, k)` (l.24) with `n = len(individuals)`. -/
def selRandom (n k : Nat) (t : Tape) : Option (List Nat × Tape) := repeatM (popChoice n) k t

/-- `selBest` (l.36): `sorted(individuals, key=fitness, reverse=True)[:k]`. -/
def selBest (pop : Pop) (k : Nat) : List Nat :=
  (sortedDesc (fitLt pop) (List.range pop.length)).take k

/-- `selWorst` (l.48): `sorted(individuals, key=fitness)[:k]`. -/
def selWorst (pop : Pop) (k : Nat) : List Nat :=
  (sortedAsc (fitLt pop) (List.range pop.length)).take k

/-- One tournament (l.67-68): `max(selRandom(individuals, tournsize), key=fitness)`. -/
def tournStep (pop : Pop) (tournsize : Nat) (t : Tape) : Option (Nat × Tape) :=
  match selRandom pop.length tournsize t with
  | none => none
  | some (aspirants, t1) =>
    match pyMax (fitGt pop) aspirants with
    | none => none
    | some w => some (w, t1)

/-- `selTournament` (l.65-69). -/
def selTournament (pop : Pop) (k tournsize : Nat) (t : Tape) : Option (List Nat × Tape) :=
  repeatM (tournStep pop tournsize) k t

/-! ### selRoulette  (selection.py:72-103) -/

/-- `getattr(ind, fit_attr).values[0]` for every individual (`IndexError` if one has no value). -/
def firstVals (w : List Rat) (pop : Pop) : Option (List Rat) := pop.mapM (fun x => (values w x).head?)

/-- The inner `for ind in s_inds` loop (l.97-101): first individual whose running sum exceeds `u`;
`none` when the loop ends without `break` (nothing is appended). -/
def spin (fs : List Rat) (u : Rat) : List Nat → Rat → Option Nat
  | [], _ => none
  | i :: rest, s =>
    let s' := s + fs.getD i 0
    if s' > u then some i else spin fs u rest s'

/-- One turn of the wheel (l.95-101). -/
def rouletteStep (fs : List Rat) (sInds : List Nat) (sumFits : Rat) (t : Tape) :
    Option (Option Nat × Tape) :=
  match popRandom t with
  | none => none
  | some (r, t1) => some (spin fs (r * sumFits) sInds 0, t1)

/-- `selRoulette` (l.91-103). -/
def selRoulette (w : List Rat) (pop : Pop) (k : Nat) (t : Tape) : Option (List Nat × Tape) :=
  match firstVals w pop with
  | none => none
  | some fs =>
    let sInds := sortedDesc (fitLt pop) (List.range pop.length)
    let sumFits := pySum fs
    match repeatM (rouletteStep fs sInds sumFits) k t with
    | none => none
    | some (l, t1) => some (l.filterMap id, t1)

/-! ### selStochasticUniversalSampling  (selection.py:184-217) -/

/-- The `while sum_ < p` walk (l.210-215): `cur` = `s_inds[i]`, `s` = `sum_`, the list = `s_inds[i+1:]`;
`none` = `IndexError` (walking past the end). -/
def susWalk (fs : List Rat) (p : Rat) : Nat → Rat → List Nat → Option Nat
  | cur, s, [] => if s < p then none else some cur
  | cur, s, j :: rest => if s < p then susWalk fs p j (s + fs.getD j 0) rest else some cur

def susPoint (fs : List Rat) (sInds : List Nat) (p : Rat) : Option Nat :=
  match sInds with
  | [] => none
  | i :: rest => susWalk fs p i (fs.getD i 0) rest

/-- `points = [start + i*distance for i in range(k)]` (l.206). -/
def susPoints (start distance : Rat) (k : Nat) : List Rat :=
  (List.range k).map (fun (i : Nat) => start + (i : Rat) * distance)

/-- `selStochasticUniversalSampling` (l.198-217). -/
def selSUS (w : List Rat) (pop : Pop) (k : Nat) (t : Tape) : Option (List Nat × Tape) :=
  if k = 0 then some ([], t)
  else
    match firstVals w pop with
    | none => none
    | some fs =>
      let sInds := sortedDesc (fitLt pop) (List.range pop.length)
      let sumFits := pySum fs
      let distance := sumFits / (k : Rat)
      match popRandom t with
      | none => none
      | some (r, t1) =>
        let start := 0 + (distance - 0) * r      -- random.uniform(0, distance)
        match (susPoints start distance k).mapM (susPoint fs sInds) with
        | none => none
        | some chosen => some (chosen, t1)

/-! ### selDoubleTournament  (selection.py:106-181) -/

/-- One round of `_sizeTournament` (l.151-165); `select` is `select(individuals, k=·)`. -/
def sizeTournStep (pop : Pop) (ps : Rat) (select : Nat → Tape → Option (List Nat × Tape)) (t : Tape) :
    Option (Nat × Tape) :=
  match select 2 t with
  | some ([i1, i2], t1) =>
    let swap : Bool := decide (sizeAt pop i1 > sizeAt pop i2)        -- l.157-158
    let tie : Bool := decide (sizeAt pop i1 = sizeAt pop i2)         -- l.159 (exclusive with swap)
    let a := if swap then i2 else i1
    let b := if swap then i1 else i2
    let prob : Rat := if tie then 1 / 2 else ps / 2                  -- l.154, 161
    match popRandom t1 with
    | none => none
    | some (r, t2) => some (if r < prob then a else b, t2)
  | _ => none

def sizeTournament (pop : Pop) (ps : Rat) (select : Nat → Tape → Option (List Nat × Tape)) (k : Nat) (t : Tape) :
    Option (List Nat × Tape) := repeatM (sizeTournStep pop ps select) k t

/-- One round of `_fitTournament` (l.171-173). -/
def fitTournStep (pop : Pop) (fitnessSize : Nat) (select : Nat → Tape → Option (List Nat × Tape)) (t : Tape) :
    Option (Nat × Tape) :=
  match select fitnessSize t with
  | none => none
  | some (aspirants, t1) =>
    match pyMax (fitGt pop) aspirants with
    | none => none
    | some w => some (w, t1)

def fitTournament (pop : Pop) (fitnessSize : Nat) (select : Nat → Tape → Option (List Nat × Tape)) (k : Nat) (t : Tape) :
    Option (List Nat × Tape) := repeatM (fitTournStep pop fitnessSize select) k t

/-- `selDoubleTournament` (l.147, 176-181). -/
def selDoubleTournament (pop : Pop) (k fitnessSize : Nat) (ps : Rat) (fitnessFirst : Bool) (t : Tape) :
    Option (List Nat × Tape) :=
  if 1 ≤ ps ∧ ps ≤ 2 then
    if fitnessFirst then
      sizeTournament pop ps (fitTournament pop fitnessSize (selRandom pop.length)) k t
    else
      fitTournament pop fitnessSize (sizeTournament pop ps (selRandom pop.length)) k t
  else none

/-! ### The lexicase family  (selection.py:220-324) -/

/-- Which filter the `while` body applies. -/
inductive Rule where
  /-- `selLexicase`: keep `== best` -/
  | exact
  /-- `selEpsilonLexicase`: keep within `epsilon` of the best -/
  | eps (e : Rat)
  /-- `selAutomaticEpsilonLexicase`: keep within the median absolute deviation of the best -/
  | auto
deriving Repr, DecidableEq

/-- `x.fitness.values[c]` for individual `i`. -/
def valAt (vals : List (List Rat)) (i c : Nat) : Rat := (vals.getD i []).getD c 0

/-- The tolerance a rule applies, given the candidates' values on the case
(l.309-310: `median_absolute_deviation`). -/
def tolOf : Rule → List Rat → Rat
  | .exact, _ => 0
  | .eps e, _ => e
  | .auto, errs => let med := median errs; median (errs.map (fun x => absRat (x - med)))

/-- The filter of one case (l.239-242 / 271-278 / 308-318). -/
def filterCase (rule : Rule) (w : List Rat) (vals : List (List Rat)) (c : Nat) (cands : List Nat) : List Nat :=
  let errs := cands.map (fun i => valAt vals i c)
  let maximise := decide (w.getD c 0 > 0)
  let best := if maximise then listMax errs else listMin errs
  match rule with
  | .exact => cands.filter (fun i => decide (valAt vals i c = best))
  | _ =>
    let tol := tolOf rule errs
    if maximise then cands.filter (fun i => decide (valAt vals i c ≥ best - tol))
    else cands.filter (fun i => decide (valAt vals i c ≤ best + tol))

/-- `while len(cases) > 0 and len(candidates) > 1` (the list argument is `cases`). -/
def lexLoop (rule : Rule) (w : List Rat) (vals : List (List Rat)) : List Nat → List Nat → List Nat
  | [], cands => cands
  | c :: cs, cands =>
    if cands.length > 1 then lexLoop rule w vals cs (filterCase rule w vals c cands) else cands

/-- One selection (body of `for i in range(k)`). -/
def lexStep (rule : Rule) (w : List Rat) (pop : Pop) (t : Tape) : Option (Nat × Tape) :=
  let vals := pop.map (values w)
  match vals with
  | [] => none                                  -- individuals[0]: IndexError
  | v0 :: _ =>
    -- evaluated individuals of one fitness class (else values[c] raises IndexError)
    if vals.all (fun v => v.length = v0.length) then
      match popShuffle v0.length t with
      | none => none
      | some (cases, t1) =>
        let cands := lexLoop rule w vals cases (List.range pop.length)
        match popChoice cands.length t1 with
        | none => none
        | some (j, t2) => some (cands.getD j 0, t2)
    else none

/-- `selLexicase` / `selEpsilonLexicase` / `selAutomaticEpsilonLexicase`. -/
def selLexicaseWith (rule : Rule) (w : List Rat) (pop : Pop) (k : Nat) (t : Tape) : Option (List Nat × Tape) :=
  repeatM (lexStep rule w pop) k t

/-! ### selTournamentDCD  (emo.py:147-197) -/

/-- `tourn(ind1, ind2)` (emo.py:172-185). -/
def dcdTourn (pop : Pop) (a b : Nat) (t : Tape) : Option (Nat × Tape) :=
  if fitDom pop a b then some (a, t)
  else if fitDom pop b a then some (b, t)
  else if cdAt pop a < cdAt pop b then some (b, t)
  else if cdAt pop a > cdAt pop b then some (a, t)
  else
    match popRandom t with
    | none => none
    | some (r, t1) => some (if r ≤ 1 / 2 then a else b, t1)

/-- `for i in range(0, k, 4)` (emo.py:191-195): the lists are `individuals_1[i:]`, `individuals_2[i:]`;
fewer than four remaining elements = `IndexError`. -/
def dcdLoop (pop : Pop) : Nat → List Nat → List Nat → Tape → Option (List Nat × Tape)
  | 0, _, _, t => some ([], t)
  | m + 1, a :: b :: c :: d :: r1, e :: f :: g :: h :: r2, t =>
    match dcdTourn pop a b t with
    | none => none
    | some (w1, t1) =>
      match dcdTourn pop c d t1 with
      | none => none
      | some (w2, t2) =>
        match dcdTourn pop e f t2 with
        | none => none
        | some (w3, t3) =>
          match dcdTourn pop g h t3 with
          | none => none
          | some (w4, t4) =>
            match dcdLoop pop m r1 r2 t4 with
            | none => none
            | some (l, t5) => some (w1 :: w2 :: w3 :: w4 :: l, t5)
  | _ + 1, _, _, _ => none

/-- `selTournamentDCD` (emo.py:166-197). -/
def selTournamentDCD (pop : Pop) (k : Nat) (t : Tape) : Option (List Nat × Tape) :=
  let n := pop.length
  if k > n then none                                  -- ValueError
  else if k = n ∧ k % 4 ≠ 0 then none                 -- ValueError
  else
    match popSample n t with
    | none => none
    | some (ind1, t1) =>
      match popSample n t1 with
      | none => none
      | some (ind2, t2) => dcdLoop pop ((k + 3) / 4) ind1 ind2 t2

end Selection
