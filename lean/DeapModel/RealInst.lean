/-
The `ℝ` instance of `RealLike` (Mathlib): the scalar the real-valued theorems are about.
-/
import DeapModel.Core.Scalar
import Mathlib.Analysis.SpecialFunctions.Trigonometric.Basic
import Mathlib.Analysis.SpecialFunctions.Pow.Real
import Mathlib.Analysis.SpecialFunctions.Log.Basic

noncomputable instance : RealLike ℝ where
  ofNat n := (n : ℝ)
  ofRatio n d := (n : ℝ) / (d : ℝ)
  sqrt := Real.sqrt
  exp := Real.exp
  log := Real.log
  sin := Real.sin
  cos := Real.cos
  pi := Real.pi
  pow := fun x y => x ^ y
  abs := fun x => |x|
  decLt := fun _ _ => Classical.dec _
  decLe := fun _ _ => Classical.dec _

namespace RealLike
/-! Bridge lemmas: the class operations at `ℝ` are the Mathlib ones (all by `rfl`). -/
@[simp] theorem real_ofNat (n : Nat) : (RealLike.ofNat n : ℝ) = (n : ℝ) := rfl
@[simp] theorem real_ofRatio (n : Int) (d : Nat) : (RealLike.ofRatio n d : ℝ) = (n : ℝ) / (d : ℝ) := rfl
@[simp] theorem real_sqrt (x : ℝ) : RealLike.sqrt x = Real.sqrt x := rfl
@[simp] theorem real_exp (x : ℝ) : RealLike.exp x = Real.exp x := rfl
@[simp] theorem real_log (x : ℝ) : RealLike.log x = Real.log x := rfl
@[simp] theorem real_sin (x : ℝ) : RealLike.sin x = Real.sin x := rfl
@[simp] theorem real_cos (x : ℝ) : RealLike.cos x = Real.cos x := rfl
@[simp] theorem real_pi : (RealLike.pi : ℝ) = Real.pi := rfl
@[simp] theorem real_pow (x y : ℝ) : RealLike.pow x y = x ^ y := rfl
@[simp] theorem real_abs (x : ℝ) : RealLike.abs x = |x| := rfl
theorem real_lit (n : Nat) : (@OfNat.ofNat ℝ n (RealLike.instOfNat n)) = (n : ℝ) := rfl
@[simp] theorem real_add (a b : ℝ) : @HAdd.hAdd ℝ ℝ ℝ (@instHAdd ℝ RealLike.toAdd) a b = a + b := rfl
@[simp] theorem real_sub (a b : ℝ) : @HSub.hSub ℝ ℝ ℝ (@instHSub ℝ RealLike.toSub) a b = a - b := rfl
@[simp] theorem real_mul (a b : ℝ) : @HMul.hMul ℝ ℝ ℝ (@instHMul ℝ RealLike.toMul) a b = a * b := rfl
@[simp] theorem real_div (a b : ℝ) : @HDiv.hDiv ℝ ℝ ℝ (@instHDiv ℝ RealLike.toDiv) a b = a / b := rfl
@[simp] theorem real_neg (a : ℝ) : @Neg.neg ℝ RealLike.toNeg a = -a := rfl
@[simp] theorem real_lt (a b : ℝ) : @LT.lt ℝ RealLike.toLT a b ↔ a < b := Iff.rfl
@[simp] theorem real_le (a b : ℝ) : @LE.le ℝ RealLike.toLE a b ↔ a ≤ b := Iff.rfl
end RealLike
