/-
C04 lemmas, part 9: the helpers of the log-time sort never add a key to the `front` dictionary
(they only write keys taken from the lists they are given), so `max(front.values()) + 1` is one more
than the largest rank of a fitness.
-/
import DeapModel.Lemmas.C04Log
import Mathlib.Tactic.SplitIfs

set_option linter.unusedSectionVars false
set_option linter.unusedSimpArgs false
set_option linter.unusedVariables false

namespace C04L
open NDSort

variable {α : Type} [LinearOrder α] [Add α] [Neg α] [Inhabited α]

theorem keys_bump (front : FrontDict α) (a b : List α) (ha : a ∈ dkeys front) :
    dkeys (bump front a b) = dkeys front := by
  rw [bump, dkeys_dset, if_pos ha]

theorem keys_foldl {γ : Type} (step : FrontDict α → γ → FrontDict α) (ok : γ → Prop)
    (h : ∀ fr x, ok x → dkeys (step fr x) = dkeys fr) : ∀ (l : List γ) (fr : FrontDict α),
    (∀ x ∈ l, ok x) → dkeys (l.foldl step fr) = dkeys fr
  | [], fr, _ => rfl
  | x :: l, fr, hl => by
    simp only [List.foldl_cons]
    rw [keys_foldl step ok h l _ (fun y hy => hl y (by simp [hy])), h fr x (hl x (by simp))]

theorem keys_sweepAStep (st : Stairs α × FrontDict α) (fit : List α) (hfit : fit ∈ dkeys st.2) :
    dkeys (sweepAStep st fit).2 = dkeys st.2 := by
  obtain ⟨s, front⟩ := st
  simp only [sweepAStep]
  split
  · split
    · exact keys_bump _ _ _ hfit
    · rfl
  · rfl

theorem keys_sweepA (fits : List (List α)) (front : FrontDict α) (h : ∀ f ∈ fits, f ∈ dkeys front) :
    dkeys (sweepA fits front) = dkeys front := by
  cases fits with
  | nil => rfl
  | cons f0 rest =>
    simp only [sweepA]
    generalize ({ stairs := [-(nth f0 1)], fstairs := [f0] } : Stairs α) = s0
    have hrest : ∀ f ∈ rest, f ∈ dkeys front := fun f hf => h f (by simp [hf])
    clear h
    induction rest generalizing s0 front with
    | nil => rfl
    | cons x rest ih =>
      simp only [List.foldl_cons]
      have h1 := keys_sweepAStep (s0, front) x (hrest x (by simp))
      have h2 := ih (s0 := (sweepAStep (s0, front) x).1) (front := (sweepAStep (s0, front) x).2)
        (by intro f hf; rw [h1]; exact hrest f (by simp [hf]))
      exact h2.trans h1

theorem keys_foldl_state {σ : Type} (π : σ → FrontDict α) (step : σ → List α → σ)
    (h : ∀ st x, x ∈ dkeys (π st) → dkeys (π (step st x)) = dkeys (π st)) : ∀ (l : List (List α)) (st : σ),
    (∀ x ∈ l, x ∈ dkeys (π st)) → dkeys (π (l.foldl step st)) = dkeys (π st)
  | [], st, _ => rfl
  | x :: l, st, hl => by
    simp only [List.foldl_cons]
    have h1 := h st x (hl x (by simp))
    rw [keys_foldl_state π step h l _ (fun y hy => by rw [h1]; exact hl y (by simp [hy])), h1]

theorem keys_sweepB (best worst : List (List α)) (front : FrontDict α) (h : ∀ f ∈ worst, f ∈ dkeys front) :
    dkeys (sweepB best worst front) = dkeys front := by
  simp only [sweepB]
  refine keys_foldl_state (fun st : (Stairs α × List (List α)) × FrontDict α => st.2) _ ?_ worst _ h
  intro st x hx
  obtain ⟨⟨s, bs⟩, fr⟩ := st
  simp only []
  split
  · split
    · exact keys_bump _ _ _ hx
    · rfl
  · rfl

theorem keys_helperBDirect (best worst : List (List α)) (obj : Nat) (front : FrontDict α)
    (h : ∀ f ∈ worst, f ∈ dkeys front) : dkeys (helperBDirect best worst obj front) = dkeys front := by
  simp only [helperBDirect]
  -- generalise over the membership of the written key
  have inner : ∀ (hi : List α) (fr : FrontDict α), hi ∈ dkeys fr →
      dkeys (best.foldl (fun front li =>
        if isDominated (hi.take (obj + 1)) (li.take (obj + 1)) || hi.take (obj + 1) == li.take (obj + 1)
        then bump front hi li else front) fr) = dkeys fr := by
    intro hi
    induction best with
    | nil => intro fr _; rfl
    | cons li best ih =>
      intro fr hfr
      simp only [List.foldl_cons]
      split
      · rw [ih _ (by rw [keys_bump _ _ _ hfr]; exact hfr), keys_bump _ _ _ hfr]
      · exact ih fr hfr
  induction worst generalizing front with
  | nil => rfl
  | cons hi worst ih =>
    simp only [List.foldl_cons]
    have h1 := inner hi front (h hi (by simp))
    rw [ih _ (by intro f hf; rw [h1]; exact h f (by simp [hf])), h1]

theorem splitB_subset (best worst : List (List α)) (obj : Nat) :
    (∀ x ∈ (splitB best worst obj).1, x ∈ best) ∧ (∀ x ∈ (splitB best worst obj).2.1, x ∈ best) ∧
    (∀ x ∈ (splitB best worst obj).2.2.1, x ∈ worst) ∧ (∀ x ∈ (splitB best worst obj).2.2.2, x ∈ worst) := by
  simp only [splitB]
  split_ifs <;> exact ⟨fun x hx => (List.mem_filter.1 hx).1, fun x hx => (List.mem_filter.1 hx).1,
    fun x hx => (List.mem_filter.1 hx).1, fun x hx => (List.mem_filter.1 hx).1⟩

theorem keys_helperB (best worst : List (List α)) (obj : Nat) (front : FrontDict α) :
    (∀ f ∈ worst, f ∈ dkeys front) → ∀ front', helperB best worst obj front = some front' →
      dkeys front' = dkeys front := by
  fun_induction helperB best worst obj front
  case case1 => intro _ f h; cases h; rfl
  case case2 => intro hk f h; cases h; exact keys_helperBDirect _ _ _ _ hk
  case case3 => intro hk f h; cases h; exact keys_sweepB _ _ _ hk
  case case4 => intro _ f h; cases h
  case case5 ih => exact ih
  case case6 best worst obj front _ _ _ _ _ _ b1 b2 w1 w2 hs _ ih3 ih2 ih1 =>
    intro hk f h
    simp only [Option.bind_eq_some_iff] at h
    obtain ⟨f1, h1, f2, h2, h3⟩ := h
    -- the worst parts are filters of `worst`
    have hsub := splitB_subset best worst obj
    rw [hs] at hsub
    have hw1 : ∀ x ∈ w1, x ∈ worst := hsub.2.2.1
    have hw2 : ∀ x ∈ w2, x ∈ worst := hsub.2.2.2
    have k1 := ih3 (fun x hx => hk x (hw1 x hx)) f1 h1
    have k2 := ih2 f1 (fun x hx => by rw [k1]; exact hk x (hw2 x hx)) f2 h2
    have k3 := ih1 f2 (fun x hx => by rw [k2, k1]; exact hk x (hw2 x hx)) f h3
    rw [k3, k2, k1]
  case case7 => intro _ f h; cases h
  case case8 => intro _ f h; cases h; rfl

theorem splitA_subset (fits : List (List α)) (obj : Nat) :
    (∀ x ∈ (splitA fits obj).1, x ∈ fits) ∧ (∀ x ∈ (splitA fits obj).2, x ∈ fits) := by
  simp only [splitA]
  split <;> exact ⟨fun x hx => (List.mem_filter.1 hx).1, fun x hx => (List.mem_filter.1 hx).1⟩

theorem keys_helperA (fits : List (List α)) (obj : Nat) (front : FrontDict α) :
    (∀ f ∈ fits, f ∈ dkeys front) → ∀ front', helperA fits obj front = some front' →
      dkeys front' = dkeys front := by
  fun_induction helperA fits obj front
  case case1 => intro _ f h; cases h; rfl
  case case2 fits obj front h1 h2 s1 s2 hd =>
    intro hk f h; cases h
    refine keys_bump _ _ _ (hk _ ?_)
    have : 1 < fits.length := by omega
    simp only [s2, List.getD_eq_getElem?_getD, List.getElem?_eq_getElem this, Option.getD_some]
    exact List.getElem_mem this
  case case3 => intro _ f h; cases h; rfl
  case case4 => intro hk f h; cases h; exact keys_sweepA _ _ hk
  case case5 => intro _ f h; cases h
  case case6 ih => exact ih
  case case7 fits obj front _ _ _ _ _ best worst hs _ ih2 ih1 =>
    intro hk f h
    simp only [Option.bind_eq_some_iff] at h
    obtain ⟨f1, h1, f2, h2, h3⟩ := h
    have hsub := splitA_subset fits obj
    rw [hs] at hsub
    have k1 := ih2 (fun x hx => hk x (hsub.1 x hx)) f1 h1
    have k2 := keys_helperB best worst (obj - 1) f1 (fun x hx => by rw [k1]; exact hk x (hsub.2 x hx)) f2 h2
    have k3 := ih1 f2 (fun x hx => by rw [k2, k1]; exact hk x (hsub.2 x hx)) f h3
    rw [k3, k2, k1]
  case case8 => intro _ f h; cases h

end C04L
