/-
C20 — the telescoping identities of the DTLZ objective shape `Bench.front` over ℝ.
-/
import DeapModel.Lemmas.C20Real

set_option linter.unusedSimpArgs false

namespace C20L
open RealLike Bench

theorem frontStep_fst (pre post : ℝ) (st : ℝ × List ℝ) (p : ℝ × ℝ) :
    (frontStep pre post st p).1 = st.1 * p.1 := rfl

theorem frontStep_snd (pre post : ℝ) (st : ℝ × List ℝ) (p : ℝ × ℝ) :
    (frontStep pre post st p).2 = (pre * st.1 * p.2 * post) :: st.2 := rfl

/-- linear telescoping: every step keeps `pre·acc·post + Σ out` when `c + s = 1` -/
theorem front_fold_sum (pre post : ℝ) (ps : List (ℝ × ℝ)) (h : ∀ p ∈ ps, p.1 + p.2 = 1) (st : ℝ × List ℝ) :
    pre * (ps.foldl (frontStep pre post) st).1 * post + (ps.foldl (frontStep pre post) st).2.sum
      = pre * st.1 * post + st.2.sum := by
  induction ps generalizing st with
  | nil => simp
  | cons p t ih =>
    simp only [List.foldl_cons]
    rw [ih (fun q hq => h q (by simp [hq]))]
    rw [frontStep_fst, frontStep_snd, List.sum_cons]
    have := h p (by simp)
    have e : p.2 = 1 - p.1 := by linarith
    rw [e]; ring

/-- quadratic telescoping when `c² + s² = 1` -/
theorem front_fold_norm (pre post : ℝ) (ps : List (ℝ × ℝ)) (h : ∀ p ∈ ps, p.1 ^ 2 + p.2 ^ 2 = 1)
    (st : ℝ × List ℝ) :
    (pre * (ps.foldl (frontStep pre post) st).1 * post) ^ 2
        + ((ps.foldl (frontStep pre post) st).2.map (· ^ 2)).sum
      = (pre * st.1 * post) ^ 2 + (st.2.map (· ^ 2)).sum := by
  induction ps generalizing st with
  | nil => simp
  | cons p t ih =>
    simp only [List.foldl_cons]
    rw [ih (fun q hq => h q (by simp [hq]))]
    rw [frontStep_fst, frontStep_snd, List.map_cons, List.sum_cons]
    have := h p (by simp)
    have e : p.2 ^ 2 = 1 - p.1 ^ 2 := by linarith
    have : (pre * st.1 * p.2 * post) ^ 2 = (pre * st.1 * post) ^ 2 * p.2 ^ 2 := by ring
    rw [this, e]; ring

theorem front_fold_length (pre post : ℝ) (ps : List (ℝ × ℝ)) (st : ℝ × List ℝ) :
    (ps.foldl (frontStep pre post) st).2.length = st.2.length + ps.length := by
  induction ps generalizing st with
  | nil => simp
  | cons p t ih => simp only [List.foldl_cons]; rw [ih, frontStep_snd]; simp; omega

/-- Σ fᵢ = pre·post when every position pair sums to one (DTLZ1). -/
theorem front_sum (pre post : ℝ) (ps : List (ℝ × ℝ)) (h : ∀ p ∈ ps, p.1 + p.2 = 1) :
    (front pre post ps).sum = pre * post := by
  have := front_fold_sum pre post ps h (1, [])
  simp only [front, List.sum_cons]
  real_bridge
  simp only [Nat.cast_one] at *
  rw [this]; simp

/-- Σ fᵢ² = (pre·post)² when every position pair lies on the unit circle (DTLZ2–6). -/
theorem front_norm (pre post : ℝ) (ps : List (ℝ × ℝ)) (h : ∀ p ∈ ps, p.1 ^ 2 + p.2 ^ 2 = 1) :
    ((front pre post ps).map (· ^ 2)).sum = (pre * post) ^ 2 := by
  have := front_fold_norm pre post ps h (1, [])
  simp only [front, List.map_cons, List.sum_cons]
  real_bridge
  simp only [Nat.cast_one] at *
  rw [this]; simp

theorem front_length (pre post : ℝ) (ps : List (ℝ × ℝ)) : (front pre post ps).length = ps.length + 1 := by
  simp only [front, List.length_cons]
  rw [front_fold_length]; simp

end C20L
