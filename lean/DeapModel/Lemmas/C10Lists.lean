/-
C10 — list-level characterisation of the operator loops of `Core/RealOps.lean`, for every scalar
type: what each locus of the output is in terms of the same locus of the inputs and of draws taken
from the tape, that lengths are kept, that loci outside the loop's range stay, and that a tape that
is long enough always yields a result.  Core Lean only.
-/
import DeapModel.Core.RealOps

set_option linter.unusedSectionVars false
set_option linter.unusedSimpArgs false
set_option linter.unusedVariables false

namespace RealOps
variable {α : Type} [RealLike α]

theorem pop_eq_some {rs : List α} {r : α} {t : List α} (h : pop rs = some (r, t)) : rs = r :: t := by
  cases rs with
  | nil => simp [pop] at h
  | cons x xs => simp [pop] at h; obtain ⟨rfl, rfl⟩ := h; rfl

theorem pop_of_pos {rs : List α} (h : 0 < rs.length) : ∃ r t, pop rs = some (r, t) ∧ rs = r :: t := by
  cases rs with
  | nil => simp at h
  | cons x xs => exact ⟨x, xs, rfl, rfl⟩

/-! ### `pairLoop` (cxBlend, cxSimulatedBinary) -/

theorem pairLoop_spec (f : α → α → α → α × α) :
    ∀ (a b rs c1 c2 rest : List α), pairLoop f a b rs = some (c1, c2, rest) →
      c1.length = a.length ∧ c2.length = b.length ∧
      (∀ (i : Nat) x1 x2 y1 y2, a[i]? = some x1 → b[i]? = some x2 → c1[i]? = some y1 → c2[i]? = some y2 →
        ∃ r ∈ rs, y1 = (f x1 x2 r).1 ∧ y2 = (f x1 x2 r).2) ∧
      (∀ i : Nat, b.length ≤ i → c1[i]? = a[i]?) ∧ (∀ i : Nat, a.length ≤ i → c2[i]? = b[i]?) := by
  intro a
  induction a with
  | nil =>
    intro b rs c1 c2 rest h
    simp [pairLoop] at h
    obtain ⟨rfl, rfl, rfl⟩ := h
    simp
  | cons x1 a ih =>
    intro b rs c1 c2 rest h
    cases b with
    | nil =>
      simp [pairLoop] at h
      obtain ⟨rfl, rfl, rfl⟩ := h
      simp
    | cons x2 b =>
      simp only [pairLoop] at h
      split at h
      · simp at h
      · next r rs' hp =>
        have hrs := pop_eq_some hp
        split at h
        · simp at h
        · next d1 d2 rest' hl =>
          simp at h
          obtain ⟨rfl, rfl, rfl⟩ := h
          obtain ⟨h1, h2, h3, h4, h5⟩ := ih b rs' d1 d2 rest' hl
          refine ⟨by simp [h1], by simp [h2], ?_, ?_, ?_⟩
          · intro i u1 u2 y1 y2 ha hb hc hd
            cases i with
            | zero =>
              simp at ha hb hc hd
              subst ha hb hc hd
              exact ⟨r, by simp [hrs], rfl, rfl⟩
            | succ i =>
              simp at ha hb hc hd
              obtain ⟨r', hr', e⟩ := h3 i u1 u2 y1 y2 ha hb hc hd
              exact ⟨r', by simp [hrs, hr'], e⟩
          · intro i hi
            cases i with
            | zero => simp at hi
            | succ i => simp at hi ⊢; exact h4 i hi
          · intro i hi
            cases i with
            | zero => simp at hi
            | succ i => simp at hi ⊢; exact h5 i hi

theorem pairLoop_total (f : α → α → α → α × α) :
    ∀ (a b rs : List α), min a.length b.length ≤ rs.length → ∃ out, pairLoop f a b rs = some out := by
  intro a
  induction a with
  | nil => intro b rs _; exact ⟨_, by simp only [pairLoop]; rfl⟩
  | cons x1 a ih =>
    intro b rs h
    cases b with
    | nil => exact ⟨_, by simp only [pairLoop]; rfl⟩
    | cons x2 b =>
      have hpos : 0 < rs.length := by simp at h; omega
      obtain ⟨r, t, hp, rfl⟩ := pop_of_pos hpos
      obtain ⟨out, ho⟩ := ih b t (by simp at h ⊢; omega)
      exact ⟨_, by simp only [pairLoop, pop, ho]; rfl⟩

/-! ### `cxESBlendLoop` -/

theorem cxESBlendLoop_spec (alpha : α) :
    ∀ (a sa b sb rs c1 t1 c2 t2 rest : List α),
      cxESBlendLoop alpha a sa b sb rs = some (c1, t1, c2, t2, rest) →
      (c1.length = a.length ∧ t1.length = sa.length ∧ c2.length = b.length ∧ t2.length = sb.length) ∧
      (∀ (i : Nat) x1 s1 x2 s2 y1 u1 y2 u2, a[i]? = some x1 → sa[i]? = some s1 → b[i]? = some x2 →
        sb[i]? = some s2 → c1[i]? = some y1 → t1[i]? = some u1 → c2[i]? = some y2 → t2[i]? = some u2 →
        ∃ r ∈ rs, ∃ q ∈ rs, y1 = (blendPair alpha x1 x2 r).1 ∧ y2 = (blendPair alpha x1 x2 r).2 ∧
          u1 = (blendPair alpha s1 s2 q).1 ∧ u2 = (blendPair alpha s1 s2 q).2) := by
  intro a
  induction a with
  | nil =>
    intro sa b sb rs c1 t1 c2 t2 rest h
    simp [cxESBlendLoop] at h
    obtain ⟨rfl, rfl, rfl, rfl, rfl⟩ := h
    simp
  | cons x1 a ih =>
    intro sa b sb rs c1 t1 c2 t2 rest h
    cases sa with
    | nil =>
      simp [cxESBlendLoop] at h
      obtain ⟨rfl, rfl, rfl, rfl, rfl⟩ := h
      simp
    | cons s1 sa =>
      cases b with
      | nil =>
        simp [cxESBlendLoop] at h
        obtain ⟨rfl, rfl, rfl, rfl, rfl⟩ := h
        simp
      | cons x2 b =>
        cases sb with
        | nil =>
          simp [cxESBlendLoop] at h
          obtain ⟨rfl, rfl, rfl, rfl, rfl⟩ := h
          simp
        | cons s2 sb =>
          simp only [cxESBlendLoop] at h
          split at h
          · simp at h
          · next r rs' hp =>
            have hrs := pop_eq_some hp
            split at h
            · simp at h
            · next q rs'' hp2 =>
              have hrs2 := pop_eq_some hp2
              split at h
              · simp at h
              · next d1 e1 d2 e2 rest' hl =>
                simp at h
                obtain ⟨rfl, rfl, rfl, rfl, rfl⟩ := h
                obtain ⟨⟨h1, h2, h3, h4⟩, h5⟩ := ih sa b sb rs'' d1 e1 d2 e2 rest' hl
                refine ⟨⟨by simp [h1], by simp [h2], by simp [h3], by simp [h4]⟩, ?_⟩
                intro i v1 w1 v2 w2 y1 u1 y2 u2 ha hsa hb hsb hc1 ht1 hc2 ht2
                cases i with
                | zero =>
                  simp at ha hsa hb hsb hc1 ht1 hc2 ht2
                  subst ha hsa hb hsb hc1 ht1 hc2 ht2
                  exact ⟨r, by simp [hrs], q, by simp [hrs, hrs2], rfl, rfl, rfl, rfl⟩
                | succ i =>
                  simp at ha hsa hb hsb hc1 ht1 hc2 ht2
                  obtain ⟨r', hr', q', hq', e⟩ := h5 i v1 w1 v2 w2 y1 u1 y2 u2 ha hsa hb hsb hc1 ht1 hc2 ht2
                  exact ⟨r', by simp [hrs, hrs2, hr'], q', by simp [hrs, hrs2, hq'], e⟩

theorem cxESBlendLoop_total (alpha : α) :
    ∀ (a sa b sb rs : List α), 2 * min (min a.length sa.length) (min b.length sb.length) ≤ rs.length →
      ∃ out, cxESBlendLoop alpha a sa b sb rs = some out := by
  intro a
  induction a with
  | nil => intro sa b sb rs _; exact ⟨_, by simp only [cxESBlendLoop]; rfl⟩
  | cons x1 a ih =>
    intro sa b sb rs h
    cases sa with
    | nil => exact ⟨_, by simp only [cxESBlendLoop]; rfl⟩
    | cons s1 sa =>
      cases b with
      | nil => exact ⟨_, by simp only [cxESBlendLoop]; rfl⟩
      | cons x2 b =>
        cases sb with
        | nil => exact ⟨_, by simp only [cxESBlendLoop]; rfl⟩
        | cons s2 sb =>
          simp at h
          obtain ⟨r, t, _, rfl⟩ := pop_of_pos (rs := rs) (by omega)
          obtain ⟨q, t', _, rfl⟩ := pop_of_pos (rs := t) (by simp at h; omega)
          obtain ⟨out, ho⟩ := ih sa b sb t' (by simp at h ⊢; omega)
          exact ⟨_, by simp only [cxESBlendLoop, pop, ho]; rfl⟩

/-! ### bounded SBX -/

/-- the draws left by one locus are draws of the tape it was given -/
theorem sbxbGene_rest (eta x1 x2 xl xu : α) (rs : List α) (y1 y2 : α) (rest : List α)
    (h : sbxbGene eta x1 x2 xl xu rs = some (y1, y2, rest)) : ∀ r ∈ rest, r ∈ rs := by
  simp only [sbxbGene] at h
  split at h
  · simp at h
  · next g rs1 hp =>
    have e1 := pop_eq_some hp
    split at h
    · split at h
      · split at h
        · simp at h
        · next rand rs2 hp2 =>
          have e2 := pop_eq_some hp2
          split at h
          · simp at h
          · next s rs3 hp3 =>
            have e3 := pop_eq_some hp3
            split at h <;> (simp at h; obtain ⟨_, _, rfl⟩ := h; intro r hr; simp [e1, e2, e3, hr])
      · simp at h; obtain ⟨_, _, rfl⟩ := h; intro r hr; simp [e1, hr]
    · simp at h; obtain ⟨_, _, rfl⟩ := h; intro r hr; simp [e1, hr]

/-- what one locus of the bounded SBX returns: the parents' genes (gate closed or guard not passed), or —
guard passed — the two children computed from one draw of the tape, in either order -/
theorem sbxbGene_cases (eta x1 x2 xl xu : α) (rs : List α) (y1 y2 : α) (rest : List α)
    (h : sbxbGene eta x1 x2 xl xu rs = some (y1, y2, rest)) :
    (y1 = x1 ∧ y2 = x2) ∨
    (eps < RealLike.abs (x1 - x2) ∧ ∃ rand ∈ rs,
      (y1 = (sbxbChildren eta (RealLike.pmin x1 x2) (RealLike.pmax x1 x2) xl xu rand).1 ∧
       y2 = (sbxbChildren eta (RealLike.pmin x1 x2) (RealLike.pmax x1 x2) xl xu rand).2) ∨
      (y1 = (sbxbChildren eta (RealLike.pmin x1 x2) (RealLike.pmax x1 x2) xl xu rand).2 ∧
       y2 = (sbxbChildren eta (RealLike.pmin x1 x2) (RealLike.pmax x1 x2) xl xu rand).1)) := by
  simp only [sbxbGene] at h
  split at h
  · simp at h
  · next g rs1 hp =>
    have e1 := pop_eq_some hp
    split at h
    · split at h
      · next hguard =>
        split at h
        · simp at h
        · next rand rs2 hp2 =>
          have e2 := pop_eq_some hp2
          split at h
          · simp at h
          · split at h
            · simp at h; obtain ⟨rfl, rfl, _⟩ := h
              exact Or.inr ⟨hguard, rand, by simp [e1, e2], Or.inr ⟨rfl, rfl⟩⟩
            · simp at h; obtain ⟨rfl, rfl, _⟩ := h
              exact Or.inr ⟨hguard, rand, by simp [e1, e2], Or.inl ⟨rfl, rfl⟩⟩
      · simp at h; obtain ⟨rfl, rfl, _⟩ := h; exact Or.inl ⟨rfl, rfl⟩
    · simp at h; obtain ⟨rfl, rfl, _⟩ := h; exact Or.inl ⟨rfl, rfl⟩

theorem sbxbGene_total (eta x1 x2 xl xu : α) (rs : List α) (h : 3 ≤ rs.length) :
    ∃ y1 y2 rest, sbxbGene eta x1 x2 xl xu rs = some (y1, y2, rest) ∧ rs.length ≤ rest.length + 3 := by
  obtain ⟨g, t1, _, rfl⟩ := pop_of_pos (rs := rs) (by omega)
  obtain ⟨r, t2, _, rfl⟩ := pop_of_pos (rs := t1) (by simp at h; omega)
  obtain ⟨s, t3, _, rfl⟩ := pop_of_pos (rs := t2) (by simp at h; omega)
  simp only [sbxbGene, pop]
  split
  · split
    · split
      · exact ⟨_, _, _, rfl, by simp⟩
      · exact ⟨_, _, _, rfl, by simp⟩
    · exact ⟨_, _, _, rfl, by simp⟩
  · exact ⟨_, _, _, rfl, by simp⟩

theorem cxSBXBLoop_spec (eta : α) :
    ∀ (a b lo up rs c1 c2 rest : List α), cxSBXBLoop eta a b lo up rs = some (c1, c2, rest) →
      c1.length = a.length ∧ c2.length = b.length ∧
      (∀ (i : Nat) x1 x2 xl xu y1 y2, a[i]? = some x1 → b[i]? = some x2 → lo[i]? = some xl → up[i]? = some xu →
        c1[i]? = some y1 → c2[i]? = some y2 →
        ∃ rs' rest', (∀ r ∈ rs', r ∈ rs) ∧ sbxbGene eta x1 x2 xl xu rs' = some (y1, y2, rest')) ∧
      (∀ i : Nat, (b.length ≤ i ∨ lo.length ≤ i ∨ up.length ≤ i) → c1[i]? = a[i]?) ∧
      (∀ i : Nat, (a.length ≤ i ∨ lo.length ≤ i ∨ up.length ≤ i) → c2[i]? = b[i]?) := by
  intro a
  induction a with
  | nil =>
    intro b lo up rs c1 c2 rest h
    simp [cxSBXBLoop] at h
    obtain ⟨rfl, rfl, rfl⟩ := h
    simp
  | cons x1 a ih =>
    intro b lo up rs c1 c2 rest h
    cases b with
    | nil =>
      simp [cxSBXBLoop] at h
      obtain ⟨rfl, rfl, rfl⟩ := h
      simp
    | cons x2 b =>
      cases lo with
      | nil =>
        simp [cxSBXBLoop] at h
        obtain ⟨rfl, rfl, rfl⟩ := h
        simp
      | cons xl lo =>
        cases up with
        | nil =>
          simp [cxSBXBLoop] at h
          obtain ⟨rfl, rfl, rfl⟩ := h
          simp
        | cons xu up =>
          simp only [cxSBXBLoop] at h
          split at h
          · simp at h
          · next z1 z2 rs' hg =>
            have hsub := sbxbGene_rest eta x1 x2 xl xu rs z1 z2 rs' hg
            split at h
            · simp at h
            · next d1 d2 rest' hl =>
              simp at h
              obtain ⟨rfl, rfl, rfl⟩ := h
              obtain ⟨h1, h2, h3, h4, h5⟩ := ih b lo up rs' d1 d2 rest' hl
              refine ⟨by simp [h1], by simp [h2], ?_, ?_, ?_⟩
              · intro i u1 u2 ul uu y1 y2 ha hb hlo hup hc hd
                cases i with
                | zero =>
                  simp at ha hb hlo hup hc hd
                  subst ha hb hlo hup hc hd
                  exact ⟨rs, rs', fun r hr => hr, hg⟩
                | succ i =>
                  simp at ha hb hlo hup hc hd
                  obtain ⟨q, q', hq, e⟩ := h3 i u1 u2 ul uu y1 y2 ha hb hlo hup hc hd
                  exact ⟨q, q', fun r hr => hsub r (hq r hr), e⟩
              · intro i hi
                cases i with
                | zero => simp at hi
                | succ i => simp at hi ⊢; exact h4 i hi
              · intro i hi
                cases i with
                | zero => simp at hi
                | succ i => simp at hi ⊢; exact h5 i hi

theorem cxSBXBLoop_total (eta : α) :
    ∀ (a b lo up rs : List α), 3 * min a.length b.length ≤ rs.length →
      ∃ out, cxSBXBLoop eta a b lo up rs = some out := by
  intro a
  induction a with
  | nil => intro b lo up rs _; exact ⟨_, by simp only [cxSBXBLoop]; rfl⟩
  | cons x1 a ih =>
    intro b lo up rs h
    cases b with
    | nil => exact ⟨_, by simp only [cxSBXBLoop]; rfl⟩
    | cons x2 b =>
      cases lo with
      | nil => exact ⟨_, by simp only [cxSBXBLoop]; rfl⟩
      | cons xl lo =>
        cases up with
        | nil => exact ⟨_, by simp only [cxSBXBLoop]; rfl⟩
        | cons xu up =>
          simp at h
          obtain ⟨y1, y2, rest, hg, hlen⟩ := sbxbGene_total eta x1 x2 xl xu rs (by omega)
          obtain ⟨out, ho⟩ := ih b lo up rest (by omega)
          exact ⟨_, by simp only [cxSBXBLoop, hg, ho]; rfl⟩

/-! ### polynomial mutation -/

theorem polyLoop_spec (eta indpb : α) :
    ∀ (xs lo up rs ys rest : List α), polyLoop eta indpb xs lo up rs = some (ys, rest) →
      ys.length = xs.length ∧
      (∀ (i : Nat) x xl xu y, xs[i]? = some x → lo[i]? = some xl → up[i]? = some xu → ys[i]? = some y →
        y = x ∨ ∃ rand ∈ rs, y = polyGene eta x xl xu rand) ∧
      (∀ i : Nat, (lo.length ≤ i ∨ up.length ≤ i) → ys[i]? = xs[i]?) := by
  intro xs
  induction xs with
  | nil =>
    intro lo up rs ys rest h
    simp [polyLoop] at h
    obtain ⟨rfl, rfl⟩ := h
    simp
  | cons x xs ih =>
    intro lo up rs ys rest h
    cases lo with
    | nil =>
      simp [polyLoop] at h
      obtain ⟨rfl, rfl⟩ := h
      simp
    | cons xl lo =>
      cases up with
      | nil =>
        simp [polyLoop] at h
        obtain ⟨rfl, rfl⟩ := h
        simp
      | cons xu up =>
        simp only [polyLoop] at h
        split at h
        · simp at h
        · next g rs1 hp =>
          have e1 := pop_eq_some hp
          split at h
          · split at h
            · simp at h
            · next rand rs2 hp2 =>
              have e2 := pop_eq_some hp2
              split at h
              · simp at h
              · next zs rest' hl =>
                simp at h
                obtain ⟨rfl, rfl⟩ := h
                obtain ⟨h1, h2, h3⟩ := ih lo up rs2 zs rest' hl
                refine ⟨by simp [h1], ?_, ?_⟩
                · intro i u ul uu y hx hlo hup hy
                  cases i with
                  | zero =>
                    simp at hx hlo hup hy
                    subst hx hlo hup hy
                    exact Or.inr ⟨rand, by simp [e1, e2], rfl⟩
                  | succ i =>
                    simp at hx hlo hup hy
                    rcases h2 i u ul uu y hx hlo hup hy with e | ⟨q, hq, e⟩
                    · exact Or.inl e
                    · exact Or.inr ⟨q, by simp [e1, e2, hq], e⟩
                · intro i hi
                  cases i with
                  | zero => simp at hi
                  | succ i => simp at hi ⊢; exact h3 i hi
          · split at h
            · simp at h
            · next zs rest' hl =>
              simp at h
              obtain ⟨rfl, rfl⟩ := h
              obtain ⟨h1, h2, h3⟩ := ih lo up rs1 zs rest' hl
              refine ⟨by simp [h1], ?_, ?_⟩
              · intro i u ul uu y hx hlo hup hy
                cases i with
                | zero =>
                  simp at hx hlo hup hy
                  subst hx hlo hup hy
                  exact Or.inl rfl
                | succ i =>
                  simp at hx hlo hup hy
                  rcases h2 i u ul uu y hx hlo hup hy with e | ⟨q, hq, e⟩
                  · exact Or.inl e
                  · exact Or.inr ⟨q, by simp [e1, hq], e⟩
              · intro i hi
                cases i with
                | zero => simp at hi
                | succ i => simp at hi ⊢; exact h3 i hi

theorem polyLoop_total (eta indpb : α) :
    ∀ (xs lo up rs : List α), 2 * xs.length ≤ rs.length → ∃ out, polyLoop eta indpb xs lo up rs = some out := by
  intro xs
  induction xs with
  | nil => intro lo up rs _; exact ⟨_, by simp only [polyLoop]; rfl⟩
  | cons x xs ih =>
    intro lo up rs h
    cases lo with
    | nil => exact ⟨_, by simp only [polyLoop]; rfl⟩
    | cons xl lo =>
      cases up with
      | nil => exact ⟨_, by simp only [polyLoop]; rfl⟩
      | cons xu up =>
        simp at h
        obtain ⟨g, t1, _, rfl⟩ := pop_of_pos (rs := rs) (by omega)
        obtain ⟨r, t2, _, rfl⟩ := pop_of_pos (rs := t1) (by simp at h; omega)
        obtain ⟨o1, ho1⟩ := ih lo up t2 (by simp at h ⊢; omega)
        obtain ⟨o2, ho2⟩ := ih lo up (r :: t2) (by simp at h ⊢; omega)
        simp only [polyLoop, pop]
        split
        · exact ⟨_, by simp only [ho1]; rfl⟩
        · exact ⟨_, by simp only [ho2]; rfl⟩

/-! ### Gaussian mutation -/

theorem gaussLoop_spec (indpb : α) :
    ∀ (xs mu sigma rs gs ys rrest grest : List α),
      gaussLoop indpb xs mu sigma rs gs = some (ys, rrest, grest) →
      ys.length = xs.length ∧
      (∀ (i : Nat) x y, xs[i]? = some x → ys[i]? = some y →
        y = x ∨ ∃ g ∈ rs, g < indpb ∧ ∃ z ∈ gs, y = x + z) := by
  intro xs
  induction xs with
  | nil =>
    intro mu sigma rs gs ys rrest grest h
    simp [gaussLoop] at h
    obtain ⟨rfl, rfl, rfl⟩ := h
    simp
  | cons x xs ih =>
    intro mu sigma rs gs ys rrest grest h
    cases mu with
    | nil =>
      simp [gaussLoop] at h
      obtain ⟨rfl, rfl, rfl⟩ := h
      exact ⟨rfl, fun i u y hx hy => Or.inl (by rw [hx] at hy; exact (Option.some.inj hy).symm)⟩
    | cons m mu =>
      cases sigma with
      | nil =>
        simp [gaussLoop] at h
        obtain ⟨rfl, rfl, rfl⟩ := h
        exact ⟨rfl, fun i u y hx hy => Or.inl (by rw [hx] at hy; exact (Option.some.inj hy).symm)⟩
      | cons s sigma =>
        simp only [gaussLoop] at h
        split at h
        · simp at h
        · next g rs1 hp =>
          have e1 := pop_eq_some hp
          split at h
          · next hg =>
            split at h
            · simp at h
            · next z gs1 hp2 =>
              have e2 := pop_eq_some hp2
              split at h
              · simp at h
              · next zs rr gr hl =>
                simp at h
                obtain ⟨rfl, rfl, rfl⟩ := h
                obtain ⟨h1, h2⟩ := ih mu sigma rs1 gs1 zs rr gr hl
                refine ⟨by simp [h1], ?_⟩
                intro i u y hx hy
                cases i with
                | zero =>
                  simp at hx hy
                  subst hx hy
                  exact Or.inr ⟨g, by simp [e1], hg, z, by simp [e2], rfl⟩
                | succ i =>
                  simp at hx hy
                  rcases h2 i u y hx hy with e | ⟨g', hg', hlt, z', hz', e⟩
                  · exact Or.inl e
                  · exact Or.inr ⟨g', by simp [e1, hg'], hlt, z', by simp [e2, hz'], e⟩
          · split at h
            · simp at h
            · next zs rr gr hl =>
              simp at h
              obtain ⟨rfl, rfl, rfl⟩ := h
              obtain ⟨h1, h2⟩ := ih mu sigma rs1 gs zs rr gr hl
              refine ⟨by simp [h1], ?_⟩
              intro i u y hx hy
              cases i with
              | zero =>
                simp at hx hy
                subst hx hy
                exact Or.inl rfl
              | succ i =>
                simp at hx hy
                rcases h2 i u y hx hy with e | ⟨g', hg', hlt, z', hz', e⟩
                · exact Or.inl e
                · exact Or.inr ⟨g', by simp [e1, hg'], hlt, z', hz', e⟩

theorem gaussLoop_total (indpb : α) :
    ∀ (xs mu sigma rs gs : List α), xs.length ≤ rs.length → xs.length ≤ gs.length →
      ∃ out, gaussLoop indpb xs mu sigma rs gs = some out := by
  intro xs
  induction xs with
  | nil => intro mu sigma rs gs _ _; exact ⟨_, by simp only [gaussLoop]; rfl⟩
  | cons x xs ih =>
    intro mu sigma rs gs h1 h2
    cases mu with
    | nil => exact ⟨_, by simp only [gaussLoop]; rfl⟩
    | cons m mu =>
      cases sigma with
      | nil => exact ⟨_, by simp only [gaussLoop]; rfl⟩
      | cons s sigma =>
        simp at h1 h2
        obtain ⟨g, t1, _, rfl⟩ := pop_of_pos (rs := rs) (by omega)
        obtain ⟨z, t2, _, rfl⟩ := pop_of_pos (rs := gs) (by omega)
        obtain ⟨o1, ho1⟩ := ih mu sigma t1 t2 (by simp at h1; omega) (by simp at h2; omega)
        obtain ⟨o2, ho2⟩ := ih mu sigma t1 (z :: t2) (by simp at h1; omega) (by simp at h2 ⊢; omega)
        simp only [gaussLoop, pop]
        split
        · exact ⟨_, by simp only [ho1]; rfl⟩
        · exact ⟨_, by simp only [ho2]; rfl⟩

/-! ### log-normal ES mutation -/

theorem lognLoop_spec (indpb t0n t : α) :
    ∀ (xs ss rs gs ys ts rrest grest : List α),
      lognLoop indpb t0n t xs ss rs gs = .ok (ys, ts, rrest, grest) →
      ys.length = xs.length ∧ ts.length = ss.length ∧
      (∀ (i : Nat) x y, xs[i]? = some x → ys[i]? = some y → ss.length ≤ i → y = x) ∧
      (∀ (i : Nat) x s y u, xs[i]? = some x → ss[i]? = some s → ys[i]? = some y → ts[i]? = some u →
        (y = x ∧ u = s) ∨
        ∃ g ∈ rs, g < indpb ∧ ∃ z1 z2, u = lognSigma s t0n t z1 ∧ y = lognGene x u z2) ∧
      (∀ i : Nat, xs.length ≤ i → ts[i]? = ss[i]?) := by
  intro xs
  induction xs with
  | nil =>
    intro ss rs gs ys ts rrest grest h
    simp [lognLoop] at h
    obtain ⟨rfl, rfl, rfl, rfl⟩ := h
    simp
  | cons x xs ih =>
    intro ss rs gs ys ts rrest grest h
    cases ss with
    | nil =>
      simp only [lognLoop] at h
      split at h
      · simp at h
      · next g rs1 hp =>
        split at h
        · simp at h
        · split at h <;> try (simp at h; done)
          next zs us rr gr hl =>
          simp at h
          obtain ⟨rfl, rfl, rfl, rfl⟩ := h
          obtain ⟨h1, h2, h3, h4, h5⟩ := ih [] rs1 gs zs us rr gr hl
          have hus : us = [] := List.eq_nil_of_length_eq_zero (by simpa using h2)
          subst hus
          refine ⟨by simp [h1], rfl, ?_, ?_, ?_⟩
          · intro i u y hx hy _
            cases i with
            | zero => simp at hx hy; subst hx hy; rfl
            | succ i => simp at hx hy; exact h3 i u y hx hy (by simp)
          · intro i u s y v hx hs
            simp at hs
          · intro i _
            rfl
    | cons s ss =>
      simp only [lognLoop] at h
      split at h
      · simp at h
      · next g rs1 hp =>
        have e1 := pop_eq_some hp
        split at h
        · next hg =>
          split at h
          · simp at h
          · next z1 gs1 hp1 =>
            split at h
            · simp at h
            · next z2 gs2 hp2 =>
              split at h <;> try (simp at h; done)
              next zs us rr gr hl =>
              simp at h
              obtain ⟨rfl, rfl, rfl, rfl⟩ := h
              obtain ⟨h1, h2, h3, h4, h5⟩ := ih ss rs1 gs2 zs us rr gr hl
              refine ⟨by simp [h1], by simp [h2], ?_, ?_, ?_⟩
              · intro i u y hx hy hi
                cases i with
                | zero => simp at hi
                | succ i => simp at hx hy hi; exact h3 i u y hx hy hi
              · intro i u w y v hx hs hy hu
                cases i with
                | zero =>
                  simp at hx hs hy hu
                  subst hx hs hy hu
                  exact Or.inr ⟨g, by simp [e1], hg, z1, z2, rfl, rfl⟩
                | succ i =>
                  simp at hx hs hy hu
                  rcases h4 i u w y v hx hs hy hu with e | ⟨g', hg', r⟩
                  · exact Or.inl e
                  · exact Or.inr ⟨g', by simp [e1, hg'], r⟩
              · intro i hi
                cases i with
                | zero => simp at hi
                | succ i => simp at hi ⊢; exact h5 i hi
        · split at h <;> try (simp at h; done)
          next zs us rr gr hl =>
          simp at h
          obtain ⟨rfl, rfl, rfl, rfl⟩ := h
          obtain ⟨h1, h2, h3, h4, h5⟩ := ih ss rs1 gs zs us rr gr hl
          refine ⟨by simp [h1], by simp [h2], ?_, ?_, ?_⟩
          · intro i u y hx hy hi
            cases i with
            | zero => simp at hi
            | succ i => simp at hx hy hi; exact h3 i u y hx hy hi
          · intro i u w y v hx hs hy hu
            cases i with
            | zero =>
              simp at hx hs hy hu
              subst hx hs hy hu
              exact Or.inl ⟨rfl, rfl⟩
            | succ i =>
              simp at hx hs hy hu
              rcases h4 i u w y v hx hs hy hu with e | ⟨g', hg', r⟩
              · exact Or.inl e
              · exact Or.inr ⟨g', by simp [e1, hg'], r⟩
          · intro i hi
            cases i with
            | zero => simp at hi
            | succ i => simp at hi ⊢; exact h5 i hi

/-- with a strategy at least as long as the individual and enough draws the loop returns -/
theorem lognLoop_total (indpb t0n t : α) :
    ∀ (xs ss rs gs : List α), xs.length ≤ ss.length → xs.length ≤ rs.length → 2 * xs.length ≤ gs.length →
      ∃ out, lognLoop indpb t0n t xs ss rs gs = .ok out := by
  intro xs
  induction xs with
  | nil => intro ss rs gs _ _ _; exact ⟨_, by simp only [lognLoop]; rfl⟩
  | cons x xs ih =>
    intro ss rs gs h0 h1 h2
    cases ss with
    | nil => simp at h0
    | cons s ss =>
      simp at h0 h1 h2
      obtain ⟨g, t1, _, rfl⟩ := pop_of_pos (rs := rs) (by omega)
      obtain ⟨z1, u1, _, rfl⟩ := pop_of_pos (rs := gs) (by omega)
      obtain ⟨z2, u2, _, rfl⟩ := pop_of_pos (rs := u1) (by simp at h2; omega)
      obtain ⟨o1, ho1⟩ := ih ss t1 u2 (by omega) (by simp at h1; omega) (by simp at h2; omega)
      obtain ⟨o2, ho2⟩ := ih ss t1 (z1 :: z2 :: u2) (by omega) (by simp at h1; omega) (by simp at h2 ⊢; omega)
      simp only [lognLoop, pop]
      split
      · exact ⟨_, by simp only [ho1]; rfl⟩
      · exact ⟨_, by simp only [ho2]; rfl⟩

/-! ### bounds -/

theorem expand_scalar_get (v : α) (n i : Nat) (x : α) (h : (List.replicate n v)[i]? = some x) : x = v := by
  rw [List.getElem?_replicate] at h
  split at h
  · exact (Option.some.inj h).symm
  · simp at h

theorem expand_length {b : Bound α} {n : Nat} {l : List α} (h : b.expand n = some l) : n ≤ l.length := by
  cases b with
  | scalar v => simp [Bound.expand] at h; subst h; simp
  | seq s =>
    simp only [Bound.expand] at h
    split at h
    · simp at h
    · next hn => simp at h; subst h; omega

/-- inside the range of the loop the expanded bound list carries the bound in force -/
theorem expand_get {b : Bound α} {n : Nat} {l : List α} (h : b.expand n = some l) {i : Nat} (hi : i < n) :
    l[i]? = b.get? i := by
  cases b with
  | scalar v =>
    simp [Bound.expand] at h; subst h
    simp [Bound.get?, List.getElem?_replicate, hi]
  | seq s =>
    simp only [Bound.expand] at h
    split at h
    · simp at h
    · simp at h; subst h; rfl

/-! ### what an `ok` outcome of each operator is -/

theorem cxBlend_ok {ind1 ind2 : Ind α} {alpha : α} {rs : List α} {o1 o2 : Ind α} {rest : List α}
    (h : cxBlend ind1 ind2 alpha rs = .ok (o1, o2, rest)) :
    ∃ c1 c2, pairLoop (blendPair alpha) ind1.genes ind2.genes rs = some (c1, c2, rest) ∧
      o1 = { ind1 with genes := c1 } ∧ o2 = { ind2 with genes := c2 } := by
  simp only [cxBlend] at h
  split at h
  · simp at h
  · next c1 c2 r hl =>
    simp at h
    obtain ⟨rfl, rfl, rfl⟩ := h
    exact ⟨c1, c2, hl, rfl, rfl⟩

theorem cxSimulatedBinary_ok {ind1 ind2 : Ind α} {eta : α} {rs : List α} {o1 o2 : Ind α} {rest : List α}
    (h : cxSimulatedBinary ind1 ind2 eta rs = .ok (o1, o2, rest)) :
    ∃ c1 c2, pairLoop (sbxPair eta) ind1.genes ind2.genes rs = some (c1, c2, rest) ∧
      o1 = { ind1 with genes := c1 } ∧ o2 = { ind2 with genes := c2 } := by
  simp only [cxSimulatedBinary] at h
  split at h
  · simp at h
  · next c1 c2 r hl =>
    simp at h
    obtain ⟨rfl, rfl, rfl⟩ := h
    exact ⟨c1, c2, hl, rfl, rfl⟩

theorem cxESBlend_ok {ind1 ind2 : Ind α} {alpha : α} {rs : List α} {o1 o2 : Ind α} {rest : List α}
    (h : cxESBlend ind1 ind2 alpha rs = .ok (o1, o2, rest)) :
    ∃ c1 t1 c2 t2, cxESBlendLoop alpha ind1.genes ind1.strategy ind2.genes ind2.strategy rs
        = some (c1, t1, c2, t2, rest) ∧
      o1 = { ind1 with genes := c1, strategy := t1 } ∧ o2 = { ind2 with genes := c2, strategy := t2 } := by
  simp only [cxESBlend] at h
  split at h
  · simp at h
  · next c1 t1 c2 t2 r hl =>
    simp at h
    obtain ⟨rfl, rfl, rfl⟩ := h
    exact ⟨c1, t1, c2, t2, hl, rfl, rfl⟩

theorem cxSBXB_ok {ind1 ind2 : Ind α} {eta : α} {low up : Bound α} {rs : List α} {o1 o2 : Ind α}
    {rest : List α} (h : cxSimulatedBinaryBounded ind1 ind2 eta low up rs = .ok (o1, o2, rest)) :
    ∃ lo hi c1 c2, low.expand (min ind1.genes.length ind2.genes.length) = some lo ∧
      up.expand (min ind1.genes.length ind2.genes.length) = some hi ∧
      cxSBXBLoop eta ind1.genes ind2.genes lo hi rs = some (c1, c2, rest) ∧
      o1 = { ind1 with genes := c1 } ∧ o2 = { ind2 with genes := c2 } := by
  simp only [cxSimulatedBinaryBounded] at h
  split at h
  · simp at h
  · next lo hlo =>
    split at h
    · simp at h
    · next hi hhi =>
      split at h
      · simp at h
      · next c1 c2 r hl =>
        simp at h
        obtain ⟨rfl, rfl, rfl⟩ := h
        exact ⟨lo, hi, c1, c2, hlo, hhi, hl, rfl, rfl⟩

theorem mutPoly_ok {ind : Ind α} {eta : α} {low up : Bound α} {indpb : α} {rs : List α} {o : Ind α}
    {rest : List α} (h : mutPolynomialBounded ind eta low up indpb rs = .ok (o, rest)) :
    ∃ lo hi ys, low.expand ind.genes.length = some lo ∧ up.expand ind.genes.length = some hi ∧
      polyLoop eta indpb ind.genes lo hi rs = some (ys, rest) ∧ o = { ind with genes := ys } := by
  simp only [mutPolynomialBounded] at h
  split at h
  · simp at h
  · next lo hlo =>
    split at h
    · simp at h
    · next hi hhi =>
      split at h
      · simp at h
      · next ys r hl =>
        simp at h
        obtain ⟨rfl, rfl⟩ := h
        exact ⟨lo, hi, ys, hlo, hhi, hl, rfl⟩

theorem mutGaussian_ok {ind : Ind α} {mu sigma : Bound α} {indpb : α} {rs gs : List α} {o : Ind α}
    {rrest grest : List α} (h : mutGaussian ind mu sigma indpb rs gs = .ok (o, rrest, grest)) :
    ∃ m s ys, mu.expand ind.genes.length = some m ∧ sigma.expand ind.genes.length = some s ∧
      gaussLoop indpb ind.genes m s rs gs = some (ys, rrest, grest) ∧ o = { ind with genes := ys } := by
  simp only [mutGaussian] at h
  split at h
  · simp at h
  · next m hm =>
    split at h
    · simp at h
    · next s hs =>
      split at h
      · simp at h
      · next ys rr gr hl =>
        simp at h
        obtain ⟨rfl, rfl, rfl⟩ := h
        exact ⟨m, s, ys, hm, hs, hl, rfl⟩

theorem mutESLogNormal_ok {ind : Ind α} {c indpb : α} {rs gs : List α} {o : Ind α}
    {rrest grest : List α} (h : mutESLogNormal ind c indpb rs gs = .ok (o, rrest, grest)) :
    ind.genes.length ≠ 0 ∧ ∃ n gs' ys ts, pop gs = some (n, gs') ∧
      lognLoop indpb (lognT0 c ind.genes.length * n) (lognT c ind.genes.length) ind.genes ind.strategy rs gs'
        = .ok (ys, ts, rrest, grest) ∧ o = { ind with genes := ys, strategy := ts } := by
  simp only [mutESLogNormal] at h
  split at h
  · simp at h
  · next hne =>
    split at h
    · simp at h
    · next n gs' hp =>
      split at h <;> try (simp at h; done)
      next ys ts rr gr hl =>
      simp at h
      obtain ⟨rfl, rfl, rfl⟩ := h
      exact ⟨hne, n, gs', ys, ts, hp, hl, rfl⟩

end RealOps
