/-
C18 helper lemmas, part F: deletions on logbooks with chapters of any depth (sub-chapters):
what `pop` / `del [i]` / `del [slice]` do at every chapter path of a deep-aligned logbook.
-/
import DeapModel.Lemmas.C18Rep

set_option linter.unusedSimpArgs false
set_option linter.unusedVariables false

namespace C18L
open Logbook

/-- positions removed one after the other, at every depth -/
def eraseAllDeep : List Nat → LB → LB
  | [], lb => lb
  | i :: is, lb => eraseAllDeep is (eraseDeep i lb)

theorem eraseAllDeep_rows (ds : List Nat) : ∀ (lb : LB), (eraseAllDeep ds lb).rows = eraseAll ds lb.rows := by
  induction ds with
  | nil => intro lb; rfl
  | cons i is ih => intro lb; simp only [eraseAllDeep, eraseAll, ih, eraseDeep_rows]

theorem chapterAt_eraseDeep (p : Nat) (path : List Name) : ∀ (lb : LB),
    chapterAt path (eraseDeep p lb) = (chapterAt path lb).map (eraseDeep p) := by
  induction path with
  | nil => intro lb; rfl
  | cons n rest ih =>
    intro lb
    have hgm : getChapter n (List.map (fun q => (q.1, eraseDeep p q.2)) lb.chapters) =
        (getChapter n lb.chapters).map (fun ch => eraseDeep p ch) :=
      getChapter_map (fun ch => eraseDeep p ch) n lb.chapters
    simp only [chapterAt, eraseDeep_chapters]
    rw [hgm]
    cases getChapter n lb.chapters with
    | none => rfl
    | some ch => simp [ih]

theorem chapterAt_eraseAllDeep (ds : List Nat) (path : List Name) : ∀ (lb : LB),
    chapterAt path (eraseAllDeep ds lb) = (chapterAt path lb).map (eraseAllDeep ds) := by
  induction ds with
  | nil => intro lb; simp [eraseAllDeep]
  | cons i is ih =>
    intro lb
    simp only [eraseAllDeep, ih, chapterAt_eraseDeep, Option.map_map]
    rfl

/-- the loop of a slice deletion on a deep-aligned logbook -/
theorem delEach_deep (ds : List Nat) (hd : ds.Pairwise (· > ·)) : ∀ (lb : LB), DeepAligned lb →
    (∀ i ∈ ds, i < lb.rows.length) →
    Logbook.delEach ds lb = (eraseAllDeep ds lb, false) ∧ DeepAligned (eraseAllDeep ds lb) := by
  induction ds with
  | nil => intro lb h _; exact ⟨rfl, h⟩
  | cons i is ih =>
    intro lb h hr
    rw [List.pairwise_cons] at hd
    have hi : i < lb.rows.length := hr i (by simp)
    have hp : pos? lb.rows.length (i : Int) = some i := by rw [pos?_nat]; simp [hi]
    have h1 := delIndex_deep lb (i : Int) i h hp
    have h2 := eraseDeep_aligned i lb h
    have hrest : ∀ j ∈ is, j < (eraseDeep i lb).rows.length := by
      intro j hj
      have := hd.1 j hj
      simp [eraseDeep_rows, List.length_eraseIdx, hi]; omega
    obtain ⟨h3, h4⟩ := ih hd.2 (eraseDeep i lb) h2 hrest
    exact ⟨by simp only [Logbook.delEach, h1, h3, eraseAllDeep], h4⟩

end C18L
