/-
C02 — the library operators meet `OpContract` (helper lemmas; core Lean only).

* `lifted_inplace_meets_contract`: EVERY lifting of an in-place genome operator (`liftMate f`, `liftMutate g`,
  any `f`, `g`, any tape type) meets the contract — proved once, instantiated for every operator of
  `LibMate` / `LibMut` (all of C09, all of C10, the C11 operators) by `Lib.ops_contract`.
* `limitMate_contract` / `limitMutate_contract`: the `gp.staticLimit` wrapper around ANY operator meeting its
  half of the contract meets it again (it is not in place: it may return new copies of kept parent copies).
* what the lifting does beyond the contract: it allocates nothing, returns its arguments, never changes a fitness
  and writes exactly the genomes the genome operator computed (`liftMate_*`, `liftMutate_*`).
-/
import DeapModel.Core.VariationOps
import DeapModel.Lemmas.C02

namespace Variation

/-! ## The two halves of `OpContract` -/

structure MateContract {σ : Type} (m : σ → Heap → Nat → Nat → Nat → MateRes σ) : Prop where
  next : ∀ t h n a b, n ≤ (m t h n a b).next
  fst : ∀ t h n a b, (m t h n a b).fst = a ∨ (m t h n a b).fst = b ∨
    (n ≤ (m t h n a b).fst ∧ (m t h n a b).fst < (m t h n a b).next)
  snd : ∀ t h n a b, (m t h n a b).snd = a ∨ (m t h n a b).snd = b ∨
    (n ≤ (m t h n a b).snd ∧ (m t h n a b).snd < (m t h n a b).next)
  distinct : ∀ t h n a b, a ≠ b → (m t h n a b).fst ≠ (m t h n a b).snd
  frame : ∀ t h n a b o, o ≠ a → o ≠ b → o < n → (m t h n a b).heap o = h o

structure MutContract {σ : Type} (u : σ → Heap → Nat → Nat → MutRes σ) : Prop where
  next : ∀ t h n a, n ≤ (u t h n a).next
  ret : ∀ t h n a, (u t h n a).ret = a ∨ (n ≤ (u t h n a).ret ∧ (u t h n a).ret < (u t h n a).next)
  frame : ∀ t h n a o, o ≠ a → o < n → (u t h n a).heap o = h o

theorem OpContract.of_halves {σ : Type} {ops : Ops σ} (hm : MateContract ops.mate) (hu : MutContract ops.mutate) :
    OpContract ops where
  mate_next := hm.next
  mate_fst := hm.fst
  mate_snd := hm.snd
  mate_distinct := hm.distinct
  mate_frame := hm.frame
  mutate_next := hu.next
  mutate_ret := hu.ret
  mutate_frame := hu.frame

theorem OpContract.mateHalf {σ : Type} {ops : Ops σ} (hc : OpContract ops) : MateContract ops.mate :=
  ⟨hc.mate_next, hc.mate_fst, hc.mate_snd, hc.mate_distinct, hc.mate_frame⟩

theorem OpContract.mutHalf {σ : Type} {ops : Ops σ} (hc : OpContract ops) : MutContract ops.mutate :=
  ⟨hc.mutate_next, hc.mutate_ret, hc.mutate_frame⟩

/-! ## The lifting -/

theorem liftMate_contract {τ : Type} (f : GOp2 τ) : MateContract (liftMate f) where
  next := fun _ _ _ _ _ => Nat.le_refl _
  fst := fun _ _ _ _ _ => Or.inl rfl
  snd := fun _ _ _ _ _ => Or.inr (Or.inl rfl)
  distinct := fun _ _ _ _ _ hab => hab
  frame := fun _ h _ a b o ha hb _ => by simp [liftMate, Heap.set, ha, hb]

theorem liftMutate_contract {τ : Type} (g : GOp1 τ) : MutContract (liftMutate g) where
  next := fun _ _ _ _ => Nat.le_refl _
  ret := fun _ _ _ _ => Or.inl rfl
  frame := fun _ h _ a o ha _ => by simp [liftMutate, Heap.set, ha]

/-- Every lifting of an in-place genome operator pair meets the operator contract. -/
theorem lifted_inplace_meets_contract {τ : Type} (f : GOp2 τ) (g : GOp1 τ) : OpContract (liftOps f g) :=
  OpContract.of_halves (liftMate_contract f) (liftMutate_contract g)

/-- … and it is in place: nothing is allocated and the very arguments come back. -/
theorem liftMate_inplace {τ : Type} (f : GOp2 τ) (t : τ) (h : Heap) (n a b : Nat) :
    (liftMate f t h n a b).next = n ∧ (liftMate f t h n a b).fst = a ∧ (liftMate f t h n a b).snd = b :=
  ⟨rfl, rfl, rfl⟩

theorem liftMutate_inplace {τ : Type} (g : GOp1 τ) (t : τ) (h : Heap) (n a : Nat) :
    (liftMutate g t h n a).next = n ∧ (liftMutate g t h n a).ret = a := ⟨rfl, rfl⟩

/-- The lifting leaves every fitness alone (also the fitness of the objects it writes). -/
theorem liftMate_fit {τ : Type} (f : GOp2 τ) (t : τ) (h : Heap) (n a b o : Nat) :
    ((liftMate f t h n a b).heap o).fit = (h o).fit := by
  simp only [liftMate, Heap.set]
  split
  · next hb => subst hb; rfl
  · split
    · next ha => subst ha; rfl
    · rfl

theorem liftMutate_fit {τ : Type} (g : GOp1 τ) (t : τ) (h : Heap) (n a o : Nat) :
    ((liftMutate g t h n a).heap o).fit = (h o).fit := by
  simp only [liftMutate, Heap.set]
  split
  · next ha => subst ha; rfl
  · rfl

/-- It writes exactly what the genome operator computed from the contents before the call. -/
theorem liftMate_genomes {τ : Type} (f : GOp2 τ) (t : τ) (h : Heap) (n a b : Nat) (hab : a ≠ b) :
    ((liftMate f t h n a b).heap a).genome = (f t (h a).genome (h b).genome).2.1 ∧
    ((liftMate f t h n a b).heap b).genome = (f t (h a).genome (h b).genome).2.2 ∧
    (liftMate f t h n a b).tape = (f t (h a).genome (h b).genome).1 := by
  simp [liftMate, Heap.set, hab]

theorem liftMutate_genome {τ : Type} (g : GOp1 τ) (t : τ) (h : Heap) (n a : Nat) :
    ((liftMutate g t h n a).heap a).genome = (g t (h a).genome).2 ∧
    (liftMutate g t h n a).tape = (g t (h a).genome).1 := by
  simp [liftMutate, Heap.set]

/-! ## `gp.staticLimit` -/

theorem limitFix_spec {σ : Type} (L : Limit σ) (keep : List Nat) (t : σ) (h : Heap) (nx x : Nat) :
    ((limitFix L keep t h nx x).ret = x ∧ (limitFix L keep t h nx x).next = nx ∧
      (limitFix L keep t h nx x).heap = h) ∨
    ((limitFix L keep t h nx x).ret = nx ∧ (limitFix L keep t h nx x).next = nx + 1 ∧
      ∀ o, o ≠ nx → (limitFix L keep t h nx x).heap o = h o) := by
  unfold limitFix
  split
  · right
    refine ⟨rfl, rfl, ?_⟩
    intro o ho
    simp [Heap.set, ho]
  · left
    exact ⟨rfl, rfl, rfl⟩

/-- A replacement is a deep copy of one of the kept copies: genome and fitness of a kept object. -/
theorem limitFix_copy {σ : Type} (L : Limit σ) (keep : List Nat) (t : σ) (h : Heap) (nx x : Nat)
    (hne : keep ≠ []) (hnew : (limitFix L keep t h nx x).ret ≠ x) :
    ∃ k ∈ keep, (limitFix L keep t h nx x).heap (limitFix L keep t h nx x).ret = h k := by
  unfold limitFix at hnew ⊢
  split
  · simp only [Heap.set, if_true]
    refine ⟨_, ?_, rfl⟩
    cases keep with
    | nil => exact absurd rfl hne
    | cons k0 ks =>
      simp only [List.getD_eq_getElem?_getD, List.headD_cons]
      cases hq : (k0 :: ks)[(L.pick t (k0 :: ks).length).2]? with
      | none => simp
      | some y => simpa using List.mem_of_getElem? hq
  · next hov => simp [hov] at hnew

theorem limitMate_contract {σ : Type} (L : Limit σ) {m : σ → Heap → Nat → Nat → Nat → MateRes σ}
    (hm : MateContract m) : MateContract (limitMate L m) := by
  have key : ∀ t h n a b,
      n ≤ (limitMate L m t h n a b).next ∧
      ((limitMate L m t h n a b).fst = a ∨ (limitMate L m t h n a b).fst = b ∨
        (n ≤ (limitMate L m t h n a b).fst ∧ (limitMate L m t h n a b).fst < (limitMate L m t h n a b).next)) ∧
      ((limitMate L m t h n a b).snd = a ∨ (limitMate L m t h n a b).snd = b ∨
        (n ≤ (limitMate L m t h n a b).snd ∧ (limitMate L m t h n a b).snd < (limitMate L m t h n a b).next)) ∧
      (a ≠ b → (limitMate L m t h n a b).fst ≠ (limitMate L m t h n a b).snd) ∧
      (∀ o, o ≠ a → o ≠ b → o < n → (limitMate L m t h n a b).heap o = h o) := by
    intro t h n a b
    simp only [limitMate]
    generalize hbase : max n (max (a + 1) (b + 1)) = base
    have hb0 : n ≤ base ∧ a < base ∧ b < base := by omega
    generalize hr : m t ((h.set base (h a)).set (base + 1) (h b)) (base + 2) a b = r
    have hn := hm.next t ((h.set base (h a)).set (base + 1) (h b)) (base + 2) a b
    have hf := hm.fst t ((h.set base (h a)).set (base + 1) (h b)) (base + 2) a b
    have hs := hm.snd t ((h.set base (h a)).set (base + 1) (h b)) (base + 2) a b
    have hd := hm.distinct t ((h.set base (h a)).set (base + 1) (h b)) (base + 2) a b
    have hfr := hm.frame t ((h.set base (h a)).set (base + 1) (h b)) (base + 2) a b
    rw [hr] at hn hf hs hd hfr
    have hframe0 : ∀ o, o ≠ a → o ≠ b → o < n → r.heap o = h o := by
      intro o ha hb hon
      rw [hfr o ha hb (by omega)]
      have h1 : o ≠ base := by omega
      have h2 : o ≠ base + 1 := by omega
      simp [Heap.set, h1, h2]
    generalize hf1 : limitFix L [base, base + 1] r.tape r.heap r.next r.fst = f1
    have s1 := limitFix_spec L [base, base + 1] r.tape r.heap r.next r.fst
    rw [hf1] at s1
    generalize hf2 : limitFix L [base, base + 1] f1.tape f1.heap f1.next r.snd = f2
    have s2 := limitFix_spec L [base, base + 1] f1.tape f1.heap f1.next r.snd
    rw [hf2] at s2
    rcases s1 with ⟨r1, n1, e1⟩ | ⟨r1, n1, e1⟩ <;> rcases s2 with ⟨r2, n2, e2⟩ | ⟨r2, n2, e2⟩
    · refine ⟨by omega, ?_, ?_, ?_, ?_⟩
      · rw [r1]; rcases hf with h' | h' | h'
        · exact Or.inl h'
        · exact Or.inr (Or.inl h')
        · exact Or.inr (Or.inr (by omega))
      · rw [r2]; rcases hs with h' | h' | h'
        · exact Or.inl h'
        · exact Or.inr (Or.inl h')
        · exact Or.inr (Or.inr (by omega))
      · intro hab; rw [r1, r2]; exact hd hab
      · intro o ha hb hon; rw [e2, e1]; exact hframe0 o ha hb hon
    · refine ⟨by omega, ?_, ?_, ?_, ?_⟩
      · rw [r1]; rcases hf with h' | h' | h'
        · exact Or.inl h'
        · exact Or.inr (Or.inl h')
        · exact Or.inr (Or.inr (by omega))
      · rw [r2]; exact Or.inr (Or.inr (by omega))
      · intro hab; rw [r1, r2]; rcases hf with h' | h' | h' <;> omega
      · intro o ha hb hon; rw [e2 o (by omega), e1]; exact hframe0 o ha hb hon
    · refine ⟨by omega, ?_, ?_, ?_, ?_⟩
      · rw [r1]; exact Or.inr (Or.inr (by omega))
      · rw [r2]; rcases hs with h' | h' | h'
        · exact Or.inl h'
        · exact Or.inr (Or.inl h')
        · exact Or.inr (Or.inr (by omega))
      · intro hab; rw [r1, r2]; rcases hs with h' | h' | h' <;> omega
      · intro o ha hb hon; rw [e2, e1 o (by omega)]; exact hframe0 o ha hb hon
    · refine ⟨by omega, ?_, ?_, ?_, ?_⟩
      · rw [r1]; exact Or.inr (Or.inr (by omega))
      · rw [r2]; exact Or.inr (Or.inr (by omega))
      · intro hab; rw [r1, r2]; omega
      · intro o ha hb hon; rw [e2 o (by omega), e1 o (by omega)]; exact hframe0 o ha hb hon
  exact ⟨fun t h n a b => (key t h n a b).1, fun t h n a b => (key t h n a b).2.1,
    fun t h n a b => (key t h n a b).2.2.1, fun t h n a b => (key t h n a b).2.2.2.1,
    fun t h n a b => (key t h n a b).2.2.2.2⟩

theorem limitMutate_contract {σ : Type} (L : Limit σ) {u : σ → Heap → Nat → Nat → MutRes σ}
    (hu : MutContract u) : MutContract (limitMutate L u) := by
  have key : ∀ t h n a,
      n ≤ (limitMutate L u t h n a).next ∧
      ((limitMutate L u t h n a).ret = a ∨
        (n ≤ (limitMutate L u t h n a).ret ∧ (limitMutate L u t h n a).ret < (limitMutate L u t h n a).next)) ∧
      (∀ o, o ≠ a → o < n → (limitMutate L u t h n a).heap o = h o) := by
    intro t h n a
    simp only [limitMutate]
    generalize hbase : max n (a + 1) = base
    have hb0 : n ≤ base ∧ a < base := by omega
    generalize hr : u t (h.set base (h a)) (base + 1) a = r
    have hn := hu.next t (h.set base (h a)) (base + 1) a
    have hre := hu.ret t (h.set base (h a)) (base + 1) a
    have hfr := hu.frame t (h.set base (h a)) (base + 1) a
    rw [hr] at hn hre hfr
    have hframe0 : ∀ o, o ≠ a → o < n → r.heap o = h o := by
      intro o ha hon
      rw [hfr o ha (by omega)]
      have h1 : o ≠ base := by omega
      simp [Heap.set, h1]
    generalize hf1 : limitFix L [base] r.tape r.heap r.next r.ret = f1
    have s1 := limitFix_spec L [base] r.tape r.heap r.next r.ret
    rw [hf1] at s1
    rcases s1 with ⟨r1, n1, e1⟩ | ⟨r1, n1, e1⟩
    · refine ⟨by omega, ?_, ?_⟩
      · rw [r1]; rcases hre with h' | h'
        · exact Or.inl h'
        · exact Or.inr (by omega)
      · intro o ha hon; rw [e1]; exact hframe0 o ha hon
    · refine ⟨by omega, ?_, ?_⟩
      · rw [r1]; exact Or.inr (by omega)
      · intro o ha hon; rw [e1 o (by omega)]; exact hframe0 o ha hon
  exact ⟨fun t h n a => (key t h n a).1, fun t h n a => (key t h n a).2.1, fun t h n a => (key t h n a).2.2⟩

/-- With allocated arguments the kept copies get the next free oids (`base = n`). -/
theorem limit_base_eq (n a b : Nat) (ha : a < n) (hb : b < n) : max n (max (a + 1) (b + 1)) = n := by omega

/-! ## Every registered library pair meets the contract -/

theorem Lib.mate_contract (v : Views) (p : Lib) : MateContract (p.ops v).mate := by
  unfold Lib.ops
  cases p.mateLimit with
  | none => exact liftMate_contract _
  | some km => exact limitMate_contract _ (liftMate_contract _)

theorem Lib.mutate_contract (v : Views) (p : Lib) : MutContract (p.ops v).mutate := by
  unfold Lib.ops
  cases p.mutLimit with
  | none => exact liftMutate_contract _
  | some km => exact limitMutate_contract _ (liftMutate_contract _)

/-- No trust left: every library crossover / mutation of `LibMate` / `LibMut`, plain or decorated with
`gp.staticLimit`, under every view and with every operator tape, meets `OpContract`. -/
theorem Lib.ops_contract (v : Views) (p : Lib) : OpContract (p.ops v) :=
  OpContract.of_halves (Lib.mate_contract v p) (Lib.mutate_contract v p)

/-! ## In-place operators: the offspring ARE the clones -/

/-- an operator pair that allocates nothing and returns its arguments -/
structure InPlaceOps {σ : Type} (ops : Ops σ) : Prop where
  mate : ∀ t h n a b, (ops.mate t h n a b).next = n ∧ (ops.mate t h n a b).fst = a ∧ (ops.mate t h n a b).snd = b
  mutate : ∀ t h n a, (ops.mutate t h n a).next = n ∧ (ops.mutate t h n a).ret = a

theorem liftOps_inplace {τ : Type} (f : GOp2 τ) (g : GOp1 τ) : InPlaceOps (liftOps f g) :=
  ⟨fun _ _ _ _ _ => ⟨rfl, rfl, rfl⟩, fun _ _ _ _ => ⟨rfl, rfl⟩⟩

/-- an undecorated library pair is in place -/
theorem Lib.inplace (v : Views) (p : Lib) (hm : p.mateLimit = none) (hu : p.mutLimit = none) :
    InPlaceOps (p.ops v) := by
  unfold Lib.ops
  rw [hm, hu]
  exact ⟨fun _ _ _ _ _ => ⟨rfl, rfl, rfl⟩, fun _ _ _ _ => ⟨rfl, rfl⟩⟩

theorem mateLoop_inplace {σ : Type} {ops : Ops σ} (hi : InPlaceOps ops) :
    ∀ (l : List Nat) (ds : List Bool) (t : σ) (s : St) (r : Res σ),
      mateLoop ops t s l ds = some r → r.off = l ∧ r.st.next = s.next
  | [], ds, t, s, r, h => by
    simp only [mateLoop, Option.some.injEq] at h
    subst h; exact ⟨rfl, rfl⟩
  | [a], ds, t, s, r, h => by
    simp only [mateLoop, Option.some.injEq] at h
    subst h; exact ⟨rfl, rfl⟩
  | a :: b :: rest, [], t, s, r, h => by simp [mateLoop] at h
  | a :: b :: rest, d :: ds, t, s, r, h => by
    cases d with
    | true =>
      simp only [mateLoop, if_true] at h
      obtain ⟨e1, e2, e3⟩ := hi.mate t s.heap s.next a b
      split at h
      · simp at h
      next x hrec =>
        simp only [Option.some.injEq] at h
        obtain ⟨h1, h2⟩ := mateLoop_inplace hi rest ds _ _ x hrec
        subst h
        refine ⟨?_, ?_⟩
        · show (ops.mate t s.heap s.next a b).fst :: (ops.mate t s.heap s.next a b).snd :: x.off = a :: b :: rest
          rw [e2, e3, h1]
        · show x.st.next = s.next
          rw [h2]; exact e1
    | false =>
      simp only [mateLoop, Bool.false_eq_true, if_false] at h
      split at h
      · simp at h
      next x hrec =>
        simp only [Option.some.injEq] at h
        obtain ⟨h1, h2⟩ := mateLoop_inplace hi rest ds _ _ x hrec
        subst h
        exact ⟨by show a :: b :: x.off = a :: b :: rest; rw [h1], h2⟩

theorem mutLoop_inplace {σ : Type} {ops : Ops σ} (hi : InPlaceOps ops) :
    ∀ (l : List Nat) (ds : List Bool) (t : σ) (s : St) (r : Res σ),
      mutLoop ops t s l ds = some r → r.off = l ∧ r.st.next = s.next
  | [], ds, t, s, r, h => by
    simp only [mutLoop, Option.some.injEq] at h
    subst h; exact ⟨rfl, rfl⟩
  | a :: rest, [], t, s, r, h => by simp [mutLoop] at h
  | a :: rest, d :: ds, t, s, r, h => by
    cases d with
    | true =>
      simp only [mutLoop, if_true] at h
      obtain ⟨e1, e2⟩ := hi.mutate t s.heap s.next a
      split at h
      · simp at h
      next x hrec =>
        simp only [Option.some.injEq] at h
        obtain ⟨h1, h2⟩ := mutLoop_inplace hi rest ds _ _ x hrec
        subst h
        refine ⟨?_, ?_⟩
        · show (ops.mutate t s.heap s.next a).ret :: x.off = a :: rest
          rw [e2, h1]
        · show x.st.next = s.next
          rw [h2]; exact e1
    | false =>
      simp only [mutLoop, Bool.false_eq_true, if_false] at h
      split at h
      · simp at h
      next x hrec =>
        simp only [Option.some.injEq] at h
        obtain ⟨h1, h2⟩ := mutLoop_inplace hi rest ds _ _ x hrec
        subst h
        exact ⟨by show a :: x.off = a :: rest; rw [h1], h2⟩

/-- With in-place operators `varAnd` returns exactly the clones made at line 68, in order, and allocates nothing else. -/
theorem varAnd_inplace {σ : Type} {ops : Ops σ} (hi : InPlaceOps ops) {t : σ} {s : St} {pop : List Nat}
    {mateD mutD : List Bool} {r : Res σ} (h : varAnd ops t s pop mateD mutD = some r) :
    r.off = List.range' s.next pop.length ∧ r.st.next = s.next + pop.length := by
  simp only [varAnd] at h
  split at h
  · simp at h
  next m hm =>
    obtain ⟨h1, h2⟩ := mateLoop_inplace hi _ _ _ _ m hm
    obtain ⟨h3, h4⟩ := mutLoop_inplace hi _ _ _ _ r h
    rw [h3, h1, h4, h2, cloneAll_off, cloneAll_next]
    exact ⟨rfl, rfl⟩

/-- number of `toolbox.clone` calls of one `varOr` iteration -/
def Choice.clones : Choice → Nat
  | .cx _ _ => 2
  | _ => 1

/-- the first clone of every iteration, when the iterations start at oid `n` -/
def firstClones : Nat → List Choice → List Nat
  | _, [] => []
  | n, c :: cs => n :: firstClones (n + c.clones) cs

def totalClones : List Choice → Nat
  | [] => 0
  | c :: cs => c.clones + totalClones cs

theorem varOrStep_inplace {σ : Type} {ops : Ops σ} (hi : InPlaceOps ops) (pop : List Nat) (t : σ) (s : St)
    (c : Choice) (t1 : σ) (s1 : St) (o : Nat) (h : varOrStep ops pop t s c = some (t1, s1, o)) :
    o = s.next ∧ s1.next = s.next + c.clones := by
  cases c with
  | cx i j =>
    simp only [varOrStep] at h
    split at h
    next p q hp hq =>
      simp only [Option.some.injEq, Prod.mk.injEq] at h
      obtain ⟨_, h2, h3⟩ := h
      obtain ⟨e1, e2, _⟩ := hi.mate t (clone (clone s p).1 q).1.heap (clone (clone s p).1 q).1.next
        (clone s p).2 (clone (clone s p).1 q).2
      subst h2; subst h3
      refine ⟨?_, ?_⟩
      · rw [e2]; rfl
      · show (ops.mate t _ _ _ _).next = _
        rw [e1]; rfl
    · simp at h
  | mutn i =>
    simp only [varOrStep] at h
    split at h
    next p hp =>
      simp only [Option.some.injEq, Prod.mk.injEq] at h
      obtain ⟨_, h2, h3⟩ := h
      obtain ⟨e1, e2⟩ := hi.mutate t (clone s p).1.heap (clone s p).1.next (clone s p).2
      subst h2; subst h3
      refine ⟨?_, ?_⟩
      · rw [e2]; rfl
      · show (ops.mutate t _ _ _).next = _
        rw [e1]; rfl
    · simp at h
  | rep i =>
    simp only [varOrStep] at h
    split at h
    next p hp =>
      simp only [Option.some.injEq, Prod.mk.injEq] at h
      obtain ⟨_, h2, h3⟩ := h
      subst h2; subst h3
      exact ⟨rfl, rfl⟩
    · simp at h

theorem varOrLoop_inplace {σ : Type} {ops : Ops σ} (hi : InPlaceOps ops) (pop : List Nat) :
    ∀ (cs : List Choice) (t : σ) (s : St) (r : Res σ), varOrLoop ops pop t s cs = some r →
      r.off = firstClones s.next cs ∧ r.st.next = s.next + totalClones cs
  | [], t, s, r, h => by
    simp only [varOrLoop, Option.some.injEq] at h
    subst h; exact ⟨rfl, rfl⟩
  | c :: cs, t, s, r, h => by
    simp only [varOrLoop] at h
    split at h
    · simp at h
    next t1 s1 o hstep =>
      obtain ⟨ho, hn⟩ := varOrStep_inplace hi pop t s c t1 s1 o hstep
      split at h
      · simp at h
      next x hrec =>
        simp only [Option.some.injEq] at h
        obtain ⟨h1, h2⟩ := varOrLoop_inplace hi pop cs t1 s1 x hrec
        subst h
        refine ⟨?_, ?_⟩
        · show o :: x.off = firstClones s.next (c :: cs)
          rw [h1, ho, hn]; rfl
        · show x.st.next = s.next + totalClones (c :: cs)
          rw [h2, hn]; simp only [totalClones]; omega

/-- With in-place operators offspring `k` of `varOr` is the first clone made in iteration `k`; the only objects
allocated are the clones (two per crossover iteration, one otherwise). -/
theorem varOr_inplace {σ : Type} {ops : Ops σ} (hi : InPlaceOps ops) {t : σ} {s : St} {pop : List Nat} {lam : Nat}
    {choices : List Choice} {r : Res σ} (h : varOr ops t s pop lam choices = some r) :
    r.off = firstClones s.next choices ∧ r.st.next = s.next + totalClones choices := by
  simp only [varOr] at h
  split at h
  · exact varOrLoop_inplace hi pop choices t s r h
  · simp at h

end Variation
