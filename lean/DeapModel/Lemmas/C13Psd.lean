/-
C13 helper lemmas (6): positive semi-definiteness is preserved by the covariance update, and under the
`eigh` contract the eigenvalues of a PSD matrix are non-negative.
-/
import DeapModel.Lemmas.C13Eig
import Mathlib.Tactic.Positivity

open Cma C13L

namespace C13L

/-- positive semi-definiteness of the leading `n × n` block: `vᵀ M v ≥ 0` for every `v` -/
def PSD (n : Nat) (M : List (List ℝ)) : Prop :=
  ∀ v : Fin n → ℝ, 0 ≤ ∑ a : Fin n, ∑ b : Fin n, v a * mget M a.val b.val * v b

/-- an eigenvalue returned under the contract is the quadratic form of its eigenvector -/
theorem eigval_eq_quadform {n : Nat} {C : List (List ℝ)} {w : List ℝ} {V : List (List ℝ)}
    (hc : EighContract n C w V) (k : Fin n) :
    ∑ a : Fin n, ∑ b : Fin n, mget V a.val k.val * mget C a.val b.val * mget V b.val k.val = vget w k.val := by
  have h1 : ∀ a b : Fin n, mget V a.val k.val * mget C a.val b.val * mget V b.val k.val
      = ∑ j : Fin n, vget w j.val * ((mget V a.val k.val * mget V a.val j.val) * (mget V b.val j.val * mget V b.val k.val)) := by
    intro a b
    rw [hc.recon, Finset.mul_sum, Finset.sum_mul]
    refine Finset.sum_congr rfl (fun j _ => by ring)
  simp only [h1]
  have h3 : ∀ j : Fin n, vget w j.val * ((∑ a : Fin n, mget V a.val k.val * mget V a.val j.val)
          * (∑ b : Fin n, mget V b.val j.val * mget V b.val k.val))
      = ∑ a : Fin n, ∑ b : Fin n,
          vget w j.val * ((mget V a.val k.val * mget V a.val j.val) * (mget V b.val j.val * mget V b.val k.val)) := by
    intro j
    rw [Finset.sum_mul_sum, Finset.mul_sum]
    refine Finset.sum_congr rfl (fun a _ => ?_)
    rw [Finset.mul_sum]
  have h2 : ∑ a : Fin n, ∑ b : Fin n, ∑ j : Fin n,
        vget w j.val * ((mget V a.val k.val * mget V a.val j.val) * (mget V b.val j.val * mget V b.val k.val))
      = ∑ j : Fin n, vget w j.val * ((∑ a : Fin n, mget V a.val k.val * mget V a.val j.val)
          * (∑ b : Fin n, mget V b.val j.val * mget V b.val k.val)) := by
    simp only [h3]
    calc _ = ∑ a : Fin n, ∑ j : Fin n, ∑ b : Fin n,
          vget w j.val * ((mget V a.val k.val * mget V a.val j.val) * (mget V b.val j.val * mget V b.val k.val)) :=
            Finset.sum_congr rfl (fun a _ => Finset.sum_comm)
      _ = _ := Finset.sum_comm
  rw [h2]
  simp only [hc.cols]
  simp

theorem eigvals_nonneg {n : Nat} {C : List (List ℝ)} {w : List ℝ} {V : List (List ℝ)}
    (hc : EighContract n C w V) (hpsd : PSD n C) (k : Fin n) : 0 ≤ vget w k.val := by
  rw [← eigval_eq_quadform hc k]
  exact hpsd (fun a => mget V a.val k.val)

end C13L

namespace C13L

/-- the quadratic form of the updated covariance matrix: `k₁·vᵀCv + c₁ (v·p_c)² + c_μ/σ² Σ w_i (v·a_i)²` -/
theorem newC_quadform (s : State ℝ) (hsig : ℝ) (pc : List ℝ) (artmp : List (List ℝ)) (v : Fin s.dim → ℝ) :
    ∑ a : Fin s.dim, ∑ b : Fin s.dim, v a * mget (newC s hsig pc artmp) a.val b.val * v b
      = (1 - s.par.ccov1 - s.par.ccovmu + (1 - hsig) * s.par.ccov1 * s.par.cc * (2 - s.par.cc))
          * (∑ a : Fin s.dim, ∑ b : Fin s.dim, v a * mget s.C a.val b.val * v b)
        + s.par.ccov1 * ((∑ a : Fin s.dim, v a * vget pc a.val) * (∑ a : Fin s.dim, v a * vget pc a.val))
        + s.par.ccovmu / s.sigma ^ 2 * ∑ i : Fin s.par.mu, vget s.par.weights i.val
            * ((∑ a : Fin s.dim, v a * mget artmp i.val a.val) * (∑ a : Fin s.dim, v a * mget artmp i.val a.val)) := by
  have hentry : ∀ a b : Fin s.dim, v a * mget (newC s hsig pc artmp) a.val b.val * v b
      = (1 - s.par.ccov1 - s.par.ccovmu + (1 - hsig) * s.par.ccov1 * s.par.cc * (2 - s.par.cc))
          * (v a * mget s.C a.val b.val * v b)
        + s.par.ccov1 * ((v a * vget pc a.val) * (v b * vget pc b.val))
        + s.par.ccovmu / s.sigma ^ 2 * ∑ i : Fin s.par.mu, vget s.par.weights i.val
            * ((v a * mget artmp i.val a.val) * (v b * mget artmp i.val b.val)) := by
    intro a b
    simp only [newC]; real_bridge
    have hS : ∑ i : Fin s.par.mu, vget s.par.weights i.val
            * ((v a * mget artmp i.val a.val) * (v b * mget artmp i.val b.val))
        = v a * (∑ i : Fin s.par.mu, vget s.par.weights i.val * mget artmp i.val a.val * mget artmp i.val b.val) * v b := by
      rw [Finset.mul_sum, Finset.sum_mul]
      refine Finset.sum_congr rfl (fun i _ => by ring)
    rw [hS]
    ring
  have e1 : ∀ k1 : ℝ, ∑ a : Fin s.dim, ∑ b : Fin s.dim, k1 * (v a * mget s.C a.val b.val * v b)
      = k1 * ∑ a : Fin s.dim, ∑ b : Fin s.dim, v a * mget s.C a.val b.val * v b := by
    intro k1; simp only [Finset.mul_sum]
  have e2 : ∑ a : Fin s.dim, ∑ b : Fin s.dim, s.par.ccov1 * ((v a * vget pc a.val) * (v b * vget pc b.val))
      = s.par.ccov1 * ((∑ a : Fin s.dim, v a * vget pc a.val) * (∑ a : Fin s.dim, v a * vget pc a.val)) := by
    rw [Finset.sum_mul_sum]; simp only [Finset.mul_sum]
  have h3 : ∀ (i : Fin s.par.mu), vget s.par.weights i.val * ((∑ a : Fin s.dim, v a * mget artmp i.val a.val)
            * (∑ a : Fin s.dim, v a * mget artmp i.val a.val))
        = ∑ a : Fin s.dim, ∑ b : Fin s.dim,
          vget s.par.weights i.val * ((v a * mget artmp i.val a.val) * (v b * mget artmp i.val b.val)) := by
    intro i
    rw [Finset.sum_mul_sum, Finset.mul_sum]
    refine Finset.sum_congr rfl (fun a _ => ?_)
    rw [Finset.mul_sum]
  have e3 : ∑ a : Fin s.dim, ∑ b : Fin s.dim, s.par.ccovmu / s.sigma ^ 2 * ∑ i : Fin s.par.mu, vget s.par.weights i.val
            * ((v a * mget artmp i.val a.val) * (v b * mget artmp i.val b.val))
      = s.par.ccovmu / s.sigma ^ 2 * ∑ i : Fin s.par.mu, vget s.par.weights i.val
            * ((∑ a : Fin s.dim, v a * mget artmp i.val a.val) * (∑ a : Fin s.dim, v a * mget artmp i.val a.val)) := by
    simp only [← Finset.mul_sum]
    congr 1
    simp only [h3]
    calc _ = ∑ a : Fin s.dim, ∑ i : Fin s.par.mu, ∑ b : Fin s.dim,
          vget s.par.weights i.val * ((v a * mget artmp i.val a.val) * (v b * mget artmp i.val b.val)) :=
            Finset.sum_congr rfl (fun a _ => Finset.sum_comm)
      _ = _ := Finset.sum_comm
  simp only [hentry, Finset.sum_add_distrib, e1, e2, e3]

theorem newC_psd (s : State ℝ) (hsig : ℝ) (pc : List ℝ) (artmp : List (List ℝ)) (hpsd : PSD s.dim s.C)
    (hk : 0 ≤ 1 - s.par.ccov1 - s.par.ccovmu + (1 - hsig) * s.par.ccov1 * s.par.cc * (2 - s.par.cc))
    (h1 : 0 ≤ s.par.ccov1) (hmu : 0 ≤ s.par.ccovmu) (hw : ∀ i : Fin s.par.mu, 0 ≤ vget s.par.weights i.val) :
    PSD s.dim (newC s hsig pc artmp) := by
  intro v
  rw [newC_quadform]
  have t1 := mul_nonneg hk (hpsd v)
  have t2 := mul_nonneg h1 (mul_self_nonneg (∑ a : Fin s.dim, v a * vget pc a.val))
  have t3 : 0 ≤ s.par.ccovmu / s.sigma ^ 2 * ∑ i : Fin s.par.mu, vget s.par.weights i.val
            * ((∑ a : Fin s.dim, v a * mget artmp i.val a.val) * (∑ a : Fin s.dim, v a * mget artmp i.val a.val)) := by
    apply mul_nonneg (div_nonneg hmu (sq_nonneg _))
    exact Finset.sum_nonneg (fun i _ => mul_nonneg (hw i) (mul_self_nonneg _))
  linarith

end C13L

namespace C13L

theorem hsigOf_cases (s : State ℝ) (ps : List ℝ) : hsigOf s ps = 1 ∨ hsigOf s ps = 0 := by
  simp only [hsigOf]
  split_ifs
  · left; real_bridge
  · right; real_bridge

/-- the coefficient of the old `C` in cma.py:158-159 is non-negative when `c₁, c_μ ≥ 0`, `c₁ + c_μ ≤ 1`
(guaranteed by the `min` of cma.py:205), `0 ≤ c_c ≤ 2` and `h_σ ∈ {0, 1}` -/
theorem k1_nonneg {c1 cmu cc h : ℝ} (h1 : 0 ≤ c1) (hs : c1 + cmu ≤ 1) (hc0 : 0 ≤ cc) (hc2 : cc ≤ 2)
    (hh : h = 1 ∨ h = 0) : 0 ≤ 1 - c1 - cmu + (1 - h) * c1 * cc * (2 - cc) := by
  rcases hh with rfl | rfl
  · simp only [sub_self, zero_mul, add_zero]; linarith
  · have : 0 ≤ c1 * cc * (2 - cc) := mul_nonneg (mul_nonneg h1 hc0) (by linarith)
    simp only [sub_zero, one_mul]; linarith

theorem identity_mget {n : Nat} (a b : Fin n) : mget (identity n : List (List ℝ)) a.val b.val = if a = b then 1 else 0 := by
  simp only [identity, mget_tab2_fin, Fin.ext_iff]
  split_ifs <;> real_bridge

theorem identity_psd (n : Nat) : PSD n (identity n) := by
  intro v
  simp only [identity_mget]
  refine Finset.sum_nonneg (fun a _ => ?_)
  simp only [mul_ite, mul_one, mul_zero, ite_mul, zero_mul, Finset.sum_ite_eq, Finset.mem_univ, if_true]
  exact mul_self_nonneg _

theorem sq_sum_tab (n : Nat) (f : Nat → ℝ) :
    ((tab n f).map (fun x => x ^ 2)).sum = ∑ i : Fin n, f i.val ^ 2 := by
  rw [fin_sum_eq_list n (fun i => f i ^ 2)]
  simp only [tab, List.map_map]
  rfl

end C13L
