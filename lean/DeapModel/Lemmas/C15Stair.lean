import DeapModel.Lemmas.C15Wrap
import Mathlib.Tactic.LinearCombination
/-!
C15 — the two-dimensional staircase as pyhv's base case `dimIndex == 1` computes it: sweep the points in
ascending order of the SECOND coordinate, keep the running minimum of the first.  Pure mathematics about
`hvCells` (no pointers): `stairXY_eq_hvCells`.
-/
namespace Hypervolume
set_option linter.unusedVariables false

theorem stepSum_mul_left (ax : List ℚ) (c : ℚ) (g : ℚ → ℚ) :
    stepSum ax (fun lo => c * g lo) = c * stepSum ax g := by
  unfold stepSum
  rw [← sumRat_map_mul_left]
  apply sumRat_map_congr
  intro iv _
  ring

theorem hvCells_nil_ref (T : List Pt) : hvCells [] T = if T.isEmpty then 0 else 1 := by
  rw [← hvSlice_eq_hvCells']; rfl

theorem foldr_min_const (r y : ℚ) : ∀ (l : List ℚ), (∀ a ∈ l, a = y) → l.foldr min r = if l.isEmpty then r else min y r
  | [], _ => rfl
  | a :: l, h => by
    have ha : a = y := h a (by simp)
    have ih := foldr_min_const r y l (fun b hb => h b (by simp [hb]))
    rw [List.foldr_cons, ih, ha]
    cases l with
    | nil => simp
    | cons b l => simp

/-- all points share the second coordinate `y`: the area is (1-D hypervolume of the first coordinates) × (r₂ − y) -/
theorem hvCells_const_y (r₁ r₂ y : ℚ) (xs : List ℚ) :
    hvCells [r₁, r₂] (xs.map (fun a => [a, y])) = (r₂ - min y r₂) * (r₁ - xs.foldr min r₁) := by
  have h1 : hvCells [r₁] (xs.map (fun a => [a])) = r₁ - xs.foldr min r₁ := by
    rw [hvCells_1d, List.map_map]
    have : ((fun p : Pt => p.headD 0) ∘ fun a : ℚ => [a]) = id := by funext a; rfl
    rw [this, List.map_id]
  rw [← h1, hvCells_cons, hvCells_cons, ← stepSum_mul_left]
  have hh : (xs.map (fun a => [a, y])).map (fun p : Pt => p.headD 0) = (xs.map (fun a => [a])).map (fun p : Pt => p.headD 0) := by
    rw [List.map_map, List.map_map]; rfl
  rw [hh]
  apply stepSum_congr
  intro lo
  rw [hvCells_1d, hvCells_nil_ref]
  have hsub1 : sub (xs.map (fun a => [a, y])) lo = (xs.filter (fun a => decide (a ≤ lo))).map (fun _ => [y]) := by
    unfold sub
    rw [List.filter_map, List.map_map]; rfl
  have hsub2 : sub (xs.map (fun a => [a])) lo = (xs.filter (fun a => decide (a ≤ lo))).map (fun _ => []) := by
    unfold sub
    rw [List.filter_map, List.map_map]; rfl
  rw [hsub1, hsub2, List.map_map]
  rw [foldr_min_const r₂ y _ (by intro a ha; simp at ha; exact ha.2.symm ▸ rfl)]
  cases xs.filter (fun a => decide (a ≤ lo)) with
  | nil => simp
  | cons b l => simp

theorem foldr_min_map_max (r x : ℚ) : ∀ (xs : List ℚ), (xs.map (fun a => max a x)).foldr min r = max (xs.foldr min r) (min x r)
  | [] => by simp
  | a :: xs => by
    rw [List.map_cons, List.foldr_cons, List.foldr_cons, foldr_min_map_max r x xs]
    have hmr : xs.foldr min r ≤ r := foldr_min_le_init r xs
    generalize xs.foldr min r = m at hmr
    simp only [min_def, max_def]
    split_ifs <;> linarith

def toPt (p : ℚ × ℚ) : Pt := [p.1, p.2]

theorem pmax_pair (r₁ r₂ : ℚ) (p q : ℚ × ℚ) :
    pmax [r₁, r₂] (toPt p) (toPt q) = [if p.1 ≤ q.1 then q.1 else p.1, if p.2 ≤ q.2 then q.2 else p.2] := rfl

theorem boxVol_pair (r₁ r₂ x y : ℚ) :
    boxVol [r₁, r₂] (toPt (x, y)) = (if x < r₁ then r₁ - x else 0) * ((if y < r₂ then r₂ - y else 0) * 1) := rfl

theorem boxVol_pair' (r₁ r₂ x y : ℚ) (hyr : y ≤ r₂) :
    boxVol [r₁, r₂] (toPt (x, y)) = (r₁ - min x r₁) * (r₂ - y) := by
  rw [boxVol_pair]
  have h2 : (if y < r₂ then r₂ - y else 0) = r₂ - y := by
    rcases lt_or_eq_of_le hyr with h' | h'
    · rw [if_pos h']
    · rw [if_neg (by rw [h']; exact lt_irrefl _), h']; ring
  rw [h2]
  rcases lt_or_ge x r₁ with h | h
  · rw [if_pos h, min_eq_left (le_of_lt h)]; ring
  · rw [if_neg (not_lt.mpr h), min_eq_right h]; ring

theorem minmax_aux (m x r : ℚ) (hmr : m ≤ r) : max m (min x r) - min x r = m - min m x := by
  rcases le_total x r with h | h
  · rw [min_eq_left h]
    rcases le_total m x with h' | h'
    · rw [max_eq_right h', min_eq_left h']; ring
    · rw [max_eq_left h', min_eq_right h']
  · rw [min_eq_right h, max_eq_right hmr, min_eq_left (le_trans hmr h)]; ring

/-- adding a point that is highest in the second coordinate: the new area is
(old running minimum − new running minimum of the first coordinate) × (r₂ − y) -/
theorem hvCells_add_top (r₁ r₂ : ℚ) (P : List (ℚ × ℚ)) (x y : ℚ) (hy : ∀ p ∈ P, p.2 ≤ y) (hyr : y ≤ r₂) :
    hvCells [r₁, r₂] (toPt (x, y) :: P.map toPt)
      = hvCells [r₁, r₂] (P.map toPt)
        + ((P.map Prod.fst).foldr min r₁ - min ((P.map Prod.fst).foldr min r₁) x) * (r₂ - y) := by
  rw [hvCells_ie]
  have hmap : (P.map toPt).map (fun p => pmax [r₁, r₂] p (toPt (x, y)))
      = ((P.map Prod.fst).map (fun a => max a x)).map (fun a => [a, y]) := by
    rw [List.map_map, List.map_map, List.map_map]
    apply List.map_congr_left
    intro p hp
    simp only [Function.comp, pmax_pair]
    rw [if_pos (hy p hp), max_def]
  rw [hmap, hvCells_const_y, foldr_min_map_max, boxVol_pair' r₁ r₂ x y hyr, min_eq_left hyr]
  have hmr : (P.map Prod.fst).foldr min r₁ ≤ r₁ := foldr_min_le_init r₁ _
  have := minmax_aux _ x r₁ hmr
  linear_combination (r₂ - y) * this

/-- pyhv's 2-D loop on value pairs: `yq` the ordinate of the previous point, `h` the running minimum of
`x − r₁`, `hvol` the accumulated area (everything translated by the reference, as in the code). -/
def stairXY (r₁ r₂ : ℚ) : List (ℚ × ℚ) → (yq h hvol : ℚ) → ℚ
  | [], yq, h, hvol => hvol + h * (yq - r₂)
  | p :: l, yq, h, hvol =>
    stairXY r₁ r₂ l p.2 (if p.1 - r₁ < h then p.1 - r₁ else h) (hvol + h * ((yq - r₂) - (p.2 - r₂)))

theorem stairXY_inv (r₁ r₂ : ℚ) : ∀ (rest P : List (ℚ × ℚ)) (yq h hvol : ℚ),
    (∀ p ∈ P, p.2 ≤ yq) → (∀ p ∈ rest, yq ≤ p.2) → (rest.Pairwise (fun a b => a.2 ≤ b.2)) →
    (∀ p ∈ rest, p.2 ≤ r₂) →
    h = (P.map Prod.fst).foldr min r₁ - r₁ →
    hvol + h * (yq - r₂) = hvCells [r₁, r₂] (P.map toPt) →
    stairXY r₁ r₂ rest yq h hvol = hvCells [r₁, r₂] ((P ++ rest).map toPt)
  | [], P, yq, h, hvol, _, _, _, _, _, hinv => by
    rw [List.append_nil]; exact hinv
  | p :: rest, P, yq, h, hvol, hP, hrest, hsorted, hr, hh, hinv => by
    have hs := List.pairwise_cons.mp hsorted
    have hpy : yq ≤ p.2 := hrest p (by simp)
    have key := hvCells_add_top r₁ r₂ P p.1 p.2 (fun q hq => le_trans (hP q hq) hpy) (hr p (by simp))
    have hset : hvCells [r₁, r₂] ((P ++ p :: rest).map toPt) = hvCells [r₁, r₂] (((p :: P) ++ rest).map toPt) := by
      apply hvCells_of_mem_iff
      intro q
      simp only [List.mem_map, List.mem_append, List.mem_cons]
      constructor
      · rintro ⟨a, (h | h | h), rfl⟩
        · exact ⟨a, Or.inl (Or.inr h), rfl⟩
        · exact ⟨a, Or.inl (Or.inl h), rfl⟩
        · exact ⟨a, Or.inr h, rfl⟩
      · rintro ⟨a, ((h | h) | h), rfl⟩
        · exact ⟨a, Or.inr (Or.inl h), rfl⟩
        · exact ⟨a, Or.inl h, rfl⟩
        · exact ⟨a, Or.inr (Or.inr h), rfl⟩
    rw [stairXY, hset]
    apply stairXY_inv r₁ r₂ rest (p :: P)
    · intro q hq
      rcases List.mem_cons.mp hq with rfl | hq
      · exact le_refl _
      · exact le_trans (hP q hq) hpy
    · exact fun q hq => hs.1 q hq
    · exact hs.2
    · exact fun q hq => hr q (by simp [hq])
    · rw [List.map_cons, List.foldr_cons, hh]
      set m := (P.map Prod.fst).foldr min r₁
      rcases lt_or_ge (p.1 - r₁) (m - r₁) with h1 | h1
      · rw [if_pos h1, min_eq_left (by linarith)]
      · rw [if_neg (not_lt.mpr h1), min_eq_right (by linarith)]
    · rw [List.map_cons]
      have : toPt p = toPt (p.1, p.2) := rfl
      rw [this, key, ← hinv, hh]
      set m := (P.map Prod.fst).foldr min r₁
      rcases lt_or_ge (p.1 - r₁) (m - r₁) with h1 | h1
      · rw [if_pos h1, min_eq_right (by linarith)]; ring
      · rw [if_neg (not_lt.mpr h1), min_eq_left (by linarith)]; ring

/-- **The 2-D staircase of pyhv** (sweep in ascending order of the second coordinate, running minimum of
the first) computes the specification. -/
theorem stairXY_eq_hvCells (r₁ r₂ : ℚ) (p : ℚ × ℚ) (rest : List (ℚ × ℚ))
    (hsorted : (p :: rest).Pairwise (fun a b => a.2 ≤ b.2))
    (hx : p.1 ≤ r₁) (hy : ∀ q ∈ p :: rest, q.2 ≤ r₂) :
    stairXY r₁ r₂ rest p.2 (p.1 - r₁) 0 = hvCells [r₁, r₂] ((p :: rest).map toPt) := by
  have hs := List.pairwise_cons.mp hsorted
  have := stairXY_inv r₁ r₂ rest [p] p.2 (p.1 - r₁) 0
    (by intro q hq; simp at hq; rw [hq]) (fun q hq => hs.1 q hq) hs.2 (fun q hq => hy q (by simp [hq]))
    (by simp [min_eq_left hx])
    (by
      have hb : hvCells [r₁, r₂] ([p].map toPt) = boxVol [r₁, r₂] (toPt p) := hvCells_single _ _
      have hp : toPt p = toPt (p.1, p.2) := rfl
      rw [hb, hp, boxVol_pair' r₁ r₂ p.1 p.2 (hy p (by simp)), min_eq_left hx]
      ring)
  simpa using this

/-! ### the recursive step in every dimension: slab decomposition along the leading coordinate -/

theorem axisOf_const (r z : ℚ) (hs : List ℚ) (hne : hs ≠ []) (hall : ∀ a ∈ hs, a = z) :
    axisOf r hs = if z < r then [z, r] else [r] := by
  apply eq_of_pairwise_lt _ _ (pairwise_axisOf r hs)
  · split
    · rename_i h; simp [h]
    · simp
  · intro x
    rw [mem_axisOf]
    obtain ⟨a, ha⟩ := List.exists_mem_of_ne_nil hs hne
    have hz : z ∈ hs := hall a ha ▸ ha
    split
    · rename_i h
      simp only [List.mem_cons, List.not_mem_nil, or_false]
      constructor
      · rintro ⟨h1 | h1, h2⟩
        · exact Or.inr h1
        · exact Or.inl (hall x h1)
      · rintro (h1 | h1)
        · exact ⟨Or.inr (h1 ▸ hz), by rw [h1]; exact le_of_lt h⟩
        · exact ⟨Or.inl h1, by rw [h1]⟩
    · rename_i h
      simp only [List.mem_cons, List.not_mem_nil, or_false]
      constructor
      · rintro ⟨h1 | h1, h2⟩
        · exact h1
        · have := hall x h1; rw [this] at h2; exact le_antisymm (this ▸ h2) (not_lt.mp h) |>.symm ▸ (by
            have e : z = r := le_antisymm h2 (not_lt.mp h)
            rw [this, e])
      · intro h1; exact ⟨Or.inl h1, by rw [h1]⟩

/-- all points share the leading coordinate `z`: a prism -/
theorem hvCells_const_head (r z : ℚ) (ref : List ℚ) (S : List Pt) (hall : ∀ p ∈ S, p.headD 0 = z) :
    hvCells (r :: ref) S = (r - min z r) * hvCells ref (S.map List.tail) := by
  cases hS : S with
  | nil => simp [hvCells_nil_pts]
  | cons p0 S' =>
    rw [← hS, hvCells_cons]
    have hne : S.map (fun p => p.headD 0) ≠ [] := by rw [hS]; simp
    rw [axisOf_const r z _ hne (by intro a ha; obtain ⟨p, hp, rfl⟩ := List.mem_map.mp ha; exact hall p hp)]
    split
    · rename_i h
      have hsub : sub S z = S.map List.tail := by
        unfold sub
        congr 1
        apply List.filter_eq_self.mpr
        intro p hp
        have := hall p hp
        exact decide_eq_true (le_of_eq this)
      simp only [stepSum, intervals, List.map_cons, List.map_nil, sumRat_cons, sumRat_nil, add_zero]
      rw [hsub, min_eq_left (le_of_lt h)]
    · rename_i h
      simp only [stepSum, intervals, List.map_nil, sumRat_nil]
      rw [min_eq_right (not_lt.mp h)]; ring

/-- **The recursive step**: adding a point whose leading coordinate is the largest adds the slab
`(r − z) × (area with the point − area without)` of the projections. -/
theorem hvCells_add_top_slab (r : ℚ) (ref : List ℚ) (P : List Pt) (p : Pt)
    (hz : ∀ s ∈ P, s.headD 0 ≤ p.headD 0) (hr : p.headD 0 ≤ r) :
    hvCells (r :: ref) (p :: P) = hvCells (r :: ref) P
      + (r - p.headD 0) * (hvCells ref ((p :: P).map List.tail) - hvCells ref (P.map List.tail)) := by
  rw [hvCells_ie, List.map_cons, hvCells_ie ref p.tail (P.map List.tail)]
  have hmap : ∀ s ∈ P.map (fun s => pmax (r :: ref) s p), s.headD 0 = p.headD 0 := by
    intro s hs
    obtain ⟨t, ht, rfl⟩ := List.mem_map.mp hs
    simp only [pmax, List.headD_cons]
    rw [if_pos (hz t ht)]
  rw [hvCells_const_head r (p.headD 0) ref _ hmap, List.map_map, List.map_map]
  have htails : (List.tail ∘ fun s => pmax (r :: ref) s p) = ((fun s => pmax ref s p.tail) ∘ List.tail) := by
    funext s; simp [pmax]
  rw [htails, min_eq_left hr]
  have hbox : boxVol (r :: ref) p = (r - p.headD 0) * boxVol ref p.tail := by
    simp only [boxVol]
    rcases lt_or_eq_of_le hr with h | h
    · rw [if_pos h]
    · rw [if_neg (by rw [h]; exact lt_irrefl _), h]; ring
  rw [hbox]
  ring

/-- pyhv's general step as a fold over the points in ascending order of the leading coordinate:
`hvol += area(prefix) × thickness`, the last slab reaching the reference. -/
def slabFold (r : ℚ) (ref : List ℚ) : List Pt → (P : List Pt) → (zq hvol : ℚ) → ℚ
  | [], P, zq, hvol => hvol + hvCells ref (P.map List.tail) * (r - zq)
  | p :: rest, P, zq, hvol =>
    slabFold r ref rest (p :: P) (p.headD 0) (hvol + hvCells ref (P.map List.tail) * (p.headD 0 - zq))

theorem slabFold_inv (r : ℚ) (ref : List ℚ) : ∀ (rest P : List Pt) (zq hvol : ℚ),
    (∀ s ∈ P, s.headD 0 ≤ zq) → (∀ s ∈ rest, zq ≤ s.headD 0) → rest.Pairwise (fun a b => a.headD 0 ≤ b.headD 0) →
    (∀ s ∈ rest, s.headD 0 ≤ r) →
    hvol + hvCells ref (P.map List.tail) * (r - zq) = hvCells (r :: ref) P →
    slabFold r ref rest P zq hvol = hvCells (r :: ref) (P ++ rest)
  | [], P, zq, hvol, _, _, _, _, hinv => by rw [List.append_nil]; exact hinv
  | p :: rest, P, zq, hvol, hP, hrest, hsorted, hr, hinv => by
    have hs := List.pairwise_cons.mp hsorted
    have hpz : zq ≤ p.headD 0 := hrest p (by simp)
    have key := hvCells_add_top_slab r ref P p (fun s hs' => le_trans (hP s hs') hpz) (hr p (by simp))
    have hset : hvCells (r :: ref) (P ++ p :: rest) = hvCells (r :: ref) ((p :: P) ++ rest) := by
      apply hvCells_of_mem_iff
      intro q
      simp only [List.mem_append, List.mem_cons]
      tauto
    rw [slabFold, hset]
    apply slabFold_inv r ref rest (p :: P)
    · intro s hs'
      rcases List.mem_cons.mp hs' with rfl | hs'
      · exact le_refl _
      · exact le_trans (hP s hs') hpz
    · exact fun s hs' => hs.1 s hs'
    · exact hs.2
    · exact fun s hs' => hr s (by simp [hs'])
    · rw [key, ← hinv]; ring

/-- **Slab decomposition** (the specification of the recursive step of the sweep, in every dimension):
for points sorted by the leading coordinate, at or below the reference in that coordinate, the
hypervolume is `Σ (d−1)-dimensional hypervolume of the prefix × thickness of the slab`. -/
theorem slabFold_eq_hvCells (r : ℚ) (ref : List ℚ) (p : Pt) (rest : List Pt)
    (hsorted : (p :: rest).Pairwise (fun a b => a.headD 0 ≤ b.headD 0))
    (hr : ∀ s ∈ p :: rest, s.headD 0 ≤ r) :
    slabFold r ref rest [p] (p.headD 0) 0 = hvCells (r :: ref) (p :: rest) := by
  have hs := List.pairwise_cons.mp hsorted
  apply slabFold_inv r ref rest [p] (p.headD 0) 0
  · intro s hs'; simp at hs'; rw [hs']
  · exact fun s hs' => hs.1 s hs'
  · exact hs.2
  · exact fun s hs' => hr s (by simp [hs'])
  · rw [zero_add, hvCells_const_head r (p.headD 0) ref [p] (by intro s hs'; simp at hs'; rw [hs']),
      min_eq_left (hr p (by simp))]
    ring

end Hypervolume
