/-
C01 — helper lemmas of the TRANSLATOR TIE (`harness/py2lean_c01.py`, `GenEq/C01.lean.tmpl`): the prelude of the
generated definitions (`Core/GenPreludeC01.lean`) against the shapes the hand-written model of `Core/Fitness.lean` uses.
The committed equality theorems `Gen01.<Class>_<method> = <model>` are proved with these.
-/
import DeapModel.Core.GenPreludeC01
import DeapModel.Core.Fitness
import DeapModel.Core.FitClass

set_option linter.unusedSimpArgs false
set_option linter.unusedVariables false
set_option linter.unusedSectionVars false

namespace Gen01L
open Fitness

variable {α : Type} [LT α] [LE α] [DecidableEq α] [DecidableLT α] [DecidableLE α]

/-! ### `len(x)` is a Python int: the generated conditions compare `Int` casts of list lengths -/

theorem int_len_eq (m n : Nat) : ((m : Int) = (n : Int)) ↔ m = n := by omega
theorem int_len_pos (n : Nat) : ((0 : Int) < (n : Int)) ↔ 0 < n := by omega
theorem int_len_ne_zero (n : Nat) : ((n : Int) ≠ (0 : Int)) ↔ n ≠ 0 := by omega

theorem decide_len_ne_zero (n : Nat) : decide ((n : Int) ≠ (0 : Int)) = (n != 0) := by
  cases n with
  | zero => rfl
  | succ k =>
    have h : ((k + 1 : Nat) : Int) ≠ 0 := by omega
    rw [decide_eq_true h]; simp

/-- the loop of `Fitness.dominates` as the translator renders it (`forRet` over the zipped tuples, state = the flag
`not_equal`, `return False` = `Sum.inl false`) is the model's structural recursion `dominatesLoop` -/
theorem forRet_dominatesLoop (body : Bool → α × α → Sum Bool Bool)
    (hb : ∀ s p, body s p = if p.2 < p.1 then Sum.inr true else if p.1 < p.2 then Sum.inl false else Sum.inr s) :
    ∀ (a b : List α) (s : Bool),
      Sum.elim (fun r => r) (fun s' => s') (Gen01.forRet body (List.zip a b) s) = dominatesLoop a b s := by
  intro a
  induction a with
  | nil => intro b s; simp [Gen01.forRet, dominatesLoop]
  | cons x xs ih =>
    intro b s
    cases b with
    | nil => simp [Gen01.forRet, dominatesLoop]
    | cons y ys =>
      simp only [List.zip_cons_cons, Gen01.forRet, dominatesLoop, hb]
      by_cases h1 : y < x
      · simp only [h1, if_true]; exact ih ys true
      · by_cases h2 : x < y
        · simp [h1, h2]
        · simp only [h1, h2, if_false]; exact ih ys s

theorem pySlice_range_aux {β : Type} : ∀ (l pre : List β),
    (List.range' pre.length l.length).filterMap (fun i => (pre ++ l)[i]?) = l := by
  intro l
  induction l with
  | nil => intro pre; simp
  | cons a l ih =>
    intro pre
    have h1 : (pre ++ a :: l)[pre.length]? = some a := by simp
    have h2 := ih (pre ++ [a])
    simp only [List.length_append, List.length_cons, List.length_nil, List.append_assoc, List.cons_append,
      List.nil_append, Nat.zero_add] at h2
    simp only [List.length_cons, List.range'_succ, List.filterMap_cons, h1]
    exact congrArg (a :: ·) h2

/-- `Py.slice` with every index of the sequence is the sequence -/
theorem pySlice_range {β : Type} (l : List β) : Py.slice (List.range l.length) l = l := by
  have h := pySlice_range_aux l []
  simpa [Py.slice, List.range_eq_range'] using h

/-- `seq[slice(None)]` is the whole sequence -/
theorem sliceIdx_all (n : Nat) : Gen01.sliceIdx Gen01.PySlice.all n = List.range n := by
  unfold Gen01.sliceIdx Gen01.PySlice.all
  simp only [Option.getD_none]
  have hneg : decide ((1 : Int) < 0) = false := by decide
  simp only [hneg]
  by_cases hn : n = 0
  · subst hn; simp
  · have hpos : (0 : Int) < (n : Int) := by omega
    have hlen : (((n : Int) - 0 - 1) / 1).toNat + 1 = n := by
      rw [Int.ediv_one]; omega
    simp [hpos, hlen]
    have h3 : (if 0 < n then n - 1 + 1 else 0) = n := by split <;> omega
    rw [h3]

theorem sliceObj_all {β : Type} (l : List β) : Gen01.sliceObj Gen01.PySlice.all l = l := by
  unfold Gen01.sliceObj
  rw [sliceIdx_all, pySlice_range]

end Gen01L
