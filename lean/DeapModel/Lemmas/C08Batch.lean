/-
C08 helper lemmas: how a batch is cut into `update` calls does not matter (the loops are folds of one
per-individual step over the population), and the hall of fame's `population[0]` shortcut is only
read while the archive is empty.
-/
import DeapModel.Lemmas.C08Run

set_option linter.unusedSectionVars false
set_option linter.unusedSimpArgs false
set_option linter.unusedVariables false

namespace C08L
open Archive
open Fitness (Fit deepcopy)

variable {G α : Type} [LinearOrder α] (sim : Ind G α → Ind G α → Bool)

/-! ### ParetoFront -/

theorem pfUpdate_append (h : HoF G α) (xs ys : List (Ind G α)) :
    pfUpdate sim h (xs ++ ys) = (pfUpdate sim h xs).bind (fun h' => pfUpdate sim h' ys) := by
  induction xs generalizing h with
  | nil => simp [pfUpdate]
  | cons x xs ih =>
    simp only [List.cons_append, pfUpdate]
    cases pfStep sim h x with
    | none => simp
    | some h1 => simp [ih]

theorem pfRun_eq_flatten (h : HoF G α) (hist : List (List (Ind G α))) :
    pfRun sim h hist = pfUpdate sim h hist.flatten := by
  induction hist generalizing h with
  | nil => simp [pfRun, pfUpdate]
  | cons b bs ih =>
    simp only [pfRun, List.flatten_cons, pfUpdate_append]
    cases pfUpdate sim h b with
    | none => simp
    | some h1 => simp [ih]

/-! ### HallOfFame -/

/-- a successful iteration of `HallOfFame.update` never leaves the archive empty -/
theorem step_nonempty (p0 ind : Ind G α) (h h' : HoF G α) (e : step sim p0 h ind = some h') :
    h'.items ≠ [] := by
  unfold step at e
  split at e
  · cases e; rw [insert_items]; exact insertAt_ne_nil _ _ _
  · rename_i hne
    split at e
    · cases e
    · rename_i worst hw
      have hne' : h.items ≠ [] := by
        intro hnil; rw [hnil] at hw; simp at hw
      split at e
      · split at e
        · cases e; exact hne'
        · split at e
          · split at e
            · cases e
            · cases e; rw [insert_items]; exact insertAt_ne_nil _ _ _
          · cases e; rw [insert_items]; exact insertAt_ne_nil _ _ _
      · cases e; exact hne'

/-- `population[0]` is read only while the archive is empty -/
theorem step_pop0_irrelevant (p0 q0 ind : Ind G α) (h : HoF G α) (hne : h.items ≠ []) :
    step sim p0 h ind = step sim q0 h ind := by
  have : ¬ (h.items.length = 0 ∧ h.maxsize ≠ 0) := by
    intro hc; exact hne (List.length_eq_zero_iff.1 hc.1)
  simp only [step, if_neg this]

theorem updateLoop_pop0_irrelevant (p0 q0 : Ind G α) (l : List (Ind G α)) :
    ∀ (h : HoF G α), h.items ≠ [] → updateLoop sim p0 h l = updateLoop sim q0 h l := by
  induction l with
  | nil => intro h _; rfl
  | cons x xs ih =>
    intro h hne
    simp only [updateLoop, step_pop0_irrelevant sim p0 q0 x h hne]
    cases e : step sim q0 h x with
    | none => rfl
    | some h1 => exact ih h1 (step_nonempty sim q0 x h h1 e)

theorem updateLoop_append (p0 : Ind G α) (h : HoF G α) (xs ys : List (Ind G α)) :
    updateLoop sim p0 h (xs ++ ys) = (updateLoop sim p0 h xs).bind (fun h' => updateLoop sim p0 h' ys) := by
  induction xs generalizing h with
  | nil => simp [updateLoop]
  | cons x xs ih =>
    simp only [List.cons_append, updateLoop]
    cases step sim p0 h x with
    | none => simp
    | some h1 => simp [ih]

theorem updateLoop_nonempty (p0 : Ind G α) (l : List (Ind G α)) (hl : l ≠ []) :
    ∀ (h h' : HoF G α), updateLoop sim p0 h l = some h' → h'.items ≠ [] := by
  induction l with
  | nil => exact absurd rfl hl
  | cons x xs ih =>
    intro h h' e
    simp only [updateLoop] at e
    cases e1 : step sim p0 h x with
    | none => rw [e1] at e; cases e
    | some h1 =>
      rw [e1] at e
      have h1ne := step_nonempty sim p0 x h h1 e1
      cases xs with
      | nil => simp only [updateLoop] at e; cases e; exact h1ne
      | cons y ys => exact ih (by simp) h1 h' e

theorem update_append (h : HoF G α) (xs ys : List (Ind G α)) :
    update sim h (xs ++ ys) = (update sim h xs).bind (fun h' => update sim h' ys) := by
  cases xs with
  | nil => simp [update]
  | cons p0 t =>
    cases ys with
    | nil =>
      simp only [List.append_nil]
      cases update sim h (p0 :: t) <;> simp [update]
    | cons q0 u =>
      simp only [update, List.cons_append]
      have := updateLoop_append sim p0 h (p0 :: t) (q0 :: u)
      simp only [List.cons_append] at this
      rw [this]
      cases e : updateLoop sim p0 h (p0 :: t) with
      | none => simp
      | some h1 =>
        simp only [Option.bind_some]
        exact updateLoop_pop0_irrelevant sim p0 q0 (q0 :: u) h1
          (updateLoop_nonempty sim p0 (p0 :: t) (by simp) h h1 e)

theorem run_eq_flatten (h : HoF G α) (hist : List (List (Ind G α))) :
    run sim h hist = update sim h hist.flatten := by
  induction hist generalizing h with
  | nil => simp [run, update]
  | cons b bs ih =>
    simp only [run, List.flatten_cons, update_append]
    cases update sim h b with
    | none => simp
    | some h1 => simp [ih]

end C08L
