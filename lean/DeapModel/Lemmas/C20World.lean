/-
C20 — lemmas about whole benchmark objects (`MovingPeaks.init`, `Bench.step`, `Slot.run`, `World.run`):
the constructor's three `pfunc` paths, "every peak function comes from the pool", the count invariant
along arbitrary histories of changes and evaluations, and the frame / projection lemmas behind
`C20.mp_instances_independent`.  Scalar-generic (any `RealLike α`).
-/
import DeapModel.Lemmas.C20MPTotal

set_option linter.unusedSimpArgs false
set_option linter.unusedSectionVars false

namespace C20L
open MovingPeaks

variable {α : Type} [RealLike α]

/-! ### the constructor -/

/-- the pool `pfunc_pool` of a `pfunc` argument -/
def poolOf : PFuncArg → List PFunc
  | .one f => [f]
  | .many fs => fs

theorem filterMap_getElem?_length (fs : List PFunc) (idx : List Nat) (h : ∀ i ∈ idx, i < fs.length) :
    (idx.filterMap (fs[·]?)).length = idx.length ∧ ∀ f ∈ idx.filterMap (fs[·]?), f ∈ fs := by
  induction idx with
  | nil => simp
  | cons i t ih =>
    have hi : i < fs.length := h i (by simp)
    obtain ⟨l, m⟩ := ih (fun j hj => h j (by simp [hj]))
    have e : fs[i]? = some fs[i] := List.getElem?_eq_getElem hi
    simp only [List.filterMap_cons, e, List.length_cons, l, true_and]
    intro f hf
    simp only [List.mem_cons] at hf
    rcases hf with rfl | hf
    · exact List.getElem_mem hi
    · exact m f hf

/-- `initFunctions`: exactly `npeaks` functions, all of them from the pool, the pool is the caller's
functions; a list of the right length is taken as it is and no draw is consumed, any other list
costs exactly one `sample` draw. -/
theorem initFunctions_spec (pf : PFuncArg) (n : Nat) (t : Tape α) (fns pool : List PFunc) (t' : Tape α)
    (h : initFunctions pf n t = some (fns, pool, t')) :
    fns.length = n ∧ pool = poolOf pf ∧ (∀ f ∈ fns, f ∈ pool) ∧
    (match pf with
     | .one f => fns = List.replicate n f ∧ t' = t
     | .many fs => (fs.length = n → fns = fs ∧ t' = t) ∧
                   (fs.length ≠ n → n < fs.length ∧ ∃ idx, t = .sample idx :: t')) := by
  cases pf with
  | one f =>
    simp only [initFunctions, Option.some.injEq, Prod.mk.injEq] at h
    obtain ⟨rfl, rfl, rfl⟩ := h
    exact ⟨by simp, rfl, by intro g hg; simp [List.mem_replicate] at hg; simp [hg.2], rfl, rfl⟩
  | many fs =>
    simp only [initFunctions] at h
    by_cases h1 : fs.length = n
    · simp only [h1, if_true, Option.some.injEq, Prod.mk.injEq] at h
      obtain ⟨rfl, rfl, rfl⟩ := h
      exact ⟨h1, rfl, fun f hf => hf, fun _ => ⟨rfl, rfl⟩, fun hne => absurd h1 hne⟩
    · simp only [h1, if_false] at h
      by_cases h2 : fs.length < n
      · simp [h2] at h
      · simp only [h2, if_false] at h
        cases t with
        | nil => simp at h
        | cons d t1 =>
          cases d with
          | sample idx =>
            simp only at h
            by_cases hs : sampleOK fs.length n idx = true
            · simp only [hs, if_true, Option.some.injEq, Prod.mk.injEq] at h
              obtain ⟨rfl, rfl, rfl⟩ := h
              simp only [sampleOK, Bool.and_eq_true, beq_iff_eq, List.all_eq_true, decide_eq_true_eq] at hs
              obtain ⟨l, m⟩ := filterMap_getElem?_length fs idx hs.1.2
              exact ⟨by rw [l, hs.1.1], rfl, m, fun he => absurd he h1, fun _ => ⟨by omega, idx, rfl⟩⟩
            · simp [hs] at h
          | random x => simp at h
          | randrange i => simp at h
          | choice i => simp at h
          | uniform x => simp at h
          | gauss x => simp at h

/-- every peak's function is one of the pool -/
def FromPool (pool : List PFunc) (peaks : List (Peak α)) : Prop := ∀ p ∈ peaks, p.fn ∈ pool

theorem removePeaks_fromPool (pool : List PFunc) (n : Nat) (peaks : List (Peak α)) (t : Tape α)
    (p' : List (Peak α)) (t' : Tape α) (h : removePeaks n peaks t = some (p', t')) (hp : FromPool pool peaks) :
    FromPool pool p' := by
  induction n generalizing peaks t with
  | zero => simp only [removePeaks, Option.some.injEq, Prod.mk.injEq] at h; rw [← h.1]; exact hp
  | succ m ih =>
    cases t with
    | nil => simp [removePeaks] at h
    | cons d t1 =>
      cases d with
      | randrange idx =>
        simp only [removePeaks] at h
        split at h
        · exact ih _ _ h (fun p hm => hp p (List.mem_of_mem_eraseIdx hm))
        · simp at h
      | random x => simp [removePeaks] at h
      | choice i => simp [removePeaks] at h
      | uniform x => simp [removePeaks] at h
      | gauss x => simp [removePeaks] at h
      | sample idx => simp [removePeaks] at h

theorem addPeaks_fromPool (cfg : Config α) (n : Nat) (peaks : List (Peak α)) (t : Tape α) (p' : List (Peak α))
    (t' : Tape α) (h : addPeaks cfg n peaks t = some (p', t')) (hp : FromPool cfg.pool peaks) :
    FromPool cfg.pool p' := by
  induction n generalizing peaks t with
  | zero => simp only [addPeaks, Option.some.injEq, Prod.mk.injEq] at h; rw [← h.1]; exact hp
  | succ m ih =>
    cases t with
    | nil => simp [addPeaks] at h
    | cons d t1 =>
      cases d with
      | choice i =>
        simp only [addPeaks] at h
        split at h
        · simp at h
        · next fn hfn =>
          split at h
          · simp at h
          · split at h
            · simp at h
            · split at h
              · simp at h
              · split at h
                · simp at h
                · refine ih _ _ h ?_
                  intro p hm
                  simp only [List.mem_append, List.mem_singleton] at hm
                  rcases hm with hm | rfl
                  · exact hp p hm
                  · exact List.mem_of_getElem? hfn
      | random x => simp [addPeaks] at h
      | randrange i => simp [addPeaks] at h
      | uniform x => simp [addPeaks] at h
      | gauss x => simp [addPeaks] at h
      | sample idx => simp [addPeaks] at h

theorem changePeak_fn (cfg : Config α) (pk : Peak α) (t : Tape α) (pk' : Peak α) (t' : Tape α)
    (h : changePeak cfg pk t = some (pk', t')) : pk'.fn = pk.fn := by
  unfold changePeak at h
  split at h
  · simp at h
  · simp only at h
    split at h
    · simp at h
    · split at h
      · simp at h
      · simp only [Option.some.injEq, Prod.mk.injEq] at h
        rw [← h.1]

theorem changeAll_fromPool (cfg : Config α) (pool : List PFunc) (peaks : List (Peak α)) (t : Tape α)
    (p' : List (Peak α)) (t' : Tape α) (h : changeAll cfg peaks t = some (p', t')) (hp : FromPool pool peaks) :
    FromPool pool p' := by
  induction peaks generalizing t p' t' with
  | nil => simp only [changeAll, Option.some.injEq, Prod.mk.injEq] at h; rw [← h.1]; exact hp
  | cons pk rest ih =>
    simp only [changeAll] at h
    split at h
    · simp at h
    · next pk' t1 h1 =>
      split at h
      · simp at h
      · next r' t2 hr =>
        simp only [Option.some.injEq, Prod.mk.injEq] at h
        rw [← h.1]
        intro p hm
        simp only [List.mem_cons] at hm
        rcases hm with rfl | hm
        · rw [changePeak_fn _ _ _ _ _ h1]; exact hp pk (by simp)
        · exact ih _ _ _ hr (fun q hq => hp q (by simp [hq])) p hm

/-- `changePeaks` only ever uses functions of `pfunc_pool` -/
theorem changePeaks_fromPool (cfg : Config α) (peaks : List (Peak α)) (t : Tape α) (p' : List (Peak α))
    (t' : Tape α) (h : changePeaks cfg peaks t = some (p', t')) (hp : FromPool cfg.pool peaks) :
    FromPool cfg.pool p' := by
  simp only [changePeaks] at h
  split at h
  · simp at h
  · next p1 t1 h1 =>
    refine changeAll_fromPool _ _ _ _ _ _ h ?_
    unfold changeNumber at h1
    cases hl : cfg.limits with
    | none => rw [hl] at h1; simp only [Option.some.injEq, Prod.mk.injEq] at h1; rw [← h1.1]; exact hp
    | some lim =>
      obtain ⟨mn, mx⟩ := lim
      rw [hl] at h1
      simp only at h1
      split at h1
      · simp at h1
      · split at h1
        · simp at h1
        · split at h1
          · exact removePeaks_fromPool _ _ _ _ _ _ h1 hp
          · exact addPeaks_fromPool _ _ _ _ _ _ h1 hp

/-! ### invariants of a benchmark object along its history -/

/-- the state invariant of a benchmark object: count inside the configured limits (resp. equal to the
fixed number `n0`), `dim` coordinates per peak, every peak function from the pool -/
structure Inv (n0 : Nat) (b : Bench α) : Prop where
  count : match b.cfg.limits with
    | none => b.st.peaks.length = n0
    | some (mn, mx) => mn ≤ (b.st.peaks.length : Int) ∧ (b.st.peaks.length : Int) ≤ mx
  pool : FromPool b.cfg.pool b.st.peaks

theorem count_step (cfg : Config α) (n0 : Nat) (peaks p' : List (Peak α)) (t t' : Tape α)
    (h : changePeaks cfg peaks t = some (p', t'))
    (hc : match cfg.limits with
      | none => peaks.length = n0
      | some (mn, mx) => mn ≤ (peaks.length : Int) ∧ (peaks.length : Int) ≤ mx) :
    match cfg.limits with
      | none => p'.length = n0
      | some (mn, mx) => mn ≤ (p'.length : Int) ∧ (p'.length : Int) ≤ mx := by
  have := changePeaks_count _ _ _ _ _ h
  cases hl : cfg.limits with
  | none => rw [hl] at this hc; simp only at this hc ⊢; omega
  | some lim =>
    obtain ⟨mn, mx⟩ := lim
    rw [hl] at this hc
    simp only at this hc ⊢
    exact this hc.1 hc.2

/-- the static part of a benchmark object never changes -/
theorem Bench.step_static (b b' : Bench α) (a : Action α) (t t' : Tape α) (o : Out α)
    (h : b.step a t = some (b', o, t')) : b'.cfg = b.cfg ∧ b'.period = b.period := by
  cases a with
  | change =>
    simp only [Bench.step] at h
    split at h
    · simp at h
    · simp only [Option.some.injEq, Prod.mk.injEq] at h; rw [← h.1]; exact ⟨rfl, rfl⟩
  | eval x =>
    simp only [Bench.step] at h
    split at h
    · simp at h
    · simp only [Option.some.injEq, Prod.mk.injEq] at h; rw [← h.1]; exact ⟨rfl, rfl⟩
  | evalCount x =>
    simp only [Bench.step] at h
    split at h
    · simp at h
    · split at h
      · simp at h
      · simp only [Option.some.injEq, Prod.mk.injEq] at h; rw [← h.1]; exact ⟨rfl, rfl⟩

theorem evalCounted_peaks (cfg : Config α) (period : Int) (basis : Option (List α → α)) (st : State α)
    (x : List α) (t : Tape α) (v : α) (ch : Bool) (st' : State α) (t' : Tape α)
    (h : evalCounted cfg period basis st x t = some (v, ch, st', t')) :
    (st'.peaks = st.peaks ∧ t' = t) ∨ changePeaks cfg st.peaks t = some (st'.peaks, t') := by
  unfold evalCounted at h
  split at h
  · simp at h
  · by_cases hemp : st.peaks.isEmpty = true
    · simp [hemp] at h
    · simp only [hemp, Bool.false_eq_true, if_false] at h
      by_cases htr : triggers period (st.nevals + 1) = true
      · simp only [htr, if_true] at h
        split at h
        · simp at h
        · next p1 t1 hc =>
          simp only [Option.some.injEq, Prod.mk.injEq] at h
          obtain ⟨_, _, rfl, rfl⟩ := h
          exact Or.inr hc
      · simp only [htr, Bool.false_eq_true, if_false] at h
        simp only [Option.some.injEq, Prod.mk.injEq] at h
        obtain ⟨_, _, rfl, rfl⟩ := h
        exact Or.inl ⟨rfl, rfl⟩

theorem Bench.step_inv (n0 : Nat) (b b' : Bench α) (a : Action α) (t t' : Tape α) (o : Out α)
    (h : b.step a t = some (b', o, t')) (hi : Inv n0 b) : Inv n0 b' := by
  cases a with
  | change =>
    simp only [Bench.step] at h
    split at h
    · simp at h
    · next p1 t1 hc =>
      simp only [Option.some.injEq, Prod.mk.injEq] at h
      rw [← h.1]
      exact ⟨count_step _ _ _ _ _ _ hc hi.count, changePeaks_fromPool _ _ _ _ _ hc hi.pool⟩
  | eval x =>
    simp only [Bench.step] at h
    split at h
    · simp at h
    · simp only [Option.some.injEq, Prod.mk.injEq] at h; rw [← h.1]; exact hi
  | evalCount x =>
    simp only [Bench.step] at h
    split at h
    · simp at h
    · next v ch st' t1 he =>
      split at h
      · simp at h
      · simp only [Option.some.injEq, Prod.mk.injEq] at h
        rw [← h.1]
        rcases evalCounted_peaks _ _ _ _ _ _ _ _ _ _ he with ⟨e, _⟩ | hc
        · exact ⟨by simpa [e] using hi.count, by simpa [e] using hi.pool⟩
        · exact ⟨count_step _ _ _ _ _ _ hc hi.count, changePeaks_fromPool _ _ _ _ _ hc hi.pool⟩

theorem Slot.run_inv (n0 : Nat) (acts : List (Action α)) (s s' : Slot α) (outs : List (Out α))
    (h : Slot.run acts s = some (s', outs)) (hi : Inv n0 s.b) : Inv n0 s'.b ∧ s'.b.cfg = s.b.cfg := by
  induction acts generalizing s outs with
  | nil => simp only [Slot.run, Option.some.injEq, Prod.mk.injEq] at h; rw [← h.1]; exact ⟨hi, rfl⟩
  | cons a as ih =>
    simp only [Slot.run] at h
    split at h
    · simp at h
    · next s1 o h1 =>
      split at h
      · simp at h
      · next s2 os h2 =>
        simp only [Option.some.injEq, Prod.mk.injEq] at h
        obtain ⟨rfl, rfl⟩ := h
        simp only [Slot.step] at h1
        split at h1
        · simp at h1
        · next b' o' t' hb =>
          simp only [Option.some.injEq, Prod.mk.injEq] at h1
          have hs1 : s1.b = b' := by rw [← h1.1]
          have i1 : Inv n0 s1.b := by rw [hs1]; exact Bench.step_inv n0 _ _ _ _ _ _ hb hi
          obtain ⟨r1, r2⟩ := ih _ _ h2 i1
          exact ⟨r1, by rw [r2, hs1]; exact (Bench.step_static _ _ _ _ _ _ hb).1⟩

/-! ### several objects: frame and projection -/

theorem World.step_length (w w' : World α) (i : Nat) (a : Action α) (o : Out α)
    (h : w.step i a = some (w', o)) : w'.length = w.length := by
  simp only [World.step] at h
  split at h
  · simp at h
  · split at h
    · simp at h
    · simp only [Option.some.injEq, Prod.mk.injEq] at h; rw [← h.1]; simp

/-- one action on object `i`: object `i` makes its own step, every other object is untouched -/
theorem World.step_spec (w w' : World α) (i : Nat) (a : Action α) (o : Out α)
    (h : w.step i a = some (w', o)) :
    (∃ s s', w[i]? = some s ∧ s.step a = some (s', o) ∧ w'[i]? = some s') ∧
    ∀ j, j ≠ i → w'[j]? = w[j]? := by
  simp only [World.step] at h
  split at h
  · simp at h
  · next s hs =>
    split at h
    · simp at h
    · next s' o' hst =>
      simp only [Option.some.injEq, Prod.mk.injEq] at h
      obtain ⟨rfl, rfl⟩ := h
      have hi : i < w.length := by
        rcases Nat.lt_or_ge i w.length with hlt | hge
        · exact hlt
        · rw [List.getElem?_eq_none hge] at hs; simp at hs
      refine ⟨⟨s, s', hs, hst, by simp [List.getElem?_set, hi]⟩, ?_⟩
      intro j hj
      rw [List.getElem?_set_ne (Ne.symm hj)]

/-- the actions addressed to object `j` -/
def project (j : Nat) (ops : List (Nat × Action α)) : List (Action α) :=
  (ops.filter fun op => op.1 == j).map (·.2)

theorem project_cons_eq (j : Nat) (a : Action α) (ops : List (Nat × Action α)) :
    project j ((j, a) :: ops) = a :: project j ops := by
  simp [project]

theorem project_cons_ne (i j : Nat) (a : Action α) (ops : List (Nat × Action α)) (h : i ≠ j) :
    project j ((i, a) :: ops) = project j ops := by
  simp [project, h]

/-- **projection**: in an interleaved history every object goes through exactly the history of the
actions addressed to it, with its own random source, whatever was done to the other objects in between -/
theorem World.run_project (ops : List (Nat × Action α)) (w w' : World α) (outs : List (Out α))
    (h : World.run ops w = some (w', outs)) :
    w'.length = w.length ∧
    ∀ j s, w[j]? = some s → ∃ s' outs_j, Slot.run (project j ops) s = some (s', outs_j) ∧ w'[j]? = some s' := by
  induction ops generalizing w outs with
  | nil =>
    simp only [World.run, Option.some.injEq, Prod.mk.injEq] at h
    rw [← h.1]
    exact ⟨rfl, fun j s hs => ⟨s, [], by simp [project, Slot.run], hs⟩⟩
  | cons op rest ih =>
    obtain ⟨i, a⟩ := op
    simp only [World.run] at h
    split at h
    · simp at h
    · next w1 o h1 =>
      split at h
      · simp at h
      · next w2 os h2 =>
        simp only [Option.some.injEq, Prod.mk.injEq] at h
        obtain ⟨rfl, _⟩ := h
        obtain ⟨l2, p2⟩ := ih _ _ h2
        obtain ⟨⟨si, si', e1, e2, e3⟩, frame⟩ := World.step_spec _ _ _ _ _ h1
        refine ⟨by rw [l2, World.step_length _ _ _ _ _ h1], ?_⟩
        intro j s hs
        by_cases hj : j = i
        · subst hj
          rw [e1] at hs
          obtain rfl : si = s := by simpa using hs
          obtain ⟨s', oj, r1, r2⟩ := p2 j si' e3
          exact ⟨s', o :: oj, by rw [project_cons_eq]; simp [Slot.run, e2, r1], r2⟩
        · have : w1[j]? = some s := by rw [frame j hj]; exact hs
          obtain ⟨s', oj, r1, r2⟩ := p2 j s this
          exact ⟨s', oj, by rw [project_cons_ne _ _ _ _ (Ne.symm hj)]; exact r1, r2⟩

end C20L
