/-
C16 — GP node objects: `__setstate__ ∘ __getstate__` is the identity on every slot, and
`renameArguments` never touches a `name` slot (so `name` cannot be rebuilt from `value`).
-/
import DeapModel.Core.Heap

namespace Heap.Gp

/-- Every slot of a node survives `__getstate__` / `__setstate__` — set or unset. -/
theorem loadNode_dumpNode (n : Node) : loadNode (dumpNode n) = n := by
  cases n with
  | prim a b c d e =>
    cases a <;> cases b <;> cases c <;> cases d <;> cases e <;> rfl
  | term a b c d =>
    cases a <;> cases b <;> cases c <;> cases d <;> rfl

theorem map_loadNode_dumpNode (ns : List Node) : ns.map (fun n => loadNode (dumpNode n)) = ns := by
  induction ns with
  | nil => rfl
  | cons n ns ih => rw [List.map_cons, loadNode_dumpNode, ih]

/-- `terminal.value = new_name` leaves every `name` slot as it was. -/
theorem setValue_names {nodes nodes' : List Node} {i : Nat} {x : Int}
    (h : setValue nodes i x = some nodes') : nodes'.map Node.name = nodes.map Node.name := by
  simp only [setValue] at h
  split at h
  · rename_i n v r c hi
    cases h
    rw [List.map_set]
    apply List.ext_getElem?
    intro j
    by_cases hj : i = j
    · subst hj
      by_cases hlt : i < nodes.length
      · rw [List.getElem?_set_self (by simpa using hlt), List.getElem?_map, hi]
        rfl
      · rw [List.getElem?_eq_none (by simpa using hlt), List.getElem?_eq_none (by simpa using hlt)]
    · rw [List.getElem?_set_ne hj]
  · cases h

theorem renamePass2_names : ∀ (ren : List (Int × Nat)) (nodes : List Node) (mp : List (Int × Nat))
    (nodes' : List Node) (mp' : List (Int × Nat)),
    renamePass2 ren nodes mp = some (nodes', mp') → nodes'.map Node.name = nodes.map Node.name := by
  intro ren
  induction ren with
  | nil =>
    intro nodes mp nodes' mp' h
    simp only [renamePass2] at h
    cases h
    rfl
  | cons p ren ih =>
    intro nodes mp nodes' mp' h
    obtain ⟨new, i⟩ := p
    simp only [renamePass2] at h
    split at h
    · cases h
    · rename_i nodes1 h1
      rw [ih _ _ _ _ h, setValue_names h1]

/-- `renameArguments` never changes the `name` of any node object of the set. -/
theorem renameArguments_names {ps ps' : PSet} {kargs : List (Int × Int)}
    (h : renameArguments ps kargs = some ps') : ps'.nodes.map Node.name = ps.nodes.map Node.name := by
  simp only [renameArguments] at h
  split at h
  · cases h
  · rename_i args mp ren _
    split at h
    · cases h
    · rename_i nodes mp' h2
      cases h
      exact renamePass2_names _ _ _ _ _ h2

theorem renameHistory_names : ∀ (hist : List (List (Int × Int))) (ps ps' : PSet),
    renameHistory ps hist = some ps' → ps'.nodes.map Node.name = ps.nodes.map Node.name := by
  intro hist
  induction hist with
  | nil =>
    intro ps ps' h
    simp only [renameHistory] at h
    cases h
    rfl
  | cons k ks ih =>
    intro ps ps' h
    simp only [renameHistory] at h
    split at h
    · cases h
    · rename_i ps1 h1
      rw [ih _ _ h, renameArguments_names h1]

/-! ### A concrete set: two arguments (`ARG0` = 100, `ARG1` = 101) and `add` (5) -/

/-- As built by `PrimitiveSet("MAIN", 2)` + `addPrimitive(add, 2)`: for every terminal
`name = str(value)` (the same atom here: the argument values are strings). -/
def exPset : PSet :=
  { nodes := [.term (some 100) (some 100) (some 7) (some 8), .term (some 101) (some 101) (some 7) (some 8),
              .prim (some 5) (some 2) (some 9) (some 7) (some 10)],
    arguments := [100, 101],
    mapping := [(100, 0), (101, 1), (5, 2)] }

end Heap.Gp
