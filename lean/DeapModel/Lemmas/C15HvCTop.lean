import DeapModel.Lemmas.C15HvC3dRun
/-!
C15 — `fpli_hv` of the transcription `Core/HvC.lean` in one and two dimensions, and the shared glue
(`setup_cdllist`, `filter`, the cases `n == 0`, `n == 1`).
-/
namespace HvC
set_option linter.unusedVariables false
open Hypervolume
open HvSweep (Shape DL Seg Link DimEq ids)

/-- what `fpli_hv` knows after `setup_cdllist` and `filter` -/
structure Ready (data : List (List ℚ)) (R : List ℚ) (n' : ℕ) (S : St) : Prop where
  shape : ShapeC R.length data.length S
  same : SameData (initSt R.length data.length) S
  count : n' = ((ids data.length).filter (goodUpTo ([] :: data) R R.length)).length
  lists : ∀ j < R.length, ∃ L, Order ([] :: data) data.length j L ∧
    DLc data.length S j (L.filter (goodUpTo ([] :: data) R R.length))

theorem ready (data : List (List ℚ)) (R : List ℚ) :
    Ready data R (filter ([] :: data) R R.length data.length (setupCdllist ([] :: data) R.length data.length)).1
      (filter ([] :: data) R R.length data.length (setupCdllist ([] :: data) R.length data.length)).2 := by
  obtain ⟨h1, h2, h3, h4⟩ := setup_filter_spec ([] :: data) R R.length data.length
  exact ⟨h1, h2, h3, h4⟩

theorem fpliHvSt_unfold (data : List (List ℚ)) (R : List ℚ) :
    fpliHvSt data R =
      (let r := filter ([] :: data) R R.length data.length (setupCdllist ([] :: data) R.length data.length)
       if r.1 = 0 then some (0, r.2)
       else if r.1 = 1 then
         some ((List.range R.length).foldl (fun h i => h * (rf R i - cg ([] :: data) (nx r.2 0 0) i)) 1, r.2)
       else hvRecursive ([] :: data) R (data.length + 2) (R.length - 1) r.1 r.2) := rfl

/-- the list of dimension `j`: its members are exactly the surviving nodes -/
theorem Ready.list_facts {data : List (List ℚ)} {R : List ℚ} {n' : ℕ} {S : St} (h : Ready data R n' S) {j : ℕ}
    (hj : j < R.length) : ∃ G : List ℕ, DLc data.length S j G ∧ G.length = n' ∧
      G.Pairwise (fun a b => cg ([] :: data) a j ≤ cg ([] :: data) b j) ∧
      (∀ a ∈ G, goodUpTo ([] :: data) R R.length a = true ∧ a ∈ ids data.length) ∧
      hvCells R data = hvCells R (G.map (ptOf ([] :: data))) := by
  obtain ⟨L, hO, hD⟩ := h.lists j hj
  refine ⟨L.filter (goodUpTo ([] :: data) R R.length), hD, ?_, hO.sorted.filter _, ?_, hvCells_data_eq_good data R L hO.perm⟩
  · rw [h.count]; exact length_filter_perm hO.perm _
  · intro a ha
    have := List.mem_filter.mp ha
    exact ⟨this.2, hO.perm.mem_iff.mp this.1⟩

theorem good_lt {C : Cargo} {R : List ℚ} {a : ℕ} (h : goodUpTo C R R.length a = true) {i : ℕ} (hi : i < R.length) :
    cg C a i < rf R i := (goodUpTo_iff C R R.length a).mp h i hi

/-- `n == 0` and `n == 1` -/
theorem fpliHv_small (data : List (List ℚ)) (R : List ℚ) (hd : 1 ≤ R.length) {n' : ℕ} {S : St}
    (h : Ready data R n' S) :
    (n' = 0 → hvCells R data = 0) ∧
    (n' = 1 → (List.range R.length).foldl (fun h i => h * (rf R i - cg ([] :: data) (nx S 0 0) i)) 1 = hvCells R data) := by
  obtain ⟨G, hD, hlen, hs, hg, hv⟩ := h.list_facts (j := 0) (by omega)
  refine ⟨?_, ?_⟩
  · intro h0
    have : G = [] := List.length_eq_zero_iff.mp (hlen.trans h0)
    rw [hv, this]; exact hvCells_nil_pts R
  · intro h1
    obtain ⟨p, rfl⟩ : ∃ p, G = [p] := List.length_eq_one_iff.mp (hlen.trans h1)
    have hnx : nx S 0 0 = p := hD.1.1.1
    rw [hnx, hv]
    exact single_eq_hvCells ([] :: data) R p (hg p (by simp)).1

theorem fpliHv_dim1 (data : List (List ℚ)) (r : ℚ) : fpliHv data [r] = some (hvCells [r] data) := by
  unfold fpliHv
  rw [fpliHvSt_unfold]
  have hR := ready data [r]
  set res := filter ([] :: data) [r] [r].length data.length (setupCdllist ([] :: data) [r].length data.length) with hres
  obtain ⟨h0, h1⟩ := fpliHv_small data [r] (by simp) hR
  simp only
  by_cases hn0 : res.1 = 0
  · rw [if_pos hn0, h0 hn0]; rfl
  · rw [if_neg hn0]
    by_cases hn1 : res.1 = 1
    · rw [if_pos hn1, h1 hn1]; rfl
    · rw [if_neg hn1]
      obtain ⟨G, hD, hlen, hs, hg, hv⟩ := hR.list_facts (j := 0) (by simp)
      cases G with
      | nil => exact absurd hlen.symm hn0
      | cons a G =>
        have hnx : nx res.2 0 0 = a := hD.1.1.1
        have hlt : cg ([] :: data) a 0 < r := by
          have := good_lt (hg a (by simp)).1 (i := 0) (by simp)
          simpa [rf] using this
        have key := dim1_eq_hvCells ([] :: data) r a G hs (le_of_lt hlt)
        simp only [List.length_cons, List.length_nil, Nat.zero_add, Nat.sub_self, hvRecursive]
        have hnx' : nx (tick res.2 0) 0 0 = a := hnx
        have hnx'' : nx (setIgn (tick res.2 0) a (-1)) 0 0 = a := hnx
        rw [hnx', hnx'', hv, ← key]
        simp [rf]

theorem fpliHv_dim2 (data : List (List ℚ)) (r₁ r₂ : ℚ) (hlen2 : ∀ p ∈ data, p.length = 2) :
    fpliHv data [r₁, r₂] = some (hvCells [r₁, r₂] data) := by
  unfold fpliHv
  rw [fpliHvSt_unfold]
  have hR := ready data [r₁, r₂]
  set res := filter ([] :: data) [r₁, r₂] [r₁, r₂].length data.length
    (setupCdllist ([] :: data) [r₁, r₂].length data.length) with hres
  obtain ⟨h0, h1⟩ := fpliHv_small data [r₁, r₂] (by simp) hR
  simp only
  by_cases hn0 : res.1 = 0
  · rw [if_pos hn0, h0 hn0]; rfl
  · rw [if_neg hn0]
    by_cases hn1 : res.1 = 1
    · rw [if_pos hn1, h1 hn1]; rfl
    · rw [if_neg hn1]
      obtain ⟨G, hD, hlen, hs, hg, hv⟩ := hR.list_facts (j := 1) (by simp)
      cases G with
      | nil => exact absurd hlen.symm hn0
      | cons a G =>
        have hnx : nx res.2 1 0 = a := hD.1.1.1
        have hle : ∀ x ∈ a :: G, cg ([] :: data) x 0 ≤ r₁ ∧ cg ([] :: data) x 1 ≤ r₂ := by
          intro x hx
          have e0 := good_lt (hg x hx).1 (i := 0) (by simp)
          have e1 := good_lt (hg x hx).1 (i := 1) (by simp)
          simp [rf] at e0 e1
          exact ⟨le_of_lt e0, le_of_lt e1⟩
        have hl2 : ∀ x ∈ a :: G, (ptOf ([] :: data) x).length = 2 := fun x hx =>
          hlen2 _ (mem_data_of_mem_ids data x (hg x hx).2)
        have key := dim2_eq_hvCells ([] :: data) r₁ r₂ a G hs hl2 hle
        have hne : ∀ p ∈ G, p ≠ 0 := by
          intro p hp e
          have := (hD.2.2 p (by simp [hp])).1
          omega
        have hfuel : G.length < data.length + 2 := by
          have := HvSweep.dl_length_le hD
          simp at this; omega
        have hseg : Seg (toSw (tick res.2 1)) 1 a G 0 := hD.1.2
        obtain ⟨S', hrun⟩ := loop2d_eq ([] :: data) [r₁, r₂] G (data.length + 2) a (cg ([] :: data) a 0) 0 (tick res.2 1)
          hfuel hseg hne
        simp only [List.length_cons, List.length_nil, Nat.zero_add, Nat.add_one_sub_one, hvRecursive]
        have hnx' : nx (tick res.2 1) 1 0 = a := hnx
        rw [hnx', hrun]
        simp only [Option.map_some, Option.some.injEq]
        rw [hv, ← key]
        simp [rf]

theorem getD_replicate_int (m a : ℕ) : (List.replicate m (0 : ℤ)).getD a 0 = 0 := by
  rw [List.getD_eq_getElem?_getD, List.getElem?_replicate]; split <;> rfl

theorem getD_replicate_none (m a : ℕ) : (List.replicate m (none : Option ℚ)).getD a none = none := by
  rw [List.getD_eq_getElem?_getD, List.getElem?_replicate]; split <;> rfl

theorem fpliHv_dim3 (data : List (List ℚ)) (r₀ r₁ r₂ : ℚ) (hlen3 : ∀ p ∈ data, p.length = 3) :
    fpliHv data [r₀, r₁, r₂] = some (hvCells [r₀, r₁, r₂] data) := by
  unfold fpliHv
  rw [fpliHvSt_unfold]
  have hR := ready data [r₀, r₁, r₂]
  set res := filter ([] :: data) [r₀, r₁, r₂] [r₀, r₁, r₂].length data.length
    (setupCdllist ([] :: data) [r₀, r₁, r₂].length data.length) with hres
  obtain ⟨h0, h1⟩ := fpliHv_small data [r₀, r₁, r₂] (by simp) hR
  simp only
  by_cases hn0 : res.1 = 0
  · rw [if_pos hn0, h0 hn0]; rfl
  · rw [if_neg hn0]
    by_cases hn1 : res.1 = 1
    · rw [if_pos hn1, h1 hn1]; rfl
    · rw [if_neg hn1]
      obtain ⟨G, hD, hlen, hs, hg, hv⟩ := hR.list_facts (j := 2) (by simp)
      cases G with
      | nil => exact absurd hlen.symm hn0
      | cons a G =>
        obtain ⟨e1, e2, e3, e4, e5, e6, e7⟩ := hR.same
        have hfacts : ∀ x ∈ a :: G, cg ([] :: data) x 0 < rf [r₀, r₁, r₂] 0 ∧ cg ([] :: data) x 1 < rf [r₀, r₁, r₂] 1 ∧
            cg ([] :: data) x 2 < rf [r₀, r₁, r₂] 2 ∧ (ptOf ([] :: data) x).length = 3 := by
          intro x hx
          exact ⟨good_lt (hg x hx).1 (i := 0) (by simp), good_lt (hg x hx).1 (i := 1) (by simp),
            good_lt (hg x hx).1 (i := 2) (by simp), hlen3 _ (mem_data_of_mem_ids data x (hg x hx).2)⟩
        obtain ⟨S', hrun⟩ := dim3_fresh ([] :: data) [r₀, r₁, r₂] 3 data.length (data.length + 2) (tick res.2 2) a G hD hs hfacts
          (by
            show res.2.bound.getD 2 none = none
            rw [e4]; exact getD_replicate_none _ _)
          (by
            intro x
            show res.2.ignore.getD x 0 = 0
            rw [e1]; exact getD_replicate_int _ _)
          (by decide)
          (by
            show HvSweep.Shaped (data.length + 1) 3 res.2.vol
            rw [e3]; exact HvSweep.shaped_replicate _ _ _)
          (by
            show HvSweep.Shaped (data.length + 1) 3 res.2.area
            rw [e2]; exact HvSweep.shaped_replicate _ _ _)
          (by omega)
        simp only [List.length_cons, List.length_nil, Nat.zero_add, Nat.add_one_sub_one, hvRecursive]
        rw [hrun]
        simp only [Option.map_some, Option.some.injEq]
        rw [hv]; rfl

/-- the points strictly below the reference in every coordinate -/
def strictlyBelow (R : List ℚ) (p : List ℚ) : Bool := (List.range R.length).all (fun i => decide (p.getD i 0 < R.getD i 0))

theorem good_eq_strictlyBelow (data : List (List ℚ)) (R : List ℚ) (a : ℕ) :
    goodUpTo ([] :: data) R R.length a = strictlyBelow R (ptOf ([] :: data) a) := rfl

theorem count_good (data : List (List ℚ)) (R : List ℚ) :
    ((ids data.length).filter (goodUpTo ([] :: data) R R.length)).length = (data.filter (strictlyBelow R)).length := by
  conv_rhs => rw [← map_ptOf_ids data, List.filter_map, List.length_map]
  rfl

/-- **every dimension**: when at most one point lies strictly below the reference point, `fpli_hv` (`filter`, then
the cases `n == 0` / `n == 1`, l.1473-1480) returns the hypervolume -/
theorem fpliHv_le_one (data : List (List ℚ)) (R : List ℚ) (hd : 1 ≤ R.length)
    (h : (data.filter (strictlyBelow R)).length ≤ 1) : fpliHv data R = some (hvCells R data) := by
  unfold fpliHv
  rw [fpliHvSt_unfold]
  have hR := ready data R
  set res := filter ([] :: data) R R.length data.length (setupCdllist ([] :: data) R.length data.length) with hres
  obtain ⟨h0, h1⟩ := fpliHv_small data R hd hR
  have hc : res.1 ≤ 1 := by rw [hR.count, count_good]; exact h
  simp only
  by_cases hn0 : res.1 = 0
  · rw [if_pos hn0, h0 hn0]; rfl
  · rw [if_neg hn0]
    have hn1 : res.1 = 1 := by omega
    rw [if_pos hn1, h1 hn1]; rfl

end HvC
