/-
C10 — per-locus facts about the real-coded operators over `ℝ` (the substance of the property).
Helper lemmas; the property theorems are in `Props/C10.lean`.
-/
import DeapModel.Core.RealOps
import DeapModel.RealInst
import Mathlib.Analysis.SpecialFunctions.Pow.Real
import Mathlib.Analysis.SpecialFunctions.Exp
import Mathlib.Analysis.SpecialFunctions.Sqrt
import Mathlib.Tactic.Linarith
import Mathlib.Tactic.Positivity
import Mathlib.Tactic.Ring
import Mathlib.Tactic.FieldSimp

set_option linter.unusedSimpArgs false
set_option linter.unusedVariables false

namespace RealOps
open RealLike


/-! ### literals and Python `min` / `max` at `ℝ` -/
theorem one_real : (one : ℝ) = 1 := by simp only [one, real_ofNat, Nat.cast_one]
theorem two_real : (two : ℝ) = 2 := by simp only [two, real_ofNat, Nat.cast_ofNat]
theorem zero_real : (zero : ℝ) = 0 := by simp only [zero, real_ofNat, Nat.cast_zero]
theorem half_real : (half : ℝ) = 1 / 2 := by simp only [half, real_ofRatio, Int.cast_one, Nat.cast_ofNat]
theorem eps_real : (eps : ℝ) = 1 / 100000000000000 := by
  simp only [eps, real_ofRatio, Int.cast_one, Nat.cast_ofNat]
theorem eps_pos : (0 : ℝ) < eps := by rw [eps_real]; norm_num

/- `rsimp [defs]`: unfold the given model definitions at `ℝ` down to Mathlib's operations (`simp only` with the bridge lemmas of `RealInst.lean`) -/
open Lean.Parser.Tactic in
syntax "rsimp" " [" simpLemma,* "]" : tactic
macro_rules
  | `(tactic| rsimp [$ts,*]) => `(tactic| simp only [$ts,*, one_real, two_real, half_real, zero_real,
      real_add, real_sub, real_mul, real_div, real_neg, real_pow, real_exp, real_sqrt, real_abs, real_lt,
      real_le, real_ofNat])

theorem pmin_real (a b : ℝ) : pmin a b = min a b := by
  simp only [pmin, real_lt]
  split
  · next h => exact (min_eq_right h.le).symm
  · next h => exact (min_eq_left (not_lt.1 h)).symm

theorem pmax_real (a b : ℝ) : pmax a b = max a b := by
  simp only [pmax, real_lt]
  split
  · next h => exact (max_eq_right h.le).symm
  · next h => exact (max_eq_left (not_lt.1 h)).symm

theorem clamp_real (c xl xu : ℝ) : clamp c xl xu = min (max c xl) xu := by
  simp only [clamp, pmin_real, pmax_real]

/-- `min(max(c, xl), xu)` lies in `[xl, xu]` as soon as `xl ≤ xu`. -/
theorem clamp_mem (c : ℝ) {xl xu : ℝ} (h : xl ≤ xu) : xl ≤ clamp c xl xu ∧ clamp c xl xu ≤ xu := by
  rw [clamp_real]
  exact ⟨le_min (le_max_right _ _) h, min_le_right _ _⟩

/-- the clamp does nothing on a value that is already inside -/
theorem clamp_id {c xl xu : ℝ} (h1 : xl ≤ c) (h2 : c ≤ xu) : clamp c xl xu = c := by
  rw [clamp_real, max_eq_left h1, min_eq_left h2]

/-! ### blend -/

theorem blendGamma_mem {alpha r : ℝ} (ha : 0 ≤ alpha) (h0 : 0 ≤ r) (h1 : r < 1) :
    -alpha ≤ blendGamma alpha r ∧ blendGamma alpha r < 1 + alpha := by
  rsimp [blendGamma]
  constructor <;> nlinarith

theorem blendPair_sum (alpha x1 x2 r : ℝ) :
    (blendPair alpha x1 x2 r).1 + (blendPair alpha x1 x2 r).2 = x1 + x2 := by
  rsimp [blendPair]
  ring

/-- both blend children lie in the parental interval widened by `alpha * |x1 - x2|` on each side -/
theorem blendPair_range {alpha x1 x2 r : ℝ} (ha : 0 ≤ alpha) (h0 : 0 ≤ r) (h1 : r < 1) :
    (min x1 x2 - alpha * |x1 - x2| ≤ (blendPair alpha x1 x2 r).1 ∧
      (blendPair alpha x1 x2 r).1 ≤ max x1 x2 + alpha * |x1 - x2|) ∧
    (min x1 x2 - alpha * |x1 - x2| ≤ (blendPair alpha x1 x2 r).2 ∧
      (blendPair alpha x1 x2 r).2 ≤ max x1 x2 + alpha * |x1 - x2|) := by
  obtain ⟨g0, g1⟩ := blendGamma_mem ha h0 h1
  rsimp [blendPair]
  generalize blendGamma alpha r = g at g0 g1
  rcases le_total x1 x2 with h | h
  · rw [min_eq_left h, max_eq_right h, abs_of_nonpos (sub_nonpos.2 h)]
    refine ⟨⟨?_, ?_⟩, ?_, ?_⟩ <;> nlinarith
  · rw [min_eq_right h, max_eq_left h, abs_of_nonneg (sub_nonneg.2 h)]
    refine ⟨⟨?_, ?_⟩, ?_, ?_⟩ <;> nlinarith

/-! ### simulated binary crossover -/

theorem sbxPair_sum (eta x1 x2 rand : ℝ) :
    (sbxPair eta x1 x2 rand).1 + (sbxPair eta x1 x2 rand).2 = x1 + x2 := by
  rsimp [sbxPair]
  generalize sbxBeta eta rand = b
  ring

/-- every partial operation of `sbxBeta` is used inside its domain: the divisors `2(1 - rand)` and
`eta + 1` are non-zero and the base of the power is non-negative -/
theorem sbxBeta_welldefined {eta rand : ℝ} (he : 0 ≤ eta) (h0 : 0 ≤ rand) (h1 : rand < 1) :
    eta + 1 ≠ 0 ∧ 2 * (1 - rand) ≠ 0 ∧
    0 ≤ (if rand ≤ 1 / 2 then 2 * rand else 1 / (2 * (1 - rand))) := by
  refine ⟨by linarith, by intro h; linarith, ?_⟩
  split
  · linarith
  · apply div_nonneg <;> linarith

/-! ### bounded simulated binary crossover -/

/-- the guard `abs(x1 - x2) > 1e-14` makes `x2 - x1` (max minus min) strictly positive -/
theorem sbxb_guard {x1 x2 : ℝ} (h : eps < |x1 - x2|) : 0 < pmax x1 x2 - pmin x1 x2 := by
  have hp := eps_pos
  rw [pmax_real, pmin_real]
  rcases le_total x1 x2 with h' | h'
  · rw [max_eq_right h', min_eq_left h']
    rw [abs_of_nonpos (sub_nonpos.2 h')] at h; linarith
  · rw [max_eq_left h', min_eq_right h']
    rw [abs_of_nonneg (sub_nonneg.2 h')] at h; linarith

theorem pmin_pmax_mem {x1 x2 xl xu : ℝ} (h1 : xl ≤ x1 ∧ x1 ≤ xu) (h2 : xl ≤ x2 ∧ x2 ≤ xu) :
    xl ≤ pmin x1 x2 ∧ pmax x1 x2 ≤ xu := by
  rw [pmin_real, pmax_real]
  exact ⟨le_min h1.1 h2.1, max_le h1.2 h2.2⟩

theorem sbxbBeta_eq (d w : ℝ) : sbxbBeta d w = 1 + 2 * d / w := by
  rsimp [sbxbBeta]

theorem sbxbBeta_ge_one {d w : ℝ} (hd : 0 ≤ d) (hw : 0 < w) : 1 ≤ sbxbBeta d w := by
  rw [sbxbBeta_eq]
  have : 0 ≤ 2 * d / w := by positivity
  linarith

theorem sbxbBeta_mul {d w : ℝ} (hw : 0 < w) : sbxbBeta d w * w = w + 2 * d := by
  rw [sbxbBeta_eq]; field_simp

theorem sbxbAlpha_eq (eta beta : ℝ) : sbxbAlpha eta beta = 2 - beta ^ (-(eta + 1)) := by
  rsimp [sbxbAlpha]

/-- `beta ≥ 1`, `eta ≥ 0` ⇒ `alpha = 2 - beta^-(eta+1) ∈ [1, 2)` -/
theorem sbxbAlpha_mem {eta beta : ℝ} (he : 0 ≤ eta) (hb : 1 ≤ beta) :
    1 ≤ sbxbAlpha eta beta ∧ sbxbAlpha eta beta < 2 := by
  rw [sbxbAlpha_eq]
  have h1 : beta ^ (-(eta + 1)) ≤ 1 := Real.rpow_le_one_of_one_le_of_nonpos hb (by linarith)
  have h2 : 0 < beta ^ (-(eta + 1)) := Real.rpow_pos_of_pos (by linarith) _
  constructor <;> linarith

theorem sbxbBetaQ_eq (eta rand alpha : ℝ) : sbxbBetaQ eta rand alpha =
    if rand ≤ 1 / alpha then (rand * alpha) ^ (1 / (eta + 1)) else (1 / (2 - rand * alpha)) ^ (1 / (eta + 1)) := by
  rsimp [sbxbBetaQ]

/-- the quantities under the two powers of `beta_q` and the divisor `2 - rand*alpha` -/
theorem sbxbBetaQ_bases {rand alpha : ℝ} (ha : 1 ≤ alpha ∧ alpha < 2) (h0 : 0 ≤ rand) (h1 : rand < 1) :
    0 ≤ rand * alpha ∧ 0 < 2 - rand * alpha ∧ 0 < 1 / (2 - rand * alpha) := by
  have h3 : 0 ≤ rand * alpha := mul_nonneg h0 (by linarith)
  have h4 : 0 < 2 - rand * alpha := by nlinarith
  exact ⟨h3, h4, by positivity⟩

theorem sbxbBetaQ_nonneg {eta rand alpha : ℝ} (ha : 1 ≤ alpha ∧ alpha < 2) (h0 : 0 ≤ rand) (h1 : rand < 1) :
    0 ≤ sbxbBetaQ eta rand alpha := by
  obtain ⟨b1, b2, b3⟩ := sbxbBetaQ_bases ha h0 h1
  rw [sbxbBetaQ_eq]
  split
  · exact Real.rpow_nonneg b1 _
  · exact Real.rpow_nonneg b3.le _

/-- the key inequality of Deb's bounded SBX: `beta_q ≤ beta`, which is why the children cannot
leave the bounds even before the clamp -/
theorem sbxbBetaQ_le {eta rand beta : ℝ} (he : 0 ≤ eta) (hb : 1 ≤ beta) (h0 : 0 ≤ rand) (h1 : rand < 1) :
    sbxbBetaQ eta rand (sbxbAlpha eta beta) ≤ beta := by
  have ha := sbxbAlpha_mem he hb
  obtain ⟨b1, b2, b3⟩ := sbxbBetaQ_bases ha h0 h1
  have hp : 0 ≤ 1 / (eta + 1) := by positivity
  have hb0 : 0 ≤ beta := by linarith
  have hbe : 0 < beta ^ (eta + 1) := Real.rpow_pos_of_pos (by linarith) _
  rw [sbxbBetaQ_eq]
  split
  · next h =>
    have : rand * sbxbAlpha eta beta ≤ 1 := by
      have := (le_div_iff₀ (by linarith : (0 : ℝ) < sbxbAlpha eta beta)).1 h
      linarith
    exact (Real.rpow_le_one b1 this hp).trans hb
  · have key : 1 / (2 - rand * sbxbAlpha eta beta) ≤ beta ^ (eta + 1) := by
      rw [div_le_iff₀ b2]
      have hα : sbxbAlpha eta beta = 2 - (beta ^ (eta + 1))⁻¹ := by
        rw [sbxbAlpha_eq, Real.rpow_neg hb0]
      have hinv : beta ^ (eta + 1) * (beta ^ (eta + 1))⁻¹ = 1 := mul_inv_cancel₀ hbe.ne'
      have hle : rand * sbxbAlpha eta beta ≤ sbxbAlpha eta beta := by nlinarith [ha.1]
      have : 2 - rand * sbxbAlpha eta beta ≥ (beta ^ (eta + 1))⁻¹ := by rw [hα] at hle ⊢; linarith
      calc (1 : ℝ) = beta ^ (eta + 1) * (beta ^ (eta + 1))⁻¹ := hinv.symm
        _ ≤ beta ^ (eta + 1) * (2 - rand * sbxbAlpha eta beta) := by
            exact mul_le_mul_of_nonneg_left this hbe.le
    have hroot : (beta ^ (eta + 1)) ^ (1 / (eta + 1)) = beta := by
      rw [← Real.rpow_mul hb0, mul_one_div_cancel (by linarith : eta + 1 ≠ 0), Real.rpow_one]
    calc (1 / (2 - rand * sbxbAlpha eta beta)) ^ (1 / (eta + 1))
        ≤ (beta ^ (eta + 1)) ^ (1 / (eta + 1)) := Real.rpow_le_rpow b3.le key hp
      _ = beta := hroot

theorem sbxbRaw1_eq (eta x1 x2 xl rand : ℝ) : sbxbRaw1 eta x1 x2 xl rand =
    1 / 2 * (x1 + x2 - sbxbBetaQ eta rand (sbxbAlpha eta (sbxbBeta (x1 - xl) (x2 - x1))) * (x2 - x1)) := by
  rsimp [sbxbRaw1]

theorem sbxbRaw2_eq (eta x1 x2 xu rand : ℝ) : sbxbRaw2 eta x1 x2 xu rand =
    1 / 2 * (x1 + x2 + sbxbBetaQ eta rand (sbxbAlpha eta (sbxbBeta (xu - x2) (x2 - x1))) * (x2 - x1)) := by
  rsimp [sbxbRaw2]

/-- over the reals the first child is inside the bounds before the clamp -/
theorem sbxbRaw1_mem {eta x1 x2 xl xu rand : ℝ} (he : 0 ≤ eta) (hl : xl ≤ x1) (hw : x1 < x2) (hu : x2 ≤ xu)
    (h0 : 0 ≤ rand) (h1 : rand < 1) :
    xl ≤ sbxbRaw1 eta x1 x2 xl rand ∧ sbxbRaw1 eta x1 x2 xl rand ≤ xu := by
  have hw' : 0 < x2 - x1 := by linarith
  have hb := sbxbBeta_ge_one (sub_nonneg.2 hl) hw'
  have hq := sbxbBetaQ_le he hb h0 h1
  have hn := sbxbBetaQ_nonneg (eta := eta) (sbxbAlpha_mem he hb) h0 h1
  have hm := sbxbBeta_mul (d := x1 - xl) hw'
  rw [sbxbRaw1_eq]
  generalize sbxbBetaQ eta rand (sbxbAlpha eta (sbxbBeta (x1 - xl) (x2 - x1))) = q at hq hn
  generalize sbxbBeta (x1 - xl) (x2 - x1) = b at hq hm
  constructor <;> nlinarith

theorem sbxbRaw2_mem {eta x1 x2 xl xu rand : ℝ} (he : 0 ≤ eta) (hl : xl ≤ x1) (hw : x1 < x2) (hu : x2 ≤ xu)
    (h0 : 0 ≤ rand) (h1 : rand < 1) :
    xl ≤ sbxbRaw2 eta x1 x2 xu rand ∧ sbxbRaw2 eta x1 x2 xu rand ≤ xu := by
  have hw' : 0 < x2 - x1 := by linarith
  have hb := sbxbBeta_ge_one (sub_nonneg.2 hu) hw'
  have hq := sbxbBetaQ_le he hb h0 h1
  have hn := sbxbBetaQ_nonneg (eta := eta) (sbxbAlpha_mem he hb) h0 h1
  have hm := sbxbBeta_mul (d := xu - x2) hw'
  rw [sbxbRaw2_eq]
  generalize sbxbBetaQ eta rand (sbxbAlpha eta (sbxbBeta (xu - x2) (x2 - x1))) = q at hq hn
  generalize sbxbBeta (xu - x2) (x2 - x1) = b at hq hm
  constructor <;> nlinarith

theorem sbxbChildren_mem (eta x1 x2 : ℝ) {xl xu : ℝ} (rand : ℝ) (hord : xl ≤ xu) :
    (xl ≤ (sbxbChildren eta x1 x2 xl xu rand).1 ∧ (sbxbChildren eta x1 x2 xl xu rand).1 ≤ xu) ∧
    (xl ≤ (sbxbChildren eta x1 x2 xl xu rand).2 ∧ (sbxbChildren eta x1 x2 xl xu rand).2 ≤ xu) := by
  simp only [sbxbChildren]
  exact ⟨clamp_mem _ hord, clamp_mem _ hord⟩

/-- one locus of the bounded SBX: whatever the draws, genes inside `[xl, xu]` give genes inside -/
theorem sbxbGene_bounds {eta x1 x2 xl xu : ℝ} {rs rest : List ℝ} {y1 y2 : ℝ}
    (hord : xl ≤ xu) (h1 : xl ≤ x1 ∧ x1 ≤ xu) (h2 : xl ≤ x2 ∧ x2 ≤ xu)
    (h : sbxbGene eta x1 x2 xl xu rs = some (y1, y2, rest)) :
    (xl ≤ y1 ∧ y1 ≤ xu) ∧ (xl ≤ y2 ∧ y2 ≤ xu) := by
  have hc := sbxbChildren_mem eta (pmin x1 x2) (pmax x1 x2) (xl := xl) (xu := xu)
  simp only [sbxbGene] at h
  split at h
  · simp at h
  · split at h
    · split at h
      · split at h
        · simp at h
        · split at h
          · simp at h
          · split at h
            · simp at h; obtain ⟨rfl, rfl, _⟩ := h; exact ⟨(hc _ hord).2, (hc _ hord).1⟩
            · simp at h; obtain ⟨rfl, rfl, _⟩ := h; exact hc _ hord
      · simp at h; obtain ⟨rfl, rfl, _⟩ := h; exact ⟨h1, h2⟩
    · simp at h; obtain ⟨rfl, rfl, _⟩ := h; exact ⟨h1, h2⟩

/-! ### polynomial mutation -/

theorem polyDelta1_eq (x xl xu : ℝ) : polyDelta1 x xl xu = (x - xl) / (xu - xl) := by rsimp [polyDelta1]
theorem polyDelta2_eq (x xl xu : ℝ) : polyDelta2 x xl xu = (xu - x) / (xu - xl) := by rsimp [polyDelta2]

theorem polyDelta1_mem {x xl xu : ℝ} (hl : xl ≤ x) (hu : x ≤ xu) (hw : xl < xu) :
    0 ≤ polyDelta1 x xl xu ∧ polyDelta1 x xl xu ≤ 1 := by
  rw [polyDelta1_eq]
  have : 0 < xu - xl := by linarith
  exact ⟨div_nonneg (by linarith) this.le, (div_le_one this).2 (by linarith)⟩

theorem polyDelta2_mem {x xl xu : ℝ} (hl : xl ≤ x) (hu : x ≤ xu) (hw : xl < xu) :
    0 ≤ polyDelta2 x xl xu ∧ polyDelta2 x xl xu ≤ 1 := by
  rw [polyDelta2_eq]
  have : 0 < xu - xl := by linarith
  exact ⟨div_nonneg (by linarith) this.le, (div_le_one this).2 (by linarith)⟩

theorem polyValLow_eq (eta rand d : ℝ) :
    polyValLow eta rand d = 2 * rand + (1 - 2 * rand) * (1 - d) ^ (eta + 1) := by rsimp [polyValLow]
theorem polyValHigh_eq (eta rand d : ℝ) :
    polyValHigh eta rand d = 2 * (1 - rand) + 2 * (rand - 1 / 2) * (1 - d) ^ (eta + 1) := by rsimp [polyValHigh]

theorem pow_unit_mem {eta d : ℝ} (he : 0 ≤ eta) (hd : 0 ≤ d ∧ d ≤ 1) :
    0 ≤ (1 - d) ^ (eta + 1) ∧ (1 - d) ^ (eta + 1) ≤ 1 :=
  ⟨Real.rpow_nonneg (by linarith) _, Real.rpow_le_one (by linarith) (by linarith) (by linarith)⟩

/-- `val` of the `rand < 0.5` branch lies between `xy^(eta+1)` and 1 (so it is a legal power base) -/
theorem polyValLow_mem {eta rand d : ℝ} (he : 0 ≤ eta) (h0 : 0 ≤ rand) (h1 : rand < 1 / 2) (hd : 0 ≤ d ∧ d ≤ 1) :
    (1 - d) ^ (eta + 1) ≤ polyValLow eta rand d ∧ polyValLow eta rand d ≤ 1 := by
  obtain ⟨q0, q1⟩ := pow_unit_mem he hd
  rw [polyValLow_eq]
  generalize (1 - d) ^ (eta + 1) = q at q0 q1
  constructor <;> nlinarith

theorem polyValHigh_mem {eta rand d : ℝ} (he : 0 ≤ eta) (h0 : 1 / 2 ≤ rand) (h1 : rand < 1) (hd : 0 ≤ d ∧ d ≤ 1) :
    (1 - d) ^ (eta + 1) ≤ polyValHigh eta rand d ∧ polyValHigh eta rand d ≤ 1 := by
  obtain ⟨q0, q1⟩ := pow_unit_mem he hd
  rw [polyValHigh_eq]
  generalize (1 - d) ^ (eta + 1) = q at q0 q1
  constructor <;> nlinarith

/-- `(xy^(eta+1))^(1/(eta+1)) = xy` for a non-negative base -/
theorem root_pow {eta y : ℝ} (he : 0 ≤ eta) (hy : 0 ≤ y) : (y ^ (eta + 1)) ^ (1 / (eta + 1)) = y := by
  rw [← Real.rpow_mul hy, mul_one_div_cancel (by linarith : eta + 1 ≠ 0), Real.rpow_one]

theorem polyDeltaQ_eq (eta x xl xu rand : ℝ) : polyDeltaQ eta x xl xu rand =
    if rand < 1 / 2 then (polyValLow eta rand (polyDelta1 x xl xu)) ^ (1 / (eta + 1)) - 1
    else 1 - (polyValHigh eta rand (polyDelta2 x xl xu)) ^ (1 / (eta + 1)) := by
  rsimp [polyDeltaQ]

/-- `delta_q ∈ [-delta_1, delta_2]` -/
theorem polyDeltaQ_mem {eta x xl xu rand : ℝ} (he : 0 ≤ eta) (hl : xl ≤ x) (hu : x ≤ xu) (hw : xl < xu)
    (h0 : 0 ≤ rand) (h1 : rand < 1) :
    -polyDelta1 x xl xu ≤ polyDeltaQ eta x xl xu rand ∧ polyDeltaQ eta x xl xu rand ≤ polyDelta2 x xl xu := by
  have d1 := polyDelta1_mem hl hu hw
  have d2 := polyDelta2_mem hl hu hw
  have hp : 0 ≤ 1 / (eta + 1) := by positivity
  rw [polyDeltaQ_eq]
  split
  · next h =>
    obtain ⟨v0, v1⟩ := polyValLow_mem he h0 h d1
    have q0 := (pow_unit_mem he d1).1
    have lo : 1 - polyDelta1 x xl xu ≤ (polyValLow eta rand (polyDelta1 x xl xu)) ^ (1 / (eta + 1)) := by
      calc 1 - polyDelta1 x xl xu = ((1 - polyDelta1 x xl xu) ^ (eta + 1)) ^ (1 / (eta + 1)) :=
            (root_pow he (by linarith [d1.2])).symm
        _ ≤ _ := Real.rpow_le_rpow q0 v0 hp
    have hi : (polyValLow eta rand (polyDelta1 x xl xu)) ^ (1 / (eta + 1)) ≤ 1 :=
      Real.rpow_le_one (q0.trans v0) v1 hp
    constructor <;> linarith [d2.1]
  · next h =>
    obtain ⟨v0, v1⟩ := polyValHigh_mem he (not_lt.1 h) h1 d2
    have q0 := (pow_unit_mem he d2).1
    have lo : 1 - polyDelta2 x xl xu ≤ (polyValHigh eta rand (polyDelta2 x xl xu)) ^ (1 / (eta + 1)) := by
      calc 1 - polyDelta2 x xl xu = ((1 - polyDelta2 x xl xu) ^ (eta + 1)) ^ (1 / (eta + 1)) :=
            (root_pow he (by linarith [d2.2])).symm
        _ ≤ _ := Real.rpow_le_rpow q0 v0 hp
    have hi : (polyValHigh eta rand (polyDelta2 x xl xu)) ^ (1 / (eta + 1)) ≤ 1 :=
      Real.rpow_le_one (q0.trans v0) v1 hp
    constructor <;> linarith [d1.1]

theorem polyRaw_eq (eta x xl xu rand : ℝ) :
    polyRaw eta x xl xu rand = x + polyDeltaQ eta x xl xu rand * (xu - xl) := by rsimp [polyRaw]

/-- over the reals the mutant is inside the bounds before the clamp -/
theorem polyRaw_mem {eta x xl xu rand : ℝ} (he : 0 ≤ eta) (hl : xl ≤ x) (hu : x ≤ xu) (hw : xl < xu)
    (h0 : 0 ≤ rand) (h1 : rand < 1) :
    xl ≤ polyRaw eta x xl xu rand ∧ polyRaw eta x xl xu rand ≤ xu := by
  obtain ⟨q0, q1⟩ := polyDeltaQ_mem he hl hu hw h0 h1
  have hw' : 0 < xu - xl := by linarith
  have e1 : polyDelta1 x xl xu * (xu - xl) = x - xl := by rw [polyDelta1_eq]; field_simp
  have e2 : polyDelta2 x xl xu * (xu - xl) = xu - x := by rw [polyDelta2_eq]; field_simp
  rw [polyRaw_eq]
  generalize polyDeltaQ eta x xl xu rand = q at q0 q1
  generalize polyDelta1 x xl xu = a at q0 e1
  generalize polyDelta2 x xl xu = b at q1 e2
  constructor <;> nlinarith

/-! ### log-normal ES mutation -/

theorem lognSigma_eq (s t0n t z : ℝ) : lognSigma s t0n t z = s * Real.exp (t0n + t * z) := by
  rsimp [lognSigma]

theorem lognSigma_pos {s : ℝ} (hs : 0 < s) (t0n t z : ℝ) : 0 < lognSigma s t0n t z := by
  rw [lognSigma_eq]; exact mul_pos hs (Real.exp_pos _)

/-- the two divisors of `t` and `t0` are positive for a non-empty individual -/
theorem logn_divisors {size : Nat} (h : 0 < size) :
    0 < Real.sqrt (2 * Real.sqrt (size : ℝ)) ∧ 0 < Real.sqrt (2 * (size : ℝ)) := by
  have hs : (0 : ℝ) < size := by exact_mod_cast h
  have h1 : 0 < Real.sqrt (size : ℝ) := Real.sqrt_pos.2 hs
  exact ⟨Real.sqrt_pos.2 (by positivity), Real.sqrt_pos.2 (by positivity)⟩

end RealOps
