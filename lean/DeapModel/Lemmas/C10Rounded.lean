/-
C10 — lemmas for the rounded semantics (`Core/RoundedOps.lean`): interval facts for any lawful
arithmetic, the clamp, and the NaN analysis of bounded SBX and bounded polynomial mutation.
The property theorems are in `Props/C10.lean`.
-/
import DeapModel.Core.RoundedOps
import DeapModel.Core.RealOps
import DeapModel.Lemmas.C10Lists
import Mathlib.Tactic.Linarith
import Mathlib.Tactic.NormNum
import Mathlib.Tactic.Positivity
import Mathlib.Algebra.Order.Field.Basic
import Mathlib.Algebra.Order.Field.Rat
import Mathlib.Algebra.Order.Floor.Ring
import Mathlib.Data.Rat.Floor

set_option linter.unusedSimpArgs false
set_option linter.unusedVariables false
set_option linter.unusedTactic false
set_option linter.unreachableTactic false
set_option linter.unnecessarySeqFocus false

namespace RoundedOps
open XF RealOps

/-- a finite value inside the rational interval `[lo, hi]` -/
def FinIn (x : XF) (lo hi : Rat) : Prop := ∃ q, x = fin q ∧ lo ≤ q ∧ q ≤ hi
/-- `+inf` or a finite value `≥ 0` (in particular not `nan`) -/
def NNeg (x : XF) : Prop := x = pinf ∨ ∃ q, x = fin q ∧ 0 ≤ q

theorem FinIn.nneg {x : XF} {lo hi : Rat} (h : FinIn x lo hi) (h0 : 0 ≤ lo) : NNeg x := by
  obtain ⟨q, rfl, h1, _⟩ := h
  exact Or.inr ⟨q, rfl, h0.trans h1⟩

theorem FinIn.mono {x : XF} {lo hi lo' hi' : Rat} (h : FinIn x lo hi) (h1 : lo' ≤ lo) (h2 : hi ≤ hi') :
    FinIn x lo' hi' := by
  obtain ⟨q, rfl, a, b⟩ := h
  exact ⟨q, rfl, h1.trans a, b.trans h2⟩

theorem NNeg.ne_nan {x : XF} (h : NNeg x) : x ≠ nan := by
  rcases h with rfl | ⟨q, rfl, _⟩ <;> simp

theorem FinIn.ne_nan {x : XF} {lo hi : Rat} (h : FinIn x lo hi) : x ≠ nan := by
  obtain ⟨q, rfl, _⟩ := h; simp

/-! ### order of `XF` -/
@[simp] theorem le_fin_fin (a b : Rat) : XF.le (fin a) (fin b) = true ↔ a ≤ b := by simp [XF.le]
@[simp] theorem lt_fin_fin (a b : Rat) : XF.lt (fin a) (fin b) = true ↔ a < b := by simp [XF.lt]

variable {A : Arith}

/-! ### rounding -/

/-- an exact result between two representable numbers is rounded to a finite number between them -/
theorem rnd_in (hA : A.Lawful) {L H q : Rat} (hL : A.rep L = true) (hH : A.rep H = true)
    (h1 : L ≤ q) (h2 : q ≤ H) : FinIn (A.rnd q) L H := by
  have m1 := hA.rnd_mono L q h1
  have m2 := hA.rnd_mono q H h2
  rw [hA.rnd_exact L hL] at m1
  rw [hA.rnd_exact H hH] at m2
  have nn := hA.rnd_not_nan q
  cases hq : A.rnd q with
  | fin r => rw [hq] at m1 m2; exact ⟨r, rfl, by simpa using m1, by simpa using m2⟩
  | pinf => rw [hq] at m2; simp [XF.le] at m2
  | ninf => rw [hq] at m1; simp [XF.le] at m1
  | nan => exact absurd hq nn

/-- a non-negative exact result is rounded to a non-negative number or `+inf` -/
theorem rnd_nneg (hA : A.Lawful) {q : Rat} (h : 0 ≤ q) : NNeg (A.rnd q) := by
  have m1 := hA.rnd_mono 0 q h
  rw [hA.rnd_exact 0 hA.rep_zero] at m1
  have nn := hA.rnd_not_nan q
  cases hq : A.rnd q with
  | fin r => rw [hq] at m1; exact Or.inr ⟨r, rfl, by simpa using m1⟩
  | pinf => exact Or.inl rfl
  | ninf => rw [hq] at m1; simp [XF.le] at m1
  | nan => exact absurd hq nn

/-- an exact result at least the representable `L` is rounded to a finite number `≥ L` or to `+inf` -/
theorem rnd_ge (hA : A.Lawful) {L q : Rat} (hL : A.rep L = true) (h : L ≤ q) :
    A.rnd q = pinf ∨ ∃ r, A.rnd q = fin r ∧ L ≤ r := by
  have m1 := hA.rnd_mono L q h
  rw [hA.rnd_exact L hL] at m1
  have nn := hA.rnd_not_nan q
  cases hq : A.rnd q with
  | fin r => rw [hq] at m1; exact Or.inr ⟨r, rfl, by simpa using m1⟩
  | pinf => exact Or.inl rfl
  | ninf => rw [hq] at m1; simp [XF.le] at m1
  | nan => exact absurd hq nn

/-- rounding keeps the order of two exact results when both roundings are finite -/
theorem rnd_le_of_le (hA : A.Lawful) {q q' r r' : Rat} (h : q ≤ q') (e : A.rnd q = fin r) (e' : A.rnd q' = fin r') :
    r ≤ r' := by
  have := hA.rnd_mono q q' h
  rw [e, e'] at this
  simpa using this

/-! ### the operations on finite operands -/
theorem add_fin (a b : Rat) : A.add (fin a) (fin b) = A.rnd (a + b) := rfl
theorem sub_fin (a b : Rat) : A.sub (fin a) (fin b) = A.rnd (a - b) := by
  simp only [Arith.sub, XF.neg, Arith.add, sub_eq_add_neg]
theorem mul_fin (a b : Rat) : A.mul (fin a) (fin b) = A.rnd (a * b) := rfl
theorem div_fin (a : Rat) {b : Rat} (h : b ≠ 0) : A.div (fin a) (fin b) = A.rnd (a / b) := by
  simp only [Arith.div, h, if_false]

theorem add_FinIn (hA : A.Lawful) {x y : XF} {a b c d L H : Rat} (hx : FinIn x a b) (hy : FinIn y c d)
    (hL : A.rep L = true) (hH : A.rep H = true) (h1 : L ≤ a + c) (h2 : b + d ≤ H) : FinIn (A.add x y) L H := by
  obtain ⟨p, rfl, p1, p2⟩ := hx
  obtain ⟨q, rfl, q1, q2⟩ := hy
  rw [add_fin]
  exact rnd_in hA hL hH (by linarith) (by linarith)

theorem sub_FinIn (hA : A.Lawful) {x y : XF} {a b c d L H : Rat} (hx : FinIn x a b) (hy : FinIn y c d)
    (hL : A.rep L = true) (hH : A.rep H = true) (h1 : L ≤ a - d) (h2 : b - c ≤ H) : FinIn (A.sub x y) L H := by
  obtain ⟨p, rfl, p1, p2⟩ := hx
  obtain ⟨q, rfl, q1, q2⟩ := hy
  rw [sub_fin]
  exact rnd_in hA hL hH (by linarith) (by linarith)

/-- product of two finite non-negative values -/
theorem mul_FinIn (hA : A.Lawful) {x y : XF} {a b c d H : Rat} (hx : FinIn x a b) (hy : FinIn y c d)
    (ha : 0 ≤ a) (hc : 0 ≤ c) (hH : A.rep H = true) (h2 : b * d ≤ H) : FinIn (A.mul x y) 0 H := by
  obtain ⟨p, rfl, p1, p2⟩ := hx
  obtain ⟨q, rfl, q1, q2⟩ := hy
  rw [mul_fin]
  refine rnd_in hA hA.rep_zero hH (mul_nonneg (ha.trans p1) (hc.trans q1)) ?_
  exact (mul_le_mul p2 q2 (hc.trans q1) ((ha.trans p1).trans p2)).trans h2

/-- quotient of a finite non-negative value by a finite positive value -/
theorem div_FinIn (hA : A.Lawful) {x y : XF} {a b c d H : Rat} (hx : FinIn x a b) (hy : FinIn y c d)
    (ha : 0 ≤ a) (hc : 0 < c) (hH : A.rep H = true) (h2 : b / c ≤ H) : FinIn (A.div x y) 0 H := by
  obtain ⟨p, rfl, p1, p2⟩ := hx
  obtain ⟨q, rfl, q1, q2⟩ := hy
  have hq : 0 < q := hc.trans_le q1
  rw [div_fin _ (ne_of_gt hq)]
  refine rnd_in hA hA.rep_zero hH (div_nonneg (ha.trans p1) hq.le) ?_
  exact (div_le_div₀ ((ha.trans p1).trans p2) p2 hc q1).trans h2

/-- product of two non-negative values of which the second is finite: never `nan` unless `inf * 0` -/
theorem mul_NNeg_fin (hA : A.Lawful) {x y : XF} {c d : Rat} (hx : NNeg x) (hy : FinIn y c d) (hc : 0 < c) :
    NNeg (A.mul x y) := by
  obtain ⟨q, rfl, q1, q2⟩ := hy
  have hq : 0 < q := hc.trans_le q1
  rcases hx with rfl | ⟨p, rfl, hp⟩
  · left; simp only [Arith.mul, ne_of_gt hq, hq, if_false, if_true]
  · rw [mul_fin]; exact rnd_nneg hA (mul_nonneg hp hq.le)

/-- quotient of a non-negative value by a finite positive value -/
theorem div_NNeg_fin (hA : A.Lawful) {x y : XF} {c d : Rat} (hx : NNeg x) (hy : FinIn y c d) (hc : 0 < c) :
    NNeg (A.div x y) := by
  obtain ⟨q, rfl, q1, q2⟩ := hy
  have hq : 0 < q := hc.trans_le q1
  rcases hx with rfl | ⟨p, rfl, hp⟩
  · left; simp only [Arith.div, ne_of_gt hq, hq, if_false, if_true]
  · rw [div_fin _ (ne_of_gt hq)]; exact rnd_nneg hA (div_nonneg hp hq.le)

/-- `+inf` or a finite value `≥ 1` -/
def GeOne (x : XF) : Prop := x = pinf ∨ ∃ q, x = fin q ∧ 1 ≤ q

theorem one_add_NNeg (hA : A.Lawful) {x : XF} (hx : NNeg x) : GeOne (A.add (fin 1) x) := by
  rcases hx with rfl | ⟨p, rfl, hp⟩
  · left; rfl
  · rw [add_fin]
    exact rnd_ge hA hA.rep_one (by linarith)

/-! ### the power -/
theorem xle_trans {a b c : XF} (h1 : XF.le a b = true) (h2 : XF.le b c = true) : XF.le a c = true := by
  cases a <;> cases b <;> cases c <;> simp_all [XF.le]
  exact le_trans h1 h2

theorem between_fin {r : XF} {a b : Rat} (h1 : XF.le (fin a) r = true) (h2 : XF.le r (fin b) = true) :
    FinIn r a b := by
  cases r with
  | fin q => exact ⟨q, rfl, by simpa using h1, by simpa using h2⟩
  | pinf => simp [XF.le] at h2
  | ninf => simp [XF.le] at h1
  | nan => simp [XF.le] at h1

theorem powPy_of_FinIn {a b : XF} {lo hi : Rat} (h : FinIn (A.pow a b) lo hi) : FinIn (A.powPy a b) lo hi := by
  obtain ⟨r, hr, h1, h2⟩ := h
  refine ⟨r, ?_, h1, h2⟩
  unfold Arith.powPy
  rw [hr]
  cases a <;> cases b <;> rfl

/-- a non-negative base under a non-negative exponent: the power is not `nan` and not negative -/
theorem pow_nonneg_of (hA : A.Lawful) {x y : XF} (hx : XF.le (fin 0) x = true) (hy : XF.le (fin 0) y = true) :
    XF.le (fin 0) (A.pow x y) = true := by
  rcases hA.pow_sign x y hx with h | h
  · rcases hA.pow_nan x y h with rfl | rfl | h' | ⟨rfl, h'⟩
    · simp [XF.le] at hx
    · simp [XF.le] at hy
    · cases x <;> simp_all [XF.le, XF.lt]
      exact absurd hx (not_le.2 h')
    · cases y <;> simp_all [XF.le, XF.lt]
      exact absurd hy (not_le.2 h')
  · exact h

/-- a positive base: the power is not `nan` and not negative, whatever the (non-`nan`) exponent -/
theorem pow_nonneg_of_pos (hA : A.Lawful) {x y : XF} (hx : XF.lt (fin 0) x = true) (hy : y ≠ nan) :
    XF.le (fin 0) (A.pow x y) = true := by
  have hx' : XF.le (fin 0) x = true := by cases x <;> simp_all [XF.le, XF.lt]; exact le_of_lt hx
  rcases hA.pow_sign x y hx' with h | h
  · rcases hA.pow_nan x y h with rfl | rfl | h' | ⟨rfl, h'⟩
    · simp [XF.lt] at hx
    · exact absurd rfl hy
    · cases x <;> simp_all [XF.le, XF.lt]
      exact absurd hx (not_lt.2 (le_of_lt h'))
    · simp [XF.lt] at hx
  · exact h

/-- base in `[0, 1]`, exponent `≥ 0`: the power is a finite number in `[0, 1]` -/
theorem pow_unit (hA : A.Lawful) {x y : XF} {c d : Rat} (hx : FinIn x 0 1) (hy : FinIn y c d) (hc : 0 ≤ c) :
    FinIn (A.powPy x y) 0 1 := by
  obtain ⟨p, rfl, p1, p2⟩ := hx
  obtain ⟨q, rfl, q1, q2⟩ := hy
  have h0 : XF.le (fin 0) (fin p) = true := by simpa using p1
  have hy0 : XF.le (fin 0) (fin q) = true := by simpa using hc.trans q1
  apply powPy_of_FinIn
  apply between_fin (pow_nonneg_of hA h0 hy0)
  have := hA.pow_mono_base (fin p) (fin 1) (fin q) h0 (by simpa using p2) hy0
  rwa [hA.pow_one_base (fin q) (by simp)] at this

/-- base `≥ 1` (possibly `+inf`), exponent `≤ -1`: the power is a finite number in `[0, 1]` -/
theorem pow_recip (hA : A.Lawful) {x : XF} {e : Rat} (hx : GeOne x) (he : 0 ≤ e) :
    FinIn (A.powPy x (fin (-e))) 0 1 := by
  have hx1 : XF.le (fin 1) x = true := by
    rcases hx with rfl | ⟨p, rfl, hp⟩
    · rfl
    · simpa using hp
  have hx0 : XF.lt (fin 0) x = true := by
    rcases hx with rfl | ⟨p, rfl, hp⟩
    · rfl
    · simp; linarith
  apply powPy_of_FinIn
  apply between_fin (pow_nonneg_of_pos hA hx0 (by simp))
  have := hA.pow_anti_base (fin 1) x (fin (-e)) (by simp) hx1 (by simp; linarith)
  rwa [hA.pow_one_base (fin (-e)) (by simp)] at this

/-- base in `[0, C]` with `C ≥ 1` representable, exponent in `[0, 1]`: the power is a finite number in `[0, C]` -/
theorem pow_cap (hA : A.Lawful) {x y : XF} {C : Rat} (hx : FinIn x 0 C) (hy : FinIn y 0 1)
    (hC : A.rep C = true) (h1 : 1 ≤ C) : FinIn (A.powPy x y) 0 C := by
  obtain ⟨p, rfl, p1, p2⟩ := hx
  obtain ⟨q, rfl, q1, q2⟩ := hy
  have h0 : XF.le (fin 0) (fin p) = true := by simpa using p1
  have hy0 : XF.le (fin 0) (fin q) = true := by simpa using q1
  apply powPy_of_FinIn
  apply between_fin (pow_nonneg_of hA h0 hy0)
  have m1 := hA.pow_mono_base (fin p) (fin C) (fin q) h0 (by simpa using p2) hy0
  have m2 := hA.pow_mono_exp (fin C) (fin q) (fin 1) (by simpa using h1) (by simpa using q2)
  rw [hA.pow_one_exp C hC (by linarith)] at m2
  exact xle_trans m1 m2

/-! ### the `RealLike` operations of `XFA A` are those of `A` (all by `rfl`) -/
section bridge
variable (A)
theorem xf_add (a b : XFA A) : @HAdd.hAdd (XFA A) (XFA A) (XFA A) (@instHAdd (XFA A) RealLike.toAdd) a b = ⟨A.add a.val b.val⟩ := rfl
theorem xf_sub (a b : XFA A) : @HSub.hSub (XFA A) (XFA A) (XFA A) (@instHSub (XFA A) RealLike.toSub) a b = ⟨A.sub a.val b.val⟩ := rfl
theorem xf_mul (a b : XFA A) : @HMul.hMul (XFA A) (XFA A) (XFA A) (@instHMul (XFA A) RealLike.toMul) a b = ⟨A.mul a.val b.val⟩ := rfl
theorem xf_div (a b : XFA A) : @HDiv.hDiv (XFA A) (XFA A) (XFA A) (@instHDiv (XFA A) RealLike.toDiv) a b = ⟨A.div a.val b.val⟩ := rfl
theorem xf_neg (a : XFA A) : @Neg.neg (XFA A) RealLike.toNeg a = ⟨XF.neg a.val⟩ := rfl
theorem xf_lt (a b : XFA A) : @LT.lt (XFA A) RealLike.toLT a b ↔ XF.lt a.val b.val = true := Iff.rfl
theorem xf_le (a b : XFA A) : @LE.le (XFA A) RealLike.toLE a b ↔ XF.le a.val b.val = true := Iff.rfl
theorem xf_pow (a b : XFA A) : (RealLike.pow a b : XFA A) = ⟨A.powPy a.val b.val⟩ := rfl
theorem xf_abs (a : XFA A) : (RealLike.abs a : XFA A) = ⟨XF.abs a.val⟩ := rfl
theorem xf_one : (one : XFA A) = ⟨fin 1⟩ := by
  show (⟨fin ((1 : Nat) : Rat)⟩ : XFA A) = ⟨fin 1⟩
  norm_num
theorem xf_two : (two : XFA A) = ⟨fin 2⟩ := by
  show (⟨fin ((2 : Nat) : Rat)⟩ : XFA A) = ⟨fin 2⟩
  norm_num
theorem xf_zero : (zero : XFA A) = ⟨fin 0⟩ := by
  show (⟨fin ((0 : Nat) : Rat)⟩ : XFA A) = ⟨fin 0⟩
  norm_num
variable {A}
theorem xf_half (hA : A.Lawful) : (half : XFA A) = ⟨fin (1 / 2)⟩ := by
  show (⟨A.rnd (((1 : Int) : Rat) / ((2 : Nat) : Rat))⟩ : XFA A) = ⟨fin (1 / 2)⟩
  have : (((1 : Int) : Rat) / ((2 : Nat) : Rat)) = 1 / 2 := by norm_num
  rw [this, hA.rnd_exact _ hA.rep_half]
theorem xf_eps (hA : A.Lawful) : (eps : XFA A) = ⟨fin A.eps⟩ := by
  show (⟨A.rnd (((1 : Int) : Rat) / ((100000000000000 : Nat) : Rat))⟩ : XFA A) = ⟨fin A.eps⟩
  have : (((1 : Int) : Rat) / ((100000000000000 : Nat) : Rat)) = 1 / 100000000000000 := by norm_num
  rw [this, hA.eps_lit]
end bridge

/-- `pmin` / `pmax` / `clamp` of the model at `XFA A` are the ones of `XF` -/
theorem xf_pmin (a b : XFA A) : RealLike.pmin a b = ⟨XF.pmin a.val b.val⟩ := by
  simp only [RealLike.pmin, XF.pmin, xf_lt]
  split <;> rfl
theorem xf_pmax (a b : XFA A) : RealLike.pmax a b = ⟨XF.pmax a.val b.val⟩ := by
  simp only [RealLike.pmax, XF.pmax, xf_lt]
  split <;> rfl
theorem xf_clamp (c xl xu : XFA A) : RealOps.clamp c xl xu = ⟨XF.clamp c.val xl.val xu.val⟩ := by
  simp only [RealOps.clamp, XF.clamp, xf_pmin, xf_pmax]

/-! ### the clamp -/

/-- `min(max(c, xl), xu)` with finite `xl ≤ xu` puts every value that is not `nan` — finite or infinite,
whatever rounding produced it — inside `[xl, xu]` -/
theorem clamp_in {c : XF} {xl xu : Rat} (h : xl ≤ xu) (hc : c ≠ nan) : FinIn (XF.clamp c (fin xl) (fin xu)) xl xu := by
  cases c with
  | nan => exact absurd rfl hc
  | pinf => exact ⟨xu, by simp [XF.clamp, XF.pmin, XF.pmax, XF.lt], h, le_refl _⟩
  | ninf =>
    refine ⟨xl, ?_, le_refl _, h⟩
    simp [XF.clamp, XF.pmin, XF.pmax, XF.lt, not_lt.2 h]
  | fin q =>
    simp only [XF.clamp, XF.pmin, XF.pmax, XF.lt]
    by_cases h1 : q < xl
    · simp only [h1, decide_true, if_true, decide_eq_true_eq, not_lt.2 h, if_false]
      exact ⟨xl, rfl, le_refl _, h⟩
    · simp only [h1, decide_false, if_false, Bool.false_eq_true, decide_eq_true_eq]
      by_cases h2 : xu < q
      · simp only [h2, if_true]; exact ⟨xu, rfl, h, le_refl _⟩
      · simp only [h2, if_false]; exact ⟨q, rfl, not_lt.1 h1, not_lt.1 h2⟩

/-- the clamp does not sanitise `nan` -/
theorem clamp_nan' (xl xu : XF) : XF.clamp nan xl xu = nan := by
  cases xl <;> cases xu <;> simp [XF.clamp, XF.pmin, XF.pmax, XF.lt]

/-! ### bounded SBX under the rounded semantics -/

/- `xsimp [defs]`: unfold model definitions at `XFA A` down to the operations of `A` -/
open Lean.Parser.Tactic in
syntax "xsimp" " [" simpLemma,* "]" : tactic
macro_rules
  | `(tactic| xsimp [$ts,*]) => `(tactic| simp only [$ts,*, xf_add, xf_sub, xf_mul, xf_div, xf_neg, xf_pow,
      xf_abs, xf_le, xf_lt, xf_one, xf_two, xf_zero, xf_pmin, xf_pmax, xf_clamp])

theorem fin_FinIn (q : Rat) : FinIn (fin q) q q := ⟨q, rfl, le_refl _, le_refl _⟩

/-- `eta + 1` for a finite `eta ≥ 0` with `eta + 1 ≤ omega` is a finite number in `[1, omega]` -/
theorem eta_one (hA : A.Lawful) {e : Rat} (he0 : 0 ≤ e) (he1 : e + 1 ≤ A.omega) :
    FinIn (A.add (fin e) (fin 1)) 1 A.omega :=
  add_FinIn hA (fin_FinIn e) (fin_FinIn 1) hA.rep_one hA.rep_omega (by linarith) he1

/-- `1.0 / (eta + 1)` is a finite number in `[0, 1]` -/
theorem mut_pow (hA : A.Lawful) {x : XF} (hx : FinIn x 1 A.omega) : FinIn (A.div (fin 1) x) 0 1 :=
  div_FinIn hA (fin_FinIn 1) hx (by norm_num) (by norm_num) hA.rep_one (by norm_num)

/-- the spread factor `beta_q` of either child (:332-337 / :341-346): with `d = x1 - xl` (resp. `xu - x2`) finite
and `≥ 0`, `w = x2 - x1` finite and at least the guard, `eta ≥ 0`, `eta + 1` finite and the draw in `[0, top]`,
every intermediate value is defined (no `0/0`, `inf/inf`, zero divisor, negative base, overflowing power) and
`beta_q` is a finite number `≥ 0` -/
theorem sbxbBetaQ_ok (hA : A.Lawful) {d w : XF} {e r : Rat} (he0 : 0 ≤ e) (he1 : e + 1 ≤ A.omega)
    (hr0 : 0 ≤ r) (hr1 : r ≤ A.top) (hd : FinIn d 0 A.omega) (hw : FinIn w A.eps A.omega) :
    FinIn (sbxbBetaQ (⟨fin e⟩ : XFA A) ⟨fin r⟩ (sbxbAlpha ⟨fin e⟩ (sbxbBeta ⟨d⟩ ⟨w⟩))).val 0 A.omega := by
  have h2 : (0 : Rat) ≤ 2 := by norm_num
  have hΩ1 : (1 : Rat) ≤ A.omega := le_trans (by norm_num) hA.omega_ge
  have ht : NNeg (A.mul (fin 2) d) := by
    obtain ⟨p, rfl, p1, _⟩ := hd
    rw [mul_fin]; exact rnd_nneg hA (mul_nonneg h2 p1)
  have hq : NNeg (A.div (A.mul (fin 2) d) w) := div_NNeg_fin hA ht hw hA.eps_pos
  have hbeta : GeOne (A.add (fin 1) (A.div (A.mul (fin 2) d) w)) := one_add_NNeg hA hq
  obtain ⟨e', hee, e1, e2⟩ := eta_one hA he0 he1
  have hpw := pow_recip hA hbeta (le_trans (by norm_num) e1 : (0 : Rat) ≤ e')
  have halpha : FinIn (A.sub (fin 2) (A.powPy (A.add (fin 1) (A.div (A.mul (fin 2) d) w)) (fin (-e')))) 1 2 :=
    sub_FinIn hA (fin_FinIn 2) hpw hA.rep_one hA.rep_two (by norm_num) (by norm_num)
  have hme : FinIn (A.div (fin 1) (fin e')) 0 1 := mut_pow hA ⟨e', rfl, e1, e2⟩
  have hrand : FinIn (fin r) 0 A.top := ⟨r, rfl, hr0, hr1⟩
  xsimp [sbxbBetaQ, sbxbAlpha, sbxbBeta]
  rw [apply_ite XFA.val]
  split <;> (rw [hee]; simp only [XF.neg])
  · have hra := mul_FinIn hA hrand halpha (le_refl _) (by norm_num) hA.rep_two
      (by have := hA.top_lt; linarith)
    exact (pow_cap hA hra hme hA.rep_two (by norm_num)).mono (le_refl _) hA.omega_ge
  · have hra := mul_FinIn hA hrand halpha (le_refl _) (by norm_num) hA.rep_two_top (by linarith)
    have hg : 0 < 2 - 2 * A.top := by have := hA.top_lt; linarith
    have hdn := sub_FinIn hA (fin_FinIn 2) hra hA.rep_gap hA.rep_two (le_refl _) (by norm_num)
    have hiv := div_FinIn hA (fin_FinIn 1) hdn (by norm_num) hg hA.rep_omega hA.gap_inv
    exact pow_cap hA hiv hme hA.rep_omega hΩ1

theorem sub_ne_nan_of (hA : A.Lawful) {s p : XF} {lo hi : Rat} (hs : FinIn s lo hi) (hp : NNeg p) : A.sub s p ≠ nan := by
  obtain ⟨q, rfl, _, _⟩ := hs
  rcases hp with rfl | ⟨t, rfl, _⟩
  · simp [Arith.sub, XF.neg, Arith.add]
  · rw [sub_fin]; exact hA.rnd_not_nan _

theorem add_ne_nan_of (hA : A.Lawful) {s p : XF} {lo hi : Rat} (hs : FinIn s lo hi) (hp : p ≠ nan) : A.add s p ≠ nan := by
  obtain ⟨q, rfl, _, _⟩ := hs
  cases p with
  | fin t => rw [add_fin]; exact hA.rnd_not_nan _
  | pinf => simp [Arith.add]
  | ninf => simp [Arith.add]
  | nan => exact absurd rfl hp

theorem half_mul_ne_nan (hA : A.Lawful) {x : XF} (hx : x ≠ nan) : A.mul (fin (1 / 2)) x ≠ nan := by
  cases x with
  | fin t => rw [mul_fin]; exact hA.rnd_not_nan _
  | pinf => simp [Arith.mul]
  | ninf => simp [Arith.mul]
  | nan => exact absurd rfl hx

theorem mul_fin_ne_nan (hA : A.Lawful) {x y : XF} {a b c d : Rat} (hx : FinIn x a b) (hy : FinIn y c d) :
    A.mul x y ≠ nan := by
  obtain ⟨p, rfl, _, _⟩ := hx
  obtain ⟨q, rfl, _, _⟩ := hy
  rw [mul_fin]; exact hA.rnd_not_nan _

/-- the two children of one locus (:332-350) for ordered parents `a ≤ b` inside `[xl, xu]`, the difference
`b - a` as computed finite and at least the guard, the width `xu - xl` and the sum `a + b` finite: both
values before the clamp are defined (not `nan`), hence both children are finite numbers inside `[xl, xu]` -/
theorem sbxbChildren_ok (hA : A.Lawful) {e r a b xl xu : Rat} (he0 : 0 ≤ e) (he1 : e + 1 ≤ A.omega)
    (hr0 : 0 ≤ r) (hr1 : r ≤ A.top) (h1 : xl ≤ a) (hab : a ≤ b) (h2 : b ≤ xu) (hwd : xu - xl ≤ A.omega)
    (hs1 : -A.omega ≤ a + b) (hs2 : a + b ≤ A.omega) (hw : FinIn (A.sub (fin b) (fin a)) A.eps A.omega) :
    FinIn (sbxbChildren (⟨fin e⟩ : XFA A) ⟨fin a⟩ ⟨fin b⟩ ⟨fin xl⟩ ⟨fin xu⟩ ⟨fin r⟩).1.val xl xu ∧
    FinIn (sbxbChildren (⟨fin e⟩ : XFA A) ⟨fin a⟩ ⟨fin b⟩ ⟨fin xl⟩ ⟨fin xu⟩ ⟨fin r⟩).2.val xl xu := by
  have hlu : xl ≤ xu := h1.trans (hab.trans h2)
  have hs : FinIn (A.add (fin a) (fin b)) (-A.omega) A.omega :=
    add_FinIn hA (fin_FinIn a) (fin_FinIn b) hA.rep_neg_omega hA.rep_omega hs1 hs2
  have hd1 : FinIn (A.sub (fin a) (fin xl)) 0 A.omega :=
    sub_FinIn hA (fin_FinIn a) (fin_FinIn xl) hA.rep_zero hA.rep_omega (by linarith) (by linarith)
  have hd2 : FinIn (A.sub (fin xu) (fin b)) 0 A.omega :=
    sub_FinIn hA (fin_FinIn xu) (fin_FinIn b) hA.rep_zero hA.rep_omega (by linarith) (by linarith)
  have hb1 := sbxbBetaQ_ok hA he0 he1 hr0 hr1 hd1 hw
  have hb2 := sbxbBetaQ_ok hA he0 he1 hr0 hr1 hd2 hw
  have hp1 := mul_NNeg_fin hA (hb1.nneg (le_refl _)) hw hA.eps_pos
  have hp2 := mul_NNeg_fin hA (hb2.nneg (le_refl _)) hw hA.eps_pos
  constructor
  · xsimp [sbxbChildren, sbxbRaw1, xf_half hA]
    exact clamp_in hlu (half_mul_ne_nan hA (sub_ne_nan_of hA hs hp1))
  · xsimp [sbxbChildren, sbxbRaw2, xf_half hA]
    exact clamp_in hlu (half_mul_ne_nan hA (add_ne_nan_of hA hs hp2.ne_nan))

/-- the guard `abs(x1 - x2) > 1e-14` as the arithmetic evaluates it, for finite parents whose exact difference
is finite: the exact difference exceeds `eps` in absolute value -/
theorem guard_exact (hA : A.Lawful) {p q : Rat} (h1 : -A.omega ≤ p - q) (h2 : p - q ≤ A.omega)
    (hg : XF.lt (fin A.eps) (XF.abs (A.sub (fin p) (fin q))) = true) : A.eps < p - q ∨ p - q < -A.eps := by
  by_contra hcon
  simp only [not_or, not_lt] at hcon
  obtain ⟨t, ht, t1, t2⟩ := rnd_in hA hA.rep_neg_eps hA.rep_eps hcon.2 hcon.1
  rw [sub_fin, ht] at hg
  simp only [XF.abs, lt_fin_fin] at hg
  split at hg <;> linarith

theorem pmin_fin (p q : Rat) : XF.pmin (fin p) (fin q) = fin (min p q) := by
  simp only [XF.pmin, lt_fin_fin]
  split
  · next h => rw [min_eq_right h.le]
  · next h => rw [min_eq_left (not_lt.1 h)]

theorem pmax_fin (p q : Rat) : XF.pmax (fin p) (fin q) = fin (max p q) := by
  simp only [XF.pmax, lt_fin_fin]
  split
  · next h => rw [max_eq_right h.le]
  · next h => rw [max_eq_left (not_lt.1 h)]

/-- draws as bounded SBX needs them: finite, in `[0, top]` -/
def DrawsTop (A : Arith) (rs : List (XFA A)) : Prop := ∀ r ∈ rs, ∃ t : Rat, r = ⟨fin t⟩ ∧ 0 ≤ t ∧ t ≤ A.top
/-- draws of `random.random()`: finite, in `[0, 1)` -/
def DrawsUnit (A : Arith) (rs : List (XFA A)) : Prop := ∀ r ∈ rs, ∃ t : Rat, r = ⟨fin t⟩ ∧ 0 ≤ t ∧ t < 1

theorem sbxbMag_iff {M : Mag} {e a b xl xu : Rat} : sbxbMag M e a b xl xu = true ↔
    (0 ≤ e ∧ e + 1 ≤ M.omega) ∧ (xl ≤ a ∧ a ≤ xu) ∧ (xl ≤ b ∧ b ≤ xu) ∧ xu - xl ≤ M.omega ∧
    -M.omega ≤ a + b ∧ a + b ≤ M.omega := by
  simp only [sbxbMag, Bool.and_eq_true, decide_eq_true_eq]
  tauto

/-- one locus of `cxSimulatedBinaryBounded` (:324-357) under the rounded semantics: whatever the gate, guard
and swap decide, both genes that come out are finite numbers inside `[xl, xu]` -/
theorem sbxbGene_rounded (hA : A.Lawful) {e p q xl xu : Rat} {rs rest : List (XFA A)} {y1 y2 : XFA A}
    (hm : sbxbMag A.toMag e p q xl xu = true) (hr : DrawsTop A rs)
    (hrun : sbxbGene (⟨fin e⟩ : XFA A) ⟨fin p⟩ ⟨fin q⟩ ⟨fin xl⟩ ⟨fin xu⟩ rs = some (y1, y2, rest)) :
    FinIn y1.val xl xu ∧ FinIn y2.val xl xu := by
  obtain ⟨⟨he0, he1⟩, ⟨p1, p2⟩, ⟨q1, q2⟩, hwd, hs1, hs2⟩ := sbxbMag_iff.1 hm
  rcases sbxbGene_cases _ _ _ _ _ _ _ _ _ hrun with ⟨rfl, rfl⟩ | ⟨hguard, rand, hmem, hc⟩
  · exact ⟨⟨p, rfl, p1, p2⟩, ⟨q, rfl, q1, q2⟩⟩
  · obtain ⟨t, rfl, t0, t1⟩ := hr rand hmem
    rw [xf_eps hA] at hguard
    simp only [xf_sub, xf_abs, xf_lt] at hguard
    have hg := guard_exact hA (by linarith) (by linarith) hguard
    have hmm : RealLike.pmin (⟨fin p⟩ : XFA A) ⟨fin q⟩ = ⟨fin (min p q)⟩ := by rw [xf_pmin, pmin_fin]
    have hMM : RealLike.pmax (⟨fin p⟩ : XFA A) ⟨fin q⟩ = ⟨fin (max p q)⟩ := by rw [xf_pmax, pmax_fin]
    rw [hmm, hMM] at hc
    have hsum : min p q + max p q = p + q := min_add_max p q
    have hdiff : A.eps ≤ max p q - min p q := by
      rcases le_total p q with h | h
      · rw [max_eq_right h, min_eq_left h]; rcases hg with hg | hg <;> linarith
      · rw [max_eq_left h, min_eq_right h]; rcases hg with hg | hg <;> linarith
    have hw : FinIn (A.sub (fin (max p q)) (fin (min p q))) A.eps A.omega := by
      rw [sub_fin]
      refine rnd_in hA hA.rep_eps hA.rep_omega hdiff ?_
      have := le_min p1 q1; have := max_le p2 q2; linarith
    have hch := sbxbChildren_ok hA (r := t) (a := min p q) (b := max p q) (xl := xl) (xu := xu) he0 he1 t0 t1
      (le_min p1 q1) (min_le_max) (max_le p2 q2) hwd (by linarith) (by linarith) hw
    rcases hc with ⟨rfl, rfl⟩ | ⟨rfl, rfl⟩
    · exact hch
    · exact ⟨hch.2, hch.1⟩

/-! ### bounded polynomial mutation under the rounded semantics -/

theorem polyMag_iff {M : Mag} {e x xl xu : Rat} : polyMag M e x xl xu = true ↔
    (0 ≤ e ∧ e + 1 ≤ M.omega) ∧ (xl ≤ x ∧ x ≤ xu) ∧ M.eps ≤ xu - xl ∧ xu - xl ≤ M.omega := by
  simp only [polyMag, Bool.and_eq_true, decide_eq_true_eq]
  tauto

/-- `delta = (x - xl) / (xu - xl)` resp. `(xu - x) / (xu - xl)`: numerator finite with `0 ≤ n ≤ wd`, divisor
finite and positive: a finite number in `[0, 1]` -/
theorem delta_unit (hA : A.Lawful) {n wd : Rat} (h0 : 0 ≤ n) (h1 : n ≤ wd) (hw : 0 < wd) :
    FinIn (A.div (fin n) (fin wd)) 0 1 :=
  div_FinIn hA ⟨n, rfl, h0, h1⟩ (fin_FinIn wd) (le_refl _) hw hA.rep_one (by rw [div_self (ne_of_gt hw)])

/-- `val ** mut_pow` for `val` in `[0, 2]` -/
theorem val_pow (hA : A.Lawful) {v m : XF} (hv : FinIn v 0 2) (hm : FinIn m 0 1) : FinIn (A.powPy v m) 0 2 :=
  pow_cap hA hv hm hA.rep_two (by norm_num)

/-- one mutated locus of `mutPolynomialBounded` (:77-93) under the rounded semantics: every intermediate value
is defined and the gene that comes out is a finite number inside `[xl, xu]` -/
theorem polyGene_rounded (hA : A.Lawful) {e x xl xu t : Rat} (hm : polyMag A.toMag e x xl xu = true)
    (t0 : 0 ≤ t) (t1 : t < 1) :
    FinIn (polyGene (⟨fin e⟩ : XFA A) ⟨fin x⟩ ⟨fin xl⟩ ⟨fin xu⟩ ⟨fin t⟩).val xl xu := by
  obtain ⟨⟨he0, he1⟩, ⟨x1, x2⟩, hn, hwd⟩ := polyMag_iff.1 hm
  have hΩ := hA.omega_ge
  have hep := hA.eps_pos
  have hlu : xl ≤ xu := by linarith
  obtain ⟨wd, hwde, w1, w2⟩ : FinIn (A.sub (fin xu) (fin xl)) A.eps A.omega := by
    rw [sub_fin]; exact rnd_in hA hA.rep_eps hA.rep_omega hn hwd
  have hwpos : 0 < wd := lt_of_lt_of_le hep w1
  obtain ⟨n1, hn1e, n10, _⟩ : FinIn (A.sub (fin x) (fin xl)) 0 A.omega := by
    rw [sub_fin]; exact rnd_in hA hA.rep_zero hA.rep_omega (by linarith) (by linarith)
  obtain ⟨n2, hn2e, n20, _⟩ : FinIn (A.sub (fin xu) (fin x)) 0 A.omega := by
    rw [sub_fin]; exact rnd_in hA hA.rep_zero hA.rep_omega (by linarith) (by linarith)
  have n1w : n1 ≤ wd := by
    rw [sub_fin] at hn1e hwde
    exact rnd_le_of_le hA (by linarith) hn1e hwde
  have n2w : n2 ≤ wd := by
    rw [sub_fin] at hn2e hwde
    exact rnd_le_of_le hA (by linarith) hn2e hwde
  have hd1 := delta_unit hA n10 n1w hwpos
  have hd2 := delta_unit hA n20 n2w hwpos
  have hee := eta_one hA he0 he1
  have hmp := mut_pow hA hee
  have one11 := fin_FinIn (1 : Rat)
  have two22 := fin_FinIn (2 : Rat)
  have hdq : FinIn (polyDeltaQ (⟨fin e⟩ : XFA A) ⟨fin x⟩ ⟨fin xl⟩ ⟨fin xu⟩ ⟨fin t⟩).val (-A.omega) A.omega := by
    xsimp [polyDeltaQ, polyValLow, polyValHigh, polyDelta1, polyDelta2, xf_half hA]
    rw [apply_ite XFA.val]
    split
    · next hlt =>
      have hlt' : t < 1 / 2 := by simpa using hlt
      rw [hn1e, hwde]
      have hxy := sub_FinIn hA one11 hd1 hA.rep_zero hA.rep_one (by norm_num) (by norm_num)
      have hpw := pow_unit hA hxy hee (by norm_num)
      have htr := mul_FinIn hA two22 (fin_FinIn t) (by norm_num) t0 hA.rep_one (by linarith)
      have hom := sub_FinIn hA one11 htr hA.rep_zero hA.rep_one (by norm_num) (by norm_num)
      have hpr := mul_FinIn hA hom hpw (le_refl _) (le_refl _) hA.rep_one (by norm_num)
      have hval := add_FinIn hA htr hpr hA.rep_zero hA.rep_two (by norm_num) (by norm_num)
      have hvp := val_pow hA hval hmp
      exact sub_FinIn hA hvp one11 hA.rep_neg_omega hA.rep_omega (by linarith) (by linarith)
    · next hlt =>
      have hge : 1 / 2 ≤ t := by
        have : ¬ t < 1 / 2 := by simpa using hlt
        exact not_lt.1 this
      rw [hn2e, hwde]
      have hxy := sub_FinIn hA one11 hd2 hA.rep_zero hA.rep_one (by norm_num) (by norm_num)
      have hpw := pow_unit hA hxy hee (by norm_num)
      have homr := sub_FinIn hA one11 (fin_FinIn t) hA.rep_zero hA.rep_half (by linarith) (by linarith)
      have ha1 := mul_FinIn hA two22 homr (by norm_num) (le_refl _) hA.rep_one (by norm_num)
      have hrh := sub_FinIn hA (fin_FinIn t) (fin_FinIn (1 / 2 : Rat)) hA.rep_zero hA.rep_half (by linarith) (by linarith)
      have ha2 := mul_FinIn hA two22 hrh (by norm_num) (le_refl _) hA.rep_one (by norm_num)
      have ha3 := mul_FinIn hA ha2 hpw (le_refl _) (le_refl _) hA.rep_one (by norm_num)
      have hval := add_FinIn hA ha1 ha3 hA.rep_zero hA.rep_two (by norm_num) (by norm_num)
      have hvp := val_pow hA hval hmp
      exact sub_FinIn hA one11 hvp hA.rep_neg_omega hA.rep_omega (by linarith) (by linarith)
  xsimp [polyGene, polyRaw]
  rw [hwde]
  exact clamp_in hlu (add_ne_nan_of hA (fin_FinIn x) (mul_fin_ne_nan hA hdq (fin_FinIn wd)))

/-! ### when the width of the bounds overflows -/

theorem powPy_one_base (hA : A.Lawful) {y : XF} (hy : y ≠ nan) : A.powPy (fin 1) y = fin 1 := by
  obtain ⟨q, hq, q1, q2⟩ := powPy_of_FinIn (A := A) (a := fin 1) (b := y) (lo := 1) (hi := 1)
    ⟨1, hA.pow_one_base y hy, le_refl _, le_refl _⟩
  rw [hq, le_antisymm q2 q1]

theorem powPy_zero_one (hA : A.Lawful) : A.powPy (fin 0) (fin 1) = fin 0 := by
  obtain ⟨q, hq, q1, q2⟩ := powPy_of_FinIn (A := A) (a := fin 0) (b := fin 1) (lo := 0) (hi := 0)
    ⟨0, hA.pow_one_exp 0 hA.rep_zero (le_refl _), le_refl _, le_refl _⟩
  rw [hq, le_antisymm q2 q1]

/-- `mutPolynomialBounded` with a width `xu - xl` that overflows to `+inf`: a gene on the lower bound, crowding
degree `eta ≥ 0` and the draw `rand = 0` give `delta_q = 0` and `x + 0 * inf` — the gene becomes `nan`, and the
clamp keeps it -/
theorem polyGene_width_overflow (hA : A.Lawful) {e xl xu : Rat} (he0 : 0 ≤ e) (hov : A.rnd (xu - xl) = pinf) :
    (polyGene (⟨fin e⟩ : XFA A) ⟨fin xl⟩ ⟨fin xl⟩ ⟨fin xu⟩ ⟨fin 0⟩).val = nan := by
  have r0 : A.rnd 0 = fin 0 := hA.rnd_exact 0 hA.rep_zero
  have r1 : A.rnd 1 = fin 1 := hA.rnd_exact 1 hA.rep_one
  have hee : A.add (fin e) (fin 1) ≠ nan := by rw [add_fin]; exact hA.rnd_not_nan _
  have hmp : A.div (fin 1) (A.add (fin e) (fin 1)) ≠ nan := by
    rcases rnd_ge hA hA.rep_one (by linarith : (1 : Rat) ≤ e + 1) with h | ⟨r, h, hr⟩
    · rw [add_fin, h]; simp [Arith.div]
    · rw [add_fin, h, div_fin _ (by linarith : r ≠ 0)]; exact hA.rnd_not_nan _
  have hlt : XF.lt (fin 0) (fin (1 / 2)) = true := by simp
  have e1 : A.sub (fin xu) (fin xl) = pinf := by rw [sub_fin, hov]
  have e2 : A.sub (fin xl) (fin xl) = fin 0 := by rw [sub_fin, sub_self, r0]
  have e3 : A.div (fin 0) pinf = fin 0 := rfl
  have e4 : A.sub (fin 1) (fin 0) = fin 1 := by rw [sub_fin, sub_zero, r1]
  have e5 : A.mul (fin 2) (fin 0) = fin 0 := by rw [mul_fin, mul_zero, r0]
  have e6 : A.mul (fin 1) (fin 1) = fin 1 := by rw [mul_fin, mul_one, r1]
  have e7 : A.add (fin 0) (fin 1) = fin 1 := by rw [add_fin, zero_add, r1]
  have e8 : A.sub (fin 1) (fin 1) = fin 0 := by rw [sub_fin, sub_self, r0]
  have e9 : A.mul (fin 0) pinf = nan := by simp [Arith.mul]
  have e10 : A.add (fin xl) nan = nan := rfl
  xsimp [polyGene, polyRaw, polyDeltaQ, polyValLow, polyDelta1, xf_half hA]
  simp only [hlt, if_true, e1, e2, e3, e4, powPy_one_base hA hee, e5, e6, e7, powPy_one_base hA hmp, e8, e9, e10,
    clamp_nan']

/-- `cxSimulatedBinaryBounded` with parents on the two bounds and a width that overflows to `+inf`, `eta = 0`,
`rand = 0`: `beta_q = 0`, `beta_q * (x2 - x1) = 0 * inf` — both children are `nan`, and the clamp keeps them -/
theorem sbxbChildren_width_overflow (hA : A.Lawful) {xl xu : Rat} (hov : A.rnd (xu - xl) = pinf) :
    (sbxbChildren (⟨fin 0⟩ : XFA A) ⟨fin xl⟩ ⟨fin xu⟩ ⟨fin xl⟩ ⟨fin xu⟩ ⟨fin 0⟩).1.val = nan ∧
    (sbxbChildren (⟨fin 0⟩ : XFA A) ⟨fin xl⟩ ⟨fin xu⟩ ⟨fin xl⟩ ⟨fin xu⟩ ⟨fin 0⟩).2.val = nan := by
  have r0 : A.rnd 0 = fin 0 := hA.rnd_exact 0 hA.rep_zero
  have r1 : A.rnd 1 = fin 1 := hA.rnd_exact 1 hA.rep_one
  have hle : XF.le (fin 0) (fin 1) = true := by simp
  have e1 : A.sub (fin xu) (fin xl) = pinf := by rw [sub_fin, hov]
  have e2 : A.sub (fin xl) (fin xl) = fin 0 := by rw [sub_fin, sub_self, r0]
  have e2' : A.sub (fin xu) (fin xu) = fin 0 := by rw [sub_fin, sub_self, r0]
  have e3 : A.div (fin 0) pinf = fin 0 := rfl
  have e5 : A.mul (fin 2) (fin 0) = fin 0 := by rw [mul_fin, mul_zero, r0]
  have e6 : A.add (fin 1) (fin 0) = fin 1 := by rw [add_fin, add_zero, r1]
  have e7 : A.add (fin 0) (fin 1) = fin 1 := by rw [add_fin, zero_add, r1]
  have e8 : A.sub (fin 2) (fin 1) = fin 1 := by rw [sub_fin, (by norm_num : (2 : Rat) - 1 = 1), r1]
  have e9 : A.div (fin 1) (fin 1) = fin 1 := by rw [div_fin _ one_ne_zero, div_one, r1]
  have e10 : A.mul (fin 0) (fin 1) = fin 0 := by rw [mul_fin, zero_mul, r0]
  have e11 : A.mul (fin 0) pinf = nan := by simp [Arith.mul]
  have e12 : ∀ x, A.sub x nan = nan := by intro x; cases x <;> rfl
  have e13 : ∀ x, A.add x nan = nan := by intro x; cases x <;> rfl
  have e14 : A.mul (fin (1 / 2)) nan = nan := rfl
  have e15 : XF.neg (fin 1) = fin (-1) := rfl
  have p1 : A.powPy (fin 1) (fin (-1)) = fin 1 := powPy_one_base hA (by simp)
  constructor
  · xsimp [sbxbChildren, sbxbRaw1, sbxbBetaQ, sbxbAlpha, sbxbBeta, xf_half hA]
    simp only [e1, e2, e5, e3, e6, e7, e15, p1, e8, e9, hle, if_true, e10, powPy_zero_one hA, e11, e12, e14,
      clamp_nan']
  · xsimp [sbxbChildren, sbxbRaw2, sbxbBetaQ, sbxbAlpha, sbxbBeta, xf_half hA]
    simp only [e1, e2', e5, e3, e6, e7, e15, p1, e8, e9, hle, if_true, e10, powPy_zero_one hA, e11, e13, e14,
      clamp_nan']

/-! ### a lawful arithmetic exists (the hypothesis `A.Lawful` of every theorem is satisfiable) -/

/-- fixed-point toy format: multiples of `2^-60` up to `2^60`, rounding downwards, overflow to the infinities -/
def toyRnd (q : Rat) : XF :=
  if (2 : Rat) ^ 60 < q then pinf else if q < -(2 : Rat) ^ 60 then ninf
  else fin (((⌊q * 2 ^ 60⌋ : Int) : Rat) / 2 ^ 60)

def toyRep (q : Rat) : Bool :=
  decide (-(2 : Rat) ^ 60 ≤ q) && decide (q ≤ (2 : Rat) ^ 60) && decide (((⌊q * 2 ^ 60⌋ : Int) : Rat) = q * 2 ^ 60)

/-- a crude power with the order properties of the real one: `x ** y = x` for `y ≥ 1`, `1` otherwise -/
def toyPow (x y : XF) : XF :=
  if x = nan ∨ y = nan ∨ XF.lt x (fin 0) = true ∨ (x = fin 0 ∧ XF.lt y (fin 0) = true) then nan
  else if XF.le (fin 1) y = true then x else fin 1

/-- a crude exponential with the lower bounds of the real one: `1` for `0 ≤ x ≤ 41`, overflow beyond, and
`2^-k` with `k = ⌈-x / 0.693⌉` for `x < 0` as long as `2^-k` is a number of the format, `0` below -/
def toyExp : XF → XF
  | fin x =>
    if 41 < x then pinf else if 0 ≤ x then fin 1
    else if (⌈-x / ln2lo⌉).toNat ≤ 60 then fin (1 / 2 ^ (⌈-x / ln2lo⌉).toNat) else fin 0
  | pinf => pinf
  | ninf => fin 0
  | nan => nan

/-- a crude square root (one Heron step from 1, rounded): no theorem uses a law of `sqrt` -/
def toySqrt : XF → XF
  | fin q => if q < 0 then nan else toyRnd ((q + 1) / 2)
  | pinf => pinf
  | _ => nan

def toy : Arith where
  omega := 2 ^ 60
  eps := 11529 / 2 ^ 60
  top := 1 - 1 / 2 ^ 53
  tiny := 1 / 2 ^ 60
  kmax := 60
  expmax := 41
  rep := toyRep
  rnd := toyRnd
  pow := toyPow
  exp := toyExp
  sqrt := toySqrt

theorem toyRnd_mono (q q' : Rat) (h : q ≤ q') : XF.le (toyRnd q) (toyRnd q') = true := by
  unfold toyRnd
  by_cases h1 : (2 : Rat) ^ 60 < q
  · have : (2 : Rat) ^ 60 < q' := lt_of_lt_of_le h1 h
    simp [h1, this, XF.le]
  · by_cases h2 : q < -(2 : Rat) ^ 60
    · simp only [h1, h2, if_false, if_true]
      split
      · rfl
      · split <;> rfl
    · simp only [h1, h2, if_false]
      by_cases h3 : (2 : Rat) ^ 60 < q'
      · simp [h3, XF.le]
      · have h4 : ¬ q' < -(2 : Rat) ^ 60 := by
          intro h4; exact h2 (lt_of_le_of_lt h h4)
        simp only [h3, h4, if_false, le_fin_fin]
        apply div_le_div_of_nonneg_right _ (by positivity)
        exact_mod_cast Int.floor_le_floor (mul_le_mul_of_nonneg_right h (by positivity))

theorem toyRnd_exact (q : Rat) (h : toyRep q = true) : toyRnd q = fin q := by
  simp only [toyRep, Bool.and_eq_true, decide_eq_true_eq] at h
  obtain ⟨⟨h1, h2⟩, h3⟩ := h
  unfold toyRnd
  rw [if_neg (not_lt.2 h2), if_neg (not_lt.2 h1), h3]
  congr 1
  field_simp

theorem toy_lawful : toy.Lawful where
  rnd_not_nan q := by
    show toyRnd q ≠ nan
    unfold toyRnd; split
    · simp
    · split <;> simp
  rnd_mono := toyRnd_mono
  rnd_exact := toyRnd_exact
  rep_zero := by show toyRep 0 = true; simp [toyRep]
  rep_one := by show toyRep 1 = true; norm_num [toyRep]
  rep_two := by show toyRep 2 = true; norm_num [toyRep]
  rep_half := by show toyRep (1 / 2) = true; norm_num [toyRep]
  rep_omega := by show toyRep (2 ^ 60) = true; norm_num [toyRep]
  rep_neg_omega := by show toyRep (-2 ^ 60) = true; norm_num [toyRep]
  omega_ge := by show (2 : Rat) ≤ 2 ^ 60; norm_num
  eps_lit := by show toyRnd (1 / 100000000000000) = fin (11529 / 2 ^ 60); norm_num [toyRnd]
  rep_eps := by show toyRep (11529 / 2 ^ 60) = true; norm_num [toyRep]
  rep_neg_eps := by show toyRep (-(11529 / 2 ^ 60)) = true; norm_num [toyRep]
  eps_pos := by show (0 : Rat) < 11529 / 2 ^ 60; norm_num
  top_lt := by show (1 : Rat) - 1 / 2 ^ 53 < 1; norm_num
  rep_two_top := by show toyRep (2 * (1 - 1 / 2 ^ 53)) = true; norm_num [toyRep]
  rep_gap := by show toyRep (2 - 2 * (1 - 1 / 2 ^ 53)) = true; norm_num [toyRep]
  gap_inv := by show (1 : Rat) / (2 - 2 * (1 - 1 / 2 ^ 53)) ≤ 2 ^ 60; norm_num
  pow_nan x y h := by
    change toyPow x y = nan at h
    unfold toyPow at h
    split at h
    · assumption
    · split at h
      · next hc _ => exact absurd h (fun e => hc (Or.inl e))
      · simp at h
  pow_sign x y hx := by
    change toyPow x y = nan ∨ XF.le (fin 0) (toyPow x y) = true
    unfold toyPow
    split
    · left; rfl
    · right; split
      · exact hx
      · simp
  pow_one_base y hy := by
    change toyPow (fin 1) y = fin 1
    unfold toyPow
    rw [if_neg]
    · split <;> rfl
    · simp [hy, XF.lt]
  pow_one_exp q _ h0 := by
    change toyPow (fin q) (fin 1) = fin q
    unfold toyPow
    rw [if_neg, if_pos]
    · simp
    · simp [XF.lt, not_lt.2 h0]
  pow_mono_base a b y ha hab hy := by
    change XF.le (toyPow a y) (toyPow b y) = true
    have hb : XF.le (fin 0) b = true := xle_trans ha hab
    have ca : ¬ (a = nan ∨ y = nan ∨ XF.lt a (fin 0) = true ∨ (a = fin 0 ∧ XF.lt y (fin 0) = true)) := by
      cases a <;> cases y <;> simp_all [XF.le, XF.lt]
    have cb : ¬ (b = nan ∨ y = nan ∨ XF.lt b (fin 0) = true ∨ (b = fin 0 ∧ XF.lt y (fin 0) = true)) := by
      cases b <;> cases y <;> simp_all [XF.le, XF.lt]
    unfold toyPow
    rw [if_neg ca, if_neg cb]
    split
    · exact hab
    · simp
  pow_anti_base a b y ha hab hy := by
    change XF.le (toyPow b y) (toyPow a y) = true
    have hb : XF.lt (fin 0) b = true := by
      cases a <;> cases b <;> simp_all [XF.le, XF.lt]; linarith
    have ca : ¬ (a = nan ∨ y = nan ∨ XF.lt a (fin 0) = true ∨ (a = fin 0 ∧ XF.lt y (fin 0) = true)) := by
      cases a <;> cases y <;> simp_all [XF.le, XF.lt] <;> (try constructor) <;> (try intro) <;> linarith
    have cb : ¬ (b = nan ∨ y = nan ∨ XF.lt b (fin 0) = true ∨ (b = fin 0 ∧ XF.lt y (fin 0) = true)) := by
      cases b <;> cases y <;> simp_all [XF.le, XF.lt] <;> (try constructor) <;> (try intro) <;> linarith
    have hy1 : ¬ XF.le (fin 1) y = true := by
      cases y <;> simp_all [XF.le]; linarith
    unfold toyPow
    rw [if_neg ca, if_neg cb, if_neg hy1, if_neg hy1]
    simp
  pow_mono_exp a y y' ha hyy := by
    change XF.le (toyPow a y) (toyPow a y') = true
    have ca : ¬ (a = nan ∨ y = nan ∨ XF.lt a (fin 0) = true ∨ (a = fin 0 ∧ XF.lt y (fin 0) = true)) := by
      cases a <;> cases y <;> cases y' <;> simp_all [XF.le, XF.lt] <;> (try constructor) <;> (try intro) <;> linarith
    have cb : ¬ (a = nan ∨ y' = nan ∨ XF.lt a (fin 0) = true ∨ (a = fin 0 ∧ XF.lt y' (fin 0) = true)) := by
      cases a <;> cases y <;> cases y' <;> simp_all [XF.le, XF.lt] <;> (try constructor) <;> (try intro) <;> linarith
    unfold toyPow
    rw [if_neg ca, if_neg cb]
    by_cases h1 : XF.le (fin 1) y = true
    · have h2 : XF.le (fin 1) y' = true := xle_trans h1 hyy
      rw [if_pos h1, if_pos h2]
      cases a <;> simp_all [XF.le]
    · rw [if_neg h1]
      split
      · exact ha
      · simp


end RoundedOps
