/-
C07 — `selNSGA3Full`: the selection with its own normalisation and association.
-/
import DeapModel.Lemmas.C07Nsga3

set_option linter.unusedSectionVars false
set_option linter.unusedVariables false

namespace C07L
open Nsga3

section
variable {α : Type} [RealLike α]

/-- `numpy.argmin` returns a valid index (any scalar type). -/
theorem argminIdx_lt_gen (l : List α) (hne : l ≠ []) : argminIdx l < l.length := by
  cases l with
  | nil => exact absurd rfl hne
  | cons x xs =>
    have key : ∀ (ys : List α) (acc : Nat × α × Nat), acc.1 < acc.2.2 →
        (ys.foldl (fun (acc : Nat × α × Nat) y =>
          if y < acc.2.1 then (acc.2.2, y, acc.2.2 + 1) else (acc.1, acc.2.1, acc.2.2 + 1)) acc).1
          < acc.2.2 + ys.length := by
      intro ys
      induction ys with
      | nil => intro acc h; simpa using h
      | cons y ys ih =>
        intro acc h
        simp only [List.foldl_cons, List.length_cons]
        split
        · have := ih (acc.2.2, y, acc.2.2 + 1) (by simp)
          simp only [] at this; omega
        · have := ih (acc.1, acc.2.1, acc.2.2 + 1) (by simp only []; omega)
          simp only [] at this; omega
    have := key xs (0, x, 1) (by simp)
    simp only [argminIdx, List.length_cons]
    simp only [] at this
    omega

/-- the niche numbers and distances `selNSGA3Full` hands to the selection -/
def assocOf (solve : List (List α) → List α → Option (List α)) (fronts : List (List Nat))
    (fitOf : Nat → List α) (refs : List (List α)) (mb mw : Option (List α))
    (me : Option (List (List α))) : List α → Nat × α :=
  let n := normalisation solve (fronts.flatten.map fitOf) mb mw me
  associate1 refs n.1 n.2.2.2

theorem selNSGA3Full_eq (solve : List (List α) → List α → Option (List α)) (fronts : List (List Nat))
    (k : Nat) (fitOf : Nat → List α) (refs : List (List α)) (mb mw : Option (List α))
    (me : Option (List (List α))) (tape : Tape) :
    selNSGA3Full solve fronts k fitOf refs mb mw me tape =
      selNSGA3 fronts k (fronts.flatten.map (fun i => (assocOf solve fronts fitOf refs mb mw me (fitOf i)).1))
        (fronts.flatten.map (fun i => (assocOf solve fronts fitOf refs mb mw me (fitOf i)).2))
        (RealLike.ofNat 0) refs.length tape := by
  unfold selNSGA3Full assocOf associate
  simp only [List.map_map, Function.comp_def]

/-- every niche number consumed by the selection is a valid reference index -/
theorem assocOf_lt (solve : List (List α) → List α → Option (List α)) (fronts : List (List Nat))
    (fitOf : Nat → List α) (refs : List (List α)) (mb mw : Option (List α))
    (me : Option (List (List α))) (hne : refs ≠ []) (f : List α) :
    (assocOf solve fronts fitOf refs mb mw me f).1 < refs.length := by
  unfold assocOf associate1
  simp only []
  have := argminIdx_lt_gen (refs.map (perpDist (normalise
    (normalisation solve (fronts.flatten.map fitOf) mb mw me).1
    (normalisation solve (fronts.flatten.map fitOf) mb mw me).2.2.2 f)))
    (by intro h; exact hne (List.map_eq_nil_iff.1 h))
  simpa using this

theorem selNSGA3Full_fine (solve : List (List α) → List α → Option (List α)) (fronts : List (List Nat))
    (k : Nat) (fitOf : Nat → List α) (refs : List (List α)) (mb mw : Option (List α))
    (me : Option (List (List α))) (tape : Tape) (last : List Nat)
    (hl : fronts.getLast? = some last) (hk : k ≤ fronts.flatten.length) (hne : refs ≠ []) :
    Fine (selNSGA3Full solve fronts k fitOf refs mb mw me tape) := by
  rw [selNSGA3Full_eq]
  apply selNSGA3_fine fronts k _ _ _ _ tape last hl hk
  · intro j hj
    obtain ⟨i, _, rfl⟩ := List.mem_map.1 hj
    exact assocOf_lt solve fronts fitOf refs mb mw me hne _
  · rw [List.length_map]

/-- the niche of the `p`-th member of the last front, as consumed by `niching` -/
theorem nichesL_full (fronts : List (List Nat)) (last : List Nat) (g : Nat → Nat)
    (hl : fronts.getLast? = some last) (p : Nat) (hp : p < last.length) :
    nichesL fronts (fronts.flatten.map g) p = g (last.getD p 0) := by
  unfold nichesL
  rw [← List.map_drop]
  have : fronts.flatten.drop fronts.dropLast.flatten.length = last := by
    conv => lhs; arg 2; rw [flatten_split fronts last hl]
    simp
  rw [this, getD_lt _ _ _ (by simpa using hp), List.getElem_map, getD_lt _ _ _ hp]

theorem counts0L_full (fronts : List (List Nat)) (last : List Nat) (g : Nat → Nat)
    (hl : fronts.getLast? = some last) (j : Nat) :
    counts0L (fronts.flatten.map g) last j = (fronts.dropLast.flatten.map g).count j := by
  unfold counts0L
  have hlen : (fronts.flatten.map g).length - last.length = fronts.dropLast.flatten.length := by
    rw [List.length_map, flatten_split fronts last hl, List.length_append]; omega
  rw [hlen, ← List.map_take]
  congr 2
  conv => lhs; arg 2; rw [flatten_split fronts last hl]
  simp

/-- `selNSGA3Full`: size, identity, front priority and niche balance, the niche of an individual
being the reference index its own association (`assocOf`) gives it. -/
theorem selNSGA3Full_spec (solve : List (List α) → List α → Option (List α)) (fronts : List (List Nat))
    (k : Nat) (fitOf : Nat → List α) (refs : List (List α)) (mb mw : Option (List α))
    (me : Option (List (List α))) (tape : Tape) (res : List Nat)
    (h : selNSGA3Full solve fronts k fitOf refs mb mw me tape = .ok res) :
    (fronts.dropLast.flatten.length ≤ k → res.length = k) ∧
    (fronts.flatten.Nodup → res.Nodup ∧ ∀ x ∈ res, x ∈ fronts.flatten) ∧
    (∀ f1 f2, f1 < f2 → f2 < fronts.length → ∀ y ∈ fronts.getD f1 [], y ∈ res) ∧
    ∃ (last sel : List Nat), fronts.getLast? = some last ∧
      res = fronts.dropLast.flatten ++ sel.map (fun p => last.getD p 0) ∧
      sel.Nodup ∧ (∀ p ∈ sel, p < last.length) ∧
      ∀ a b,
        (∃ p ∈ sel, (assocOf solve fronts fitOf refs mb mw me (fitOf (last.getD p 0))).1 = a) →
        (∃ q, q < last.length ∧ q ∉ sel ∧
          (assocOf solve fronts fitOf refs mb mw me (fitOf (last.getD q 0))).1 = b) →
        (res.map (fun i => (assocOf solve fronts fitOf refs mb mw me (fitOf i)).1)).count a ≤
          (res.map (fun i => (assocOf solve fronts fitOf refs mb mw me (fitOf i)).1)).count b + 1 := by
  rw [selNSGA3Full_eq] at h
  set g : Nat → Nat := fun i => (assocOf solve fronts fitOf refs mb mw me (fitOf i)).1 with hg
  refine ⟨fun hk => selNSGA3_length _ _ _ _ _ _ _ _ hk h,
    fun hnd => selNSGA3_nodup _ _ _ _ _ _ _ _ hnd h,
    fun f1 f2 h12 h2 y hy => selNSGA3_front_priority _ _ _ _ _ _ _ _ h f1 f2 h12 h2 y hy, ?_⟩
  obtain ⟨last, sel, hl, hres, hnd, hlt, hbal⟩ := selNSGA3_balance _ _ _ _ _ _ _ _ h
  refine ⟨last, sel, hl, hres, hnd, hlt, ?_⟩
  intro a b ⟨p, hp, hpa⟩ ⟨q, hq, hqs, hqb⟩
  have hn : ∀ p, p < last.length → nichesL fronts (fronts.flatten.map g) p = g (last.getD p 0) :=
    fun p hp => nichesL_full fronts last g hl p hp
  have := hbal a b ⟨p, hp, by rw [hn p (hlt p hp)]; exact hpa⟩ ⟨q, hq, hqs, by rw [hn q hq]; exact hqb⟩
  rw [counts0L_full fronts last g hl, counts0L_full fronts last g hl] at this
  have hc : ∀ j, (res.map g).count j =
      (fronts.dropLast.flatten.map g).count j + sel.countP (fun p => nichesL fronts (fronts.flatten.map g) p == j) := by
    intro j
    rw [hres, List.map_append, List.count_append, List.map_map]
    congr 1
    rw [List.count, List.countP_map]
    apply List.countP_congr
    intro p hp
    simp only [Function.comp_def, hn p (hlt p hp)]
  rw [hc a, hc b]
  exact this

end

end C07L
