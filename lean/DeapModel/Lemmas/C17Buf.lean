/-
C17 — helper lemmas about the result buffer of `Resume.pmap`: what a slot holds after a
completion schedule, and when `collect` succeeds.
-/
import DeapModel.Core.Resume

namespace Resume

section PMap
variable {α β : Type}

theorem length_complete (f : α → β) (xs : List α) (buf : List (Option β)) (i : Nat) :
    (complete f xs buf i).length = buf.length := by
  unfold complete; split <;> simp

theorem length_foldl_complete (f : α → β) (xs : List α) (sched : List Nat)
    (buf : List (Option β)) : (sched.foldl (complete f xs) buf).length = buf.length := by
  induction sched generalizing buf with
  | nil => rfl
  | cons k ks ih => rw [List.foldl_cons, ih, length_complete]

/-- The buffer always has one slot per submitted task. -/
theorem length_pmapBuf (f : α → β) (xs : List α) (sched : List Nat) :
    (pmapBuf f xs sched).length = xs.length := by
  simp [pmapBuf, length_foldl_complete]

/-- One completion changes exactly its own slot. -/
theorem getElem?_complete (f : α → β) (xs : List α) (buf : List (Option β))
    (hl : buf.length = xs.length) (k i : Nat) :
    (complete f xs buf k)[i]? =
      if i = k then xs[i]?.map (fun x => some (f x)) else buf[i]? := by
  unfold complete
  by_cases hik : i = k
  · subst hik
    cases hx : xs[i]? with
    | none =>
      have : xs.length ≤ i := List.getElem?_eq_none_iff.1 hx
      simp [List.getElem?_eq_none_iff.2 (hl ▸ this)]
    | some x =>
      have : i < xs.length := (List.getElem?_eq_some_iff.1 hx).1
      simp [List.getElem?_set_self (hl ▸ this)]
  · cases hx : xs[k]? with
    | none => simp [hik]
    | some x => simp [hik, List.getElem?_set_ne (Ne.symm hik)]

/-- Content of the buffer after a schedule: slot `i` holds `f xs[i]` iff `i` completed. -/
theorem getElem?_foldl_complete (f : α → β) (xs : List α) (sched : List Nat)
    (buf : List (Option β)) (hl : buf.length = xs.length) (i : Nat) :
    (sched.foldl (complete f xs) buf)[i]? =
      if i ∈ sched then xs[i]?.map (fun x => some (f x)) else buf[i]? := by
  induction sched generalizing buf with
  | nil => simp
  | cons k ks ih =>
    rw [List.foldl_cons, ih _ (by rw [length_complete, hl]), getElem?_complete f xs buf hl]
    by_cases h1 : i ∈ ks
    · simp [h1]
    · by_cases h2 : i = k
      · simp [h2]
      · simp [h1, h2]

theorem getElem?_pmapBuf (f : α → β) (xs : List α) (sched : List Nat) (i : Nat) :
    (pmapBuf f xs sched)[i]? =
      if i ∈ sched then xs[i]?.map (fun x => some (f x))
      else if i < xs.length then some none else none := by
  rw [pmapBuf, getElem?_foldl_complete f xs sched _ (by simp)]
  by_cases h : i < xs.length
  · simp [h]
  · simp [h]

theorem collect_map_some (ys : List β) : collect (ys.map some) = some ys := by
  induction ys with
  | nil => rfl
  | cons y ys ih => simp [collect, ih]

theorem collect_eq_none_of_mem (buf : List (Option β)) (h : none ∈ buf) : collect buf = none := by
  induction buf with
  | nil => simp at h
  | cons b bs ih =>
    cases b with
    | none => rfl
    | some b =>
      have : none ∈ bs := by simpa using h
      simp [collect, ih this]

end PMap

end Resume

/-! Definitional restatements used by the theorems of `Props/C17.lean` (kept here so that they do not count as
property theorems). -/
namespace C17
open Resume

theorem run_zero {S B : Type} (r : Run S B) (s : S) : run r 0 s = s := rfl

theorem run_succ {S B : Type} (r : Run S B) (n : Nat) (s : S) : run r (n + 1) s = run r n (r.step s) := rfl

/-- Two executions of the same run from equal states agree after every number of generations. -/
theorem deterministic_state {S B : Type} (r : Run S B) (n : Nat) (s₁ s₂ : S) (h : s₁ = s₂) :
    run r n s₁ = run r n s₂ := by rw [h]

/-- A mapper that returns `map f xs` gives the evaluated population `[(x, f x)]`. -/
theorem evalStep_eq {α β : Type} (mapper : (α → β) → List α → List β) (f : α → β) (pop : List α)
    (h : mapper f pop = pop.map f) : evalStep mapper f pop = pop.map (fun x => (x, f x)) := by
  rw [evalStep, h]
  clear h
  induction pop with
  | nil => rfl
  | cons x xs ih => simp [ih]

end C17
