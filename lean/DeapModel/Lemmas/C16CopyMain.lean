/-
C16 — the induction over `copyVal` and the facts about `clone` derived from it.
-/
import DeapModel.Lemmas.C16CopyInv

namespace Heap.Copy

theorem select_spec (objs : Oid → Option Obj) (ci : ClassInfo) (obj : Obj)
    (hok : CopyOK objs ci obj) :
    ∃ sel, selectAttrs ci.kind obj.attrs = some sel ∧ (∀ p ∈ sel, p ∈ obj.attrs) ∧
      ∀ k, lookup k sel = lookup k obj.attrs := by
  obtain ⟨_, hf, hcf, _, _⟩ := hok
  cases hk : ci.kind with
  | fitness => exact ⟨[], rfl, by simp, fun k => by rw [(hf hk).2.1 k]; rfl⟩
  | cfitness =>
    obtain ⟨_, hs, hn, _⟩ := hcf hk
    obtain ⟨v, hv⟩ := Option.isSome_iff_exists.1 hs
    refine ⟨[(cvName, v)], by simp [selectAttrs, hv], ?_, ?_⟩
    · intro p hp
      simp only [List.mem_singleton] at hp
      subst hp
      exact lookup_mem _ _ _ hv
    · intro k
      simp only [lookup]
      split
      · rename_i h
        subst h
        exact hv.symm
      · rename_i h
        rw [hn k (Ne.symm h)]
  | plain => exact ⟨obj.attrs, rfl, fun _ h => h, fun _ => rfl⟩
  | ctor => exact ⟨obj.attrs, rfl, fun _ h => h, fun _ => rfl⟩
  | tree => exact ⟨obj.attrs, rfl, fun _ h => h, fun _ => rfl⟩
  | nparr => exact ⟨obj.attrs, rfl, fun _ h => h, fun _ => rfl⟩
  | pyarr => exact ⟨obj.attrs, rfl, fun _ h => h, fun _ => rfl⟩
  | node => exact ⟨obj.attrs, rfl, fun _ h => h, fun _ => rfl⟩

/-- Unfolding of `copyVal` on a memo miss, one named intermediate state per phase. -/
theorem copyVal_ref_miss (ct : ClassTable) (f : Nat) (st : State) (x : Oid) (obj : Obj)
    (ci : ClassInfo) (hm : lookup x st.memo = none) (ho : st.objs x = some obj)
    (hc : ct[obj.cls]? = some ci)
    (st2 : State)
    (hst2 : st2 = if ci.kind.memoEarly = true
      then { objs := st.objs, next := st.next + 1, memo := (x, st.next) :: st.memo }
      else { objs := st.objs, next := st.next + 1, memo := st.memo })
    (st3 : State) (base : List (Name × Val))
    (h3 : (if ci.kind.initOnCopy = true then instAttrs ct st2 ci.dictInst else some (st2, []))
      = some (st3, base))
    (sel : List (Name × Val)) (hsel : selectAttrs ci.kind obj.attrs = some sel)
    (st4 : State) (as' : List (Name × Val))
    (h4 : mapSt (fun s (p : Name × Val) =>
        match copyVal ct f s p.2 with
        | none => none
        | some (s', v') => some (s', (p.1, v'))) st3 sel = some (st4, as'))
    (st5 : State) (is' : List Val)
    (h5 : (if ci.kind.copyItems = true then mapSt (copyVal ct f) st4 obj.items
      else some (st4, obj.items)) = some (st5, is')) :
    copyVal ct (f + 1) st (.ref x) =
      some ({ objs := define st5.objs st.next
                { cls := obj.cls, items := is', attrs := dictUpdate base as',
                  mutable := obj.mutable },
              next := st5.next, memo := (x, st.next) :: st5.memo }, .ref st.next) := by
  subst hst2
  rw [copyVal]
  simp only [hm, ho, hc]
  rw [h3]
  simp only [hsel]
  generalize hr : mapSt _ st3 sel = r
  have hr' : r = some (st4, as') := hr.symm.trans h4
  subst hr'
  simp only []
  rw [h5]

section Main
variable {ct : ClassTable} {objs0 : Oid → Option Obj} {N0 : Nat}

/-- The `init_type` phase of a copy hook keeps the invariant. -/
theorem instStep (hct : CTOk ct) (hcl : Closed objs0 N0) (st : State) (P : List Oid)
    (hI : CInv ct objs0 N0 st P) (c : ClsId) (ci : ClassInfo) (hci : ct[c]? = some ci) :
    ∃ st' base,
      (if ci.kind.initOnCopy = true then instAttrs ct st ci.dictInst else some (st, []))
        = some (st', base) ∧
      CInv ct objs0 N0 st' P ∧ CExt st st' ∧
      base.map (·.1) = (if ci.kind.initOnCopy = true then ci.dictInst.map (·.1) else []) ∧
      ∀ p ∈ base, NewVal N0 st'.objs p.2 := by
  by_cases hi : ci.kind.initOnCopy = true
  · obtain ⟨st', attrs, h1, hmemo, hnext, hold, hbound, hkeys, hvals, hnewobjs⟩ :=
      instAttrs_spec ct hct st c ci hci hI.bound
    have hE : CExt st st' := ⟨hnext, hold, fun x x' h => by rw [hmemo]; exact h⟩
    have hk := hI.keeps hE
    refine ⟨st', attrs, by rw [if_pos hi]; exact h1, ?_, hE, by rw [if_pos hi]; exact hkeys, ?_⟩
    · refine ⟨Nat.le_trans hI.le hnext, fun y hy => ?_, hbound, fun x x' h => ?_,
        fun y o hy ho c hc => ?_⟩
      · rw [hold y (Nat.lt_of_lt_of_le hy hI.le)]
        exact hI.old y hy
      · rw [hmemo] at h
        rcases hI.memo x x' h with h | h
        · exact Or.inl h
        · exact Or.inr (h.keep (hI.refs hcl) hk)
      · by_cases hlt : y < st.next
        · rw [hold y hlt] at ho
          exact (hI.new y o hy ho c hc).keep hk
        · rcases hnewobjs y o (Nat.le_of_not_lt hlt) ho c hc with hat | ⟨z, hz, hz1, _, hz3⟩
          · cases c with
            | atom a => trivial
            | ref z => cases hat
          · subst hz
            exact Or.inr ⟨Nat.le_trans hI.le hz1, hz3⟩
    · intro p hp
      obtain ⟨y, hy, hy1, _, hy3⟩ := hvals p hp
      rw [hy]
      exact ⟨Nat.le_trans hI.le hy1, hy3⟩
  · exact ⟨st, [], by rw [if_neg hi], hI, CExt.refl st, by rw [if_neg hi]; rfl,
      fun p hp => by cases hp⟩

/-- Defining the reserved slot with the assembled copy re-establishes the invariant, with the
original leaving the in-progress list. -/
theorem copy_final (hcl : Closed objs0 N0) (j : Nat) (st st2 st5 : State) (P : List Oid) (x : Oid)
    (obj : Obj) (ci : ClassInfo) (base sel as' : List (Name × Val)) (is' : List Val)
    (hI : CInv ct objs0 N0 st P) (hmiss : lookup x st.memo = none)
    (hobj : objs0 x = some obj) (hci : ct[obj.cls]? = some ci) (hok : CopyOK objs0 ci obj)
    (hch : ∀ c ∈ obj.children, Within ct CopyOK objs0 j c)
    (hnw : ¬ Within ct CopyOK objs0 j (.ref x))
    (h2n : st2.next = st.next + 1) (h2o : st2.objs = st.objs)
    (h2m : ∀ y y', lookup y st.memo = some y' → lookup y st2.memo = some y')
    (hE : CExt st2 st5) (hI5 : CInv ct objs0 N0 st5 (x :: P))
    (hbase : base.map (·.1) = if ci.kind.initOnCopy = true then ci.dictInst.map (·.1) else [])
    (hbnew : ∀ p ∈ base, NewVal N0 st5.objs p.2)
    (hselm : ∀ p ∈ sel, p ∈ obj.attrs) (hsell : ∀ k, lookup k sel = lookup k obj.attrs)
    (hF : All2 (fun p p' => p'.1 = p.1 ∧ GoodVal ct objs0 N0 st5.objs p.2 p'.2) sel as')
    (hit1 : ci.kind.copyItems = true → All2 (GoodVal ct objs0 N0 st5.objs) obj.items is')
    (hit2 : ci.kind.copyItems = false → is' = obj.items)
    (o' : Obj)
    (ho' : o' = { cls := obj.cls, items := is', attrs := dictUpdate base as',
                  mutable := obj.mutable })
    (st6 : State)
    (h6 : st6 = { objs := define st5.objs st.next o', next := st5.next,
                  memo := (x, st.next) :: st5.memo }) :
    CInv ct objs0 N0 st6 P ∧ CExt st st6 ∧ GoodVal ct objs0 N0 st6.objs (.ref x) (.ref st.next) := by
  have hoc : o'.cls = obj.cls := by rw [ho']
  have hoi : o'.items = is' := by rw [ho']
  have hoa : o'.attrs = dictUpdate base as' := by rw [ho']
  have hom : o'.mutable = obj.mutable := by rw [ho']
  have h6o : st6.objs = define st5.objs st.next o' := by rw [h6]
  have h6n : st6.next = st5.next := by rw [h6]
  have h6m : st6.memo = (x, st.next) :: st5.memo := by rw [h6]
  clear ho' h6
  have hnext5 : st.next + 1 ≤ st5.next := h2n ▸ hE.next
  have hnone5 : st5.objs st.next = none := by
    rw [hE.objs st.next (by omega), h2o]
    exact hI.bound _ (Nat.le_refl _)
  have hk56 : Keeps st5.objs st6.objs := by
    intro y o ho
    have hne : y ≠ st.next := by
      intro e
      rw [e, hnone5] at ho
      cases ho
    rw [h6o, define_other _ _ _ _ hne]
    exact ho
  have hk05 : Keeps objs0 st5.objs := hI5.keeps0 hcl
  have hk06 : Keeps objs0 st6.objs := fun y o ho => hk56 y o (hk05 y o ho)
  have hr5 := hI5.refs hcl
  have hdef6 : st6.objs st.next = some o' := by
    rw [h6o]
    exact define_at _ _ _
  have hF6 : All2 (fun p p' => p'.1 = p.1 ∧ GoodVal ct objs0 N0 st6.objs p.2 p'.2) sel as' :=
    hF.imp (fun p p' h => ⟨h.1, h.2.keep hr5 hk56⟩)
  have hit16 : ci.kind.copyItems = true → All2 (GoodVal ct objs0 N0 st6.objs) obj.items is' :=
    fun h => (hit1 h).imp (fun a b hg => hg.keep hr5 hk56)
  have hbnew6 : ∀ p ∈ base, NewVal N0 st6.objs p.2 := fun p hp => (hbnew p hp).keep hk56
  obtain ⟨hic, hia, hiw⟩ := items_ok hcl st6.objs hk06 j x obj ci hobj hok
    (fun c hc => hch c (List.mem_append_left _ hc)) is' hit16 hit2
  obtain ⟨hac, hal, haw⟩ := attrs_ok st6.objs j obj ci base sel as' hok
    (fun p hp => hch p.2 (List.mem_append_right _ (List.mem_map.2 ⟨p, hp, rfl⟩)))
    hbase hbnew6 hselm hsell hF6
  have hchild6 : ∀ c ∈ o'.children, ChildOK objs0 N0 st6.objs c := by
    intro c hc
    rcases List.mem_append.1 hc with hc | hc
    · rw [hoi] at hc
      exact hic c hc
    · rw [hoa] at hc
      obtain ⟨q, hq, hqc⟩ := List.mem_map.1 hc
      rw [← hqc]
      exact hac q hq
  have hshared : ci.kind.copyItems = false → o'.items = obj.items := fun h => by
    rw [hoi]; exact hit2 h
  have hcopyok : CopyOK st6.objs ci o' := by
    obtain ⟨c1, c2, c3, c4, c5⟩ := hok
    refine ⟨fun hi p hp => ?_, fun hk => ?_, fun hk => ?_, fun hk => ?_, fun hk => ?_⟩
    · have := c1 hi p hp
      rw [hoa]
      rcases hal p.1 with ⟨h1, _⟩ | ⟨v, v', _, h2, _⟩
      · rw [h1] at this
        cases this
      · rw [h2]
        rfl
    · obtain ⟨d1, d2, d3⟩ := c2 hk
      refine ⟨d1, fun k => ?_, ?_⟩
      · rw [hoa]
        rcases hal k with ⟨_, h2⟩ | ⟨v, v', h1, _, _⟩
        · exact h2
        · rw [d2 k] at h1
          cases h1
      · rw [hshared (by simp [hk, Kind.copyItems])]
        exact d3
    · obtain ⟨d1, d2, d3, d4⟩ := c3 hk
      refine ⟨d1, ?_, fun k hkn => ?_, ?_⟩
      · rw [hoa]
        rcases hal cvName with ⟨h1, _⟩ | ⟨v, v', _, h2, _⟩
        · rw [h1] at d2
          cases d2
        · rw [h2]
          rfl
      · rw [hoa]
        rcases hal k with ⟨_, h2⟩ | ⟨v, v', h1, _, _⟩
        · exact h2
        · rw [d3 k hkn] at h1
          cases h1
      · rw [hshared (by simp [hk, Kind.copyItems])]
        exact d4
    · rw [hshared (by simp [hk, Kind.copyItems])]
      exact c4 hk
    · rw [hshared (by simp [hk, Kind.copyItems])]
      exact fun c hc => ImmLeaf_ext objs0 st6.objs hk06 c (c5 hk c hc)
  have hgood : GoodVal ct objs0 N0 st6.objs (.ref x) (.ref st.next) := by
    refine ⟨⟨hI.le, by rw [hdef6]; rfl⟩, fun m => ?_, fun hnd k hk => ?_⟩
    · cases m with
      | zero => rfl
      | succ m =>
        simp only [abs, hdef6, hobj, hoc, hom, hoi, hoa]
        congr 1
        · exact hia m
        · funext k
          rcases hal k with ⟨h1, h2⟩ | ⟨v, v', h1, h2, h3⟩
          · rw [h1, h2]
          · rw [h1, h2]
            exact h3.abs m
    · by_cases hkj : k ≤ j
      · exact absurd (Within_le ct CopyOK objs0 hkj _ hk) hnw
      · obtain ⟨k', rfl⟩ : ∃ k', k = k' + 1 := ⟨k - 1, by omega⟩
        have hjk : j ≤ k' := by omega
        refine ⟨o', ci, hdef6, by rw [hoc]; exact hci, hcopyok,
          fun c hc => Within_le ct CopyOK st6.objs hjk c ?_⟩
        rcases List.mem_append.1 hc with hc | hc
        · rw [hoi] at hc
          exact hiw hnd c hc
        · rw [hoa] at hc
          obtain ⟨q, hq, hqc⟩ := List.mem_map.1 hc
          rw [← hqc]
          exact haw hnd hci q hq
  refine ⟨⟨?_, fun y hy => ?_, fun y hy => ?_, fun y y' h => ?_, fun y o hy ho c hc => ?_⟩,
    ⟨?_, fun y hy => ?_, fun y y' h => ?_⟩, hgood⟩
  · rw [h6n]
    exact hI5.le
  · have hle := hI.le
    rw [h6o, define_other st5.objs st.next o' y (fun e => by rw [e] at hy; omega)]
    exact hI5.old y hy
  · rw [h6n] at hy
    rw [h6o, define_other st5.objs st.next o' y (fun e => by rw [e] at hy; omega)]
    exact hI5.bound y hy
  · rw [h6m] at h
    simp only [lookup] at h
    split at h
    · rename_i hxy
      subst hxy
      injection h with h
      subst h
      exact Or.inr hgood
    · rename_i hxy
      rcases hI5.memo y y' h with hm | hg
      · rcases List.mem_cons.1 hm with hm | hm
        · exact absurd hm.symm hxy
        · exact Or.inl hm
      · exact Or.inr (hg.keep hr5 hk56)
  · by_cases hyx : y = st.next
    · subst hyx
      rw [hdef6] at ho
      injection ho with ho
      subst ho
      exact hchild6 c hc
    · rw [h6o, define_other _ _ _ _ hyx] at ho
      exact (hI5.new y o hy ho c hc).keep hk56
  · rw [h6n]
    omega
  · rw [h6o, define_other st5.objs st.next o' y (fun e => by rw [e] at hy; omega), hE.objs y (by omega), h2o]
  · rw [h6m]
    simp only [lookup]
    split
    · rename_i hxy
      subst hxy
      rw [hmiss] at h
      cases h
    · exact hE.memo _ _ (h2m _ _ h)

/-- The statement proved by induction on the depth `k`: a value of depth ≤ `k` is copied
faithfully in every state satisfying the invariant whose in-progress originals are all deeper
than `k` (so that none of them can be met again below). -/
def Spec (ct : ClassTable) (objs0 : Oid → Option Obj) (N0 : Nat) (k : Nat) : Prop :=
  ∀ (fuel : Nat) (st : State) (P : List Oid) (v : Val), k ≤ fuel →
    Within ct CopyOK objs0 k v → (∀ p ∈ P, ¬ Within ct CopyOK objs0 k (.ref p)) →
    CInv ct objs0 N0 st P →
    ∃ st' v', copyVal ct fuel st v = some (st', v') ∧ CInv ct objs0 N0 st' P ∧ CExt st st' ∧
      GoodVal ct objs0 N0 st'.objs v v'

theorem copyVal_atom (ct : ClassTable) (fuel : Nat) (st : State) (a : Int) :
    copyVal ct fuel st (.atom a) = some (st, .atom a) := by
  cases fuel <;> rfl

theorem spec_atom (fuel : Nat) (st : State) (P : List Oid) (a : Int)
    (hI : CInv ct objs0 N0 st P) :
    ∃ st' v', copyVal ct fuel st (.atom a) = some (st', v') ∧ CInv ct objs0 N0 st' P ∧
      CExt st st' ∧ GoodVal ct objs0 N0 st'.objs (.atom a) v' :=
  ⟨st, .atom a, copyVal_atom ct fuel st a, hI, CExt.refl st, GoodVal.atom _ a⟩

theorem spec_zero : Spec ct objs0 N0 0 := by
  intro fuel st P v _ hv _ hI
  cases v with
  | atom a => exact spec_atom fuel st P a hI
  | ref x => exact hv.elim

theorem spec_succ (hct : CTOk ct) (hcl : Closed objs0 N0) (j : Nat)
    (ih : Spec ct objs0 N0 j) : Spec ct objs0 N0 (j + 1) := by
  intro fuel st P v hfuel hv hP hI
  cases v with
  | atom a => exact spec_atom fuel st P a hI
  | ref x =>
    by_cases hw : Within ct CopyOK objs0 j (.ref x)
    · exact ih fuel st P (.ref x) (by omega) hw
        (fun p hp h => hP p hp (Within_succ _ _ _ _ _ h)) hI
    · obtain ⟨f, rfl⟩ : ∃ f, fuel = f + 1 := ⟨fuel - 1, by omega⟩
      have hjf : j ≤ f := by omega
      cases hm : lookup x st.memo with
      | some x' =>
        refine ⟨st, .ref x', by rw [copyVal]; simp only [hm], hI, CExt.refl st, ?_⟩
        rcases hI.memo x x' hm with h | h
        · exact absurd hv (hP x h)
        · exact h
      | none =>
        obtain ⟨obj, ci, hobj, hci, hok, hch⟩ := hv
        have hxN := lt_of_defined hcl hobj
        have hso : st.objs x = some obj := by rw [hI.old x hxN]; exact hobj
        -- phase 1: reserve the target, enter it in the memo if the hook does so early
        obtain ⟨st2, hst2⟩ : ∃ st2 : State, st2 = if ci.kind.memoEarly = true
            then { objs := st.objs, next := st.next + 1, memo := (x, st.next) :: st.memo }
            else { objs := st.objs, next := st.next + 1, memo := st.memo } := ⟨_, rfl⟩
        have h2n : st2.next = st.next + 1 := by rw [hst2]; split <;> rfl
        have h2o : st2.objs = st.objs := by rw [hst2]; split <;> rfl
        have h2m : ∀ y y', lookup y st.memo = some y' → lookup y st2.memo = some y' := by
          intro y y' h
          rw [hst2]
          split
          · simp only [lookup]
            split
            · rename_i hxy
              subst hxy
              rw [hm] at h
              cases h
            · exact h
          · exact h
        have h2m' : ∀ y y', lookup y st2.memo = some y' → y = x ∨ lookup y st.memo = some y' := by
          intro y y' h
          rw [hst2] at h
          split at h
          · simp only [lookup] at h
            split at h
            · rename_i hxy
              exact Or.inl hxy.symm
            · exact Or.inr h
          · exact Or.inr h
        have hP1 : ∀ p ∈ x :: P, ¬ Within ct CopyOK objs0 j (.ref p) := by
          intro p hp
          rcases List.mem_cons.1 hp with hp | hp
          · rw [hp]; exact hw
          · exact fun h => hP p hp (Within_succ _ _ _ _ _ h)
        have hI2 : CInv ct objs0 N0 st2 (x :: P) := by
          refine ⟨by have := hI.le; omega, fun y hy => by rw [h2o]; exact hI.old y hy,
            fun y hy => by rw [h2o]; exact hI.bound y (by omega), fun y y' h => ?_,
            fun y o hy ho c hc => ?_⟩
          · rcases h2m' y y' h with h | h
            · exact Or.inl (h ▸ List.mem_cons_self)
            · rcases hI.memo y y' h with h | h
              · exact Or.inl (List.mem_cons_of_mem _ h)
              · exact Or.inr (by rw [h2o]; exact h)
          · rw [h2o] at ho ⊢
            exact hI.new y o hy ho c hc
        -- phase 2: `init_type`
        obtain ⟨st3, base, h3, hI3, hE3, hbase, hbnew3⟩ :=
          instStep hct hcl st2 (x :: P) hI2 obj.cls ci hci
        -- phase 3: the selected attributes
        obtain ⟨sel, hsel, hselm, hsell⟩ := select_spec objs0 ci obj hok
        have hR : ∀ (s s' : State) (v v' : Val), CInv ct objs0 N0 s (x :: P) → CExt s s' →
            GoodVal ct objs0 N0 s.objs v v' → GoodVal ct objs0 N0 s'.objs v v' :=
          fun s s' v v' hs hE hg => hg.keep (hs.refs hcl) (hs.keeps hE)
        obtain ⟨st4, as', h4, hI4, hE4, hF4⟩ :=
          mapSt_thread
            (fun s (p : Name × Val) =>
              match copyVal ct f s p.2 with
              | none => none
              | some (s', v') => some (s', (p.1, v')))
            (fun s => CInv ct objs0 N0 s (x :: P))
            (fun s p p' => p'.1 = p.1 ∧ GoodVal ct objs0 N0 s.objs p.2 p'.2)
            (fun s s' p p' hs hE h => ⟨h.1, hR s s' _ _ hs hE h.2⟩)
            sel st3 hI3
            (fun p hp s hs => by
              obtain ⟨s', v', h, hs', hE', hg⟩ := ih f s (x :: P) p.2 hjf
                (hch p.2 (List.mem_append_right _ (List.mem_map.2 ⟨p, hselm p hp, rfl⟩))) hP1 hs
              exact ⟨s', (p.1, v'), by simp only [h], hs', hE', rfl, hg⟩)
        -- phase 4: the items
        have h5 : ∃ st5 is',
            (if ci.kind.copyItems = true then mapSt (copyVal ct f) st4 obj.items
              else some (st4, obj.items)) = some (st5, is') ∧
            CInv ct objs0 N0 st5 (x :: P) ∧ CExt st4 st5 ∧
            (ci.kind.copyItems = true → All2 (GoodVal ct objs0 N0 st5.objs) obj.items is') ∧
            (ci.kind.copyItems = false → is' = obj.items) := by
          by_cases hc : ci.kind.copyItems = true
          · obtain ⟨st5, is', h5, hI5, hE5, hF5⟩ :=
              mapSt_thread (copyVal ct f) (fun s => CInv ct objs0 N0 s (x :: P))
                (fun s v v' => GoodVal ct objs0 N0 s.objs v v')
                (fun s s' v v' hs hE h => hR s s' v v' hs hE h)
                obj.items st4 hI4
                (fun c hcm s hs =>
                  ih f s (x :: P) c hjf (hch c (List.mem_append_left _ hcm)) hP1 hs)
            exact ⟨st5, is', by rw [if_pos hc]; exact h5, hI5, hE5, fun _ => hF5,
              fun h => by rw [hc] at h; cases h⟩
          · exact ⟨st4, obj.items, by rw [if_neg hc], hI4, CExt.refl st4,
              fun h => absurd h hc, fun _ => rfl⟩
        obtain ⟨st5, is', h5, hI5, hE5, hit1, hit2⟩ := h5
        have hF5 : All2 (fun p p' => p'.1 = p.1 ∧ GoodVal ct objs0 N0 st5.objs p.2 p'.2) sel as' :=
          hF4.imp (fun p p' h => ⟨h.1, hR st4 st5 _ _ hI4 hE5 h.2⟩)
        have hbnew5 : ∀ p ∈ base, NewVal N0 st5.objs p.2 :=
          fun p hp => (hbnew3 p hp).keep (hI3.keeps (hE4.trans hE5))
        -- phase 5: define the copy
        have hfin := copy_final hcl j st st2 st5 P x obj ci base sel as' is' hI hm hobj hci hok
          hch hw h2n h2o h2m (hE3.trans (hE4.trans hE5)) hI5 hbase hbnew5 hselm hsell hF5
          hit1 hit2 _ rfl _ rfl
        exact ⟨_, _, copyVal_ref_miss ct f st x obj ci hm hso hci st2 hst2 st3 base h3 sel hsel
          st4 as' h4 st5 is' h5, hfin⟩

/-- `copyVal` on a value of depth ≤ `k` with at least `k` fuel. -/
theorem copyVal_spec (hct : CTOk ct) (hcl : Closed objs0 N0) (k : Nat) : Spec ct objs0 N0 k := by
  induction k with
  | zero => exact spec_zero
  | succ j ih => exact spec_succ hct hcl j ih

end Main

end Heap.Copy
