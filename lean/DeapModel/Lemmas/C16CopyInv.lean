/-
C16 — the invariant of `copyVal` and the building blocks of its induction step.
-/
import DeapModel.Lemmas.C16CopyBase

namespace Heap.Copy

/-! ### Pointwise relation of two lists -/

inductive All2 {α β : Type} (R : α → β → Prop) : List α → List β → Prop where
  | nil : All2 R [] []
  | cons {a : α} {b : β} {l : List α} {l' : List β} : R a b → All2 R l l' → All2 R (a :: l) (b :: l')

theorem All2.imp {α β : Type} {R S : α → β → Prop} (h : ∀ a b, R a b → S a b)
    {l : List α} {l' : List β} (h2 : All2 R l l') : All2 S l l' := by
  induction h2 with
  | nil => exact .nil
  | cons hr _ ih => exact .cons (h _ _ hr) ih

theorem All2.mem_right {α β : Type} {R : α → β → Prop} {l : List α} {l' : List β}
    (h : All2 R l l') : ∀ b ∈ l', ∃ a ∈ l, R a b := by
  induction h with
  | nil => intro b hb; cases hb
  | cons hr _ ih =>
    intro b hb
    rcases List.mem_cons.1 hb with hb | hb
    · subst hb
      exact ⟨_, List.mem_cons_self, hr⟩
    · obtain ⟨a, ha, hab⟩ := ih b hb
      exact ⟨a, List.mem_cons_of_mem _ ha, hab⟩

theorem All2.map_eq {α β γ : Type} {f : α → γ} {g : β → γ} {l : List α} {l' : List β}
    (h : All2 (fun a b => g b = f a) l l') : l'.map g = l.map f := by
  induction h with
  | nil => rfl
  | cons hr _ ih => simp [hr, ih]

theorem lookup_all2 {R : Val → Val → Prop} {l l' : List (Name × Val)}
    (h : All2 (fun p p' => p'.1 = p.1 ∧ R p.2 p'.2) l l') (k : Name) :
    (lookup k l = none ∧ lookup k l' = none) ∨
      ∃ v v', lookup k l = some v ∧ lookup k l' = some v' ∧ R v v' := by
  induction h with
  | nil => exact Or.inl ⟨rfl, rfl⟩
  | @cons p p' l l' hr _ ih =>
    obtain ⟨a, b⟩ := p
    obtain ⟨a', b'⟩ := p'
    obtain ⟨h1, h2⟩ := hr
    simp only at h1 h2
    subst h1
    simp only [lookup]
    split
    · exact Or.inr ⟨b, b', rfl, rfl, h2⟩
    · exact ih

/-! ### Heap extension -/

abbrev Keeps (objs objs' : Oid → Option Obj) : Prop := ∀ x o, objs x = some o → objs' x = some o

abbrev NoDangling (objs : Oid → Option Obj) : Prop :=
  ∀ x o, objs x = some o → ∀ y, Val.ref y ∈ o.children → (objs y).isSome = true

theorem define_at (objs : Oid → Option Obj) (x : Oid) (o : Obj) : define objs x o x = some o := by
  simp [define]

theorem define_other (objs : Oid → Option Obj) (x : Oid) (o : Obj) (y : Oid) (h : y ≠ x) :
    define objs x o y = objs y := by
  simp [define, h]

/-- The copier's steps only allocate at or beyond `st.next` and only add memo entries. -/
structure CExt (st st' : State) : Prop where
  next : st.next ≤ st'.next
  objs : ∀ y, y < st.next → st'.objs y = st.objs y
  memo : ∀ x x', lookup x st.memo = some x' → lookup x st'.memo = some x'

theorem CExt.refl (st : State) : CExt st st := ⟨Nat.le_refl _, fun _ _ => rfl, fun _ _ h => h⟩

theorem CExt.trans {a b c : State} (h1 : CExt a b) (h2 : CExt b c) : CExt a c :=
  ⟨Nat.le_trans h1.next h2.next,
   fun y hy => by rw [h2.objs y (Nat.lt_of_lt_of_le hy h1.next), h1.objs y hy],
   fun x x' h => h2.memo x x' (h1.memo x x' h)⟩

/-- State-threading `mapSt` preserves an invariant `I` and accumulates a per-element relation `R`
that is stable under extension. -/
theorem mapSt_thread {α β : Type} (f : State → α → Option (State × β))
    (I : State → Prop) (R : State → α → β → Prop)
    (hR : ∀ s s' a b, I s → CExt s s' → R s a b → R s' a b) :
    ∀ (l : List α) (s : State), I s →
      (∀ a ∈ l, ∀ s, I s → ∃ s' b, f s a = some (s', b) ∧ I s' ∧ CExt s s' ∧ R s' a b) →
      ∃ s' bs, mapSt f s l = some (s', bs) ∧ I s' ∧ CExt s s' ∧ All2 (R s') l bs := by
  intro l
  induction l with
  | nil => intro s hs _; exact ⟨s, [], rfl, hs, CExt.refl s, .nil⟩
  | cons a l ih =>
    intro s hs hf
    obtain ⟨s1, b, h1, hI1, hE1, hR1⟩ := hf a List.mem_cons_self s hs
    obtain ⟨s2, bs, h2, hI2, hE2, hR2⟩ :=
      ih s1 hI1 (fun a' ha' => hf a' (List.mem_cons_of_mem _ ha'))
    refine ⟨s2, b :: bs, ?_, hI2, hE1.trans hE2, .cons (hR s1 s2 a b hI1 hE2 hR1) hR2⟩
    simp only [mapSt, h1, h2]

section Copy
variable (ct : ClassTable) (objs0 : Oid → Option Obj) (N0 : Nat)

/-- What the copier returns: an atom, or an object it has allocated and defined. -/
def NewVal (objs : Oid → Option Obj) : Val → Prop
  | .atom _ => True
  | .ref z => N0 ≤ z ∧ (objs z).isSome = true

/-- What a defined new object may refer to: atoms, immutable leaves of the old heap (shared tree
nodes), defined new objects. -/
def ChildOK (objs : Oid → Option Obj) : Val → Prop
  | .atom _ => True
  | .ref z => (z < N0 ∧ ImmLeaf objs0 (.ref z)) ∨ (N0 ≤ z ∧ (objs z).isSome = true)

/-- `v'` (in `objs`) is a faithful copy of `v` (in the old heap). -/
structure GoodVal (objs : Oid → Option Obj) (v v' : Val) : Prop where
  new : NewVal N0 objs v'
  abs : ∀ m, abs objs m v' = abs objs0 m v
  within : DictNodup ct → ∀ k, Within ct CopyOK objs0 k v → Within ct CopyOK objs k v'

/-- The invariant of a copying state; `P` = originals whose copy is reserved and in the memo but
not yet defined. -/
structure CInv (st : State) (P : List Oid) : Prop where
  le : N0 ≤ st.next
  old : ∀ y, y < N0 → st.objs y = objs0 y
  bound : ∀ y, st.next ≤ y → st.objs y = none
  memo : ∀ x x', lookup x st.memo = some x' →
    x ∈ P ∨ GoodVal ct objs0 N0 st.objs (.ref x) (.ref x')
  new : ∀ y o, N0 ≤ y → st.objs y = some o → ∀ c ∈ o.children, ChildOK objs0 N0 st.objs c

variable {ct objs0 N0}

theorem NewVal.keep {objs objs' : Oid → Option Obj} (hk : Keeps objs objs') {v : Val}
    (h : NewVal N0 objs v) : NewVal N0 objs' v := by
  cases v with
  | atom a => trivial
  | ref z =>
    obtain ⟨h1, h2⟩ := h
    obtain ⟨o, ho⟩ := Option.isSome_iff_exists.1 h2
    exact ⟨h1, by rw [hk z o ho]; rfl⟩

theorem ChildOK.keep {objs objs' : Oid → Option Obj} (hk : Keeps objs objs') {v : Val}
    (h : ChildOK objs0 N0 objs v) : ChildOK objs0 N0 objs' v := by
  cases v with
  | atom a => trivial
  | ref z =>
    rcases h with h | ⟨h1, h2⟩
    · exact Or.inl h
    · obtain ⟨o, ho⟩ := Option.isSome_iff_exists.1 h2
      exact Or.inr ⟨h1, by rw [hk z o ho]; rfl⟩

theorem NewVal.childOK {objs : Oid → Option Obj} {v : Val} (h : NewVal N0 objs v) :
    ChildOK objs0 N0 objs v := by
  cases v with
  | atom a => trivial
  | ref z => exact Or.inr h

theorem NewVal.defined {objs : Oid → Option Obj} {v : Val} (h : NewVal N0 objs v) :
    ∀ x, v = .ref x → (objs x).isSome = true := by
  intro x hx
  subst hx
  exact h.2

theorem GoodVal.keep {objs objs' : Oid → Option Obj} (hr : NoDangling objs)
    (hk : Keeps objs objs') {v v' : Val} (h : GoodVal ct objs0 N0 objs v v') :
    GoodVal ct objs0 N0 objs' v v' :=
  ⟨h.new.keep hk,
   fun m => by rw [abs_ext objs objs' hr hk m v' h.new.defined]; exact h.abs m,
   fun hnd k hv => Within_ext ct objs objs' hk k v' (h.within hnd k hv)⟩

theorem GoodVal.atom (objs : Oid → Option Obj) (a : Int) :
    GoodVal ct objs0 N0 objs (.atom a) (.atom a) :=
  ⟨trivial, fun m => by rw [abs_atom, abs_atom], fun _ k _ => Within_atom ct CopyOK objs k a⟩

theorem lt_of_defined {objs : Oid → Option Obj} {N : Nat} (hcl : Closed objs N) {x : Oid} {o : Obj}
    (h : objs x = some o) : x < N := by
  apply Nat.lt_of_not_le
  intro hle
  rw [hcl.bound x hle] at h
  cases h

theorem CInv.keeps {st st' : State} {P : List Oid} (hI : CInv ct objs0 N0 st P)
    (hE : CExt st st') : Keeps st.objs st'.objs := by
  intro y o ho
  have hy : y < st.next := by
    apply Nat.lt_of_not_le
    intro hle
    rw [hI.bound y hle] at ho
    cases ho
  rw [hE.objs y hy]
  exact ho

theorem CInv.keeps0 (hcl : Closed objs0 N0) {st : State} {P : List Oid}
    (hI : CInv ct objs0 N0 st P) : Keeps objs0 st.objs := by
  intro y o ho
  rw [hI.old y (lt_of_defined hcl ho)]
  exact ho

theorem CInv.refs (hcl : Closed objs0 N0) {st : State} {P : List Oid}
    (hI : CInv ct objs0 N0 st P) : NoDangling st.objs := by
  intro x o ho y hy
  by_cases hx : x < N0
  · rw [hI.old x hx] at ho
    have hd := hcl.refs x o ho y hy
    obtain ⟨oy, hoy⟩ := Option.isSome_iff_exists.1 hd
    rw [hI.keeps0 hcl y oy hoy]
    rfl
  · rcases hI.new x o (Nat.le_of_not_lt hx) ho _ hy with ⟨_, oy, hoy, _⟩ | ⟨_, h⟩
    · rw [hI.keeps0 hcl y oy hoy]
      rfl
    · exact h

/-- Values of the old heap denote in every copying state what they denoted before. -/
theorem abs_old (hcl : Closed objs0 N0) {objs : Oid → Option Obj} (hk : Keeps objs0 objs)
    (m : Nat) (v : Val) (hv : ∀ x, v = .ref x → (objs0 x).isSome = true) :
    abs objs m v = abs objs0 m v :=
  abs_ext objs0 objs hcl.refs hk m v hv

/-- The start state of `clone`. -/
theorem CInv.init (hcl : Closed objs0 N0) : CInv ct objs0 N0 ⟨objs0, N0, []⟩ [] :=
  ⟨Nat.le_refl _, fun _ _ => rfl, hcl.bound, fun x x' h => by simp [lookup] at h,
   fun y o hy ho => absurd (lt_of_defined hcl ho) (Nat.not_lt.2 hy)⟩

/-! ### The parts of one copied object -/

theorem ImmLeaf_of_isAtom (objs : Oid → Option Obj) (c : Val) (h : c.isAtom = true) :
    ImmLeaf objs c := by
  cases c with
  | atom a => trivial
  | ref z => simp [Val.isAtom] at h

theorem childOK_of_immLeaf (hcl : Closed objs0 N0) (objs : Oid → Option Obj) {c : Val}
    (h : ImmLeaf objs0 c) : ChildOK objs0 N0 objs c := by
  cases c with
  | atom a => trivial
  | ref z =>
    have h' := h
    obtain ⟨o, ho, _⟩ := h'
    exact Or.inl ⟨lt_of_defined hcl ho, h⟩

/-- Items taken over as they are (buffer copies, shared tree nodes) are immutable leaves. -/
theorem shared_items_leaf (ci : ClassInfo) (obj : Obj) (hok : CopyOK objs0 ci obj)
    (hc : ci.kind.copyItems = false) : ∀ c ∈ obj.items, ImmLeaf objs0 c := by
  obtain ⟨_, hf, hcf, harr, htree⟩ := hok
  intro c hcm
  cases hk : ci.kind with
  | plain => simp [hk, Kind.copyItems] at hc
  | node => simp [hk, Kind.copyItems] at hc
  | ctor => simp [hk, Kind.copyItems] at hc
  | fitness => exact ImmLeaf_of_isAtom _ c ((hf hk).2.2 c hcm)
  | cfitness => exact ImmLeaf_of_isAtom _ c ((hcf hk).2.2.2 c hcm)
  | tree => exact htree hk c hcm
  | nparr => simp [hk, Kind.copyItems] at hc
  | pyarr => exact ImmLeaf_of_isAtom _ c (harr hk c hcm)

theorem items_ok (hcl : Closed objs0 N0) (objs : Oid → Option Obj) (hk0 : Keeps objs0 objs)
    (j : Nat) (x : Oid) (obj : Obj) (ci : ClassInfo) (hobj : objs0 x = some obj)
    (hok : CopyOK objs0 ci obj) (hch : ∀ c ∈ obj.items, Within ct CopyOK objs0 j c)
    (is' : List Val)
    (h1 : ci.kind.copyItems = true → All2 (GoodVal ct objs0 N0 objs) obj.items is')
    (h2 : ci.kind.copyItems = false → is' = obj.items) :
    (∀ c ∈ is', ChildOK objs0 N0 objs c) ∧
    (∀ m, is'.map (abs objs m) = obj.items.map (abs objs0 m)) ∧
    (DictNodup ct → ∀ c ∈ is', Within ct CopyOK objs j c) := by
  cases hc : ci.kind.copyItems with
  | false =>
    have e := h2 hc
    subst e
    have hleaf := shared_items_leaf ci obj hok hc
    refine ⟨fun c hcm => childOK_of_immLeaf hcl objs (hleaf c hcm), fun m => ?_, fun _ c hcm => ?_⟩
    · apply List.map_congr_left
      intro c hcm
      apply abs_old hcl hk0
      intro z hz
      subst hz
      exact hcl.refs x obj hobj z (List.mem_append_left _ hcm)
    · exact Within_ext ct objs0 objs hk0 j c (hch c hcm)
  | true =>
    have hA := h1 hc
    refine ⟨fun c hcm => ?_, fun m => ?_, fun hnd c hcm => ?_⟩
    · obtain ⟨a, _, hg⟩ := hA.mem_right c hcm
      exact hg.new.childOK
    · exact All2.map_eq (hA.imp (fun a b hg => hg.abs m))
    · obtain ⟨a, ha, hg⟩ := hA.mem_right c hcm
      exact hg.within hnd j (hch a ha)

theorem base_cover (ci : ClassInfo) (obj : Obj) (hok : CopyOK objs0 ci obj)
    (base : List (Name × Val))
    (hbase : base.map (·.1) = if ci.kind.initOnCopy = true then ci.dictInst.map (·.1) else []) :
    ∀ k, (lookup k base).isSome = true → (lookup k obj.attrs).isSome = true := by
  intro k hk
  rw [lookup_isSome_iff, hbase] at hk
  split at hk
  · rename_i hi
    obtain ⟨p, hp, hpk⟩ := List.mem_map.1 hk
    subst hpk
    exact hok.1 hi p hp
  · cases hk

theorem attrs_ok (objs : Oid → Option Obj) (j : Nat) (obj : Obj) (ci : ClassInfo)
    (base sel as' : List (Name × Val))
    (hok : CopyOK objs0 ci obj) (hch : ∀ p ∈ obj.attrs, Within ct CopyOK objs0 j p.2)
    (hbase : base.map (·.1) = if ci.kind.initOnCopy = true then ci.dictInst.map (·.1) else [])
    (hbnew : ∀ p ∈ base, NewVal N0 objs p.2)
    (hselm : ∀ p ∈ sel, p ∈ obj.attrs) (hsell : ∀ k, lookup k sel = lookup k obj.attrs)
    (hF : All2 (fun p p' => p'.1 = p.1 ∧ GoodVal ct objs0 N0 objs p.2 p'.2) sel as') :
    (∀ q ∈ dictUpdate base as', ChildOK objs0 N0 objs q.2) ∧
    (∀ k, (lookup k obj.attrs = none ∧ lookup k (dictUpdate base as') = none) ∨
      ∃ v v', lookup k obj.attrs = some v ∧ lookup k (dictUpdate base as') = some v' ∧
        GoodVal ct objs0 N0 objs v v') ∧
    (DictNodup ct → ct[obj.cls]? = some ci →
      ∀ q ∈ dictUpdate base as', Within ct CopyOK objs j q.2) := by
  have hcover := base_cover ci obj hok base hbase
  have hlk := lookup_all2 hF
  refine ⟨fun q hq => ?_, fun k => ?_, fun hnd hci q hq => ?_⟩
  · rcases mem_dictUpdate hq with hq | hq
    · obtain ⟨p, _, _, hg⟩ := hF.mem_right q hq
      exact hg.new.childOK
    · exact (hbnew q hq).childOK
  · rw [lookup_dictUpdate]
    rcases hlk k with ⟨h1, h2⟩ | ⟨v, v', h1, h2, h3⟩
    · rw [h2]
      cases hb : lookup k base with
      | none => exact Or.inl ⟨by rw [← hsell k]; exact h1, rfl⟩
      | some w =>
        have := hcover k (by rw [hb]; rfl)
        rw [← hsell k, h1] at this
        cases this
    · rw [h2]
      exact Or.inr ⟨v, v', by rw [← hsell k]; exact h1, rfl, h3⟩
  · have hn : (base.map (·.1)).Nodup := by
      rw [hbase]
      split
      · exact hnd _ ci hci
      · exact List.nodup_nil
    rcases mem_dictUpdate_nodup hn hq with hq | ⟨hq1, hq2⟩
    · obtain ⟨p, hp, _, hg⟩ := hF.mem_right q hq
      exact hg.within hnd j (hch p (hselm p hp))
    · exfalso
      have hb : (lookup q.1 base).isSome = true :=
        (lookup_isSome_iff q.1 base).2 (List.mem_map.2 ⟨q, hq1, rfl⟩)
      have ha := hcover q.1 hb
      rw [← hsell q.1] at ha
      rcases hlk q.1 with ⟨h1, _⟩ | ⟨v, v', _, h2, _⟩
      · rw [h1] at ha
        cases ha
      · exact hq2 ((lookup_isSome_iff q.1 as').1 (by rw [h2]; rfl))

end Copy

end Heap.Copy
