/-
C20 — totality of the moving-peaks model on well-typed tapes: the request sequence `changePeaks`
makes, the predicate "the tape serves these requests", and the proof that a served request sequence
always yields `some`.
-/
import DeapModel.Lemmas.C20MP

set_option linter.unusedSimpArgs false
set_option linter.unusedSectionVars false

namespace C20L
open MovingPeaks

variable {α : Type} [RealLike α]

/-- a request `changePeaks` makes to its random source -/
inductive Req where
  | random | uniform | gauss
  | randrange (n : Nat)     -- `randrange(n)`: any index below `n`
  | choice (n : Nat)        -- `choice(seq)` with `len(seq) = n`
  deriving DecidableEq, Repr

/-- the draw answers the request: right kind, index in range -/
def kindOK : Req → Draw α → Prop
  | .random, .random _ => True
  | .uniform, .uniform _ => True
  | .gauss, .gauss _ => True
  | .randrange n, .randrange i => i < n
  | .choice n, .choice i => i < n
  | _, _ => False

/-- the tape answers the requests in order (it may be longer) -/
def Serves : List Req → Tape α → Prop
  | [], _ => True
  | _ :: _, [] => False
  | r :: rs, d :: t => kindOK r d ∧ Serves rs t

theorem serves_append (a b : List Req) (t : Tape α) :
    Serves (a ++ b) t ↔ Serves a t ∧ Serves b (t.drop a.length) := by
  induction a generalizing t with
  | nil => simp [Serves]
  | cons r rs ih =>
    cases t with
    | nil => simp [Serves]
    | cons d t => simp only [List.cons_append, Serves, List.length_cons, List.drop_succ_cons, ih, and_assoc]

theorem serves_length (a : List Req) (t : Tape α) (h : Serves a t) : a.length ≤ t.length := by
  induction a generalizing t with
  | nil => simp
  | cons r rs ih =>
    cases t with
    | nil => simp [Serves] at h
    | cons d t => simp only [Serves] at h; simp only [List.length_cons]; have := ih t h.2; omega

/-! ### inversion: a served request fixes the shape of the tape's head -/

theorem serves_random (rs : List Req) (t : Tape α) (h : Serves (Req.random :: rs) t) :
    ∃ x t', t = Draw.random x :: t' ∧ Serves rs t' := by
  cases t with
  | nil => simp [Serves] at h
  | cons d t => cases d <;> simp only [Serves, kindOK, false_and] at h; exact ⟨_, _, rfl, h.2⟩

theorem serves_uniform (rs : List Req) (t : Tape α) (h : Serves (Req.uniform :: rs) t) :
    ∃ x t', t = Draw.uniform x :: t' ∧ Serves rs t' := by
  cases t with
  | nil => simp [Serves] at h
  | cons d t => cases d <;> simp only [Serves, kindOK, false_and] at h; exact ⟨_, _, rfl, h.2⟩

theorem serves_gauss (rs : List Req) (t : Tape α) (h : Serves (Req.gauss :: rs) t) :
    ∃ x t', t = Draw.gauss x :: t' ∧ Serves rs t' := by
  cases t with
  | nil => simp [Serves] at h
  | cons d t => cases d <;> simp only [Serves, kindOK, false_and] at h; exact ⟨_, _, rfl, h.2⟩

theorem serves_randrange (n : Nat) (rs : List Req) (t : Tape α) (h : Serves (Req.randrange n :: rs) t) :
    ∃ i t', t = Draw.randrange i :: t' ∧ i < n ∧ Serves rs t' := by
  cases t with
  | nil => simp [Serves] at h
  | cons d t => cases d <;> simp only [Serves, kindOK, false_and] at h; exact ⟨_, _, rfl, h.1, h.2⟩

theorem serves_choice (n : Nat) (rs : List Req) (t : Tape α) (h : Serves (Req.choice n :: rs) t) :
    ∃ i t', t = Draw.choice i :: t' ∧ i < n ∧ Serves rs t' := by
  cases t with
  | nil => simp [Serves] at h
  | cons d t => cases d <;> simp only [Serves, kindOK, false_and] at h; exact ⟨_, _, rfl, h.1, h.2⟩

/-! ### the primitive pops -/

theorem popMany_random (n : Nat) (rs : List Req) (t : Tape α)
    (h : Serves (List.replicate n Req.random ++ rs) t) :
    ∃ xs t', popMany popRandom n t = some (xs, t') ∧ xs.length = n ∧ t' = t.drop n ∧ Serves rs t' := by
  induction n generalizing t with
  | zero => exact ⟨[], t, rfl, rfl, rfl, by simpa using h⟩
  | succ m ih =>
    rw [List.replicate_succ, List.cons_append] at h
    obtain ⟨x, t1, rfl, h1⟩ := serves_random _ _ h
    obtain ⟨xs, t', e1, e2, e3, e4⟩ := ih t1 h1
    exact ⟨x :: xs, t', by simp [popMany, popRandom, e1], by simp [e2], by simp [e3], e4⟩

theorem popMany_uniform (n : Nat) (rs : List Req) (t : Tape α)
    (h : Serves (List.replicate n Req.uniform ++ rs) t) :
    ∃ xs t', popMany popUniform n t = some (xs, t') ∧ xs.length = n ∧ t' = t.drop n ∧ Serves rs t' := by
  induction n generalizing t with
  | zero => exact ⟨[], t, rfl, rfl, rfl, by simpa using h⟩
  | succ m ih =>
    rw [List.replicate_succ, List.cons_append] at h
    obtain ⟨x, t1, rfl, h1⟩ := serves_uniform _ _ h
    obtain ⟨xs, t', e1, e2, e3, e4⟩ := ih t1 h1
    exact ⟨x :: xs, t', by simp [popMany, popUniform, e1], by simp [e2], by simp [e3], e4⟩

/-- the per-peak invariant of the class: position and last change vector have `dim` coordinates -/
def DimOK (dim : Nat) (peaks : List (Peak α)) : Prop := ∀ p ∈ peaks, p.pos.length = dim ∧ p.last.length = dim

/-! ### removal and addition loops (with the requests `rs` that follow) -/

def removeReqs (len n : Nat) : List Req := (List.range n).map fun j => Req.randrange (len - j)

theorem removeReqs_succ (len n : Nat) :
    removeReqs len (n + 1) = Req.randrange len :: removeReqs (len - 1) n := by
  simp only [removeReqs, List.range_succ_eq_map, List.map_cons, List.map_map, Nat.sub_zero]
  congr 1
  apply List.map_congr_left
  intro j _
  simp only [Function.comp]; congr 1; omega

theorem removeReqs_length (len n : Nat) : (removeReqs len n).length = n := by simp [removeReqs]

theorem removePeaks_total (dim n : Nat) (rs : List Req) (peaks : List (Peak α)) (t : Tape α)
    (hd : DimOK dim peaks) (h : Serves (removeReqs peaks.length n ++ rs) t) :
    ∃ p' t', removePeaks n peaks t = some (p', t') ∧ p'.length = peaks.length - n ∧ DimOK dim p' ∧
      t' = t.drop n ∧ Serves rs t' := by
  induction n generalizing peaks t with
  | zero => exact ⟨peaks, t, rfl, rfl, hd, rfl, by simpa [removeReqs] using h⟩
  | succ m ih =>
    rw [removeReqs_succ, List.cons_append] at h
    obtain ⟨idx, t1, rfl, hidx, h1⟩ := serves_randrange _ _ _ h
    have hd' : DimOK dim (peaks.eraseIdx idx) := fun p hp => hd p (List.mem_of_mem_eraseIdx hp)
    have hl : (peaks.eraseIdx idx).length = peaks.length - 1 := List.length_eraseIdx_of_lt hidx
    obtain ⟨p', t', e1, e2, e3, e4, e5⟩ := ih (peaks.eraseIdx idx) t1 hd' (by rw [hl]; exact h1)
    refine ⟨p', t', ?_, ?_, e3, by simp [e4], e5⟩
    · simp only [removePeaks, hidx, if_true, e1]
    · rw [e2, hl]; omega

/-- the requests of one iteration of the addition loop -/
def addBlock (cfg : Config α) : List Req :=
  Req.choice cfg.pool.length :: (List.replicate cfg.dim Req.uniform ++
    (Req.uniform :: Req.uniform :: List.replicate cfg.dim Req.random))

theorem addBlock_length (cfg : Config α) : (addBlock cfg).length = 2 * cfg.dim + 3 := by
  simp [addBlock]; omega

def addReqs (cfg : Config α) (n : Nat) : List Req := (List.replicate n (addBlock cfg)).flatten

theorem addReqs_length (cfg : Config α) (n : Nat) : (addReqs cfg n).length = n * (2 * cfg.dim + 3) := by
  simp [addReqs, List.length_flatten, addBlock_length]

theorem addPeaks_total (cfg : Config α) (n : Nat) (rs : List Req) (peaks : List (Peak α)) (t : Tape α)
    (hd : DimOK cfg.dim peaks) (h : Serves (addReqs cfg n ++ rs) t) :
    ∃ p' t', addPeaks cfg n peaks t = some (p', t') ∧ p'.length = peaks.length + n ∧ DimOK cfg.dim p' ∧
      t' = t.drop (addReqs cfg n).length ∧ Serves rs t' := by
  induction n generalizing peaks t with
  | zero => exact ⟨peaks, t, rfl, rfl, hd, by simp [addReqs], by simpa [addReqs] using h⟩
  | succ m ih =>
    have hsplit : addReqs cfg (m + 1) = addBlock cfg ++ addReqs cfg m := by
      simp [addReqs, List.replicate_succ]
    rw [hsplit, List.append_assoc] at h
    simp only [addBlock, List.cons_append, List.append_assoc] at h
    obtain ⟨i, t1, rfl, hi, h1⟩ := serves_choice _ _ _ h
    obtain ⟨pos, t2, hp1, hp2, hp3, h2⟩ := popMany_uniform _ _ _ h1
    obtain ⟨hv, t3, rfl, h3⟩ := serves_uniform _ _ h2
    obtain ⟨wv, t4, rfl, h4⟩ := serves_uniform _ _ h3
    obtain ⟨rds, t5, hr1, hr2, hr3, h5⟩ := popMany_random _ _ _ h4
    have hfn : cfg.pool[i]? = some cfg.pool[i] := by simp [hi]
    have hd' : DimOK cfg.dim (peaks ++ [⟨cfg.pool[i], pos, hv, wv, rds.map fun r => r - half⟩]) := by
      intro p hp
      simp only [List.mem_append, List.mem_singleton] at hp
      rcases hp with hp | rfl
      · exact hd p hp
      · exact ⟨hp2, by simp [hr2]⟩
    obtain ⟨p', t', e1, e2, e3, e4, e5⟩ := ih _ t5 hd' h5
    refine ⟨p', t', ?_, ?_, e3, ?_, e5⟩
    · simp only [addPeaks, hfn, hp1, popUniform, hr1, e1]
    · rw [e2]; simp; omega
    · rw [e4, hr3, hsplit, List.length_append, addBlock_length]
      have h4e : t4 = (List.drop cfg.dim t1).drop 2 := by rw [← hp3]; rfl
      rw [h4e]
      simp only [List.drop_drop]
      have : 2 * cfg.dim + 3 + (addReqs cfg m).length = (2 * cfg.dim + 2 + (addReqs cfg m).length) + 1 := by omega
      rw [this, List.drop_succ_cons]
      congr 1; omega

/-! ### one peak, all peaks -/

def peakReqs (dim : Nat) : List Req := List.replicate dim Req.random ++ [Req.gauss, Req.gauss]

theorem peakReqs_length (dim : Nat) : (peakReqs dim).length = dim + 2 := by simp [peakReqs]

theorem changePeak_total (cfg : Config α) (rs : List Req) (pk : Peak α) (t : Tape α)
    (hp : pk.pos.length = cfg.dim) (hl : pk.last.length = cfg.dim)
    (h : Serves (peakReqs cfg.dim ++ rs) t) :
    ∃ pk' t', changePeak cfg pk t = some (pk', t') ∧ pk'.pos.length = cfg.dim ∧ pk'.last.length = cfg.dim ∧
      t' = t.drop (cfg.dim + 2) ∧ Serves rs t' := by
  simp only [peakReqs, List.append_assoc, List.cons_append, List.nil_append] at h
  obtain ⟨xs, t1, e1, e2, e3, h1⟩ := popMany_random _ _ _ h
  obtain ⟨gh, t2, rfl, h2⟩ := serves_gauss _ _ h1
  obtain ⟨gw, t3, rfl, h3⟩ := serves_gauss _ _ h2
  have hc : ∃ pk', changePeak cfg pk t = some (pk', t3) ∧ pk'.pos.length = cfg.dim ∧
      pk'.last.length = cfg.dim := by
    simp only [changePeak, hp, e1, popGauss]
    exact ⟨_, rfl, by simp [List.length_zip, hp, hl, e2], by simp [List.length_zip, hp, hl, e2]⟩
  obtain ⟨pk', c1, c2, c3⟩ := hc
  refine ⟨pk', t3, c1, c2, c3, ?_, h3⟩
  have : t3 = (List.drop cfg.dim t).drop 2 := by rw [← e3]; rfl
  rw [this, List.drop_drop]

def allReqs (dim m : Nat) : List Req := (List.replicate m (peakReqs dim)).flatten

theorem allReqs_length (dim m : Nat) : (allReqs dim m).length = m * (dim + 2) := by
  simp [allReqs, List.length_flatten, peakReqs_length]

theorem changeAll_total (cfg : Config α) (rs : List Req) (peaks : List (Peak α)) (t : Tape α)
    (hd : DimOK cfg.dim peaks) (h : Serves (allReqs cfg.dim peaks.length ++ rs) t) :
    ∃ p' t', changeAll cfg peaks t = some (p', t') ∧ p'.length = peaks.length ∧ DimOK cfg.dim p' ∧
      t' = t.drop (allReqs cfg.dim peaks.length).length ∧ Serves rs t' := by
  induction peaks generalizing t with
  | nil => exact ⟨[], t, rfl, rfl, hd, by simp [allReqs], by simpa [allReqs] using h⟩
  | cons pk rest ih =>
    have hsplit : allReqs cfg.dim (pk :: rest).length = peakReqs cfg.dim ++ allReqs cfg.dim rest.length := by
      simp [allReqs, List.replicate_succ]
    rw [hsplit, List.append_assoc] at h
    obtain ⟨hpk1, hpk2⟩ := hd pk (by simp)
    obtain ⟨pk', t1, e1, e2, e3, e4, h1⟩ := changePeak_total cfg _ pk t hpk1 hpk2 h
    obtain ⟨r', t2, f1, f2, f3, f4, h2⟩ := ih t1 (fun p hp => hd p (by simp [hp])) h1
    refine ⟨pk' :: r', t2, by simp only [changeAll, e1, f1], by simp [f2], ?_, ?_, h2⟩
    · intro p hp
      simp only [List.mem_cons] at hp
      rcases hp with rfl | hp
      · exact ⟨e2, e3⟩
      · exact f3 p hp
    · rw [f4, e4, hsplit, List.length_append, peakReqs_length, List.drop_drop]

/-! ### the number step and the whole change -/

/-- what the number step will do, read off the first two draws: `none` without limits, else
(remove?, how many) -/
def plan (cfg : Config α) (len : Nat) (t : Tape α) : Option (Bool × Nat) :=
  match cfg.limits with
  | none => none
  | some (mn, mx) =>
    match t with
    | Draw.random u :: Draw.random u2 :: _ =>
      let k := cfg.roundInt (RealLike.ofRatio (mx - mn) 1 * u2 * cfg.numberSeverity)
      if u < half then some (true, (imin ((len : Int) - mn) k).toNat)
      else some (false, (imin (mx - (len : Int)) k).toNat)
    | _ => some (true, 0)

def numberReqs (cfg : Config α) (len : Nat) (t : Tape α) : List Req :=
  match plan cfg len t with
  | none => []
  | some (true, n) => Req.random :: Req.random :: removeReqs len n
  | some (false, n) => Req.random :: Req.random :: addReqs cfg n

/-- the number of peaks after the change -/
def newLen (cfg : Config α) (len : Nat) (t : Tape α) : Nat :=
  match plan cfg len t with
  | none => len
  | some (true, n) => len - n
  | some (false, n) => len + n

/-- every request one call of `changePeaks` makes, in order -/
def changeReqs (cfg : Config α) (len : Nat) (t : Tape α) : List Req :=
  numberReqs cfg len t ++ allReqs cfg.dim (newLen cfg len t)

theorem changeNumber_total (cfg : Config α) (rs : List Req) (peaks : List (Peak α)) (t : Tape α)
    (hd : DimOK cfg.dim peaks) (h : Serves (numberReqs cfg peaks.length t ++ rs) t) :
    ∃ p' t', changeNumber cfg peaks t = some (p', t') ∧ p'.length = newLen cfg peaks.length t ∧
      DimOK cfg.dim p' ∧ t' = t.drop (numberReqs cfg peaks.length t).length ∧ Serves rs t' := by
  unfold numberReqs newLen at *
  unfold plan at *
  unfold changeNumber
  cases hl : cfg.limits with
  | none =>
    simp only [hl] at h ⊢
    exact ⟨peaks, t, rfl, rfl, hd, by simp, by simpa using h⟩
  | some lim =>
    obtain ⟨mn, mx⟩ := lim
    simp only [hl] at h ⊢
    -- the first two draws must be `random`
    match t, h with
    | [], h => simp [Serves] at h
    | [d], h => cases d <;> simp [Serves, kindOK] at h
    | d1 :: d2 :: t2, h =>
      cases d1 <;> cases d2 <;> (try (simp [Serves, kindOK] at h; done))
      next u u2 =>
      simp only [popRandom]
      by_cases hu : u < half
      · simp only [hu, if_true, List.cons_append, Serves, kindOK, true_and] at h ⊢
        obtain ⟨p', t', e1, e2, e3, e4, e5⟩ := removePeaks_total cfg.dim _ rs peaks t2 hd h
        exact ⟨p', t', e1, e2, e3, by simp [e4, removeReqs_length], e5⟩
      · simp only [hu, if_false, List.cons_append, Serves, kindOK, true_and] at h ⊢
        obtain ⟨p', t', e1, e2, e3, e4, e5⟩ := addPeaks_total cfg _ rs peaks t2 hd h
        exact ⟨p', t', e1, e2, e3, by simp [e4], e5⟩

/-- **Totality of `changePeaks`**: if the tape answers the request sequence `changeReqs` (right kinds,
indices in range, at least that many draws), the call succeeds, consumes exactly those draws and
leaves `newLen` peaks. -/
theorem changePeaks_total' (cfg : Config α) (rs : List Req) (peaks : List (Peak α)) (t : Tape α)
    (hd : DimOK cfg.dim peaks) (h : Serves (changeReqs cfg peaks.length t ++ rs) t) :
    ∃ p' t', changePeaks cfg peaks t = some (p', t') ∧ p'.length = newLen cfg peaks.length t ∧
      DimOK cfg.dim p' ∧ t' = t.drop (changeReqs cfg peaks.length t).length ∧ Serves rs t' := by
  unfold changeReqs at h ⊢
  rw [List.append_assoc] at h
  obtain ⟨p1, t1, e1, e2, e3, e4, h1⟩ := changeNumber_total cfg _ peaks t hd h
  rw [← e2] at h1
  obtain ⟨p2, t2, f1, f2, f3, f4, h2⟩ := changeAll_total cfg rs p1 t1 e3 h1
  refine ⟨p2, t2, by simp only [changePeaks, e1, f1], by rw [f2, e2], f3, ?_, h2⟩
  rw [f4, e4, e2, List.length_append, List.drop_drop]

/-- the tape answers `k` successive calls -/
def ServesTimes (cfg : Config α) : Nat → Nat → Tape α → Prop
  | 0, _, _ => True
  | k + 1, len, t => Serves (changeReqs cfg len t) t ∧
      ServesTimes cfg k (newLen cfg len t) (t.drop (changeReqs cfg len t).length)

theorem changeTimes_total (cfg : Config α) (k : Nat) (peaks : List (Peak α)) (t : Tape α)
    (hd : DimOK cfg.dim peaks) (h : ServesTimes cfg k peaks.length t) :
    ∃ p' t', changeTimes cfg k peaks t = some (p', t') ∧ DimOK cfg.dim p' := by
  induction k generalizing peaks t with
  | zero => exact ⟨peaks, t, rfl, hd⟩
  | succ j ih =>
    obtain ⟨h1, h2⟩ := h
    obtain ⟨p1, t1, e1, e2, e3, e4, _⟩ := changePeaks_total' cfg [] peaks t hd (by simpa using h1)
    rw [← e2, ← e4] at h2
    obtain ⟨p2, t2, f1, f2⟩ := ih p1 t1 e3 h2
    exact ⟨p2, t2, by simp only [changeTimes, e1, f1], f2⟩

/-- the length bound: with limits `[mn, mx]` and the count inside them, one call asks for at most
`2 + (mx-mn)(2·dim+3) + mx(dim+2)` draws; without limits exactly `len·(dim+2)`. -/
theorem changeReqs_length_le (cfg : Config α) (len : Nat) (t : Tape α) (mn mx : Int)
    (hl : cfg.limits = some (mn, mx)) (h1 : mn ≤ (len : Int)) (h2 : (len : Int) ≤ mx) :
    (changeReqs cfg len t).length ≤
      2 + (mx - mn).toNat * (2 * cfg.dim + 3) + mx.toNat * (cfg.dim + 2) := by
  have key : ∀ (b : Bool) (n : Nat), plan cfg len t = some (b, n) →
      n ≤ (mx - mn).toNat ∧ (if b then len - n else len + n) ≤ mx.toNat := by
    intro b n hp
    unfold plan at hp
    simp only [hl] at hp
    split at hp
    · split at hp
      · simp only [Option.some.injEq, Prod.mk.injEq] at hp
        obtain ⟨rfl, rfl⟩ := hp
        simp only [imin, if_true]; split <;> omega
      · simp only [Option.some.injEq, Prod.mk.injEq] at hp
        obtain ⟨rfl, rfl⟩ := hp
        simp only [imin]; split <;> simp <;> omega
    · simp only [Option.some.injEq, Prod.mk.injEq] at hp
      obtain ⟨rfl, rfl⟩ := hp
      simp; omega
  unfold changeReqs numberReqs newLen
  cases hp : plan cfg len t with
  | none => unfold plan at hp; simp [hl] at hp; split at hp <;> (try split at hp) <;> simp at hp
  | some bn =>
    obtain ⟨b, n⟩ := bn
    obtain ⟨k1, k2⟩ := key b n hp
    cases b
    · simp only [List.length_append, List.length_cons, addReqs_length, allReqs_length] at *
      simp only [Bool.false_eq_true, if_false] at k2
      have a1 := Nat.mul_le_mul_right (2 * cfg.dim + 3) k1
      have a2 := Nat.mul_le_mul_right (cfg.dim + 2) k2
      omega
    · simp only [List.length_append, List.length_cons, removeReqs_length, allReqs_length] at *
      simp only [if_true] at k2
      have a1 := Nat.mul_le_mul_right (2 * cfg.dim + 3) k1
      have a2 := Nat.mul_le_mul_right (cfg.dim + 2) k2
      have : (mx - mn).toNat ≤ (mx - mn).toNat * (2 * cfg.dim + 3) := Nat.le_mul_of_pos_right _ (by omega)
      omega

theorem changeReqs_length_nolimits (cfg : Config α) (len : Nat) (t : Tape α) (hl : cfg.limits = none) :
    (changeReqs cfg len t).length = len * (cfg.dim + 2) := by
  simp [changeReqs, numberReqs, newLen, plan, hl, allReqs_length]

/-! ### `__init__` -/

theorem popMany_length (pop : Tape α → Option (α × Tape α)) (n : Nat) (t : Tape α) (xs : List α) (t' : Tape α)
    (h : popMany pop n t = some (xs, t')) : xs.length = n := by
  induction n generalizing t xs t' with
  | zero => simp only [popMany, Option.some.injEq, Prod.mk.injEq] at h; rw [← h.1]; rfl
  | succ m ih =>
    simp only [popMany] at h
    split at h
    · simp at h
    · split at h
      · simp at h
      · next ys t2 hy =>
        simp only [Option.some.injEq, Prod.mk.injEq] at h
        rw [← h.1, List.length_cons, ih _ _ _ hy]

theorem popGroups_spec (pop : Tape α → Option (α × Tape α)) (dim n : Nat) (t : Tape α) (gs : List (List α))
    (t' : Tape α) (h : popGroups pop dim n t = some (gs, t')) : gs.length = n ∧ ∀ g ∈ gs, g.length = dim := by
  induction n generalizing t gs t' with
  | zero => simp only [popGroups, Option.some.injEq, Prod.mk.injEq] at h; rw [← h.1]; simp
  | succ m ih =>
    simp only [popGroups] at h
    split at h
    · simp at h
    · next g t1 hg =>
      split at h
      · simp at h
      · next gs2 t2 h2 =>
        simp only [Option.some.injEq, Prod.mk.injEq] at h
        obtain ⟨a, b⟩ := ih _ _ _ h2
        rw [← h.1]
        refine ⟨by simp [a], ?_⟩
        intro g' hg'
        simp only [List.mem_cons] at hg'
        rcases hg' with rfl | hg'
        · exact popMany_length _ _ _ _ _ hg
        · exact b g' hg'

theorem initScalars_length (u : α) (n : Nat) (t : Tape α) (xs : List α) (t' : Tape α)
    (h : initScalars u n t = some (xs, t')) : xs.length = n := by
  unfold initScalars at h
  by_cases hc : u < RealLike.ofNat 0 ∨ RealLike.ofNat 0 < u
  · simp only [hc, if_true, Option.some.injEq, Prod.mk.injEq] at h; rw [← h.1]; simp
  · simp only [hc, if_false] at h; exact popMany_length _ _ _ _ _ h

end C20L
