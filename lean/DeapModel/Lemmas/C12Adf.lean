/-
Helper lemmas for C12: compiling one ADF individual does not depend on what was compiled before.
-/
import DeapModel.Core.GpCompile

namespace GpCompile
open GpTree

theorem find_none_of_keys {β : Type} {d1 d2 : List (Str × β)} (hk : d1.map (·.1) = d2.map (·.1)) (x : Str)
    (h : d2.find? (fun e => e.1 == x) = none) : d1.find? (fun e => e.1 == x) = none := by
  rw [List.find?_eq_none] at h ⊢
  intro e he
  have : e.1 ∈ d1.map (·.1) := List.mem_map.2 ⟨e, he, rfl⟩
  rw [hk] at this
  obtain ⟨e', he', hee⟩ := List.mem_map.1 this
  have := h e' he'
  simpa [hee] using this

/-- rebinding over a context that still holds the ADFs of an earlier individual gives the same
namespace as rebinding over the original context, because every ADF name is bound again -/
theorem withAdfs_override (env : Env) {d1 d2 : List (Str × (List Val → Option Val))}
    (hk : d1.map (·.1) = d2.map (·.1)) : withAdfs (withAdfs env d1) d2 = withAdfs env d2 := by
  unfold withAdfs
  congr 1 <;> funext x <;> cases h : d2.find? (fun e => e.1 == x) with
  | some e => rfl
  | none => simp [find_none_of_keys hk x h]

theorem sessGo_keys : ∀ (items : List (PSig × Env × Tree)), (sessGo items).1.map (·.1) = items.map (·.1.name)
  | [] => rfl
  | (sg, ctx, t) :: rest => by simp [sessGo, sessGo_keys rest]

theorem mkItems_names : ∀ (sigs : List PSig) (cs cs' : List Env) (A B : List Tree),
    cs.length = cs'.length → A.length = B.length →
    (mkItems sigs cs A).map (·.1.name) = (mkItems sigs cs' B).map (·.1.name)
  | [], _, _, _, _, _, _ => by simp [mkItems]
  | sg :: sgs, [], [], _, _, _, _ => by simp [mkItems]
  | sg :: sgs, c :: cs, c' :: cs', [], [], _, _ => by simp [mkItems]
  | sg :: sgs, c :: cs, c' :: cs', a :: A, b :: B, h1, h2 => by
    simp [mkItems, mkItems_names sgs cs cs' A B (by simpa using h1) (by simpa using h2)]
  | _ :: _, [], _ :: _, _, _, h1, _ => by simp at h1
  | _ :: _, _ :: _, [], _, _, h1, _ => by simp at h1
  | _ :: _, _ :: _, _ :: _, [], _ :: _, _, h2 => by simp at h2
  | _ :: _, _ :: _, _ :: _, _ :: _, [], _, h2 => by simp at h2

theorem sessGo_ctx_length : ∀ (sigs : List PSig) (cs : List Env) (A : List Tree),
    sigs.length = cs.length → cs.length = A.length → (sessGo (mkItems sigs cs A)).2.1.length = cs.length
  | [], [], [], _, _ => rfl
  | sg :: sgs, c :: cs, a :: A, h1, h2 => by
    simp [mkItems, sessGo, sessGo_ctx_length sgs cs A (by simpa using h1) (by simpa using h2)]
  | [], _ :: _, _, h1, _ => by simp at h1
  | _ :: _, [], _, h1, _ => by simp at h1
  | _ :: _, _ :: _, [], _, h2 => by simp at h2
  | [], [], _ :: _, _, h2 => by simp at h2

/-- history independence: compiling `B` in the contexts left behind by compiling `A` yields the same
`adfdict` and the same callable as compiling `B` in the original contexts -/
theorem sessGo_independent : ∀ (sigs : List PSig) (cs : List Env) (A B : List Tree),
    sigs.length = cs.length → cs.length = A.length → A.length = B.length →
    (sessGo (mkItems sigs (sessGo (mkItems sigs cs A)).2.1 B)).1 = (sessGo (mkItems sigs cs B)).1 ∧
    (sessGo (mkItems sigs (sessGo (mkItems sigs cs A)).2.1 B)).2.2 = (sessGo (mkItems sigs cs B)).2.2
  | [], [], [], [], _, _, _ => by simp [mkItems, sessGo]
  | sg :: sgs, c :: cs, a :: A, b :: B, h1, h2, h3 => by
    have h1' : sgs.length = cs.length := by simpa using h1
    have h2' : cs.length = A.length := by simpa using h2
    have h3' : A.length = B.length := by simpa using h3
    obtain ⟨ih1, _⟩ := sessGo_independent sgs cs A B h1' h2' h3'
    have hkeys : (sessGo (mkItems sgs cs A)).1.map (·.1) = (sessGo (mkItems sgs cs B)).1.map (·.1) := by
      rw [sessGo_keys, sessGo_keys]
      exact mkItems_names sgs cs cs A B rfl h3'
    simp only [mkItems, sessGo]
    rw [ih1, withAdfs_override c hkeys]
    exact ⟨rfl, rfl⟩
  | [], _ :: _, _, _, h1, _, _ => by simp at h1
  | _ :: _, [], _, _, h1, _, _ => by simp at h1
  | _ :: _, _ :: _, [], _, _, h2, _ => by simp at h2
  | [], [], _ :: _, _, _, h2, _ => by simp at h2
  | _ :: _, _ :: _, _ :: _, [], _, _, h3 => by simp at h3
  | [], [], [], _ :: _, _, _, h3 => by simp at h3

/-- the session model started from the sets' own contexts is the pure `compileADF` -/
theorem sessGo_eq_sem : ∀ (sigs : List PSig) (cs : List Env) (A : List Tree),
    (sessGo (mkItems sigs cs A)).1 =
      semADF ((mkItems sigs cs A).map (fun x => (⟨x.1.name, x.1.arguments, x.2.1⟩, x.2.2)))
  | [], _, _ => by simp [mkItems, sessGo, semADF]
  | sg :: sgs, [], _ => by simp [mkItems, sessGo, semADF]
  | sg :: sgs, c :: cs, [] => by simp [mkItems, sessGo, semADF]
  | sg :: sgs, c :: cs, a :: A => by
    simp only [mkItems, sessGo, List.map_cons, semADF]
    rw [sessGo_eq_sem sgs cs A]

end GpCompile
