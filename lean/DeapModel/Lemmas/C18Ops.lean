/-
C18 helper lemmas, part B: the single operations of the logbook model (`pop`, `delIndex`,
`delSlice`, `record`, chapter lookup).
-/
import DeapModel.Lemmas.C18Lists

set_option linter.unusedSimpArgs false
set_option linter.unusedVariables false

namespace C18L
open Logbook

/-- the list position addressed by a Python index on a list of length `n` (`none`: out of range) -/
def pos? (n : Nat) (i : Int) : Option Nat :=
  if 0 ≤ position n i ∧ position n i < (n : Int) then some (position n i).toNat else none

theorem pos?_nat (n i : Nat) : pos? n (i : Int) = if i < n then some i else none := by
  have h0 : ¬ ((i : Int) < 0) := by omega
  simp only [pos?, position, h0, if_false]
  by_cases h : i < n
  · have : (0 : Int) ≤ i ∧ (i : Int) < n := ⟨by omega, by omega⟩
    simp [h, this]
  · have : ¬ ((0 : Int) ≤ i ∧ (i : Int) < n) := by omega
    simp [h, this]

theorem pos?_lt {n : Nat} {i : Int} {p : Nat} (h : pos? n i = some p) : p < n := by
  unfold pos? at h
  split at h
  · next hc => obtain rfl := Option.some.inj h; omega
  · exact absurd h (by simp)

@[simp] theorem rows_mk (r : List Row) (c : List (Name × LB)) (b : Nat) (h : Option (List Name)) (l : Bool) :
    (LB.mk r c b h l).rows = r := rfl
@[simp] theorem chapters_mk (r : List Row) (c : List (Name × LB)) (b : Nat) (h : Option (List Name)) (l : Bool) :
    (LB.mk r c b h l).chapters = c := rfl
@[simp] theorem buffindex_mk (r : List Row) (c : List (Name × LB)) (b : Nat) (h : Option (List Name)) (l : Bool) :
    (LB.mk r c b h l).buffindex = b := rfl
@[simp] theorem header_mk (r : List Row) (c : List (Name × LB)) (b : Nat) (h : Option (List Name)) (l : Bool) :
    (LB.mk r c b h l).header = h := rfl
@[simp] theorem logHeader_mk (r : List Row) (c : List (Name × LB)) (b : Nat) (h : Option (List Name)) (l : Bool) :
    (LB.mk r c b h l).logHeader = l := rfl

@[simp] theorem LB.eta (lb : LB) :
    LB.mk lb.rows lb.chapters lb.buffindex lb.header lb.logHeader = lb := by cases lb; rfl

/-- `pop` with an in-range index -/
theorem pop_in (lb : LB) (i : Int) (p : Nat) (h : pos? lb.rows.length i = some p) :
    pop i lb = (lb.rows[p]?, LB.mk (lb.rows.eraseIdx p) lb.chapters
      (if p < lb.buffindex then lb.buffindex - 1 else lb.buffindex) lb.header lb.logHeader) := by
  cases lb with
  | mk rows chs b hd lh =>
    have h' : pos? rows.length i = some p := h
    unfold pos? at h'
    split at h'
    · next hc =>
      obtain rfl := Option.some.inj h'
      by_cases hpb : (position rows.length i).toNat < b
      · have e : (0 ≤ position rows.length i ∧ position rows.length i < (b : Int)) := by omega
        simp [pop, hc, e, hpb, LB.rows, LB.chapters, LB.buffindex, LB.header, LB.logHeader]
      · have e : ¬ (0 ≤ position rows.length i ∧ position rows.length i < (b : Int)) := by omega
        simp [pop, hc, e, hpb, LB.rows, LB.chapters, LB.buffindex, LB.header, LB.logHeader]
        intro h2; omega
    · exact absurd h' (by simp)

/-- `pop` with an out-of-range index raises and changes nothing (while `buffindex ≤ len`) -/
theorem pop_out (lb : LB) (i : Int) (h : pos? lb.rows.length i = none)
    (hb : lb.buffindex ≤ lb.rows.length) : pop i lb = (none, lb) := by
  cases lb with
  | mk rows chs b hd lh =>
    simp only [LB.rows, LB.buffindex] at h hb
    unfold pos? at h
    split at h
    · exact absurd h (by simp)
    · next hc =>
      have hb' : ¬ (0 ≤ position rows.length i ∧ position rows.length i < (b : Int)) := by omega
      simp [pop, hc, hb']

/-- all chapters are as long as the logbook -/
def Aligned (lb : LB) : Prop := ∀ p ∈ lb.chapters, p.2.rows.length = lb.rows.length

/-- `chapter.pop(key)` for every chapter, when each has `n` rows and `key` addresses position `p` -/
theorem popChapters_aligned (key : Int) (n p : Nat) (h : pos? n key = some p)
    (chs : List (Name × LB)) (hc : ∀ q ∈ chs, q.2.rows.length = n) :
    popChapters key chs = (chs.map fun q => (q.1, (pop key q.2).2), false) ∧
    ∀ q ∈ chs, (pop key q.2).2.rows = q.2.rows.eraseIdx p := by
  induction chs with
  | nil => simp [popChapters]
  | cons q qs ih =>
    obtain ⟨k, ch⟩ := q
    have hq : ch.rows.length = n := hc (k, ch) (by simp)
    have hpop := pop_in ch key p (by rw [hq]; exact h)
    have ih' := ih (fun q hq => hc q (by simp [hq]))
    have hp : p < ch.rows.length := by rw [hq]; exact pos?_lt h
    constructor
    · simp only [popChapters, hpop, List.getElem?_eq_getElem hp, List.map_cons, ih'.1]
    · intro q hq
      rcases List.mem_cons.1 hq with rfl | hq
      · simp [hpop, LB.rows]
      · exact ih'.2 q hq

/-- `del logbook[key]` on an aligned logbook: the addressed row leaves the logbook and every
chapter, nothing is raised. -/
theorem delIndex_aligned (lb : LB) (key : Int) (p : Nat) (h : pos? lb.rows.length key = some p)
    (ha : Aligned lb) :
    delIndex key lb = (LB.mk (lb.rows.eraseIdx p)
      (lb.chapters.map fun q => (q.1, (pop key q.2).2))
      (if p < lb.buffindex then lb.buffindex - 1 else lb.buffindex) lb.header lb.logHeader, false) ∧
    ∀ q ∈ lb.chapters, (pop key q.2).2.rows = q.2.rows.eraseIdx p := by
  have hp : p < lb.rows.length := pos?_lt h
  have hc := popChapters_aligned key lb.rows.length p h lb.chapters ha
  refine ⟨?_, hc.2⟩
  simp only [delIndex, pop_in lb key p h, List.getElem?_eq_getElem hp, hc.1]

/-- out of range: `IndexError`, nothing changes -/
theorem delIndex_out (lb : LB) (key : Int) (h : pos? lb.rows.length key = none)
    (hb : lb.buffindex ≤ lb.rows.length) : delIndex key lb = (lb, true) := by
  simp [delIndex, pop_out lb key h hb]

/-- whatever the chapters do, the rows and `buffindex` of the logbook after `del logbook[key]`
are those after `pop(key)` -/
theorem delIndex_rows (lb : LB) (key : Int) :
    (delIndex key lb).1.rows = (pop key lb).2.rows ∧
    (delIndex key lb).1.buffindex = (pop key lb).2.buffindex ∧
    (delIndex key lb).1.logHeader = (pop key lb).2.logHeader := by
  unfold delIndex
  rcases hpop : pop key lb with ⟨r, lb'⟩
  cases r with
  | none => simp
  | some row => cases lb'; simp [LB.rows, LB.buffindex, LB.logHeader]

theorem pop_logHeader (lb : LB) (key : Int) : (pop key lb).2.logHeader = lb.logHeader := by
  cases lb with
  | mk rows chs b hd lh => simp only [pop]; split <;> rfl

theorem pop_chapters (lb : LB) (key : Int) : (pop key lb).2.chapters = lb.chapters := by
  cases lb with
  | mk rows chs b hd lh => simp only [pop]; split <;> rfl

/-! ### chapters as a dictionary -/

theorem getChapter_modify (g : LB → LB) (key c : Name) (chs : List (Name × LB)) :
    getChapter c (modifyChapter g key chs) =
      if c = key then some (g ((getChapter key chs).getD LB.empty)) else getChapter c chs := by
  induction chs with
  | nil =>
    by_cases h : c = key
    · subst h; simp [getChapter, modifyChapter, List.lookup]
    · have : (c == key) = false := by simpa using h
      simp [getChapter, modifyChapter, List.lookup, h, this]
  | cons q qs ih =>
    obtain ⟨k, ch⟩ := q
    simp only [getChapter] at ih ⊢
    simp only [modifyChapter]
    by_cases hk : k = key
    · subst hk
      by_cases h : c = k
      · subst h; simp [List.lookup]
      · have : (c == k) = false := by simpa using h
        simp [List.lookup, h, this]
    · by_cases h : c = key
      · subst h
        have : (c == k) = false := by simpa using Ne.symm hk
        simp [hk, List.lookup, this, ih]
      · simp only [hk, if_false, List.lookup, h]
        by_cases hck : c = k
        · subst hck; simp
        · have : (c == k) = false := by simpa using hck
          simp [this, ih, h]

theorem keys_modify (g : LB → LB) (key : Name) (chs : List (Name × LB)) :
    (modifyChapter g key chs).map (·.1) =
      if key ∈ chs.map (·.1) then chs.map (·.1) else chs.map (·.1) ++ [key] := by
  induction chs with
  | nil => simp [modifyChapter]
  | cons q qs ih =>
    obtain ⟨k, ch⟩ := q
    simp only [modifyChapter]
    by_cases hk : k = key
    · subst hk; simp
    · have hk' : ¬ key = k := fun e => hk e.symm
      simp only [hk, if_false, List.map_cons, ih, List.mem_cons, hk', false_or]
      split <;> simp

end C18L
