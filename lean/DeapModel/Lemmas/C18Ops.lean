/-
C18 helper lemmas, part B: the single operations of the logbook model (`pop`, `delIndex`,
`delSlice`, `record`, chapter lookup).
-/
import DeapModel.Lemmas.C18Lists

set_option linter.unusedSimpArgs false
set_option linter.unusedVariables false

namespace C18L
open Logbook

/-- the list position addressed by a Python index on a list of length `n` (`none`: out of range) -/
def pos? (n : Nat) (i : Int) : Option Nat :=
  if 0 ≤ position n i ∧ position n i < (n : Int) then some (position n i).toNat else none

theorem pos?_nat (n i : Nat) : pos? n (i : Int) = if i < n then some i else none := by
  have h0 : ¬ ((i : Int) < 0) := by omega
  simp only [pos?, position, h0, if_false]
  by_cases h : i < n
  · have : (0 : Int) ≤ i ∧ (i : Int) < n := ⟨by omega, by omega⟩
    simp [h, this]
  · have : ¬ ((0 : Int) ≤ i ∧ (i : Int) < n) := by omega
    simp [h, this]

theorem pos?_lt {n : Nat} {i : Int} {p : Nat} (h : pos? n i = some p) : p < n := by
  unfold pos? at h
  split at h
  · next hc => obtain rfl := Option.some.inj h; omega
  · exact absurd h (by simp)

theorem pos?_some {n : Nat} {i : Int} {p : Nat} (h : pos? n i = some p) :
    (0 ≤ position n i ∧ position n i < (n : Int)) ∧ (position n i).toNat = p := by
  unfold pos? at h
  by_cases hc : (0 ≤ position n i ∧ position n i < (n : Int))
  · rw [if_pos hc] at h; exact ⟨hc, Option.some.inj h⟩
  · rw [if_neg hc] at h; exact absurd h (by simp)

theorem pos?_none {n : Nat} {i : Int} (h : pos? n i = none) :
    ¬ (0 ≤ position n i ∧ position n i < (n : Int)) := by
  unfold pos? at h
  by_cases hc : (0 ≤ position n i ∧ position n i < (n : Int))
  · rw [if_pos hc] at h; exact absurd h (by simp)
  · exact hc

@[simp] theorem rows_mk (r : List Row) (c : List (Name × LB)) (b : Nat) (h : Option (List Name)) (l s : Bool) :
    (LB.mk r c b h l s).rows = r := rfl
@[simp] theorem chapters_mk (r : List Row) (c : List (Name × LB)) (b : Nat) (h : Option (List Name)) (l s : Bool) :
    (LB.mk r c b h l s).chapters = c := rfl
@[simp] theorem buffindex_mk (r : List Row) (c : List (Name × LB)) (b : Nat) (h : Option (List Name)) (l s : Bool) :
    (LB.mk r c b h l s).buffindex = b := rfl
@[simp] theorem header_mk (r : List Row) (c : List (Name × LB)) (b : Nat) (h : Option (List Name)) (l s : Bool) :
    (LB.mk r c b h l s).header = h := rfl
@[simp] theorem logHeader_mk (r : List Row) (c : List (Name × LB)) (b : Nat) (h : Option (List Name)) (l s : Bool) :
    (LB.mk r c b h l s).logHeader = l := rfl
@[simp] theorem headerStreamed_mk (r : List Row) (c : List (Name × LB)) (b : Nat) (h : Option (List Name)) (l s : Bool) :
    (LB.mk r c b h l s).headerStreamed = s := rfl

@[simp] theorem LB.eta (lb : LB) :
    LB.mk lb.rows lb.chapters lb.buffindex lb.header lb.logHeader lb.headerStreamed = lb := by cases lb; rfl

/-! ### `pop` on logbooks whose chapters are aligned at every depth -/

mutual
/-- every chapter, at every depth, has as many rows as its parent, and every stream position is
within its logbook -/
def DeepAligned : LB → Prop
  | .mk rows chs b _ _ _ => b ≤ rows.length ∧ AllAligned rows.length chs
def AllAligned (n : Nat) : List (Name × LB) → Prop
  | [] => True
  | (_, ch) :: rest => ch.rows.length = n ∧ DeepAligned ch ∧ AllAligned n rest
end

mutual
/-- position `p` removed from the logbook and from every chapter at every depth, each stream
position following the removal (specification of `pop` / `del`) -/
def eraseDeep (p : Nat) : LB → LB
  | .mk rows chs b h lh hs => .mk (rows.eraseIdx p) (eraseDeepAll p chs) (if p < b then b - 1 else b) h lh hs
def eraseDeepAll (p : Nat) : List (Name × LB) → List (Name × LB)
  | [] => []
  | (k, ch) :: rest => (k, eraseDeep p ch) :: eraseDeepAll p rest
end

theorem eraseDeepAll_eq_map (p : Nat) (chs : List (Name × LB)) :
    eraseDeepAll p chs = chs.map fun q => (q.1, eraseDeep p q.2) := by
  induction chs with
  | nil => rfl
  | cons q qs ih => obtain ⟨k, ch⟩ := q; simp [eraseDeepAll, ih]

theorem eraseDeep_rows (p : Nat) (lb : LB) : (eraseDeep p lb).rows = lb.rows.eraseIdx p := by
  cases lb; simp [eraseDeep]
theorem eraseDeep_chapters (p : Nat) (lb : LB) :
    (eraseDeep p lb).chapters = lb.chapters.map fun q => (q.1, eraseDeep p q.2) := by
  cases lb; simp [eraseDeep, eraseDeepAll_eq_map]
theorem eraseDeep_buffindex (p : Nat) (lb : LB) :
    (eraseDeep p lb).buffindex = if p < lb.buffindex then lb.buffindex - 1 else lb.buffindex := by
  cases lb; rfl
theorem eraseDeep_header (p : Nat) (lb : LB) :
    (eraseDeep p lb).header = lb.header ∧ (eraseDeep p lb).logHeader = lb.logHeader ∧
    (eraseDeep p lb).headerStreamed = lb.headerStreamed := by
  cases lb; simp [eraseDeep]

theorem allAligned_iff (n : Nat) (chs : List (Name × LB)) :
    AllAligned n chs ↔ ∀ q ∈ chs, q.2.rows.length = n ∧ DeepAligned q.2 := by
  induction chs with
  | nil => simp [AllAligned]
  | cons q qs ih => obtain ⟨k, ch⟩ := q; simp [AllAligned, ih, and_assoc]

theorem deepAligned_iff (lb : LB) :
    DeepAligned lb ↔ lb.buffindex ≤ lb.rows.length ∧
      ∀ q ∈ lb.chapters, q.2.rows.length = lb.rows.length ∧ DeepAligned q.2 := by
  cases lb; simp [DeepAligned, allAligned_iff]

private theorem bcond (n : Nat) (i : Int) (p b : Nat) (h : pos? n i = some p) :
    (if 0 ≤ position n i ∧ position n i < (b : Int) then b - 1 else b) = if p < b then b - 1 else b := by
  unfold pos? at h
  split at h
  · next hc =>
    obtain rfl := Option.some.inj h
    by_cases hpb : (position n i).toNat < b
    · have e : (0 ≤ position n i ∧ position n i < (b : Int)) := by omega
      simp [e, hpb]
    · have e : ¬ (0 ≤ position n i ∧ position n i < (b : Int)) := by omega
      simp [e, hpb]
  · exact absurd h (by simp)

private theorem bcond_out (n : Nat) (i : Int) (b : Nat) (h : pos? n i = none) (hb : b ≤ n) :
    (if 0 ≤ position n i ∧ position n i < (b : Int) then b - 1 else b) = b := by
  unfold pos? at h
  split at h
  · exact absurd h (by simp)
  · next hc =>
    have : ¬ (0 ≤ position n i ∧ position n i < (b : Int)) := by omega
    simp [this]

mutual
/-- `pop` with an in-range index on a deep-aligned logbook: nothing is raised, the addressed row
is returned and leaves the logbook and every chapter at every depth. -/
theorem pop_deep (index : Int) (p : Nat) : ∀ (lb : LB), DeepAligned lb →
    pos? lb.rows.length index = some p → pop index lb = (lb.rows[p]?, eraseDeep p lb)
  | .mk rows chs b h lh hs, hd, hp => by
    have hd' : b ≤ rows.length ∧ AllAligned rows.length chs := by simpa [DeepAligned] using hd
    have hp' : pos? rows.length index = some p := hp
    have hc := popChapters_deep index p rows.length chs hd'.2 hp'
    obtain ⟨hin, hpe⟩ := pos?_some hp'
    simp only [pop, hc, bcond rows.length index p b hp']
    rw [if_pos hin, hpe]
    simp [eraseDeep]
theorem popChapters_deep (index : Int) (p n : Nat) : ∀ (chs : List (Name × LB)), AllAligned n chs →
    pos? n index = some p → popChapters index chs = (eraseDeepAll p chs, false)
  | [], _, _ => rfl
  | (k, ch) :: rest, ha, hp => by
    have ha' : ch.rows.length = n ∧ DeepAligned ch ∧ AllAligned n rest := by simpa [AllAligned] using ha
    have h1 := pop_deep index p ch ha'.2.1 (by rw [ha'.1]; exact hp)
    have h2 := popChapters_deep index p n rest ha'.2.2 hp
    have hpl : p < ch.rows.length := by rw [ha'.1]; exact pos?_lt hp
    simp only [popChapters, h1, List.getElem?_eq_getElem hpl, h2, eraseDeepAll]
end

mutual
/-- `pop` with an out-of-range index on a deep-aligned logbook raises and changes nothing. -/
theorem pop_out_deep (index : Int) : ∀ (lb : LB), DeepAligned lb →
    pos? lb.rows.length index = none → pop index lb = (none, lb)
  | .mk rows chs b h lh hs, hd, hp => by
    have hd' : b ≤ rows.length ∧ AllAligned rows.length chs := by simpa [DeepAligned] using hd
    have hp' : pos? rows.length index = none := hp
    have hout := pos?_none hp'
    have hb := bcond_out rows.length index b hp' hd'.1
    rcases popChapters_out index rows.length chs hd'.2 hp' with hc | hc
    · simp only [pop, hc, hb]; rw [if_neg hout]
    · simp only [pop, hc, hb]
theorem popChapters_out (index : Int) (n : Nat) : ∀ (chs : List (Name × LB)), AllAligned n chs →
    pos? n index = none → popChapters index chs = (chs, false) ∨ popChapters index chs = (chs, true)
  | [], _, _ => Or.inl rfl
  | (k, ch) :: rest, ha, hp => by
    have ha' : ch.rows.length = n ∧ DeepAligned ch ∧ AllAligned n rest := by simpa [AllAligned] using ha
    have h1 := pop_out_deep index ch ha'.2.1 (by rw [ha'.1]; exact hp)
    right
    simp only [popChapters, h1]
end

mutual
theorem eraseDeep_aligned (p : Nat) : ∀ (lb : LB), DeepAligned lb → DeepAligned (eraseDeep p lb)
  | .mk rows chs b h lh hs, hd => by
    have hd' : b ≤ rows.length ∧ AllAligned rows.length chs := by simpa [DeepAligned] using hd
    have h2 := eraseDeepAll_aligned p rows.length chs hd'.2
    simp only [eraseDeep, DeepAligned, List.length_eraseIdx]
    refine ⟨?_, h2⟩
    split <;> split <;> omega
theorem eraseDeepAll_aligned (p n : Nat) : ∀ (chs : List (Name × LB)), AllAligned n chs →
    AllAligned (if p < n then n - 1 else n) (eraseDeepAll p chs)
  | [], _ => by simp [eraseDeepAll, AllAligned]
  | (k, ch) :: rest, ha => by
    have ha' : ch.rows.length = n ∧ DeepAligned ch ∧ AllAligned n rest := by simpa [AllAligned] using ha
    have h1 := eraseDeep_aligned p ch ha'.2.1
    have h2 := eraseDeepAll_aligned p n rest ha'.2.2
    simp only [eraseDeepAll, AllAligned]
    exact ⟨by rw [eraseDeep_rows, List.length_eraseIdx, ha'.1], h1, h2⟩
end

/-- `del logbook[key]` = `pop(key)` with the exception as a flag -/
theorem delIndex_deep (lb : LB) (key : Int) (p : Nat) (hd : DeepAligned lb)
    (h : pos? lb.rows.length key = some p) : delIndex key lb = (eraseDeep p lb, false) := by
  have hp : p < lb.rows.length := pos?_lt h
  simp only [delIndex, pop_deep key p lb hd h, List.getElem?_eq_getElem hp]

theorem delIndex_out (lb : LB) (key : Int) (hd : DeepAligned lb)
    (h : pos? lb.rows.length key = none) : delIndex key lb = (lb, true) := by
  simp [delIndex, pop_out_deep key lb hd h]

theorem delIndex_eq_pop (lb : LB) (key : Int) : (delIndex key lb).1 = (pop key lb).2 := by
  unfold delIndex
  rcases pop key lb with ⟨r, lb'⟩
  cases r <;> rfl

/-! ### chapters as a dictionary -/

theorem getChapter_modify (g : LB → LB) (key c : Name) (chs : List (Name × LB)) :
    getChapter c (modifyChapter g key chs) =
      if c = key then some (g ((getChapter key chs).getD LB.empty)) else getChapter c chs := by
  induction chs with
  | nil =>
    by_cases h : c = key
    · subst h; simp [getChapter, modifyChapter, List.lookup]
    · have : (c == key) = false := by simpa using h
      simp [getChapter, modifyChapter, List.lookup, h, this]
  | cons q qs ih =>
    obtain ⟨k, ch⟩ := q
    simp only [getChapter] at ih ⊢
    simp only [modifyChapter]
    by_cases hk : k = key
    · subst hk
      by_cases h : c = k
      · subst h; simp [List.lookup]
      · have : (c == k) = false := by simpa using h
        simp [List.lookup, h, this]
    · by_cases h : c = key
      · subst h
        have : (c == k) = false := by simpa using Ne.symm hk
        simp [hk, List.lookup, this, ih]
      · simp only [hk, if_false, List.lookup, h]
        by_cases hck : c = k
        · subst hck; simp
        · have : (c == k) = false := by simpa using hck
          simp [this, ih, h]

theorem keys_modify (g : LB → LB) (key : Name) (chs : List (Name × LB)) :
    (modifyChapter g key chs).map (·.1) =
      if key ∈ chs.map (·.1) then chs.map (·.1) else chs.map (·.1) ++ [key] := by
  induction chs with
  | nil => simp [modifyChapter]
  | cons q qs ih =>
    obtain ⟨k, ch⟩ := q
    simp only [modifyChapter]
    by_cases hk : k = key
    · subst hk; simp
    · have hk' : ¬ key = k := fun e => hk e.symm
      simp only [hk, if_false, List.map_cons, ih, List.mem_cons, hk', false_or]
      split <;> simp

end C18L
