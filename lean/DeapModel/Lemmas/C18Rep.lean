/-
C18 helper lemmas, part C: the logbook as the image of the list of surviving records
(`Rep`), preserved by every operation of a history.
-/
import DeapModel.Lemmas.C18Ops

set_option linter.unusedSimpArgs false
set_option linter.unusedVariables false

namespace C18L
open Logbook

/-! ### `record` -/

theorem recordAux_rows (inh : Row) (e : Entry) (lb : LB) :
    (recordAux inh e lb).rows = lb.rows ++ [dictUpdate e.scalars inh] := by
  cases e; cases lb; simp [recordAux, Entry.scalars]

theorem recordAux_buffindex (inh : Row) (e : Entry) (lb : LB) :
    (recordAux inh e lb).buffindex = lb.buffindex ∧ (recordAux inh e lb).header = lb.header ∧
    (recordAux inh e lb).logHeader = lb.logHeader := by
  cases e; cases lb; simp [recordAux]

theorem recordAux_chapters (inh : Row) (e : Entry) (lb : LB) :
    (recordAux inh e lb).chapters =
      recordDicts (dictUpdate e.scalars inh) inh e.dicts lb.chapters := by
  cases e; cases lb; simp [recordAux, Entry.scalars, Entry.dicts]

@[simp] theorem dictUpdate_nil (d : Row) : dictUpdate d [] = d := rfl

/-- the rows of the chapter named `c` (none yet = no rows) -/
def chRows (c : Name) (lb : LB) : List Row := ((getChapter c lb.chapters).map LB.rows).getD []

/-- what chapter `c` receives from a record: the dictionary's scalar entries updated with the
record's scalar fields -/
def chapterRow (c : Name) (e : Entry) : Option Row :=
  (e.dicts.lookup c).map fun sub => dictUpdate sub.scalars e.scalars

theorem keys_nodup_modify (g : LB → LB) (key : Name) (chs : List (Name × LB))
    (h : (chs.map (·.1)).Nodup) : ((modifyChapter g key chs).map (·.1)).Nodup := by
  rw [keys_modify]
  split
  · exact h
  · next hk => exact List.nodup_append.2 ⟨h, by simp, by
      intro a ha b hb; simp at hb; subst hb; intro e; subst e; exact hk ha⟩

/-- user-level `record` (nothing inherited): every dict-valued item reaches its chapter -/
theorem recordDicts_top (all : Row) (dicts : List (Name × Entry)) (chs : List (Name × LB))
    (hn : (dicts.map (·.1)).Nodup) (hc : (chs.map (·.1)).Nodup) :
    (∀ c, getChapter c (recordDicts all [] dicts chs) =
      match dicts.lookup c with
      | some sub => some (recordAux all sub ((getChapter c chs).getD LB.empty))
      | none => getChapter c chs) ∧
    ((recordDicts all [] dicts chs).map (·.1)).Nodup ∧
    (∀ c, c ∈ (recordDicts all [] dicts chs).map (·.1) ↔ c ∈ chs.map (·.1) ∨ c ∈ dicts.map (·.1)) := by
  induction dicts generalizing chs with
  | nil => simp [recordDicts, hc]
  | cons d ds ih =>
    obtain ⟨k, sub⟩ := d
    simp only [List.map_cons, List.nodup_cons] at hn
    have hc' := keys_nodup_modify (recordAux all sub) k chs hc
    obtain ⟨h1, h2, h3⟩ := ih (modifyChapter (recordAux all sub) k chs) hn.2 hc'
    have hrd : recordDicts all [] ((k, sub) :: ds) chs =
        recordDicts all [] ds (modifyChapter (recordAux all sub) k chs) := by
      simp [recordDicts, dictHas]
    rw [hrd]
    refine ⟨?_, h2, ?_⟩
    · intro c
      rw [h1 c, getChapter_modify]
      by_cases hck : c = k
      · subst hck
        have : ds.lookup c = none := by
          rw [List.lookup_eq_none_iff]
          intro p hp
          have hne : c ≠ p.1 := fun e => hn.1 (e ▸ List.mem_map_of_mem hp)
          simpa using hne
        simp [List.lookup, this]
      · have hb : (c == k) = false := by simpa using hck
        simp only [List.lookup, hb, hck, if_false]
    · intro c
      rw [h3 c, keys_modify]
      by_cases hk : k ∈ chs.map (·.1)
      · simp only [hk, if_true, List.map_cons, List.mem_cons]
        constructor
        · rintro (h | h); exact Or.inl h; exact Or.inr (Or.inr h)
        · rintro (h | h | h)
          · exact Or.inl h
          · subst h; exact Or.inl hk
          · exact Or.inr h
      · simp only [hk, if_false, List.mem_append, List.mem_singleton, List.map_cons, List.mem_cons]
        tauto

/-! ### the representation invariant -/

/-- `lb` is the image of the list `es` of surviving records, for records whose dict-valued keys
are exactly `C`: rows are the records' scalar parts in order, chapter `c` holds, in the same
order, what each record contributes to it, there are no other chapters. -/
structure Rep (C : List Name) (lb : LB) (es : List Entry) : Prop where
  rows : lb.rows = es.map Entry.scalars
  chapters : ∀ c ∈ C, (chRows c lb).map some = es.map (chapterRow c)
  keys : ∀ c ∈ lb.chapters.map (·.1), c ∈ C
  nodup : (lb.chapters.map (·.1)).Nodup
  buff : lb.buffindex ≤ lb.rows.length
  /-- the chapters have no sub-chapters (records of depth one) and their own stream position is in range -/
  flat : ∀ q ∈ lb.chapters, q.2.chapters = [] ∧ q.2.buffindex ≤ q.2.rows.length

theorem getChapter_of_mem (chs : List (Name × LB)) (hn : (chs.map (·.1)).Nodup) (q : Name × LB)
    (hq : q ∈ chs) : getChapter q.1 chs = some q.2 := by
  induction chs with
  | nil => simp at hq
  | cons r rs ih =>
    simp only [List.map_cons, List.nodup_cons] at hn
    rcases List.mem_cons.1 hq with rfl | hq
    · simp [getChapter, List.lookup]
    · have hne : q.1 ≠ r.1 := fun e => hn.1 (e ▸ List.mem_map_of_mem hq)
      have hb : (q.1 == r.1) = false := by simpa using hne
      have := ih hn.2 hq
      simp only [getChapter] at this ⊢
      obtain ⟨k, ch⟩ := r
      simp only [List.lookup, hb, this]

theorem Rep.aligned {C : List Name} {lb : LB} {es : List Entry} (h : Rep C lb es) :
    ∀ q ∈ lb.chapters, q.2.rows.length = lb.rows.length := by
  intro q hq
  have hk : q.1 ∈ C := h.keys q.1 (List.mem_map_of_mem hq)
  have hg := getChapter_of_mem lb.chapters h.nodup q hq
  have := congrArg List.length (h.chapters q.1 hk)
  simp only [chRows, hg, Option.map_some, Option.getD_some, List.length_map] at this
  rw [this, h.rows, List.length_map]

theorem Rep.deep {C : List Name} {lb : LB} {es : List Entry} (h : Rep C lb es) : DeepAligned lb := by
  rw [deepAligned_iff]
  refine ⟨h.buff, fun q hq => ⟨h.aligned q hq, ?_⟩⟩
  rw [deepAligned_iff]
  exact ⟨(h.flat q hq).2, by simp [(h.flat q hq).1]⟩

theorem Rep.empty (C : List Name) : Rep C LB.empty [] := by
  refine ⟨rfl, ?_, ?_, ?_, ?_, ?_⟩ <;> simp [LB.empty, LB.chapters, chRows, getChapter, LB.buffindex, LB.rows]

/-- the premise on a record: its dict-valued keys are distinct and are exactly `C` -/
def EntryOk (C : List Name) (e : Entry) : Prop :=
  ((e.dicts.map (·.1)).Nodup ∧ ∀ c, c ∈ e.dicts.map (·.1) ↔ c ∈ C) ∧ ∀ q ∈ e.dicts, q.2.dicts = []

theorem lookup_isSome_of_mem (dicts : List (Name × Entry)) (c : Name) (h : c ∈ dicts.map (·.1)) :
    ∃ sub, dicts.lookup c = some sub := by
  induction dicts with
  | nil => simp at h
  | cons d ds ih =>
    obtain ⟨k, s⟩ := d
    by_cases hck : c = k
    · subst hck; exact ⟨s, by simp [List.lookup]⟩
    · have hb : (c == k) = false := by simpa using hck
      simp only [List.map_cons, List.mem_cons, hck, false_or] at h
      obtain ⟨sub, hs⟩ := ih h
      exact ⟨sub, by simp [List.lookup, hb, hs]⟩

theorem List.mem_of_lookup_eq_some' {β : Type} (l : List (Name × β)) (c : Name) (v : β)
    (h : l.lookup c = some v) : (c, v) ∈ l := by
  induction l with
  | nil => simp [List.lookup] at h
  | cons q qs ih =>
    obtain ⟨k, w⟩ := q
    by_cases hck : c = k
    · subst hck; simp [List.lookup] at h; simp [h]
    · have hb : (c == k) = false := by simpa using hck
      simp only [List.lookup, hb] at h
      exact List.mem_cons_of_mem _ (ih h)

theorem Rep.record {C : List Name} {lb : LB} {es : List Entry} (h : Rep C lb es) (e : Entry)
    (he : EntryOk C e) : Rep C (Logbook.record e lb) (es ++ [e]) := by
  obtain ⟨g1, g2, g3⟩ := recordDicts_top e.scalars e.dicts lb.chapters he.1.1 h.nodup
  have hch : (Logbook.record e lb).chapters = recordDicts e.scalars [] e.dicts lb.chapters := by
    simp [Logbook.record, recordAux_chapters]
  refine ⟨?_, ?_, ?_, ?_, ?_, ?_⟩
  · simp [Logbook.record, recordAux_rows, h.rows]
  · intro c hc
    obtain ⟨sub, hsub⟩ := lookup_isSome_of_mem e.dicts c ((he.1.2 c).2 hc)
    have := h.chapters c hc
    simp only [chRows, hch, g1 c, hsub, Option.map_some, Option.getD_some, recordAux_rows,
      List.map_append, List.map_cons, List.map_nil, chapterRow]
    congr 1
    cases hg : getChapter c lb.chapters with
    | none => simp [chRows, hg] at this; simp [this, LB.empty, LB.rows]
    | some ch => simpa [chRows, hg] using this
  · intro c hc
    rw [hch, g3 c] at hc
    rcases hc with hc | hc
    · exact h.keys c hc
    · exact (he.1.2 c).1 hc
  · rw [hch]; exact g2
  · have := h.buff
    simp only [Logbook.record, (recordAux_buffindex [] e lb).1, recordAux_rows, List.length_append,
      List.length_singleton]
    omega
  · intro q hq
    rw [hch] at hq
    have hg := getChapter_of_mem _ g2 q hq
    rw [g1 q.1] at hg
    cases hl : e.dicts.lookup q.1 with
    | none =>
      rw [hl] at hg
      have hm : (q.1, q.2) ∈ lb.chapters := List.mem_of_lookup_eq_some' _ _ _ hg
      exact h.flat (q.1, q.2) hm
    | some sub =>
      rw [hl] at hg
      have hsd : sub.dicts = [] := he.2 (q.1, sub) (List.mem_of_lookup_eq_some' _ _ _ hl)
      have hq2 : q.2 = recordAux e.scalars sub ((getChapter q.1 lb.chapters).getD LB.empty) :=
        (Option.some.inj hg).symm
      have hbase : ((getChapter q.1 lb.chapters).getD LB.empty).chapters = [] ∧
          ((getChapter q.1 lb.chapters).getD LB.empty).buffindex ≤
            ((getChapter q.1 lb.chapters).getD LB.empty).rows.length := by
        cases hgc : getChapter q.1 lb.chapters with
        | none => simp [LB.empty]
        | some ch => exact h.flat (q.1, ch) (List.mem_of_lookup_eq_some' _ _ _ hgc)
      rw [hq2, recordAux_chapters, hsd, (recordAux_buffindex _ _ _).1, recordAux_rows]
      refine ⟨by simpa [recordDicts] using hbase.1, ?_⟩
      have := hbase.2
      simp only [List.length_append, List.length_singleton]; omega

theorem eraseIdx_map {α β : Type} (f : α → β) (l : List α) (i : Nat) :
    (l.map f).eraseIdx i = (l.eraseIdx i).map f := by
  induction l generalizing i with
  | nil => simp
  | cons x xs ih => cases i <;> simp [ih]

theorem getChapter_map (f : LB → LB) (c : Name) (chs : List (Name × LB)) :
    getChapter c (chs.map fun q => (q.1, f q.2)) = (getChapter c chs).map f := by
  induction chs with
  | nil => simp [getChapter]
  | cons q qs ih =>
    obtain ⟨k, ch⟩ := q
    simp only [getChapter] at ih ⊢
    by_cases h : c = k
    · subst h; simp [List.lookup]
    · have hb : (c == k) = false := by simpa using h
      simp [List.lookup, hb, ih]

/-- `del logbook[key]` / `pop(key)` with an in-range key on a represented logbook (with or
without chapters) -/
theorem Rep.delIndex {C : List Name} {lb : LB} {es : List Entry} (h : Rep C lb es) (key : Int)
    (p : Nat) (hp : pos? es.length key = some p) :
    Rep C (Logbook.delIndex key lb).1 (es.eraseIdx p) ∧ (Logbook.delIndex key lb).2 = false ∧
    Logbook.pop key lb = (lb.rows[p]?, eraseDeep p lb) := by
  have hlen : lb.rows.length = es.length := by rw [h.rows, List.length_map]
  have hp' : pos? lb.rows.length key = some p := by rw [hlen]; exact hp
  have hd := delIndex_deep lb key p h.deep hp'
  rw [hd]
  refine ⟨⟨?_, ?_, ?_, ?_, ?_, ?_⟩, rfl, pop_deep key p lb h.deep hp'⟩
  · simp only [eraseDeep_rows, h.rows, eraseIdx_map]
  · intro c hc
    have := h.chapters c hc
    have hgm : getChapter c (List.map (fun q => (q.1, eraseDeep p q.2)) lb.chapters) =
        (getChapter c lb.chapters).map (fun ch => eraseDeep p ch) :=
      getChapter_map (fun ch => eraseDeep p ch) c lb.chapters
    simp only [chRows, eraseDeep_chapters] at this ⊢
    rw [hgm]
    cases hg : getChapter c lb.chapters with
    | none =>
      simp only [hg, Option.map_none, Option.getD_none, List.map_nil] at this ⊢
      have : es = [] := by
        cases es with
        | nil => rfl
        | cons => simp at this
      subst this; simp
    | some ch =>
      simp only [hg, Option.map_some, Option.getD_some] at this ⊢
      rw [eraseDeep_rows, ← eraseIdx_map, this, eraseIdx_map]
  · intro c hc
    simp only [eraseDeep_chapters, List.map_map, Function.comp_def] at hc
    exact h.keys c hc
  · simp only [eraseDeep_chapters, List.map_map, Function.comp_def]; exact h.nodup
  · have hb := h.buff
    have hpl : p < lb.rows.length := pos?_lt hp'
    simp only [eraseDeep_buffindex, eraseDeep_rows, List.length_eraseIdx, hpl, if_true]
    split <;> omega
  · intro q hq
    simp only [eraseDeep_chapters, List.mem_map] at hq
    obtain ⟨r, hr, rfl⟩ := hq
    obtain ⟨f1, f2⟩ := h.flat r hr
    refine ⟨by simp [eraseDeep_chapters, f1], ?_⟩
    simp only [eraseDeep_buffindex, eraseDeep_rows, List.length_eraseIdx]
    split <;> split <;> omega

theorem Rep.delEach {C : List Name} (ds : List Nat) (hd : ds.Pairwise (· > ·)) :
    ∀ {lb : LB} {es : List Entry}, Rep C lb es → (∀ i ∈ ds, i < es.length) →
      Rep C (Logbook.delEach ds lb).1 (eraseAll ds es) ∧ (Logbook.delEach ds lb).2 = false := by
  induction ds with
  | nil => intro lb es h _; exact ⟨by simpa [Logbook.delEach, eraseAll] using h, rfl⟩
  | cons i is ih =>
    intro lb es h hr
    rw [List.pairwise_cons] at hd
    have hi : i < es.length := hr i (by simp)
    have hp : pos? es.length (i : Int) = some i := by rw [pos?_nat]; simp [hi]
    obtain ⟨h1, h2, _⟩ := h.delIndex (i : Int) i hp
    have hrest : ∀ j ∈ is, j < (es.eraseIdx i).length := by
      intro j hj
      have := hd.1 j hj
      simp [List.length_eraseIdx, hi]; omega
    obtain ⟨h3, h4⟩ := ih hd.2 h1 hrest
    have hde : Logbook.delEach (i :: is) lb = Logbook.delEach is (Logbook.delIndex (i : Int) lb).1 := by
      rcases hx : Logbook.delIndex (i : Int) lb with ⟨lb', fl⟩
      rw [hx] at h2
      simp only at h2; subst h2
      simp [Logbook.delEach, hx]
    rw [hde]
    exact ⟨by simpa [eraseAll] using h3, h4⟩

/-- `del logbook[slice]` on a represented logbook removes exactly the addressed records -/
theorem Rep.delSlice {C : List Name} {lb : LB} {es : List Entry} (h : Rep C lb es) (idx : List Nat)
    (hn : idx.Nodup) (hr : ∀ i ∈ idx, i < es.length) :
    Rep C (Logbook.delSlice idx lb).1 (removeIdx idx es) ∧ (Logbook.delSlice idx lb).2 = false := by
  have := Rep.delEach (C := C) (sortDesc idx) (sortDesc_strict idx hn) h
    (fun i hi => hr i ((mem_sortDesc i idx).1 hi))
  rw [eraseAll_sortDesc idx hn] at this
  exact this

end C18L
