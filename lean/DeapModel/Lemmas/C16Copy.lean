/-
C16 — `clone` and `cloneChain`: the facts the property theorems are read off from.
-/
import DeapModel.Lemmas.C16CopyMain

namespace Heap.Copy

section Clone
variable {ct : ClassTable} {objs : Oid → Option Obj} {N : Nat}

/-- Whatever is reachable from a copy is new, or an immutable object of the old heap. -/
theorem Reach_new {st : State} {P : List Oid} (hI : CInv ct objs N st P)
    (c : Val) (y : Oid) (h : Reach st.objs c y) :
    ChildOK objs N st.objs c → N ≤ y ∨ ImmutableIn objs y := by
  induction h with
  | here x =>
    intro hx
    rcases hx with ⟨_, o, ho, hm, _⟩ | ⟨hx, _⟩
    · exact Or.inr ⟨o, ho, hm⟩
    · exact Or.inl hx
  | step x o c y ho hc _ ih =>
    intro hx
    apply ih
    rcases hx with ⟨hxN, o0, ho0, _, hat⟩ | ⟨hx, _⟩
    · rw [hI.old x hxN, ho0] at ho
      injection ho with ho
      subst ho
      have := hat c hc
      cases c with
      | atom a => trivial
      | ref z => simp [Val.isAtom] at this
    · exact hI.new x o hx ho c hc

theorem Within_old (hcl : Closed objs N) {n : Nat} {v : Val} (hv : Within ct CopyOK objs n v) :
    ∀ x, v = .ref x → x < N := by
  intro x hx
  subst hx
  obtain ⟨o, ho⟩ := Option.isSome_iff_exists.1 (Within_defined ct CopyOK objs n x hv)
  exact lt_of_defined hcl ho

theorem Within_def {objs : Oid → Option Obj} {n : Nat} {v : Val}
    (hv : Within ct CopyOK objs n v) : ∀ x, v = .ref x → (objs x).isSome = true := by
  intro x hx
  subst hx
  exact Within_defined ct CopyOK objs n x hv

theorem keeps_of_agree (hcl : Closed objs N) {objs' : Oid → Option Obj}
    (hag : ∀ y, y < N → objs' y = objs y) : Keeps objs objs' := by
  intro x o ho
  rw [hag x (lt_of_defined hcl ho)]
  exact ho

/-- Everything about one `clone`. -/
theorem clone_facts (hct : CTOk ct) (hcl : Closed objs N) (n : Nat) (v : Val)
    (hv : Within ct CopyOK objs n v) :
    ∃ objs' next' v', clone ct n objs N v = some (objs', next', v') ∧
      (∀ m, abs objs' m v' = abs objs m v) ∧ (∀ m, abs objs' m v = abs objs m v) ∧
      Closed objs' next' ∧ N ≤ next' ∧ (∀ y, y < N → objs' y = objs y) ∧
      (DictNodup ct → Within ct CopyOK objs' n v') ∧
      (∀ y, Reach objs' v' y → N ≤ y ∨ ImmutableIn objs y) := by
  obtain ⟨st', v', h, hI, hE, hg⟩ := copyVal_spec hct hcl n n ⟨objs, N, []⟩ [] v (Nat.le_refl _) hv
    (fun p hp => by cases hp) (CInv.init hcl)
  refine ⟨st'.objs, st'.next, v', by simp only [clone, h], hg.abs,
    fun m => abs_old hcl (hI.keeps0 hcl) m v (Within_def hv), ⟨hI.bound, hI.refs hcl⟩, hI.le,
    hI.old, fun hnd => hg.within hnd n hv, fun y hy => Reach_new hI v' y hy hg.new.childOK⟩

theorem clone_disjoint' (hct : CTOk ct) (hcl : Closed objs N) (n : Nat) (v : Val)
    (hv : Within ct CopyOK objs n v) (objs' : Oid → Option Obj) (next' : Nat) (v' : Val)
    (h : clone ct n objs N v = some (objs', next', v')) :
    (∀ y, y < N → objs' y = objs y) ∧ (∀ y, Reach objs' v' y → N ≤ y ∨ ImmutableIn objs y) := by
  obtain ⟨o1, n1, v1, h1, _, _, _, _, hold, _, hdis⟩ := clone_facts hct hcl n v hv
  rw [h] at h1
  cases h1
  exact ⟨hold, hdis⟩

theorem clone_shares_no_mutable' (hct : CTOk ct) (hcl : Closed objs N) (n : Nat) (v : Val)
    (hv : Within ct CopyOK objs n v) (objs' : Oid → Option Obj) (next' : Nat) (v' : Val)
    (h : clone ct n objs N v = some (objs', next', v')) :
    ∀ y o, Reach objs' v y → Reach objs' v' y → objs' y = some o → o.mutable = false := by
  obtain ⟨hold, hdis⟩ := clone_disjoint' hct hcl n v hv objs' next' v' h
  intro y o h1 h2 ho
  have hy := (Reach_old objs objs' N hcl hold v y h1 (Within_old hcl hv)).1
  rcases hdis y h2 with h3 | ⟨o0, ho0, hm⟩
  · exact absurd hy (Nat.not_lt.2 h3)
  · rw [hold y hy, ho0] at ho
    injection ho with ho
    rw [← ho]
    exact hm

theorem write_independent' (hct : CTOk ct) (hcl : Closed objs N) (n : Nat) (v : Val)
    (hv : Within ct CopyOK objs n v) (objs' : Oid → Option Obj) (next' : Nat) (v' : Val)
    (h : clone ct n objs N v = some (objs', next', v')) :
    (∀ y o w, Reach objs' v' y → objs' y = some o → o.mutable = true →
        ∀ m, abs (write objs' y w) m v = abs objs' m v) ∧
    (∀ y o w, Reach objs' v y → objs' y = some o → o.mutable = true →
        ∀ m, abs (write objs' y w) m v' = abs objs' m v') := by
  have hsh := clone_shares_no_mutable' hct hcl n v hv objs' next' v' h
  constructor
  · intro y o w h1 ho hm m
    apply abs_write
    intro h2
    rw [hsh y o h2 h1 ho] at hm
    cases hm
  · intro y o w h1 ho hm m
    apply abs_write
    intro h2
    rw [hsh y o h1 h2 ho] at hm
    cases hm

/-- Everything about a clone-of-clone chain (generalised for the induction on its length). -/
theorem cloneChain_facts (hct : CTOk ct) (hnd : DictNodup ct) (n k : Nat) :
    ∀ (objs : Oid → Option Obj) (N : Nat) (v : Val), Closed objs N → Within ct CopyOK objs n v →
    ∃ objs' N' vs, cloneChain ct n k objs N v = some (objs', N', vs) ∧ vs.length = k ∧
      Closed objs' N' ∧ N ≤ N' ∧ (∀ y, y < N → objs' y = objs y) ∧
      (∀ w ∈ vs, ∀ m, abs objs' m w = abs objs m v) ∧
      (∀ w ∈ vs, ∀ y, Reach objs' w y → N ≤ y ∨ ImmutableIn objs y) ∧
      (∀ (i j : Nat), i < j → ∀ wi wj, (v :: vs)[i]? = some wi → (v :: vs)[j]? = some wj →
        ∀ y o, Reach objs' wi y → Reach objs' wj y → objs' y = some o → o.mutable = false) := by
  induction k with
  | zero =>
    intro objs N v hcl _
    refine ⟨objs, N, [], rfl, rfl, hcl, Nat.le_refl _, fun _ _ => rfl,
      fun w hw => (by cases hw), fun w hw => (by cases hw), ?_⟩
    intro i j hij wi wj _ hj
    cases j with
    | zero => omega
    | succ j => simp at hj
  | succ k ih =>
    intro objs N v hcl hv
    obtain ⟨objs1, N1, v1, h1, habs1, _, hcl1, hN1, hold1, hw1, hdis1⟩ :=
      clone_facts hct hcl n v hv
    have hv1 := hw1 hnd
    obtain ⟨objs2, N2, vs, h2, hlen, hcl2, hN2, hold2, habs2, hdis2, hpair2⟩ :=
      ih objs1 N1 v1 hcl1 hv1
    have hold02 : ∀ y, y < N → objs2 y = objs y := fun y hy => by
      rw [hold2 y (Nat.lt_of_lt_of_le hy hN1), hold1 y hy]
    have hdis : ∀ w ∈ v1 :: vs, ∀ y, Reach objs2 w y → N ≤ y ∨ ImmutableIn objs y := by
      intro w hw y hr
      rcases List.mem_cons.1 hw with hw | hw
      · subst hw
        exact hdis1 y (Reach_old objs1 objs2 N1 hcl1 hold2 w y hr (Within_old hcl1 hv1)).2
      · rcases hdis2 w hw y hr with h | ⟨o, ho, hm⟩
        · exact Or.inl (by omega)
        · by_cases hy : y < N
          · exact Or.inr ⟨o, by rw [← hold1 y hy]; exact ho, hm⟩
          · exact Or.inl (Nat.le_of_not_lt hy)
    refine ⟨objs2, N2, v1 :: vs, by simp only [cloneChain, h1, h2], by simp [hlen], hcl2,
      by omega, hold02, ?_, hdis, ?_⟩
    · intro w hw m
      rcases List.mem_cons.1 hw with hw | hw
      · subst hw
        rw [abs_ext objs1 objs2 hcl1.refs (keeps_of_agree hcl1 hold2) m w (Within_def hv1)]
        exact habs1 m
      · rw [habs2 w hw m]
        exact habs1 m
    · intro i j hij wi wj hi hj y o hr1 hr2 ho
      obtain ⟨j', rfl⟩ : ∃ j', j = j' + 1 := ⟨j - 1, by omega⟩
      rw [List.getElem?_cons_succ] at hj
      cases i with
      | zero =>
        simp only [List.getElem?_cons_zero, Option.some.injEq] at hi
        subst hi
        have hy := (Reach_old objs objs2 N hcl hold02 v y hr1 (Within_old hcl hv)).1
        rcases hdis wj (List.mem_of_getElem? hj) y hr2 with h | ⟨o0, ho0, hm⟩
        · exact absurd hy (Nat.not_lt.2 h)
        · rw [hold02 y hy, ho0] at ho
          injection ho with ho
          rw [← ho]
          exact hm
      | succ i =>
        rw [List.getElem?_cons_succ] at hi
        exact hpair2 i j' (by omega) wi wj hi hj y o hr1 hr2 ho

end Clone

/-! ### A freshly created object satisfies the side conditions of the copy hooks -/
section Fresh
variable {ct : ClassTable}

theorem createOK_step {c : ClsId} {ci : ClassInfo} {p : Name × ClsId} (h : CreateOK ct c)
    (hci : ct[c]? = some ci) (hp : p ∈ ci.dictInst) : CreateOK ct p.2 :=
  fun c' ci' hr => h c' ci' (.step c ci p c' hci hp hr)

/-- The syntactic condition on the whole class table implies `CreateOK` for every class. -/
theorem createOK_of_all
    (h : ∀ (c' : ClsId) (ci : ClassInfo), ct[c']? = some ci → (ci.kind = .fitness ∨ ci.kind = .cfitness) → ci.dictInst = [])
    (c : ClsId) : CreateOK ct c :=
  fun c' ci _ => h c' ci

theorem Ext.keeps {A : Prop} {s s' : State} (hE : Ext A s s') (hb : Bounded s) :
    Keeps s.objs s'.objs := by
  intro x o ho
  have hx : x < s.next := by
    apply Nat.lt_of_not_le
    intro hle
    rw [hb x hle] at ho
    cases ho
  rw [hE.old x hx]
  exact ho

theorem Within_of_isAtom (objs : Oid → Option Obj) (n : Nat) {v : Val} (h : v.isAtom = true) :
    Within ct CopyOK objs n v := by
  cases v with
  | atom a => exact Within_atom ct CopyOK objs n a
  | ref y => cases h

/-- The object `init_type` assembles satisfies `CopyOK`. -/
theorem copyOK_fresh (objs : Oid → Option Obj) (c : ClsId) (ci : ClassInfo) (items : List Val)
    (attrs : List (Name × Val)) (mu : Bool)
    (hfit : (ci.kind = .fitness ∨ ci.kind = .cfitness) → ci.dictInst = [])
    (hnames : attrs.map (·.1) = ci.dictInst.map (·.1))
    (hitems : ∀ v ∈ items, v.isAtom = true) :
    CopyOK objs ci ⟨c, items, dictUpdate attrs (baseInitAttrs ci.kind), mu⟩ := by
  have hnil : ci.dictInst = [] → attrs = [] := by
    intro hd
    rw [hd] at hnames
    exact List.map_eq_nil_iff.1 hnames
  refine ⟨fun _ p hp => ?_, fun hk => ?_, fun hk => ?_, fun _ => hitems,
    fun _ v hv => ImmLeaf_of_isAtom objs v (hitems v hv)⟩
  · show (lookup p.1 (dictUpdate attrs (baseInitAttrs ci.kind))).isSome = true
    rw [lookup_dictUpdate]
    cases lookup p.1 (baseInitAttrs ci.kind) with
    | some w => rfl
    | none =>
      show (lookup p.1 attrs).isSome = true
      rw [lookup_isSome_iff, hnames]
      exact List.mem_map.2 ⟨p, hp, rfl⟩
  · have hd := hfit (Or.inl hk)
    have ha := hnil hd
    subst ha
    refine ⟨hd, fun k => ?_, hitems⟩
    show lookup k (dictUpdate [] (baseInitAttrs ci.kind)) = none
    rw [hk]
    rfl
  · have hd := hfit (Or.inr hk)
    have ha := hnil hd
    subst ha
    have e : dictUpdate [] (baseInitAttrs ci.kind) = [(cvName, .atom noneAtom)] := by
      rw [hk]; rfl
    refine ⟨hd, ?_, fun k hkn => ?_, hitems⟩
    · show (lookup cvName (dictUpdate [] (baseInitAttrs ci.kind))).isSome = true
      rw [e]
      simp [lookup]
    · show lookup k (dictUpdate [] (baseInitAttrs ci.kind)) = none
      rw [e]
      simp [lookup, Ne.symm hkn]

/-- The attribute loop of `init_type`: every instantiated attribute satisfies the side conditions,
given that instantiation with fuel `n` does. -/
theorem instLoop_within (n : Nat)
    (hN : ∀ (s s' : State) (c' : ClsId) (y : Oid), Bounded s → CreateOK ct c' →
      newInst ct n s c' [] = some (s', y) → Within ct CopyOK s'.objs n (.ref y)) :
    ∀ (l : List (Name × ClsId)) (s s' : State) (attrs : List (Name × Val)), Bounded s →
      (∀ p ∈ l, CreateOK ct p.2) → mapSt (Heap.instStep ct n) s l = some (s', attrs) →
      ∀ q ∈ attrs, Within ct CopyOK s'.objs n q.2 := by
  intro l
  induction l with
  | nil =>
    intro s s' attrs _ _ h q hq
    rw [mapSt_nil] at h
    cases h
    cases hq
  | cons p ps ih =>
    intro s s' attrs hb hl h q hq
    obtain ⟨s1, b, bs, h1, h2, rfl⟩ := mapSt_cons_inv h
    unfold Heap.instStep at h1
    split at h1
    · cases h1
    · rename_i s1' y hrun
      cases h1
      obtain ⟨_, hE1, _⟩ := newInst_nil_of_eq ct hb hrun
      have hE2 := (instLoop_of_eq ct n (fun s s' c' y hb h => newInst_nil_of_eq ct hb h)
        ps s1 s' bs hE1.bound h2).1
      rcases List.mem_cons.1 hq with rfl | hq
      · exact Within_ext ct _ _ (Ext.keeps hE2 hE1.bound) n _
          (hN _ _ _ _ hb (hl p List.mem_cons_self) hrun)
      · exact ih s1 s' bs hE1.bound (fun p' hp' => hl p' (List.mem_cons_of_mem _ hp')) h2 q hq

/-- `cls(items)` with atom items, from success: the new object satisfies the side conditions of
the copy hooks, at depth = the fuel of the instantiation. -/
theorem newInst_within :
    ∀ (fuel : Nat) (st st' : State) (c : ClsId) (items : List Val) (x : Oid), Bounded st →
      CreateOK ct c → (∀ v ∈ items, v.isAtom = true) →
      newInst ct fuel st c items = some (st', x) → Within ct CopyOK st'.objs fuel (.ref x) := by
  intro fuel
  induction fuel with
  | zero => intro st st' c items x _ _ _ h; simp [newInst] at h
  | succ n ih =>
    intro st st' c items x hb hok hitems h
    rw [newInst_succ] at h
    split at h
    · cases h
    · rename_i ci hci
      split at h
      · cases h
      · rename_i sb attrs hrun
        cases h
        have hba : Bounded ⟨st.objs, st.next + 1, st.memo⟩ :=
          fun y hy => hb y (Nat.le_of_succ_le hy)
        obtain ⟨hE, hA⟩ := instLoop_of_eq ct n
          (fun s s' c' y hb h => newInst_nil_of_eq ct hb h) ci.dictInst _ _ _ hba hrun
        have hW := instLoop_within n
          (fun s s' c' y hb hok h => ih s s' c' [] y hb hok (fun _ hv => by cases hv) h)
          ci.dictInst _ _ _ hba (fun p hp => createOK_step hok hci hp) hrun
        have hnone : sb.objs st.next = none := by
          rw [hE.old st.next (Nat.lt_succ_self _)]
          exact hb st.next (Nat.le_refl _)
        have hk : Keeps sb.objs (define sb.objs st.next
            ⟨c, items, dictUpdate attrs (baseInitAttrs ci.kind), ci.kind != .node⟩) := by
          intro y o ho
          have hne : y ≠ st.next := by
            intro e
            rw [e, hnone] at ho
            cases ho
          rw [define_other _ _ _ _ hne]
          exact ho
        refine ⟨_, ci, define_at _ _ _, hci,
          copyOK_fresh _ c ci items attrs _ (hok c ci (.self c) hci) hA.1 hitems, ?_⟩
        intro v hv
        simp only [Obj.children, List.mem_append, List.mem_map] at hv
        rcases hv with hv | ⟨q, hq, rfl⟩
        · exact Within_of_isAtom _ n (hitems v hv)
        · rcases mem_dictUpdate hq with hq | hq
          · exact Within_of_isAtom _ n (baseInitAttrs_atom ci.kind q hq)
          · exact Within_ext ct _ _ hk n _ (hW q hq)

end Fresh

end Heap.Copy
