/-
C07 — the quick-select of `selSPEA2` (`_randomizedSelect`, emo.py:824-862): the Hoare partition
returns an index in `[begin, end)` and a permutation of the array; the selection terminates on
every pivot tape and returns an element of the array.
-/
import DeapModel.Core.Spea2
import Mathlib.Order.Defs.LinearOrder
import Mathlib.Data.List.Basic

set_option linter.unusedSectionVars false
set_option linter.unusedVariables false

namespace C07L
open Spea2

section Select
variable {α : Type} [LinearOrder α]

/-! ### swapping two entries -/

theorem swap_perm (a : List α) (i j : Nat) (vi vj : α) (hi : a[i]? = some vi)
    (hj : a[j]? = some vj) : ((a.set i vj).set j vi).Perm a := by
  obtain ⟨hi', rfl⟩ := List.getElem?_eq_some_iff.mp hi
  obtain ⟨hj', rfl⟩ := List.getElem?_eq_some_iff.mp hj
  exact List.set_set_perm hi' hj'

/-! ### the two inner scans stop at a sentinel -/

/-- `scanDown` stops at or above any index `s < j` whose entry is not above the pivot -/
theorem scanDown_spec (a : List α) (x : α) (s : Nat) (vs : α) (hs : a[s]? = some vs)
    (hvs : ¬ x < vs) :
    ∀ j, s < j → j ≤ a.length →
      ∃ j' v, scanDown a x j = some j' ∧ s ≤ j' ∧ j' < j ∧ a[j']? = some v ∧ ¬ x < v := by
  intro j
  induction j with
  | zero => intro h; omega
  | succ j ih =>
    intro hsj hj
    have hjl : j < a.length := by omega
    have hget : a[j]? = some a[j] := List.getElem?_eq_getElem hjl
    by_cases hlt : x < a[j]
    · have hne : s ≠ j := by
        rintro rfl
        rw [hget] at hs
        exact hvs (by rw [← Option.some.inj hs]; exact hlt)
      obtain ⟨j', v, h1, h2, h3, h4, h5⟩ := ih (by omega) (by omega)
      refine ⟨j', v, ?_, h2, by omega, h4, h5⟩
      rw [scanDown, hget]
      simp only [hlt, if_true]
      exact h1
    · refine ⟨j, a[j], ?_, by omega, by omega, hget, hlt⟩
      rw [scanDown, hget]
      simp only [hlt, if_false]

/-- `scanUp` stops at or below any index `s ≥ i` whose entry is not below the pivot -/
theorem scanUp_spec (a : List α) (x : α) (s : Nat) (vs : α) (hs : a[s]? = some vs)
    (hvs : ¬ vs < x) :
    ∀ fuel i, i ≤ s → s - i < fuel →
      ∃ i' v, scanUp a x fuel i = some i' ∧ i ≤ i' ∧ i' ≤ s ∧ a[i']? = some v ∧ ¬ v < x := by
  have hsl : s < a.length := (List.getElem?_eq_some_iff.mp hs).1
  intro fuel
  induction fuel with
  | zero => intro i _ h; omega
  | succ fuel ih =>
    intro i his hf
    have hil : i < a.length := by omega
    have hget : a[i]? = some a[i] := List.getElem?_eq_getElem hil
    by_cases hlt : a[i] < x
    · have hne : s ≠ i := by
        rintro rfl
        rw [hget] at hs
        exact hvs (by rw [← Option.some.inj hs]; exact hlt)
      obtain ⟨i', v, h1, h2, h3, h4, h5⟩ := ih (i + 1) (by omega) (by omega)
      refine ⟨i', v, ?_, by omega, h3, h4, h5⟩
      rw [scanUp, hget]
      simp only [hlt, if_true]
      exact h1
    · refine ⟨i, a[i], ?_, by omega, his, hget, hlt⟩
      rw [scanUp, hget]
      simp only [hlt, if_false]

example : Spea2.scanDown ([3, 5, 1, 4, 1, 3] : List Int) 3 5 = some 4 := by decide
example : Spea2.scanUp ([3, 5, 1, 4, 1, 3] : List Int) 3 7 2 = some 3 := by decide

/-! ### the Hoare partition -/

/-- whatever the loop returns is a permutation of its input -/
theorem partitionLoop_perm (x : α) :
    ∀ (fuel : Nat) (a : List α) (i1 j : Nat) (a' : List α) (q : Nat),
      partitionLoop x fuel a i1 j = some (a', q) → a'.Perm a := by
  intro fuel
  induction fuel with
  | zero => intro a i1 j a' q h; simp [partitionLoop] at h
  | succ fuel ih =>
    intro a i1 j a' q h
    rw [partitionLoop] at h
    split at h
    · exact absurd h (by simp)
    · split at h
      · exact absurd h (by simp)
      · split at h
        · split at h
          · rename_i vi vj hvi hvj
            exact (ih _ _ _ _ _ h).trans (swap_perm a _ _ vi vj hvi hvj)
          · exact absurd h (by simp)
        · simp only [Option.some.injEq, Prod.mk.injEq] at h
          rw [← h.1]

/-- loop invariant: a lower sentinel `sd` (`a[sd] ≤ x`, `b ≤ sd < j`) and an upper sentinel `su`
(`a[su] ≥ x`, `i1 ≤ su`); the result is below `e` because either `su < e` or `j ≤ e` -/
theorem partitionLoop_spec (x : α) (b e : Nat) :
    ∀ (fuel : Nat) (a : List α) (i1 j sd su : Nat) (vd vu : α),
      j < fuel → j ≤ a.length → j ≤ e + 1 → sd < j → b ≤ sd → b ≤ i1 →
      a[sd]? = some vd → ¬ x < vd → i1 ≤ su → a[su]? = some vu → ¬ vu < x →
      (su < e ∨ j ≤ e) →
      ∃ a' q, partitionLoop x fuel a i1 j = some (a', q) ∧ a'.length = a.length ∧
        b ≤ q ∧ q < e := by
  intro fuel
  induction fuel with
  | zero => intro a i1 j sd su vd vu h; omega
  | succ fuel ih =>
    intro a i1 j sd su vd vu hf hja hje hsd hbsd hbi hd hvd hisu hu hvu hor
    have hsul : su < a.length := (List.getElem?_eq_some_iff.mp hu).1
    obtain ⟨j', vj, hD, hD1, hD2, hD3, hD4⟩ := scanDown_spec a x sd vd hd hvd j hsd hja
    obtain ⟨i', vi, hU, hU1, hU2, hU3, hU4⟩ :=
      scanUp_spec a x su vu hu hvu (a.length + 1) i1 hisu (by omega)
    rw [partitionLoop, hD, hU]
    simp only
    by_cases hlt : i' < j'
    · simp only [hlt, if_true, hU3, hD3]
      have hi'l : i' < a.length := by omega
      have hj'l : j' < a.length := by omega
      obtain ⟨a', q, h1, h2, h3, h4⟩ :=
        ih ((a.set i' vj).set j' vi) (i' + 1) j' i' j' vj vi (by omega)
          (by simp only [List.length_set]; omega) (by omega) hlt (by omega) (by omega)
          (by rw [List.getElem?_set_ne (by omega), List.getElem?_set_self hi'l])
          hD4 (by omega)
          (by rw [List.getElem?_set_self (by simp only [List.length_set]; omega)])
          hU4 (Or.inr (by omega))
      refine ⟨a', q, h1, ?_, h3, h4⟩
      rw [h2]
      simp only [List.length_set]
    · simp only [hlt, if_false]
      refine ⟨a, j', rfl, rfl, by omega, ?_⟩
      rcases hor with h | h <;> omega

/-- the Hoare partition of `a[b..e]` (`b < e`) returns a permutation and a split point in `[b, e)` -/
theorem partition_spec (a : List α) (b e : Nat) (hbe : b < e) (he : e < a.length) :
    ∃ a' q, partition a b e = some (a', q) ∧ a'.length = a.length ∧ b ≤ q ∧ q < e ∧
      a'.Perm a := by
  have hbl : b < a.length := by omega
  have hget : a[b]? = some a[b] := List.getElem?_eq_getElem hbl
  obtain ⟨a', q, h1, h2, h3, h4⟩ :=
    partitionLoop_spec a[b] b e (a.length + 1) a b (e + 1) b b a[b] a[b] (by omega) (by omega)
      (by omega) (by omega) (by omega) (by omega) hget (lt_irrefl _) (by omega) hget
      (lt_irrefl _) (Or.inl hbe)
  refine ⟨a', q, ?_, h2, h3, h4, partitionLoop_perm _ _ _ _ _ _ _ h1⟩
  rw [partition, hget]
  exact h1

example : Spea2.partition ([3, 5, 1, 4, 1, 3] : List Int) 0 5 = some ([3, 1, 1, 4, 5, 3], 2) := by
  decide

theorem partition_perm (a : List α) (b e : Nat) (a' : List α) (q : Nat)
    (h : partition a b e = some (a', q)) : a'.Perm a := by
  rw [partition] at h
  split at h
  · exact absurd h (by simp)
  · exact partitionLoop_perm _ _ _ _ _ _ _ h

/-! ### the randomized partition -/

theorem randomizedPartition_perm (a : List α) (b e d : Nat) (a' : List α) (q : Nat)
    (h : randomizedPartition a b e d = some (a', q)) : a'.Perm a := by
  rw [randomizedPartition] at h
  split at h
  · rename_i vb vr hvb hvr
    exact (partition_perm _ _ _ _ _ h).trans (swap_perm a _ _ vb vr hvb hvr)
  · exact absurd h (by simp)

theorem randomizedPartition_spec (a : List α) (b e d : Nat) (hbe : b < e) (he : e < a.length) :
    ∃ a' q, randomizedPartition a b e d = some (a', q) ∧ a'.length = a.length ∧ b ≤ q ∧ q < e ∧
      a'.Perm a := by
  have hbl : b < a.length := by omega
  have hmod : d % (e - b + 1) < e - b + 1 := Nat.mod_lt _ (by omega)
  have hrl : b + d % (e - b + 1) < a.length := by omega
  have hgb : a[b]? = some a[b] := List.getElem?_eq_getElem hbl
  have hgr : a[b + d % (e - b + 1)]? = some a[b + d % (e - b + 1)] :=
    List.getElem?_eq_getElem hrl
  obtain ⟨a', q, h1, h2, h3, h4, h5⟩ :=
    partition_spec ((a.set b a[b + d % (e - b + 1)]).set (b + d % (e - b + 1)) a[b]) b e hbe
      (by simp only [List.length_set]; exact he)
  have hrp : randomizedPartition a b e d = some (a', q) := by
    rw [randomizedPartition]
    simp only [hgb, hgr]
    exact h1
  refine ⟨a', q, hrp, ?_, h3, h4, randomizedPartition_perm _ _ _ _ _ _ hrp⟩
  rw [h2]
  simp only [List.length_set]

example : Spea2.randomizedPartition ([3, 5, 1, 4, 1, 3] : List Int) 0 5 3 =
    some ([3, 1, 1, 3, 5, 4], 3) := by
  decide

/-! ### the selection -/

section Sel
variable [Sub α]

/-- the quick-select terminates with a value on every pivot tape that is long enough -/
theorem randomizedSelect_isSome_aux (ofNat : Nat → α) :
    ∀ (fuel : Nat) (a : List α) (b e : Nat) (i : α) (tape : List Nat),
      b ≤ e → e < a.length → e - b < fuel → e - b ≤ tape.length →
      (randomizedSelect ofNat fuel a b e i tape).isSome := by
  intro fuel
  induction fuel with
  | zero => intro a b e i tape _ _ h; omega
  | succ fuel ih =>
    intro a b e i tape hbe he hf ht
    unfold randomizedSelect
    by_cases hEq : b = e
    · simp only [hEq, if_true]
      rw [List.getElem?_eq_getElem he]
      rfl
    · simp only [hEq, if_false]
      cases tape with
      | nil => simp only [List.length_nil] at ht; omega
      | cons r tape' =>
        simp only [List.length_cons] at ht
        obtain ⟨a', q, h1, h2, h3, h4, _⟩ :=
          randomizedPartition_spec a b e r (by omega) he
        simp only [h1]
        split
        · exact ih a' b q i tape' h3 (by omega) (by omega) (by omega)
        · exact ih a' (q + 1) e _ tape' (by omega) (by omega) (by omega) (by omega)

theorem randomizedSelect_isSome (ofNat : Nat → α) (a : List α) (b e : Nat) (i : α)
    (tape : List Nat) (hbe : b ≤ e) (he : e < a.length) (ht : e - b ≤ tape.length) :
    (randomizedSelect ofNat (a.length + 2) a b e i tape).isSome :=
  randomizedSelect_isSome_aux ofNat _ a b e i tape hbe he (by omega) ht

/-- the selected value is an element of the array -/
theorem randomizedSelect_mem (ofNat : Nat → α) :
    ∀ (fuel : Nat) (a : List α) (b e : Nat) (i : α) (tape : List Nat) (v : α),
      randomizedSelect ofNat fuel a b e i tape = some v → v ∈ a := by
  intro fuel
  induction fuel with
  | zero => intro a b e i tape v h; simp [randomizedSelect] at h
  | succ fuel ih =>
    intro a b e i tape v h
    unfold randomizedSelect at h
    split at h
    · exact List.mem_of_getElem? h
    · split at h
      · exact absurd h (by simp)
      · split at h
        · exact absurd h (by simp)
        · rename_i a' q hrp
          have hp := randomizedPartition_perm _ _ _ _ _ _ hrp
          simp only at h
          split at h
          · exact hp.subset (ih _ _ _ _ _ _ h)
          · exact hp.subset (ih _ _ _ _ _ _ h)

end Sel

example : Spea2.randomizedSelect (fun n => (n : Int)) 6 [5, 1, 4, 1] 0 3 2 [0, 1, 0] = some 4 := by
  decide

example : Spea2.randomizedSelect (fun n => (n : Int)) 8 [7, 2, 9, 2, 5, 1] 0 5 3 [4, 2, 1, 0, 3] =
    some 5 := by
  decide

end Select

end C07L
