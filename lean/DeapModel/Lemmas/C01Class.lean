/-
C01 — helper lemmas about families of fitness classes (`Core/FitClass.lean`): attribute lookup is stable under
the creation of further classes, every operation keeps the world well-formed and leaves the variables it does
not write alone.  The property theorems are in `Props/C01.lean`.
-/
import DeapModel.Core.FitClass
import Mathlib.Order.Defs.LinearOrder
import Mathlib.Data.List.Basic

set_option linter.unusedSectionVars false
set_option linter.unusedSimpArgs false

namespace C01
open Fitness

variable {α : Type}

/-- Parents exist before their children (Python cannot name a class that does not exist yet). -/
def TableWF (tbl : ClassTable α) : Prop :=
  ∀ (c : Nat) (k : FitClass α), tbl[c]? = some k → ∀ p : Nat, k.parent = some p → p < c

/-- Every object is an instance of a class that exists. -/
def WorldWF (W : World α) : Prop :=
  TableWF W.classes ∧ ∀ s x, W.insts s = some x → x.cls < W.classes.length

theorem tableWF_nil : TableWF ([] : ClassTable α) := by
  intro c k h; simp at h

theorem worldWF_empty : WorldWF (World.empty : World α) :=
  ⟨tableWF_nil, by intro s x h; simp [World.empty] at h⟩

theorem mroFuel_mem_lt (tbl : ClassTable α) : ∀ fuel c k, k ∈ mroFuel tbl fuel c → k < tbl.length := by
  intro fuel
  induction fuel with
  | zero => intro c k h; simp [mroFuel] at h
  | succ f ih =>
    intro c k h
    unfold mroFuel at h
    cases hc : tbl[c]? with
    | none => simp [hc] at h
    | some cl =>
      simp only [hc, List.mem_cons] at h
      rcases h with rfl | h
      · exact (List.getElem?_eq_some_iff.1 hc).1
      · cases hp : cl.parent with
        | none => simp [hp] at h
        | some p => simp only [hp] at h; exact ih p k h

theorem mroFuel_append (tbl ext : ClassTable α) (h : TableWF tbl) :
    ∀ fuel c, c < tbl.length → mroFuel (tbl ++ ext) fuel c = mroFuel tbl fuel c := by
  intro fuel
  induction fuel with
  | zero => intro c _; rfl
  | succ f ih =>
    intro c hc
    unfold mroFuel
    rw [List.getElem?_append_left hc]
    cases hk : tbl[c]? with
    | none => rfl
    | some cl =>
      cases hp : cl.parent with
      | none => simp only [hp]
      | some p =>
        have hpc : p < c := h c cl hk p hp
        simp only [hp, ih p (Nat.lt_trans hpc hc)]

theorem findSome?_congr_mem {β γ : Type} (l : List β) (f g : β → Option γ) (h : ∀ x ∈ l, f x = g x) :
    l.findSome? f = l.findSome? g := by
  induction l with
  | nil => rfl
  | cons x xs ih =>
    simp only [List.findSome?_cons, h x (by simp)]
    cases g x with
    | some _ => rfl
    | none => exact ih (fun y hy => h y (by simp [hy]))

/-- Creating further classes never changes what an existing class resolves to. -/
theorem lookupWeights_append (tbl ext : ClassTable α) (h : TableWF tbl) (c : Nat) (hc : c < tbl.length) :
    lookupWeights (tbl ++ ext) c = lookupWeights tbl c := by
  unfold lookupWeights mro
  rw [mroFuel_append tbl ext h (c + 1) c hc]
  apply findSome?_congr_mem
  intro k hk
  rw [List.getElem?_append_left (mroFuel_mem_lt tbl _ _ k hk)]

/-- Only an existing class resolves to weights. -/
theorem lookup_some_lt (tbl : ClassTable α) (c : Nat) (w : List α) (h : lookupWeights tbl c = some w) :
    c < tbl.length := by
  by_contra hc
  have hn : tbl[c]? = none := List.getElem?_eq_none (Nat.le_of_not_lt hc)
  simp [lookupWeights, mro, mroFuel, hn] at h

/-- A class that declares `weights` itself resolves to them — whatever its ancestors declare. -/
theorem lookupWeights_own (tbl : ClassTable α) (c : Nat) (w : List α) (p : Option Nat)
    (h : tbl[c]? = some ⟨some w, p⟩) : lookupWeights tbl c = some w := by
  simp [lookupWeights, mro, mroFuel, h]

/-- The fuel of `mro` is enough: more fuel gives the same linearisation. -/
theorem mroFuel_enough (tbl : ClassTable α) (h : TableWF tbl) :
    ∀ c fuel, c + 1 ≤ fuel → mroFuel tbl fuel c = mroFuel tbl (c + 1) c := by
  intro c
  induction c using Nat.strongRecOn with
  | _ c ih =>
    intro fuel hf
    obtain ⟨f, rfl⟩ : ∃ f, fuel = f + 1 := ⟨fuel - 1, by omega⟩
    unfold mroFuel
    cases hk : tbl[c]? with
    | none => rfl
    | some cl =>
      cases hp : cl.parent with
      | none => simp only [hp]
      | some p =>
        have hpc : p < c := h c cl hk p hp
        simp only [hp, ih p hpc f (by omega), ih p hpc c (by omega)]

/-- A class that declares no `weights` resolves to whatever its parent resolves to (inheritance). -/
theorem lookupWeights_inherit (tbl : ClassTable α) (h : TableWF tbl) (c p : Nat)
    (hc : tbl[c]? = some ⟨none, some p⟩) : lookupWeights tbl c = lookupWeights tbl p := by
  have hpc : p < c := h c _ hc p rfl
  have hm : mroFuel tbl c p = mroFuel tbl (p + 1) p := mroFuel_enough tbl h p c (by omega)
  simp only [lookupWeights, mro]
  rw [show mroFuel tbl (c + 1) c = c :: mroFuel tbl c p by
    conv => lhs; unfold mroFuel
    simp [hc]]
  simp [List.findSome?_cons, hc, hm]

/-- A class deriving directly from the library's base class without declaring `weights` is abstract. -/
theorem lookupWeights_abstract (tbl : ClassTable α) (c : Nat) (hc : tbl[c]? = some ⟨none, none⟩) :
    lookupWeights tbl c = none := by
  simp [lookupWeights, mro, mroFuel, hc]

theorem defClass_eq (tbl tbl' : ClassTable α) (k : FitClass α) (h : defClass tbl k = some tbl') :
    tbl' = tbl ++ [k] ∧ ∀ p, k.parent = some p → p < tbl.length := by
  unfold defClass at h
  cases hp : k.parent with
  | none => simp [hp] at h; exact ⟨h.symm, by intro p hp'; cases hp'⟩
  | some p =>
    simp only [hp] at h
    by_cases hlt : p < tbl.length
    · simp [hlt] at h; exact ⟨h.symm, by intro q hq; cases hq; exact hlt⟩
    · simp [hlt] at h

theorem tableWF_append (tbl : ClassTable α) (k : FitClass α) (h : TableWF tbl)
    (hk : ∀ p, k.parent = some p → p < tbl.length) : TableWF (tbl ++ [k]) := by
  intro c cl hc p hp
  by_cases hlt : c < tbl.length
  · rw [List.getElem?_append_left hlt] at hc; exact h c cl hc p hp
  · have hlen : c < (tbl ++ [k]).length := (List.getElem?_eq_some_iff.1 hc).1
    have hce : c = tbl.length := by simp at hlen; omega
    subst hce
    simp at hc
    subst hc
    exact hk p hp

section Step
variable [LT α] [LE α] [DecidableEq α] [DecidableLT α] [DecidableLE α] [Mul α] [Div α]

theorem put_view_ne (W : World α) (slot s : Nat) (x : Inst α) (h : s ≠ slot) :
    (W.put slot x).view s = W.view s := by
  simp [World.view, World.put, h]

theorem put_view_self (W : World α) (slot : Nat) (x : Inst α) :
    (W.put slot x).view slot = some (x.fit.wvalues, lookupWeights W.classes x.cls) := by
  simp [World.view, World.put]

theorem worldWF_put (W : World α) (slot : Nat) (x : Inst α) (h : WorldWF W) (hx : x.cls < W.classes.length) :
    WorldWF (W.put slot x) := by
  refine ⟨h.1, ?_⟩
  intro s y hy
  simp only [World.put] at hy ⊢
  by_cases hs : s = slot
  · simp [hs] at hy; subst hy; exact hx
  · simp [hs] at hy; exact h.2 s y hy

/-- Every operation keeps the world well-formed. -/
theorem wstep_wf (W : World α) (o : WOp α) (h : WorldWF W) : WorldWF (wstep W o).1 := by
  cases o with
  | defclass k =>
    cases hd : defClass W.classes k with
    | none => simpa only [wstep, hd] using h
    | some tbl =>
      obtain ⟨rfl, hk⟩ := defClass_eq _ _ _ hd
      simp only [wstep, hd]
      refine ⟨tableWF_append _ _ h.1 hk, ?_⟩
      intro s x hx
      have := h.2 s x hx
      simp only [List.length_append, List.length_cons, List.length_nil]
      omega
  | new slot c arg =>
    cases hl : lookupWeights W.classes c with
    | none => simpa only [wstep, hl] using h
    | some w =>
      cases hi : init w arg with
      | none => simpa only [wstep, hl, hi] using h
      | some f =>
        simpa only [wstep, hl, hi] using worldWF_put W slot ⟨c, f⟩ h (lookup_some_lt _ _ _ hl)
  | set slot arg =>
    cases hx : W.insts slot with
    | none => simpa only [wstep, hx] using h
    | some x =>
      cases hl : lookupWeights W.classes x.cls with
      | none => simpa only [wstep, hx, hl] using h
      | some w =>
        cases hs : setValues w arg.items with
        | none => simpa only [wstep, hx, hl, hs] using h
        | some f => simpa only [wstep, hx, hl, hs] using worldWF_put W slot ⟨x.cls, f⟩ h (h.2 slot x hx)
  | del slot =>
    cases hx : W.insts slot with
    | none => simpa only [wstep, hx] using h
    | some x => simpa only [wstep, hx] using worldWF_put W slot ⟨x.cls, delValues⟩ h (h.2 slot x hx)
  | get slot =>
    cases hx : W.insts slot with
    | none => simpa only [wstep, hx] using h
    | some x => cases hl : lookupWeights W.classes x.cls <;> simpa only [wstep, hx, hl] using h
  | str slot =>
    cases hx : W.insts slot with
    | none => simpa only [wstep, hx] using h
    | some x => cases hl : lookupWeights W.classes x.cls <;> simpa only [wstep, hx, hl] using h
  | cmp i j =>
    cases hx : W.insts i <;> cases hy : W.insts j <;> simpa only [wstep, hx, hy] using h
  | dom i j ia ib =>
    cases hx : W.insts i <;> cases hy : W.insts j <;> simpa only [wstep, hx, hy] using h
  | clone i k =>
    cases hx : W.insts i with
    | none => simpa only [wstep, hx] using h
    | some x => simpa only [wstep, hx] using worldWF_put W k ⟨x.cls, deepcopy x.fit⟩ h (h.2 i x hx)

theorem wrun_wf (W : World α) (ops : List (WOp α)) (h : WorldWF W) : WorldWF (wrun W ops).1 := by
  induction ops generalizing W with
  | nil => exact h
  | cons o ops ih => exact ih _ (wstep_wf W o h)

/-- An operation leaves every variable it does not write exactly as it was: same own weighted values, and the
object's class still resolves to the same weights (even when the operation created a new class). -/
theorem wstep_view_frame (W : World α) (o : WOp α) (s : Nat) (h : WorldWF W) (hs : o.writes ≠ some s) :
    (wstep W o).1.view s = W.view s := by
  cases o with
  | defclass k =>
    cases hd : defClass W.classes k with
    | none => simp only [wstep, hd]
    | some tbl =>
      obtain ⟨rfl, _⟩ := defClass_eq _ _ _ hd
      simp only [wstep, hd, World.view]
      cases hx : W.insts s with
      | none => rfl
      | some x => simp only [lookupWeights_append _ _ h.1 _ (h.2 s x hx)]
  | new slot c arg =>
    have hne : s ≠ slot := fun e => hs (by simp [WOp.writes, e])
    cases hl : lookupWeights W.classes c with
    | none => simp only [wstep, hl]
    | some w =>
      cases hi : init w arg with
      | none => simp only [wstep, hl, hi]
      | some f => simpa only [wstep, hl, hi] using put_view_ne W slot s ⟨c, f⟩ hne
  | set slot arg =>
    have hne : s ≠ slot := fun e => hs (by simp [WOp.writes, e])
    cases hx : W.insts slot with
    | none => simp only [wstep, hx]
    | some x =>
      cases hl : lookupWeights W.classes x.cls with
      | none => simp only [wstep, hx, hl]
      | some w =>
        cases hsv : setValues w arg.items with
        | none => simp only [wstep, hx, hl, hsv]
        | some f => simpa only [wstep, hx, hl, hsv] using put_view_ne W slot s ⟨x.cls, f⟩ hne
  | del slot =>
    have hne : s ≠ slot := fun e => hs (by simp [WOp.writes, e])
    cases hx : W.insts slot with
    | none => simp only [wstep, hx]
    | some x => simpa only [wstep, hx] using put_view_ne W slot s ⟨x.cls, delValues⟩ hne
  | get slot =>
    cases hx : W.insts slot with
    | none => simp only [wstep, hx]
    | some x => cases hl : lookupWeights W.classes x.cls <;> simp only [wstep, hx, hl]
  | str slot =>
    cases hx : W.insts slot with
    | none => simp only [wstep, hx]
    | some x => cases hl : lookupWeights W.classes x.cls <;> simp only [wstep, hx, hl]
  | cmp i j =>
    cases hx : W.insts i <;> cases hy : W.insts j <;> simp only [wstep, hx, hy]
  | dom i j ia ib =>
    cases hx : W.insts i <;> cases hy : W.insts j <;> simp only [wstep, hx, hy]
  | clone i k =>
    have hne : s ≠ k := fun e => hs (by simp [WOp.writes, e])
    cases hx : W.insts i with
    | none => simp only [wstep, hx]
    | some x => simpa only [wstep, hx] using put_view_ne W k s ⟨x.cls, deepcopy x.fit⟩ hne

/-- Non-interference over a whole history: whatever is done to other variables — other instances of the same
class, instances of its ancestors and descendants, reads in any order, new classes — the object in `s` keeps
its own weighted values and its class keeps resolving to the same weights. -/
theorem wrun_view_frame (W : World α) (ops : List (WOp α)) (s : Nat) (h : WorldWF W)
    (hs : ∀ o ∈ ops, o.writes ≠ some s) : (wrun W ops).1.view s = W.view s := by
  induction ops generalizing W with
  | nil => rfl
  | cons o ops ih =>
    simp only [wrun]
    rw [ih _ (wstep_wf W o h) (fun o' ho' => hs o' (by simp [ho'])),
      wstep_view_frame W o s h (hs o (by simp))]

/-- Two objects with the same view: both absent, or both present with the same state and the same resolved weights. -/
theorem view_eq_cases (W W' : World α) (s : Nat) (h : W.view s = W'.view s) :
    (W.insts s = none ∧ W'.insts s = none) ∨
    ∃ x x', W.insts s = some x ∧ W'.insts s = some x' ∧ x.fit = x'.fit ∧
      lookupWeights W.classes x.cls = lookupWeights W'.classes x'.cls := by
  simp only [World.view] at h
  cases hx : W.insts s with
  | none =>
    cases hx' : W'.insts s with
    | none => exact Or.inl ⟨rfl, rfl⟩
    | some x' => simp [hx, hx'] at h
  | some x =>
    cases hx' : W'.insts s with
    | none => simp [hx, hx'] at h
    | some x' =>
      simp only [hx, hx', Option.some.injEq, Prod.mk.injEq] at h
      refine Or.inr ⟨x, x', rfl, rfl, ?_, h.2⟩
      obtain ⟨c, ⟨wv⟩⟩ := x
      obtain ⟨c', ⟨wv'⟩⟩ := x'
      simp only at h
      simp [h.1]

/-- The result of an operation on instances — what the caller observes, and the state it leaves in the variables it
touched — is a function of the VIEWS of the variables it reads: two worlds that agree on those views (whatever
else they contain: other classes, other tables, other objects) give the same result. -/
theorem step_congr (W W' : World α) (o : WOp α) (S : List Nat) (hS : o.reads = some S)
    (hview : ∀ s ∈ S, W.view s = W'.view s) :
    (wstep W o).2 = (wstep W' o).2 ∧
    ∀ s, (s ∈ S ∨ (o.writes = some s ∧ (wstep W o).2 ≠ Out.err)) →
      (wstep W o).1.view s = (wstep W' o).1.view s := by
  cases o with
  | defclass k => simp [WOp.reads] at hS
  | new slot c arg => simp [WOp.reads] at hS
  | set slot arg =>
    simp only [WOp.reads, Option.some.injEq] at hS; subst hS
    have hv := hview slot (by simp)
    have hfin : ∀ (P : Prop) s, (s ∈ [slot] ∨ ((WOp.set slot arg).writes = some s ∧ P)) → s = slot := by
      intro P s hs; rcases hs with hs | ⟨hs, _⟩
      · simpa using hs
      · simp only [WOp.writes, Option.some.injEq] at hs; exact hs.symm
    rcases view_eq_cases W W' slot hv with ⟨hx, hx'⟩ | ⟨x, x', hx, hx', hfit, hlk⟩
    · simp only [wstep, hx, hx', true_and]
      intro s hs; rw [hfin _ s hs]; exact hv
    · cases hl : lookupWeights W.classes x.cls with
      | none =>
        have hl' := hlk ▸ hl
        simp only [wstep, hx, hx', hl, hl', true_and]
        intro s hs; rw [hfin _ s hs]; exact hv
      | some w =>
        have hl' := hlk ▸ hl
        cases hsv : setValues w arg.items with
        | none =>
          simp only [wstep, hx, hx', hl, hl', hsv, true_and]
          intro s hs; rw [hfin _ s hs]; exact hv
        | some f =>
          simp only [wstep, hx, hx', hl, hl', hsv, true_and]
          intro s hs; rw [hfin _ s hs, put_view_self, put_view_self]
          simp only [hl, hl']
  | del slot =>
    simp only [WOp.reads, Option.some.injEq] at hS; subst hS
    have hv := hview slot (by simp)
    have hfin : ∀ (P : Prop) s, (s ∈ [slot] ∨ ((WOp.del slot : WOp α).writes = some s ∧ P)) → s = slot := by
      intro P s hs; rcases hs with hs | ⟨hs, _⟩
      · simpa using hs
      · simp only [WOp.writes, Option.some.injEq] at hs; exact hs.symm
    rcases view_eq_cases W W' slot hv with ⟨hx, hx'⟩ | ⟨x, x', hx, hx', hfit, hlk⟩
    · simp only [wstep, hx, hx', true_and]
      intro s hs; rw [hfin _ s hs]; exact hv
    · simp only [wstep, hx, hx', true_and]
      intro s hs; rw [hfin _ s hs, put_view_self, put_view_self]
      simp only [hlk]
  | get slot =>
    simp only [WOp.reads, Option.some.injEq] at hS; subst hS
    have hv := hview slot (by simp)
    have hfin : ∀ (P : Prop) s, (s ∈ [slot] ∨ ((WOp.get slot : WOp α).writes = some s ∧ P)) → s = slot := by
      intro P s hs; rcases hs with hs | ⟨hs, _⟩
      · simpa using hs
      · simp [WOp.writes] at hs
    rcases view_eq_cases W W' slot hv with ⟨hx, hx'⟩ | ⟨x, x', hx, hx', hfit, hlk⟩
    · simp only [wstep, hx, hx', true_and]
      intro s hs; rw [hfin _ s hs]; exact hv
    · cases hl : lookupWeights W.classes x.cls with
      | none =>
        have hl' := hlk ▸ hl
        simp only [wstep, hx, hx', hl, hl', true_and]
        intro s hs; rw [hfin _ s hs]; exact hv
      | some w =>
        have hl' := hlk ▸ hl
        simp only [wstep, hx, hx', hl, hl', hfit, true_and]
        intro s hs; rw [hfin _ s hs]; exact hv
  | str slot =>
    simp only [WOp.reads, Option.some.injEq] at hS; subst hS
    have hv := hview slot (by simp)
    have hfin : ∀ (P : Prop) s, (s ∈ [slot] ∨ ((WOp.str slot : WOp α).writes = some s ∧ P)) → s = slot := by
      intro P s hs; rcases hs with hs | ⟨hs, _⟩
      · simpa using hs
      · simp [WOp.writes] at hs
    rcases view_eq_cases W W' slot hv with ⟨hx, hx'⟩ | ⟨x, x', hx, hx', hfit, hlk⟩
    · simp only [wstep, hx, hx', true_and]
      intro s hs; rw [hfin _ s hs]; exact hv
    · cases hl : lookupWeights W.classes x.cls with
      | none =>
        have hl' := hlk ▸ hl
        simp only [wstep, hx, hx', hl, hl', true_and]
        intro s hs; rw [hfin _ s hs]; exact hv
      | some w =>
        have hl' := hlk ▸ hl
        simp only [wstep, hx, hx', hl, hl', hfit, true_and]
        intro s hs; rw [hfin _ s hs]; exact hv
  | cmp i j =>
    simp only [WOp.reads, Option.some.injEq] at hS; subst hS
    have hvi := hview i (by simp)
    have hvj := hview j (by simp)
    have hfin : ∀ (P : Prop) s, (s ∈ [i, j] ∨ ((WOp.cmp i j : WOp α).writes = some s ∧ P)) → W.view s = W'.view s := by
      intro P s hs; rcases hs with hs | ⟨hs, _⟩
      · exact hview s hs
      · simp [WOp.writes] at hs
    rcases view_eq_cases W W' i hvi with ⟨hx, hx'⟩ | ⟨x, x', hx, hx', hfit, _⟩ <;>
      rcases view_eq_cases W W' j hvj with ⟨hy, hy'⟩ | ⟨y, y', hy, hy', hfit', _⟩ <;>
      simp only [wstep, hx, hx', hy, hy', true_and, *] <;> exact hfin _
  | dom i j ia ib =>
    simp only [WOp.reads, Option.some.injEq] at hS; subst hS
    have hvi := hview i (by simp)
    have hvj := hview j (by simp)
    have hfin : ∀ (P : Prop) s, (s ∈ [i, j] ∨ ((WOp.dom i j ia ib : WOp α).writes = some s ∧ P)) → W.view s = W'.view s := by
      intro P s hs; rcases hs with hs | ⟨hs, _⟩
      · exact hview s hs
      · simp [WOp.writes] at hs
    rcases view_eq_cases W W' i hvi with ⟨hx, hx'⟩ | ⟨x, x', hx, hx', hfit, _⟩ <;>
      rcases view_eq_cases W W' j hvj with ⟨hy, hy'⟩ | ⟨y, y', hy, hy', hfit', _⟩ <;>
      simp only [wstep, hx, hx', hy, hy', true_and, *] <;> exact hfin _
  | clone i k =>
    simp only [WOp.reads, Option.some.injEq] at hS; subst hS
    have hv := hview i (by simp)
    rcases view_eq_cases W W' i hv with ⟨hx, hx'⟩ | ⟨x, x', hx, hx', hfit, hlk⟩
    · simp only [wstep, hx, hx', true_and]
      intro s hs
      rcases hs with hs | ⟨_, hs⟩
      · simp only [List.mem_singleton] at hs; rw [hs]; exact hv
      · exact absurd rfl hs
    · simp only [wstep, hx, hx', true_and, hfit]
      intro s hs
      by_cases hsk : s = k
      · rw [hsk, put_view_self, put_view_self]; simp only [hlk]
      · rcases hs with hs | ⟨hs, _⟩
        · simp only [List.mem_singleton] at hs
          rw [put_view_ne _ _ _ _ hsk, put_view_ne _ _ _ _ hsk, hs]; exact hv
        · simp only [WOp.writes, Option.some.injEq] at hs; exact absurd hs.symm hsk

/-- What `get` answers is computed from the view. -/
theorem get_of_view (W : World α) (slot : Nat) (wv w : List α) (h : W.view slot = some (wv, some w)) :
    (wstep W (.get slot)).2 = Out.values wv (getValues w ⟨wv⟩) (valid (⟨wv⟩ : Fit α)) := by
  simp only [World.view] at h
  cases hx : W.insts slot with
  | none => simp [hx] at h
  | some x =>
    simp only [hx, Option.some.injEq, Prod.mk.injEq] at h
    obtain ⟨c, ⟨v⟩⟩ := x
    simp only at h
    simp only [wstep, hx, h.2, h.1]


end Step

/-! ### list facts behind `C01.clone_no_recompute` -/

section Reclone
variable {α : Type}

theorem zipWith_div_mul [Mul α] [Div α] (xs ws : List α) :
    List.zipWith (· * ·) (List.zipWith (· / ·) xs ws) ws = List.zipWith (fun x w => x / w * w) xs ws := by
  induction xs generalizing ws with
  | nil => simp
  | cons x xs ih => cases ws with
    | nil => simp
    | cons w ws => simp [ih]

theorem zipWith_eq_left_iff {β : Type} (g : α → β → α) (xs : List α) (ws : List β) (hl : xs.length = ws.length) :
    List.zipWith g xs ws = xs ↔ ∀ p ∈ List.zip xs ws, g p.1 p.2 = p.1 := by
  induction xs generalizing ws with
  | nil => simp
  | cons x xs ih => cases ws with
    | nil => simp at hl
    | cons w ws =>
      have hl' : xs.length = ws.length := by simpa using hl
      simp [ih ws hl']

end Reclone

end C01
