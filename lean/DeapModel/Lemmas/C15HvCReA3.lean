import DeapModel.Lemmas.C15HvCReA1
/-!
C15 — the re-entered 3-D base case of `_hv.c`: what one iteration of the main loop l.899-989 has to deliver
(`StepOut`, independent of the branch taken) for the loop invariant `SLInv` to survive (`slinv_step`).
-/
namespace HvC
set_option linter.unusedVariables false
open Hypervolume
open HvSweep (GCtx Hj RL preSet pos ARv VOLv ids Shaped)

/-- the strip sum kept in `hypera` is the 2-D hypervolume (coordinates 0, 1) of the processed nodes -/
theorem area_Hj {C : Cargo} {R : List ℚ} {d n : ℕ} {O : ℕ → List ℕ} (c : CCtx C R d n O) (S : St) (pre : List ℕ) (hypera : ℚ)
    (hpre : ∀ a ∈ pre, a ∈ ids n ∧ cg C a 0 < rf R 0 ∧ cg C a 1 < rf R 1)
    (hne : S.tree ≠ []) (hnd : S.tree.Nodup)
    (hsub : ∀ t ∈ S.tree, t ∈ pre) (hst : Stair (S.tree.map (item C)))
    (hcov : ∀ q ∈ pre, ∃ t ∈ S.tree, (item C t).1 ≤ (item C q).1 ∧ (item C t).2 ≤ (item C q).2)
    (harea : hypera = hArea (rf R 0) (rf R 1) (S.tree.map (item C))) : hypera = Hj R (spt C R) 1 pre := by
  have hTI : TreeInv C (rf R 0) (rf R 1) S pre hypera := ⟨hne, hnd, hsub, hst, hcov, harea⟩
  rw [hTI.area_eq (fun a ha => ⟨(hpre a ha).2.1, (hpre a ha).2.2⟩)]
  unfold A2 Hj
  have h2 : 2 ≤ R.length := by rw [c.g.hdims]; have := c.hd; omega
  rw [show (1 + 1) = 2 from rfl, HvSweep.take2_ref R h2]
  have := hvCells_take [R.getD 0 0, R.getD 1 0] (pre.map (spt C R))
  rw [← this, List.map_map]
  show hvCells [R.getD 0 0, R.getD 1 0] (pre.map (pt2 C)) = _
  congr 1
  apply List.map_congr_left
  intro a ha
  show pt2 C a = (spt C R a).take 2
  have hd := c.hd
  rw [HvSweep.take2_pt _ (by rw [c.g.len a (hpre a ha).1]; omega),
    c.spt_good (hpre a ha).1 (by omega : 0 < d) (hpre a ha).2.1.le,
    c.spt_good (hpre a ha).1 (by omega : 1 < d) (hpre a ha).2.2.le]
  rfl

/-- the pointers around the swept node, and `height` of l.907-909 -/
theorem hgt_eq (C : Cargo) (R : List ℚ) (n : ℕ) (S : St) (pre rest : List ℕ) (p : ℕ) (hD : DLc n S 2 (pre ++ p :: rest)) :
    hgt C R S p = zOf C (rf R 2) rest - cg C p 2 ∧ nx S 2 p = rest.headD 0 ∧ p ≠ 0 := by
  have hndL : (pre ++ p :: rest).Nodup := hD.2.1
  have hp0 : p ≠ 0 := by
    have := (hD.2.2 p (by simp)).1
    omega
  have hprest : p ∉ rest := (List.nodup_cons.mp (List.nodup_append.mp hndL).2.1).1
  have hnode := HvSweep.seg_node (toSw S) 2 pre 0 p rest 0 hD.1
  have hnx : nx S 2 p = rest.headD 0 := by
    have := hnode.2.1
    cases rest with
    | nil => simpa using this
    | cons q rest => simpa using this
  have hlast : pv S 2 0 = (p :: rest).getLast (by simp) := by
    have := HvSweep.seg_pv_end (toSw S) 2 (pre ++ p :: rest) 0 0 hD.1
    rw [show HvSweep.pv (toSw S) 2 0 = pv S 2 0 from rfl] at this
    rw [this, List.getLast_cons (by simp), List.getLast_append_of_ne_nil (by simp)]
  refine ⟨?_, hnx, hp0⟩
  unfold hgt
  cases rest with
  | nil =>
    have : pv S 2 0 = p := by rw [hlast]; rfl
    rw [if_pos this.symm]; rfl
  | cons q rest' =>
    have hne : p ≠ pv S 2 0 := by
      rw [hlast, List.getLast_cons (by simp)]
      intro e
      exact hprest (e ▸ List.getLast_mem _)
    rw [if_neg hne, hnx]; rfl

/-- **what one iteration on the node `p` delivers**, whatever branch was taken -/
structure StepOut (C : Cargo) (R : List ℚ) (d n : ℕ) (O : ℕ → List ℕ) (A : List ℕ) (S : St) (pre : List ℕ) (p : ℕ)
    (hyperv hypera : ℚ) (S' : St) (v' hypera' : ℚ) : Prop where
  ptr : PtrFrame S S'
  tsh : TSh d n S'
  arp : ar S' p 2 = hypera'
  vlp : vl S' p 2 = hyperv
  cfr : ∀ a i, (a ≠ p ∨ i ≠ 2) → ar S' a i = ar S a i ∧ vl S' a i = vl S a i
  val : v' = hyperv + hypera' * hgt C R S p
  ignfr : ∀ y, y ≠ p → ign S' y = ign S y
  tne : S'.tree ≠ []
  tnd : S'.tree.Nodup
  tsub : ∀ t ∈ S'.tree, t = p ∨ t ∈ S.tree
  stair : Stair (S'.tree.map (item C))
  area : hypera' = hArea (rf R 0) (rf R 1) (S'.tree.map (item C))
  cover : ∀ q, (q = p ∨ q ∈ S.tree) → ∃ t ∈ S'.tree, (item C t).1 ≤ (item C q).1 ∧ (item C t).2 ≤ (item C q).2
  d1 : ∀ y, y ≠ p → (y ∉ S.tree ∨ y ∈ S'.tree) → dr S' y = dr S y
  d2 : p ∈ S'.tree → dr S' p = rf R 2 ∧ ¬ (2 : ℤ) ≤ ign S' p ∧ ∀ q ∈ pre, ¬ Beats C O q p
  d3 : p ∉ S'.tree → dr S' p = cg C p 2 ∧ ∃ q ∈ pre, Beats C O q p
  d4 : ∀ a ∈ S.tree, a ∉ S'.tree →
    dr S' a = cg C p 2 ∧ cg C p 0 ≤ cg C a 0 ∧ cg C p 1 ≤ cg C a 1 ∧ item C p ≠ item C a
  d5 : ∀ a ∈ S'.tree, a ≠ p → ¬ Beats C O p a
  i1 : ign S' p = ign S p ∨ (ign S' p = 2 ∧ ∃ b ∈ A, DomC C O 2 b p)

/-- the static facts about the list of dimension 2 split at the swept node -/
structure SplitFacts (C : Cargo) (O : ℕ → List ℕ) (A pre : List ℕ) (p : ℕ) (rest : List ℕ) : Prop where
  nd : (pre ++ p :: rest).Nodup
  memA : ∀ x, x ∈ pre ++ p :: rest → x ∈ A
  ofA : ∀ x ∈ A, x ∈ pre ++ p :: rest
  ppre : p ∉ pre
  prest : p ∉ rest
  pos1 : ∀ b ∈ pre, pos O 2 b < pos O 2 p
  pos2 : ∀ b ∈ rest, pos O 2 p < pos O 2 b
  zpre : ∀ a ∈ pre, cg C a 2 ≤ cg C p 2
  zrest : ∀ q ∈ rest, cg C p 2 ≤ cg C q 2

theorem splitFacts {C : Cargo} {R : List ℚ} {d n : ℕ} {O : ℕ → List ℕ} (c : CCtx C R d n O) {A pre rest : List ℕ} {p : ℕ}
    (hA : ∀ a ∈ A, a ∈ ids n) (hsplit : RL O 2 A = pre ++ p :: rest) : SplitFacts C O A pre p rest := by
  have h2d : 2 < d := by have := c.hd; omega
  have hRLnd : (pre ++ p :: rest).Nodup := by rw [← hsplit]; exact HvSweep.RL_nodup c.g h2d A
  have hmemA : ∀ x, x ∈ pre ++ p :: rest → x ∈ A := fun x hx =>
    ((HvSweep.mem_RL O 2 A x).mp (by rw [hsplit]; exact hx)).2
  have hofA : ∀ x ∈ A, x ∈ pre ++ p :: rest := fun x hx => by
    rw [← hsplit]; exact (HvSweep.mem_RL O 2 A x).mpr ⟨(c.g.mem h2d x).mpr (hA x hx), hx⟩
  obtain ⟨hpos1, hpos2⟩ := HvSweep.pos_lt_of_split O 2 (c.g.nodup h2d) (RL O 2 A) pre rest p (HvSweep.RL_sublist O 2 A) hsplit
  have hsort : (pre ++ p :: rest).Pairwise (fun a b => cg C a 2 ≤ cg C b 2) := by
    have := c.RL_sorted h2d A
    rw [hsplit] at this
    exact this
  exact
    { nd := hRLnd
      memA := hmemA
      ofA := hofA
      ppre := fun hm => (List.nodup_append.mp hRLnd).2.2 p hm p (by simp) rfl
      prest := (List.nodup_cons.mp (List.nodup_append.mp hRLnd).2.1).1
      pos1 := hpos1
      pos2 := hpos2
      zpre := fun a ha => (List.pairwise_append.mp hsort).2.2 a ha p (by simp)
      zrest := fun q hq => (List.pairwise_cons.mp (List.pairwise_append.mp hsort).2.1).1 q hq }

/-- **one iteration keeps the loop invariant** -/
theorem slinv_step {C : Cargo} {R : List ℚ} {d n : ℕ} {O : ℕ → List ℕ} {A : List ℕ} {S S' : St} {pre rest : List ℕ} {p : ℕ}
    {hyperv hypera v' hypera' : ℚ} (c : CCtx C R d n O)
    (I : SLInv C R d n O A S pre (p :: rest) hyperv hypera)
    (h : StepOut C R d n O A S pre p hyperv hypera S' v' hypera') :
    SLInv C R d n O A S' (pre ++ [p]) rest v' hypera' := by
  have h2d : 2 < d := by have := c.hd; omega
  have F := splitFacts c I.asub I.split
  have hpA : p ∈ A := F.memA p (by simp)
  have hpreA : ∀ x ∈ pre, x ∈ A := fun x hx => F.memA x (by simp [hx])
  have hrestA : ∀ x ∈ rest, x ∈ A := fun x hx => F.memA x (by simp [hx])
  have hpT : p ∉ S.tree := fun hm => F.ppre (I.tsub p hm)
  have hpI := I.asub p hpA
  have hgood : ∀ a ∈ A, a ∈ ids n ∧ cg C a 0 < rf R 0 ∧ cg C a 1 < rf R 1 := fun a ha =>
    ⟨I.asub a ha, I.agood a ha 0 (by omega), I.agood a ha 1 (by omega)⟩
  have hr2 : ∀ a ∈ A, cg C a 2 < rf R 2 := fun a ha => I.agood a ha 2 h2d
  obtain ⟨hhgt, hnx, hp0⟩ := hgt_eq C R n S pre rest p (by have := I.dl; rw [I.split] at this; exact this)
  have hsw : toSw S' = toSw S := toSw_eq_of h.ptr.1 h.ptr.2.1
  -- the new tree w.r.t. the new prefix
  have htsub' : ∀ t ∈ S'.tree, t ∈ pre ++ [p] := by
    intro t ht
    rcases h.tsub t ht with rfl | ht'
    · simp
    · exact List.mem_append_left _ (I.tsub t ht')
  have hcover' : ∀ q ∈ pre ++ [p], ∃ t ∈ S'.tree, (item C t).1 ≤ (item C q).1 ∧ (item C t).2 ≤ (item C q).2 := by
    intro q hq
    rcases List.mem_append.mp hq with hq | hq
    · obtain ⟨t, ht, hd⟩ := I.cover q hq
      obtain ⟨t', ht', hd'⟩ := h.cover t (Or.inr ht)
      exact ⟨t', ht', le_trans hd'.1 hd.1, le_trans hd'.2 hd.2⟩
    · simp at hq; subst hq
      exact h.cover q (Or.inl rfl)
  have hpre'A : ∀ x ∈ pre ++ [p], x ∈ A := by
    intro x hx
    rcases List.mem_append.mp hx with hx | hx
    · exact hpreA x hx
    · simp at hx; rw [hx]; exact hpA
  -- the values
  have hA0 : hypera = Hj R (spt C R) 1 pre :=
    area_Hj c S pre hypera (fun a ha => hgood a (hpreA a ha)) I.tne I.tnd I.tsub I.stair I.cover I.area
  have hA1 : hypera' = Hj R (spt C R) 1 (pre ++ [p]) :=
    area_Hj c S' (pre ++ [p]) hypera' (fun a ha => hgood a (hpre'A a ha)) h.tne h.tnd htsub' h.stair hcover' h.area
  have hcons : ∀ j, Hj R (spt C R) j (pre ++ [p]) = Hj R (spt C R) j (p :: pre) := fun j =>
    HvSweep.Hj_congr R (spt C R) j _ _ (fun a => by simp [or_comm])
  have hslab := HvSweep.Hj_add_top c.g 1 (by omega) pre p
    (by
      intro s hs
      rcases List.mem_cons.mp hs with rfl | hs
      · exact hpI
      · exact I.asub s (hpreA s hs))
    (fun s hs => c.spt_mono (I.asub s (hpreA s hs)) hpI h2d (F.zpre s hs))
  have hV1 : hyperv + hypera' * (rf R 2 - cg C p 2) = Hj R (spt C R) 2 (pre ++ [p]) := by
    have hv := I.val
    simp only [zOf] at hv
    rw [hcons 2, show (2 : ℕ) = 1 + 1 from rfl, hslab, ← hcons 1, ← hA1, ← hA0]
    have e1 : Hj R (spt C R) (1 + 1) pre = hyperv + hypera * (rf R 2 - cg C p 2) := hv.symm
    rw [e1, c.spt_good hpI h2d (hr2 p hpA).le]
    show _ = _ + (rf R 2 - cg C p 2) * _
    ring
  have hpreSet : ∀ b, b ∈ preSet O (1 + 1) A p ↔ b ∈ pre ++ [p] :=
    HvSweep.mem_preSet_of_split c.g h2d A I.asub pre rest p I.split
  have hARp : ARv R (spt C R) O 1 A p = hypera' := by
    unfold HvSweep.ARv
    rw [HvSweep.Hj_congr R (spt C R) 1 _ _ hpreSet, hA1]
  have hVLp : VOLv (stc C R) R (spt C R) O 1 A p = hyperv := by
    unfold HvSweep.VOLv
    rw [hARp, HvSweep.Hj_congr R (spt C R) (1 + 1) _ _ hpreSet, c.cg_tr hpI h2d (hr2 p hpA).le]
    have := hV1
    rw [show (2 : ℕ) = 1 + 1 from rfl] at this
    rw [← this]; ring
  -- `domr` of the members of the old tree
  have hdrA : ∀ a ∈ pre, a ∈ S.tree → a ∉ S'.tree → dr S' a = cg C p 2 := fun a _ h1 h2 => (h.d4 a h1 h2).1
  have hne_p : ∀ a ∈ pre, a ≠ p := fun a ha e => F.ppre (e ▸ ha)
  exact
    { anodup := I.anodup
      asub := I.asub
      agood := I.agood
      split := by rw [I.split]; simp
      prene := by simp
      shape := by unfold ShapeC; rw [hsw]; exact I.shape
      tsh := h.tsh
      dl := by unfold DLc; rw [hsw]; exact I.dl
      tne := h.tne
      tnd := h.tnd
      tsub := htsub'
      tign := by
        intro t ht
        by_cases htp : t = p
        · rw [htp] at ht ⊢; exact (h.d2 ht).2.1
        · rw [h.ignfr t htp]
          rcases h.tsub t ht with e | ht'
          · exact absurd e htp
          · exact I.tign t ht'
      stair := h.stair
      cover := hcover'
      area := h.area
      val := by
        rw [← hV1, h.val, hhgt]; ring
      cache := by
        intro a ha
        rcases List.mem_append.mp ha with ha | ha
        · have hne := hne_p a ha
          rw [(h.cfr a 2 (Or.inl hne)).1, (h.cfr a 2 (Or.inl hne)).2]
          exact I.cache a ha
        · simp at ha; subst ha
          rw [h.arp, h.vlp, hARp, hVLp]; exact ⟨rfl, rfl⟩
      drT := by
        intro t ht
        by_cases htp : t = p
        · rw [htp] at ht ⊢; exact (h.d2 ht).1
        · rw [h.d1 t htp (Or.inr ht)]
          rcases h.tsub t ht with e | ht'
          · exact absurd e htp
          · exact I.drT t ht'
      drge := by
        intro a ha
        rcases List.mem_append.mp ha with ha | ha
        · have hne := hne_p a ha
          by_cases h1 : a ∈ S.tree
          · by_cases h2 : a ∈ S'.tree
            · rw [h.d1 a hne (Or.inr h2)]; exact I.drge a ha
            · rw [(h.d4 a h1 h2).1]; exact F.zpre a ha
          · rw [h.d1 a hne (Or.inl h1)]; exact I.drge a ha
        · simp at ha; subst ha
          by_cases h2 : a ∈ S'.tree
          · rw [(h.d2 h2).1]; exact le_of_lt (hr2 a hpA)
          · rw [(h.d3 h2).1]
      drout := by
        intro a ha haT
        rcases List.mem_append.mp ha with ha | ha
        · have hne := hne_p a ha
          by_cases h1 : a ∈ S.tree
          · obtain ⟨e1, e2, e3, e4⟩ := h.d4 a h1 haT
            refine ⟨fun q hq => by rw [e1]; exact F.zrest q hq, p, by simp, ⟨fun e => hne e.symm, e2, e3, fun e => absurd e e4⟩, by rw [e1]⟩
          · rw [h.d1 a hne (Or.inl h1)]
            obtain ⟨o1, q, hq, o2, o3⟩ := I.drout a ha h1
            exact ⟨fun q' hq' => o1 q' (by simp [hq']), q, List.mem_append_left _ hq, o2, o3⟩
        · simp at ha; subst ha
          obtain ⟨e1, q, hq, e2⟩ := h.d3 haT
          refine ⟨fun q' hq' => by rw [e1]; exact F.zrest q' hq', q, List.mem_append_left _ hq, e2, by rw [e1]; exact F.zpre q hq⟩
      drL := by
        intro a ha0 q hq0 hb
        rcases List.mem_append.mp ha0 with ha | ha
        · have hne := hne_p a ha
          rcases List.mem_append.mp hq0 with hq | hq
          · by_cases h1 : a ∈ S.tree
            · by_cases h2 : a ∈ S'.tree
              · rw [h.d1 a hne (Or.inr h2)]; exact I.drL a ha q hq hb
              · -- impossible: `a` was in the tree, so nobody processed beats it
                have := I.drL a ha q hq hb
                rw [I.drT a h1] at this
                have h3 := hr2 a (hpreA a ha)
                have h4 := hr2 q (hpreA q hq)
                have := max_lt h3 h4
                linarith
            · rw [h.d1 a hne (Or.inl h1)]; exact I.drL a ha q hq hb
          · simp at hq; subst hq
            by_cases h2 : a ∈ S'.tree
            · exact absurd hb (h.d5 a h2 hne)
            · by_cases h1 : a ∈ S.tree
              · rw [(h.d4 a h1 h2).1]; exact le_max_right _ _
              · rw [h.d1 a hne (Or.inl h1)]
                exact le_trans ((I.drout a ha h1).1 q (by simp)) (le_max_right _ _)
        · simp at ha; subst ha
          by_cases h2 : a ∈ S'.tree
          · rcases List.mem_append.mp hq0 with hq | hq
            · exact absurd hb ((h.d2 h2).2.2 q hq)
            · simp at hq; exact absurd hq hb.1
          · rw [(h.d3 h2).1]; exact le_max_left _ _
      ig := by
        intro q hq hm
        by_cases hqp : q = p
        · rw [hqp] at hm ⊢
          rcases h.i1 with e | ⟨e, b, hb, hd⟩
          · rw [e] at hm ⊢
            exact I.ig p hpA hm
          · rw [e]; exact ⟨b, hb, hd⟩
        · rw [h.ignfr q hqp] at hm ⊢
          exact I.ig q hq hm
      igd := by
        intro q hm
        by_cases hqp : q = p
        · rw [hqp] at hm ⊢
          by_cases h2 : p ∈ S'.tree
          · exact absurd hm (h.d2 h2).2.1
          · exact (h.d3 h2).1
        · rw [h.ignfr q hqp] at hm
          have h1 : q ∉ S.tree := fun hT => I.tign q hT hm
          rw [h.d1 q hqp (Or.inl h1)]
          exact I.igd q hm }

end HvC
