/-
Helper lemmas for C08 (HallOfFame / ParetoFront): list surgery (`insertAt`, `removeAt`),
the fitness order, and what `insert` / `remove` do to the two parallel lists.
-/
import DeapModel.Core.Archive
import DeapModel.Props.C01
import Mathlib.Order.Defs.LinearOrder
import Mathlib.Data.List.Lex

set_option linter.unusedSectionVars false
set_option linter.unusedSimpArgs false
set_option linter.unusedVariables false

namespace C08L
open Archive Fitness

/-! ### Lists -/
section Lists
variable {β : Type}

theorem removeAt_eq_eraseIdx (l : List β) (i : Nat) : Py.removeAt l i = l.eraseIdx i := by
  simp [Py.removeAt, List.eraseIdx_eq_take_drop_succ]

theorem mem_insertAt (l : List β) (i : Nat) (a x : β) : x ∈ Py.insertAt l i a ↔ x = a ∨ x ∈ l := by
  have h : x ∈ l ↔ x ∈ l.take i ∨ x ∈ l.drop i := by
    rw [← List.mem_append, List.take_append_drop]
  simp only [Py.insertAt, List.mem_append, List.mem_cons, h]
  tauto

theorem length_insertAt (l : List β) (i : Nat) (a : β) : (Py.insertAt l i a).length = l.length + 1 := by
  simp only [Py.insertAt, List.length_append, List.length_cons, List.length_take, List.length_drop]
  omega

theorem insertAt_ne_nil (l : List β) (i : Nat) (a : β) : Py.insertAt l i a ≠ [] := by
  intro h
  have := length_insertAt l i a
  rw [h] at this; simp at this

/-- A symmetric-in-use criterion: the new element is related to every old one in both directions. -/
theorem pairwise_insertAt {R : β → β → Prop} (l : List β) (i : Nat) (a : β) (hl : l.Pairwise R)
    (h1 : ∀ x ∈ l, R x a) (h2 : ∀ x ∈ l, R a x) : (Py.insertAt l i a).Pairwise R := by
  have hl' : (l.take i ++ l.drop i).Pairwise R := by rw [List.take_append_drop]; exact hl
  rw [List.pairwise_append] at hl'
  obtain ⟨p1, p2, p3⟩ := hl'
  simp only [Py.insertAt]
  rw [List.pairwise_append]
  refine ⟨p1, ?_, ?_⟩
  · rw [List.pairwise_cons]
    exact ⟨fun x hx => h2 x (List.mem_of_mem_drop hx), p2⟩
  · intro x hx y hy
    rw [List.mem_cons] at hy
    rcases hy with rfl | hy
    · exact h1 x (List.mem_of_mem_take hx)
    · exact p3 x hx y hy

theorem map_insertAt {γ : Type} (f : β → γ) (l : List β) (i : Nat) (a : β) :
    (Py.insertAt l i a).map f = Py.insertAt (l.map f) i (f a) := by
  simp [Py.insertAt, List.map_take, List.map_drop]

theorem reverse_insertAt (l : List β) (k : Nat) (a : β) (hk : k ≤ l.length) :
    (Py.insertAt l k a).reverse = Py.insertAt l.reverse (l.length - k) a := by
  simp only [Py.insertAt, List.reverse_append, List.reverse_cons, List.take_reverse, List.drop_reverse,
    List.append_assoc, List.singleton_append]
  have : l.length - (l.length - k) = k := by omega
  rw [this]

theorem map_eraseIdx' {γ : Type} (f : β → γ) (l : List β) (j : Nat) :
    (l.eraseIdx j).map f = (l.map f).eraseIdx j := by
  simp [List.eraseIdx_eq_take_drop_succ, List.map_take, List.map_drop]

theorem eraseIdx_append_last (ys : List β) (w : β) : (ys ++ [w]).eraseIdx ys.length = ys := by
  simp [List.eraseIdx_eq_take_drop_succ]

theorem reverse_eraseIdx (l : List β) (j : Nat) (hj : j < l.length) :
    (l.eraseIdx j).reverse = l.reverse.eraseIdx (l.length - 1 - j) := by
  rw [List.eraseIdx_eq_take_drop_succ, List.eraseIdx_eq_take_drop_succ, List.reverse_append,
    List.take_reverse, List.drop_reverse]
  have h1 : l.length - (l.length - 1 - j) = j + 1 := by omega
  have h2 : l.length - (l.length - 1 - j + 1) = j := by omega
  rw [h1, h2]

/-- positions (counted from `i`) of the elements satisfying `p` -/
def idxs (p : β → Bool) : List β → Nat → List Nat
  | [], _ => []
  | a :: t, i => if p a then i :: idxs p t (i + 1) else idxs p t (i + 1)

theorem idxs_succ (p : β → Bool) (l : List β) (i : Nat) :
    idxs p l (i + 1) = (idxs p l i).map (· + 1) := by
  induction l generalizing i with
  | nil => simp [idxs]
  | cons a t ih =>
    simp only [idxs]
    split <;> simp [ih]

theorem foldl_eraseIdx_succ (a : β) (t : List β) (js : List Nat) :
    (js.map (· + 1)).foldl List.eraseIdx (a :: t) = a :: js.foldl List.eraseIdx t := by
  induction js generalizing t with
  | nil => simp
  | cons j js ih => simp [List.foldl_cons, List.eraseIdx_cons_succ, ih]

/-- deleting the positions of the `p`-elements from the highest to the lowest leaves the others -/
theorem foldl_eraseIdx_idxs (p : β → Bool) (l : List β) :
    (idxs p l 0).reverse.foldl List.eraseIdx l = l.filter (fun x => !p x) := by
  induction l with
  | nil => simp [idxs]
  | cons a t ih =>
    simp only [idxs, idxs_succ, Nat.zero_add]
    by_cases h : p a = true
    · simp only [h, ↓reduceIte, List.reverse_cons, List.foldl_append, List.foldl_cons, List.foldl_nil,
        ← List.map_reverse, foldl_eraseIdx_succ, ih]
      simp [h]
    · simp only [h, Bool.false_eq_true, ↓reduceIte, ← List.map_reverse, foldl_eraseIdx_succ, ih]
      simp [h]

theorem idxs_lt (p : β → Bool) (l : List β) (i : Nat) : ∀ j ∈ idxs p l i, i ≤ j ∧ j < i + l.length := by
  induction l generalizing i with
  | nil => simp [idxs]
  | cons a t ih =>
    intro j hj
    simp only [idxs] at hj
    split at hj
    · rw [List.mem_cons] at hj
      rcases hj with rfl | hj
      · simp
      · have := ih (i + 1) j hj; simp only [List.length_cons]; omega
    · have := ih (i + 1) j hj; simp only [List.length_cons]; omega

theorem idxs_sorted (p : β → Bool) (l : List β) (i : Nat) : (idxs p l i).Pairwise (· < ·) := by
  induction l generalizing i with
  | nil => simp [idxs]
  | cons a t ih =>
    simp only [idxs]
    split
    · rw [List.pairwise_cons]
      refine ⟨fun j hj => ?_, ih (i + 1)⟩
      have := idxs_lt p t (i + 1) j hj; omega
    · exact ih (i + 1)

end Lists

/-! ### The fitness order -/
section Order
variable {α : Type} [LinearOrder α]

theorem fitlt_iff (a b : Fit α) : (a < b) ↔ a.wvalues < b.wvalues := by
  show Fitness.lt a b = true ↔ _
  exact C01.lt_iff_lex a b

theorem gt_iff (a b : Fit α) : Fitness.gt a b = true ↔ b.wvalues < a.wvalues := by
  rw [C01.gt_iff_swap]; exact C01.lt_iff_lex b a

theorem gt_false_iff (a b : Fit α) : Fitness.gt a b = false ↔ a.wvalues ≤ b.wvalues := by
  rw [← not_lt, ← gt_iff]; simp

theorem eq_iff (a b : Fit α) : Fitness.eq a b = true ↔ a = b := by
  rw [C01.eq_iff]
  constructor
  · intro h; cases a; cases b; simp_all
  · intro h; rw [h]

theorem deepcopy_eq (f : Fit α) : deepcopy f = f := rfl

/-- `bisect_right` never returns a position past the end. -/
theorem bisectRight_le (keys : List (Fit α)) (f : Fit α) : Py.bisectRight keys f ≤ keys.length := by
  induction keys with
  | nil => simp [Py.bisectRight]
  | cons y ys ih =>
    simp only [Py.bisectRight]
    split <;> (simp; try omega)

/-- keys ascending -/
def Asc (keys : List (Fit α)) : Prop := keys.Pairwise (fun a b => a.wvalues ≤ b.wvalues)

/-- Inserting at the `bisect_right` position keeps an ascending list ascending. -/
theorem asc_insert (keys : List (Fit α)) (f : Fit α) (h : Asc keys) :
    Asc (Py.insertAt keys (Py.bisectRight keys f) f) := by
  induction keys with
  | nil => simp [Py.bisectRight, Py.insertAt, Asc]
  | cons y ys ih =>
    simp only [Asc, List.pairwise_cons] at h
    simp only [Py.bisectRight]
    split
    · next hlt =>
      rw [fitlt_iff] at hlt
      simp only [Py.insertAt, List.take_zero, List.drop_zero, List.nil_append, Asc, List.pairwise_cons]
      refine ⟨?_, h.1, h.2⟩
      intro z hz
      rw [List.mem_cons] at hz
      rcases hz with rfl | hz
      · exact le_of_lt hlt
      · exact le_trans (le_of_lt hlt) (h.1 z hz)
    · next hlt =>
      rw [fitlt_iff, not_lt] at hlt
      have : Py.insertAt (y :: ys) (Py.bisectRight ys f + 1) f = y :: Py.insertAt ys (Py.bisectRight ys f) f := by
        simp [Py.insertAt]
      rw [this]
      simp only [Asc, List.pairwise_cons]
      refine ⟨?_, ih h.2⟩
      intro z hz
      rw [mem_insertAt] at hz
      rcases hz with rfl | hz
      · exact hlt
      · exact h.1 z hz

/-! ### `bisect_right`: binary search = linear scan on ascending keys -/

/-- what the linear scan returns: the boundary between the keys `≤ x` and the keys `> x` -/
theorem lin_spec (a : List (Fit α)) (x : Fit α) :
    Py.bisectRight a x ≤ a.length ∧
    (∀ j (hj : j < a.length), j < Py.bisectRight a x → ¬ (x < a[j])) ∧
    (∀ (hi : Py.bisectRight a x < a.length), x < a[Py.bisectRight a x]) := by
  induction a with
  | nil => simp [Py.bisectRight]
  | cons y ys ih =>
    obtain ⟨i1, i2, i3⟩ := ih
    simp only [Py.bisectRight]
    split
    · next hlt => simp [hlt]
    · next hlt =>
      refine ⟨by simp; omega, ?_, ?_⟩
      · intro j hj hlt'
        cases j with
        | zero => simpa using hlt
        | succ j => simp only [List.getElem_cons_succ]; exact i2 j (by simpa using hj) (by omega)
      · intro hi
        simp only [List.getElem_cons_succ]
        exact i3 (by simpa using hi)

theorem bisectLoop_spec (a : List (Fit α)) (x : Fit α) (hasc : Asc a) :
    ∀ fuel lo hi, hi - lo < fuel → lo ≤ hi → hi ≤ a.length →
      (∀ j (hj : j < a.length), j < lo → ¬ (x < a[j])) →
      (∀ j (hj : j < a.length), hi ≤ j → x < a[j]) →
      bisectLoop a x fuel lo hi ≤ a.length ∧
      (∀ j (hj : j < a.length), j < bisectLoop a x fuel lo hi → ¬ (x < a[j])) ∧
      (∀ j (hj : j < a.length), bisectLoop a x fuel lo hi ≤ j → x < a[j]) := by
  intro fuel
  induction fuel with
  | zero => intro lo hi h; omega
  | succ fuel ih =>
    intro lo hi hf hle hlen hlo hhi
    simp only [bisectLoop]
    split
    · next hlt =>
      have hmid : (lo + hi) / 2 < a.length := by omega
      have hm1 : lo ≤ (lo + hi) / 2 := by omega
      have hm2 : (lo + hi) / 2 < hi := by omega
      rw [List.getElem?_eq_getElem hmid]
      simp only
      rw [Asc, List.pairwise_iff_getElem] at hasc
      split
      · next hx =>
        apply ih lo ((lo + hi) / 2) (by omega) hm1 (by omega) hlo
        intro j hj hmj
        rcases Nat.eq_or_lt_of_le hmj with e | hl
        · subst e; exact hx
        · rw [fitlt_iff] at hx ⊢
          exact lt_of_lt_of_le hx (hasc _ _ hmid hj hl)
      · next hx =>
        apply ih ((lo + hi) / 2 + 1) hi (by omega) (by omega) hlen _ hhi
        intro j hj hjm
        rcases Nat.eq_or_lt_of_le (Nat.le_of_lt_succ hjm) with e | hl
        · subst e; exact hx
        · rw [fitlt_iff] at hx ⊢
          intro hc
          exact hx (lt_of_lt_of_le hc (hasc _ _ hj hmid hl))
    · next hge =>
      have : lo = hi := by omega
      subst this
      exact ⟨hlen, hlo, hhi⟩

/-- On an ascending key list CPython's binary search returns the position of the linear scan. -/
theorem bisectRight_eq (a : List (Fit α)) (x : Fit α) (hasc : Asc a) :
    Archive.bisectRight a x = Py.bisectRight a x := by
  obtain ⟨b1, b2, b3⟩ := bisectLoop_spec a x hasc (a.length + 1) 0 a.length (by omega) (by omega)
    (Nat.le_refl _) (fun j hj h => by omega) (fun j hj h => by omega)
  obtain ⟨l1, l2, l3⟩ := lin_spec a x
  show bisectLoop a x (a.length + 1) 0 a.length = _
  rcases Nat.lt_trichotomy (bisectLoop a x (a.length + 1) 0 a.length) (Py.bisectRight a x) with h | h | h
  · exact absurd (b3 _ (by omega) (Nat.le_refl _)) (l2 _ (by omega) h)
  · exact h
  · exact absurd (l3 (by omega)) (b2 _ (by omega) h)

end Order

end C08L
