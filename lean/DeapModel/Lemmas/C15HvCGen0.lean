import DeapModel.Lemmas.C15HvCInv
/-!
C15 — the general case of `hv_recursive` in `_hv.c` (`dim > 2`, l.710-819): the statements about its first phase
(the reset loop l.719-722 and the deletion loop l.724-744) around which the second phase (the reinsertion loop
l.780-808) and the level interface `GeneralStep_Statement` are assembled.
-/
namespace HvC
set_option linter.unusedVariables false
open Hypervolume
open HvSweep (GCtx Hj RL preSet pos ARv VOLv ids Shaped)

/-- l.733-741 for one node: `delete_dom` when the node is marked at this level, `delete` otherwise -/
def delStep (C : Cargo) (dim : ℕ) (S : St) (x : ℕ) : St :=
  if (dim : ℤ) ≤ ign S x then deleteDom S x dim else delete C S x dim

/-- the deletion loop as a fold over the nodes it deletes, in the order of deletion -/
def delSeq (C : Cargo) (dim : ℕ) (S : St) (rs : List ℕ) : St := rs.foldl (delStep C dim) S

/-- **the reset loop l.719-722**: walks the list of dimension `k` backwards from its last node `q` (`l` are the nodes
before `q`), clears the marks below the level, changes nothing else -/
def ResetLoopC_Statement : Prop :=
  ∀ (d n k : ℕ) (l : List ℕ) (q : ℕ) (S : St) (fuel : ℕ),
    HvSweep.Seg (toSw S) k 0 l q → l.length + 1 ≤ fuel → ShapeC d n S → S.ignore.length = n + 1 → (q :: l).Nodup →
    (∀ a ∈ q :: l, a ≠ 0 ∧ a ≤ n) →
    ∃ S', resetLoop k fuel q S = some S' ∧ S'.next = S.next ∧ S'.prev = S.prev ∧ S'.area = S.area ∧ S'.vol = S.vol ∧
      S'.bound = S.bound ∧ S'.domr = S.domr ∧ S'.tree = S.tree ∧ S'.calls = S.calls ∧ S'.ignore.length = n + 1 ∧
      (∀ y, y ∉ q :: l → ign S' y = ign S y) ∧
      (∀ y ∈ q :: l, (ign S y < (k : ℤ) → ign S' y = 0) ∧ ((k : ℤ) ≤ ign S y → ign S' y = ign S y))

/-- **the deletion loop l.724-744**: which nodes it deletes (`rs`, in the order of deletion, i.e. from the end of the
list of dimension `k`), and why it stopped (`c == 1`, or both `p1` and its predecessor are at / strictly below `bound[k]`) -/
def DeleteLoopC_Statement : Prop :=
  ∀ (C : Cargo) (k : ℕ) (len : ℕ) (pre : List ℕ) (q : ℕ) (suf : List ℕ) (p : ℕ) (S : St),
    len = pre.length + 1 → HvSweep.Seg (toSw S) k 0 (pre ++ q :: suf) 0 →
    ∃ pre' q' rs, deleteLoop C k len p q S = ((rs.reverse ++ [p]).headD 0, q', pre'.length + 1, delSeq C k S rs) ∧
      pre ++ [q] = pre' ++ q' :: rs.reverse ∧
      ∀ d0 p0, pre' = d0 ++ [p0] → ∃ b, S.bound.getD k none = some b ∧ cg C q' k ≤ b ∧ cg C p0 k < b

/-- **after the deletions**: when the marks are `0` or at least the level (what the reset loop leaves), deleting the
suffix `rs.reverse` of the list of the level from the lists `2 .. j` leaves the level-`j` invariant for the prefix —
`delete` lowers the bounds `2 .. j` to the deleted coordinates, `delete_dom` does not, which is sound because the
deleted node is dominated by a node that stays — and writes nothing but those pointers and bounds -/
def AfterDeletionsC_Statement : Prop :=
  ∀ (C : Cargo) (R : List ℚ) (d n : ℕ) (O : ℕ → List ℕ) (j : ℕ) (A : List ℕ) (S₁ : St),
    CCtx C R d n O → 2 ≤ j → j + 1 < d → InvC C R d n O S₁ (j + 1) A →
    (∀ y ∈ A, ign S₁ y = 0 ∨ ((j + 1 : ℕ) : ℤ) ≤ ign S₁ y) →
    ∀ (pre' : List ℕ) (q' : ℕ) (rs : List ℕ), RL O (j + 1) A = pre' ++ q' :: rs.reverse →
      InvC C R d n O (delSeq C (j + 1) S₁ rs) j (pre' ++ [q']) ∧
      (∀ a, a ∈ pre' ++ [q'] ↔ a ∈ A ∧ a ∉ rs) ∧
      (delSeq C (j + 1) S₁ rs).ignore = S₁.ignore ∧ (delSeq C (j + 1) S₁ rs).area = S₁.area ∧
      (delSeq C (j + 1) S₁ rs).vol = S₁.vol ∧ (delSeq C (j + 1) S₁ rs).domr = S₁.domr ∧
      (delSeq C (j + 1) S₁ rs).tree = S₁.tree ∧ (delSeq C (j + 1) S₁ rs).calls = S₁.calls ∧
      (∀ i, j + 1 ≤ i → (delSeq C (j + 1) S₁ rs).bound.getD i none = S₁.bound.getD i none) ∧
      (∀ i a, (i < 2 ∨ j + 1 ≤ i) → nx (delSeq C (j + 1) S₁ rs) i a = nx S₁ i a ∧ pv (delSeq C (j + 1) S₁ rs) i a = pv S₁ i a)

end HvC
