import DeapModel.Lemmas.C15HvCGenA2
/-!
C15 — the general case of `hv_recursive` in `_hv.c`, first phase: what ONE deletion (`delete` or `delete_dom`) of the
last node of the list of the level does to the parts of the invariant: cache validity `CVc`, the cached `domr` (`DMc`),
the soundness of the marks `IGc`.
-/
namespace HvC
set_option linter.unusedVariables false
open Hypervolume
open HvSweep (GCtx Hj RL preSet pos ARv VOLv ids Shaped Seg)

theorem gA_Data.ign {S T : St} (h : gA_Data S T) (a : ℕ) : ign T a = ign S a := by unfold HvC.ign; rw [h.1]
theorem gA_Data.ar {S T : St} (h : gA_Data S T) (a i : ℕ) : ar T a i = ar S a i := by unfold HvC.ar; rw [h.2.1]
theorem gA_Data.vl {S T : St} (h : gA_Data S T) (a i : ℕ) : vl T a i = vl S a i := by unfold HvC.vl; rw [h.2.2.1]
theorem gA_Data.dr {S T : St} (h : gA_Data S T) (a : ℕ) : dr T a = dr S a := by unfold HvC.dr; rw [h.2.2.2.1]

section ctx
variable {C : Cargo} {R : List ℚ} {d n : ℕ} {O : ℕ → List ℕ}

/-! ### cache validity -/

/-- `delete`: the bounds come down to the coordinates of the deleted node, so the caches still claimed belong to nodes
strictly before it, whose prefixes do not contain it -/
theorem gA_cv_delete (c : CCtx C R d n O) {j : ℕ} (hjd : j + 1 < d) {S T : St} {A B : List ℕ} {x : ℕ}
    (hx : x ∈ ids n) (hA : ∀ a ∈ A, a ∈ ids n) (hB : ∀ a, a ∈ B ↔ a ∈ A ∧ a ≠ x) (hdat : gA_Data S T)
    (hbd : ∀ i, 2 ≤ i → i < j + 1 → ∀ b', T.bound.getD i none = some b' →
      ∃ b, S.bound.getD i none = some b ∧ b' ≤ b ∧ b' ≤ cg C x i)
    (hcv : CVc C R O S (j + 1) A) : CVc C R O T (j + 1) B := by
  intro j' hj1 hjK a ha b' hb' hlt
  have hj'd : j' + 1 < d := by omega
  obtain ⟨b, hb, hb'b, hb'x⟩ := hbd (j' + 1) (by omega) hjK b' hb'
  obtain ⟨haA, hax⟩ := (hB a).mp ha
  obtain ⟨e1, e2⟩ := hcv j' hj1 hjK a haA b hb (lt_of_lt_of_le hlt hb'b)
  have hpos : pos O (j' + 1) a < pos O (j' + 1) x :=
    gA_pos_lt_of_lt c hj'd (hA a haA) hx (lt_of_lt_of_le hlt hb'x)
  have hsame : ∀ b0, pos O (j' + 1) b0 ≤ pos O (j' + 1) a → (b0 ∈ A ↔ b0 ∈ B) := by
    intro b0 hb0
    rw [hB b0]
    constructor
    · intro h; exact ⟨h, fun e => by rw [e] at hb0; omega⟩
    · exact fun h => h.1
  rw [hdat.ar, hdat.vl, e1, e2]
  exact ⟨HvSweep.ARv_congr O j' A B a hsame, HvSweep.VOLv_congr O j' A B a hsame⟩

/-- a node `x` dominated by a present node `w` that precedes it in the order `i` contributes nothing to the projected
hypervolume of any prefix of that order -/
theorem gA_Hj_drop (c : CCtx C R d n O) {A B : List ℕ} {x w m : ℕ} (hxA : x ∈ A) (hwA : w ∈ A)
    (hdom : DomC C O m w x) (hA : ∀ a ∈ A, a ∈ ids n) (hB : ∀ a, a ∈ B ↔ a ∈ A ∧ a ≠ x)
    (i e : ℕ) (hi2 : 2 ≤ i) (him : i ≤ m) (hem : e ≤ m) (hed : e < d) (a : ℕ) :
    Hj R (spt C R) e (preSet O i A a) = Hj R (spt C R) e (preSet O i B a) := by
  have hwx : w ≠ x := hdom.1
  by_cases hxp : pos O i x ≤ pos O i a
  · have hmem : ∀ c0, c0 ∈ preSet O i A a ↔ c0 ∈ x :: preSet O i B a := by
      intro c0
      rw [List.mem_cons, HvSweep.mem_preSet, HvSweep.mem_preSet, hB c0]
      constructor
      · rintro ⟨h1, h2⟩
        by_cases hc : c0 = x
        · exact Or.inl hc
        · exact Or.inr ⟨⟨h1, hc⟩, h2⟩
      · rintro (h | ⟨⟨h1, _⟩, h2⟩)
        · rw [h]; exact ⟨hxA, hxp⟩
        · exact ⟨h1, h2⟩
    have hwpre : w ∈ preSet O i B a := by
      rw [HvSweep.mem_preSet, hB w]
      have := hdom.2.2.2 i hi2 him
      exact ⟨⟨hwA, hwx⟩, by omega⟩
    rw [HvSweep.Hj_congr R (spt C R) e _ _ hmem]
    apply HvSweep.Hj_dominated c.g e hed _ w x hwpre
    intro i' hi'
    apply c.spt_mono (hA w hwA) (hA x hxA) (by omega : i' < d)
    rcases Nat.lt_or_ge i' 2 with hlt | hge
    · rcases Nat.eq_zero_or_pos i' with rfl | hp
      · exact hdom.2.1
      · have : i' = 1 := by omega
        rw [this]; exact hdom.2.2.1
    · exact gA_le_of_pos c (by omega) (hA x hxA) (hA w hwA) (le_of_lt (hdom.2.2.2 i' hge (by omega)))
  · apply HvSweep.Hj_congr
    intro c0
    rw [HvSweep.mem_preSet, HvSweep.mem_preSet, hB c0]
    constructor
    · rintro ⟨h1, h2⟩
      exact ⟨⟨h1, fun e' => hxp (by rw [← e']; exact h2)⟩, h2⟩
    · rintro ⟨⟨h1, _⟩, h2⟩
      exact ⟨h1, h2⟩

/-- `delete_dom`: the bounds stay, and the ideal cache contents do not change because the deleted node is dominated -/
theorem gA_cv_dom (c : CCtx C R d n O) {j : ℕ} (hjd : j + 1 < d) {S T : St} {A B : List ℕ} {x w m : ℕ}
    (hm : j + 1 ≤ m) (hxA : x ∈ A) (hwA : w ∈ A) (hdom : DomC C O m w x)
    (hA : ∀ a ∈ A, a ∈ ids n) (hB : ∀ a, a ∈ B ↔ a ∈ A ∧ a ≠ x) (hdat : gA_Data S T) (hbd : T.bound = S.bound)
    (hcv : CVc C R O S (j + 1) A) : CVc C R O T (j + 1) B := by
  intro j' hj1 hjK a ha b hb hlt
  rw [hbd] at hb
  obtain ⟨haA, hax⟩ := (hB a).mp ha
  obtain ⟨e1, e2⟩ := hcv j' hj1 hjK a haA b hb hlt
  have k1 := gA_Hj_drop c hxA hwA hdom hA hB (j' + 1) j' (by omega) (by omega) (by omega) (by omega) a
  have k2 := gA_Hj_drop c hxA hwA hdom hA hB (j' + 1) (j' + 1) (by omega) (by omega) (by omega) (by omega) a
  rw [hdat.ar, hdat.vl, e1, e2]
  unfold HvSweep.VOLv HvSweep.ARv
  rw [k1, k2]
  exact ⟨rfl, rfl⟩

/-! ### the cached `domr` -/

theorem gA_dm_delete {S T : St} {A B : List ℕ} {x : ℕ} (hB : ∀ a, a ∈ B ↔ a ∈ A ∧ a ≠ x) (hdat : gA_Data S T)
    (hbd2 : ∀ b', T.bound.getD 2 none = some b' → ∃ b, S.bound.getD 2 none = some b ∧ b' ≤ b ∧ b' ≤ cg C x 2)
    (hdm : DMc C O S A) : DMc C O T B := by
  intro a ha b' hb' hlt
  obtain ⟨b, hb, h1, h2⟩ := hbd2 b' hb'
  obtain ⟨haA, hax⟩ := (hB a).mp ha
  obtain ⟨d1, d2, d3⟩ := hdm a haA b hb (lt_of_lt_of_le hlt h1)
  rw [hdat.dr]
  refine ⟨d1, fun q hq hqlt hbt => d2 q ((hB q).mp hq).1 (lt_of_lt_of_le hqlt h1) hbt, fun hdr => ?_⟩
  obtain ⟨q, hqA, hbt, hq2⟩ := d3 (lt_of_lt_of_le hdr h1)
  refine ⟨q, (hB q).mpr ⟨hqA, ?_⟩, hbt, hq2⟩
  intro e
  rw [e] at hq2
  linarith

theorem gA_dm_dom (c : CCtx C R d n O) {S T : St} {A B : List ℕ} {x w m : ℕ} (hm : 2 ≤ m)
    (hxA : x ∈ A) (hwA : w ∈ A) (hdom : DomC C O m w x) (hA : ∀ a ∈ A, a ∈ ids n)
    (hB : ∀ a, a ∈ B ↔ a ∈ A ∧ a ≠ x) (hdat : gA_Data S T) (hbd : T.bound = S.bound)
    (hdm : DMc C O S A) : DMc C O T B := by
  have hd2 : 2 < d := c.hd
  intro a ha b hb hlt
  rw [hbd] at hb
  obtain ⟨haA, hax⟩ := (hB a).mp ha
  obtain ⟨d1, d2, d3⟩ := hdm a haA b hb hlt
  rw [hdat.dr]
  refine ⟨d1, fun q hq hqlt hbt => d2 q ((hB q).mp hq).1 hqlt hbt, fun hdr => ?_⟩
  obtain ⟨q, hqA, hbt, hq2⟩ := d3 hdr
  by_cases hqx : q = x
  · subst hqx
    have hpwx : pos O 2 w < pos O 2 q := hdom.2.2.2 2 (le_refl _) hm
    have hpos : item C w = item C a → pos O 2 w < pos O 2 a := by
      intro hit
      simp only [item, Prod.mk.injEq] at hit
      have h0 : cg C q 0 = cg C a 0 := le_antisymm hbt.2.1 (by rw [← hit.1]; exact hdom.2.1)
      have h1 : cg C q 1 = cg C a 1 := le_antisymm hbt.2.2.1 (by rw [← hit.2]; exact hdom.2.2.1)
      have hqa : item C q = item C a := by
        simp only [item, Prod.mk.injEq]; exact ⟨h0, h1⟩
      have := hbt.2.2.2 hqa
      omega
    have hwa : w ≠ a := by
      intro e
      have := hpos (by rw [e])
      rw [e] at this
      omega
    have hw2 : cg C w 2 ≤ cg C q 2 := gA_le_of_pos c hd2 (hA q hxA) (hA w hwA) (le_of_lt hpwx)
    exact ⟨w, (hB w).mpr ⟨hwA, hdom.1⟩,
      ⟨hwa, le_trans hdom.2.1 hbt.2.1, le_trans hdom.2.2.1 hbt.2.2.1, hpos⟩, le_trans hw2 hq2⟩
  · exact ⟨q, (hB q).mpr ⟨hqA, hqx⟩, hbt, hq2⟩

/-! ### the marks -/

/-- the witness of a mark at least the level precedes the marked node in the order of the level, hence is not the last
node `x` of that order -/
theorem gA_ig_step (c : CCtx C R d n O) {j : ℕ} (hj2 : 2 ≤ j) (hjd : j + 1 < d) {S T : St} {A B : List ℕ} {x : ℕ} {l : List ℕ}
    (hA : ∀ a ∈ A, a ∈ ids n) (hL : RL O (j + 1) A = l ++ [x]) (hB : ∀ a, a ∈ B ↔ a ∈ A ∧ a ≠ x)
    (hdat : gA_Data S T) (zb : ∀ y ∈ A, ign S y = 0 ∨ ((j + 1 : ℕ) : ℤ) ≤ ign S y) (hig : IGc C O S A) :
    IGc C O T B := by
  obtain ⟨hxA, _, hlast⟩ := gA_last_pos c hjd hA l x hL
  intro y hy hm
  rw [hdat.ign] at hm ⊢
  obtain ⟨hyA, hyx⟩ := (hB y).mp hy
  have hbig : ((j + 1 : ℕ) : ℤ) ≤ ign S y := by
    rcases zb y hyA with h | h
    · omega
    · exact h
  obtain ⟨w, hwA, hdom⟩ := hig y hyA hm
  refine ⟨w, (hB w).mpr ⟨hwA, ?_⟩, hdom⟩
  intro e
  have h1 : pos O (j + 1) w < pos O (j + 1) y := hdom.2.2.2 (j + 1) (by omega) (by omega)
  have h2 := hlast y hyA hyx
  rw [e] at h1
  omega

end ctx

end HvC
