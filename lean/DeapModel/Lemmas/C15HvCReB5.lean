import DeapModel.Lemmas.C15HvCReB4
/-!
C15 — the 3-D base case of `_hv.c` re-entered: Case 3 of the entry phase assembled (`skipLoop`, l.860-862,
`reconnectLoop`, l.877-898 give the invariant of the main loop for the nodes below the bound), and the final statement
`dim3_levelOK : SweepLoopRe_Statement → Dim3_Statement`.
-/
namespace HvC
set_option linter.unusedVariables false
open Hypervolume
open HvSweep (GCtx Hj RL preSet pos ARv VOLv ids Shaped Seg)

theorem first_split (p : ℕ → Prop) : ∀ (l : List ℕ), (∃ x ∈ l, p x) →
    ∃ l0 m l1, l = l0 ++ m :: l1 ∧ p m ∧ ∀ x ∈ l0, ¬ p x
  | [], h => by obtain ⟨x, hx, _⟩ := h; exact absurd hx (List.not_mem_nil)
  | y :: l, h => by
    by_cases hy : p y
    · exact ⟨[], y, l, rfl, hy, by simp⟩
    · have h1 : ∃ x ∈ l, p x := by
        obtain ⟨x, hx, hpx⟩ := h
        rcases List.mem_cons.mp hx with rfl | hx
        · exact absurd hpx hy
        · exact ⟨x, hx, hpx⟩
      obtain ⟨l0, m, l1, hl, hm, h0⟩ := first_split p l h1
      refine ⟨y :: l0, m, l1, by rw [hl]; rfl, hm, ?_⟩
      intro x hx
      rcases List.mem_cons.mp hx with rfl | hx
      · exact hy
      · exact h0 x hx

/-- the projected hypervolume of level 1 is the area dominated by the projections -/
theorem Hj1_eq_A2 {C : Cargo} {R : List ℚ} {d n : ℕ} {O : ℕ → List ℕ} (c : CCtx C R d n O) (D : List ℕ)
    (hD : ∀ a ∈ D, a ∈ ids n) (hg : ∀ a ∈ D, ∀ j < d, cg C a j < rf R j) :
    Hj R (spt C R) 1 D = A2 C (rf R 0) (rf R 1) D := by
  have hd : 2 < d := c.hd
  unfold HvSweep.Hj A2
  have hrl : 2 ≤ R.length := by rw [c.g.hdims]; omega
  have ht := hvCells_take (R.take (1 + 1)) (D.map (spt C R))
  rw [← ht, HvSweep.take2_ref R hrl, List.map_map]
  show hvCells [rf R 0, rf R 1] _ = _
  congr 1
  apply List.map_congr_left
  intro a ha
  have : (spt C R a).length = d := c.g.len a (hD a ha)
  show (spt C R a).take 2 = _
  rw [HvSweep.take2_pt (spt C R a) (by omega),
    c.spt_good (hD a ha) (by omega : 0 < d) (hg a ha 0 (by omega)).le,
    c.spt_good (hD a ha) (by omega : 1 < d) (hg a ha 1 (by omega)).le]
  rfl

theorem case3_entry {C : Cargo} {R : List ℚ} {d n : ℕ} {O : ℕ → List ℕ} {F : ℕ}
    (c : CCtx C R d n O) (hF : n + 2 ≤ F) {S : St} {A : List ℕ} (inv : InvC C R d n O S 2 A) (hA : 2 ≤ A.length)
    {b : ℚ} {P Q : List ℕ} (h3 : C3 C R d n O S A b P Q) :
    ∃ S3 P' Q' hv ha, EntryRes C R d n O A S S3 P' Q' hv ha ∧
      (∀ v S', sweepLoop C R F F (Q'.headD 0) hv ha S3 = some (v, S') → dim3 C R F S = some (v, avlClearTree S')) := by
  have l2 := l2_of_inv c inv
  have hd2 : 2 < d := l2.hd
  have hb := h3.hb
  have hD : DLc n S 2 (P ++ Q) := h3.split ▸ l2.dl
  have hLnd : (P ++ Q).Nodup := hD.2.1
  have hLn : (P ++ Q).length ≤ n := HvSweep.dl_length_le hD
  have hPA : ∀ a ∈ P, a ∈ A := fun a ha => h3.pA l2 ha
  have hQA : ∀ a ∈ Q, a ∈ A := fun a ha => h3.qA l2 ha
  have hle_n : ∀ a ∈ A, a ≤ n := fun a ha => ((HvSweep.mem_ids n a).mp (inv.sub a ha)).2
  have hdoml : ∀ a ∈ A, a < S.domr.length := fun a ha => by rw [inv.tsh.domr]; have := hle_n a ha; omega
  have hignl : ∀ a ∈ A, a < S.ignore.length := fun a ha => by rw [inv.tsh.ign]; have := hle_n a ha; omega
  obtain ⟨q0, Qt, hQ⟩ : ∃ q0 Qt, Q = q0 :: Qt := by
    cases hq : Q with
    | nil => exact absurd hq h3.qne
    | cons x l => exact ⟨x, l, rfl⟩
  subst hQ
  obtain ⟨Pi, pl, hP⟩ : ∃ Pi pl, P = Pi ++ [pl] := by
    rcases List.eq_nil_or_concat P with h | ⟨Pi, pl, h⟩
    · exact absurd h h3.pne
    · exact ⟨Pi, pl, by rw [h]; simp⟩
  obtain ⟨a1, Pt, hPc⟩ : ∃ a1 Pt, P = a1 :: Pt := by
    cases hp : P with
    | nil => exact absurd hp h3.pne
    | cons x l => exact ⟨x, l, rfl⟩
  have hplP : pl ∈ P := by rw [hP]; simp
  have ha1P : a1 ∈ P := by rw [hPc]; simp
  have hq0Q : q0 ∈ q0 :: Qt := by simp
  have hq00 : q0 ≠ 0 := by
    have := ((HvSweep.mem_ids n q0).mp (inv.sub q0 (hQA q0 hq0Q))).1
    omega
  -- the first node whose `domr` is at or above the bound
  obtain ⟨t, htP, htd, _⟩ := h3.cover c inv hplP
  obtain ⟨P0, m₀, P1, hPs, hm0, hP0⟩ := first_split (fun a => b ≤ dr S a) P ⟨t, htP, htd⟩
  have hm0P : m₀ ∈ P := by rw [hPs]; simp
  have hP0P : ∀ a ∈ P0, a ∈ P := fun a ha => by rw [hPs]; exact List.mem_append_left _ ha
  have hP1P : ∀ a ∈ P1, a ∈ P := fun a ha => by rw [hPs]; exact List.mem_append_right _ (List.mem_cons_of_mem _ ha)
  have hPnd : P.Nodup := (List.nodup_append.mp hLnd).1
  have hPsnd : (P0 ++ m₀ :: P1).Nodup := hPs ▸ hPnd
  have hm0P1 : m₀ ∉ P1 := (List.nodup_cons.mp (List.nodup_append.mp hPsnd).2.1).1
  have hP1nd : P1.Nodup := (List.nodup_cons.mp (List.nodup_append.mp hPsnd).2.1).2
  have hPlen : P0.length + P1.length + 1 ≤ n := by
    have : (P ++ q0 :: Qt).length = P0.length + (P1.length + 1) + (Qt.length + 1) := by rw [hPs]; simp; omega
    omega
  -- the pointers
  have hseg : Seg (toSw S) 2 0 (P ++ q0 :: Qt) 0 := hD.1
  have e1 : P ++ q0 :: Qt = P0 ++ m₀ :: (P1 ++ q0 :: Qt) := by rw [hPs]; simp
  have hs0 := (HvSweep.seg_append (toSw S) 2 P0 0 m₀ (P1 ++ q0 :: Qt) 0).mp (e1 ▸ hseg)
  have hs1 := (HvSweep.seg_append (toSw S) 2 P1 m₀ q0 Qt 0).mp hs0.2
  have hnx0 : nx S 2 0 = a1 := by
    have := hseg
    rw [hPc] at this
    exact this.1.1
  have hpvq : pv S 2 q0 = pl := by
    have h1 := (HvSweep.seg_node (toSw S) 2 P 0 q0 Qt 0 hseg).1
    have h2 : ∀ (X : List ℕ) (h : (0 :: X) ≠ []), X = Pi ++ [pl] → (0 :: X).getLast h = pl := by
      intro X h e; subst e; simp
    exact h1.trans (h2 P _ hP)
  have hnxpl : nx S 2 pl = q0 := by
    have e2 : P ++ q0 :: Qt = Pi ++ pl :: (q0 :: Qt) := by rw [hP]; simp
    exact (HvSweep.seg_node (toSw S) 2 Pi 0 pl (q0 :: Qt) 0 (e2 ▸ hseg)).2.1
  have hlastQ : pv S 2 0 ∈ q0 :: Qt := by
    have h1 := HvSweep.seg_pv_end (toSw S) 2 (P ++ q0 :: Qt) 0 0 hseg
    have hne : P ++ q0 :: Qt ≠ [] := by simp
    have e : (0 :: (P ++ q0 :: Qt)).getLast (by simp) = (q0 :: Qt).getLast (by simp) := by
      rw [List.getLast_cons hne, List.getLast_append_of_ne_nil hne (by simp)]
    have h2 : pv S 2 0 = (q0 :: Qt).getLast (by simp) := h1.trans e
    rw [h2]
    exact List.getLast_mem _
  -- the tests of l.838, l.844
  have hlt_last : ltBound S 2 (cg C (pv S 2 0) 2) = false := by
    rw [ltBound_some hb]
    exact decide_eq_false (not_lt.mpr (h3.qge _ hlastQ))
  have hge1 : geBound S 2 (cg C (nx S 2 0) 2) = false := by
    rw [geBound_some hb, hnx0]
    exact decide_eq_false (not_le.mpr (h3.plt a1 ha1P))
  -- l.855-857
  have hmlt : ltBound S 2 (dr S m₀) = false := by
    rw [ltBound_some hb]
    exact decide_eq_false (not_lt.mpr hm0)
  have hskip : skipLoop F (nx S 2 0) S = some m₀ :=
    skipLoop_spec S m₀ hmlt P0 0 F hs0.1
      (fun a ha => by rw [ltBound_some hb]; exact decide_eq_true (not_le.mp (hP0 a ha))) (by omega)
  -- l.860-862
  set S1 := setDr (avlInsertTop (setIgn S m₀ 0) m₀) m₀ (rf R 2) with hS1
  have hm0dl := hdoml m₀ (hPA m₀ hm0P)
  have hI1 : RInv C R b S m₀ [m₀] S1 :=
    { next := rfl
      prev := rfl
      bound := rfl
      area := rfl
      vol := rfl
      ign := rfl
      dlen := by show (S.domr.set m₀ (rf R 2)).length = _; rw [List.length_set]
      tnd := by show [m₀].Nodup; simp
      tmem := by
        intro t
        show t ∈ [m₀] ↔ _
        constructor
        · intro ht
          have : t = m₀ := by simpa using ht
          rw [this]; exact ⟨by simp, hm0⟩
        · exact fun h => h.1
      stair := by show Stair ([m₀].map (item C)); simp [Stair]
      drT := by
        intro t ht
        have ht' : t ∈ [m₀] := ht
        have : t = m₀ := by simpa using ht'
        rw [this]
        exact HvSweep.getD_set_self _ _ _ _ hm0dl
      drO := by
        intro a ha
        have ha' : a ∉ [m₀] := ha
        have : a ≠ m₀ := by simpa using ha'
        exact HvSweep.getD_set_ne _ _ _ _ _ this }
  -- l.867-876
  obtain ⟨S'', hrec, hI⟩ := reconnect_spec C R b S m₀ q0 P hb
    (fun p e hp he hdp hde hne => h3.incomp c inv hp he hdp hde hne) (h3.qge q0 hq0Q) hm0 P1 [m₀] m₀ F S1 hI1
    (by simp) (by intro a ha; have : a = m₀ := by simpa using ha
                  rw [this]; exact hm0P)
    hs1.1
    (by
      intro a ha
      refine ⟨hP1P a ha, h3.plt a (hP1P a ha), ?_, hdoml a (hPA a (hP1P a ha))⟩
      intro hm
      have : a = m₀ := by simpa using hm
      exact hm0P1 (this ▸ ha))
    hP1nd (by omega)
  -- the tree holds the reconnected nodes of `P`
  have hTP : ∀ t, t ∈ S''.tree ↔ t ∈ P ∧ b ≤ dr S t := by
    intro t
    rw [hI.tmem t]
    constructor
    · rintro ⟨h1, h2⟩
      refine ⟨?_, h2⟩
      rcases List.mem_append.mp h1 with h | h
      · have : t = m₀ := by simpa using h
        rw [this]; exact hm0P
      · exact hP1P t h
    · rintro ⟨h1, h2⟩
      refine ⟨?_, h2⟩
      rw [hPs] at h1
      rcases List.mem_append.mp h1 with h | h
      · exact absurd h2 (hP0 t h)
      · rcases List.mem_cons.mp h with h | h
        · rw [h]; simp
        · exact List.mem_append_right _ h
  have hcv : ∀ a ∈ P, ar S a 2 = ARv R (spt C R) O 1 A a ∧ vl S a 2 = VOLv (stc C R) R (spt C R) O 1 A a :=
    fun a ha => inv.cv 1 (le_refl _) (by omega) a (hPA a ha) b hb (h3.plt a ha)
  have hpreP : ∀ x, x ∈ preSet O (1 + 1) A pl ↔ x ∈ P := by
    intro x
    have hL : RL O (1 + 1) A = Pi ++ pl :: (q0 :: Qt) := by
      show RL O 2 A = _
      rw [h3.split, hP]; simp
    rw [HvSweep.mem_preSet_of_split c.g hd2 A inv.sub Pi (q0 :: Qt) pl hL x, hP]
  set S3 := setBound S'' 2 (cg C (pv S 2 0) 2) with hS3
  have hsw3 : toSw S3 = toSw S := toSw_eq_of (S := S) (S' := S3) hI.next hI.prev
  have hm0il := hignl m₀ (hPA m₀ hm0P)
  have hignm : ign S3 m₀ = 0 := by
    show S''.ignore.getD m₀ 0 = 0
    rw [hI.ign]; exact HvSweep.getD_set_self _ _ _ _ hm0il
  have hignne : ∀ q, q ≠ m₀ → ign S3 q = ign S q := by
    intro q hq
    show S''.ignore.getD q 0 = S.ignore.getD q 0
    rw [hI.ign]; exact HvSweep.getD_set_ne _ _ _ _ _ hq
  have har3 : ∀ a i, ar S3 a i = ar S a i := by
    intro a i
    show HvSweep.tget S''.area a i 0 = HvSweep.tget S.area a i 0
    rw [hI.area]
  have hvl3 : ∀ a i, vl S3 a i = vl S a i := by
    intro a i
    show HvSweep.tget S''.vol a i 0 = HvSweep.tget S.vol a i 0
    rw [hI.vol]
  have hdrT : ∀ t ∈ S3.tree, dr S3 t = rf R 2 := fun t ht => hI.drT t ht
  have hdrO : ∀ a, a ∉ S3.tree → dr S3 a = dr S a := fun a ha => hI.drO a ha
  have hT3 : ∀ t, t ∈ S3.tree ↔ t ∈ P ∧ b ≤ dr S t := hTP
  have hgoodP : ∀ a ∈ P, (item C a).1 < rf R 0 ∧ (item C a).2 < rf R 1 := fun a ha =>
    ⟨inv.good a (hPA a ha) 0 (by omega), inv.good a (hPA a ha) 1 (by omega)⟩
  have hcover : ∀ q ∈ P, ∃ t ∈ S3.tree, (item C t).1 ≤ (item C q).1 ∧ (item C t).2 ≤ (item C q).2 := by
    intro q hq
    obtain ⟨t, ht, htd, hle⟩ := h3.cover c inv hq
    exact ⟨t, (hT3 t).mpr ⟨ht, htd⟩, hle⟩
  have hm0T : m₀ ∈ S3.tree := (hT3 m₀).mpr ⟨hm0P, hm0⟩
  have hTne : S3.tree ≠ [] := fun e => by rw [e] at hm0T; exact absurd hm0T (List.not_mem_nil)
  have hTI : TreeInv C (rf R 0) (rf R 1) S3 P (hArea (rf R 0) (rf R 1) (S3.tree.map (item C))) :=
    ⟨hTne, hI.tnd, fun t ht => ((hT3 t).mp ht).1, hI.stair, hcover, rfl⟩
  have hareaP : ar S pl 2 = hArea (rf R 0) (rf R 1) (S3.tree.map (item C)) := by
    rw [(hcv pl hplP).1, hTI.area_eq hgoodP]
    unfold HvSweep.ARv
    rw [HvSweep.Hj_congr R (spt C R) 1 _ _ hpreP]
    exact Hj1_eq_A2 c P (fun a ha => inv.sub a (hPA a ha)) (fun a ha => inv.good a (hPA a ha))
  have hvalP : vl S pl 2 + ar S pl 2 * (cg C q0 2 - cg C pl 2) + ar S pl 2 * (rf R 2 - cg C q0 2)
      = Hj R (spt C R) 2 P := by
    have h1 := (hcv pl hplP).2
    unfold HvSweep.VOLv at h1
    rw [c.cg_tr' (inv.sub pl (hPA pl hplP)) hd2 (inv.good pl (hPA pl hplP) 2 hd2), ← (hcv pl hplP).1,
      HvSweep.Hj_congr R (spt C R) (1 + 1) _ _ hpreP] at h1
    rw [h1]
    ring
  refine ⟨S3, P, q0 :: Qt, vl S pl 2 + ar S pl 2 * (cg C q0 2 - cg C pl 2), ar S pl 2, ?_, ?_⟩
  · refine
      { sl :=
          { anodup := inv.nodup
            asub := inv.sub
            agood := inv.good
            split := h3.split
            prene := h3.pne
            shape := by show HvSweep.Shape d n (toSw S3); rw [hsw3]; exact inv.shape
            tsh := ⟨?_, ?_, ?_, ?_, ?_⟩
            dl := by show HvSweep.DL n (toSw S3) 2 _; rw [hsw3]; exact l2.dl
            tne := hTne
            tnd := hI.tnd
            tsub := fun t ht => ((hT3 t).mp ht).1
            tign := ?_
            stair := hI.stair
            cover := hcover
            area := hareaP
            val := hvalP
            cache := fun a ha => by rw [har3, hvl3]; exact hcv a ha
            drT := hdrT
            drge := ?_
            drout := ?_
            drL := ?_
            ig := ?_
            igd := ?_ }
        next := hI.next
        prev := hI.prev
        bound := by show S''.bound.set 2 _ = _; rw [hI.bound]
        ign_out := fun y hy => hignne y (fun e => hy (e ▸ hPA m₀ hm0P))
        dr_out := fun y hy => hdrO y (fun ht => hy (hPA y ((hT3 y).mp ht).1))
        cache_hi := fun a i _ => ⟨har3 a i, hvl3 a i⟩ }
    · show Shaped (n + 1) d S''.area; rw [hI.area]; exact inv.tsh.area
    · show Shaped (n + 1) d S''.vol; rw [hI.vol]; exact inv.tsh.vol
    · show S''.ignore.length = n + 1; rw [hI.ign, List.length_set]; exact inv.tsh.ign
    · show S''.domr.length = n + 1; rw [hI.dlen]; exact inv.tsh.domr
    · show (S''.bound.set 2 _).length = d; rw [List.length_set, hI.bound]; exact inv.tsh.bound
    · -- tign
      intro t ht
      obtain ⟨h1, h2⟩ := (hT3 t).mp ht
      by_cases htm : t = m₀
      · rw [htm, hignm]; decide
      · rw [hignne t htm]; exact h3.noMark inv h1 h2
    · -- drge
      intro a ha
      by_cases hat : a ∈ S3.tree
      · rw [hdrT a hat]; exact le_of_lt (inv.good a (hPA a ha) 2 hd2)
      · rw [hdrO a hat]; exact (inv.dm a (hPA a ha) b hb (h3.plt a ha)).1
    · -- drout
      intro a ha hat
      have hlt : dr S a < b := by
        by_contra hc
        exact hat ((hT3 a).mpr ⟨ha, not_lt.mp hc⟩)
      rw [hdrO a hat]
      refine ⟨fun p hp => le_trans (le_of_lt hlt) (h3.qge p hp), ?_⟩
      obtain ⟨q, hqA, hbt, hz⟩ := (inv.dm a (hPA a ha) b hb (h3.plt a ha)).2.2 hlt
      exact ⟨q, h3.inP l2 hqA (lt_of_le_of_lt hz hlt), hbt, hz⟩
    · -- drL
      intro a ha q hq hbt
      have hdm := (inv.dm a (hPA a ha) b hb (h3.plt a ha)).2.1 q (hPA q hq) (h3.plt q hq) hbt
      by_cases hat : a ∈ S3.tree
      · have h2 := ((hT3 a).mp hat).2
        have hm : max (cg C a 2) (cg C q 2) < b := max_lt (h3.plt a ha) (h3.plt q hq)
        linarith
      · rw [hdrO a hat]; exact hdm
    · -- ig
      intro q hq hm
      by_cases hqm : q = m₀
      · rw [hqm, hignm] at hm; exact absurd hm (by decide)
      · rw [hignne q hqm] at hm ⊢
        exact inv.ig q hq hm
    · -- igd
      intro q hm
      by_cases hqm : q = m₀
      · rw [hqm, hignm] at hm; exact absurd hm (by decide)
      · rw [hignne q hqm] at hm
        have hqt : q ∉ S3.tree := by
          intro ht
          obtain ⟨h1, h2⟩ := (hT3 q).mp ht
          exact h3.noMark inv h1 h2 hm
        rw [hdrO q hqt]
        exact inv.igd q hm
  · intro v S' hsw
    unfold dim3
    simp only
    rw [hlt_last]
    simp only [Bool.false_eq_true, if_false]
    rw [hge1]
    simp only [Bool.false_eq_true, if_false]
    rw [hskip]
    simp only [Option.map_some]
    rw [← hS1, hrec]
    simp only
    have hpvq' : pv S'' 2 q0 = pl := by
      show HvSweep.tget S''.prev 2 q0 0 = pl
      rw [hI.prev]; exact hpvq
    have hnxpl' : nx S'' 2 pl = q0 := by
      show HvSweep.tget S''.next 2 pl 0 = q0
      rw [hI.next]; exact hnxpl
    have hnx3 : ∀ x, nx (setBound S'' 2 x) 2 pl = q0 := fun _ => hnxpl'
    have hpv0 : pv S'' 2 0 = pv S 2 0 := by
      show HvSweep.tget S''.prev 2 0 0 = HvSweep.tget S.prev 2 0 0
      rw [hI.prev]
    have hvl'' : vl S'' pl 2 = vl S pl 2 := hvl3 pl 2
    have har'' : ar S'' pl 2 = ar S pl 2 := har3 pl 2
    rw [hpvq', hnx3, hnxpl', if_pos hq00, hpv0, hvl'', har'', ← hS3]
    have hsw' : sweepLoop C R F F q0 (vl S pl 2 + ar S pl 2 * (cg C q0 2 - cg C pl 2)) (ar S pl 2) S3 = some (v, S') := hsw
    rw [hsw']

/-- **the 3-D base case re-entered with any `bound[2]` meets the level interface**, given the statement about its main
loop -/
theorem dim3_levelOK (hloop : SweepLoopRe_Statement) : Dim3_Statement := by
  intro C R d n O F c hF S0 A inv0 hA
  have inv := invC_tick inv0 2
  have hrec : hvRecursive C R F 2 A.length S0 = dim3 C R F (tick S0 2) := by
    unfold hvRecursive; rfl
  suffices h : ∃ v S', dim3 C R F (tick S0 2) = some (v, S') ∧ PostC C R d n O (tick S0 2) S' 2 A v by
    obtain ⟨v, S', h1, h2⟩ := h
    exact ⟨v, S', hrec.trans h1, postC_tick 2 h2⟩
  generalize tick S0 2 = S at inv
  have l2 := l2_of_inv c inv
  have hLne : RL O 2 A ≠ [] := by
    intro h
    have := l2.len
    rw [h] at this
    simp at this
    omega
  have fromEntry : (∃ S3 P Q hv ha, EntryRes C R d n O A S S3 P Q hv ha ∧
      (∀ v S', sweepLoop C R F F (Q.headD 0) hv ha S3 = some (v, S') → dim3 C R F S = some (v, avlClearTree S'))) →
      ∃ v S', dim3 C R F S = some (v, S') ∧ PostC C R d n O S S' 2 A v := by
    rintro ⟨S3, P, Q, hv, ha, hE, hrun⟩
    exact exit_post hloop c hF inv hA hE hrun
  cases hbd : S.bound.getD 2 none with
  | none =>
    exact fromEntry (caseA_entry c hF inv hA (fun a _ => geBound_none S _ hbd))
  | some b =>
    obtain ⟨P, Q, hL, hP, hQ⟩ := split_at_bound C b (RL O 2 A) l2.sorted
    by_cases hQn : Q = []
    · -- Case 1
      subst hQn
      rw [List.append_nil] at hL
      have hlast : pv S 2 0 ∈ P := by
        rw [pv0_last l2.dl hLne, ← hL]
        exact List.getLast_mem _
      exact case1_post c inv hA hbd (hP _ hlast)
    · by_cases hPn : P = []
      · -- Case 2
        subst hPn
        rw [List.nil_append] at hL
        refine fromEntry (caseA_entry c hF inv hA ?_)
        intro a ha
        rw [geBound_some hbd]
        exact decide_eq_true (hQ a (hL ▸ ha))
      · -- Case 3
        exact fromEntry (case3_entry c hF inv hA ⟨hbd, hL, hPn, hQn, hP, hQ⟩)

end HvC
