/-
C13 helper lemmas (7): the default `lambda_ = int(4 + 3 log N)` of `Strategy.__init__` (cma.py:110).
-/
import DeapModel.Lemmas.C13Basic
import Mathlib.Analysis.SpecialFunctions.Log.Basic
import Mathlib.Tactic.Linarith
open Cma C13L

namespace C13L

theorem natFloor_succ (x : ℝ) (b : Nat) :
    natFloor x (b + 1) = if ((b + 1 : ℕ) : ℝ) ≤ x then b + 1 else natFloor x b := by
  unfold natFloor
  rw [List.range_succ, List.foldl_append]
  simp only [List.foldl_cons, List.foldl_nil]
  real_bridge

theorem natFloor_eq_min (x : ℝ) (hx : 0 ≤ x) (b : Nat) : natFloor x b = min ⌊x⌋₊ b := by
  induction b with
  | zero => simp [natFloor]
  | succ b ih =>
    rw [natFloor_succ, ih]
    by_cases h : ((b + 1 : ℕ) : ℝ) ≤ x
    · have : b + 1 ≤ ⌊x⌋₊ := (Nat.le_floor_iff hx).mpr h
      simp only [h, if_true]; omega
    · have : ¬ (b + 1 ≤ ⌊x⌋₊) := fun h' => h ((Nat.le_floor_iff hx).mp h')
      simp only [h, if_false]; omega

/-- cma.py:110 `int(4 + 3 * log(N))` for `N ≥ 1` -/
theorem defaultLambda_eq (dim : Nat) (h : 1 ≤ dim) :
    defaultLambda ℝ dim = ⌊4 + 3 * Real.log dim⌋₊ ∧ 4 ≤ defaultLambda ℝ dim := by
  have h1 : (1 : ℝ) ≤ (dim : ℝ) := by exact_mod_cast h
  have hlog0 : 0 ≤ Real.log dim := Real.log_nonneg h1
  have hlog1 : Real.log dim ≤ dim - 1 := Real.log_le_sub_one_of_pos (by linarith)
  have hx : (0 : ℝ) ≤ 4 + 3 * Real.log dim := by linarith
  have hfl : ⌊4 + 3 * Real.log dim⌋₊ ≤ 4 + 3 * dim := by
    apply Nat.floor_le_of_le
    push_cast; linarith
  have heq : defaultLambda ℝ dim = ⌊4 + 3 * Real.log dim⌋₊ := by
    have : defaultLambda ℝ dim = natFloor ((4 : ℝ) + 3 * Real.log dim) (4 + 3 * dim) := by
      simp only [defaultLambda]; real_bridge
    rw [this, natFloor_eq_min _ hx]; omega
  refine ⟨heq, ?_⟩
  rw [heq]
  apply Nat.le_floor
  push_cast; linarith

end C13L
