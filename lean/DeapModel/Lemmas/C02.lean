/-
Helper lemmas for C02 (variation): heap frames of `clone`, `cloneAll`, and loop specifications
of `mateLoop`, `mutLoop`, `varOrStep`, `varOrLoop` under `OpContract`.
-/
import DeapModel.Core.Variation

namespace Variation

@[simp] theorem Heap.set_same (h : Heap) (o : Nat) (x : Obj) : h.set o x o = x := by
  simp [Heap.set]

@[simp] theorem Heap.set_other (h : Heap) (o p : Nat) (x : Obj) (hne : p ≠ o) : h.set o x p = h p := by
  simp [Heap.set, hne]

@[simp] theorem delFit_same_fit (h : Heap) (o : Nat) : (delFit h o o).fit = none := by
  simp [delFit]

theorem delFit_other (h : Heap) (o p : Nat) (hne : p ≠ o) : delFit h o p = h p := by
  simp [delFit, hne]

theorem delFit_genome (h : Heap) (o p : Nat) : (delFit h o p).genome = (h p).genome := by
  by_cases hp : p = o
  · subst hp; simp [delFit]
  · simp [delFit, hp]

/-- Deleting a fitness never creates one. -/
theorem delFit_fit_none (h : Heap) (o p : Nat) (hn : (h p).fit = none) : (delFit h o p).fit = none := by
  by_cases hp : p = o
  · subst hp; simp
  · rw [delFit_other _ _ _ hp]; exact hn

@[simp] theorem clone_oid (s : St) (p : Nat) : (clone s p).2 = s.next := rfl
@[simp] theorem clone_next (s : St) (p : Nat) : (clone s p).1.next = s.next + 1 := rfl
@[simp] theorem clone_heap_new (s : St) (p : Nat) : (clone s p).1.heap s.next = s.heap p := by
  simp [clone]
theorem clone_heap_old (s : St) (p o : Nat) (ho : o ≠ s.next) : (clone s p).1.heap o = s.heap o := by
  simp [clone, ho]

/-! ### cloneAll -/

theorem cloneAll_off (s : St) (pop : List Nat) : (cloneAll s pop).2 = List.range' s.next pop.length := by
  induction pop generalizing s with
  | nil => simp [cloneAll]
  | cons p ps ih => simp [cloneAll, ih, List.range'_succ]

theorem cloneAll_next (s : St) (pop : List Nat) : (cloneAll s pop).1.next = s.next + pop.length := by
  induction pop generalizing s with
  | nil => simp [cloneAll]
  | cons p ps ih => simp [cloneAll, ih]; omega

theorem cloneAll_frame (s : St) (pop : List Nat) (o : Nat) (ho : o < s.next) :
    (cloneAll s pop).1.heap o = s.heap o := by
  induction pop generalizing s with
  | nil => simp [cloneAll]
  | cons p ps ih =>
    simp only [cloneAll]
    rw [ih (clone s p).1 (by simp; omega)]
    exact clone_heap_old s p o (by omega)

theorem cloneAll_copy (s : St) (pop : List Nat) (hpop : ∀ p ∈ pop, p < s.next) (k : Nat)
    (hk : k < pop.length) : (cloneAll s pop).1.heap (s.next + k) = s.heap pop[k] := by
  induction pop generalizing s k with
  | nil => simp at hk
  | cons p ps ih =>
    simp only [cloneAll]
    cases k with
    | zero =>
      rw [cloneAll_frame _ _ _ (by simp)]
      simp
    | succ k =>
      have h1 : ∀ q ∈ ps, q < (clone s p).1.next := by
        intro q hq; have := hpop q (by simp [hq]); simp; omega
      have hk' : k < ps.length := by simpa using hk
      have := ih (clone s p).1 h1 k hk'
      simp only [clone_next] at this
      rw [show s.next + (k + 1) = s.next + 1 + k by omega, this]
      simp only [List.getElem_cons_succ]
      have hlt : ps[k] < s.next := hpop _ (by simp)
      exact clone_heap_old s p _ (by omega)

/-! ### mateLoop -/

theorem wasMated_short (ds : List Bool) (n k : Nat) (hn : n < 2) : wasMated ds n k = false := by
  have : n / 2 = 0 := by omega
  simp [wasMated, this]

theorem wasMated_succ2 (d : Bool) (ds : List Bool) (n k : Nat) :
    wasMated (d :: ds) (n + 2) (k + 2) = wasMated ds n k := by
  have h1 : (k + 2) / 2 = k / 2 + 1 := by omega
  have h2 : (n + 2) / 2 = n / 2 + 1 := by omega
  simp [wasMated, h1, h2]

theorem wasMated_head (d : Bool) (ds : List Bool) (n k : Nat) (hk : k < 2) :
    wasMated (d :: ds) (n + 2) k = d := by
  have h1 : k / 2 = 0 := by omega
  have h2 : (n + 2) / 2 = n / 2 + 1 := by omega
  cases d <;> simp [wasMated, h1, h2]

/-- Specification of the crossover loop under the operator contract, for a list of pairwise
distinct oids: the list is returned as it is, nothing outside it is written, the two members of a
mated pair end with no fitness, the others are untouched. -/
theorem mateLoop_spec {σ : Type} {ops : Ops σ} (hc : OpContract ops) :
    ∀ (l : List Nat) (ds : List Bool) (t : σ) (s : St) (r : Res σ), l.Nodup →
      mateLoop ops t s l ds = some r →
      r.off = l ∧ r.st.next = s.next ∧ (∀ o, o ∉ l → r.st.heap o = s.heap o) ∧
      (∀ k (hk : k < l.length),
         (wasMated ds l.length k = true → (r.st.heap l[k]).fit = none) ∧
         (wasMated ds l.length k = false → r.st.heap l[k] = s.heap l[k]))
  | [], ds, t, s, r, _, h => by
    simp only [mateLoop, Option.some.injEq] at h
    subst h; simp
  | [a], ds, t, s, r, _, h => by
    simp only [mateLoop, Option.some.injEq] at h
    subst h
    refine ⟨rfl, rfl, fun _ _ => rfl, ?_⟩
    intro k hk
    simp [wasMated_short]
  | a :: b :: rest, [], t, s, r, _, h => by simp [mateLoop] at h
  | a :: b :: rest, d :: ds, t, s, r, hnd, h => by
    have hnd' : rest.Nodup := by
      have := List.nodup_cons.1 hnd; exact (List.nodup_cons.1 this.2).2
    have hab : a ≠ b := by
      intro e; subst e; simp at hnd
    have har : a ∉ rest := by
      intro hm; have := (List.nodup_cons.1 hnd).1; exact this (by simp [hm])
    have hbr : b ∉ rest := by
      have := List.nodup_cons.1 hnd; exact (List.nodup_cons.1 this.2).1
    cases d with
    | true =>
      simp only [mateLoop, if_true] at h
      rw [hc.mate_fst, hc.mate_snd] at h
      split at h
      · simp at h
      next x hrec =>
        simp only [Option.some.injEq] at h
        obtain ⟨hoff, hnext, hframe, hidx⟩ := mateLoop_spec hc rest ds _ _ x hnd' hrec
        simp only at hnext hframe hidx
        have hs1n : x.st.next = s.next := hnext
        subst h
        refine ⟨by simp [hoff], by simp [hs1n], ?_, ?_⟩
        · intro o ho
          have hoa : o ≠ a := by intro e; exact ho (by simp [e])
          have hob : o ≠ b := by intro e; exact ho (by simp [e])
          have hor : o ∉ rest := by intro e; exact ho (by simp [e])
          show x.st.heap o = s.heap o
          rw [hframe o hor, delFit_other _ _ _ hob, delFit_other _ _ _ hoa,
            hc.mate_frame _ _ _ _ _ hoa hob]
        · intro k hk
          match k, hk with
          | 0, _ =>
            simp only [List.getElem_cons_zero, List.length_cons, wasMated_head _ _ _ 0 (by omega)]
            refine ⟨fun _ => ?_, fun hf => by simp at hf⟩
            show (x.st.heap a).fit = none
            rw [hframe a har]
            exact delFit_fit_none _ _ _ (by simp)
          | 1, _ =>
            simp only [List.getElem_cons_succ, List.getElem_cons_zero, List.length_cons,
              wasMated_head _ _ _ 1 (by omega)]
            refine ⟨fun _ => ?_, fun hf => by simp at hf⟩
            show (x.st.heap b).fit = none
            rw [hframe b hbr]
            simp
          | k + 2, hk =>
            have hk' : k < rest.length := by simpa using hk
            simp only [List.getElem_cons_succ, List.length_cons, wasMated_succ2]
            have hm : rest[k] ∈ rest := List.getElem_mem hk'
            have hka : rest[k] ≠ a := by intro e; exact har (e ▸ hm)
            have hkb : rest[k] ≠ b := by intro e; exact hbr (e ▸ hm)
            refine ⟨fun ht => (hidx k hk').1 ht, fun hf => ?_⟩
            show x.st.heap rest[k] = s.heap rest[k]
            rw [(hidx k hk').2 hf, delFit_other _ _ _ hkb, delFit_other _ _ _ hka,
              hc.mate_frame _ _ _ _ _ hka hkb]
    | false =>
      simp only [mateLoop, Bool.false_eq_true, if_false] at h
      split at h
      · simp at h
      next x hrec =>
        simp only [Option.some.injEq] at h
        obtain ⟨hoff, hnext, hframe, hidx⟩ := mateLoop_spec hc rest ds _ s x hnd' hrec
        subst h
        refine ⟨by simp [hoff], by simp [hnext], ?_, ?_⟩
        · intro o ho
          have hor : o ∉ rest := by intro e; exact ho (by simp [e])
          exact hframe o hor
        · intro k hk
          match k, hk with
          | 0, _ =>
            simp only [List.getElem_cons_zero, List.length_cons, wasMated_head _ _ _ 0 (by omega)]
            refine ⟨fun hf => by simp at hf, fun _ => hframe a har⟩
          | 1, _ =>
            simp only [List.getElem_cons_succ, List.getElem_cons_zero, List.length_cons,
              wasMated_head _ _ _ 1 (by omega)]
            refine ⟨fun hf => by simp at hf, fun _ => hframe b hbr⟩
          | k + 2, hk =>
            have hk' : k < rest.length := by simpa using hk
            simp only [List.getElem_cons_succ, List.length_cons, wasMated_succ2]
            exact hidx k hk'

/-- A long-enough decision list always lets the crossover loop finish. -/
theorem mateLoop_isSome {σ : Type} (ops : Ops σ) :
    ∀ (l : List Nat) (ds : List Bool) (t : σ) (s : St), l.length / 2 ≤ ds.length →
      (mateLoop ops t s l ds).isSome = true
  | [], ds, t, s, _ => by simp [mateLoop]
  | [a], ds, t, s, _ => by simp [mateLoop]
  | a :: b :: rest, [], t, s, h => by simp at h; omega
  | a :: b :: rest, d :: ds, t, s, h => by
    have h' : rest.length / 2 ≤ ds.length := by simp at h; omega
    cases d with
    | true =>
      simp only [mateLoop, if_true]
      have := mateLoop_isSome ops rest ds (ops.mate t s.heap a b).tape
        { s with heap := delFit (delFit (ops.mate t s.heap a b).heap (ops.mate t s.heap a b).fst)
                  (ops.mate t s.heap a b).snd, log := s.log ++ [Ev.mate a b] } h'
      split
      · next hn => simp [hn] at this
      · simp
    | false =>
      simp only [mateLoop, Bool.false_eq_true, if_false]
      have := mateLoop_isSome ops rest ds t s h'
      split
      · next hn => simp [hn] at this
      · simp

/-! ### mutLoop -/

theorem mutLoop_spec {σ : Type} {ops : Ops σ} (hc : OpContract ops) :
    ∀ (l : List Nat) (ds : List Bool) (t : σ) (s : St) (r : Res σ), l.Nodup →
      mutLoop ops t s l ds = some r →
      r.off = l ∧ r.st.next = s.next ∧ (∀ o, o ∉ l → r.st.heap o = s.heap o) ∧
      (∀ k (hk : k < l.length),
         (ds[k]? = some true → (r.st.heap l[k]).fit = none) ∧
         (ds[k]? = some false → r.st.heap l[k] = s.heap l[k]))
  | [], ds, t, s, r, _, h => by
    simp only [mutLoop, Option.some.injEq] at h
    subst h; simp
  | a :: rest, [], t, s, r, _, h => by simp [mutLoop] at h
  | a :: rest, d :: ds, t, s, r, hnd, h => by
    have hnd' : rest.Nodup := (List.nodup_cons.1 hnd).2
    have har : a ∉ rest := (List.nodup_cons.1 hnd).1
    cases d with
    | true =>
      simp only [mutLoop, if_true] at h
      rw [hc.mutate_ret] at h
      split at h
      · simp at h
      next x hrec =>
        simp only [Option.some.injEq] at h
        obtain ⟨hoff, hnext, hframe, hidx⟩ := mutLoop_spec hc rest ds _ _ x hnd' hrec
        simp only at hnext hframe hidx
        subst h
        refine ⟨by simp [hoff], by simp [hnext], ?_, ?_⟩
        · intro o ho
          have hoa : o ≠ a := by intro e; exact ho (by simp [e])
          have hor : o ∉ rest := by intro e; exact ho (by simp [e])
          show x.st.heap o = s.heap o
          rw [hframe o hor, delFit_other _ _ _ hoa, hc.mutate_frame _ _ _ _ hoa]
        · intro k hk
          match k, hk with
          | 0, _ =>
            simp only [List.getElem_cons_zero, List.getElem?_cons_zero]
            refine ⟨fun _ => ?_, fun hf => by simp at hf⟩
            show (x.st.heap a).fit = none
            rw [hframe a har]
            simp
          | k + 1, hk =>
            have hk' : k < rest.length := by simpa using hk
            simp only [List.getElem_cons_succ, List.getElem?_cons_succ]
            have hm : rest[k] ∈ rest := List.getElem_mem hk'
            have hka : rest[k] ≠ a := by intro e; exact har (e ▸ hm)
            refine ⟨fun ht => (hidx k hk').1 ht, fun hf => ?_⟩
            show x.st.heap rest[k] = s.heap rest[k]
            rw [(hidx k hk').2 hf, delFit_other _ _ _ hka, hc.mutate_frame _ _ _ _ hka]
    | false =>
      simp only [mutLoop, Bool.false_eq_true, if_false] at h
      split at h
      · simp at h
      next x hrec =>
        simp only [Option.some.injEq] at h
        obtain ⟨hoff, hnext, hframe, hidx⟩ := mutLoop_spec hc rest ds _ _ x hnd' hrec
        subst h
        refine ⟨by simp [hoff], by simp [hnext], ?_, ?_⟩
        · intro o ho
          have hor : o ∉ rest := by intro e; exact ho (by simp [e])
          exact hframe o hor
        · intro k hk
          match k, hk with
          | 0, _ =>
            simp only [List.getElem_cons_zero, List.getElem?_cons_zero]
            refine ⟨fun hf => by simp at hf, fun _ => hframe a har⟩
          | k + 1, hk =>
            have hk' : k < rest.length := by simpa using hk
            simp only [List.getElem_cons_succ, List.getElem?_cons_succ]
            exact hidx k hk'

theorem mutLoop_isSome {σ : Type} (ops : Ops σ) :
    ∀ (l : List Nat) (ds : List Bool) (t : σ) (s : St), l.length ≤ ds.length →
      (mutLoop ops t s l ds).isSome = true
  | [], ds, t, s, _ => by simp [mutLoop]
  | a :: rest, [], t, s, h => by simp at h
  | a :: rest, d :: ds, t, s, h => by
    have h' : rest.length ≤ ds.length := by simpa using h
    cases d with
    | true =>
      simp only [mutLoop, if_true]
      have := mutLoop_isSome ops rest ds (ops.mutate t s.heap a).tape
        { s with heap := delFit (ops.mutate t s.heap a).heap (ops.mutate t s.heap a).ret,
                 log := s.log ++ [Ev.mutate a] } h'
      split
      · next hn => simp [hn] at this
      · simp
    | false =>
      simp only [mutLoop, Bool.false_eq_true, if_false]
      have := mutLoop_isSome ops rest ds t s h'
      split
      · next hn => simp [hn] at this
      · simp

/-- The mutation loop only finishes when it had a decision for every index. -/
theorem mutLoop_none_of_short {σ : Type} (ops : Ops σ) :
    ∀ (l : List Nat) (ds : List Bool) (t : σ) (s : St), ds.length < l.length →
      mutLoop ops t s l ds = none := by
  intro l
  induction l with
  | nil => intro ds t s hh; simp at hh
  | cons a rest ih =>
    intro ds t s hh
    cases ds with
    | nil => simp [mutLoop]
    | cons d ds =>
      have hh' : ds.length < rest.length := by simpa using hh
      cases d <;> simp [mutLoop, ih _ _ _ hh']

/-! ### varOr -/

/-- What the property says about one offspring `o` produced under choice `c`
(`h0` = heap before the call, `h'` = heap after it). -/
def OffSpec (pop : List Nat) (h0 h' : Heap) (c : Choice) (o : Nat) : Prop :=
  match c with
  | .cx _ _ => (h' o).fit = none
  | .mutn _ => (h' o).fit = none
  | .rep i => ∃ p, pop[i]? = some p ∧ h' o = h0 p

theorem varOrStep_spec {σ : Type} {ops : Ops σ} (hc : OpContract ops) (pop : List Nat) (t : σ) (s : St)
    (c : Choice) (t' : σ) (s' : St) (o : Nat) (h : varOrStep ops pop t s c = some (t', s', o)) :
    o = s.next ∧ o < s'.next ∧ (∀ q, q < s.next → s'.heap q = s.heap q) ∧
      OffSpec pop s.heap s'.heap c o := by
  cases c with
  | cx i j =>
    simp only [varOrStep] at h
    split at h
    next p q hp hq =>
      simp only [clone_oid, clone_next, Option.some.injEq, Prod.mk.injEq] at h
      rw [hc.mate_fst] at h
      obtain ⟨_, hs, ho⟩ := h
      subst hs; subst ho
      refine ⟨rfl, by simp; omega, ?_, by simp [OffSpec]⟩
      intro q' hq'
      show delFit _ _ q' = _
      rw [delFit_other _ _ _ (by omega), hc.mate_frame _ _ _ _ _ (by omega) (by omega),
        clone_heap_old _ _ _ (by simp; omega), clone_heap_old _ _ _ (by omega)]
    · simp at h
  | mutn i =>
    simp only [varOrStep] at h
    split at h
    next p hp =>
      simp only [clone_oid, Option.some.injEq, Prod.mk.injEq] at h
      rw [hc.mutate_ret] at h
      obtain ⟨_, hs, ho⟩ := h
      subst hs; subst ho
      refine ⟨rfl, by simp, ?_, by simp [OffSpec]⟩
      intro q' hq'
      show delFit _ _ q' = _
      rw [delFit_other _ _ _ (by omega), hc.mutate_frame _ _ _ _ (by omega),
        clone_heap_old _ _ _ (by omega)]
    · simp at h
  | rep i =>
    simp only [varOrStep] at h
    split at h
    next p hp =>
      simp only [clone_oid, Option.some.injEq, Prod.mk.injEq] at h
      obtain ⟨_, hs, ho⟩ := h
      subst hs; subst ho
      refine ⟨rfl, by simp, ?_, ?_⟩
      · intro q' hq'
        exact clone_heap_old _ _ _ (by omega)
      · exact ⟨p, hp, by simp⟩
    · simp at h

theorem varOrLoop_spec {σ : Type} {ops : Ops σ} (hc : OpContract ops) (pop : List Nat) :
    ∀ (cs : List Choice) (t : σ) (s : St) (r : Res σ), varOrLoop ops pop t s cs = some r →
      (∀ p ∈ pop, p < s.next) →
      r.off.length = cs.length ∧ s.next ≤ r.st.next ∧ (∀ q, q < s.next → r.st.heap q = s.heap q) ∧
      (∀ o ∈ r.off, s.next ≤ o ∧ o < r.st.next) ∧ r.off.Pairwise (· < ·) ∧
      (∀ (k : Nat) c o, cs[k]? = some c → r.off[k]? = some o → OffSpec pop s.heap r.st.heap c o)
  | [], t, s, r, h, _ => by
    simp only [varOrLoop, Option.some.injEq] at h
    subst h; simp
  | c :: cs, t, s, r, h, hpop => by
    simp only [varOrLoop] at h
    split at h
    · simp at h
    next t1 s1 o hstep =>
      obtain ⟨ho, ho1, hfr1, hsp1⟩ := varOrStep_spec hc pop t s c t1 s1 o hstep
      split at h
      · simp at h
      next x hrec =>
        simp only [Option.some.injEq] at h
        have hpop1 : ∀ p ∈ pop, p < s1.next := fun p hp => by have := hpop p hp; omega
        obtain ⟨hlen, hnext, hframe, hrange, hpw, hidx⟩ := varOrLoop_spec hc pop cs t1 s1 x hrec hpop1
        subst h
        refine ⟨by simp [hlen], by show s.next ≤ x.st.next; omega, ?_, ?_, ?_, ?_⟩
        · intro q hq
          show x.st.heap q = s.heap q
          rw [hframe q (by omega), hfr1 q hq]
        · intro o' ho'
          show s.next ≤ o' ∧ o' < x.st.next
          rcases List.mem_cons.1 ho' with e | e
          · subst e; omega
          · have := hrange o' e; omega
        · show (o :: x.off).Pairwise (· < ·)
          refine List.pairwise_cons.2 ⟨fun o' ho' => ?_, hpw⟩
          have := hrange o' ho'; omega
        · intro k c' o' hck hok
          cases k with
          | zero =>
            simp only [List.getElem?_cons_zero, Option.some.injEq] at hck hok
            subst hck; subst hok
            have hxo : x.st.heap o = s1.heap o := hframe o ho1
            cases c with
            | cx i j => simpa [OffSpec, hxo] using hsp1
            | mutn i => simpa [OffSpec, hxo] using hsp1
            | rep i => simpa [OffSpec, hxo] using hsp1
          | succ k =>
            simp only [List.getElem?_cons_succ] at hck hok
            have := hidx k c' o' hck hok
            cases c' with
            | cx i j => simpa [OffSpec] using this
            | mutn i => simpa [OffSpec] using this
            | rep i =>
              obtain ⟨p, hp, hh⟩ := this
              refine ⟨p, hp, ?_⟩
              show x.st.heap o' = s.heap p
              rw [hh]
              exact hfr1 p (hpop p (List.mem_of_getElem? hp))

/-- With all chosen positions inside the population, `varOr` finishes. -/
def Choice.inRange (n : Nat) : Choice → Prop
  | .cx i j => i < n ∧ j < n
  | .mutn i => i < n
  | .rep i => i < n

theorem varOrLoop_isSome {σ : Type} (ops : Ops σ) (pop : List Nat) :
    ∀ (cs : List Choice) (t : σ) (s : St), (∀ c ∈ cs, c.inRange pop.length) →
      (varOrLoop ops pop t s cs).isSome = true
  | [], t, s, _ => by simp [varOrLoop]
  | c :: cs, t, s, h => by
    have hc0 := h c (by simp)
    have hcs : ∀ c' ∈ cs, c'.inRange pop.length := fun c' hc' => h c' (by simp [hc'])
    simp only [varOrLoop]
    have hstep : ∃ y, varOrStep ops pop t s c = some y := by
      cases c with
      | cx i j =>
        obtain ⟨hi, hj⟩ := hc0
        simp [varOrStep, List.getElem?_eq_getElem hi, List.getElem?_eq_getElem hj]
      | mutn i =>
        have hi : i < pop.length := hc0
        simp [varOrStep, List.getElem?_eq_getElem hi]
      | rep i =>
        have hi : i < pop.length := hc0
        simp [varOrStep, List.getElem?_eq_getElem hi]
    obtain ⟨⟨t1, s1, o⟩, hy⟩ := hstep
    rw [hy]
    have := varOrLoop_isSome ops pop cs t1 s1 hcs
    simp only
    split
    · next hn => simp [hn] at this
    · simp

end Variation
