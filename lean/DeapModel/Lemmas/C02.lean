/-
Helper lemmas for C02 (variation): heap frames of `clone`, `cloneAll`, and loop specifications
of `mateLoop`, `mutLoop`, `varOrStep`, `varOrLoop` under `OpContract`.
-/
import DeapModel.Core.Variation

namespace Variation

@[simp] theorem Heap.set_same (h : Heap) (o : Nat) (x : Obj) : h.set o x o = x := by
  simp [Heap.set]

@[simp] theorem Heap.set_other (h : Heap) (o p : Nat) (x : Obj) (hne : p ≠ o) : h.set o x p = h p := by
  simp [Heap.set, hne]

@[simp] theorem delFit_same_fit (h : Heap) (o : Nat) : (delFit h o o).fit = none := by
  simp [delFit]

theorem delFit_other (h : Heap) (o p : Nat) (hne : p ≠ o) : delFit h o p = h p := by
  simp [delFit, hne]

theorem delFit_genome (h : Heap) (o p : Nat) : (delFit h o p).genome = (h p).genome := by
  by_cases hp : p = o
  · subst hp; simp [delFit]
  · simp [delFit, hp]

/-- Deleting a fitness never creates one. -/
theorem delFit_fit_none (h : Heap) (o p : Nat) (hn : (h p).fit = none) : (delFit h o p).fit = none := by
  by_cases hp : p = o
  · subst hp; simp
  · rw [delFit_other _ _ _ hp]; exact hn

@[simp] theorem clone_oid (s : St) (p : Nat) : (clone s p).2 = s.next := rfl
@[simp] theorem clone_next (s : St) (p : Nat) : (clone s p).1.next = s.next + 1 := rfl
@[simp] theorem clone_heap_new (s : St) (p : Nat) : (clone s p).1.heap s.next = s.heap p := by
  simp [clone]
theorem clone_heap_old (s : St) (p o : Nat) (ho : o ≠ s.next) : (clone s p).1.heap o = s.heap o := by
  simp [clone, ho]

/-! ### cloneAll -/

theorem cloneAll_off (s : St) (pop : List Nat) : (cloneAll s pop).2 = List.range' s.next pop.length := by
  induction pop generalizing s with
  | nil => simp [cloneAll]
  | cons p ps ih => simp [cloneAll, ih, List.range'_succ]

theorem cloneAll_next (s : St) (pop : List Nat) : (cloneAll s pop).1.next = s.next + pop.length := by
  induction pop generalizing s with
  | nil => simp [cloneAll]
  | cons p ps ih => simp [cloneAll, ih]; omega

theorem cloneAll_frame (s : St) (pop : List Nat) (o : Nat) (ho : o < s.next) :
    (cloneAll s pop).1.heap o = s.heap o := by
  induction pop generalizing s with
  | nil => simp [cloneAll]
  | cons p ps ih =>
    simp only [cloneAll]
    rw [ih (clone s p).1 (by simp; omega)]
    exact clone_heap_old s p o (by omega)

theorem cloneAll_copy (s : St) (pop : List Nat) (hpop : ∀ p ∈ pop, p < s.next) (k : Nat)
    (hk : k < pop.length) : (cloneAll s pop).1.heap (s.next + k) = s.heap pop[k] := by
  induction pop generalizing s k with
  | nil => simp at hk
  | cons p ps ih =>
    simp only [cloneAll]
    cases k with
    | zero =>
      rw [cloneAll_frame _ _ _ (by simp)]
      simp
    | succ k =>
      have h1 : ∀ q ∈ ps, q < (clone s p).1.next := by
        intro q hq; have := hpop q (by simp [hq]); simp; omega
      have hk' : k < ps.length := by simpa using hk
      have := ih (clone s p).1 h1 k hk'
      simp only [clone_next] at this
      rw [show s.next + (k + 1) = s.next + 1 + k by omega, this]
      simp only [List.getElem_cons_succ]
      have hlt : ps[k] < s.next := hpop _ (by simp)
      exact clone_heap_old s p _ (by omega)

/-! ### mateLoop -/

theorem wasMated_short (ds : List Bool) (n k : Nat) (hn : n < 2) : wasMated ds n k = false := by
  have : n / 2 = 0 := by omega
  simp [wasMated, this]

theorem wasMated_succ2 (d : Bool) (ds : List Bool) (n k : Nat) :
    wasMated (d :: ds) (n + 2) (k + 2) = wasMated ds n k := by
  have h1 : (k + 2) / 2 = k / 2 + 1 := by omega
  have h2 : (n + 2) / 2 = n / 2 + 1 := by omega
  simp [wasMated, h1, h2]

theorem wasMated_head (d : Bool) (ds : List Bool) (n k : Nat) (hk : k < 2) :
    wasMated (d :: ds) (n + 2) k = d := by
  have h1 : k / 2 = 0 := by omega
  have h2 : (n + 2) / 2 = n / 2 + 1 := by omega
  cases d <;> simp [wasMated, h1, h2]

/-- What both loops of `varAnd` guarantee about their result `r` when run over a list `l` of pairwise
distinct, allocated oids from state `s`. -/
structure LoopOut {σ : Type} (s : St) (l : List Nat) (r : Res σ) : Prop where
  len : r.off.length = l.length
  next_le : s.next ≤ r.st.next
  frame : ∀ o, o < s.next → o ∉ l → r.st.heap o = s.heap o
  mem : ∀ o ∈ r.off, o ∈ l ∨ (s.next ≤ o ∧ o < r.st.next)
  nodup : r.off.Nodup

theorem LoopOut.lt_next {σ : Type} {s : St} {l : List Nat} {r : Res σ} (h : LoopOut s l r)
    (hl : ∀ x ∈ l, x < s.next) : ∀ o ∈ r.off, o < r.st.next := by
  intro o ho
  rcases h.mem o ho with h1 | h1
  · have := hl o h1; have := h.next_le; omega
  · exact h1.2

/-- Specification of the crossover loop under the operator contract, for a list of pairwise distinct
allocated oids: the result has the same length, consists of members of the list and objects allocated by
the operators, pairwise distinct; nothing outside the list is written; the two individuals RETURNED for
a mated pair end with no fitness; the members of the other pairs are returned untouched. -/
theorem mateLoop_spec {σ : Type} {ops : Ops σ} (hc : OpContract ops) :
    ∀ (l : List Nat) (ds : List Bool) (t : σ) (s : St) (r : Res σ), l.Nodup → (∀ x ∈ l, x < s.next) →
      mateLoop ops t s l ds = some r →
      LoopOut s l r ∧
      (∀ k (hk : k < l.length) (hk' : k < r.off.length),
         (wasMated ds l.length k = true → (r.st.heap r.off[k]).fit = none) ∧
         (wasMated ds l.length k = false → r.off[k] = l[k] ∧ r.st.heap l[k] = s.heap l[k]))
  | [], ds, t, s, r, _, _, h => by
    simp only [mateLoop, Option.some.injEq] at h
    subst h
    exact ⟨⟨rfl, Nat.le_refl _, fun _ _ _ => rfl, by simp, by simp⟩, by simp⟩
  | [a], ds, t, s, r, _, _, h => by
    simp only [mateLoop, Option.some.injEq] at h
    subst h
    refine ⟨⟨rfl, Nat.le_refl _, fun _ _ _ => rfl, fun o ho => Or.inl ho, by simp⟩, ?_⟩
    intro k hk hk'
    simp [wasMated_short]
  | a :: b :: rest, [], t, s, r, _, _, h => by simp [mateLoop] at h
  | a :: b :: rest, d :: ds, t, s, r, hnd, hl, h => by
    have hnd' : rest.Nodup := by
      have := List.nodup_cons.1 hnd; exact (List.nodup_cons.1 this.2).2
    have hab : a ≠ b := by
      intro e; subst e; simp at hnd
    have har : a ∉ rest := by
      intro hm; have := (List.nodup_cons.1 hnd).1; exact this (by simp [hm])
    have hbr : b ∉ rest := by
      have := List.nodup_cons.1 hnd; exact (List.nodup_cons.1 this.2).1
    have ha : a < s.next := hl a (by simp)
    have hb : b < s.next := hl b (by simp)
    have hrest : ∀ x ∈ rest, x < s.next := fun x hx => hl x (by simp [hx])
    cases d with
    | true =>
      simp only [mateLoop, if_true] at h
      have hnx := hc.mate_next t s.heap s.next a b
      have hf := hc.mate_fst t s.heap s.next a b
      have hs := hc.mate_snd t s.heap s.next a b
      have hds := hc.mate_distinct t s.heap s.next a b hab
      have hfrm := hc.mate_frame t s.heap s.next a b
      generalize ops.mate t s.heap s.next a b = r0 at h hnx hf hs hds hfrm
      split at h
      · simp at h
      next x hrec =>
        simp only [Option.some.injEq] at h
        obtain ⟨hout, hidx⟩ := mateLoop_spec hc rest ds _ _ x hnd'
          (fun y hy => by have := hrest y hy; show y < r0.next; omega) hrec
        have hxnext : r0.next ≤ x.st.next := hout.next_le
        have hxframe : ∀ o, o < r0.next → o ∉ rest →
            x.st.heap o = delFit (delFit r0.heap r0.fst) r0.snd o := hout.frame
        have hxmem : ∀ o ∈ x.off, o ∈ rest ∨ (r0.next ≤ o ∧ o < x.st.next) := hout.mem
        -- the returned objects are not in `rest` and are allocated
        have hfr : r0.fst ∉ rest ∧ r0.fst < r0.next := by
          rcases hf with e | e | e
          · rw [e]; exact ⟨har, by omega⟩
          · rw [e]; exact ⟨hbr, by omega⟩
          · exact ⟨fun hm => by have := hrest _ hm; omega, e.2⟩
        have hsr : r0.snd ∉ rest ∧ r0.snd < r0.next := by
          rcases hs with e | e | e
          · rw [e]; exact ⟨har, by omega⟩
          · rw [e]; exact ⟨hbr, by omega⟩
          · exact ⟨fun hm => by have := hrest _ hm; omega, e.2⟩
        have hfx : r0.fst ∉ x.off := by
          intro hm
          rcases hxmem _ hm with e | e
          · exact hfr.1 e
          · omega
        have hsx : r0.snd ∉ x.off := by
          intro hm
          rcases hxmem _ hm with e | e
          · exact hsr.1 e
          · omega
        subst h
        refine ⟨⟨by simp [hout.len], by show s.next ≤ x.st.next; omega, ?_, ?_, ?_⟩, ?_⟩
        · intro o ho hnot
          have hoa : o ≠ a := by intro e; exact hnot (by simp [e])
          have hob : o ≠ b := by intro e; exact hnot (by simp [e])
          have hor : o ∉ rest := by intro e; exact hnot (by simp [e])
          have hof : o ≠ r0.fst := by
            rcases hf with e | e | e
            · rw [e]; exact hoa
            · rw [e]; exact hob
            · omega
          have hos : o ≠ r0.snd := by
            rcases hs with e | e | e
            · rw [e]; exact hoa
            · rw [e]; exact hob
            · omega
          show x.st.heap o = s.heap o
          rw [hxframe o (by omega) hor, delFit_other _ _ _ hos, delFit_other _ _ _ hof, hfrm o hoa hob ho]
        · intro o ho
          show o ∈ a :: b :: rest ∨ (s.next ≤ o ∧ o < x.st.next)
          simp only [List.mem_cons] at ho
          rcases ho with e | e | e
          · subst e
            rcases hf with e | e | e
            · exact Or.inl (by simp [e])
            · exact Or.inl (by simp [e])
            · exact Or.inr ⟨e.1, by omega⟩
          · subst e
            rcases hs with e | e | e
            · exact Or.inl (by simp [e])
            · exact Or.inl (by simp [e])
            · exact Or.inr ⟨e.1, by omega⟩
          · rcases hxmem o e with h1 | h1
            · exact Or.inl (by simp [h1])
            · exact Or.inr ⟨by omega, h1.2⟩
        · show (r0.fst :: r0.snd :: x.off).Nodup
          refine List.nodup_cons.2 ⟨?_, List.nodup_cons.2 ⟨hsx, hout.nodup⟩⟩
          intro hm
          rcases List.mem_cons.1 hm with e | e
          · exact hds e
          · exact hfx e
        · intro k hk hk'
          match k, hk, hk' with
          | 0, _, _ =>
            simp only [List.getElem_cons_zero, List.length_cons, wasMated_head _ _ _ 0 (by omega)]
            refine ⟨fun _ => ?_, fun hf' => by simp at hf'⟩
            show (x.st.heap r0.fst).fit = none
            rw [hxframe _ hfr.2 hfr.1]
            exact delFit_fit_none _ _ _ (by simp)
          | 1, _, _ =>
            simp only [List.getElem_cons_succ, List.getElem_cons_zero, List.length_cons,
              wasMated_head _ _ _ 1 (by omega)]
            refine ⟨fun _ => ?_, fun hf' => by simp at hf'⟩
            show (x.st.heap r0.snd).fit = none
            rw [hxframe _ hsr.2 hsr.1]
            simp
          | k + 2, hk, hk' =>
            have hk1 : k < rest.length := by simpa using hk
            have hk2 : k < x.off.length := by simpa using hk'
            simp only [List.getElem_cons_succ, List.length_cons, wasMated_succ2]
            have hm : rest[k] ∈ rest := List.getElem_mem hk1
            have hka : rest[k] ≠ a := by intro e; exact har (e ▸ hm)
            have hkb : rest[k] ≠ b := by intro e; exact hbr (e ▸ hm)
            have hkf : rest[k] ≠ r0.fst := by intro e; exact hfr.1 (e ▸ hm)
            have hks : rest[k] ≠ r0.snd := by intro e; exact hsr.1 (e ▸ hm)
            refine ⟨fun ht => (hidx k hk1 hk2).1 ht, fun hf' => ?_⟩
            obtain ⟨e1, e2⟩ := (hidx k hk1 hk2).2 hf'
            refine ⟨e1, ?_⟩
            show x.st.heap rest[k] = s.heap rest[k]
            rw [e2]
            show delFit (delFit r0.heap r0.fst) r0.snd rest[k] = _
            rw [delFit_other _ _ _ hks, delFit_other _ _ _ hkf, hfrm _ hka hkb (hrest _ hm)]
    | false =>
      simp only [mateLoop, Bool.false_eq_true, if_false] at h
      split at h
      · simp at h
      next x hrec =>
        simp only [Option.some.injEq] at h
        obtain ⟨hout, hidx⟩ := mateLoop_spec hc rest ds _ s x hnd' hrest hrec
        have hax : a ∉ x.off := by
          intro hm
          rcases hout.mem _ hm with e | e
          · exact har e
          · omega
        have hbx : b ∉ x.off := by
          intro hm
          rcases hout.mem _ hm with e | e
          · exact hbr e
          · omega
        subst h
        refine ⟨⟨by simp [hout.len], hout.next_le, ?_, ?_, ?_⟩, ?_⟩
        · intro o ho hnot
          exact hout.frame o ho (fun e => hnot (by simp [e]))
        · intro o ho
          show o ∈ a :: b :: rest ∨ _
          simp only [List.mem_cons] at ho
          rcases ho with e | e | e
          · exact Or.inl (by simp [e])
          · exact Or.inl (by simp [e])
          · rcases hout.mem o e with h1 | h1
            · exact Or.inl (by simp [h1])
            · exact Or.inr h1
        · show (a :: b :: x.off).Nodup
          refine List.nodup_cons.2 ⟨?_, List.nodup_cons.2 ⟨hbx, hout.nodup⟩⟩
          intro hm
          rcases List.mem_cons.1 hm with e | e
          · exact hab e
          · exact hax e
        · intro k hk hk'
          match k, hk, hk' with
          | 0, _, _ =>
            simp only [List.getElem_cons_zero, List.length_cons, wasMated_head _ _ _ 0 (by omega)]
            exact ⟨fun hf' => by simp at hf', fun _ => ⟨trivial, hout.frame a ha har⟩⟩
          | 1, _, _ =>
            simp only [List.getElem_cons_succ, List.getElem_cons_zero, List.length_cons,
              wasMated_head _ _ _ 1 (by omega)]
            exact ⟨fun hf' => by simp at hf', fun _ => ⟨trivial, hout.frame b hb hbr⟩⟩
          | k + 2, hk, hk' =>
            have hk1 : k < rest.length := by simpa using hk
            have hk2 : k < x.off.length := by simpa using hk'
            simp only [List.getElem_cons_succ, List.length_cons, wasMated_succ2]
            exact hidx k hk1 hk2

/-- A long-enough decision list always lets the crossover loop finish. -/
theorem mateLoop_isSome {σ : Type} (ops : Ops σ) :
    ∀ (l : List Nat) (ds : List Bool) (t : σ) (s : St), l.length / 2 ≤ ds.length →
      (mateLoop ops t s l ds).isSome = true
  | [], ds, t, s, _ => by simp [mateLoop]
  | [a], ds, t, s, _ => by simp [mateLoop]
  | a :: b :: rest, [], t, s, h => by simp at h; omega
  | a :: b :: rest, d :: ds, t, s, h => by
    have h' : rest.length / 2 ≤ ds.length := by simp at h; omega
    cases d with
    | true =>
      simp only [mateLoop, if_true]
      split
      · next hn => exact absurd hn (Option.ne_none_iff_isSome.2 (mateLoop_isSome ops rest ds _ _ h'))
      · simp
    | false =>
      simp only [mateLoop, Bool.false_eq_true, if_false]
      split
      · next hn => exact absurd hn (Option.ne_none_iff_isSome.2 (mateLoop_isSome ops rest ds _ _ h'))
      · simp

/-! ### mutLoop -/

theorem mutLoop_spec {σ : Type} {ops : Ops σ} (hc : OpContract ops) :
    ∀ (l : List Nat) (ds : List Bool) (t : σ) (s : St) (r : Res σ), l.Nodup → (∀ x ∈ l, x < s.next) →
      mutLoop ops t s l ds = some r →
      LoopOut s l r ∧
      (∀ k (hk : k < l.length) (hk' : k < r.off.length),
         (ds[k]? = some true → (r.st.heap r.off[k]).fit = none) ∧
         (ds[k]? = some false → r.off[k] = l[k] ∧ r.st.heap l[k] = s.heap l[k]))
  | [], ds, t, s, r, _, _, h => by
    simp only [mutLoop, Option.some.injEq] at h
    subst h
    exact ⟨⟨rfl, Nat.le_refl _, fun _ _ _ => rfl, by simp, by simp⟩, by simp⟩
  | a :: rest, [], t, s, r, _, _, h => by simp [mutLoop] at h
  | a :: rest, d :: ds, t, s, r, hnd, hl, h => by
    have hnd' : rest.Nodup := (List.nodup_cons.1 hnd).2
    have har : a ∉ rest := (List.nodup_cons.1 hnd).1
    have ha : a < s.next := hl a (by simp)
    have hrest : ∀ x ∈ rest, x < s.next := fun x hx => hl x (by simp [hx])
    cases d with
    | true =>
      simp only [mutLoop, if_true] at h
      have hnx := hc.mutate_next t s.heap s.next a
      have hret := hc.mutate_ret t s.heap s.next a
      have hfrm := hc.mutate_frame t s.heap s.next a
      generalize ops.mutate t s.heap s.next a = r0 at h hnx hret hfrm
      split at h
      · simp at h
      next x hrec =>
        simp only [Option.some.injEq] at h
        obtain ⟨hout, hidx⟩ := mutLoop_spec hc rest ds _ _ x hnd'
          (fun y hy => by have := hrest y hy; show y < r0.next; omega) hrec
        have hxnext : r0.next ≤ x.st.next := hout.next_le
        have hxframe : ∀ o, o < r0.next → o ∉ rest → x.st.heap o = delFit r0.heap r0.ret o := hout.frame
        have hxmem : ∀ o ∈ x.off, o ∈ rest ∨ (r0.next ≤ o ∧ o < x.st.next) := hout.mem
        have hrr : r0.ret ∉ rest ∧ r0.ret < r0.next := by
          rcases hret with e | e
          · rw [e]; exact ⟨har, by omega⟩
          · exact ⟨fun hm => by have := hrest _ hm; omega, e.2⟩
        have hrx : r0.ret ∉ x.off := by
          intro hm
          rcases hxmem _ hm with e | e
          · exact hrr.1 e
          · omega
        subst h
        refine ⟨⟨by simp [hout.len], by show s.next ≤ x.st.next; omega, ?_, ?_, ?_⟩, ?_⟩
        · intro o ho hnot
          have hoa : o ≠ a := by intro e; exact hnot (by simp [e])
          have hor : o ∉ rest := by intro e; exact hnot (by simp [e])
          have hof : o ≠ r0.ret := by
            rcases hret with e | e
            · rw [e]; exact hoa
            · omega
          show x.st.heap o = s.heap o
          rw [hxframe o (by omega) hor, delFit_other _ _ _ hof, hfrm o hoa ho]
        · intro o ho
          show o ∈ a :: rest ∨ (s.next ≤ o ∧ o < x.st.next)
          simp only [List.mem_cons] at ho
          rcases ho with e | e
          · subst e
            rcases hret with e | e
            · exact Or.inl (by simp [e])
            · exact Or.inr ⟨e.1, by omega⟩
          · rcases hxmem o e with h1 | h1
            · exact Or.inl (by simp [h1])
            · exact Or.inr ⟨by omega, h1.2⟩
        · show (r0.ret :: x.off).Nodup
          exact List.nodup_cons.2 ⟨hrx, hout.nodup⟩
        · intro k hk hk'
          match k, hk, hk' with
          | 0, _, _ =>
            simp only [List.getElem_cons_zero, List.getElem?_cons_zero]
            refine ⟨fun _ => ?_, fun hf' => by simp at hf'⟩
            show (x.st.heap r0.ret).fit = none
            rw [hxframe _ hrr.2 hrr.1]
            simp
          | k + 1, hk, hk' =>
            have hk1 : k < rest.length := by simpa using hk
            have hk2 : k < x.off.length := by simpa using hk'
            simp only [List.getElem_cons_succ, List.getElem?_cons_succ]
            have hm : rest[k] ∈ rest := List.getElem_mem hk1
            have hka : rest[k] ≠ a := by intro e; exact har (e ▸ hm)
            have hkr : rest[k] ≠ r0.ret := by intro e; exact hrr.1 (e ▸ hm)
            refine ⟨fun ht => (hidx k hk1 hk2).1 ht, fun hf' => ?_⟩
            obtain ⟨e1, e2⟩ := (hidx k hk1 hk2).2 hf'
            refine ⟨e1, ?_⟩
            show x.st.heap rest[k] = s.heap rest[k]
            rw [e2]
            show delFit r0.heap r0.ret rest[k] = _
            rw [delFit_other _ _ _ hkr, hfrm _ hka (hrest _ hm)]
    | false =>
      simp only [mutLoop, Bool.false_eq_true, if_false] at h
      split at h
      · simp at h
      next x hrec =>
        simp only [Option.some.injEq] at h
        obtain ⟨hout, hidx⟩ := mutLoop_spec hc rest ds _ s x hnd' hrest hrec
        have hax : a ∉ x.off := by
          intro hm
          rcases hout.mem _ hm with e | e
          · exact har e
          · omega
        subst h
        refine ⟨⟨by simp [hout.len], hout.next_le, ?_, ?_, ?_⟩, ?_⟩
        · intro o ho hnot
          exact hout.frame o ho (fun e => hnot (by simp [e]))
        · intro o ho
          show o ∈ a :: rest ∨ _
          simp only [List.mem_cons] at ho
          rcases ho with e | e
          · exact Or.inl (by simp [e])
          · rcases hout.mem o e with h1 | h1
            · exact Or.inl (by simp [h1])
            · exact Or.inr h1
        · show (a :: x.off).Nodup
          exact List.nodup_cons.2 ⟨hax, hout.nodup⟩
        · intro k hk hk'
          match k, hk, hk' with
          | 0, _, _ =>
            simp only [List.getElem_cons_zero, List.getElem?_cons_zero]
            exact ⟨fun hf' => by simp at hf', fun _ => ⟨trivial, hout.frame a ha har⟩⟩
          | k + 1, hk, hk' =>
            have hk1 : k < rest.length := by simpa using hk
            have hk2 : k < x.off.length := by simpa using hk'
            simp only [List.getElem_cons_succ, List.getElem?_cons_succ]
            exact hidx k hk1 hk2

theorem mutLoop_isSome {σ : Type} (ops : Ops σ) :
    ∀ (l : List Nat) (ds : List Bool) (t : σ) (s : St), l.length ≤ ds.length →
      (mutLoop ops t s l ds).isSome = true
  | [], ds, t, s, _ => by simp [mutLoop]
  | a :: rest, [], t, s, h => by simp at h
  | a :: rest, d :: ds, t, s, h => by
    have h' : rest.length ≤ ds.length := by simpa using h
    cases d with
    | true =>
      simp only [mutLoop, if_true]
      split
      · next hn => exact absurd hn (Option.ne_none_iff_isSome.2 (mutLoop_isSome ops rest ds _ _ h'))
      · simp
    | false =>
      simp only [mutLoop, Bool.false_eq_true, if_false]
      split
      · next hn => exact absurd hn (Option.ne_none_iff_isSome.2 (mutLoop_isSome ops rest ds _ _ h'))
      · simp

/-- The mutation loop only finishes when it had a decision for every index. -/
theorem mutLoop_none_of_short {σ : Type} (ops : Ops σ) :
    ∀ (l : List Nat) (ds : List Bool) (t : σ) (s : St), ds.length < l.length →
      mutLoop ops t s l ds = none := by
  intro l
  induction l with
  | nil => intro ds t s hh; simp at hh
  | cons a rest ih =>
    intro ds t s hh
    cases ds with
    | nil => simp [mutLoop]
    | cons d ds =>
      have hh' : ds.length < rest.length := by simpa using hh
      cases d <;> simp [mutLoop, ih _ _ _ hh']

/-! ### varAnd, all facts at once -/

theorem varAnd_master {σ : Type} {ops : Ops σ} (hc : OpContract ops) {t : σ} {s : St} {pop : List Nat}
    {mateD mutD : List Bool} {r : Res σ} (h : varAnd ops t s pop mateD mutD = some r) :
    r.off.length = pop.length ∧ s.next ≤ r.st.next ∧ (∀ o, o < s.next → r.st.heap o = s.heap o) ∧
    (∀ o ∈ r.off, s.next ≤ o ∧ o < r.st.next) ∧ r.off.Nodup ∧
    (∀ k (hk : k < pop.length) (hk' : k < r.off.length),
      ((wasMated mateD pop.length k = true ∨ mutD[k]? = some true) → (r.st.heap r.off[k]).fit = none) ∧
      ((∀ p ∈ pop, p < s.next) → wasMated mateD pop.length k = false ∧ mutD[k]? = some false →
        r.st.heap r.off[k] = s.heap pop[k]) ∧
      (mutD[k]? = some true ∨ mutD[k]? = some false)) := by
  simp only [varAnd] at h
  split at h
  · simp at h
  next m hm =>
    have hloff : (cloneAll s pop).2 = List.range' s.next pop.length := cloneAll_off s pop
    have hnd : (cloneAll s pop).2.Nodup := by rw [hloff]; exact List.nodup_range' 1
    have hcn : (cloneAll s pop).1.next = s.next + pop.length := cloneAll_next s pop
    have hll : ∀ x ∈ (cloneAll s pop).2, x < (cloneAll s pop).1.next := by
      intro x hx; rw [hloff, List.mem_range'_1] at hx; omega
    have hlge : ∀ x ∈ (cloneAll s pop).2, s.next ≤ x := by
      intro x hx; rw [hloff, List.mem_range'_1] at hx; omega
    obtain ⟨o1, i1⟩ := mateLoop_spec hc _ _ _ _ m hnd hll hm
    have hml := o1.lt_next hll
    obtain ⟨o2, i2⟩ := mutLoop_spec hc _ _ _ _ r o1.nodup hml h
    have hrl := o2.lt_next hml
    have hlen1 : m.off.length = pop.length := by rw [o1.len, hloff]; simp
    have hmge : ∀ x ∈ m.off, s.next ≤ x := by
      intro x hx
      rcases o1.mem x hx with e | e
      · exact hlge x e
      · omega
    refine ⟨by rw [o2.len, hlen1], by have := o1.next_le; have := o2.next_le; omega, ?_, ?_, o2.nodup, ?_⟩
    · intro o ho
      have hnl : o ∉ (cloneAll s pop).2 := fun e => by have := hlge o e; omega
      have hnm : o ∉ m.off := fun e => by have := hmge o e; omega
      rw [o2.frame o (by have := o1.next_le; omega) hnm, o1.frame o (by omega) hnl, cloneAll_frame _ _ _ ho]
    · intro o ho
      refine ⟨?_, hrl o ho⟩
      rcases o2.mem o ho with e | e
      · exact hmge o e
      · have := o1.next_le; omega
    · intro k hk hk'
      have hk1 : k < (cloneAll s pop).2.length := by rw [hloff]; simpa using hk
      have hk2 : k < m.off.length := by omega
      have hel : (cloneAll s pop).2[k] = s.next + k := by simp [hloff]
      have h1 := i1 k hk1 hk2
      have h2 := i2 k hk2 hk'
      have hlen0 : (cloneAll s pop).2.length = pop.length := by rw [hloff]; simp
      rw [hlen0] at h1
      have hmut : mutD[k]? = some true ∨ mutD[k]? = some false := by
        have hlen' : m.off.length ≤ mutD.length := by
          rcases Nat.lt_or_ge mutD.length m.off.length with hlt | hge
          · rw [mutLoop_none_of_short ops _ _ _ _ hlt] at h
            simp at h
          · exact hge
        have hk3 : k < mutD.length := by omega
        rw [List.getElem?_eq_getElem hk3]
        cases mutD[k] <;> simp
      refine ⟨?_, ?_, hmut⟩
      · rintro (hmated | hmutd)
        · rcases hmut with hm1 | hm0
          · exact h2.1 hm1
          · obtain ⟨e1, e2⟩ := h2.2 hm0
            rw [e1, e2]; exact h1.1 hmated
        · exact h2.1 hmutd
      · intro hpop ⟨hnm, hnu⟩
        obtain ⟨e1, e2⟩ := h2.2 hnu
        obtain ⟨e3, e4⟩ := h1.2 hnm
        rw [e1, e2, e3, e4, hel]
        exact cloneAll_copy s pop hpop k hk

/-! ### varOr -/

/-- What the property says about one offspring `o` produced under choice `c`
(`h0` = heap before the call, `h'` = heap after it). -/
def OffSpec (pop : List Nat) (h0 h' : Heap) (c : Choice) (o : Nat) : Prop :=
  match c with
  | .cx _ _ => (h' o).fit = none
  | .mutn _ => (h' o).fit = none
  | .rep i => ∃ p, pop[i]? = some p ∧ h' o = h0 p

theorem varOrStep_spec {σ : Type} {ops : Ops σ} (hc : OpContract ops) (pop : List Nat) (t : σ) (s : St)
    (c : Choice) (t' : σ) (s' : St) (o : Nat) (h : varOrStep ops pop t s c = some (t', s', o)) :
    s.next ≤ o ∧ o < s'.next ∧ (∀ q, q < s.next → s'.heap q = s.heap q) ∧
      OffSpec pop s.heap s'.heap c o := by
  cases c with
  | cx i j =>
    simp only [varOrStep] at h
    split at h
    next p q hp hq =>
      simp only [clone_oid, clone_next, Option.some.injEq, Prod.mk.injEq] at h
      have hnx := hc.mate_next t (clone (clone s p).1 q).1.heap (s.next + 1 + 1) s.next (s.next + 1)
      have hf := hc.mate_fst t (clone (clone s p).1 q).1.heap (s.next + 1 + 1) s.next (s.next + 1)
      have hfrm := hc.mate_frame t (clone (clone s p).1 q).1.heap (s.next + 1 + 1) s.next (s.next + 1)
      generalize ops.mate t (clone (clone s p).1 q).1.heap (s.next + 1 + 1) s.next (s.next + 1) = r0
        at h hnx hf hfrm
      obtain ⟨_, hs, ho⟩ := h
      subst hs; subst ho
      have hlo : s.next ≤ r0.fst ∧ r0.fst < r0.next := by
        rcases hf with e | e | e <;> omega
      refine ⟨hlo.1, hlo.2, ?_, by simp [OffSpec]⟩
      intro q' hq'
      show delFit _ _ q' = _
      rw [delFit_other _ _ _ (by omega), hfrm _ (by omega) (by omega) (by omega),
        clone_heap_old _ _ _ (by simp; omega), clone_heap_old _ _ _ (by omega)]
    · simp at h
  | mutn i =>
    simp only [varOrStep] at h
    split at h
    next p hp =>
      simp only [clone_oid, clone_next, Option.some.injEq, Prod.mk.injEq] at h
      have hnx := hc.mutate_next t (clone s p).1.heap (s.next + 1) s.next
      have hret := hc.mutate_ret t (clone s p).1.heap (s.next + 1) s.next
      have hfrm := hc.mutate_frame t (clone s p).1.heap (s.next + 1) s.next
      generalize ops.mutate t (clone s p).1.heap (s.next + 1) s.next = r0 at h hnx hret hfrm
      obtain ⟨_, hs, ho⟩ := h
      subst hs; subst ho
      have hlo : s.next ≤ r0.ret ∧ r0.ret < r0.next := by
        rcases hret with e | e <;> omega
      refine ⟨hlo.1, hlo.2, ?_, by simp [OffSpec]⟩
      intro q' hq'
      show delFit _ _ q' = _
      rw [delFit_other _ _ _ (by omega), hfrm _ (by omega) (by omega),
        clone_heap_old _ _ _ (by omega)]
    · simp at h
  | rep i =>
    simp only [varOrStep] at h
    split at h
    next p hp =>
      simp only [clone_oid, Option.some.injEq, Prod.mk.injEq] at h
      obtain ⟨_, hs, ho⟩ := h
      subst hs; subst ho
      refine ⟨Nat.le_refl _, by simp, ?_, ?_⟩
      · intro q' hq'
        exact clone_heap_old _ _ _ (by omega)
      · exact ⟨p, hp, by simp⟩
    · simp at h

theorem varOrLoop_spec {σ : Type} {ops : Ops σ} (hc : OpContract ops) (pop : List Nat) :
    ∀ (cs : List Choice) (t : σ) (s : St) (r : Res σ), varOrLoop ops pop t s cs = some r →
      (∀ p ∈ pop, p < s.next) →
      r.off.length = cs.length ∧ s.next ≤ r.st.next ∧ (∀ q, q < s.next → r.st.heap q = s.heap q) ∧
      (∀ o ∈ r.off, s.next ≤ o ∧ o < r.st.next) ∧ r.off.Pairwise (· < ·) ∧
      (∀ (k : Nat) c o, cs[k]? = some c → r.off[k]? = some o → OffSpec pop s.heap r.st.heap c o)
  | [], t, s, r, h, _ => by
    simp only [varOrLoop, Option.some.injEq] at h
    subst h; simp
  | c :: cs, t, s, r, h, hpop => by
    simp only [varOrLoop] at h
    split at h
    · simp at h
    next t1 s1 o hstep =>
      obtain ⟨ho, ho1, hfr1, hsp1⟩ := varOrStep_spec hc pop t s c t1 s1 o hstep
      split at h
      · simp at h
      next x hrec =>
        simp only [Option.some.injEq] at h
        have hpop1 : ∀ p ∈ pop, p < s1.next := fun p hp => by have := hpop p hp; omega
        obtain ⟨hlen, hnext, hframe, hrange, hpw, hidx⟩ := varOrLoop_spec hc pop cs t1 s1 x hrec hpop1
        subst h
        refine ⟨by simp [hlen], by show s.next ≤ x.st.next; omega, ?_, ?_, ?_, ?_⟩
        · intro q hq
          show x.st.heap q = s.heap q
          rw [hframe q (by omega), hfr1 q hq]
        · intro o' ho'
          show s.next ≤ o' ∧ o' < x.st.next
          rcases List.mem_cons.1 ho' with e | e
          · subst e; omega
          · have := hrange o' e; omega
        · show (o :: x.off).Pairwise (· < ·)
          refine List.pairwise_cons.2 ⟨fun o' ho' => ?_, hpw⟩
          have := hrange o' ho'; omega
        · intro k c' o' hck hok
          cases k with
          | zero =>
            simp only [List.getElem?_cons_zero, Option.some.injEq] at hck hok
            subst hck; subst hok
            have hxo : x.st.heap o = s1.heap o := hframe o ho1
            cases c with
            | cx i j => simpa [OffSpec, hxo] using hsp1
            | mutn i => simpa [OffSpec, hxo] using hsp1
            | rep i => simpa [OffSpec, hxo] using hsp1
          | succ k =>
            simp only [List.getElem?_cons_succ] at hck hok
            have := hidx k c' o' hck hok
            cases c' with
            | cx i j => simpa [OffSpec] using this
            | mutn i => simpa [OffSpec] using this
            | rep i =>
              obtain ⟨p, hp, hh⟩ := this
              refine ⟨p, hp, ?_⟩
              show x.st.heap o' = s.heap p
              rw [hh]
              exact hfr1 p (hpop p (List.mem_of_getElem? hp))

/-- With all chosen positions inside the population, `varOr` finishes. -/
def Choice.inRange (n : Nat) : Choice → Prop
  | .cx i j => i < n ∧ j < n
  | .mutn i => i < n
  | .rep i => i < n

theorem varOrLoop_isSome {σ : Type} (ops : Ops σ) (pop : List Nat) :
    ∀ (cs : List Choice) (t : σ) (s : St), (∀ c ∈ cs, c.inRange pop.length) →
      (varOrLoop ops pop t s cs).isSome = true
  | [], t, s, _ => by simp [varOrLoop]
  | c :: cs, t, s, h => by
    have hc0 := h c (by simp)
    have hcs : ∀ c' ∈ cs, c'.inRange pop.length := fun c' hc' => h c' (by simp [hc'])
    simp only [varOrLoop]
    have hstep : ∃ y, varOrStep ops pop t s c = some y := by
      cases c with
      | cx i j =>
        obtain ⟨hi, hj⟩ := hc0
        simp [varOrStep, List.getElem?_eq_getElem hi, List.getElem?_eq_getElem hj]
      | mutn i =>
        have hi : i < pop.length := hc0
        simp [varOrStep, List.getElem?_eq_getElem hi]
      | rep i =>
        have hi : i < pop.length := hc0
        simp [varOrStep, List.getElem?_eq_getElem hi]
    obtain ⟨⟨t1, s1, o⟩, hy⟩ := hstep
    rw [hy]
    have := varOrLoop_isSome ops pop cs t1 s1 hcs
    simp only
    split
    · next hn => simp [hn] at this
    · simp

end Variation
