/-
C04 lemmas, part 13: `sortLogNondominated` returns the leading fronts of the Pareto ranking.
-/
import DeapModel.Lemmas.C04LogHelpers

set_option linter.unusedSectionVars false
set_option linter.unusedSimpArgs false
set_option linter.unusedVariables false

namespace C04L
open NDSort

variable {α : Type} [Field α] [LinearOrder α] [IsStrictOrderedRing α] [Inhabited α]

/-- The ranks computed by model B are the dominance depths, hence its fronts are the peeling. -/
theorem logRanks_eq_peel (pop : List (Ind α)) (m : Nat) (hm : 2 ≤ m) (hne : pop ≠ [])
    (hlen : ∀ x ∈ pop, x.w.length = m) :
    ∃ fs front uf, logRanks pop = some (fs, front, uf) ∧
      List.Forall₂ List.Perm (logFronts fs front uf) (peel domI pop) := by
  cases pop with
  | nil => exact absurd rfl hne
  | cons ind0 rest =>
    have h0 : ind0.w.length = m := hlen ind0 (by simp)
    have huf : (ind0 :: rest).foldl (fun d ind => dset d ind.w (dget d [] ind.w ++ [ind])) [] =
        mapFitInd (ind0 :: rest) := rfl
    -- the sorted distinct fitnesses and the initial ranks
    have hnd := mapFitInd_nodup (ind0 :: rest)
    have hperm := List.mergeSort_perm (dkeys (mapFitInd (ind0 :: rest))) (fun a b => !Py.tupleLt a b)
    have hsorted := sorted_desc (dkeys (mapFitInd (ind0 :: rest))) hnd
    have hflen : ∀ f ∈ (dkeys (mapFitInd (ind0 :: rest))).mergeSort (fun a b => !Py.tupleLt a b),
        f.length = m := by
      intro f hf
      obtain ⟨x, hx, rfl⟩ := fits_rep (ind0 :: rest) f (hperm.mem_iff.1 hf)
      exact hlen x hx
    have hkeys0 : dkeys ((dkeys (mapFitInd (ind0 :: rest))).map (fun f => (f, 0)) : FrontDict α) =
        dkeys (mapFitInd (ind0 :: rest)) := by
      simp [dkeys, List.map_map, Function.comp_def]
    obtain ⟨front, hA⟩ := Option.isSome_iff_exists.1
      (helperA_isSome ((dkeys (mapFitInd (ind0 :: rest))).mergeSort (fun a b => !Py.tupleLt a b)) (m - 1)
        ((dkeys (mapFitInd (ind0 :: rest))).map (fun f => (f, 0))) (by omega))
    have hspec := helperA_spec m _ (m - 1) _ hflen (by omega) (by omega) hsorted
      (fun a _ b _ i hi him => by omega) front hA
    have hrank := ranks_eq_depth m (by omega) _ hflen _ front (dget_init_zero _) hspec
    have hk := keys_helperA _ (m - 1) _ (by
      intro f hf; rw [hkeys0]; exact hperm.mem_iff.1 hf) front hA
    refine ⟨(dkeys (mapFitInd (ind0 :: rest))).mergeSort (fun a b => !Py.tupleLt a b), front,
      mapFitInd (ind0 :: rest), ?_, ?_⟩
    · simp only [logRanks, huf, h0, hA, Option.map_some]
    · exact logFronts_eq_peel m (ind0 :: rest) hne hlen _ hperm front (by rw [hk, hkeys0]) hrank

/-- **Model B is correct.**  `sortLogNondominated(pop, k)` returns, front by front, the leading
fronts of the ranking by peeling needed to reach `k`. -/
theorem sortLog_eq_peel (pop : List (Ind α)) (m : Nat) (hm : 2 ≤ m) (hne : pop ≠ [])
    (hlen : ∀ x ∈ pop, x.w.length = m) (k : Nat) :
    ∃ fronts, sortLog pop k = some fronts ∧ List.Forall₂ List.Perm fronts (leading (peel domI pop) k) := by
  by_cases hk : k = 0
  · subst hk; exact ⟨[], by simp [sortLog], by rw [leading_zero]; exact List.Forall₂.nil⟩
  · obtain ⟨fs, front, uf, hr, hf⟩ := logRanks_eq_peel pop m hm hne hlen
    refine ⟨leading (logFronts fs front uf) k, ?_, forall₂_perm_leading hf k⟩
    simp only [sortLog, hk, ↓reduceIte, hr, Option.map_some]
    exact congrArg some (logTruncate_eq_leading _ k hk)

/-- `first_front_only=True`: the non-dominated set. -/
theorem sortLogFirst_eq_nondom (pop : List (Ind α)) (m : Nat) (hm : 2 ≤ m) (hne : pop ≠ [])
    (hlen : ∀ x ∈ pop, x.w.length = m) (k : Nat) (hk : k ≠ 0) :
    ∃ front, sortLogFirst pop k = some front ∧ front.Perm (nondom domI pop) := by
  obtain ⟨fs, front, uf, hr, hf⟩ := logRanks_eq_peel pop m hm hne hlen
  rw [peel_eq hne (spo_domI m pop hlen)] at hf
  cases hlf : logFronts fs front uf with
  | nil => rw [hlf] at hf; cases hf
  | cons F rest =>
    rw [hlf] at hf
    cases hf with
    | cons h _ =>
      exact ⟨F, by simp only [sortLogFirst, hk, ↓reduceIte, hr, Option.map_some, hlf, List.headD_cons], h⟩

end C04L
