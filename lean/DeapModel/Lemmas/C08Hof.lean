/-
C08 helper lemmas: structural invariants of the archive (hold for every similarity operator) and
the case analysis of one `HallOfFame.update` iteration.
-/
import DeapModel.Lemmas.C08Basic

set_option linter.unusedSectionVars false
set_option linter.unusedSimpArgs false
set_option linter.unusedVariables false

namespace C08L
open Archive
open Fitness (Fit deepcopy)

variable {G α : Type} [LinearOrder α]

/-- Equal up to object identity: same genome and same fitness. -/
def same (x y : Ind G α) : Prop := x.genome = y.genome ∧ x.fit = y.fit

theorem same_copy (o : Nat) (x : Ind G α) : same (copyInd o x) x := ⟨rfl, rfl⟩

/-- The parallel lists mirror each other: `keys[j] = items[n-1-j].fitness`. -/
def Mirror (h : HoF G α) : Prop := h.keys = (h.items.map (·.fit)).reverse

theorem Mirror.length {h : HoF G α} (hm : Mirror h) : h.keys.length = h.items.length := by
  rw [hm]; simp

/-- Every member was allocated by the archive (`base ≤ oid < next`) and no two members are the
same object. -/
def Fresh (base : Nat) (h : HoF G α) : Prop :=
  base ≤ h.next ∧ (∀ it ∈ h.items, base ≤ it.oid ∧ it.oid < h.next) ∧ (h.items.map (·.oid)).Nodup

/-- Every member equals (up to identity) an individual of `seen`. -/
def Origin (seen : List (Ind G α)) (h : HoF G α) : Prop := ∀ it ∈ h.items, ∃ x ∈ seen, same it x

/-- Structural invariant: needs no hypothesis on the similarity operator. -/
structure Str (base : Nat) (seen : List (Ind G α)) (h : HoF G α) : Prop where
  mirror : Mirror h
  asc : Asc h.keys
  fresh : Fresh base h
  origin : Origin seen h

theorem str_empty (m base : Nat) : Str base ([] : List (Ind G α)) (empty m base : HoF G α) :=
  ⟨rfl, List.Pairwise.nil, ⟨Nat.le_refl _, by simp [empty], by simp [empty]⟩, by simp [Origin, empty]⟩

theorem Str.mono {base : Nat} {seen seen' : List (Ind G α)} {h : HoF G α} (hs : Str base seen h)
    (hsub : ∀ x ∈ seen, x ∈ seen') : Str base seen' h :=
  ⟨hs.mirror, hs.asc, hs.fresh, fun it hit => let ⟨x, hx, e⟩ := hs.origin it hit; ⟨x, hsub x hx, e⟩⟩

/-- items best first, from the mirror and the ascending keys -/
theorem Str.sorted {base : Nat} {seen : List (Ind G α)} {h : HoF G α} (hs : Str base seen h) :
    h.items.Pairwise (fun a b => b.fit.wvalues ≤ a.fit.wvalues) := by
  have h1 := hs.asc
  rw [hs.mirror, Asc, List.pairwise_reverse, List.pairwise_map] at h1
  exact h1

/-! ### insert -/

theorem insert_items (h : HoF G α) (x : Ind G α) :
    (insert h x).items =
      Py.insertAt h.items (h.items.length - bisectRight h.keys x.fit) (copyInd h.next x) := rfl

theorem insert_keys (h : HoF G α) (x : Ind G α) :
    (insert h x).keys = Py.insertAt h.keys (bisectRight h.keys x.fit) x.fit := rfl

theorem insert_next (h : HoF G α) (x : Ind G α) : (insert h x).next = h.next + 1 := rfl
theorem insert_maxsize (h : HoF G α) (x : Ind G α) : (insert h x).maxsize = h.maxsize := rfl

theorem mem_insert (h : HoF G α) (x y : Ind G α) :
    y ∈ (insert h x).items ↔ y = copyInd h.next x ∨ y ∈ h.items := by
  rw [insert_items, mem_insertAt]

theorem length_insert (h : HoF G α) (x : Ind G α) : (insert h x).items.length = h.items.length + 1 := by
  rw [insert_items, length_insertAt]

theorem insert_str {base : Nat} {seen : List (Ind G α)} {h : HoF G α} (hs : Str base seen h)
    (x : Ind G α) (hx : x ∈ seen) : Str base seen (insert h x) := by
  have hlen := hs.mirror.length
  have hi := bisectRight_le h.keys x.fit
  have hbin := bisectRight_eq h.keys x.fit hs.asc
  refine ⟨?_, ?_, ?_, ?_⟩
  · -- mirror
    show (insert h x).keys = ((insert h x).items.map (·.fit)).reverse
    rw [insert_keys, insert_items, hbin, map_insertAt, reverse_insertAt _ _ _ (by simp), ← hs.mirror]
    have : (List.map (fun x => x.fit) h.items).length - (h.items.length - Py.bisectRight h.keys x.fit)
        = Py.bisectRight h.keys x.fit := by simp; omega
    rw [this]; rfl
  · rw [insert_keys, hbin]; exact asc_insert _ _ hs.asc
  · obtain ⟨f1, f2, f3⟩ := hs.fresh
    refine ⟨by rw [insert_next]; omega, ?_, ?_⟩
    · intro it hit
      rw [mem_insert] at hit
      rw [insert_next]
      rcases hit with rfl | hit
      · simp [copyInd]; omega
      · have := f2 it hit; omega
    · rw [insert_items, map_insertAt]
      apply pairwise_insertAt _ _ _ f3
      · intro o ho
        simp only [List.mem_map] at ho
        obtain ⟨it, hit, rfl⟩ := ho
        have := f2 it hit; simp [copyInd]; omega
      · intro o ho
        simp only [List.mem_map] at ho
        obtain ⟨it, hit, rfl⟩ := ho
        have := f2 it hit; simp [copyInd]; omega
  · intro it hit
    rw [mem_insert] at hit
    rcases hit with rfl | hit
    · exact ⟨x, hx, same_copy _ _⟩
    · exact hs.origin it hit

/-! ### remove -/

theorem pyIndex_spec (len : Nat) (index : Int) (j : Nat) (h : pyIndex len index = some j) :
    j < len ∧ (index % (len : Int)).toNat = j := by
  unfold pyIndex at h
  split at h
  · next h0 =>
    split at h
    · next h1 =>
      simp only [Option.some.injEq] at h
      have : index % (len : Int) = index := Int.emod_eq_of_lt h0 h1
      rw [this]; omega
    · simp at h
  · next h0 =>
    split at h
    · next h1 =>
      simp only [Option.some.injEq] at h
      have e : index % (len : Int) = (index + len) % len := by simp
      have : (index + len) % (len : Int) = index + len := Int.emod_eq_of_lt (by omega) (by omega)
      rw [e, this]; omega
    · simp at h

theorem remove_spec (h : HoF G α) (index : Int) (j : Nat) (hj : pyIndex h.items.length index = some j) :
    j < h.items.length ∧
    remove h index = some { h with keys := h.keys.eraseIdx (h.items.length - 1 - j),
                                   items := h.items.eraseIdx j } := by
  obtain ⟨h1, h2⟩ := pyIndex_spec _ _ _ hj
  refine ⟨h1, ?_⟩
  unfold remove
  have : h.items.length ≠ 0 := by omega
  simp only [this, ↓reduceIte, hj, h2, removeAt_eq_eraseIdx]
  congr 3
  omega

/-- the result of `remove` on an in-range position -/
def erased (h : HoF G α) (j : Nat) : HoF G α :=
  { h with keys := h.keys.eraseIdx (h.items.length - 1 - j), items := h.items.eraseIdx j }

theorem erased_str {base : Nat} {seen : List (Ind G α)} {h : HoF G α} (hs : Str base seen h)
    (j : Nat) (hj : j < h.items.length) : Str base seen (erased h j) := by
  have sub : (erased h j).items.Sublist h.items := List.eraseIdx_sublist _ _
  refine ⟨?_, ?_, ?_, ?_⟩
  · show (erased h j).keys = ((erased h j).items.map (·.fit)).reverse
    simp only [erased, map_eraseIdx']
    rw [reverse_eraseIdx _ _ (by simpa using hj), ← hs.mirror]; simp
  · exact List.Pairwise.sublist (List.eraseIdx_sublist _ _) hs.asc
  · obtain ⟨f1, f2, f3⟩ := hs.fresh
    exact ⟨f1, fun it hit => f2 it (sub.mem hit), List.Pairwise.sublist (sub.map _) f3⟩
  · intro it hit; exact hs.origin it (sub.mem hit)

theorem remove_nat (h : HoF G α) (j : Nat) (hj : j < h.items.length) :
    remove h (j : Int) = some (erased h j) := by
  have : pyIndex h.items.length (j : Int) = some j := by
    simp [pyIndex, hj]
  exact (remove_spec h _ _ this).2

theorem remove_neg_one (h : HoF G α) (hne : h.items ≠ []) :
    remove h (-1) = some (erased h (h.items.length - 1)) := by
  have hl : 0 < h.items.length := List.length_pos_iff.2 hne
  have : pyIndex h.items.length (-1) = some (h.items.length - 1) := by
    simp only [pyIndex]
    have h0 : ¬ (0 : Int) ≤ -1 := by omega
    have h1 : -(h.items.length : Int) ≤ -1 := by omega
    simp only [h0, ↓reduceIte, h1, Option.some.injEq]
    omega
  exact (remove_spec h _ _ this).2

theorem erased_last_items (h : HoF G α) (ys : List (Ind G α)) (w : Ind G α) (e : h.items = ys ++ [w]) :
    (erased h (h.items.length - 1)).items = ys := by
  simp only [erased, e, List.length_append, List.length_singleton, Nat.add_sub_cancel]
  exact eraseIdx_append_last ys w

/-! ### one iteration of `HallOfFame.update` -/

/-- The five ways an iteration can go (for capacity ≥ 1). -/
theorem step_cases (sim : Ind G α → Ind G α → Bool) (p0 ind : Ind G α) (h : HoF G α)
    (hm : 1 ≤ h.maxsize) (hp : h.items = [] → p0 = ind) :
    (h.items = [] ∧ step sim p0 h ind = some (insert h ind)) ∨
    (∃ ys w, h.items = ys ++ [w] ∧
      ((step sim p0 h ind = some h ∧ Fitness.gt ind.fit w.fit = false ∧ h.maxsize ≤ h.items.length) ∨
       (step sim p0 h ind = some h ∧ ∃ hofer ∈ h.items, sim ind hofer = true) ∨
       (step sim p0 h ind = some (insert h ind) ∧ h.items.length < h.maxsize ∧
          ∀ hofer ∈ h.items, sim ind hofer = false) ∨
       (step sim p0 h ind = some (insert (erased h (h.items.length - 1)) ind) ∧
          h.maxsize ≤ h.items.length ∧ Fitness.gt ind.fit w.fit = true ∧
          ∀ hofer ∈ h.items, sim ind hofer = false))) := by
  by_cases he : h.items = []
  · left
    refine ⟨he, ?_⟩
    have : h.maxsize ≠ 0 := by omega
    simp [step, he, this, hp he]
  · right
    have hl : h.items.length ≠ 0 := by simpa using he
    obtain ⟨w, hw⟩ : ∃ w, h.items.getLast? = some w := by
      cases hq : h.items.getLast? with
      | none => simp [List.getLast?_eq_none_iff] at hq; exact absurd hq he
      | some w => exact ⟨w, rfl⟩
    obtain ⟨ys, hys⟩ := List.getLast?_eq_some_iff.1 hw
    refine ⟨ys, w, hys, ?_⟩
    unfold step
    simp only [hl, false_and, ↓reduceIte, hw]
    by_cases hadm : (Fitness.gt ind.fit w.fit || decide (h.items.length < h.maxsize)) = true
    · simp only [hadm, ↓reduceIte]
      by_cases hsim : h.items.any (fun hofer => sim ind hofer) = true
      · right; left
        simp only [hsim, ↓reduceIte, true_and]
        simpa using hsim
      · have hns : ∀ hofer ∈ h.items, sim ind hofer = false := by
          simpa using hsim
        simp only [hsim, Bool.false_eq_true, ↓reduceIte]
        by_cases hfull : h.items.length ≥ h.maxsize
        · right; right; right
          simp only [hfull, ↓reduceIte, remove_neg_one h he, true_and]
          refine ⟨?_, hns⟩
          simp only [Bool.or_eq_true, decide_eq_true_eq] at hadm
          rcases hadm with hg | hlt
          · exact hg
          · omega
        · right; right; left
          simp only [hfull, ↓reduceIte, true_and]
          exact ⟨by omega, hns⟩
    · left
      simp only [hadm, Bool.false_eq_true, ↓reduceIte, true_and]
      simp only [Bool.or_eq_true, decide_eq_true_eq, not_or, Bool.not_eq_true, not_lt] at hadm
      exact ⟨hadm.1, hadm.2⟩

end C08L
