/-
C10 — helper lemmas of the TRANSLATOR TIE (`harness/py2lean_c10.py`, `GenEq/C10.lean.tmpl`).

The translator renders a Python `for` loop with in-place stores `ind[i] = …` as `Gen10.forM items state body`
(`Core/GenPreludeC10.lean`): the body reads and writes the state lists BY INDEX.  The hand-written model
(`Core/RealOps.lean`) walks the lists structurally.  The lemmas `*_forM` below are the bridge, proved once for every
loop shape of the model and for ANY body: if one iteration of the body at index `pre.length` on the state
`pre ++ x :: rest` does what one step of the model loop does, the whole indexed loop computes what the model loop
computes.  The committed theorems of the template only establish the one-iteration fact for the regenerated body
(`gen10_step`), at every scalar `α` — no Mathlib is needed.
-/
import DeapModel.Core.GenPreludeC10

set_option linter.unusedSimpArgs false
set_option linter.unusedVariables false

namespace GenL10
open RealOps Gen10

variable {α β γ ι σ : Type}

/-- the shape of an outcome -/
def omap (f : β → γ) : Outcome β → Outcome γ
  | .ok b => .ok (f b)
  | .indexError => .indexError
  | .zeroDivision => .zeroDivision
  | .badTape => .badTape

/-- an `Option` of the model's loops as an outcome (`none` = the tape was too short) -/
def ofOpt : Option β → Outcome β
  | some b => .ok b
  | none => .badTape

@[simp] theorem omap_ok (f : β → γ) (b : β) : omap f (.ok b) = .ok (f b) := rfl
@[simp] theorem omap_indexError (f : β → γ) : omap f .indexError = .indexError := rfl
@[simp] theorem omap_zeroDivision (f : β → γ) : omap f .zeroDivision = .zeroDivision := rfl
@[simp] theorem omap_badTape (f : β → γ) : omap f .badTape = .badTape := rfl
@[simp] theorem ofOpt_some (b : β) : ofOpt (some b) = .ok b := rfl
@[simp] theorem ofOpt_none : ofOpt (none : Option β) = .badTape := rfl

theorem ofOpt_ite (c : Prop) [Decidable c] (x y : Option β) :
    ofOpt (if c then x else y) = if c then ofOpt x else ofOpt y := by split <;> rfl
theorem map_ite (f : β → γ) (c : Prop) [Decidable c] (x y : Option β) :
    Option.map f (if c then x else y) = if c then Option.map f x else Option.map f y := by split <;> rfl

@[simp] theorem bind_ok (b : β) (f : β → Outcome γ) : Gen10.bind (.ok b) f = f b := rfl
@[simp] theorem bind_indexError (f : β → Outcome γ) : Gen10.bind .indexError f = .indexError := rfl
@[simp] theorem bind_zeroDivision (f : β → Outcome γ) : Gen10.bind .zeroDivision f = .zeroDivision := rfl
@[simp] theorem bind_badTape (f : β → Outcome γ) : Gen10.bind .badTape f = .badTape := rfl
@[simp] theorem bind_ok_right (x : Outcome β) : Gen10.bind x .ok = x := by cases x <;> rfl

@[simp] theorem draw_nil : Gen10.draw ([] : List α) = .badTape := rfl
@[simp] theorem draw_cons (x : α) (t : List α) : Gen10.draw (x :: t) = .ok (x, t) := rfl
@[simp] theorem pop_nil : pop ([] : List α) = none := rfl
@[simp] theorem pop_cons (x : α) (t : List α) : pop (x :: t) = some (x, t) := rfl

@[simp] theorem forM_nil (st : σ) (body : ι → σ → Outcome σ) : Gen10.forM [] st body = .ok st := rfl
theorem forM_cons (x : ι) (t : List ι) (st : σ) (body : ι → σ → Outcome σ) :
    Gen10.forM (x :: t) st body = Gen10.bind (body x st) fun st' => Gen10.forM t st' body := by
  cases h : body x st <;> simp [Gen10.forM, h]

@[simp] theorem enumFrom_nil (k : Nat) : Gen10.enumFrom k ([] : List β) = [] := rfl
@[simp] theorem enumFrom_cons (k : Nat) (a : β) (t : List β) :
    Gen10.enumFrom k (a :: t) = (k, a) :: Gen10.enumFrom (k + 1) t := rfl

@[simp] theorem getItem_at (pre : List β) (x : β) (t : List β) :
    Gen10.getItem (pre ++ x :: t) pre.length = .ok x := by
  simp [Gen10.getItem]

@[simp] theorem setItem_at (pre : List β) (x y : β) (t : List β) :
    Gen10.setItem (pre ++ x :: t) pre.length y = .ok (pre ++ y :: t) := by
  simp [Gen10.setItem]

theorem getItem_at' (pre : List β) (x : β) (t : List β) (k : Nat) (h : k = pre.length) :
    Gen10.getItem (pre ++ x :: t) k = .ok x := by subst h; simp

theorem setItem_at' (pre : List β) (x y : β) (t : List β) (k : Nat) (h : k = pre.length) :
    Gen10.setItem (pre ++ x :: t) k y = .ok (pre ++ y :: t) := by subst h; simp

theorem getItem_beyond (l : List β) (k : Nat) (h : l.length ≤ k) : Gen10.getItem l k = .indexError := by
  simp [Gen10.getItem, List.getElem?_eq_none h]

theorem snoc_append (pre : List β) (y : β) (t : List β) : pre ++ y :: t = (pre ++ [y]) ++ t := by simp

/-! ### the loop shapes of the model -/

section
variable [RealLike α]

/-- `pairLoop f` (cxBlend, cxSimulatedBinary): `for i, (x1, x2) in enumerate(zip(ind1, ind2))` -/
theorem pairLoop_forM (f : α → α → α → α × α)
    (body : Nat × α × α → List α × List α × List α → Outcome (List α × List α × List α))
    (hbody : ∀ (pre1 pre2 : List α) (x1 x2 : α) (a b rs : List α), pre1.length = pre2.length →
      body (pre1.length, x1, x2) (pre1 ++ x1 :: a, pre2 ++ x2 :: b, rs) =
        ofOpt ((pop rs).map fun p => (pre1 ++ (f x1 x2 p.1).1 :: a, pre2 ++ (f x1 x2 p.1).2 :: b, p.2))) :
    ∀ (a b pre1 pre2 rs : List α), pre1.length = pre2.length →
      Gen10.forM (Gen10.enumFrom pre1.length (List.zip a b)) (pre1 ++ a, pre2 ++ b, rs) body =
        ofOpt ((pairLoop f a b rs).map fun r => (pre1 ++ r.1, pre2 ++ r.2.1, r.2.2)) := by
  intro a
  induction a with
  | nil => intro b pre1 pre2 rs _; cases b <;> simp [pairLoop]
  | cons x1 a ih =>
    intro b pre1 pre2 rs hl
    cases b with
    | nil => simp [pairLoop]
    | cons x2 b =>
      simp only [List.zip_cons_cons, enumFrom_cons, forM_cons, hbody _ _ _ _ _ _ _ hl]
      cases rs with
      | nil => simp [pairLoop]
      | cons r rs =>
        have := ih b (pre1 ++ [(f x1 x2 r).1]) (pre2 ++ [(f x1 x2 r).2]) rs (by simp [hl])
        simp only [List.length_append, List.length_singleton, List.append_assoc, List.singleton_append,
          List.length_cons, List.length_nil] at this
        simp only [pop_cons, Option.map_some, ofOpt_some, bind_ok, this, pairLoop]
        cases pairLoop f a b rs <;> simp

/-- `cxSBXBLoop` (cxSimulatedBinaryBounded): `for i, xl, xu in zip(range(size), low, up)`, `size = min(len, len)` -/
theorem sbxbLoop_forM (eta : α)
    (body : Nat × α × α → List α × List α × List α → Outcome (List α × List α × List α))
    (hbody : ∀ (pre1 pre2 : List α) (x1 x2 xl xu : α) (a b rs : List α), pre1.length = pre2.length →
      body (pre1.length, xl, xu) (pre1 ++ x1 :: a, pre2 ++ x2 :: b, rs) =
        ofOpt ((sbxbGene eta x1 x2 xl xu rs).map fun r => (pre1 ++ r.1 :: a, pre2 ++ r.2.1 :: b, r.2.2))) :
    ∀ (a b lo up pre1 pre2 rs : List α), pre1.length = pre2.length →
      Gen10.forM (List.zip (List.range' pre1.length (min a.length b.length)) (List.zip lo up)) (pre1 ++ a, pre2 ++ b, rs) body =
        ofOpt ((cxSBXBLoop eta a b lo up rs).map fun r => (pre1 ++ r.1, pre2 ++ r.2.1, r.2.2)) := by
  intro a
  induction a with
  | nil => intro b lo up pre1 pre2 rs _; simp [cxSBXBLoop]
  | cons x1 a ih =>
    intro b lo up pre1 pre2 rs hl
    cases b with
    | nil => simp [cxSBXBLoop]
    | cons x2 b =>
      cases lo with
      | nil => simp [cxSBXBLoop]
      | cons xl lo =>
        cases up with
        | nil => simp [cxSBXBLoop]
        | cons xu up =>
          have hm : min (x1 :: a).length (x2 :: b).length = min a.length b.length + 1 := by
            simp only [List.length_cons]; omega
          simp only [hm, List.range'_succ, List.zip_cons_cons, forM_cons, hbody _ _ _ _ _ _ _ _ _ hl, cxSBXBLoop]
          cases hg : sbxbGene eta x1 x2 xl xu rs with
          | none => simp
          | some r =>
            obtain ⟨y1, y2, rs'⟩ := r
            have := ih b lo up (pre1 ++ [y1]) (pre2 ++ [y2]) rs' (by simp [hl])
            simp only [List.length_append, List.length_singleton, List.append_assoc, List.singleton_append,
              List.length_cons, List.length_nil] at this
            simp only [Option.map_some, ofOpt_some, bind_ok, this]
            cases cxSBXBLoop eta a b lo up rs' <;> simp

/-- one locus of `polyLoop` -/
def polyStep (eta indpb x xl xu : α) (rs : List α) : Option (α × List α) :=
  match pop rs with
  | none => none
  | some (g, rs) =>
    if g ≤ indpb then
      match pop rs with
      | none => none
      | some (rand, rs) => some (polyGene eta x xl xu rand, rs)
    else some (x, rs)

theorem polyLoop_cons (eta indpb x xl xu : α) (xs lo up rs : List α) :
    polyLoop eta indpb (x :: xs) (xl :: lo) (xu :: up) rs =
      (polyStep eta indpb x xl xu rs).bind fun p => (polyLoop eta indpb xs lo up p.2).map fun r => (p.1 :: r.1, r.2) := by
  cases rs with
  | nil => simp [polyLoop, polyStep]
  | cons g rs =>
    simp only [polyLoop, polyStep, pop_cons]
    split
    · cases rs with
      | nil => simp
      | cons rand rs => simp only [pop_cons, Option.bind_some]; cases polyLoop eta indpb xs lo up rs <;> simp
    · simp only [Option.bind_some]; cases polyLoop eta indpb xs lo up rs <;> simp

/-- `polyLoop` (mutPolynomialBounded): `for i, xl, xu in zip(range(size), low, up)`, `size = len(individual)` -/
theorem polyLoop_forM (eta indpb : α)
    (body : Nat × α × α → List α × List α → Outcome (List α × List α))
    (hbody : ∀ (pre : List α) (x xl xu : α) (xs rs : List α),
      body (pre.length, xl, xu) (pre ++ x :: xs, rs) =
        ofOpt ((polyStep eta indpb x xl xu rs).map fun r => (pre ++ r.1 :: xs, r.2))) :
    ∀ (xs lo up pre rs : List α),
      Gen10.forM (List.zip (List.range' pre.length xs.length) (List.zip lo up)) (pre ++ xs, rs) body =
        ofOpt ((polyLoop eta indpb xs lo up rs).map fun r => (pre ++ r.1, r.2)) := by
  intro xs
  induction xs with
  | nil => intro lo up pre rs; simp [polyLoop]
  | cons x xs ih =>
    intro lo up pre rs
    cases lo with
    | nil => simp [polyLoop]
    | cons xl lo =>
      cases up with
      | nil => simp [polyLoop]
      | cons xu up =>
        simp only [List.length_cons, List.range'_succ, List.zip_cons_cons, forM_cons, hbody, polyLoop_cons]
        cases hg : polyStep eta indpb x xl xu rs with
        | none => simp
        | some r =>
          obtain ⟨y, rs'⟩ := r
          have := ih lo up (pre ++ [y]) rs'
          simp only [List.length_append, List.length_singleton, List.append_assoc, List.singleton_append,
            List.length_cons, List.length_nil] at this
          simp only [Option.map_some, ofOpt_some, bind_ok, this, Option.bind_some]
          cases polyLoop eta indpb xs lo up rs' <;> simp

/-- one locus of `gaussLoop` -/
def gaussStep (indpb x : α) (rs gs : List α) : Option (α × List α × List α) :=
  match pop rs with
  | none => none
  | some (g, rs) =>
    if g < indpb then
      match pop gs with
      | none => none
      | some (z, gs) => some (x + z, rs, gs)
    else some (x, rs, gs)

theorem gaussLoop_cons (indpb x m s : α) (xs mu sigma rs gs : List α) :
    gaussLoop indpb (x :: xs) (m :: mu) (s :: sigma) rs gs =
      (gaussStep indpb x rs gs).bind fun p =>
        (gaussLoop indpb xs mu sigma p.2.1 p.2.2).map fun r => (p.1 :: r.1, r.2.1, r.2.2) := by
  cases rs with
  | nil => simp [gaussLoop, gaussStep]
  | cons g rs =>
    simp only [gaussLoop, gaussStep, pop_cons]
    split
    · cases gs with
      | nil => simp
      | cons z gs => simp only [pop_cons, Option.bind_some]; cases gaussLoop indpb xs mu sigma rs gs <;> simp
    · simp only [Option.bind_some]; cases gaussLoop indpb xs mu sigma rs gs <;> simp

/-- `gaussLoop` (mutGaussian): `for i, m, s in zip(range(size), mu, sigma)` -/
theorem gaussLoop_forM (indpb : α)
    (body : Nat × α × α → List α × List α × List α → Outcome (List α × List α × List α))
    (hbody : ∀ (pre : List α) (x m s : α) (xs rs gs : List α),
      body (pre.length, m, s) (pre ++ x :: xs, rs, gs) =
        ofOpt ((gaussStep indpb x rs gs).map fun r => (pre ++ r.1 :: xs, r.2.1, r.2.2))) :
    ∀ (xs mu sigma pre rs gs : List α),
      Gen10.forM (List.zip (List.range' pre.length xs.length) (List.zip mu sigma)) (pre ++ xs, rs, gs) body =
        ofOpt ((gaussLoop indpb xs mu sigma rs gs).map fun r => (pre ++ r.1, r.2.1, r.2.2)) := by
  intro xs
  induction xs with
  | nil => intro mu sigma pre rs gs; simp [gaussLoop]
  | cons x xs ih =>
    intro mu sigma pre rs gs
    cases mu with
    | nil => simp [gaussLoop]
    | cons m mu =>
      cases sigma with
      | nil => simp [gaussLoop]
      | cons s sigma =>
        simp only [List.length_cons, List.range'_succ, List.zip_cons_cons, forM_cons, hbody, gaussLoop_cons]
        cases hg : gaussStep indpb x rs gs with
        | none => simp
        | some r =>
          obtain ⟨y, rs', gs'⟩ := r
          have := ih mu sigma (pre ++ [y]) rs' gs'
          simp only [List.length_append, List.length_singleton, List.append_assoc, List.singleton_append,
            List.length_cons, List.length_nil] at this
          simp only [Option.map_some, ofOpt_some, bind_ok, this, Option.bind_some]
          cases gaussLoop indpb xs mu sigma rs' gs' <;> simp

/-- `cxESBlendLoop` (cxESBlend): `for i, (x1, s1, x2, s2) in enumerate(zip(ind1, ind1.strategy, ind2, ind2.strategy))` -/
theorem esblendLoop_forM (alpha : α)
    (body : Nat × α × α × α × α → List α × List α × List α × List α × List α →
      Outcome (List α × List α × List α × List α × List α))
    (hbody : ∀ (p1 q1 p2 q2 : List α) (x1 s1 x2 s2 : α) (a sa b sb rs : List α),
      q1.length = p1.length → p2.length = p1.length → q2.length = p1.length →
      body (p1.length, x1, s1, x2, s2) (p1 ++ x1 :: a, q1 ++ s1 :: sa, p2 ++ x2 :: b, q2 ++ s2 :: sb, rs) =
        ofOpt ((pop rs).bind fun r => (pop r.2).map fun q =>
          (p1 ++ (blendPair alpha x1 x2 r.1).1 :: a, q1 ++ (blendPair alpha s1 s2 q.1).1 :: sa,
           p2 ++ (blendPair alpha x1 x2 r.1).2 :: b, q2 ++ (blendPair alpha s1 s2 q.1).2 :: sb, q.2))) :
    ∀ (a sa b sb p1 q1 p2 q2 rs : List α),
      q1.length = p1.length → p2.length = p1.length → q2.length = p1.length →
      Gen10.forM (Gen10.enumFrom p1.length (List.zip a (List.zip sa (List.zip b sb))))
          (p1 ++ a, q1 ++ sa, p2 ++ b, q2 ++ sb, rs) body =
        ofOpt ((cxESBlendLoop alpha a sa b sb rs).map fun r =>
          (p1 ++ r.1, q1 ++ r.2.1, p2 ++ r.2.2.1, q2 ++ r.2.2.2.1, r.2.2.2.2)) := by
  intro a
  induction a with
  | nil => intro sa b sb p1 q1 p2 q2 rs _ _ _; simp [cxESBlendLoop]
  | cons x1 a ih =>
    intro sa b sb p1 q1 p2 q2 rs h1 h2 h3
    cases sa with
    | nil => simp [cxESBlendLoop]
    | cons s1 sa =>
      cases b with
      | nil => simp [cxESBlendLoop]
      | cons x2 b =>
        cases sb with
        | nil => simp [cxESBlendLoop]
        | cons s2 sb =>
          simp only [List.zip_cons_cons, enumFrom_cons, forM_cons, hbody _ _ _ _ _ _ _ _ _ _ _ _ _ h1 h2 h3]
          cases rs with
          | nil => simp [cxESBlendLoop]
          | cons r rs =>
            cases rs with
            | nil => simp [cxESBlendLoop]
            | cons q rs =>
              have := ih sa b sb (p1 ++ [(blendPair alpha x1 x2 r).1]) (q1 ++ [(blendPair alpha s1 s2 q).1])
                (p2 ++ [(blendPair alpha x1 x2 r).2]) (q2 ++ [(blendPair alpha s1 s2 q).2]) rs
                (by simp [h1]) (by simp [h2]) (by simp [h3])
              simp only [List.length_append, List.length_singleton, List.append_assoc, List.singleton_append,
                List.length_cons, List.length_nil] at this
              simp only [pop_cons, Option.bind_some, Option.map_some, ofOpt_some, bind_ok, this, cxESBlendLoop]
              cases cxESBlendLoop alpha a sa b sb rs <;> simp

/-- the bounds after `if not isinstance(b, Sequence): b = repeat(b, size) elif len(b) < size: raise IndexError` -/
theorem expand_scalar (v : α) (n : Nat) : (Bound.scalar v).expand n = some (List.replicate n v) := rfl
theorem expand_seq (l : List α) (n : Nat) : (Bound.seq l).expand n = if l.length < n then none else some l := rfl

end
end GenL10

/-- one iteration of a regenerated loop body against one step of the model (after `cases` on the tapes): unfold the
body, evaluate the draws and the indexed reads / stores at the current locus (`hs` : the facts `k = pre.length` about
the index), then compare the arithmetic syntactically -/
syntax "gen10_step " ident (ppSpace colGt term:max)* : tactic
macro_rules
  | `(tactic| gen10_step $f $hs*) => `(tactic|
      (first
        | rfl
        | (simp only [$f:ident, GenL10.bind_ok, GenL10.bind_badTape, GenL10.bind_indexError, GenL10.draw_nil,
              GenL10.draw_cons, GenL10.pop_nil, GenL10.pop_cons, GenL10.getItem_at, GenL10.setItem_at,
              GenL10.getItem_at', GenL10.setItem_at', GenL10.ofOpt_some, GenL10.ofOpt_none, Option.map_some,
              Option.map_none, GenL10.ofOpt_ite, GenL10.map_ite, $[$hs:term],*]
           <;> first | rfl | ((repeat' split) <;> first | rfl | contradiction | simp_all))))

/-- after the loop lemma has been rewritten in: the `if len(b) < size` guards and the shape of the model's outcome -/
macro "gen10_shape" : tactic => `(tactic|
  ((repeat' split) <;> first | rfl | simp_all))
