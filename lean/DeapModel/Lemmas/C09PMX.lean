/-
Helper lemmas for C09: partially matched crossovers (PMX, UPMX).
Invariant: the position table `p` and the individual `l` are mutually inverse bijections of
`{0..n-1}`; one loop body exchanges two positions of `l` and the two matching entries of `p`.
-/
import DeapModel.Lemmas.C09Basic

set_option linter.unusedSectionVars false
set_option linter.unusedSimpArgs false
set_option linter.unusedVariables false
set_option linter.unnecessarySeqFocus false

namespace C09L
open CrossMut

/-- `l[j]` as the model reads it -/
def g (l : List Nat) (j : Nat) : Nat := l[j]?.getD 0

theorem g_set (l : List Nat) (i a j : Nat) : g (l.set i a) j = if i = j ∧ i < l.length then a else g l j := by
  unfold g
  rw [List.getElem?_set]
  by_cases h : i = j
  · subst h
    by_cases h2 : i < l.length
    · simp [h2]
    · simp [h2, List.getElem?_eq_none (Nat.le_of_not_lt h2)]
  · simp [h]

theorem g_eq_getElem (l : List Nat) (j : Nat) (h : j < l.length) : g l j = l[j] := by
  unfold g; rw [List.getElem?_eq_getElem h]; rfl

/-- `l` and `p` are mutually inverse bijections of `{0..n-1}` -/
def Inv (n : Nat) (l p : List Nat) : Prop :=
  l.length = n ∧ p.length = n ∧ (∀ j < n, g l j < n ∧ g p (g l j) = j) ∧ (∀ v < n, g p v < n ∧ g l (g p v) = v)

theorem inv_swap (n : Nat) (l p l' p' : List Nat) (i o : Nat) (inv : Inv n l p) (hi : i < n) (ho : o < n)
    (hl' : l'.length = n) (hp' : p'.length = n)
    (hl : ∀ j, g l' j = if j = g p o then g l i else if j = i then o else g l j)
    (hp : ∀ v, g p' v = if v = o then i else if v = g l i then g p o else g p v) : Inv n l' p' := by
  obtain ⟨h1, h2, h3, h4⟩ := inv
  have hown := h3 i hi
  have hq := h4 o ho
  refine ⟨hl', hp', ?_, ?_⟩
  · intro j hj
    rw [hl j]
    by_cases c1 : j = g p o
    · simp only [c1, if_true]
      refine ⟨hown.1, ?_⟩
      rw [hp]
      by_cases c2 : g l i = o
      · simp only [c2, if_true]; rw [← c2, hown.2]
      · simp only [c2, if_false, if_true]
    · simp only [c1, if_false]
      by_cases c2 : j = i
      · simp only [c2, if_true]; refine ⟨ho, ?_⟩; rw [hp]; simp
      · simp only [c2, if_false]
        have hv := h3 j hj
        refine ⟨hv.1, ?_⟩
        rw [hp]
        have n1 : g l j ≠ o := fun e => c1 (by rw [← hv.2, e])
        have n2 : g l j ≠ g l i := fun e => c2 (by rw [← hv.2, e, hown.2])
        simp only [n1, n2, if_false]; exact hv.2
  · intro v hv
    rw [hp v]
    by_cases c1 : v = o
    · simp only [c1, if_true]
      refine ⟨hi, ?_⟩
      rw [hl]
      by_cases c2 : i = g p o
      · simp only [c2, if_true]; rw [← c2] at hq; rw [← c2]; exact hq.2
      · simp only [c2, if_false, if_true]
    · simp only [c1, if_false]
      by_cases c2 : v = g l i
      · simp only [c2, if_true]; refine ⟨hq.1, ?_⟩; rw [hl]; simp
      · simp only [c2, if_false]
        have hj := h4 v hv
        refine ⟨hj.1, ?_⟩
        rw [hl]
        have n1 : g p v ≠ g p o := fun e => c1 (by rw [← hj.2, e, hq.2])
        have n2 : g p v ≠ i := fun e => c2 (by rw [← hj.2, e])
        simp only [n1, n2, if_false]; exact hj.2

theorem swap_perm_g (n : Nat) (l p : List Nat) (i o : Nat) (inv : Inv n l p) (hi : i < n) (ho : o < n) :
    ((l.set i o).set (g p o) (g l i)).Perm l := by
  obtain ⟨h1, h2, h3, h4⟩ := inv
  have hq := h4 o ho
  have e1 : o = l[g p o]'(by omega) := by rw [← g_eq_getElem]; exact hq.2.symm
  have e2 : g l i = l[i]'(by omega) := g_eq_getElem l i (by omega)
  rw [e2]
  conv => lhs; arg 1; arg 3; rw [e1]
  exact set_set_perm l i (g p o) (by omega) (by omega)

theorem g_set' (l : List Nat) (i a j : Nat) (h : i < l.length) :
    g (l.set i a) j = if j = i then a else g l j := by
  rw [g_set]
  by_cases c : j = i
  · subst c; simp [h]
  · have : ¬ (i = j ∧ i < l.length) := fun hh => c hh.1.symm
    rw [if_neg this, if_neg c]

/-- first half of the loop body: `ind1[i], ind1[p1[temp2]] = temp2, temp1` and
`p1[temp1], p1[temp2] = p1[temp2], p1[temp1]` (`o = temp2`) -/
theorem pm_half1 (n : Nat) (l p : List Nat) (i o : Nat) (inv : Inv n l p) (hi : i < n) (ho : o < n) :
    Inv n ((l.set i o).set (g p o) (g l i)) ((p.set (g l i) (g p o)).set o (g p (g l i))) := by
  have inv' := inv
  obtain ⟨h1, h2, h3, h4⟩ := inv
  have hown := h3 i hi
  have hq := h4 o ho
  refine inv_swap n l p _ _ i o inv' hi ho (by simp [h1]) (by simp [h2]) ?_ ?_
  · intro j
    rw [g_set' _ _ _ _ (by simp only [List.length_set]; omega), g_set' _ _ _ _ (by omega)]
  · intro v
    rw [g_set' _ _ _ _ (by simp only [List.length_set]; omega), g_set' _ _ _ _ (by omega), hown.2]

/-- second half: `ind2[i], ind2[p2[temp1]] = temp1, temp2` and
`p2[temp1], p2[temp2] = p2[temp2], p2[temp1]` (`o = temp1`; the table is written in the other order) -/
theorem pm_half2 (n : Nat) (l p : List Nat) (i o : Nat) (inv : Inv n l p) (hi : i < n) (ho : o < n) :
    Inv n ((l.set i o).set (g p o) (g l i)) ((p.set o (g p (g l i))).set (g l i) (g p o)) := by
  have inv' := inv
  obtain ⟨h1, h2, h3, h4⟩ := inv
  have hown := h3 i hi
  have hq := h4 o ho
  refine inv_swap n l p _ _ i o inv' hi ho (by simp [h1]) (by simp [h2]) ?_ ?_
  · intro j
    rw [g_set' _ _ _ _ (by simp only [List.length_set]; omega), g_set' _ _ _ _ (by omega)]
  · intro v
    rw [g_set' _ _ _ _ (by simp only [List.length_set]; omega), g_set' _ _ _ _ (by omega), hown.2]
    by_cases c1 : v = o
    · by_cases c2 : v = g l i
      · rw [if_pos c2, if_pos c1]
        -- own = o, hence q = p[o] = p[own] = i
        rw [← c1, c2]; exact hown.2
      · rw [if_neg c2, if_pos c1, if_pos c1]
    · by_cases c2 : v = g l i
      · simp only [if_neg c1, if_pos c2]
      · simp only [if_neg c1, if_neg c2]

/-! ### the loop body on the whole state -/

/-- what the loops maintain: both (individual, table) pairs are mutually inverse and the
individuals are permutations of the parents `a`, `b` -/
def PMInv (n : Nat) (a b : List Nat) (s : PMState) : Prop :=
  Inv n s.ind1 s.p1 ∧ Inv n s.ind2 s.p2 ∧ s.ind1.Perm a ∧ s.ind2.Perm b

theorem pmStep_inv (n : Nat) (a b : List Nat) (s : PMState) (i : Nat) (hi : i < n) (h : PMInv n a b s) :
    PMInv n a b (pmStep s i) := by
  obtain ⟨i1, i2, q1, q2⟩ := h
  have t1 := (i1.2.2.1 i hi).1
  have t2 := (i2.2.2.1 i hi).1
  refine ⟨?_, ?_, ?_, ?_⟩
  · exact pm_half1 n s.ind1 s.p1 i (g s.ind2 i) i1 hi t2
  · exact pm_half2 n s.ind2 s.p2 i (g s.ind1 i) i2 hi t1
  · exact (swap_perm_g n s.ind1 s.p1 i (g s.ind2 i) i1 hi t2).trans q1
  · exact (swap_perm_g n s.ind2 s.p2 i (g s.ind1 i) i2 hi t1).trans q2

/-! ### the position tables -/

theorem foldl_pair {β₁ β₂ γ : Type} (f1 : β₁ → γ → β₁) (f2 : β₂ → γ → β₂) (l : List γ) (x : β₁) (y : β₂) :
    l.foldl (fun (p : β₁ × β₂) c => (f1 p.1 c, f2 p.2 c)) (x, y) = (l.foldl f1 x, l.foldl f2 y) := by
  induction l generalizing x y with
  | nil => rfl
  | cons c cs ih => simp only [List.foldl_cons]; exact ih _ _

/-- `p = [0]*n; for i in range(k): p[a[i]] = i` -/
def posTable (n : Nat) (a : List Nat) (k : Nat) : List Nat :=
  (List.range k).foldl (fun p i => p.set (g a i) i) (List.replicate n 0)

theorem pmInit_eq (n : Nat) (a b : List Nat) : pmInit n a b = (posTable n a n, posTable n b n) := by
  unfold pmInit posTable
  exact foldl_pair (fun (p : List Nat) (i : Nat) => p.set (g a i) i) (fun (p : List Nat) (i : Nat) => p.set (g b i) i) _ _ _

theorem posTable_succ (n : Nat) (a : List Nat) (k : Nat) :
    posTable n a (k + 1) = (posTable n a k).set (g a k) k := by
  unfold posTable
  rw [List.range_succ, List.foldl_append]
  rfl

theorem posTable_length (n : Nat) (a : List Nat) (k : Nat) : (posTable n a k).length = n := by
  induction k with
  | zero => simp [posTable]
  | succ k ih => rw [posTable_succ, List.length_set, ih]

/-- facts about a permutation of `0..n-1`, in the model's reading `g` -/
theorem perm_range_facts (n : Nat) (a : List Nat) (h : a.Perm (List.range n)) :
    a.length = n ∧ (∀ j < n, g a j < n) ∧ (∀ j < n, ∀ k < n, g a j = g a k → j = k) ∧
    (∀ v < n, ∃ j < n, g a j = v) := by
  have hlen : a.length = n := by simpa using h.length_eq
  have hnd : a.Nodup := h.nodup_iff.2 List.nodup_range
  refine ⟨hlen, ?_, ?_, ?_⟩
  · intro j hj
    rw [g_eq_getElem a j (by omega)]
    have : a[j] ∈ List.range n := h.subset (List.getElem_mem _)
    simpa using this
  · intro j hj k hk e
    rw [g_eq_getElem a j (by omega), g_eq_getElem a k (by omega)] at e
    exact (List.Nodup.getElem_inj_iff hnd).1 e
  · intro v hv
    have : v ∈ a := h.symm.subset (by simpa using hv)
    obtain ⟨j, hj, e⟩ := List.getElem_of_mem this
    exact ⟨j, by omega, by rw [g_eq_getElem a j hj]; exact e⟩

theorem posTable_spec (n : Nat) (a : List Nat) (h : a.Perm (List.range n)) (k : Nat) (hk : k ≤ n) :
    ∀ j < k, g (posTable n a k) (g a j) = j := by
  obtain ⟨hlen, hlt, hinj, _⟩ := perm_range_facts n a h
  induction k with
  | zero => intro j hj; omega
  | succ k ih =>
    intro j hj
    rw [posTable_succ, g_set' _ _ _ _ (by rw [posTable_length]; exact hlt k (by omega))]
    by_cases c : j = k
    · subst c; simp
    · have : g a j ≠ g a k := fun e => c (hinj j (by omega) k (by omega) e)
      rw [if_neg this]
      exact ih (by omega) j (by omega)

theorem inv_init (n : Nat) (a : List Nat) (h : a.Perm (List.range n)) : Inv n a (posTable n a n) := by
  obtain ⟨hlen, hlt, hinj, hsur⟩ := perm_range_facts n a h
  have hs := posTable_spec n a h n (Nat.le_refl n)
  refine ⟨hlen, posTable_length n a n, fun j hj => ⟨hlt j hj, hs j hj⟩, ?_⟩
  intro v hv
  obtain ⟨j, hj, e⟩ := hsur v hv
  rw [← e, hs j hj]
  exact ⟨hj, rfl⟩

theorem pmInv_init (n : Nat) (a b : List Nat) (ha : a.Perm (List.range n)) (hb : b.Perm (List.range n)) :
    PMInv n a b ⟨a, b, (pmInit n a b).1, (pmInit n a b).2⟩ := by
  rw [pmInit_eq]
  exact ⟨inv_init n a ha, inv_init n b hb, List.Perm.refl _, List.Perm.refl _⟩

/-- a permutation of `0..n-1` passes the `IndexError` guard -/
theorem pmGenesOk_of_perm (n : Nat) (a b : List Nat) (ha : a.Perm (List.range n)) (hb : b.Perm (List.range n)) :
    pmGenesOk a b := by
  have la : a.length = n := by simpa using ha.length_eq
  have lb : b.length = n := by simpa using hb.length_eq
  unfold pmGenesOk
  simp only [la, lb, Nat.min_self]
  constructor
  · intro x hx
    have : x ∈ List.range n := ha.subset (List.mem_of_mem_take hx)
    simpa using this
  · intro x hx
    have : x ∈ List.range n := hb.subset (List.mem_of_mem_take hx)
    simpa using this

end C09L
