/-
C17 — helper lemmas about runs with hidden state (`Resume.HRun`, `DeapModel/Core/Resume.lean`).
-/
import DeapModel.Core.Resume

namespace Resume

section HRun
variable {V H B : Type}

theorem hrun_zero (r : HRun V H B) (s : V × H) : hrun r 0 s = s := rfl

theorem hrun_succ (r : HRun V H B) (n : Nat) (s : V × H) : hrun r (n + 1) s = hrun r n (r.step s) := rfl

theorem hrun_succ' (r : HRun V H B) (n : Nat) (s : V × H) : hrun r (n + 1) s = r.step (hrun r n s) := by
  induction n generalizing s with
  | zero => rfl
  | succ n ih => rw [hrun_succ, ih (r.step s), hrun_succ]

theorem hrun_add (r : HRun V H B) (a b : Nat) (s : V × H) : hrun r (a + b) s = hrun r b (hrun r a s) := by
  induction a generalizing s with
  | zero => simp [hrun]
  | succ a ih => rw [Nat.succ_add, hrun_succ, ih, hrun_succ]

/-- Under non-interference the visible component of a run does not depend on the hidden start value. -/
theorem hrun_fst_of_nonInterfering (r : HRun V H B) (hni : NonInterfering r) :
    ∀ n v h h', (hrun r n (v, h)).1 = (hrun r n (v, h')).1 := by
  intro n
  induction n with
  | zero => intro v h h'; rfl
  | succ n ih =>
    intro v h h'
    rw [hrun_succ, hrun_succ]
    have e : (r.step (v, h)).1 = (r.step (v, h')).1 := hni v h h'
    have e1 : r.step (v, h) = ((r.step (v, h)).1, (r.step (v, h)).2) := rfl
    have e2 : r.step (v, h') = ((r.step (v, h)).1, (r.step (v, h')).2) := by rw [e]
    rw [e1, e2]
    exact ih _ _ _

/-- A hidden component that no step changes keeps its value along a run. -/
theorem hrun_snd_of_hiddenConstant (r : HRun V H B) (hc : HiddenConstant r) :
    ∀ n s, (hrun r n s).2 = s.2 := by
  intro n
  induction n with
  | zero => intro s; rfl
  | succ n ih => intro s; rw [hrun_succ, ih, hc]

end HRun

end Resume
