/-
C14 helper lemmas: the realignment of the five per-parent lists in
`StrategyMultiObjective.update` (cma.py:503-550).  Core Lean only.
-/
import DeapModel.Core.CmaElitist

set_option linter.unusedSectionVars false
set_option linter.unusedVariables false
set_option linter.unusedSimpArgs false

namespace C14Align
open CmaElitist CmaElitist.MO

variable {α : Type} [RealLike α]

theorem pick_length {β : Type} (chosen : List (MInd α)) (g : MInd α → Option (Tmp α)) (f : Tmp α → β)
    (old : Nat → β) : (pick chosen (chosen.map g) f old).length = chosen.length := by
  simp [pick]

theorem pick_getElem? {β : Type} (chosen : List (MInd α)) (g : MInd α → Option (Tmp α)) (f : Tmp α → β)
    (old : Nat → β) (i : Nat) (hi : i < chosen.length) :
    (pick chosen (chosen.map g) f old)[i]? =
      some (match g chosen[i] with
        | some t => f t
        | none => old chosen[i].pidx) := by
  simp [pick, List.getElem?_map, List.getElem?_zip_eq_some, hi]
  rfl

theorem realign_lengths (s : State α) (chosen notChosen : List (MInd α)) :
    (realign s chosen notChosen).psucc.length = chosen.length ∧
    (realign s chosen notChosen).sigmas.length = chosen.length := by
  dsimp only [realign]; exact ⟨pick_length _ _ _ _, pick_length _ _ _ _⟩

/-- One in-place adjustment seen from index `j`: only the entries at `j` can change, and they
change by the scalar success / failure rule. -/
def adjScalar (p : Params α) (succ : Bool) (ps sg : α) : α × α :=
  let psj := if succ then (1 - p.cp) * ps + p.cp else (1 - p.cp) * ps
  (psj, sg * RealLike.exp ((psj - p.ptarg) / (p.d * (1 - p.ptarg))))

/-- The fold of `adjScalar` over the offspring of parent `j` in a list of (individual, chosen?)
pairs. -/
def adjFold (p : Params α) (j : Nat) (l : List (MInd α × Bool)) (init : α × α) : α × α :=
  l.foldl (fun acc it => if it.1.off = true ∧ it.1.pidx = j then adjScalar p it.2 acc.1 acc.2 else acc) init

/-- The list-level fold of `adjustAll`. -/
def adjLists (p : Params α) (l : List (MInd α × Bool)) (init : List α × List α) : List α × List α :=
  l.foldl (fun acc it => if it.1.off = true then adjustParent p it.2 acc it.1.pidx else acc) init

theorem adjustAll_eq (p : Params α) (chosen notChosen : List (MInd α)) (psucc sigmas : List α) :
    adjustAll p chosen notChosen psucc sigmas =
      adjLists p (chosen.map (fun c => (c, true)) ++ notChosen.map (fun c => (c, false))) (psucc, sigmas) := by
  simp [adjustAll, adjLists, List.foldl_append, List.foldl_map]

theorem getD_set (l : List α) (k j : Nat) (v d : α) (hj : j < l.length) :
    (l.set k v).getD j d = if k = j then v else l.getD j d := by
  simp only [List.getD_eq_getElem?_getD, List.getElem?_set]
  by_cases h : k = j
  · subst h; simp [hj]
  · simp [h]

theorem adjLists_spec (p : Params α) (j : Nat) :
    ∀ (l : List (MInd α × Bool)) (ps sg : List α), j < ps.length → j < sg.length →
      ((adjLists p l (ps, sg)).1.length = ps.length ∧ (adjLists p l (ps, sg)).2.length = sg.length) ∧
      ((adjLists p l (ps, sg)).1.getD j 0, (adjLists p l (ps, sg)).2.getD j 0) =
        adjFold p j l (ps.getD j 0, sg.getD j 0)
  | [], ps, sg, _, _ => by simp [adjLists, adjFold]
  | it :: l, ps, sg, h1, h2 => by
    simp only [adjLists, adjFold, List.foldl_cons]
    by_cases ho : it.1.off = true
    · simp only [ho, if_true, true_and]
      have ih := adjLists_spec p j l (adjustParent p it.2 (ps, sg) it.1.pidx).1
        (adjustParent p it.2 (ps, sg) it.1.pidx).2 (by simp [adjustParent, h1]) (by simp [adjustParent, h2])
      simp only [adjLists, adjFold] at ih
      refine ⟨by simpa [adjustParent] using ih.1, ?_⟩
      rw [ih.2]
      congr 1
      by_cases hk : it.1.pidx = j
      · subst hk
        simp only [adjustParent, adjScalar, if_true]
        rw [getD_set _ _ _ _ _ h1, getD_set _ _ _ _ _ h2]; simp
      · simp only [adjustParent, hk, if_false]
        rw [getD_set _ _ _ _ _ h1, getD_set _ _ _ _ _ h2]; simp [hk]
    · simp only [ho, if_false, false_and]
      exact adjLists_spec p j l ps sg h1 h2

/-! ### the `_ps` tags: `generate` overwrites the tag of every parent (cma.py:412-413) -/

theorem setTags_length (s : State α) (tags : List (Bool × Nat)) :
    (setTags s tags).parents.length = s.parents.length := by
  simp [setTags]

theorem retag_parents_length (s : State α) : (retag s).parents.length = s.parents.length := by
  simp [retag]

theorem retag_getElem (s : State α) (k : Nat) (hk : k < s.parents.length) :
    (retag s).parents[k]'(by rw [retag_parents_length]; exact hk) = { s.parents[k] with off := false, pidx := k } := by
  simp [retag]

/-- `generate` overwrites every tag: whatever tags the parents carried, the re-tagged state is the
same. -/
theorem retag_setTags (s : State α) (tags : List (Bool × Nat)) : retag (setTags s tags) = retag s := by
  have hp : (retag (setTags s tags)).parents = (retag s).parents := by
    apply List.ext_getElem
    · simp [retag, setTags]
    · intro i h1 h2
      have hi : i < s.parents.length := by simpa [retag] using h2
      simp only [retag, setTags, List.getElem_map, List.getElem_zipIdx, Nat.zero_add]
      cases tags[i]? <;> rfl
  show ({ (setTags s tags) with parents := (retag (setTags s tags)).parents } : State α) = _
  rw [hp]; rfl

theorem retag_getD_x (s : State α) (j : Nat) :
    ((retag s).parents.getD j ⟨0, [], [], false, 0⟩).x = (s.parents.getD j ⟨0, [], [], false, 0⟩).x := by
  by_cases hj : j < s.parents.length
  · have h2 : j < (retag s).parents.length := by rw [retag_parents_length]; exact hj
    rw [List.getD_eq_getElem?_getD, List.getD_eq_getElem?_getD, List.getElem?_eq_getElem h2,
      List.getElem?_eq_getElem hj, retag_getElem s j hj]
    rfl
  · have h2 : ¬ j < (retag s).parents.length := by rw [retag_parents_length]; exact hj
    simp [List.getD_eq_getElem?_getD, List.getElem?_eq_none (Nat.le_of_not_gt hj),
      List.getElem?_eq_none (Nat.le_of_not_gt h2)]

/-- The values an entering offspring receives do not read any parent tag. -/
theorem offspringTmp_retag (s : State α) (ind : MInd α) : offspringTmp (retag s) ind = offspringTmp s ind := by
  simp only [offspringTmp, retag_getD_x]
  rfl

end C14Align
