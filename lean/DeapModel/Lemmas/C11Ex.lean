/-
Fixtures for the `example`s of Props/C11.lean (a concrete strongly typed primitive set) — not property theorems.
-/
import DeapModel.Lemmas.C11TotalOps

namespace C11
open GpTree

/-! ### a concrete strongly typed set used by the `example`s: types 0 = `object`, 1 ⊇ 2 -/
def exSub : Nat → Nat → Bool := fun a b => a == b || b == 0 || (a == 2 && b == 1)
def pAdd : Prim := ⟨"add", 1, [1, 1], .prim, ""⟩
def pLt : Prim := ⟨"lt", 2, [1, 1], .prim, ""⟩
def pAnd : Prim := ⟨"and", 2, [2, 2], .prim, ""⟩
def pOne : Prim := ⟨"1", 1, [], .term, "1"⟩
def pTrue : Prim := ⟨"True", 2, [], .term, "True"⟩
def pEph : Prim := ⟨"E", 1, [], .eph, "7"⟩
def exPs : Pset :=
  ⟨exSub, fun τ => if τ = 1 then [pAdd, pLt, pAnd] else if τ = 2 then [pLt, pAnd] else [],
    fun τ => if τ = 1 then [pOne, pTrue, pEph] else if τ = 2 then [pTrue] else [], 1, 3, 3⟩

theorem exSub_refl : ∀ a, exSub a a = true := by intro a; simp [exSub]
theorem exSub_trans : ∀ a b c, exSub a b = true → exSub b c = true → exSub a c = true := by
  intro a b c; simp [exSub]; omega
theorem exPs_ok : PsetOK exPs where
  refl := exSub_refl
  trans := exSub_trans
  prims_ok := by
    intro τ p hp
    simp only [exPs] at hp ⊢
    split at hp
    · subst τ; simp at hp; rcases hp with rfl | rfl | rfl <;> decide
    · split at hp
      · subst τ; simp at hp; rcases hp with rfl | rfl <;> decide
      · simp at hp
  terms_ok := by
    intro τ p hp
    simp only [exPs] at hp ⊢
    split at hp
    · subst τ; simp at hp; rcases hp with rfl | rfl | rfl <;> decide
    · split at hp
      · subst τ; simp at hp; subst hp; decide
      · simp at hp

theorem ex_ty3 : typed exSub [1] [pAdd, pOne, pOne] = true := by decide
theorem ex_ty5 : typed exSub [1] [pAdd, pTrue, pAdd, pOne, pOne] = true := by decide

theorem exPs_full : PsetFull exPs (fun τ => τ = 1 ∨ τ = 2) 2 where
  terms_ne := by intro τ h; rcases h with rfl | rfl <;> simp [exPs]
  prims_ne := by intro τ h; rcases h with rfl | rfl <;> simp [exPs]
  closed := by
    intro τ h p hp
    rcases h with rfl | rfl <;> simp [exPs] at hp
    · rcases hp with rfl | rfl | rfl <;> simp [pAdd, pLt, pAnd]
    · rcases hp with rfl | rfl <;> simp [pLt, pAnd]


end C11
