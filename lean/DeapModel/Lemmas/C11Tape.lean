/-
Helper lemmas for C11: what the tape primitives return (results, consumed draws, faults).
-/
import DeapModel.Core.GpTree

namespace GpTree

/-- the only faults of a well-behaved call: an ill-typed tape, or a tape shorter than `n` -/
def Benign {α : Type} (n : Nat) (tp : Tape) : R α → Prop
  | .ok _ => True
  | .error .mismatch => True
  | .error .tapeEnd => tp.length < n
  | .error _ => False

theorem total_of_benign {α : Type} {n : Nat} {tp : Tape} {r : R α} (h : Benign n tp r)
    (hlen : n ≤ tp.length) (hty : r ≠ .error .mismatch) : ∃ x, r = .ok x := by
  cases r with
  | ok x => exact ⟨x, rfl⟩
  | error e => cases e <;> simp [Benign] at h hty ⊢ <;> omega

theorem Benign.mono {α : Type} {n m : Nat} {tp : Tape} {r : R α} (h : Benign n tp r) (hnm : n ≤ m) :
    Benign m tp r := by
  cases r with
  | ok x => trivial
  | error e => cases e <;> simp [Benign] at h ⊢ <;> omega

/-- a tape fault of a primitive: end of tape (then the tape is empty) or a mismatching draw -/
def TapeFault (tp : Tape) (e : Fault) : Prop := (e = .tapeEnd ∧ tp = []) ∨ e = .mismatch

theorem popChoice_ok {α : Type} {seq : List α} {tp tp' : Tape} {x : α}
    (h : popChoice seq tp = .ok (x, tp')) : x ∈ seq ∧ tp.length = tp'.length + 1 := by
  unfold popChoice at h
  split at h
  · simp at h
  · split at h
    · simp at h
    · split at h
      · split at h
        · rename_i hx
          simp at h; obtain ⟨rfl, rfl⟩ := h
          exact ⟨List.mem_of_getElem? hx, by simp⟩
        · simp at h
      · simp at h
    · simp at h

theorem popChoice_mem {α : Type} {seq : List α} {tp tp' : Tape} {x : α}
    (h : popChoice seq tp = .ok (x, tp')) : x ∈ seq := (popChoice_ok h).1

theorem popChoice_err {α : Type} {seq : List α} {tp : Tape} {e : Fault} (hne : seq ≠ [])
    (h : popChoice seq tp = .error e) : TapeFault tp e := by
  unfold popChoice at h
  split at h
  · rename_i he; simp at he; exact absurd he hne
  · split at h
    · simp at h; exact Or.inl ⟨h.symm, rfl⟩
    · split at h
      · split at h
        · simp at h
        · simp at h; exact Or.inr h.symm
      · simp at h; exact Or.inr h.symm
    · simp at h; exact Or.inr h.symm

theorem popRange_ok {a b x : Nat} {tp tp' : Tape} (h : popRange a b tp = .ok (x, tp')) :
    a ≤ x ∧ x < b ∧ tp.length = tp'.length + 1 := by
  unfold popRange at h
  split at h
  · simp at h
  · split at h
    · simp at h
    · split at h
      · rename_i hc; simp at h; obtain ⟨rfl, rfl⟩ := h; exact ⟨hc.2.2.1, hc.2.2.2, by simp⟩
      · simp at h
    · simp at h

theorem popRange_err {a b : Nat} {tp : Tape} {e : Fault} (hab : a < b)
    (h : popRange a b tp = .error e) : TapeFault tp e := by
  unfold popRange at h
  split at h
  · rename_i hn; exact absurd hab hn
  · split at h
    · simp at h; exact Or.inl ⟨h.symm, rfl⟩
    · split at h
      · simp at h
      · simp at h; exact Or.inr h.symm
    · simp at h; exact Or.inr h.symm

theorem popRnd_ok {x : Float} {tp tp' : Tape} (h : popRnd tp = .ok (x, tp')) : tp.length = tp'.length + 1 := by
  unfold popRnd at h
  split at h
  · simp at h
  · simp at h; obtain ⟨_, rfl⟩ := h; simp
  · simp at h

theorem popRnd_err {tp : Tape} {e : Fault} (h : popRnd tp = .error e) : TapeFault tp e := by
  unfold popRnd at h
  split at h
  · simp at h; exact Or.inl ⟨h.symm, rfl⟩
  · simp at h
  · simp at h; exact Or.inr h.symm

theorem popPick_ok {common : List Nat} {τ : Nat} {tp tp' : Tape} (h : popPick common tp = .ok (τ, tp')) :
    tp.length = tp'.length + 1 := (popChoice_ok h).2

theorem popPick_err {common : List Nat} {tp : Tape} {e : Fault} (hne : common ≠ [])
    (h : popPick common tp = .error e) : TapeFault tp e := popChoice_err hne h

theorem instantiate_ok {p p' : Prim} {tp tp' : Tape} (h : instantiate p tp = .ok (p', tp')) :
    (p'.ret = p.ret ∧ p'.args = p.args ∧ p'.kind = p.kind ∧ p'.name = p.name) ∧
    tp'.length ≤ tp.length ∧ tp.length ≤ tp'.length + 1 := by
  unfold instantiate at h
  split at h
  · split at h
    · simp at h
    · simp at h; obtain ⟨rfl, rfl⟩ := h; simp
    · simp at h
  · simp at h; obtain ⟨rfl, rfl⟩ := h; simp

theorem instantiate_spec {p p' : Prim} {tp tp' : Tape} (h : instantiate p tp = .ok (p', tp')) :
    p'.ret = p.ret ∧ p'.args = p.args ∧ p'.kind = p.kind ∧ p'.name = p.name := (instantiate_ok h).1

theorem instantiate_err {p : Prim} {tp : Tape} {e : Fault} (h : instantiate p tp = .error e) : TapeFault tp e := by
  unfold instantiate at h
  split at h
  · split at h
    · simp at h; exact Or.inl ⟨h.symm, rfl⟩
    · simp at h
    · simp at h; exact Or.inr h.symm
  · simp at h

/-- a primitive's tape fault is benign for any positive bound -/
theorem TapeFault.benign {α : Type} {tp : Tape} {e : Fault} (h : TapeFault tp e) {n : Nat} (hn : 0 < n) :
    Benign (α := α) n tp (.error e) := by
  rcases h with ⟨rfl, rfl⟩ | rfl
  · simpa [Benign] using hn
  · simp [Benign]

/-- a fault met after `k` draws were consumed -/
theorem TapeFault.benign_after {α : Type} {tp tp' : Tape} {e : Fault} (h : TapeFault tp' e) {n k : Nat}
    (hk : tp.length ≤ tp'.length + k) (hn : k < n) : Benign (α := α) n tp (.error e) := by
  rcases h with ⟨rfl, rfl⟩ | rfl
  · simp [Benign] at hk ⊢; omega
  · simp [Benign]

/-- composing: the rest of the computation ran on `tp'` after `k` draws -/
theorem Benign.after {α β : Type} {tp tp' : Tape} {r : R α} {m k n : Nat} (h : Benign m tp' r)
    (hk : tp.length ≤ tp'.length + k) (hn : m + k ≤ n) (r' : R β)
    (hr : (∀ x, r = .ok x → ∃ y, r' = .ok y) ∧ (∀ e, r = .error e → r' = .error e)) : Benign n tp r' := by
  cases r with
  | ok x => obtain ⟨y, hy⟩ := hr.1 x rfl; rw [hy]; trivial
  | error e =>
    rw [hr.2 e rfl]
    cases e <;> simp [Benign] at h ⊢ <;> omega

end GpTree
