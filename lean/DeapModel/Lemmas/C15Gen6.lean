import DeapModel.Lemmas.C15Gen5
/-!
C15 — assembling the general case of `hvRecursive` (level `j + 1 ≥ 2`): helpers for the single-node branch,
and the level theorem.
-/
namespace HvSweep
open Hypervolume
set_option linter.unusedVariables false

/-- the other fields through a sequence of removals -/
theorem removeSeq_fields (C : Cargo) (k : ℕ) : ∀ (rs : List ℕ) (S : St),
    (removeSeq C k S rs).area = S.area ∧ (removeSeq C k S rs).volume = S.volume ∧
    (removeSeq C k S rs).ignore = S.ignore ∧
    ∀ i, k ≤ i → (removeSeq C k S rs).bounds.getD i none = S.bounds.getD i none
  | [], S => ⟨rfl, rfl, rfl, fun _ _ => rfl⟩
  | x :: rs, S => by
    rw [removeSeq_cons]
    obtain ⟨h1, h2, h3, h4⟩ := removeSeq_fields C k rs (remove C S x k)
    have hb := remove_bframe C x k S
    exact ⟨h1.trans hb.area, h2.trans hb.volume, h3.trans hb.ignore, fun i hi => (h4 i hi).trans (hb.bounds_ge i hi)⟩

/-- the product `∏_{i < m} (−cargo[i])` that l.164-166 writes into `area[0..dimIndex]` -/
def areaProd (C : Cargo) (q : ℕ) : ℕ → ℚ
  | 0 => 1
  | m + 1 => areaProd C q m * -(cg C q m)

/-- l.164-166 as a fold: afterwards `area[q][i] = ∏_{i' < i} (−cargo[i'])` for `i ≤ m`, nothing else changed -/
theorem foldl_setAr_spec {dims n : ℕ} (C : Cargo) (q : ℕ) (hq : q ≤ n) : ∀ (m : ℕ) (S : St), m < dims → TShape dims n S →
    let T := (List.range m).foldl (fun S i => setAr S q (i + 1) (ar S q i * -(cg C q i))) (setAr S q 0 1)
    TShape dims n T ∧ T.next = S.next ∧ T.prev = S.prev ∧ T.volume = S.volume ∧ T.ignore = S.ignore ∧ T.bounds = S.bounds ∧
      (∀ i ≤ m, ar T q i = areaProd C q i) ∧ (∀ a i, (a ≠ q ∨ m < i) → ar T a i = ar S a i)
  | 0, S, hm, hS => by
    simp only [List.range_zero, List.foldl_nil]
    refine ⟨tshape_setAr hS _ _ _, rfl, rfl, rfl, rfl, rfl, ?_, ?_⟩
    · intro i hi
      have : i = 0 := by omega
      subst this
      exact ar_setAr_self' hS hq (by omega) 1
    · intro a i h
      apply ar_setAr_ne
      rcases h with h | h
      · exact Or.inl h
      · exact Or.inr (by omega)
  | m + 1, S, hm, hS => by
    obtain ⟨h1, h2, h3, h4, h5, h6, h7, h8⟩ := foldl_setAr_spec C q hq m S (by omega) hS
    simp only [List.range_succ, List.foldl_append, List.foldl_cons, List.foldl_nil]
    set T := (List.range m).foldl (fun S i => setAr S q (i + 1) (ar S q i * -(cg C q i))) (setAr S q 0 1) with hT
    refine ⟨tshape_setAr h1 _ _ _, h2, h3, h4, h5, h6, ?_, ?_⟩
    · intro i hi
      by_cases him : i = m + 1
      · subst him
        rw [ar_setAr_self' h1 hq hm, h7 m (le_refl _)]
        rfl
      · rw [ar_setAr_ne T q (m + 1) q i _ (Or.inr him)]
        exact h7 i (by omega)
    · intro a i h
      have hne : a ≠ q ∨ i ≠ m + 1 := by
        rcases h with h | h
        · exact Or.inl h
        · exact Or.inr (by omega)
      rw [ar_setAr_ne T q (m + 1) a i _ hne]
      apply h8
      rcases h with h | h
      · exact Or.inl h
      · exact Or.inr (by omega)

theorem tshape_of_fields_len {dims n : ℕ} {S T : St} (h : TShape dims n S) (h1 : T.area = S.area) (h2 : T.volume = S.volume)
    (h3 : T.ignore.length = n + 1) : TShape dims n T := by
  unfold TShape; rw [h1, h2]; exact ⟨h.1, h.2.1, h3⟩

section ctx
variable {C : Cargo} {dims n : ℕ} {O : ℕ → List ℕ} {pt : ℕ → List ℚ} {ref : List ℚ}

/-- the hypervolume of one node in the coordinates `0 .. i` is the product the code writes -/
theorem Hj_single_eq_areaProd (g : GCtx C dims n O pt ref) (a : ℕ) (ha : a ∈ ids n) :
    ∀ (i : ℕ), i < dims → Hj ref pt i [a] = areaProd C a (i + 1)
  | 0, hi => by
    have hx := g.le a ha 0 hi
    have hc := g.cgv a ha 0 hi
    unfold Hj
    have hrl : 0 < ref.length := by rw [g.hdims]; exact hi
    have hpl : 0 < (pt a).length := by rw [g.len a ha]; exact hi
    have href : ref.take 1 = [ref.getD 0 0] := by
      cases ref with
      | nil => simp at hrl
      | cons r t => rfl
    rw [href, List.map_cons, List.map_nil, hvCells_single]
    have hb : boxVol [ref.getD 0 0] (pt a) = ref.getD 0 0 - (pt a).getD 0 0 := by
      have e : (pt a).headD 0 = (pt a).getD 0 0 := by cases (pt a) <;> rfl
      simp only [boxVol, e]
      rcases lt_or_eq_of_le hx with h | h
      · rw [if_pos h]; ring
      · rw [if_neg (by rw [h]; exact lt_irrefl _), h]; ring
    rw [hb]
    simp only [areaProd]
    rw [hc]; ring
  | i + 1, hi => by
    rw [Hj_single_succ g i hi a ha, Hj_single_eq_areaProd g a ha i (by omega)]
    show _ = areaProd C a (i + 1) * -(cg C a (i + 1))
    rw [g.cgv a ha (i + 1) hi]; ring

theorem ig_congr_set {S : St} {A B : List ℕ} (h : ∀ a, a ∈ A ↔ a ∈ B) (hig : IG C O S A) : IG C O S B := by
  intro q hq hm
  obtain ⟨b, hb, hd⟩ := hig q ((h q).mpr hq) hm
  exact ⟨b, (h b).mp hb, hd⟩

/-- what is known after the reset loop of level `j + 1` -/
structure AfterReset (C : Cargo) (dims n : ℕ) (O : ℕ → List ℕ) (pt : ℕ → List ℚ) (ref : List ℚ) (j : ℕ) (A : List ℕ)
    (S₁ : St) : Prop where
  shape : Shape dims n S₁
  tshape : TShape dims n S₁
  nodup : A.Nodup
  sub : ∀ a ∈ A, a ∈ ids n
  lists : ∀ i ≤ j + 1, DL n S₁ i (RL O i A)
  cv : CV C ref pt O S₁ (j + 2) A
  ig : IG C O S₁ A
  zero_or_big : ∀ y ∈ A, ign S₁ y = 0 ∨ j + 1 ≤ ign S₁ y

/-- after the removal loop: the lists below the level hold the prefix `pre' ++ [q']`, with valid caches and sound marks -/
theorem after_removals (g : GCtx C dims n O pt ref) (j : ℕ) (hj1 : 1 ≤ j) (hj : j + 1 < dims) (A : List ℕ) (S₁ : St)
    (R : AfterReset C dims n O pt ref j A S₁) (pre' : List ℕ) (q' : ℕ) (rs : List ℕ)
    (hsplit : RL O (j + 1) A = pre' ++ q' :: rs.reverse) :
    Inv C dims n O pt ref (removeSeq C (j + 1) S₁ rs) j (pre' ++ [q']) ∧
      (∀ a, a ∈ pre' ++ [q'] ↔ a ∈ A ∧ a ∉ rs) ∧
      (∀ y ∈ rs, ign (removeSeq C (j + 1) S₁ rs) y = 0 ∨
        (j + 1 ≤ ign (removeSeq C (j + 1) S₁ rs) y ∧ ∃ b ∈ A, Dom C O (ign (removeSeq C (j + 1) S₁ rs) y) b y)) := by
  have hjd : j + 1 ≤ dims := by omega
  have hLnd : (RL O (j + 1) A).Nodup := RL_nodup g hj A
  have hLA : ∀ a, a ∈ RL O (j + 1) A ↔ a ∈ A := fun a => by
    rw [mem_RL]; exact ⟨fun h => h.2, fun h => ⟨(g.mem hj a).mpr (R.sub a h), h⟩⟩
  have hsplit' : RL O (j + 1) A = (pre' ++ [q']) ++ rs.reverse := by rw [hsplit]; simp
  have hnd_split := List.nodup_append.mp (hsplit' ▸ hLnd)
  have hrs_nd : rs.Nodup := List.nodup_reverse.mp hnd_split.2.1
  have hrsA : ∀ y ∈ rs, y ∈ A := fun y hy => (hLA y).mp (by rw [hsplit']; simp [hy])
  have hB : ∀ a, a ∈ pre' ++ [q'] ↔ a ∈ A ∧ a ∉ rs := by
    intro a
    rw [← hLA a]
    constructor
    · intro h
      exact ⟨by rw [hsplit']; exact List.mem_append_left _ h,
        fun h2 => hnd_split.2.2 a h a (List.mem_reverse.mpr h2) rfl⟩
    · rintro ⟨h1, h2⟩
      rw [hsplit'] at h1
      rcases List.mem_append.mp h1 with h | h
      · exact h
      · exact absurd (List.mem_reverse.mp h) h2
  have hBnd : (pre' ++ [q']).Nodup := hnd_split.1
  have hBsub : ∀ a ∈ pre' ++ [q'], a ∈ ids n := fun a ha => R.sub a ((hB a).mp ha).1
  have hw := wflt_of_lists g hjd R.nodup R.sub (fun i hi => R.lists i (by omega))
  obtain ⟨hS2, _, _, _, _⟩ := removeSeq_wf C hjd rs S₁ A R.shape hw hrs_nd hrsA
  obtain ⟨fa, fv, fi, fb⟩ := removeSeq_fields C (j + 1) rs S₁
  set S2 := removeSeq C (j + 1) S₁ rs with hS2def
  have hign2 : ∀ y, ign S2 y = ign S₁ y := fun y => ign_of_ignore fi y
  -- marks carry witnesses (from IG) and the big ones have their witness earlier in the list of the level
  have hwit : ∀ y ∈ A, 1 ≤ ign S₁ y → j + 1 ≤ ign S₁ y ∧ ∃ b ∈ A, Dom C O (ign S₁ y) b y := by
    intro y hy hm
    rcases R.zero_or_big y hy with h0 | hbig
    · omega
    · exact ⟨hbig, R.ig y hy hm⟩
  refine ⟨?_, hB, ?_⟩
  · exact
      { shape := hS2
        tshape := tshape_of_fields R.tshape fa fv fi
        nodup := hBnd
        sub := hBsub
        lists := by
          intro i hi
          have hd := removeSeq_dl C hjd (by omega : i < j + 1) rs S₁ A (RL O i A) R.shape hw (R.lists i (by omega)) hrs_nd hrsA
          rw [RL_diff g (by omega : i < dims) A (pre' ++ [q']) rs hB] at hd
          exact hd
        cv := by
          have h1 := cv_removeSeq g hjd rs S₁ A R.sub (fun y hy => R.sub y (hrsA y hy)) (cv_mono_level (by omega) R.cv)
          apply cv_congr_set _ h1
          intro a
          rw [List.mem_filter, hB a]
          simp
        ig := by
          intro y hy hm
          rw [hign2 y] at hm ⊢
          have hyA := ((hB y).mp hy).1
          obtain ⟨hbig, b, hbA, hdom⟩ := hwit y hyA hm
          refine ⟨b, ?_, hdom⟩
          -- b is earlier than y in the list of the level, hence still present
          have hbpos : pos O (j + 1) b < pos O (j + 1) y := hdom.2.2 (j + 1) (by omega) hbig
          obtain ⟨u, v, huv⟩ := List.append_of_mem hy
          have hsp : RL O (j + 1) A = u ++ y :: (v ++ rs.reverse) := by rw [hsplit', huv]; simp
          have := (mem_preSet_of_split g hj A R.sub u (v ++ rs.reverse) y hsp b).mp
            ((mem_preSet O (j + 1) A y b).mpr ⟨hbA, le_of_lt hbpos⟩)
          rw [huv]
          rcases List.mem_append.mp this with h | h
          · exact List.mem_append_left _ h
          · simp at h; exact absurd h hdom.1 }
  · intro y hy
    rw [hign2 y]
    rcases Nat.eq_zero_or_pos (ign S₁ y) with h0 | hpos
    · exact Or.inl h0
    · exact Or.inr (hwit y (hrsA y hy) hpos)

theorem ptrEq_of_fields {S T : St} (h1 : T.next = S.next) (h2 : T.prev = S.prev) : PtrEq S T := by
  intro i a
  unfold nx pv
  rw [h1, h2]
  exact ⟨rfl, rfl⟩

theorem preSet_single (O : ℕ → List ℕ) (i q b : ℕ) : b ∈ preSet O i [q] q ↔ b ∈ [q] := by
  rw [mem_preSet]
  constructor
  · exact fun h => h.1
  · intro h
    have : b = q := by simpa using h
    rw [this]; exact ⟨by simp, le_refl _⟩

/-- the start of the reinsertion loop when a single node is left (l.163-167) -/
theorem linv_start_single (g : GCtx C dims n O pt ref) (j : ℕ) (hj1 : 1 ≤ j) (hj : j + 1 < dims) (A : List ℕ) (S₁ : St)
    (R : AfterReset C dims n O pt ref j A S₁) (q' : ℕ) (rs : List ℕ)
    (hsplit : RL O (j + 1) A = [] ++ q' :: rs.reverse) :
    LInv C dims n O pt ref j A S₁
      (setVl ((List.range (j + 1)).foldl (fun S i => setAr S q' (i + 1) (ar S q' i * -(cg C q' i)))
        (setAr (removeSeq C (j + 1) S₁ rs) q' 0 1)) q' (j + 1) 0) [] q' rs.reverse 0 := by
  obtain ⟨inv2, hB, habs⟩ := after_removals g j hj1 hj A S₁ R [] q' rs hsplit
  obtain ⟨fa, fv, fi, fb⟩ := removeSeq_fields C (j + 1) rs S₁
  set S2 := removeSeq C (j + 1) S₁ rs with hS2
  have hq'A : q' ∈ A := ((hB q').mp (by simp)).1
  have hq'I := R.sub q' hq'A
  have hq'n : q' ≤ n := ((mem_ids n q').mp hq'I).2
  obtain ⟨t1, t2, t3, t4, t5, t6, t7, t8⟩ := foldl_setAr_spec (dims := dims) (n := n) C q' hq'n (j + 1) S2 hj inv2.tshape
  set Tf := (List.range (j + 1)).foldl (fun S i => setAr S q' (i + 1) (ar S q' i * -(cg C q' i))) (setAr S2 q' 0 1) with hTf
  have hfirst := caches_of_first g j hj A R.sub q' rs.reverse (by simpa using hsplit)
  have harq : ar Tf q' (j + 1) = ARv ref pt O j A q' := by
    rw [t7 (j + 1) (le_refl _), hfirst.1, Hj_single_eq_areaProd g q' hq'I j (by omega)]
  have hignT : ∀ y, ign (setVl Tf q' (j + 1) 0) y = ign S₁ y := by
    intro y
    have : ign (setVl Tf q' (j + 1) 0) y = ign Tf y := rfl
    rw [this, ign_of_ignore t5 y, ign_of_ignore fi y]
  exact
    { split := hsplit
      ptr := by
        rw [List.reverse_reverse]
        exact (ptrEq_of_fields t2 t3).trans (fun _ _ => ⟨rfl, rfl⟩)
      shape := shape_ptr_fields inv2.shape t2 t3
      tshape := tshape_setVl t1 _ _ _
      cv := by
        intro j' hj'1 hj'K a ha b hb hlt
        have haq : a = q' := by simpa using ha
        subst haq
        have hbS2 : S2.bounds.getD (j' + 1) none = some b := by
          have : (setVl Tf a (j + 1) 0).bounds = Tf.bounds := rfl
          rw [this, t6] at hb; exact hb
        obtain ⟨_, e2⟩ := inv2.cv j' hj'1 hj'K a (by simp) b hbS2 hlt
        constructor
        · have : ar (setVl Tf a (j + 1) 0) a (j' + 1) = ar Tf a (j' + 1) := rfl
          rw [this, t7 (j' + 1) (by omega), ← Hj_single_eq_areaProd g a hq'I j' (by omega)]
          unfold ARv
          exact (Hj_congr ref pt j' _ _ (fun b => by simpa using preSet_single O (j' + 1) a b)).symm
        · rw [vl_setVl_ne Tf a (j + 1) a (j' + 1) 0 (Or.inr (by omega)), vl_of_volume t4 a (j' + 1)]
          simpa using e2
      ig := by
        apply ig_frame (S := S2) _ inv2.ig
        intro a _
        have : ign (setVl Tf q' (j + 1) 0) a = ign Tf a := rfl
        rw [this, ign_of_ignore t5 a]
      absent := by
        intro y hy
        have hy' := habs y (List.mem_reverse.mp hy)
        rw [ign_of_ignore fi y] at hy'
        rw [hignT y]; exact hy'
      cache := by
        intro a ha
        have haq : a = q' := by simpa using ha
        subst haq
        refine ⟨?_, ?_⟩
        · have : ar (setVl Tf a (j + 1) 0) a (j + 1) = ar Tf a (j + 1) := rfl
          rw [this]; exact harq
        · rw [vl_setVl_self' t1 hq'n hj, hfirst.2]
      hvol := hfirst.2.symm
      f_ign := fun y _ _ => hignT y
      f_hi := by
        intro a i hi
        constructor
        · have : ar (setVl Tf q' (j + 1) 0) a i = ar Tf a i := rfl
          rw [this, t8 a i (Or.inr hi), ar_of_area fa a i]
        · rw [vl_setVl_ne Tf q' (j + 1) a i 0 (Or.inr (by omega)), vl_of_volume t4 a i, vl_of_volume fv a i]
      f_bhi := by
        intro i hi
        have : (setVl Tf q' (j + 1) 0).bounds = Tf.bounds := rfl
        rw [this, t6]; exact fb i (by omega) }

/-- the start of the reinsertion loop when the caches of the nodes below the bound are reused (l.152-162) -/
theorem linv_start_multi (g : GCtx C dims n O pt ref) (j : ℕ) (hj1 : 1 ≤ j) (hj : j + 1 < dims) (F : ℕ)
    (hrec : LevelOK C dims n O pt ref F j) (A : List ℕ) (S₁ : St)
    (R : AfterReset C dims n O pt ref j A S₁) (dA : List ℕ) (p0 q' : ℕ) (rs : List ℕ)
    (hsplit : RL O (j + 1) A = (dA ++ [p0]) ++ q' :: rs.reverse)
    (hstop : ∃ b, S₁.bounds.getD (j + 1) none = some b ∧ cg C q' (j + 1) ≤ b ∧ cg C p0 (j + 1) < b) :
    pv (removeSeq C (j + 1) S₁ rs) (j + 1) q' = p0 ∧
    ∃ T5, areaStep (hvRecursive C F j) (j + 1) ((dA ++ [p0]).length + 1) q' (removeSeq C (j + 1) S₁ rs) = some T5 ∧
      LInv C dims n O pt ref j A S₁
        (setVl T5 q' (j + 1) (vl (removeSeq C (j + 1) S₁ rs) p0 (j + 1) + ar (removeSeq C (j + 1) S₁ rs) p0 (j + 1) *
          (cg C q' (j + 1) - cg C p0 (j + 1)))) (dA ++ [p0]) q' rs.reverse
        (vl (removeSeq C (j + 1) S₁ rs) p0 (j + 1) + ar (removeSeq C (j + 1) S₁ rs) p0 (j + 1) *
          (cg C q' (j + 1) - cg C p0 (j + 1))) := by
  obtain ⟨inv2, hB, habs⟩ := after_removals g j hj1 hj A S₁ R (dA ++ [p0]) q' rs hsplit
  obtain ⟨fa, fv, fi, fb⟩ := removeSeq_fields C (j + 1) rs S₁
  have hjd : j + 1 ≤ dims := by omega
  have hLA : ∀ a, a ∈ RL O (j + 1) A ↔ a ∈ A := fun a => by
    rw [mem_RL]; exact ⟨fun h => h.2, fun h => ⟨(g.mem hj a).mpr (R.sub a h), h⟩⟩
  have hsplit3 : RL O (j + 1) A = dA ++ p0 :: q' :: rs.reverse := by rw [hsplit]; simp
  have hLnd : (RL O (j + 1) A).Nodup := RL_nodup g hj A
  have hnd_split := List.nodup_append.mp (hsplit ▸ hLnd)
  have hrs_nd : rs.Nodup := by
    have := (List.nodup_cons.mp hnd_split.2.1).2
    exact List.nodup_reverse.mp this
  have hrsA : ∀ y ∈ rs, y ∈ A := fun y hy => (hLA y).mp (by rw [hsplit]; simp [hy])
  have hq'A : q' ∈ A := (hLA q').mp (by rw [hsplit]; simp)
  have hq'n : q' ≤ n := ((mem_ids n q').mp (R.sub q' hq'A)).2
  have hq'pre : q' ∉ dA ++ [p0] := fun h => hnd_split.2.2 q' h q' (by simp) rfl
  have hp0A : p0 ∈ A := (hLA p0).mp (by rw [hsplit]; simp)
  have hw := wflt_of_lists g hjd R.nodup R.sub (fun i hi => R.lists i (by omega))
  obtain ⟨_, _, _, hgeS2, _⟩ := removeSeq_wf C hjd rs S₁ A R.shape hw hrs_nd hrsA
  set S2 := removeSeq C (j + 1) S₁ rs with hS2
  -- the list of the level is untouched
  have hsegL : Seg S₁ (j + 1) 0 ((dA ++ [p0]) ++ q' :: rs.reverse) 0 := by
    have := (R.lists (j + 1) (le_refl _)).1
    rw [hsplit] at this; exact this
  have hnode := seg_node S₁ (j + 1) (dA ++ [p0]) 0 q' rs.reverse 0 hsegL
  have hpv : pv S2 (j + 1) q' = p0 := by
    rw [(hgeS2 (j + 1) (le_refl _) q').2, hnode.1]; simp
  refine ⟨hpv, ?_⟩
  -- the caches of the nodes before q' are valid: they are strictly below the bound
  obtain ⟨b, hb, hqb, hp0b⟩ := hstop
  obtain ⟨hp1, _⟩ := pos_lt_of_split O (j + 1) (g.nodup hj) (RL O (j + 1) A) dA (q' :: rs.reverse) p0
    (RL_sublist O (j + 1) A) hsplit3
  have hvalid : ∀ a ∈ dA ++ [p0], ar S2 a (j + 1) = ARv ref pt O j A a ∧ vl S2 a (j + 1) = VOLv C ref pt O j A a := by
    intro a ha
    have haA : a ∈ A := (hLA a).mp (by rw [hsplit]; exact List.mem_append_left _ ha)
    have hale : cg C a (j + 1) ≤ cg C p0 (j + 1) := by
      rcases List.mem_append.mp ha with h | h
      · exact g.cg_le_of_pos hj ((g.mem hj p0).mpr (R.sub p0 hp0A)) ((g.mem hj a).mpr (R.sub a haA)) (le_of_lt (hp1 a h))
      · simp at h; rw [h]
    rw [ar_of_area fa a (j + 1), vl_of_volume fv a (j + 1)]
    exact R.cv j hj1 (by omega) a haA b hb (lt_of_le_of_lt hale hp0b)
  have hmark : ign S2 q' = 0 ∨ (j + 1 ≤ ign S2 q' ∧ ∃ b ∈ A, Dom C O (ign S2 q') b q') := by
    rw [ign_of_ignore fi q']
    rcases R.zero_or_big q' hq'A with h0 | hbig
    · exact Or.inl h0
    · exact Or.inr ⟨hbig, R.ig q' hq'A (by omega)⟩
  obtain ⟨T5, hstep, hpe5, inv5, har5, fign5, far5, fvl5, fb5⟩ :=
    area_step_ok g j hj1 hj F hrec A R.sub dA p0 q' rs.reverse hsplit3 S2 inv2 hpv (hvalid p0 (by simp)).1 hmark
  have hlen : (dA ++ [p0] ++ [q']).length = (dA ++ [p0]).length + 1 := by simp
  rw [hlen] at hstep
  refine ⟨T5, hstep, ?_⟩
  set hvol0 := vl S2 p0 (j + 1) + ar S2 p0 (j + 1) * (cg C q' (j + 1) - cg C p0 (j + 1)) with hhv0
  have hvol0_eq : hvol0 = VOLv C ref pt O j A q' := by
    rw [hhv0, (hvalid p0 (by simp)).1, (hvalid p0 (by simp)).2]
    exact (caches_step g j hj A R.sub dA rs.reverse p0 q' hsplit3).symm
  have hignT : ∀ y, y ∉ dA ++ [p0] ++ [q'] → y ≠ 0 → ign (setVl T5 q' (j + 1) hvol0) y = ign S₁ y := by
    intro y hy hy0
    have : ign (setVl T5 q' (j + 1) hvol0) y = ign T5 y := rfl
    rw [this, fign5 y hy hy0, ign_of_ignore fi y]
  exact
    { split := hsplit
      ptr := by
        rw [List.reverse_reverse]
        exact hpe5.trans (fun _ _ => ⟨rfl, rfl⟩)
      shape := inv5.shape
      tshape := tshape_setVl inv5.tshape _ _ _
      cv := cv_frame (S := T5) (fun _ _ _ => rfl)
        (fun a i hi => vl_setVl_ne T5 q' (j + 1) a i _ (Or.inr (by omega))) (fun _ _ => rfl) inv5.cv
      ig := ig_frame (S := T5) (fun _ _ => rfl) inv5.ig
      absent := by
        intro y hy
        have hyrs : y ∈ rs := List.mem_reverse.mp hy
        have hyB : y ∉ dA ++ [p0] ++ [q'] := fun h => ((hB y).mp h).2 hyrs
        have hy0 : y ≠ 0 := by have := ((mem_ids n y).mp (R.sub y (hrsA y hyrs))).1; omega
        have := habs y hyrs
        rw [ign_of_ignore fi y] at this
        rw [hignT y hyB hy0]; exact this
      cache := by
        intro a ha
        rcases List.mem_append.mp ha with h | h
        · have haq : a ≠ q' := fun e => hq'pre (e ▸ h)
          have e1 : ar (setVl T5 q' (j + 1) hvol0) a (j + 1) = ar S2 a (j + 1) :=
            far5 a (j + 1) (by omega) (Or.inl haq)
          have e2 : vl (setVl T5 q' (j + 1) hvol0) a (j + 1) = vl S2 a (j + 1) :=
            (vl_setVl_ne T5 q' (j + 1) a (j + 1) _ (Or.inl haq)).trans (fvl5 a (j + 1) (by omega))
          rw [e1, e2]; exact hvalid a h
        · have haq : a = q' := by simpa using h
          subst haq
          exact ⟨har5, by rw [vl_setVl_self' inv5.tshape hq'n hj, hvol0_eq]⟩
      hvol := hvol0_eq
      f_ign := by
        intro y hyA hy0
        exact hignT y (fun h => hyA ((hB y).mp h).1) hy0
      f_hi := by
        intro a i hi
        constructor
        · have : ar (setVl T5 q' (j + 1) hvol0) a i = ar T5 a i := rfl
          rw [this, far5 a i (by omega) (Or.inr (by omega)), ar_of_area fa a i]
        · rw [vl_setVl_ne T5 q' (j + 1) a i _ (Or.inr (by omega)), fvl5 a i (by omega), vl_of_volume fv a i]
      f_bhi := by
        intro i hi
        have : (setVl T5 q' (j + 1) hvol0).bounds = T5.bounds := rfl
        rw [this, fb5 i (by omega)]; exact fb i (by omega) }

/-- **the general case of `hvRecursive` at level `j + 1` meets the level interface**, given that level `j` does -/
theorem general_full (g : GCtx C dims n O pt ref) (j : ℕ) (hj1 : 1 ≤ j) (hj : j + 1 < dims) (F : ℕ) (hF : n + 1 ≤ F)
    (hrec : LevelOK C dims n O pt ref F j) (S : St) (A : List ℕ) (inv : Inv C dims n O pt ref S (j + 1) A)
    (hne : A ≠ []) :
    ∃ v S', general (hvRecursive C F j) C F (j + 1) A.length S = some (v, S') ∧
      Post C dims n O pt ref S S' (j + 1) A v := by
  have hperm := RL_perm g hj A inv.nodup inv.sub
  have hLlen : (RL O (j + 1) A).length = A.length := hperm.length_eq
  have hLne : RL O (j + 1) A ≠ [] := by
    intro h; rw [h] at hLlen; exact hne (List.length_eq_zero_iff.mp hLlen.symm)
  have hLA : ∀ a, a ∈ RL O (j + 1) A ↔ a ∈ A := fun a => hperm.mem_iff
  have hLnd : (RL O (j + 1) A).Nodup := RL_nodup g hj A
  obtain ⟨pre, q0, hL⟩ : ∃ pre q0, RL O (j + 1) A = pre ++ [q0] :=
    ⟨_, _, (List.dropLast_append_getLast hLne).symm⟩
  have hdk := inv.lists (j + 1) (le_refl _)
  have hLn : (RL O (j + 1) A).length ≤ n := dl_length_le hdk
  have hseg := hdk.1
  rw [hL] at hseg
  have hsp := (seg_append S (j + 1) pre 0 q0 [] 0).mp hseg
  have hq0 : pv S (j + 1) 0 = q0 := hsp.2.2
  unfold general
  rw [hq0]
  -- loop 1
  have hnd_q : (q0 :: pre).Nodup := by
    have := hLnd; rw [hL] at this
    exact (List.perm_append_comm (l₁ := pre) (l₂ := [q0])).nodup_iff.mp this
  have hmem_q : ∀ a, a ∈ q0 :: pre ↔ a ∈ A := by
    intro a; rw [← hLA a, hL]; simp [or_comm]
  obtain ⟨S1, r1, r2, r3, r4, r5, r6, r7, r8, r9⟩ := resetLoop_spec (dims := dims) (n := n) (j + 1) pre q0 S F hsp.1
    (by rw [hL] at hLn; simp at hLn; omega) inv.shape inv.tshape.2.2 hnd_q
    (fun a ha => by
      have := (mem_ids n a).mp (inv.sub a ((hmem_q a).mp ha))
      exact ⟨by omega, this.2⟩)
  rw [r1]
  dsimp only
  have hq0' : pv S1 (j + 1) 0 = q0 := by rw [(r2 (j + 1) 0).2]; exact hq0
  rw [hq0']
  have R : AfterReset C dims n O pt ref j A S1 :=
    { shape := r3
      tshape := tshape_of_fields_len inv.tshape r4 r5 r7
      nodup := inv.nodup
      sub := inv.sub
      lists := fun i hi => dl_ptrEq r2 (inv.lists i hi)
      cv := cv_frame (S := S) (fun a i _ => ar_of_area r4 a i) (fun a i _ => vl_of_volume r5 a i)
        (fun i _ => by rw [r6]) inv.cv
      ig := by
        intro y hy hm
        obtain ⟨h1, h2⟩ := r9 y ((hmem_q y).mpr hy)
        rcases Nat.lt_or_ge (ign S y) (j + 1) with hlt | hge
        · rw [h1 hlt] at hm; omega
        · rw [h2 hge] at hm ⊢; exact inv.ig y hy hm
      zero_or_big := by
        intro y hy
        obtain ⟨h1, h2⟩ := r9 y ((hmem_q y).mpr hy)
        rcases Nat.lt_or_ge (ign S y) (j + 1) with hlt | hge
        · exact Or.inl (h1 hlt)
        · right; rw [h2 hge]; exact hge }
  -- loop 2
  have hseg1 : Seg S1 (j + 1) 0 (pre ++ q0 :: []) 0 := by
    have := (R.lists (j + 1) (le_refl _)).1; rw [hL] at this; exact this
  obtain ⟨pre', q', rs, hr2, hnodes, hstop⟩ := removeLoop_stop C (j + 1) A.length pre q0 [] 0 S1
    (by rw [← hLlen, hL]; simp) hseg1
  rw [hr2]
  dsimp only
  have hsplit : RL O (j + 1) A = pre' ++ q' :: rs.reverse := by rw [hL, hnodes]
  have hrs_len : rs.length ≤ F := by
    have := congrArg List.length hsplit
    simp at this
    omega
  -- the middle part: in both cases the loop invariant holds at the start of loop 3
  have hmid : ∃ (hv : ℚ) (Tm : St),
      (if 1 < pre'.length + 1 then
          Option.map (fun S => (vl (removeSeq C (j + 1) S1 rs) (pv (removeSeq C (j + 1) S1 rs) (j + 1) q') (j + 1) +
              ar (removeSeq C (j + 1) S1 rs) (pv (removeSeq C (j + 1) S1 rs) (j + 1) q') (j + 1) *
              (cg C q' (j + 1) - cg C (pv (removeSeq C (j + 1) S1 rs) (j + 1) q') (j + 1)), S))
            (areaStep (hvRecursive C F j) (j + 1) (pre'.length + 1) q' (removeSeq C (j + 1) S1 rs))
        else some (0, (List.range (j + 1)).foldl (fun S i => setAr S q' (i + 1) (ar S q' i * -(cg C q' i)))
          (setAr (removeSeq C (j + 1) S1 rs) q' 0 1)))
        = some (hv, Tm) ∧ LInv C dims n O pt ref j A S1 (setVl Tm q' (j + 1) hv) pre' q' rs.reverse hv := by
    rcases List.eq_nil_or_concat pre' with hnil | ⟨dA, p0, hcons⟩
    · subst hnil
      rw [if_neg (by simp)]
      exact ⟨0, _, rfl, linv_start_single g j hj1 hj A S1 R q' rs hsplit⟩
    · rw [List.concat_eq_append] at hcons
      subst hcons
      rw [if_pos (by simp)]
      obtain ⟨b, hb1, hb2, hb3⟩ := hstop dA p0 rfl
      obtain ⟨hpv, T5, hstep, I⟩ := linv_start_multi g j hj1 hj F hrec A S1 R dA p0 q' rs hsplit ⟨b, hb1, hb2, hb3⟩
      rw [hpv, hstep]
      exact ⟨_, T5, rfl, I⟩
  obtain ⟨hv, Tm, hm1, I0⟩ := hmid
  rw [hm1]
  dsimp only
  -- loop 3
  obtain ⟨q'', hv', T', d0', hr3, If⟩ := loop3_ok g j hj1 hj F hrec A inv.nodup inv.sub S1 R.shape R.lists
    rs.reverse pre' q' hv (setVl Tm q' (j + 1) hv) F I0 (by simpa using hrs_len)
  have hlen' : (pre' ++ [q']).length = pre'.length + 1 := by simp
  rw [hlen'] at hr3
  rw [hr3]
  dsimp only
  -- the result
  have hfsplit : RL O (j + 1) A = d0' ++ [q''] := by have := If.split; simpa using this
  have hfmem : ∀ a, a ∈ d0' ++ [q''] ↔ a ∈ A := fun a => by rw [← hLA a, hfsplit]
  have hq''c := If.cache q'' (by simp)
  have hval : hv' - ar T' q'' (j + 1) * cg C q'' (j + 1) = Hj ref pt (j + 1) A := by
    rw [If.hvol, hq''c.1]
    exact Hj_of_last g j hj A inv.sub d0' q'' hfsplit
  have hptr : PtrEq S T' := r2.trans (by have := If.ptr; simpa [removeSeq] using this)
  refine ⟨_, T', rfl, ?_⟩
  exact
    { val := hval
      ptr := hptr
      inv :=
        { shape := If.shape
          tshape := If.tshape
          nodup := inv.nodup
          sub := inv.sub
          lists := fun i hi => dl_ptrEq hptr (inv.lists i hi)
          cv := by
            have hlow : CV C ref pt O T' (j + 1) A := cv_congr_set hfmem If.cv
            intro j' hj'1 hj'K a ha b hb hlt
            rcases Nat.lt_or_ge (j' + 1) (j + 1) with h | h
            · exact hlow j' hj'1 h a ha b hb hlt
            · have : j' = j := by omega
              subst this
              exact If.cache a ((hfmem a).mpr ha)
          ig := ig_congr_set hfmem If.ig }
      ign_out := by
        intro y hy hy0
        rw [If.f_ign y hy hy0]
        exact r8 y (fun h => hy ((hmem_q y).mp h))
      cache_hi := by
        intro a i hi
        obtain ⟨e1, e2⟩ := If.f_hi a i hi
        exact ⟨e1.trans (ar_of_area r4 a i), e2.trans (vl_of_volume r5 a i)⟩
      bounds_hi := by
        intro i hi
        rw [If.f_bhi i hi, r6] }

end ctx

end HvSweep
